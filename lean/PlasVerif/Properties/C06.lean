import PlasVerif.Proofs.Dom
import PlasVerif.Proofs.DomViews
import PlasVerif.Proofs.DomSpec
import PlasVerif.Proofs.DomClone
import PlasVerif.Proofs.DomNormalize
import PlasVerif.Proofs.DomCompare
import PlasVerif.Proofs.DomCompareSpec
import PlasVerif.Proofs.DomWF
import PlasVerif.Proofs.DomTreeBelow
import PlasVerif.Proofs.DomEq
/-!
# C06 — the document tree stays a consistent tree under DOM edits

Property theorems over the heap model `Model/Dom.lean`.  Helper lemmas: `Proofs/Dom.lean` (primitive steps, invariant,
owner, acyclicity, fragments, extend), `Proofs/DomViews.lean` (views against the unfolded tree), `Proofs/DomSpec.lean`
(the Spec's domain checks), `Proofs/DomTree.lean` (tree-level normalisation), `Proofs/DomClone.lean` (cloneNode),
`Proofs/DomNormalize.lean` (normalize), `Proofs/DomWF.lean` (well-formedness), `Proofs/DomTreeBelow.lean` (tree-ness),
`Proofs/DomCompare.lean`, `Proofs/DomCompareSpec.lean` (compareDocumentPosition).

Vocabulary: `NoAlias h` = no node's `childNodes` is its `attributes['self']` fragment; `NoAttr2 h` = no element holds a
fragment under another attribute key (the model's `attr2`, set by the driver operation `st`); `Inv h` = every child listed by a
non-fragment node names that node as `parentNode` and is listed once; `Detached h c` = `c` is listed by no
non-fragment node (the property's "detached argument"); `FragArg` = a fragment of distinct detached items;
`Acyclic h` = a rank decreases along every child edge; `Owned h` = every node's `ownerDocument` is the document that
created it; `WF h` = listed ids are allocated, no fragment is listed, nothing beyond the allocation counter;
`TreeBelow h s` = the unfolding of `s` repeats no node; `UpChain h a l` = `l` is the parent chain of `a`.

Proved for every history of the sixteen editing operations (`forest_reachable`): `Inv`, `Acyclic`, `Owned`, `WF`, and
`TreeBelow` for every non-fragment node.  Per operation: refinement of the plain list operation (`*_refines_list`,
single nodes and fragments) and agreement with the executable Spec (`*_commutes`).  Derived views, also without
`NoAlias`.  `cloneNode(True)`: equal, disjoint, detached (`clone_equal_disjoint`).  `normalize` at heap level =
`Tree.normalize` (`normalize_refines_tree`) with its three corollaries.  `compareDocumentPosition` = the preorder
comparison for two nodes of one tree, against the parent chains and against the Spec's `comparePos`.
`compareDocumentPosition_agrees_all`: equal to the Spec's `comparePos` for every pair of nodes with proper parent chains.
`unfolding_complete` / `views_fuel_irrelevant`: the driver's recursion fuel unfolds the whole tree of a reachable heap.
`clone_isEqualNode`: a deep clone is `==` its original both ways (`eqNode`).  `clone_keeps_forest`,
`normalize_keeps_forest`, `forest_reachable_all`: histories mixing the list operations with `cloneNode(True)` and
`normalize` stay well-formed forests.
`normalize_attribute_fragments` (end of file): `normalize` also normalises the fragment a node holds under another
attribute key (one level; nested attribute fragments are tied by the correspondence only).  No `…_statement` remains.
-/
namespace PlasVerif.Properties.C06
open PlasVerif.Model.Dom PlasVerif.Proofs.Dom PlasVerif.Proofs.DomViews PlasVerif.Proofs.DomSpec
open PlasVerif.Proofs.DomCompare PlasVerif.Proofs.DomWF PlasVerif.Proofs.DomCompareSpec
open PlasVerif.Spec

/-! ## the invariant and histories -/

theorem inv_init : Inv init := by
  constructor <;> intro n <;> simp [init]

/-- the documented editing operations, with single nodes as arguments -/
inductive Op
  | append (s c : Id)
  | insert (s : Id) (i : Int) (c : Id)
  | pop (s : Id) (i : Int)
  | removeChild (s c : Id)
  | insertBefore (s new ref : Id)
  | insertAfter (s new ref : Id)
  | replaceChild (s new old : Id)
  | setItem (s : Id) (i : Int) (c : Id)
  | extend (s : Id) (cs : List Id)
  | appendFrag (s c : Id)                 -- `append` with a fragment argument (its items are spliced in)
  | insertFrag (s : Id) (i : Int) (c : Id)
  | insertBeforeFrag (s new ref : Id)
  | insertAfterFrag (s new ref : Id)
  | replaceChildFrag (s new old : Id)
  | setItemFrag (s : Id) (i : Int) (c : Id)
  | extendAny (s : Id) (cs : List Id)     -- `extend` with any mix of single nodes and fragments

/-- what the model does for an operation (the error, if any, is dropped: the state is what matters) -/
def applyOp (h : Heap) : Op → Heap
  | .append s c => (opAppend h s c).1
  | .insert s i c => (opInsert h s i c).1
  | .pop s i => (opPop h s i).1
  | .removeChild s c => (removeChild h s c).1
  | .insertBefore s n r => (insertBefore h s n r).1
  | .insertAfter s n r => (insertAfter h s n r).1
  | .replaceChild s n o => (replaceChild h s n o).1
  | .setItem s i c => (setItem h s i c).1
  | .extend s cs => (extend h s cs).1
  | .appendFrag s c => (opAppend h s c).1
  | .insertFrag s i c => (opInsert h s i c).1
  | .insertBeforeFrag s n r => (insertBefore h s n r).1
  | .insertAfterFrag s n r => (insertAfter h s n r).1
  | .replaceChildFrag s n o => (replaceChild h s n o).1
  | .setItemFrag s i c => (setItem h s i c).1
  | .extendAny s cs => (extend h s cs).1

/-- the documented precondition: the argument is a detached node (for the three moving operations it may
    already be a child of the receiver); nothing is required of indexes, references or the receiver -/
def Pre (h : Heap) : Op → Prop
  | .append _ c => h.kind c ≠ .frag ∧ Detached h c
  | .insert _ _ c => h.kind c ≠ .frag ∧ Detached h c
  | .setItem _ _ c => h.kind c ≠ .frag ∧ Detached h c
  | .pop _ _ => True
  | .removeChild _ _ => True
  | .insertBefore s n _ => h.kind n ≠ .frag ∧ DetachedExcept h s n
  | .insertAfter s n _ => h.kind n ≠ .frag ∧ DetachedExcept h s n
  | .replaceChild s n _ => h.kind n ≠ .frag ∧ DetachedExcept h s n
  | .extend _ cs => cs.Nodup ∧ ∀ c ∈ cs, h.kind c ≠ .frag ∧ Detached h c
  | .appendFrag s c => FragArg h s c
  | .insertFrag s _ c => FragArg h s c
  | .insertBeforeFrag s n _ => FragArg h s n
  | .insertAfterFrag s n _ => FragArg h s n
  | .replaceChildFrag s n _ => FragArg h s n
  | .setItemFrag s _ c => FragArg h s c
  | .extendAny s cs => ExtendPre s h cs

/-- histories whose every step meets its precondition in the state it is applied to -/
def Valid : Heap → List Op → Prop
  | _, [] => True
  | h, o :: os => Pre h o ∧ Valid (applyOp h o) os

private theorem inv_insertRel (off : Nat) (h : Heap) (s n r : Id) (ha : NoAlias h) (hi : Inv h)
    (hk : h.kind n ≠ .frag) (hd : DetachedExcept h s n) :
    NoAlias (insertRel off h s n r).1 ∧ Inv (insertRel off h s n r).1 := by
  rw [insertRel_eq ha off s n r hk]
  have ha1 := noAlias_removeChild ha s n
  have hi1 := inv_removeChild ha hi s n
  have hd1 := detached_after_remove ha hi s n hd
  simp only
  split
  · exact ⟨noAlias_putAt ha1 _ _ _, inv_putAt hi1 s _ n hd1⟩
  · exact ⟨ha1, hi1⟩

/-- every operation keeps the invariant (and introduces no alias) when its precondition holds -/
theorem inv_step (h : Heap) (o : Op) (ha : NoAlias h) (hi : Inv h) (hp : Pre h o) :
    NoAlias (applyOp h o) ∧ Inv (applyOp h o) := by
  cases o with
  | append s c =>
    simp only [applyOp, opAppend_leaf ha s c hp.1]
    exact ⟨noAlias_putAt ha _ _ _, inv_putAt hi s _ c hp.2⟩
  | insert s i c =>
    simp only [applyOp, opInsert_leaf ha s i c hp.1]
    exact ⟨noAlias_putAt ha _ _ _, inv_putAt hi s _ c hp.2⟩
  | pop s i =>
    simp only [applyOp, opPop_fst]
    exact ⟨noAlias_pop ha s i, inv_pop ha hi s i⟩
  | removeChild s c => exact ⟨noAlias_removeChild ha s c, inv_removeChild ha hi s c⟩
  | insertBefore s n r => exact inv_insertRel 0 h s n r ha hi hp.1 hp.2
  | insertAfter s n r => exact inv_insertRel 1 h s n r ha hi hp.1 hp.2
  | replaceChild s n old =>
    simp only [applyOp]
    rw [replaceChild_eq ha s n old hp.1]
    have ha1 := noAlias_removeChild ha s n
    have hi1 := inv_removeChild ha hi s n
    have hd1 := detached_after_remove ha hi s n hp.2
    simp only
    split
    · exact ⟨noAlias_putAt (noAlias_pop ha1 _ _) _ _ _,
             inv_putAt (inv_pop ha1 hi1 _ _) s _ n (detached_pop ha1 _ _ n hd1)⟩
    · exact ⟨ha1, hi1⟩
  | setItem s i c =>
    simp only [applyOp]
    rw [setItem_eq ha s i c hp.1]
    have ha1 := noAlias_putAt ha s (pyInsPos (h.kids s).length i) c
    exact ⟨noAlias_pop ha1 _ _, inv_pop ha1 (inv_putAt hi s _ c hp.2) _ _⟩
  | extend s cs =>
    simp only [applyOp]
    rw [extend_eq s cs h ha (fun c hc => (hp.2 c hc).1)]
    exact inv_appendAll s cs h ha hi hp.1 (fun c hc => (hp.2 c hc).2)
  | appendFrag s c =>
    obtain ⟨hk, hne, hdc, hnd, hit⟩ := hp
    have hcn : c ∉ h.kids c := fun hm => (hit c hm).1 hk
    simp only [applyOp, opAppend, splices_ne ha s c hne, Bool.false_eq_true, if_false,
      append_frag_eq ha s c hk (fun it hm => (hit it hm).1)]
    have := inv_appendAll s (h.kids c) h ha hi hnd (fun it hm => (hit it hm).2)
    exact ⟨noAlias_setPO this.1 s c, inv_setPO this.2 s c (detached_appendAll s _ c h hcn hdc)⟩
  | insertFrag s i c =>
    obtain ⟨hk, hne, hdc, hnd, hit⟩ := hp
    have hcn : c ∉ h.kids c := fun hm => (hit c hm).1 hk
    simp only [applyOp, opInsert, splices_ne ha s c hne, Bool.false_eq_true, if_false,
      insert_frag_eq ha s i c hk (fun it hm => (hit it hm).1)]
    have := inv_insertAll s (h.kids c) h i ha hi hnd (fun it hm => (hit it hm).2)
    exact ⟨noAlias_setPO this.1 s c, inv_setPO this.2 s c (detached_insertAll s _ c h i hcn hdc)⟩
  | insertBeforeFrag s n r => exact insertRel_frag_inv ha hi 0 s n r hp
  | insertAfterFrag s n r => exact insertRel_frag_inv ha hi 1 s n r hp
  | replaceChildFrag s n o => exact replaceChild_frag_inv ha hi s n o hp
  | setItemFrag s i c => exact setItem_frag_inv ha hi s i c hp
  | extendAny s cs =>
    simp only [applyOp, (extend_any_fst ha s cs hp).1]
    exact extend_any_inv s cs h ha hi hp

/-- **the tree invariant holds after every history** of append, insert, pop, removeChild, insertBefore,
    insertAfter, replaceChild, item assignment and extend with single-node arguments and of append / insert
    with fragment arguments (any indexes and references, any length) whose steps meet their preconditions -/
theorem inv_reachable (ops : List Op) : ∀ h, NoAlias h → Inv h → Valid h ops →
    Inv (ops.foldl applyOp h) := by
  induction ops with
  | nil => intro h _ hi _; exact hi
  | cons o os ih =>
    intro h ha hi hv
    have := inv_step h o ha hi hv.1
    exact ih _ this.1 this.2 hv.2

/-- non-vacuity: two fresh elements; append 1 to the document, insert 2 before it, replace 1 by itself … -/
example : Valid ((create (create init 0 .elem 0 []).1 0 .elem 1 []).1)
    [.append 0 1, .insertBefore 0 2 1, .pop 0 (-1)] := by
  refine ⟨⟨by decide, ?_⟩, ⟨by decide, ?_⟩, trivial, trivial⟩
  · intro n _; simp [create, init, upd]
  · intro n _ hn; simp [applyOp, opAppend, splices, create, init, upd, fuelOf, append, appendLeaf, setPO, rawAppend, hn]

/-- **every node keeps the document that created it**, whatever the operation -/
theorem owner_preserved (h : Heap) (o : Op) (ha : NoAlias h) (hi : Inv h) (hp : Pre h o) (ho : Owned h) :
    Owned (applyOp h o) := by
  cases o with
  | append s c => simp only [applyOp, opAppend_leaf ha s c hp.1]; exact owned_putAt ho _ _ _
  | insert s i c => simp only [applyOp, opInsert_leaf ha s i c hp.1]; exact owned_putAt ho _ _ _
  | pop s i => simp only [applyOp, opPop_fst]; exact owned_pop ha ho s i
  | removeChild s c => exact owned_removeChild ha ho s c
  | insertBefore s n r =>
    simp only [applyOp, insertBefore]; rw [insertRel_eq ha 0 s n r hp.1]; simp only
    split
    · exact owned_putAt (owned_removeChild ha ho s n) _ _ _
    · exact owned_removeChild ha ho s n
  | insertAfter s n r =>
    simp only [applyOp, insertAfter]; rw [insertRel_eq ha 1 s n r hp.1]; simp only
    split
    · exact owned_putAt (owned_removeChild ha ho s n) _ _ _
    · exact owned_removeChild ha ho s n
  | replaceChild s n old =>
    simp only [applyOp]; rw [replaceChild_eq ha s n old hp.1]; simp only
    split
    · exact owned_putAt (owned_pop (noAlias_removeChild ha s n) (owned_removeChild ha ho s n) _ _) _ _ _
    · exact owned_removeChild ha ho s n
  | setItem s i c =>
    simp only [applyOp]; rw [setItem_eq ha s i c hp.1]
    exact owned_pop (noAlias_putAt ha _ _ _) (owned_putAt ho _ _ _) _ _
  | extend s cs =>
    simp only [applyOp]; rw [extend_eq s cs h ha (fun c hc => (hp.2 c hc).1)]
    exact owned_appendAll s cs h ho
  | appendFrag s c =>
    obtain ⟨hk, hne, _, _, hit⟩ := hp
    simp only [applyOp, opAppend, splices_ne ha s c hne, Bool.false_eq_true, if_false,
      append_frag_eq ha s c hk (fun it hm => (hit it hm).1)]
    exact owned_setPO (owned_appendAll s _ h ho) s c
  | insertFrag s i c =>
    obtain ⟨hk, hne, _, _, hit⟩ := hp
    simp only [applyOp, opInsert, splices_ne ha s c hne, Bool.false_eq_true, if_false,
      insert_frag_eq ha s i c hk (fun it hm => (hit it hm).1)]
    exact owned_setPO (owned_insertAll s _ h i ho) s c
  | insertBeforeFrag s n r => exact insertRel_frag_owned ha ho 0 s n r hp
  | insertAfterFrag s n r => exact insertRel_frag_owned ha ho 1 s n r hp
  | replaceChildFrag s n o => exact replaceChild_frag_owned ha ho s n o hp
  | setItemFrag s i c => exact setItem_frag_owned ha ho s i c hp
  | extendAny s cs =>
    simp only [applyOp, (extend_any_fst ha s cs hp).1]
    exact extend_any_owned s cs h ha hi ho hp

/-- … hence after every valid history -/
theorem owner_reachable (ops : List Op) : ∀ h, NoAlias h → Inv h → Owned h → Valid h ops →
    Owned (ops.foldl applyOp h) := by
  induction ops with
  | nil => intro h _ _ ho _; exact ho
  | cons o os ih =>
    intro h ha hi ho hv
    have := inv_step h o ha hi hv.1
    exact ih _ this.1 this.2 (owner_preserved h o ha hi hv.1 ho) hv.2

example : Owned init := fun _ => rfl

/-- the argument (every item of a fragment or list argument) is not the receiver or one of its ancestors -/
def NotAncestor (h : Heap) : Op → Prop
  | .append s c => ¬ Reaches h c s
  | .insert s _ c => ¬ Reaches h c s
  | .setItem s _ c => ¬ Reaches h c s
  | .pop _ _ => True
  | .removeChild _ _ => True
  | .insertBefore s n _ => ¬ Reaches h n s
  | .insertAfter s n _ => ¬ Reaches h n s
  | .replaceChild s n _ => ¬ Reaches h n s
  | .extend s cs => ∀ c ∈ cs, ¬ Reaches h c s
  | .appendFrag s c => ∀ it ∈ h.kids c, ¬ Reaches h it s
  | .insertFrag s _ c => ∀ it ∈ h.kids c, ¬ Reaches h it s
  | .insertBeforeFrag s n _ => ∀ it ∈ h.kids n, ¬ Reaches h it s
  | .insertAfterFrag s n _ => ∀ it ∈ h.kids n, ¬ Reaches h it s
  | .replaceChildFrag s n _ => ∀ it ∈ h.kids n, ¬ Reaches h it s
  | .setItemFrag s _ c => ∀ it ∈ h.kids c, ¬ Reaches h it s
  | .extendAny s cs => ExtendSafe s h cs

/-- **the child lists stay acyclic** (a rank decreases along every child edge) under every operation whose
    argument is not an ancestor of the receiver -/
theorem acyclic_step (h : Heap) (o : Op) (ha : NoAlias h) (hi : Inv h) (hp : Pre h o) (hs : NotAncestor h o)
    (hac : Acyclic h) :
    Acyclic (applyOp h o) := by
  cases o with
  | append s c => simp only [applyOp, opAppend_leaf ha s c hp.1]; exact acyclic_putAt hac _ _ _ hs
  | insert s i c => simp only [applyOp, opInsert_leaf ha s i c hp.1]; exact acyclic_putAt hac _ _ _ hs
  | pop s i => simp only [applyOp, opPop_fst]; exact acyclic_pop ha hac s i
  | removeChild s c => exact acyclic_removeChild ha hac s c
  | insertBefore s n r =>
    simp only [applyOp, insertBefore]; rw [insertRel_eq ha 0 s n r hp.1]; simp only
    split
    · exact acyclic_putAt (acyclic_removeChild ha hac s n) _ _ _
        (fun hr => hs (reaches_mono (removeChild_kids_sub ha s n) hr))
    · exact acyclic_removeChild ha hac s n
  | insertAfter s n r =>
    simp only [applyOp, insertAfter]; rw [insertRel_eq ha 1 s n r hp.1]; simp only
    split
    · exact acyclic_putAt (acyclic_removeChild ha hac s n) _ _ _
        (fun hr => hs (reaches_mono (removeChild_kids_sub ha s n) hr))
    · exact acyclic_removeChild ha hac s n
  | replaceChild s n old =>
    simp only [applyOp]; rw [replaceChild_eq ha s n old hp.1]; simp only
    have ha1 := noAlias_removeChild ha s n
    split
    · exact acyclic_putAt (acyclic_pop ha1 (acyclic_removeChild ha hac s n) _ _) _ _ _
        (fun hr => hs (reaches_mono (removeChild_kids_sub ha s n) (reaches_mono (pop_kids_sub ha1 s _) hr)))
    · exact acyclic_removeChild ha hac s n
  | setItem s i c =>
    simp only [applyOp]; rw [setItem_eq ha s i c hp.1]
    exact acyclic_pop (noAlias_putAt ha _ _ _) (acyclic_putAt hac _ _ _ hs) _ _
  | extend s cs =>
    simp only [applyOp]; rw [extend_eq s cs h ha (fun c hc => (hp.2 c hc).1)]
    exact acyclic_appendAll s cs h hac hs
  | appendFrag s c =>
    obtain ⟨hk, hne, _, _, hit⟩ := hp
    simp only [applyOp, opAppend, splices_ne ha s c hne, Bool.false_eq_true, if_false,
      append_frag_eq ha s c hk (fun it hm => (hit it hm).1)]
    exact acyclic_setPO (acyclic_appendAll s _ h hac hs) s c
  | insertFrag s i c =>
    obtain ⟨hk, hne, _, _, hit⟩ := hp
    simp only [applyOp, opInsert, splices_ne ha s c hne, Bool.false_eq_true, if_false,
      insert_frag_eq ha s i c hk (fun it hm => (hit it hm).1)]
    exact acyclic_setPO (acyclic_insertAll s _ h i hac hs) s c
  | insertBeforeFrag s n r => exact insertRel_frag_acyclic ha hac 0 s n r hp hs
  | insertAfterFrag s n r => exact insertRel_frag_acyclic ha hac 1 s n r hp hs
  | replaceChildFrag s n o => exact replaceChild_frag_acyclic ha hac s n o hp hs
  | setItemFrag s i c => exact setItem_frag_acyclic ha hac s i c hp hs
  | extendAny s cs =>
    simp only [applyOp, (extend_any_fst ha s cs hp).1]
    exact extend_any_acyclic s cs h ha hi hac hp hs

/-- histories whose every step meets its precondition and never puts an ancestor below itself -/
def ValidTree : Heap → List Op → Prop
  | _, [] => True
  | h, o :: os => Pre h o ∧ NotAncestor h o ∧ ValidTree (applyOp h o) os

/-- **after every such history the structure is a forest**: parent links of listed children are right, nothing is
    listed twice, no node is its own descendant, every node keeps its document -/
theorem tree_reachable (ops : List Op) : ∀ h, NoAlias h → Inv h → Acyclic h → Owned h → ValidTree h ops →
    Inv (ops.foldl applyOp h) ∧ Acyclic (ops.foldl applyOp h) ∧ Owned (ops.foldl applyOp h) := by
  induction ops with
  | nil => intro h _ hi hac ho _; exact ⟨hi, hac, ho⟩
  | cons o os ih =>
    intro h ha hi hac ho hv
    have := inv_step h o ha hi hv.1
    exact ih _ this.1 this.2 (acyclic_step h o ha hi hv.1 hv.2.1 hac) (owner_preserved h o ha hi hv.1 ho) hv.2.2

/-- non-vacuity of `tree_reachable`: two fresh elements; append 1 to the document, insert 2 before it, pop the last -/
example : ValidTree ((create (create init 0 .elem 0 []).1 0 .elem 1 []).1)
    [.append 0 1, .insertBefore 0 2 1, .pop 0 (-1)] := by
  refine ⟨⟨by decide, ?_⟩, ?_, ⟨by decide, ?_⟩, ?_, trivial, trivial, trivial⟩
  · intro n _; simp [create, init, upd]
  · intro hr; exact absurd (reaches_leaf (by simp [create, init, upd]) hr) (by decide)
  · intro n _ hn; simp [applyOp, opAppend, splices, create, init, upd, fuelOf, append, appendLeaf, setPO, rawAppend, hn]
  · intro hr
    exact absurd (reaches_leaf (by simp [applyOp, opAppend, splices, create, init, upd, fuelOf, append, appendLeaf, setPO, rawAppend]) hr) (by decide)

example : Acyclic init := ⟨fun _ => 0, by intro n x hx; simp [init] at hx⟩

/-! ## well-formedness (`WF`: listed ids are allocated, no fragment is listed, nothing beyond the allocation counter) -/

/-- receiver and arguments are allocated nodes -/
def Allocated (h : Heap) : Op → Prop
  | .append s c => s < h.next ∧ c < h.next
  | .insert s _ c => s < h.next ∧ c < h.next
  | .setItem s _ c => s < h.next ∧ c < h.next
  | .pop _ _ => True
  | .removeChild _ _ => True
  | .insertBefore s n _ => s < h.next ∧ n < h.next
  | .insertAfter s n _ => s < h.next ∧ n < h.next
  | .replaceChild s n _ => s < h.next ∧ n < h.next
  | .extend s cs => s < h.next ∧ ∀ c ∈ cs, c < h.next
  | .appendFrag s c => s < h.next ∧ c < h.next
  | .insertFrag s _ c => s < h.next ∧ c < h.next
  | .insertBeforeFrag s n _ => s < h.next ∧ n < h.next
  | .insertAfterFrag s n _ => s < h.next ∧ n < h.next
  | .replaceChildFrag s n _ => s < h.next ∧ n < h.next
  | .setItemFrag s _ c => s < h.next ∧ c < h.next
  | .extendAny s cs => s < h.next ∧ ∀ c ∈ cs, c < h.next

/-- every operation keeps the heap well-formed and allocates nothing -/
theorem wf_step (h : Heap) (o : Op) (ha : NoAlias h) (hi : Inv h) (hp : Pre h o) (hal : Allocated h o) (hw : WF h) :
    WF (applyOp h o) := by
  cases o with
  | append s c => exact wf_opAppend_leaf ha hw s c hal.1 hal.2 hp.1
  | insert s i c => exact wf_opInsert_leaf ha hw s i c hal.1 hal.2 hp.1
  | pop s i => simp only [applyOp, opPop_fst]; exact wf_pop ha hw s i
  | removeChild s c => exact wf_removeChild ha hw s c
  | insertBefore s n r => exact wf_insertRel_leaf ha hw 0 s n r hal.1 hal.2 hp.1
  | insertAfter s n r => exact wf_insertRel_leaf ha hw 1 s n r hal.1 hal.2 hp.1
  | replaceChild s n o => exact wf_replaceChild_leaf ha hw s n o hal.1 hal.2 hp.1
  | setItem s i c => exact wf_setItem_leaf ha hw s i c hal.1 hal.2 hp.1
  | extend s cs => exact wf_extend_leaf ha hw s cs hal.1 (fun c hc => ⟨hal.2 c hc, (hp.2 c hc).1⟩)
  | appendFrag s c => exact wf_opAppend_frag ha hw s c hal.1 hal.2 hp
  | insertFrag s i c => exact wf_opInsert_frag ha hw s i c hal.1 hal.2 hp
  | insertBeforeFrag s n r => exact wf_insertRel_frag ha hw 0 s n r hal.1 hal.2 hp
  | insertAfterFrag s n r => exact wf_insertRel_frag ha hw 1 s n r hal.1 hal.2 hp
  | replaceChildFrag s n o => exact wf_replaceChild_frag ha hw s n o hal.1 hal.2 hp
  | setItemFrag s i c => exact wf_setItem_frag ha hw s i c hal.1 hal.2 hp
  | extendAny s cs =>
    simp only [applyOp, (extend_any_fst ha s cs hp).1]
    exact wf_extend_any s cs h ha hi hw hal.1 hal.2 hp

example : WF init := ⟨fun n hn c hc => by simp [init] at hc, fun n _ => rfl⟩

/-! ## each operation refines the plain list operation -/

/-- `append`: `l ++ [c]`, no other list changes -/
theorem append_refines_list (h : Heap) (s c : Id) (ha : NoAlias h) (hc : h.kind c ≠ .frag) :
    (opAppend h s c).1.kids s = h.kids s ++ [c] ∧ (∀ n, n ≠ s → (opAppend h s c).1.kids n = h.kids n) ∧
    (opAppend h s c).2 = none := by
  rw [opAppend_leaf ha s c hc]
  exact ⟨putAt_end_kids h s c, fun n hn => putAt_kids_other h s _ c n hn, rfl⟩

example : (opAppend (create init 0 .elem 0 []).1 0 1).1.kids 0 = [1] := by decide

/-- `insert` at an index in range: the splice -/
theorem insert_refines_list (h : Heap) (s c : Id) (i : Nat) (ha : NoAlias h) (hc : h.kind c ≠ .frag)
    (hi : i ≤ (h.kids s).length) :
    (opInsert h s i c).1.kids s = (h.kids s).take i ++ c :: (h.kids s).drop i ∧
    ∀ n, n ≠ s → (opInsert h s i c).1.kids n = h.kids n := by
  rw [opInsert_leaf ha s i c hc, pyInsPos_nat hi]
  exact ⟨putAt_kids_self h s i c, fun n hn => putAt_kids_other h s i c n hn⟩

/-- `pop` with an index in range: `eraseIdx`, and the popped node no longer names the receiver as parent -/
theorem pop_refines_list (h : Heap) (s : Id) (i : Nat) (ha : NoAlias h) (hi : i < (h.kids s).length) :
    (opPop h s i).1.kids s = (h.kids s).eraseIdx i ∧ (∀ n, n ≠ s → (opPop h s i).1.kids n = h.kids n) ∧
    (opPop h s i).1.parent ((h.kids s)[i]) ≠ some s := by
  rw [opPop_fst, pop_eq ha s i i _ (pyPopPos_nat hi) (List.getElem?_eq_getElem hi)]
  refine ⟨takeAt_kids_self h s i _, fun n hn => takeAt_kids_other h s i _ n hn, ?_⟩
  simp only [takeAt, upd, if_true]
  split <;> simp_all

/-- negative indexes count from the end, as for a Python list -/
theorem pop_last_refines_list (h : Heap) (s : Id) (ha : NoAlias h) (hne : h.kids s ≠ []) :
    (opPop h s (-1)).1.kids s = (h.kids s).dropLast := by
  have hlen : 0 < (h.kids s).length := List.length_pos_iff.mpr hne
  have hp : pyPopPos (h.kids s).length (-1) = some ((h.kids s).length - 1) := by
    unfold pyPopPos; simp; omega
  have hlt : (h.kids s).length - 1 < (h.kids s).length := by omega
  rw [opPop_fst, pop_eq ha s (-1) _ _ hp (List.getElem?_eq_getElem hlt), takeAt_kids_self]
  exact List.eraseIdx_length_sub_one

/-- `removeChild`: erase the first occurrence (nothing changes when absent), no other list changes -/
theorem removeChild_refines_list (h : Heap) (s c : Id) (ha : NoAlias h) :
    (removeChild h s c).1.kids s = (h.kids s).erase c ∧ ∀ n, n ≠ s → (removeChild h s c).1.kids n = h.kids n :=
  ⟨removeChild_kids_self ha s c, fun n hn => removeChild_kids_other ha s c n hn⟩

private theorem insertRel_refines (off : Nat) (hoff : off ≤ 1) (h : Heap) (s new ref : Id) (ha : NoAlias h)
    (hc : h.kind new ≠ .frag) (hr : ref ∈ (h.kids s).erase new) :
    (insertRel off h s new ref).1.kids s =
      ((h.kids s).erase new).take (((h.kids s).erase new).idxOf ref + off) ++
        new :: ((h.kids s).erase new).drop (((h.kids s).erase new).idxOf ref + off) ∧
    ∀ n, n ≠ s → (insertRel off h s new ref).1.kids n = h.kids n := by
  rw [insertRel_eq ha off s new ref hc]
  simp only [removeChild_kids_self ha, hr, if_true]
  have hlt := List.idxOf_lt_length_of_mem hr
  rw [pyInsPos_nat (by omega)]
  refine ⟨?_, fun n hn => ?_⟩
  · rw [putAt_kids_self, removeChild_kids_self ha]
  · rw [putAt_kids_other _ s _ new n hn, removeChild_kids_other ha s new n hn]

/-- `insertBefore(new, ref)`: `new` is first taken out of the list (a move), then spliced in before `ref` -/
theorem insertBefore_refines_list (h : Heap) (s new ref : Id) (ha : NoAlias h) (hc : h.kind new ≠ .frag)
    (hr : ref ∈ (h.kids s).erase new) :
    (insertBefore h s new ref).1.kids s =
      ((h.kids s).erase new).take (((h.kids s).erase new).idxOf ref) ++
        new :: ((h.kids s).erase new).drop (((h.kids s).erase new).idxOf ref) ∧
    ∀ n, n ≠ s → (insertBefore h s new ref).1.kids n = h.kids n :=
  insertRel_refines 0 (by omega) h s new ref ha hc hr

/-- `insertAfter(new, ref)` -/
theorem insertAfter_refines_list (h : Heap) (s new ref : Id) (ha : NoAlias h) (hc : h.kind new ≠ .frag)
    (hr : ref ∈ (h.kids s).erase new) :
    (insertAfter h s new ref).1.kids s =
      ((h.kids s).erase new).take (((h.kids s).erase new).idxOf ref + 1) ++
        new :: ((h.kids s).erase new).drop (((h.kids s).erase new).idxOf ref + 1) ∧
    ∀ n, n ≠ s → (insertAfter h s new ref).1.kids n = h.kids n :=
  insertRel_refines 1 (by omega) h s new ref ha hc hr

example : (insertBefore (opAppend (opAppend (create (create init 0 .elem 0 []).1 0 .elem 1 []).1 0 1).1 0 2).1 0 2 1).1.kids 0 = [2, 1] := by
  decide

/-- `replaceChild(new, old)`: `new` is first taken out of the list, then takes the place of `old` -/
theorem replaceChild_refines_list (h : Heap) (s new old : Id) (ha : NoAlias h) (hc : h.kind new ≠ .frag)
    (hr : old ∈ (h.kids s).erase new) :
    (replaceChild h s new old).1.kids s =
      ((h.kids s).erase new).take (((h.kids s).erase new).idxOf old) ++
        new :: ((h.kids s).erase new).drop (((h.kids s).erase new).idxOf old + 1) ∧
    ∀ n, n ≠ s → (replaceChild h s new old).1.kids n = h.kids n := by
  rw [replaceChild_eq ha s new old hc]
  have ha1 := noAlias_removeChild ha s new
  simp only [removeChild_kids_self ha, hr, if_true]
  have hlt := List.idxOf_lt_length_of_mem hr
  have hx : ((removeChild h s new).1.kids s)[((h.kids s).erase new).idxOf old]? = some old := by
    rw [removeChild_kids_self ha, List.getElem?_eq_getElem hlt, List.getElem_idxOf hlt]
  have hpop := pop_eq ha1 s (((h.kids s).erase new).idxOf old : Nat) _ old
    (by rw [removeChild_kids_self ha]; exact pyPopPos_nat hlt) hx
  rw [hpop]
  simp only [takeAt_kids_self, removeChild_kids_self ha]
  rw [pyInsPos_nat (by rw [List.length_eraseIdx]; simp [hlt]; omega)]
  refine ⟨?_, fun n hn => ?_⟩
  · rw [putAt_kids_self, takeAt_kids_self, removeChild_kids_self ha,
        take_eraseIdx_self _ _ hlt, drop_eraseIdx_self _ _ hlt]
  · rw [putAt_kids_other _ s _ new n hn, takeAt_kids_other _ s _ old n hn, removeChild_kids_other ha s new n hn]

/-- item assignment `node[i] = c` with `0 ≤ i < len`: the plain list update -/
theorem setItem_refines_list (h : Heap) (s c : Id) (i : Nat) (ha : NoAlias h) (hc : h.kind c ≠ .frag)
    (hi : i < (h.kids s).length) :
    (setItem h s i c).1.kids s = (h.kids s).take i ++ c :: (h.kids s).drop (i + 1) ∧
    ∀ n, n ≠ s → (setItem h s i c).1.kids n = h.kids n := by
  rw [setItem_eq ha s i c hc, pyInsPos_nat (Nat.le_of_lt hi)]
  have ha1 := noAlias_putAt ha s i c
  have hlen : i + 1 < ((putAt h s i c).kids s).length := by
    rw [putAt_kids_self]; simp; omega
  have hpop := pop_eq ha1 s ((i : Int) + 1) (i + 1) _ (by exact_mod_cast pyPopPos_nat hlen) (List.getElem?_eq_getElem hlen)
  rw [hpop]
  refine ⟨?_, fun n hn => ?_⟩
  · rw [takeAt_kids_self, putAt_kids_self, eraseIdx_succ_middle _ _ _ hi]
  · rw [takeAt_kids_other _ s _ _ n hn, putAt_kids_other h s i c n hn]

/-- observation O3 as a theorem: `node[len(node)] = c` appends `c` and then raises IndexError -/
theorem setItem_out_of_range_raises (h : Heap) (s c : Id) (ha : NoAlias h) (hc : h.kind c ≠ .frag) :
    (setItem h s (h.kids s).length c).2 = some .indexError ∧
    (setItem h s (h.kids s).length c).1.kids s = h.kids s ++ [c] := by
  have ha1 := noAlias_putAt ha s (h.kids s).length c
  have hnone : pyPopPos ((putAt h s (h.kids s).length c).kids s).length (((h.kids s).length : Int) + 1) = none := by
    rw [putAt_end_kids]; unfold pyPopPos; simp; omega
  have hp := pop_none ha1 s _ hnone
  simp only [setItem, splices_leaf h s c hc, hc, if_false, insert_fuelOf ha s _ c hc, pyInsPos_nat (Nat.le_refl _)]
  unfold opPop
  rw [hp]
  exact ⟨rfl, putAt_end_kids h s c⟩

/-- `extend` with a list of single nodes: `l ++ cs` -/
theorem extend_refines_list (h : Heap) (s : Id) (cs : List Id) (ha : NoAlias h) (hc : ∀ c ∈ cs, h.kind c ≠ .frag) :
    (extend h s cs).1.kids s = h.kids s ++ cs ∧ (∀ n, n ≠ s → (extend h s cs).1.kids n = h.kids n) ∧
    (extend h s cs).2 = none := by
  rw [extend_eq s cs h ha hc]
  exact ⟨(kids_appendAll s cs h).1, (kids_appendAll s cs h).2, rfl⟩

/-! ## fragment arguments: the items are spliced in, in order -/

/-- `append(fragment)`: `l ++ items`; the fragment keeps its own list, no other list changes -/
theorem append_fragment_refines_list (h : Heap) (s c : Id) (ha : NoAlias h) (hk : h.kind c = .frag) (hne : c ≠ s)
    (hit : ∀ it ∈ h.kids c, h.kind it ≠ .frag) :
    (opAppend h s c).1.kids s = h.kids s ++ h.kids c ∧ (∀ n, n ≠ s → (opAppend h s c).1.kids n = h.kids n) ∧
    (opAppend h s c).2 = none := by
  simp only [opAppend, splices_ne ha s c hne, Bool.false_eq_true, if_false, append_frag_eq ha s c hk hit, setPO_kids]
  exact ⟨(kids_appendAll s _ h).1, (kids_appendAll s _ h).2, trivial⟩

/-- `insert(i, fragment)` with `0 ≤ i ≤ len`: the items are spliced in at `i`, in order -/
theorem insert_fragment_refines_list (h : Heap) (s c : Id) (i : Nat) (ha : NoAlias h) (hk : h.kind c = .frag)
    (hne : c ≠ s) (hit : ∀ it ∈ h.kids c, h.kind it ≠ .frag) (hi : i ≤ (h.kids s).length) :
    (opInsert h s i c).1.kids s = (h.kids s).take i ++ h.kids c ++ (h.kids s).drop i ∧
    (∀ n, n ≠ s → (opInsert h s i c).1.kids n = h.kids n) := by
  simp only [opInsert, splices_ne ha s c hne, Bool.false_eq_true, if_false, insert_frag_eq ha s i c hk hit, setPO_kids]
  exact kids_insertAll s _ h i hi

private theorem insertRel_fragment_refines (off : Nat) (hoff : off ≤ 1) (h : Heap) (s new ref : Id) (ha : NoAlias h)
    (hk : h.kind new = .frag) (hne : new ≠ s) (hit : ∀ it ∈ h.kids new, h.kind it ≠ .frag)
    (hr : ref ∈ (h.kids s).erase new) :
    (insertRel off h s new ref).1.kids s =
      ((h.kids s).erase new).take (((h.kids s).erase new).idxOf ref + off) ++ h.kids new ++
        ((h.kids s).erase new).drop (((h.kids s).erase new).idxOf ref + off) ∧
    ∀ n, n ≠ s → (insertRel off h s new ref).1.kids n = h.kids n := by
  rw [insertRel_frag_eq ha off s new ref hk hne hit]
  simp only [removeChild_kids_self ha, hr, if_true, setPO_kids]
  have hlt := List.idxOf_lt_length_of_mem hr
  have := kids_insertAll s (h.kids new) (removeChild h s new).1 (((h.kids s).erase new).idxOf ref + off)
    (by rw [removeChild_kids_self ha]; omega)
  refine ⟨?_, fun n hn => ?_⟩
  · rw [this.1, removeChild_kids_self ha]
  · rw [this.2 n hn, removeChild_kids_other ha s new n hn]

/-- `insertBefore(fragment, ref)`: the items are spliced in before `ref`, in order -/
theorem insertBefore_fragment_refines_list (h : Heap) (s new ref : Id) (ha : NoAlias h)
    (hk : h.kind new = .frag) (hne : new ≠ s) (hit : ∀ it ∈ h.kids new, h.kind it ≠ .frag)
    (hr : ref ∈ (h.kids s).erase new) :
    (insertBefore h s new ref).1.kids s =
      ((h.kids s).erase new).take (((h.kids s).erase new).idxOf ref) ++ h.kids new ++
        ((h.kids s).erase new).drop (((h.kids s).erase new).idxOf ref) ∧
    ∀ n, n ≠ s → (insertBefore h s new ref).1.kids n = h.kids n :=
  insertRel_fragment_refines 0 (by omega) h s new ref ha hk hne hit hr

/-- `insertAfter(fragment, ref)` -/
theorem insertAfter_fragment_refines_list (h : Heap) (s new ref : Id) (ha : NoAlias h)
    (hk : h.kind new = .frag) (hne : new ≠ s) (hit : ∀ it ∈ h.kids new, h.kind it ≠ .frag)
    (hr : ref ∈ (h.kids s).erase new) :
    (insertAfter h s new ref).1.kids s =
      ((h.kids s).erase new).take (((h.kids s).erase new).idxOf ref + 1) ++ h.kids new ++
        ((h.kids s).erase new).drop (((h.kids s).erase new).idxOf ref + 1) ∧
    ∀ n, n ≠ s → (insertAfter h s new ref).1.kids n = h.kids n :=
  insertRel_fragment_refines 1 (by omega) h s new ref ha hk hne hit hr

/-- `replaceChild(fragment, old)`: the items take the place of `old` -/
theorem replaceChild_fragment_refines_list (h : Heap) (s new old : Id) (ha : NoAlias h)
    (hk : h.kind new = .frag) (hne : new ≠ s) (hit : ∀ it ∈ h.kids new, h.kind it ≠ .frag)
    (hr : old ∈ (h.kids s).erase new) :
    (replaceChild h s new old).1.kids s =
      ((h.kids s).erase new).take (((h.kids s).erase new).idxOf old) ++ h.kids new ++
        ((h.kids s).erase new).drop (((h.kids s).erase new).idxOf old + 1) ∧
    ∀ n, n ≠ s → (replaceChild h s new old).1.kids n = h.kids n := by
  rw [replaceChild_frag_eq ha s new old hk hne hit]
  have ha1 := noAlias_removeChild ha s new
  simp only [removeChild_kids_self ha, hr, if_true, setPO_kids]
  have hlt := List.idxOf_lt_length_of_mem hr
  have hx : ((removeChild h s new).1.kids s)[((h.kids s).erase new).idxOf old]? = some old := by
    rw [removeChild_kids_self ha, List.getElem?_eq_getElem hlt, List.getElem_idxOf hlt]
  have hpop := pop_eq ha1 s (((h.kids s).erase new).idxOf old : Nat) _ old
    (by rw [removeChild_kids_self ha]; exact pyPopPos_nat hlt) hx
  rw [hpop]
  have := kids_insertAll s (h.kids new) (takeAt (removeChild h s new).1 s (((h.kids s).erase new).idxOf old) old)
    (((h.kids s).erase new).idxOf old)
    (by rw [takeAt_kids_self, removeChild_kids_self ha, List.length_eraseIdx]; simp [hlt]; omega)
  refine ⟨?_, fun n hn => ?_⟩
  · rw [this.1, takeAt_kids_self, removeChild_kids_self ha, take_eraseIdx_self _ _ hlt, drop_eraseIdx_self _ _ hlt]
  · rw [this.2 n hn, takeAt_kids_other _ s _ old n hn, removeChild_kids_other ha s new n hn]

/-- `node[i] = fragment` with `0 ≤ i < len`: the items take the place of the old item -/
theorem setItem_fragment_refines_list (h : Heap) (s c : Id) (i : Nat) (ha : NoAlias h)
    (hk : h.kind c = .frag) (hne : c ≠ s) (hit : ∀ it ∈ h.kids c, h.kind it ≠ .frag) (hi : i < (h.kids s).length) :
    (setItem h s i c).1.kids s = (h.kids s).take i ++ h.kids c ++ (h.kids s).drop (i + 1) ∧
    (∀ n, n ≠ s → (setItem h s i c).1.kids n = h.kids n) ∧ (setItem h s i c).2 = none := by
  rw [setItem_frag_eq ha s i c hk hne hit]
  have hins := kids_insertAll s (h.kids c) h i (Nat.le_of_lt hi)
  have ha1 := noAlias_insertAll s (h.kids c) h i ha
  have hlen : i + (h.kids c).length < ((insertAll h s i (h.kids c)).1.kids s).length := by
    rw [hins.1]; simp; omega
  have hcast : ((i : Int) + ((h.kids c).length : Int)) = ((i + (h.kids c).length : Nat) : Int) := by omega
  have hpop := pop_eq ha1 s ((i : Int) + (h.kids c).length) (i + (h.kids c).length) _
    (by rw [hcast]; exact pyPopPos_nat hlen) (List.getElem?_eq_getElem hlen)
  refine ⟨?_, fun n hn => ?_, ?_⟩
  · rw [opPop_fst, hpop, takeAt_kids_self, hins.1, eraseIdx_after_block _ _ _ hi]
  · rw [opPop_fst, hpop, takeAt_kids_other _ s _ _ n hn, hins.2 n hn]
  · unfold opPop; rw [hpop]

/-- `extend` with any mix of single nodes and fragments: `l ++` the items of each argument, in order -/
theorem extend_any_refines_list (s : Id) (cs : List Id) : ∀ (h : Heap), NoAlias h →
    (∀ c ∈ cs, h.kind c = .frag → c ≠ s ∧ ∀ it ∈ h.kids c, h.kind it ≠ .frag) →
    (extend h s cs).1.kids s = h.kids s ++ cs.flatMap (itemsOf h) ∧
    (∀ n, n ≠ s → (extend h s cs).1.kids n = h.kids n) ∧ (extend h s cs).2 = none := by
  induction cs with
  | nil => intro h _ _; simp [extend]
  | cons c cs ih =>
    intro h ha hc
    rw [extend_any_eq s (c :: cs) h ha (fun d hd hk => (hc d hd hk).1)]
    have hstep : (opAppend h s c).1.kids s = h.kids s ++ itemsOf h c ∧
        ∀ n, n ≠ s → (opAppend h s c).1.kids n = h.kids n := by
      by_cases hk : h.kind c = .frag
      · have := append_fragment_refines_list h s c ha hk (hc c (by simp) hk).1 (hc c (by simp) hk).2
        simp [itemsOf, hk, this.1]; exact this.2.1
      · have := append_refines_list h s c ha hk
        simp [itemsOf, hk, this.1]; exact this.2.1
    have hc' : ∀ d ∈ cs, (opAppend h s c).1.kind d = .frag → d ≠ s ∧ ∀ it ∈ (opAppend h s c).1.kids d, (opAppend h s c).1.kind it ≠ .frag := by
      intro d hd hk
      rw [opAppend_kind] at hk
      have := hc d (by simp [hd]) hk
      refine ⟨this.1, ?_⟩
      rw [hstep.2 d this.1, opAppend_kind]; exact this.2
    have hrec := ih (opAppend h s c).1 (noAlias_opAppend ha s c) hc'
    rw [extend_any_eq s cs _ (noAlias_opAppend ha s c) (fun d hd hk => (hc' d hd hk).1)] at hrec
    simp only [List.foldl_cons]
    have hitems : cs.flatMap (itemsOf (opAppend h s c).1) = cs.flatMap (itemsOf h) := by
      apply flatMap_congr_mem
      intro d hd
      simp only [itemsOf, opAppend_kind]
      split
      · rename_i hk; rw [hstep.2 d (hc d (by simp [hd]) hk).1]
      · rfl
    refine ⟨?_, fun n hn => ?_, trivial⟩
    · rw [hrec.1, hstep.1, hitems]; simp
    · rw [hrec.2.1 n hn, hstep.2 n hn]

/-- a fragment spliced into a fragment: the receiver's own parent is handed on (the `setParent` rule) -/
theorem append_to_fragment_parent (h : Heap) (s c : Id) (ha : NoAlias h) (hc : h.kind c ≠ .frag) (hs : h.kind s = .frag) :
    (opAppend h s c).1.parent c = h.parent s := by
  simp [opAppend_leaf ha s c hc, putAt, upd, hs]

/-! ## derived views agree with the list model -/

/-- `firstChild` / `lastChild` are the ends of the child list -/
theorem first_last (h : Heap) (s : Id) (ha : NoAlias h) :
    firstChild h s = (h.kids s).head? ∧ lastChild h s = (h.kids s).getLast? := by
  simp [firstChild, lastChild, childList_eq ha]

/-- `previousSibling` / `nextSibling` of a listed child are its neighbours in the parent's list -/
theorem siblings_are_neighbours (h : Heap) (p n : Id) (ha : NoAlias h) (hi : Inv h) (hp : h.kind p ≠ .frag)
    (hn : n ∈ h.kids p) :
    prevSibling h n = DomTree.prevIn (h.kids p) n ∧ nextSibling h n = DomTree.nextIn (h.kids p) n := by
  have hpar := hi.1 p n hp hn
  simp [prevSibling, nextSibling, hpar, childList_eq ha, hn, DomTree.prevIn, DomTree.nextIn]

/-- a node that is listed nowhere and whose parent link is empty has no siblings -/
theorem detached_has_no_siblings (h : Heap) (n : Id) (hp : h.parent n = none) :
    prevSibling h n = none ∧ nextSibling h n = none := by
  simp [prevSibling, nextSibling, hp]

/-- `textContent` is the concatenation of the text leaves of the unfolded tree, in document order
    (for every unfolding depth; the driver uses a depth that exceeds the number of nodes) -/
theorem textContent_is_concat (h : Heap) (n : Id) (fuel : Nat) (ha : NoAlias h) :
    textContent (fuel + 1) h n = (DomTree.abs (fuel + 1) (toLL h) n).textContent := by
  have := textContent_child ha (fuel + 1) n
  by_cases hk : h.kind n = .text
  · rw [← this]; simp [hk, textContent]
  · rw [← this]; simp [hk]

/-- `getElementsByTagName` is the preorder filter of the proper descendants of the unfolded tree -/
theorem getElementsByTagName_is_preorder_filter (h : Heap) (n : Id) (tag fuel : Nat) (ha : NoAlias h) (hb : NoAttr2 h) :
    getElementsByTagName fuel h n tag = (DomTree.abs fuel (toLL h) n).elementsByName tag :=
  elements_abs ha hb tag fuel n

example : textContent 3 (opAppend (opAppend (create (create init 0 .elem 0 []).1 0 .text 0 [104, 105]).1 0 1).1 1 2).1 0 = [104, 105] := by
  decide

/-! ## without `NoAlias`: a node whose `attributes['self']` fragment is its child list

`toLLc h` is the list-of-lists model whose child list of a node is what `iter(node)` yields (`childList`): the
fragment's list for a node that has the `self` attribute, its own list otherwise.  No hypothesis on the heap. -/

/-- the children of such a node are exactly the fragment's items -/
theorem aliased_child_list (h : Heap) (e f : Id) (he : h.attr e = some f) : childList h e = h.kids f := by
  simp [childList, cn, he]

/-- `firstChild` / `lastChild` are the ends of `childNodes`, aliased or not -/
theorem first_last_aliased (h : Heap) (s : Id) :
    firstChild h s = (childList h s).head? ∧ lastChild h s = (childList h s).getLast? := ⟨rfl, rfl⟩

/-- `textContent` is the concatenation in document order of the tree unfolded through `childNodes` -/
theorem textContent_is_concat_aliased (h : Heap) (n : Id) (fuel : Nat) :
    textContent (fuel + 1) h n = (DomTree.abs (fuel + 1) (toLLc h) n).textContent := by
  have := textContent_child_c h (fuel + 1) n
  by_cases hk : h.kind n = .text
  · rw [← this]; simp [hk, textContent]
  · rw [← this]; simp [hk]

/-- `getElementsByTagName` (after the repair) is the preorder filter of that tree: every matching element once
    per place it occupies, none twice because it is also reachable through the attribute -/
theorem getElementsByTagName_is_preorder_filter_aliased (h : Heap) (n : Id) (tag fuel : Nat) (hb : NoAttr2 h) :
    getElementsByTagName fuel h n tag = (DomTree.abs fuel (toLLc h) n).elementsByName tag :=
  elements_abs_c h hb tag fuel n

/-- the pinned code before the repair reported a child held by the `self` attribute twice: element 1 with
    `attributes['self']` = fragment 3 = [element 2] -/
theorem getElementsByTagName_asIs_counterexample :
    let h0 := (create (create (create init 0 .elem 0 []).1 0 .elem 1 []).1 0 .frag 0 []).1
    let h1 := setSelfAttr (opAppend h0 3 2).1 1 3
    getElementsByTagNameAsIs 4 h1 1 1 = [2, 2] ∧ getElementsByTagName 4 h1 1 1 = [2] := by
  decide

/-! ## normalisation (the pop-all-then-rebuild algorithm, on trees) -/

/-- normalisation does not change the text content -/
theorem normalize_preserves_textContent (t : DomTree.Tree) : t.normalize.textContent = t.textContent :=
  Proofs.DomTree.normalize_textContent t

/-- after normalisation no two text nodes are adjacent, at any depth -/
theorem normalize_merges_adjacent_text (t : DomTree.Tree) : DomTree.noAdjacentText [t.normalize] = true := by
  cases t with
  | text i s => simp [DomTree.Tree.normalize, DomTree.noAdjacentText]
  | node i k nm cs =>
    simp only [DomTree.Tree.normalize, DomTree.noAdjacentText]
    exact Proofs.DomTree.normalizeL_noAdjacent cs [] false

/-- normalisation is idempotent -/
theorem normalize_idempotent (t : DomTree.Tree) : t.normalize.normalize = t.normalize :=
  Proofs.DomTree.normalize_idem t

example : (DomTree.Tree.node 1 .elem 0 [.text 2 [97], .text 3 [98], .node 4 .elem 1 [], .text 5 [99]]).normalize =
    .node 1 .elem 0 [.text 0 [97, 98], .node 4 .elem 1 [], .text 0 [99]] := by
  simp [DomTree.Tree.normalize, DomTree.normalizeL, DomTree.flush]

/-! ## the Spec's list operations and the heap model commute

Whenever the executable list-of-lists model (`Spec/DomTree.lean`, the oracle of the correspondence check)
accepts an operation, the heap model produces exactly the child lists the Spec predicts. -/

/-- the list-of-lists model's `append` and the heap model's `append` produce the same child lists whenever the
    Spec accepts the arguments -/
theorem append_commutes (h : Heap) (s c : Id) (ha : NoAlias h) (m' : DomTree.LL)
    (hs : DomTree.append? (toLL h) s c = some m') : (opAppend h s c).1.kids = m'.kids := by
  unfold DomTree.append? at hs
  split at hs
  · rename_i hok
    injection hs with hs; subst hs
    funext n
    by_cases hk : h.kind c = .frag
    · obtain ⟨hne, hit⟩ := argOK_frag hk hok
      have := append_fragment_refines_list h s c ha hk hne hit
      have hit' : DomTree.items (toLL h) c = h.kids c := by simp [DomTree.items, hk, kindOf]
      by_cases hn : n = s
      · subst hn; simp [DomTree.set, hit', this.1]
      · simp [DomTree.set, hn, this.2.1 n hn]
    · have := append_refines_list h s c ha hk
      have hk' : kindOf (h.kind c) ≠ .frag := fun e => hk ((kindOf_frag _).mp e)
      have hit' : DomTree.items (toLL h) c = [c] := by simp [DomTree.items, hk']
      by_cases hn : n = s
      · subst hn; simp [DomTree.set, hit', this.1]
      · simp [DomTree.set, hn, this.2.1 n hn]
  · cases hs

theorem insert_commutes (h : Heap) (s c : Id) (i : Int) (ha : NoAlias h) (m' : DomTree.LL)
    (hs : DomTree.insert? (toLL h) s i c = some m') : (opInsert h s i c).1.kids = m'.kids := by
  unfold DomTree.insert? at hs
  split at hs
  · rename_i hok
    obtain ⟨hok, h0, hlen⟩ := hok
    injection hs with hs; subst hs
    have hi : i = (i.toNat : Int) := (Int.toNat_of_nonneg h0).symm
    have hle : i.toNat ≤ (h.kids s).length := by simp only [toLL_kids] at hlen; omega
    rw [hi]
    by_cases hk : h.kind c = .frag
    · obtain ⟨hne, hit⟩ := argOK_frag hk hok
      have := insert_fragment_refines_list h s c i.toNat ha hk hne hit hle
      simp only [Int.toNat_natCast, items_frag hk, DomTree.splice, toLL_kids]
      exact kids_eq_set this.1 this.2
    · have := insert_refines_list h s c i.toNat ha hk hle
      simp only [Int.toNat_natCast, items_leaf hk, DomTree.splice, toLL_kids]
      exact kids_eq_set (by rw [this.1]; simp) this.2
  · cases hs

theorem removeChild_commutes (h : Heap) (s c : Id) (ha : NoAlias h) (m' : DomTree.LL)
    (hs : DomTree.removeChild? (toLL h) s c = some m') : (removeChild h s c).1.kids = m'.kids := by
  unfold DomTree.removeChild? at hs
  split at hs
  · injection hs with hs; subst hs
    have := removeChild_refines_list h s c ha
    exact kids_eq_set this.1 this.2
  · cases hs

theorem pop_commutes (h : Heap) (s : Id) (i : Int) (ha : NoAlias h) (m' : DomTree.LL)
    (hs : DomTree.pop? (toLL h) s i = some m') : (opPop h s i).1.kids = m'.kids := by
  unfold DomTree.pop? at hs
  by_cases hok : s < (toLL h).next ∧ -(((toLL h).kids s).length : Int) ≤ i ∧ i < (((toLL h).kids s).length : Int)
  · simp only [hok, and_self, if_true] at hs
    obtain ⟨_, h1, h2⟩ := hok
    simp only [toLL_kids] at h1 h2 hs
    injection hs with hs; subst hs
    have hp := pyPopPos_range h1 h2
    have hlt := pyPopPos_lt hp
    rw [opPop_fst, pop_eq ha s i _ _ hp (List.getElem?_eq_getElem hlt)]
    exact kids_eq_set (takeAt_kids_self h s _ _) (fun n hn => takeAt_kids_other h s _ _ n hn)
  · simp only [hok, if_false] at hs; cases hs

theorem setItem_commutes (h : Heap) (s c : Id) (i : Int) (ha : NoAlias h) (hk : h.kind c ≠ .frag) (m' : DomTree.LL)
    (hs : DomTree.setItem? (toLL h) s i c = some m') : (setItem h s i c).1.kids = m'.kids := by
  unfold DomTree.setItem? at hs
  split at hs
  · rename_i hok
    obtain ⟨_, h0, hlen⟩ := hok
    injection hs with hs; subst hs
    have hi : i = (i.toNat : Int) := (Int.toNat_of_nonneg h0).symm
    have hlt : i.toNat < (h.kids s).length := by simp only [toLL_kids] at hlen; omega
    rw [hi]
    have := setItem_refines_list h s c i.toNat ha hk hlt
    simp only [Int.toNat_natCast, items_leaf hk, toLL_kids]
    exact kids_eq_set (by rw [this.1]; simp) this.2
  · cases hs

private theorem insertRel_commutes (off : Nat) (hoff : off ≤ 1) (h : Heap) (s new ref : Id) (ha : NoAlias h) (hk : h.kind new ≠ .frag)
    (m' : DomTree.LL) (hs : DomTree.insertRel? off (toLL h) s new ref = some m') :
    (insertRel off h s new ref).1.kids = m'.kids := by
  unfold DomTree.insertRel? at hs
  split at hs
  · rename_i hok
    obtain ⟨_, hr, hne⟩ := hok
    injection hs with hs; subst hs
    have hr' : ref ∈ (h.kids s).erase new := (List.mem_erase_of_ne hne).mpr hr
    have hlt := List.idxOf_lt_length_of_mem hr'
    rw [insertRel_eq ha off s new ref hk]
    simp only [removeChild_kids_self ha, hr', if_true, items_leaf hk, DomTree.splice, toLL_kids]
    rw [pyInsPos_nat (by omega)]
    refine kids_eq_set ?_ (fun n hn => ?_)
    · rw [putAt_kids_self, removeChild_kids_self ha]; simp
    · rw [putAt_kids_other _ s _ new n hn, removeChild_kids_other ha s new n hn]
  · cases hs

theorem replaceChild_commutes (h : Heap) (s new old : Id) (ha : NoAlias h) (hk : h.kind new ≠ .frag)
    (m' : DomTree.LL) (hs : DomTree.replaceChild? (toLL h) s new old = some m') :
    (replaceChild h s new old).1.kids = m'.kids := by
  unfold DomTree.replaceChild? at hs
  split at hs
  · rename_i hok
    obtain ⟨_, hr, hne⟩ := hok
    injection hs with hs; subst hs
    have hr' : old ∈ (h.kids s).erase new := (List.mem_erase_of_ne hne).mpr hr
    have := replaceChild_refines_list h s new old ha hk hr'
    simp only [items_leaf hk, toLL_kids]
    exact kids_eq_set (by rw [this.1]; simp) this.2
  · cases hs

/-- `insertBefore` -/
theorem insertBefore_commutes (h : Heap) (s new ref : Id) (ha : NoAlias h) (hk : h.kind new ≠ .frag)
    (m' : DomTree.LL) (hs : DomTree.insertRel? 0 (toLL h) s new ref = some m') :
    (insertBefore h s new ref).1.kids = m'.kids := insertRel_commutes 0 (by omega) h s new ref ha hk m' hs

/-- `insertAfter` -/
theorem insertAfter_commutes (h : Heap) (s new ref : Id) (ha : NoAlias h) (hk : h.kind new ≠ .frag)
    (m' : DomTree.LL) (hs : DomTree.insertRel? 1 (toLL h) s new ref = some m') :
    (insertAfter h s new ref).1.kids = m'.kids := insertRel_commutes 1 (by omega) h s new ref ha hk m' hs

/-- item assignment, single node or fragment -/
theorem setItem_commutes_any (h : Heap) (s c : Id) (i : Int) (ha : NoAlias h) (m' : DomTree.LL)
    (hs : DomTree.setItem? (toLL h) s i c = some m') : (setItem h s i c).1.kids = m'.kids := by
  by_cases hk : h.kind c = .frag
  · unfold DomTree.setItem? at hs
    split at hs
    · rename_i hok
      obtain ⟨hok, h0, hlen⟩ := hok
      injection hs with hs; subst hs
      obtain ⟨hne, hit⟩ := argOK_frag hk hok
      have hi : i = (i.toNat : Int) := (Int.toNat_of_nonneg h0).symm
      have hlt : i.toNat < (h.kids s).length := by simp only [toLL_kids] at hlen; omega
      rw [hi]
      have := setItem_fragment_refines_list h s c i.toNat ha hk hne hit hlt
      simp only [Int.toNat_natCast, items_frag hk, toLL_kids]
      exact kids_eq_set this.1 this.2.1
    · cases hs
  · exact setItem_commutes h s c i ha hk m' hs

/-- `replaceChild`, single node or fragment -/
theorem replaceChild_commutes_any (h : Heap) (s new old : Id) (ha : NoAlias h) (m' : DomTree.LL)
    (hs : DomTree.replaceChild? (toLL h) s new old = some m') : (replaceChild h s new old).1.kids = m'.kids := by
  by_cases hk : h.kind new = .frag
  · unfold DomTree.replaceChild? at hs
    split at hs
    · rename_i hok
      obtain ⟨hok, hr, hne'⟩ := hok
      injection hs with hs; subst hs
      obtain ⟨hne, hit⟩ := argOK_frag hk hok
      have hr' : old ∈ (h.kids s).erase new := (List.mem_erase_of_ne hne').mpr hr
      have := replaceChild_fragment_refines_list h s new old ha hk hne hit hr'
      simp only [items_frag hk, toLL_kids]
      exact kids_eq_set this.1 this.2
    · cases hs
  · exact replaceChild_commutes h s new old ha hk m' hs

/-- `insertBefore`, single node or fragment -/
theorem insertBefore_commutes_any (h : Heap) (s new ref : Id) (ha : NoAlias h) (m' : DomTree.LL)
    (hs : DomTree.insertRel? 0 (toLL h) s new ref = some m') : (insertBefore h s new ref).1.kids = m'.kids := by
  by_cases hk : h.kind new = .frag
  · unfold DomTree.insertRel? at hs
    split at hs
    · rename_i hok
      obtain ⟨hok, hr, hne'⟩ := hok
      injection hs with hs; subst hs
      obtain ⟨hne, hit⟩ := argOK_frag hk hok
      have hr' : ref ∈ (h.kids s).erase new := (List.mem_erase_of_ne hne').mpr hr
      have := insertBefore_fragment_refines_list h s new ref ha hk hne hit hr'
      simp only [items_frag hk, toLL_kids, DomTree.splice, Nat.add_zero]
      exact kids_eq_set this.1 this.2
    · cases hs
  · exact insertBefore_commutes h s new ref ha hk m' hs

/-- `insertAfter`, single node or fragment -/
theorem insertAfter_commutes_any (h : Heap) (s new ref : Id) (ha : NoAlias h) (m' : DomTree.LL)
    (hs : DomTree.insertRel? 1 (toLL h) s new ref = some m') : (insertAfter h s new ref).1.kids = m'.kids := by
  by_cases hk : h.kind new = .frag
  · unfold DomTree.insertRel? at hs
    split at hs
    · rename_i hok
      obtain ⟨hok, hr, hne'⟩ := hok
      injection hs with hs; subst hs
      obtain ⟨hne, hit⟩ := argOK_frag hk hok
      have hr' : ref ∈ (h.kids s).erase new := (List.mem_erase_of_ne hne').mpr hr
      have := insertAfter_fragment_refines_list h s new ref ha hk hne hit hr'
      simp only [items_frag hk, toLL_kids, DomTree.splice]
      exact kids_eq_set this.1 this.2
    · cases hs
  · exact insertAfter_commutes h s new ref ha hk m' hs

example : (DomTree.append? (toLL (create init 0 .elem 0 []).1) 0 1).isSome = true := by decide

/-! ## cloneNode(deep=True): an equal, disjoint, detached copy -/

/-- **a deep clone is equal to the original, shares no node with it and is detached**; the original is untouched.
    `g` is the depth to which the two trees are unfolded: every depth below the recursion fuel the driver uses
    (`fuelOf h = h.next + 2`, more than the number of nodes).  Hypotheses made explicit compared with the earlier
    statement: the heap is well-formed (`WF`) and `s` is an allocated node. -/
theorem clone_equal_disjoint (h : Heap) (s : Id) (ha : NoAlias h) (hb : NoAttr2 h) (hwf : WF h) (hs : s < h.next) (g : Nat)
    (hg : g < fuelOf h) :
    (DomTree.abs g (toLL (opClone h s true).1.1) (opClone h s true).1.2).shape = (DomTree.abs g (toLL h) s).shape ∧
    (∀ i ∈ (DomTree.abs g (toLL (opClone h s true).1.1) (opClone h s true).1.2).ids, i ∉ (DomTree.abs g (toLL h) s).ids) ∧
    (opClone h s true).1.1.parent (opClone h s true).1.2 = none ∧
    (∀ n, (opClone h s true).1.2 ∉ (opClone h s true).1.1.kids n) ∧
    (∀ n, n < h.next → (opClone h s true).1.1.kids n = h.kids n) ∧
    (opClone h s true).2 = none := by
  have spec := Proofs.DomClone.clone_spec (fuelOf h) h.next h s ha hb hwf.2 hwf.1 hs (Nat.le_refl _)
  simp only [opClone]
  generalize clone (fuelOf h) h s true = r at spec
  obtain ⟨sh, ids⟩ := spec.shape g hg
  obtain ⟨hv, hpar⟩ := spec.root (by simp [fuelOf])
  refine ⟨sh, ?_, hpar, ?_, fun n hn => (spec.frame n hn).1, trivial⟩
  · intro i hi hi'
    have h1 := (ids i hi).1
    have h2 := Proofs.DomClone.abs_ids_lt hwf.1 g s hs i hi'
    exact absurd h1 (Nat.not_le.mpr h2)
  · intro n hm
    by_cases hn : n < h.next
    · rw [(spec.frame n hn).1] at hm
      have := (hwf.1 n hn _ hm).1
      rw [hv] at this; exact Nat.lt_irrefl _ this
    · rcases spec.edges n r.2 (Nat.le_of_not_lt hn) hm with h1 | h1
      · rw [hv] at h1; exact Nat.lt_irrefl _ h1
      · rw [hv] at h1; exact hn h1

/-! ## normalize at heap level: it computes the tree-level normalisation -/

/-- the part of the heap below `s` is a tree: unfolded to the driver's depth it repeats no node
    (no sharing, no cycle).  A decidable condition on the heap. -/
def TreeBelow (h : Heap) (s : Id) : Prop := (DomTree.abs (fuelOf h) (toLL h) s).ids.Nodup

/-- in a heap with correct parent links, no cycle and well-formed lists, the part below any non-fragment node is a tree -/
theorem treeBelow_of_forest (h : Heap) (s : Id) (hinv : Inv h) (hac : Acyclic h) (hw : WF h)
    (hk : h.kind s ≠ .frag) (hs : s < h.next) : TreeBelow h s :=
  Proofs.DomTreeBelow.tree_below hinv hac hw (fuelOf h) s hk hs

/-- **the recursion fuel of the driver unfolds the whole tree**: in a heap with correct parent links, no cycle and
    well-formed lists, unfolding a non-fragment node to any depth `g ≥ h.next` (the driver uses `h.next + 2`) already
    gives the complete tree: deeper unfoldings add nothing (pigeonhole on the distinct allocated nodes of a branch) -/
theorem unfolding_complete (h : Heap) (s : Id) (hinv : Inv h) (hac : Acyclic h) (hw : WF h) (hk : h.kind s ≠ .frag)
    (hs : s < h.next) (g k : Nat) (hg : h.next ≤ g) :
    DomTree.abs (g + k) (toLL h) s = DomTree.abs g (toLL h) s :=
  Proofs.DomTreeBelow.unfolding_stable hinv hac hw s hk hs g hg k

/-- hence `textContent` and `getElementsByTagName` computed with the driver's fuel do not depend on the fuel -/
theorem views_fuel_irrelevant (h : Heap) (s : Id) (ha : NoAlias h) (hb : NoAttr2 h) (hinv : Inv h) (hac : Acyclic h)
    (hw : WF h) (hk : h.kind s ≠ .frag) (hs : s < h.next) (k tag : Nat) :
    textContent (fuelOf h + k) h s = textContent (fuelOf h) h s ∧
    getElementsByTagName (fuelOf h + k) h s tag = getElementsByTagName (fuelOf h) h s tag := by
  have hst := unfolding_complete h s hinv hac hw hk hs (fuelOf h) k (by simp [fuelOf])
  constructor
  · have e1 := textContent_is_concat h s (h.next + 1 + k) ha
    have e2 := textContent_is_concat h s (h.next + 1) ha
    have h1 : fuelOf h + k = h.next + 1 + k + 1 := by simp only [fuelOf]; omega
    have h2 : fuelOf h = h.next + 1 + 1 := rfl
    rw [h1, e1, ← h1, hst, h2, e2]
  · rw [getElementsByTagName_is_preorder_filter h s tag _ ha hb, getElementsByTagName_is_preorder_filter h s tag _ ha hb, hst]

/-- histories whose every step meets its precondition, never puts an ancestor below itself, and uses allocated nodes -/
def ValidAll : Heap → List Op → Prop
  | _, [] => True
  | h, o :: os => Pre h o ∧ NotAncestor h o ∧ Allocated h o ∧ ValidAll (applyOp h o) os

/-- no editing operation touches a fragment held under another attribute key -/
theorem attr2_step (h : Heap) (o : Op) (ha : NoAlias h) (hi : Inv h) (hp : Pre h o) : (applyOp h o).attr2 = h.attr2 := by
  cases o with
  | append s c => simp only [applyOp, opAppend_leaf ha s c hp.1]; rfl
  | insert s i c => simp only [applyOp, opInsert_leaf ha s i c hp.1]; rfl
  | pop s i => simp only [applyOp, opPop_fst]; exact pop_attr2 ha s i
  | removeChild s c => exact removeChild_attr2 ha s c
  | insertBefore s n r =>
    simp only [applyOp, insertBefore]; rw [insertRel_eq ha 0 s n r hp.1]; simp only
    split
    · exact removeChild_attr2 ha s n
    · exact removeChild_attr2 ha s n
  | insertAfter s n r =>
    simp only [applyOp, insertAfter]; rw [insertRel_eq ha 1 s n r hp.1]; simp only
    split
    · exact removeChild_attr2 ha s n
    · exact removeChild_attr2 ha s n
  | replaceChild s n old =>
    simp only [applyOp]; rw [replaceChild_eq ha s n old hp.1]; simp only
    split
    · show (pop _ s _).1.attr2 = _
      rw [pop_attr2 (noAlias_removeChild ha s n), removeChild_attr2 ha]
    · exact removeChild_attr2 ha s n
  | setItem s i c =>
    simp only [applyOp]; rw [setItem_eq ha s i c hp.1, pop_attr2 (noAlias_putAt ha _ _ _)]; rfl
  | extend s cs =>
    simp only [applyOp]; rw [extend_eq s cs h ha (fun c hc => (hp.2 c hc).1)]; exact appendAll_attr2 s cs h
  | appendFrag s c => simp only [applyOp, opAppend_frag_eq ha s c hp]; exact appendAll_attr2 s _ h
  | insertFrag s i c =>
    obtain ⟨hk, hne, _, _, hit⟩ := hp
    simp only [applyOp, opInsert, splices_ne ha s c hne, Bool.false_eq_true, if_false,
      insert_frag_eq ha s i c hk (fun it hm => (hit it hm).1)]
    exact insertAll_attr2 s _ h i
  | insertBeforeFrag s n r =>
    obtain ⟨hk, hne, _, _, hit⟩ := hp
    simp only [applyOp, insertBefore]; rw [insertRel_frag_eq ha 0 s n r hk hne (fun it hm => (hit it hm).1)]; simp only
    split
    · show (insertAll _ s _ _).1.attr2 = _
      rw [insertAll_attr2, removeChild_attr2 ha]
    · exact removeChild_attr2 ha s n
  | insertAfterFrag s n r =>
    obtain ⟨hk, hne, _, _, hit⟩ := hp
    simp only [applyOp, insertAfter]; rw [insertRel_frag_eq ha 1 s n r hk hne (fun it hm => (hit it hm).1)]; simp only
    split
    · show (insertAll _ s _ _).1.attr2 = _
      rw [insertAll_attr2, removeChild_attr2 ha]
    · exact removeChild_attr2 ha s n
  | replaceChildFrag s n o =>
    obtain ⟨hk, hne, _, _, hit⟩ := hp
    simp only [applyOp]; rw [replaceChild_frag_eq ha s n o hk hne (fun it hm => (hit it hm).1)]; simp only
    split
    · show (insertAll _ s _ _).1.attr2 = _
      rw [insertAll_attr2, pop_attr2 (noAlias_removeChild ha s n), removeChild_attr2 ha]
    · exact removeChild_attr2 ha s n
  | setItemFrag s i c =>
    obtain ⟨hk, hne, _, _, hit⟩ := hp
    simp only [applyOp]; rw [setItem_frag_eq ha s i c hk hne (fun it hm => (hit it hm).1), opPop_fst,
      pop_attr2 (noAlias_insertAll s _ h i ha), insertAll_attr2]
  | extendAny s cs =>
    simp only [applyOp, (extend_any_fst ha s cs hp).1]
    exact extend_any_attr2 s cs h ha hi hp

/-- **after every such history the heap is a well-formed forest**, so below every non-fragment node it is a tree
    and the heap-level theorems about `normalize` and `cloneNode` apply to it -/
theorem forest_reachable (ops : List Op) : ∀ h, NoAlias h → NoAttr2 h → Inv h → Acyclic h → Owned h → WF h → ValidAll h ops →
    NoAlias (ops.foldl applyOp h) ∧ NoAttr2 (ops.foldl applyOp h) ∧ Inv (ops.foldl applyOp h) ∧
    Acyclic (ops.foldl applyOp h) ∧ Owned (ops.foldl applyOp h) ∧ WF (ops.foldl applyOp h) ∧
    ∀ s, (ops.foldl applyOp h).kind s ≠ .frag → s < (ops.foldl applyOp h).next → TreeBelow (ops.foldl applyOp h) s := by
  induction ops with
  | nil =>
    intro h ha hb hi hac ho hw _
    exact ⟨ha, hb, hi, hac, ho, hw, fun s hk hs => treeBelow_of_forest h s hi hac hw hk hs⟩
  | cons o os ih =>
    intro h ha hb hi hac ho hw hv
    have := inv_step h o ha hi hv.1
    have hb' : NoAttr2 (applyOp h o) := fun n => by rw [attr2_step h o ha hi hv.1]; exact hb n
    exact ih _ this.1 hb' this.2 (acyclic_step h o ha hi hv.1 hv.2.1 hac) (owner_preserved h o ha hi hv.1 ho)
      (wf_step h o ha hi hv.1 hv.2.2.1 hw) hv.2.2.2

/-- `opNormalize` is `normalize` with the driver's fuel whenever the node has an owner document -/
theorem opNormalize_eq (h : Heap) (s : Id) (ho : h.owner s ≠ none) :
    opNormalize h s = (normalize (fuelOf h) h s, none) := by simp [opNormalize, ho]

/-- **heap-level `normalize` = tree-level `Tree.normalize`** (up to the identity of the fresh text nodes), for
    every unfolding depth up to the fuel; nothing outside the subtree of `s` changes; the heap stays well-formed.
    Hypotheses made explicit compared with the earlier statement: `WF h`, `s` allocated, `TreeBelow h s`; no node of the
    subtree holds a fragment under another attribute key (nodes elsewhere may). -/
theorem normalize_refines_tree (h : Heap) (s : Id) (ha : NoAlias h)
    (hb : ∀ n ∈ (DomTree.abs (fuelOf h) (toLL h) s).ids, h.attr2 n = none) (hwf : WF h) (hs : s < h.next)
    (ht : TreeBelow h s) (g : Nat) (hg : g ≤ fuelOf h) :
    (DomTree.abs g (toLL (normalize (fuelOf h) h s)) s).shape = (DomTree.abs g (toLL h) s).normalize.shape ∧
    NoAlias (normalize (fuelOf h) h s) ∧
    (∀ n, n < h.next → n ∉ (DomTree.abs (fuelOf h) (toLL h) s).ids → (normalize (fuelOf h) h s).kids n = h.kids n) := by
  have spec := Proofs.DomNormalize.norm_spec (fuelOf h) h s ⟨ha, hb, hwf.1, hs, ht⟩
  exact ⟨spec.shape g hg, spec.noAlias, spec.frame⟩

/-- heap-level: normalisation does not change `textContent` -/
theorem normalize_preserves_textContent_heap (h : Heap) (s : Id) (ha : NoAlias h)
    (hb : ∀ n ∈ (DomTree.abs (fuelOf h) (toLL h) s).ids, h.attr2 n = none) (hwf : WF h) (hs : s < h.next)
    (ht : TreeBelow h s) (g : Nat) (hg : g + 1 ≤ fuelOf h) :
    textContent (g + 1) (normalize (fuelOf h) h s) s = textContent (g + 1) h s := by
  obtain ⟨hsh, ha', _⟩ := normalize_refines_tree h s ha hb hwf hs ht (g + 1) hg
  rw [textContent_is_concat _ s g ha', textContent_is_concat h s g ha,
    Proofs.DomTree.textContent_congr hsh, Proofs.DomTree.normalize_textContent]

/-- heap-level: after `normalize` no two text nodes are adjacent anywhere below `s` -/
theorem normalize_merges_adjacent_text_heap (h : Heap) (s : Id) (ha : NoAlias h)
    (hb : ∀ n ∈ (DomTree.abs (fuelOf h) (toLL h) s).ids, h.attr2 n = none) (hwf : WF h) (hs : s < h.next)
    (ht : TreeBelow h s) (g : Nat) (hg : g ≤ fuelOf h) :
    DomTree.noAdjacentText [DomTree.abs g (toLL (normalize (fuelOf h) h s)) s] = true := by
  obtain ⟨hsh, _, _⟩ := normalize_refines_tree h s ha hb hwf hs ht g hg
  rw [Proofs.DomTree.noAdjacentText_congr (us := [(DomTree.abs g (toLL h) s).normalize]) (by simp [DomTree.shapeL, hsh])]
  exact normalize_merges_adjacent_text _

/-- heap-level: normalising again changes nothing (up to the identity of the merged text nodes), provided the
    normalised subtree is still a tree at the larger fuel of the second run -/
theorem normalize_idempotent_heap (h : Heap) (s : Id) (ha : NoAlias h) (hb : NoAttr2 h) (hwf : WF h) (hs : s < h.next)
    (ht : TreeBelow h s) (ht' : TreeBelow (normalize (fuelOf h) h s) s) (g : Nat) (hg : g ≤ fuelOf h) :
    (DomTree.abs g (toLL (normalize (fuelOf (normalize (fuelOf h) h s)) (normalize (fuelOf h) h s) s)) s).shape =
      (DomTree.abs g (toLL (normalize (fuelOf h) h s)) s).shape := by
  have spec := Proofs.DomNormalize.norm_spec (fuelOf h) h s ⟨ha, fun n _ => hb n, hwf.1, hs, ht⟩
  have hle : (h.next : Nat) ≤ (normalize (fuelOf h) h s).next := spec.next_le
  have spec2 := Proofs.DomNormalize.norm_spec (fuelOf (normalize (fuelOf h) h s)) (normalize (fuelOf h) h s) s
    ⟨spec.noAlias, fun n _ => spec.attr2none n (hb n), spec.closed, Nat.lt_of_lt_of_le hs hle, ht'⟩
  have hg2 : g ≤ fuelOf (normalize (fuelOf h) h s) := by
    simp only [fuelOf] at hg ⊢; exact Nat.le_trans hg (Nat.add_le_add_right hle 2)
  rw [spec2.shape g hg2, Proofs.DomTree.normalize_congr (spec.shape g hg), normalize_idempotent, ← spec.shape g hg]

/-- non-vacuity: an element (1) holding two text nodes (2, 3) -/
def exH : Heap := (opAppend (opAppend (create (create (create init 0 .elem 0 []).1 0 .text 0 [97]).1 0 .text 0 [98]).1 1 2).1 1 3).1

example : TreeBelow exH 1 := by unfold TreeBelow; decide
example : NoAlias exH := by
  intro n; simp [exH, opAppend, splices, create, init, upd, fuelOf, append, appendLeaf, setPO, rawAppend]
example : WF exH := by
  constructor
  · intro n hn c hc
    have : n = 0 ∨ n = 1 ∨ n = 2 ∨ n = 3 := by
      have : n < 4 := hn
      omega
    rcases this with rfl | rfl | rfl | rfl <;> revert c <;> decide
  · intro n hn
    have h4 : 4 ≤ n := hn
    have h1 : n ≠ 1 := by omega
    have h2 : n ≠ 2 := by omega
    have h3 : n ≠ 3 := by omega
    simp [exH, opAppend, splices, create, init, upd, fuelOf, append, appendLeaf, setPO, rawAppend, h1, h2, h3]
example : (DomTree.abs 3 (toLL (normalize (fuelOf exH) exH 1)) 1).shape = .node .elem 0 [.text [97, 98]] := by rfl

/-! ## document-position comparison -/

/-- **document-position comparison of two nodes of one tree, neither an ancestor of the other**: with `la`, `lb` the
    parent chains of `a` and `b` (ending in the same root), the two root-first chains share a prefix `P ++ [p]`
    (`p` the lowest common ancestor) and continue with different children `x`, `y` of `p`; the answer is
    FOLLOWING (4) when `x` comes before `y` among the children of `p`, PRECEDING (2) otherwise — the preorder
    comparison the list model prescribes. -/
theorem compareDocumentPosition_agrees (h : Heap) (a b : Id) (la lb : List Id) (ha : NoAlias h)
    (hca : UpChain h a la) (hcb : UpChain h b lb) (hroot : la.getLast? = lb.getLast?)
    (hab : a ∉ lb) (hba : b ∉ la) (hfa : la.length ≤ fuelOf h) (hfb : lb.length ≤ fuelOf h)
    (ho : h.owner a = h.owner b) (hlist : ∀ n q, n ∈ la → h.parent n = some q → n ∈ h.kids q)
    (hp : prevSibling h a ≠ some b) (hn : nextSibling h a ≠ some b) :
    ∃ P p x A y B, la.reverse = P ++ p :: x :: A ∧ lb.reverse = P ++ p :: y :: B ∧ x ≠ y ∧
      compareDocumentPosition h a b = if (h.kids p).idxOf x < (h.kids p).idxOf y then 4 else 2 := by
  obtain ⟨ta, hta⟩ := hca.head
  obtain ⟨tb, htb⟩ := hcb.head
  have hane : a ≠ b := fun e => hab (by rw [htb, e]; simp)
  -- same root: the reversed chains start with the same node
  have hra : ∃ r t1, la.reverse = r :: t1 := by
    cases hr : la.reverse with
    | nil => rw [hta] at hr; simp at hr
    | cons r t => exact ⟨r, t, rfl⟩
  obtain ⟨r, t1, e1⟩ := hra
  have hrb : ∃ t2, lb.reverse = r :: t2 := by
    have h1 : la.getLast? = some r := by rw [← List.head?_reverse, e1]; rfl
    have h2 : lb.reverse.head? = some r := by rw [List.head?_reverse, ← hroot, h1]
    cases hr : lb.reverse with
    | nil => rw [hr] at h2; simp at h2
    | cons r' t => rw [hr] at h2; simp at h2; subst h2; exact ⟨t, rfl⟩
  obtain ⟨t2, e2⟩ := hrb
  have np1 : ¬ (r :: t1) <+: (r :: t2) := by
    intro hpre
    rw [← e1, ← e2] at hpre
    have : a ∈ lb.reverse := hpre.subset (by rw [hta]; simp)
    exact hab (List.mem_reverse.mp this)
  have np2 : ¬ (r :: t2) <+: (r :: t1) := by
    intro hpre
    rw [← e1, ← e2] at hpre
    have : b ∈ la.reverse := hpre.subset (by rw [htb]; simp)
    exact hba (List.mem_reverse.mp this)
  obtain ⟨P, p, x, A, y, B, d1, d2, hxy⟩ := lists_part t1 t2 r np1 np2
  rw [← e1] at d1; rw [← e2] at d2
  refine ⟨P, p, x, A, y, B, d1, d2, hxy, ?_⟩
  -- x is a listed child of p
  have hla : la = A.reverse ++ x :: p :: P.reverse := by
    have := congrArg List.reverse d1
    simpa using this
  have hpx : h.parent x = some p := hca.consec A.reverse x p P.reverse hla
  have hxk : x ∈ h.kids p := hlist x p (by rw [hla]; simp) hpx
  have hnd : (P ++ p :: y :: B).Nodup := by rw [← d2]; exact (List.reverse_perm lb).nodup_iff.mpr hcb.nodup
  have c1 := chainUp_complete hca b hba (fuelOf h) [] hfa
  have c2 := chainUp_complete hcb a hab (fuelOf h) [] hfb
  simp only [List.append_nil] at c1 c2
  have hsc := scanItems_eq (childList h p) x y hxy (Or.inl (by rw [childList_eq ha]; exact hxk))
  rw [childList_eq ha] at hsc
  simp only [compareDocumentPosition, ho, ne_eq, not_true_eq_false, if_false, hp, hn, hane, c1, c2, d1, d2]
  exact cmpLoop_split h P p x y A B _ hnd hxy (by rw [childList_eq ha]; exact hsc)

/-- **… and that is what the list model's executable `comparePos` computes**: for two nodes of one tree, neither an
    ancestor of the other, whose parent chains consist of real list memberships (`Link`) -/
theorem compareDocumentPosition_agrees_spec (h : Heap) (a b : Id) (la lb : List Id) (ha : NoAlias h) (hinv : Inv h)
    (hca : UpChain h a la) (hcb : UpChain h b lb) (hroot : la.getLast? = lb.getLast?)
    (hab : a ∉ lb) (hba : b ∉ la) (hfa : la.length ≤ h.next + 1) (hfb : lb.length ≤ h.next + 1)
    (ho : h.owner a = h.owner b) (hla : ∀ n ∈ la, Link h n) (hlb : ∀ n ∈ lb, Link h n)
    (hp : prevSibling h a ≠ some b) (hn : nextSibling h a ≠ some b) :
    compareDocumentPosition h a b = DomTree.comparePos (toLL h) a b := by
  obtain ⟨P, p, x, A, y, B, d1, d2, hxy, hval⟩ := compareDocumentPosition_agrees h a b la lb ha hca hcb hroot hab hba
    (by simp only [fuelOf]; omega) (by simp only [fuelOf]; omega) ho
    (fun n q hn hq => (hla n hn q hq).2.2) hp hn
  obtain ⟨tb, htb⟩ := hcb.head
  have hane : a ≠ b := fun e => hab (by rw [htb, e]; simp)
  have pa := pathTo_eq hinv hca hla h.next hfa
  have pb := pathTo_eq hinv hcb hlb h.next hfb
  have hh : (P ++ p :: x :: A).head? = (P ++ p :: y :: B).head? := by cases P <;> simp
  have n1 : (P ++ p :: y :: B).isPrefixOf (P ++ p :: x :: A) = false := by
    rw [Bool.eq_false_iff]; intro hpre
    exact not_prefix_part P p y x B A (Ne.symm hxy) (List.isPrefixOf_iff_prefix.mp hpre)
  have n2 : (P ++ p :: x :: A).isPrefixOf (P ++ p :: y :: B) = false := by
    rw [Bool.eq_false_iff]; intro hpre
    exact not_prefix_part P p x y A B hxy (List.isPrefixOf_iff_prefix.mp hpre)
  rw [hval]
  unfold DomTree.comparePos
  simp only [hane, if_false]
  show _ = if (DomTree.pathTo (toLL h).next (toLL h) a).head? ≠ (DomTree.pathTo (toLL h).next (toLL h) b).head? then 1
    else if (DomTree.pathTo (toLL h).next (toLL h) b).isPrefixOf (DomTree.pathTo (toLL h).next (toLL h) a) then 8
    else if (DomTree.pathTo (toLL h).next (toLL h) a).isPrefixOf (DomTree.pathTo (toLL h).next (toLL h) b) then 16
    else DomTree.comparePos.go (toLL h) (DomTree.pathTo (toLL h).next (toLL h) a) (DomTree.pathTo (toLL h).next (toLL h) b) a
  have hnx : (toLL h).next = h.next := rfl
  rw [hnx, pa, pb, d1, d2]
  simp only [hh, ne_eq, not_true_eq_false, if_false, n1, n2, Bool.false_eq_true]
  rw [go_part (toLL h) p x y A B hxy P a]
  rfl

/-- `other` is an ancestor of `self`: CONTAINS (8) -/
theorem compareDocumentPosition_ancestor (h : Heap) (a b : Id) (la : List Id) (hca : UpChain h a la)
    (hb : b ∈ la) (hane : a ≠ b) (hfa : la.length ≤ fuelOf h) (ho : h.owner a = h.owner b)
    (hp : prevSibling h a ≠ some b) (hn : nextSibling h a ≠ some b) :
    compareDocumentPosition h a b = 8 := by
  have c1 := chainUp_hits hca b hb (fuelOf h) [] hfa
  simp [compareDocumentPosition, ho, hp, hn, hane, c1]

/-- `other` is a descendant of `self`: CONTAINED_BY (16) -/
theorem compareDocumentPosition_descendant (h : Heap) (a b : Id) (la lb : List Id) (hca : UpChain h a la)
    (hcb : UpChain h b lb) (ha : a ∈ lb) (hb : b ∉ la) (hane : a ≠ b) (hfa : la.length ≤ fuelOf h)
    (hfb : lb.length ≤ fuelOf h) (ho : h.owner a = h.owner b)
    (hp : prevSibling h a ≠ some b) (hn : nextSibling h a ≠ some b) :
    compareDocumentPosition h a b = 16 := by
  have c1 := chainUp_complete hca b hb (fuelOf h) [] hfa
  have c2 := chainUp_hits hcb a ha (fuelOf h) [] hfb
  simp [compareDocumentPosition, ho, hp, hn, hane, c1, c2]

/-- `other` is an ancestor of `self`: CONTAINS (8), as the list model's `comparePos` says -/
theorem compareDocumentPosition_ancestor_spec (h : Heap) (a b : Id) (la lb : List Id) (hinv : Inv h)
    (hca : UpChain h a la) (hcb : UpChain h b lb) (hb : b ∈ la) (hane : a ≠ b)
    (hfa : la.length ≤ h.next + 1) (ho : h.owner a = h.owner b) (hla : ∀ n ∈ la, Link h n)
    (hp : prevSibling h a ≠ some b) (hn : nextSibling h a ≠ some b) :
    compareDocumentPosition h a b = DomTree.comparePos (toLL h) a b := by
  rw [compareDocumentPosition_ancestor h a b la hca hb hane (by simp only [fuelOf]; omega) ho hp hn]
  obtain ⟨U, l', hsplit, hl'⟩ := UpChain_split hca hb
  have hlb : lb = l' := hcb.det hl'
  subst hlb
  have hlbl : ∀ n ∈ lb, Link h n := fun n hn => hla n (by rw [hsplit]; simp [hn])
  have hfb : lb.length ≤ h.next + 1 := by rw [hsplit] at hfa; simp at hfa; omega
  have pa := pathTo_eq hinv hca hla h.next hfa
  have pb := pathTo_eq hinv hcb hlbl h.next hfb
  have hne : lb.reverse ≠ [] := by simpa using hcb.last_root
  unfold DomTree.comparePos
  simp only [hane, if_false]
  show _ = if (DomTree.pathTo (toLL h).next (toLL h) a).head? ≠ (DomTree.pathTo (toLL h).next (toLL h) b).head? then 1
    else if (DomTree.pathTo (toLL h).next (toLL h) b).isPrefixOf (DomTree.pathTo (toLL h).next (toLL h) a) then 8
    else if (DomTree.pathTo (toLL h).next (toLL h) a).isPrefixOf (DomTree.pathTo (toLL h).next (toLL h) b) then 16
    else DomTree.comparePos.go (toLL h) (DomTree.pathTo (toLL h).next (toLL h) a) (DomTree.pathTo (toLL h).next (toLL h) b) a
  have hnx : (toLL h).next = h.next := rfl
  rw [hnx, pa, pb, hsplit, List.reverse_append]
  have hh : (lb.reverse ++ U.reverse).head? = lb.reverse.head? := head?_append_ne hne
  have hpre : lb.reverse.isPrefixOf (lb.reverse ++ U.reverse) = true :=
    List.isPrefixOf_iff_prefix.mpr (List.prefix_append _ _)
  simp [hh, hpre]

/-- `other` is a descendant of `self`: CONTAINED_BY (16), as the list model's `comparePos` says -/
theorem compareDocumentPosition_descendant_spec (h : Heap) (a b : Id) (la lb : List Id) (hinv : Inv h)
    (hca : UpChain h a la) (hcb : UpChain h b lb) (ha' : a ∈ lb) (hb : b ∉ la) (hane : a ≠ b)
    (hfb : lb.length ≤ h.next + 1) (ho : h.owner a = h.owner b) (hlb : ∀ n ∈ lb, Link h n)
    (hp : prevSibling h a ≠ some b) (hn : nextSibling h a ≠ some b) :
    compareDocumentPosition h a b = DomTree.comparePos (toLL h) a b := by
  obtain ⟨U, l', hsplit, hl'⟩ := UpChain_split hcb ha'
  have hla : la = l' := hca.det hl'
  subst hla
  have hlal : ∀ n ∈ la, Link h n := fun n hn => hlb n (by rw [hsplit]; simp [hn])
  have hfa : la.length ≤ h.next + 1 := by rw [hsplit] at hfb; simp at hfb; omega
  rw [compareDocumentPosition_descendant h a b la lb hca hcb ha' hb hane (by simp only [fuelOf]; omega)
    (by simp only [fuelOf]; omega) ho hp hn]
  have pa := pathTo_eq hinv hca hlal h.next hfa
  have pb := pathTo_eq hinv hcb hlb h.next hfb
  have hne : la.reverse ≠ [] := by simpa using hca.last_root
  obtain ⟨tb, htb⟩ := hcb.head
  unfold DomTree.comparePos
  simp only [hane, if_false]
  show _ = if (DomTree.pathTo (toLL h).next (toLL h) a).head? ≠ (DomTree.pathTo (toLL h).next (toLL h) b).head? then 1
    else if (DomTree.pathTo (toLL h).next (toLL h) b).isPrefixOf (DomTree.pathTo (toLL h).next (toLL h) a) then 8
    else if (DomTree.pathTo (toLL h).next (toLL h) a).isPrefixOf (DomTree.pathTo (toLL h).next (toLL h) b) then 16
    else DomTree.comparePos.go (toLL h) (DomTree.pathTo (toLL h).next (toLL h) a) (DomTree.pathTo (toLL h).next (toLL h) b) a
  have hnx : (toLL h).next = h.next := rfl
  rw [hnx, pa, pb]
  have hrev : lb.reverse = la.reverse ++ U.reverse := by rw [hsplit, List.reverse_append]
  have hh : lb.reverse.head? = la.reverse.head? := by rw [hrev]; exact head?_append_ne hne
  have hpre : la.reverse.isPrefixOf lb.reverse = true := by
    rw [hrev]; exact List.isPrefixOf_iff_prefix.mpr (List.prefix_append _ _)
  have hnpre : lb.reverse.isPrefixOf la.reverse = false := by
    rw [Bool.eq_false_iff]; intro hpre'
    have : b ∈ la.reverse := (List.isPrefixOf_iff_prefix.mp hpre').subset (by rw [htb]; simp)
    exact hb (List.mem_reverse.mp this)
  simp [hh, hpre, hnpre]

/-- adjacent siblings are decided first: the previous sibling PRECEDES (2), the next one FOLLOWS (4) -/
theorem compareDocumentPosition_adjacent (h : Heap) (a b : Id) (ho : h.owner a = h.owner b) :
    (prevSibling h a = some b → compareDocumentPosition h a b = 2) ∧
    (prevSibling h a ≠ some b → nextSibling h a = some b → compareDocumentPosition h a b = 4) := by
  constructor
  · intro hp; simp [compareDocumentPosition, ho, hp]
  · intro hp hn; simp [compareDocumentPosition, ho, hp, hn]

/-- nodes of different trees: DISCONNECTED (1), as the list model's `comparePos` says -/
theorem compareDocumentPosition_disconnected_spec (h : Heap) (a b : Id) (la lb : List Id) (ha : NoAlias h) (hinv : Inv h)
    (hca : UpChain h a la) (hcb : UpChain h b lb) (hroot : la.getLast? ≠ lb.getLast?)
    (hfa : la.length ≤ h.next + 1) (hfb : lb.length ≤ h.next + 1) (ho : h.owner a = h.owner b)
    (hla : ∀ n ∈ la, Link h n) (hlb : ∀ n ∈ lb, Link h n) :
    compareDocumentPosition h a b = 1 ∧ DomTree.comparePos (toLL h) a b = 1 := by
  -- chains with different roots share no node
  have hdisj : ∀ u, u ∈ la → u ∉ lb := by
    intro u h1 h2
    obtain ⟨U1, l1, e1, c1⟩ := UpChain_split hca h1
    obtain ⟨U2, l2, e2, c2⟩ := UpChain_split hcb h2
    have := c1.det c2
    subst this
    apply hroot
    rw [e1, e2, getLast?_append_ne c1.last_root, getLast?_append_ne c1.last_root]
  obtain ⟨ta, hta⟩ := hca.head
  obtain ⟨tb, htb⟩ := hcb.head
  have hab : a ∉ lb := hdisj a (by rw [hta]; simp)
  have hba : b ∉ la := fun hm => hdisj b hm (by rw [htb]; simp)
  have hane : a ≠ b := fun e => hab (by rw [htb, e]; simp)
  -- not siblings
  have hns : ¬ (prevSibling h a = some b ∨ nextSibling h a = some b) := by
    intro hs
    obtain ⟨p, hp, hbp⟩ := sibling_some hs
    rw [childList_eq ha] at hbp
    have hl := hla a (by rw [hta]; simp) p hp
    have hpb : h.parent b = some p := hinv.1 p b hl.2.1 hbp
    cases hca with
    | root _ hp' => rw [hp] at hp'; cases hp'
    | step _ p' l1 hp' hl1 =>
      rw [hp] at hp'; cases hp'
      cases hcb with
      | root _ hp'' => rw [hpb] at hp''; cases hp''
      | step _ p'' l2 hp'' hl2 =>
        rw [hpb] at hp''; cases hp''
        have := hl1.det hl2
        subst this
        exact hroot (by rw [UpChain_getLast_tail hl1, UpChain_getLast_tail hl1])
  have hp : prevSibling h a ≠ some b := fun e => hns (Or.inl e)
  have hn : nextSibling h a ≠ some b := fun e => hns (Or.inr e)
  have c1 := chainUp_complete hca b hba (fuelOf h) [] (by simp only [fuelOf]; omega)
  have c2 := chainUp_complete hcb a hab (fuelOf h) [] (by simp only [fuelOf]; omega)
  simp only [List.append_nil] at c1 c2
  constructor
  · simp only [compareDocumentPosition, ho, ne_eq, not_true_eq_false, if_false, hp, hn, hane, c1, c2, cmpLoop]
    exact outer_disjoint h _ _ _ 0 (fun x hx hx' => hdisj x (List.mem_reverse.mp hx) (List.mem_reverse.mp hx'))
  · have pa := pathTo_eq hinv hca hla h.next hfa
    have pb := pathTo_eq hinv hcb hlb h.next hfb
    unfold DomTree.comparePos
    simp only [hane, if_false]
    show (if (DomTree.pathTo (toLL h).next (toLL h) a).head? ≠ (DomTree.pathTo (toLL h).next (toLL h) b).head? then 1
      else if (DomTree.pathTo (toLL h).next (toLL h) b).isPrefixOf (DomTree.pathTo (toLL h).next (toLL h) a) then 8
      else if (DomTree.pathTo (toLL h).next (toLL h) a).isPrefixOf (DomTree.pathTo (toLL h).next (toLL h) b) then 16
      else DomTree.comparePos.go (toLL h) (DomTree.pathTo (toLL h).next (toLL h) a) (DomTree.pathTo (toLL h).next (toLL h) b) a) = 1
    have hnx : (toLL h).next = h.next := rfl
    rw [hnx, pa, pb, List.head?_reverse, List.head?_reverse]
    simp [hroot]

/-- adjacent siblings: PRECEDING (2) for the previous sibling, FOLLOWING (4) for the next one, as the list model's
    `comparePos` says -/
theorem compareDocumentPosition_adjacent_spec (h : Heap) (a b : Id) (la lb : List Id) (ha : NoAlias h) (hinv : Inv h)
    (hca : UpChain h a la) (hcb : UpChain h b lb) (hfa : la.length ≤ h.next + 1)
    (ho : h.owner a = h.owner b) (hla : ∀ n ∈ la, Link h n)
    (hs : prevSibling h a = some b ∨ nextSibling h a = some b) :
    compareDocumentPosition h a b = DomTree.comparePos (toLL h) a b := by
  obtain ⟨ta, hta⟩ := hca.head
  obtain ⟨p, hp, _⟩ := sibling_some hs
  have hl := hla a (by rw [hta]; simp) p hp
  have hnd : (h.kids p).Nodup := hinv.2 p hl.2.1
  have hia : (h.kids p).idxOf a < (h.kids p).length := List.idxOf_lt_length_of_mem hl.2.2
  -- position of b next to a
  have hb : b ∈ h.kids p ∧ ((prevSibling h a = some b ∧ (h.kids p).idxOf b + 1 = (h.kids p).idxOf a) ∨
      (prevSibling h a ≠ some b ∧ nextSibling h a = some b ∧ (h.kids p).idxOf b = (h.kids p).idxOf a + 1)) := by
    have key : ∀ j, (h.kids p)[j]? = some b → b ∈ h.kids p ∧ (h.kids p).idxOf b = j := by
      intro j hj
      obtain ⟨hlt, he⟩ := List.getElem?_eq_some_iff.mp hj
      exact ⟨List.mem_of_getElem? hj, by rw [← he]; exact List.Nodup.idxOf_getElem hnd j hlt⟩
    by_cases hpv : prevSibling h a = some b
    · have h1 := hpv
      simp only [prevSibling, hp, childList_eq ha, hl.2.2, if_true] at h1
      split at h1
      · cases h1
      · rename_i h0
        have := key _ h1
        exact ⟨this.1, Or.inl ⟨hpv, by omega⟩⟩
    · have hnx : nextSibling h a = some b := hs.resolve_left hpv
      have h1 := hnx
      simp only [nextSibling, hp, childList_eq ha, hl.2.2, if_true] at h1
      have := key _ h1
      exact ⟨this.1, Or.inr ⟨hpv, hnx, this.2⟩⟩
  obtain ⟨hbm, hpos⟩ := hb
  have hpb : h.parent b = some p := hinv.1 p b hl.2.1 hbm
  have hane : a ≠ b := by
    intro e; subst e; rcases hpos with ⟨_, h1⟩ | ⟨_, _, h1⟩ <;> omega
  -- the two chains are a :: lp and b :: lp
  cases hca with
  | root _ hp' => rw [hp] at hp'; cases hp'
  | step _ p' lp hp' hlp =>
    rw [hp] at hp'; cases hp'
    have hlb : lb = b :: lp := hcb.det (.step b p lp hpb hlp)
    subst hlb
    obtain ⟨tp, htp⟩ := hlp.head
    have hlinkb : ∀ n ∈ b :: lp, Link h n := by
      intro n hn
      rcases List.mem_cons.mp hn with e | hm
      · subst e; intro q hq; rw [hpb] at hq; cases hq; exact ⟨hl.1, hl.2.1, hbm⟩
      · exact hla n (by simp [hm])
    have pa := pathTo_eq hinv (.step a p lp hp hlp) hla h.next hfa
    have pb := pathTo_eq hinv hcb hlinkb h.next (by simpa using hfa)
    have ea : (a :: lp).reverse = tp.reverse ++ p :: a :: [] := by rw [htp]; simp
    have eb : (b :: lp).reverse = tp.reverse ++ p :: b :: [] := by rw [htp]; simp
    rw [ea] at pa; rw [eb] at pb
    rw [comparePos_part h a b tp.reverse p a [] b [] hane pa pb hane]
    rcases hpos with ⟨hpv, hidx⟩ | ⟨hpv, hnx, hidx⟩
    · rw [(compareDocumentPosition_adjacent h a b ho).1 hpv]
      have : ¬ (h.kids p).idxOf a < (h.kids p).idxOf b := by omega
      simp [this]
    · rw [(compareDocumentPosition_adjacent h a b ho).2 hpv hnx]
      have : (h.kids p).idxOf a < (h.kids p).idxOf b := by omega
      simp [this]

/-- **`compareDocumentPosition` = the list model's `comparePos`** for every pair of nodes whose parent chains exist,
    fit the recursion fuel and consist of real list memberships (`Link`): same node, adjacent siblings, ancestor,
    descendant, two branches of one tree, different trees -/
theorem compareDocumentPosition_agrees_all (h : Heap) (a b : Id) (la lb : List Id) (ha : NoAlias h) (hinv : Inv h)
    (hca : UpChain h a la) (hcb : UpChain h b lb) (hfa : la.length ≤ h.next + 1) (hfb : lb.length ≤ h.next + 1)
    (ho : h.owner a = h.owner b) (hla : ∀ n ∈ la, Link h n) (hlb : ∀ n ∈ lb, Link h n) :
    compareDocumentPosition h a b = DomTree.comparePos (toLL h) a b := by
  by_cases hs : prevSibling h a = some b ∨ nextSibling h a = some b
  · exact compareDocumentPosition_adjacent_spec h a b la lb ha hinv hca hcb hfa ho hla hs
  · have hp : prevSibling h a ≠ some b := fun e => hs (Or.inl e)
    have hn : nextSibling h a ≠ some b := fun e => hs (Or.inr e)
    by_cases hab : a = b
    · subst hab
      simp [compareDocumentPosition, hp, hn, DomTree.comparePos]
    · by_cases hroot : la.getLast? = lb.getLast?
      · by_cases hb : b ∈ la
        · exact compareDocumentPosition_ancestor_spec h a b la lb hinv hca hcb hb hab hfa ho hla hp hn
        · by_cases ha' : a ∈ lb
          · exact compareDocumentPosition_descendant_spec h a b la lb hinv hca hcb ha' hb hab hfb ho hlb hp hn
          · exact compareDocumentPosition_agrees_spec h a b la lb ha hinv hca hcb hroot ha' hb hfa hfb ho hla hlb hp hn
      · have := compareDocumentPosition_disconnected_spec h a b la lb ha hinv hca hcb hroot hfa hfb ho hla hlb
        rw [this.1, this.2]

/-- non-vacuity: document 0 ▸ element 1 ▸ elements 2, 3, 4; nodes 4 and 2 are not adjacent: 2 PRECEDES 4 -/
def exC : Heap :=
  (opAppend (opAppend (opAppend (opAppend
    (create (create (create (create init 0 .elem 0 []).1 0 .elem 1 []).1 0 .elem 1 []).1 0 .elem 1 []).1 0 1).1 1 2).1 1 3).1 1 4).1

example : UpChain exC 4 [4, 1, 0] ∧ UpChain exC 2 [2, 1, 0] :=
  ⟨.step 4 1 _ (by decide) (.step 1 0 _ (by decide) (.root 0 (by decide))),
   .step 2 1 _ (by decide) (.step 1 0 _ (by decide) (.root 0 (by decide)))⟩
example : compareDocumentPosition exC 4 2 = 2 ∧ compareDocumentPosition exC 2 4 = 4 := by decide

/-! ## a deep clone `isEqualNode` its original -/

/-- **`cloneNode(True)` returns a node that is `==` its original, both ways** (`Node.__eq__` / `isEqualNode`, the model's
    `eqNode` with the fuel the driver uses): the shapes of the two unfolded trees agree at the depths `h.next` and
    `h.next + 1` (`clone_spec`), the original's tree is complete at depth `h.next` (`unfolding_complete`, the pigeonhole
    bound on the height), and equal shapes of complete trees compare equal (`Proofs.DomEq.eq_of_shapes`).
    Hypothesis added to the earlier statement: `s` is not a fragment (a fragment may list a node twice, and its
    unfolding need not be a tree). -/
theorem clone_isEqualNode (h : Heap) (s : Id) (ha : NoAlias h) (hb : NoAttr2 h) (hinv : Inv h) (hac : Acyclic h)
    (hw : WF h) (hs : s < h.next) (hk : h.kind s ≠ .frag) :
    eqNode (fuelOf (opClone h s true).1.1) (opClone h s true).1.1 (opClone h s true).1.2 s = true ∧
    eqNode (fuelOf (opClone h s true).1.1) (opClone h s true).1.1 s (opClone h s true).1.2 = true := by
  have spec := Proofs.DomClone.clone_spec (fuelOf h) h.next h s ha hb hw.2 hw.1 hs (Nat.le_refl _)
  simp only [opClone]
  generalize clone (fuelOf h) h s true = r at spec
  have hfr : ∀ g : Nat, DomTree.abs g (toLL r.1) s = DomTree.abs g (toLL h) s := by
    intro g
    apply Proofs.DomClone.abs_congr
    intro i hi
    exact Proofs.DomClone.sameAt_of_sameH (spec.frame i (Proofs.DomClone.abs_ids_lt hw.1 g s hs i hi))
  have hcomp := Proofs.DomTreeBelow.unfolding_complete hinv hac hw s hk hs h.next (Nat.le_refl _)
  have s0 := (spec.shape h.next (by simp [fuelOf])).1
  have s1 := (spec.shape (h.next + 1) (by simp [fuelOf])).1
  have hle : (h.next : Nat) ≤ r.1.next := spec.next_le
  exact Proofs.DomEq.eq_of_shapes spec.noAlias spec.noAttr2 h.next r.2 s (fuelOf r.1)
    (Nat.le_trans (Nat.succ_le_succ hle) (Nat.le_succ _)) (by rw [hfr]; exact s0) (by rw [hfr]; exact s1) (by rw [hfr, hfr]; exact hcomp)

/-- non-vacuity: the element of `exH` (holding two text nodes) and its deep clone -/
example : eqNode (fuelOf (opClone exH 1 true).1.1) (opClone exH 1 true).1.1 (opClone exH 1 true).1.2 1 = true := by decide

/-! ## `normalize` and `cloneNode(True)` as steps of a history -/

/-- **`cloneNode(True)` keeps every forest invariant**: after a deep clone of a non-fragment node of a well-formed
    forest the heap is again a well-formed forest (`NoAlias`, `NoAttr2`, `Inv`, `Acyclic`, `Owned`, `WF`), so a history
    may go on with any operation.  The recursion fuel of the driver covers the subtree (`unfolding_complete`), so the
    model never falls back to re-appending an original node; the clone's nodes name their clone parent, are listed
    once, and the ranks of the old nodes are kept while the fresh nodes are ranked by their allocation order. -/
theorem clone_keeps_forest (h : Heap) (s : Id) (ha : NoAlias h) (hb : NoAttr2 h) (hinv : Inv h) (hac : Acyclic h)
    (ho : Owned h) (hw : WF h) (hs : s < h.next) (hk : h.kind s ≠ .frag) :
    NoAlias (opClone h s true).1.1 ∧ NoAttr2 (opClone h s true).1.1 ∧ Inv (opClone h s true).1.1 ∧
    Acyclic (opClone h s true).1.1 ∧ Owned (opClone h s true).1.1 ∧ WF (opClone h s true).1.1 := by
  have cs := Proofs.DomClone.clone_spec (fuelOf h) h.next h s ha hb hw.2 hw.1 hs (Nat.le_refl _)
  have hcomp : Proofs.DomClone.Complete (fuelOf h) h s :=
    ⟨h.next + 1, rfl, Proofs.DomTreeBelow.unfolding_complete hinv hac hw s hk hs (h.next + 1) (Nat.le_succ _)⟩
  exact ⟨cs.noAlias, cs.noAttr2, cs.inv hinv hw.1 hcomp,
    Proofs.DomClone.acyclic_of_cloneSpec cs (Nat.le_refl _) hw.1 hac, cs.owned ho, cs.closedAll hw.1, cs.fresh⟩

/-- non-vacuity: `exH` (an element holding two text nodes) is a well-formed forest -/
example : Inv exH ∧ Acyclic exH := by
  refine ⟨⟨?_, ?_⟩, ⟨fun n => if n = 0 then 2 else if n = 1 then 1 else 0, ?_⟩⟩
  · intro n c hn hc
    have : n = 1 := by
      by_cases e : n = 1
      · exact e
      · simp [exH, opAppend, splices, create, init, upd, fuelOf, append, appendLeaf, setPO, rawAppend, e] at hc
    subst this
    have : c = 2 ∨ c = 3 := by
      simpa [exH, opAppend, splices, create, init, upd, fuelOf, append, appendLeaf, setPO, rawAppend] using hc
    rcases this with rfl | rfl <;> decide
  · intro n _
    by_cases e : n = 1
    · subst e; decide
    · simp [exH, opAppend, splices, create, init, upd, fuelOf, append, appendLeaf, setPO, rawAppend, e]
  · intro n c hc
    have : n = 1 := by
      by_cases e : n = 1
      · exact e
      · simp [exH, opAppend, splices, create, init, upd, fuelOf, append, appendLeaf, setPO, rawAppend, e] at hc
    subst this
    have : c = 2 ∨ c = 3 := by
      simpa [exH, opAppend, splices, create, init, upd, fuelOf, append, appendLeaf, setPO, rawAppend] using hc
    rcases this with rfl | rfl <;> decide

/-- **`normalize` keeps every forest invariant**: after normalising a non-fragment node of a well-formed forest the
    heap is again a well-formed forest.  The parent links hold throughout the pop-all-then-rebuild loop (the items still
    to come are listed nowhere), the old edges that remain are original edges and the merged text nodes are fresh leaves. -/
theorem normalize_keeps_forest (h : Heap) (s : Id) (ha : NoAlias h) (hb : NoAttr2 h) (hinv : Inv h) (hac : Acyclic h)
    (ho : Owned h) (hw : WF h) (hs : s < h.next) (hk : h.kind s ≠ .frag) :
    NoAlias (normalize (fuelOf h) h s) ∧ NoAttr2 (normalize (fuelOf h) h s) ∧ Inv (normalize (fuelOf h) h s) ∧
    Acyclic (normalize (fuelOf h) h s) ∧ Owned (normalize (fuelOf h) h s) ∧ WF (normalize (fuelOf h) h s) := by
  have ht := treeBelow_of_forest h s hinv hac hw hk hs
  have ns := Proofs.DomNormalize.norm_spec (fuelOf h) h s ⟨ha, fun n _ => hb n, hw.1, hs, ht⟩
  exact ⟨ns.noAlias, fun n => ns.attr2none n (hb n), ns.inv hinv hw.2 hk, Proofs.DomNormalize.acyclic_of_normSpec ns hw.2 hac, ns.owned ho,
    ns.closed, ns.fresh hw.2⟩

/-- the same with attribute fragments elsewhere in the heap: it is enough that no node *below `s`* holds a fragment under
    another attribute key; the attribute fragments of all other nodes stay what they were -/
theorem normalize_keeps_forest_local (h : Heap) (s : Id) (ha : NoAlias h)
    (hb : ∀ n ∈ (DomTree.abs (fuelOf h) (toLL h) s).ids, h.attr2 n = none) (hinv : Inv h) (hac : Acyclic h)
    (ho : Owned h) (hw : WF h) (hs : s < h.next) (hk : h.kind s ≠ .frag) :
    NoAlias (normalize (fuelOf h) h s) ∧ Inv (normalize (fuelOf h) h s) ∧
    Acyclic (normalize (fuelOf h) h s) ∧ Owned (normalize (fuelOf h) h s) ∧ WF (normalize (fuelOf h) h s) ∧
    (∀ n : Nat, n < h.next → (normalize (fuelOf h) h s).attr2 n = h.attr2 n) ∧
    (∀ n : Nat, h.attr2 n = none → (normalize (fuelOf h) h s).attr2 n = none) := by
  have ht := treeBelow_of_forest h s hinv hac hw hk hs
  have ns := Proofs.DomNormalize.norm_spec (fuelOf h) h s ⟨ha, hb, hw.1, hs, ht⟩
  exact ⟨ns.noAlias, ns.inv hinv hw.2 hk, Proofs.DomNormalize.acyclic_of_normSpec ns hw.2 hac, ns.owned ho,
    ⟨ns.closed, ns.fresh hw.2⟩, ns.attr2old, ns.attr2none⟩

/-- a step of a mixed history: one of the sixteen list operations, `cloneNode(True)` or `normalize` of a node -/
inductive Step
  | op (o : Op)
  | cloneDeep (s : Id)
  | normalize (s : Id)

def applyStep (h : Heap) : Step → Heap
  | .op o => applyOp h o
  | .cloneDeep s => (opClone h s true).1.1
  | .normalize s => Model.Dom.normalize (fuelOf h) h s

/-- every step meets its precondition (clone / normalize: an allocated non-fragment node) in the state it is applied to -/
def ValidSteps : Heap → List Step → Prop
  | _, [] => True
  | h, .op o :: ss => Pre h o ∧ NotAncestor h o ∧ Allocated h o ∧ ValidSteps (applyOp h o) ss
  | h, .cloneDeep s :: ss => s < h.next ∧ h.kind s ≠ .frag ∧ ValidSteps (opClone h s true).1.1 ss
  | h, .normalize s :: ss => s < h.next ∧ h.kind s ≠ .frag ∧ ValidSteps (Model.Dom.normalize (fuelOf h) h s) ss

/-- **every history that mixes the sixteen list operations with `cloneNode(True)` and `normalize` stays a well-formed
    forest** (parent links of listed children, no duplicates, no cycle, owner documents, well-formed lists) -/
theorem forest_reachable_all (ss : List Step) : ∀ h, NoAlias h → NoAttr2 h → Inv h → Acyclic h → Owned h → WF h →
    ValidSteps h ss →
    NoAlias (ss.foldl applyStep h) ∧ NoAttr2 (ss.foldl applyStep h) ∧ Inv (ss.foldl applyStep h) ∧
    Acyclic (ss.foldl applyStep h) ∧ Owned (ss.foldl applyStep h) ∧ WF (ss.foldl applyStep h) := by
  induction ss with
  | nil => intro h ha hb hi hac ho hw _; exact ⟨ha, hb, hi, hac, ho, hw⟩
  | cons st ss ih =>
    intro h ha hb hi hac ho hw hv
    cases st with
    | op o =>
      have := inv_step h o ha hi hv.1
      have hb' : NoAttr2 (applyOp h o) := fun n => by rw [attr2_step h o ha hi hv.1]; exact hb n
      exact ih _ this.1 hb' this.2 (acyclic_step h o ha hi hv.1 hv.2.1 hac) (owner_preserved h o ha hi hv.1 ho)
        (wf_step h o ha hi hv.1 hv.2.2.1 hw) hv.2.2.2
    | cloneDeep s =>
      obtain ⟨c1, c2, c3, c4, c5, c6⟩ := clone_keeps_forest h s ha hb hi hac ho hw hv.1 hv.2.1
      exact ih _ c1 c2 c3 c4 c5 c6 hv.2.2
    | normalize s =>
      obtain ⟨c1, c2, c3, c4, c5, c6⟩ := normalize_keeps_forest h s ha hb hi hac ho hw hv.1 hv.2.1
      exact ih _ c1 c2 c3 c4 c5 c6 hv.2.2

example : ValidSteps exH [.cloneDeep 1, .normalize 1, .op (.pop 1 0)] :=
  ⟨by decide, by decide, by decide, by decide, trivial, trivial, trivial, trivial⟩

/-! ## fragments held under other attribute keys -/

/-- **`normalize` also normalises the fragment held under another attribute key** (`attributes['title']`, the model's
    `attr2`): for a non-text, non-fragment node `e` of a well-formed forest holding the fragment `f`, after
    `e.normalize()` the subtree of `f` and the subtree of `e` itself are the normal forms of what they were, at every
    depth up to the driver's fuel.
    Hypotheses beyond the forest invariants: the part below `f` is a tree, disjoint from the part below `e` (a
    fragment held as an attribute is not also somebody's child), and no node strictly below `e` or below `f` holds a
    further attribute fragment (nested attribute fragments are normalised by the model and checked by the harness
    flag `n`, but are outside this theorem). -/
theorem normalize_attribute_fragments (h : Heap) (e f : Id) (ha : NoAlias h) (hinv : Inv h) (hac : Acyclic h)
    (hw : WF h) (he : e < h.next) (hf : f < h.next) (hk : h.kind e ≠ .text) (hkf : h.kind e ≠ .frag)
    (hb : h.attr2 e = some f)
    (hbf : ∀ n ∈ (DomTree.abs (h.next + 1) (toLL h) f).ids, h.attr2 n = none)
    (hbe : ∀ n ∈ (DomTree.abs (fuelOf h) (toLL h) e).ids, n ≠ e → h.attr2 n = none)
    (htf : (DomTree.abs (h.next + 1) (toLL h) f).ids.Nodup)
    (hdisj : ∀ n ∈ (DomTree.abs (h.next + 1) (toLL h) f).ids, n ∉ (DomTree.abs (fuelOf h) (toLL h) e).ids)
    (g : Nat) (hg : g ≤ h.next + 1) :
    (DomTree.abs g (toLL (normalize (fuelOf h) h e)) f).shape = (DomTree.abs g (toLL h) f).normalize.shape ∧
    (DomTree.abs g (toLL (normalize (fuelOf h) h e)) e).shape = (DomTree.abs g (toLL h) e).normalize.shape := by
  have hte : (DomTree.abs (fuelOf h) (toLL h) e).ids.Nodup := treeBelow_of_forest h e hinv hac hw hkf he
  have e2 : fuelOf h = ((h.next : Nat) + 1) + 1 := rfl
  rw [e2] at hte hbe hdisj ⊢
  have hky : (toLL h).kind e ≠ .text := by
    simp only [toLL_kind]; exact fun e' => hk ((kindOf_text _).mp e')
  have key := Proofs.DomNormalize.norm_attr2 (h.next + 1) h e f ha hw.1 he hf hk hb hbf htf ?_ hte hdisj
  · exact ⟨key.1 g hg, key.2 g (Nat.le_succ_of_le hg)⟩
  intro n hn
  have hnd := hte
  rw [Proofs.DomNormalize.abs_succ_node hky] at hnd hbe
  simp only [DomTree.Tree.ids, toLL_kids] at hnd hbe
  obtain ⟨hsnot, _⟩ := List.nodup_cons.mp hnd
  exact hbe n (List.mem_cons_of_mem _ hn) (fun e' => hsnot (e' ▸ hn))

/-- hence, after `normalize`, no two text nodes are adjacent anywhere below the node nor anywhere below the fragment it
    holds under another attribute key (what the harness flag `n` checks on the real objects) -/
theorem normalize_attribute_fragments_no_adjacent_text (h : Heap) (e f : Id) (ha : NoAlias h) (hinv : Inv h)
    (hac : Acyclic h) (hw : WF h) (he : e < h.next) (hf : f < h.next) (hk : h.kind e ≠ .text) (hkf : h.kind e ≠ .frag)
    (hb : h.attr2 e = some f)
    (hbf : ∀ n ∈ (DomTree.abs (h.next + 1) (toLL h) f).ids, h.attr2 n = none)
    (hbe : ∀ n ∈ (DomTree.abs (fuelOf h) (toLL h) e).ids, n ≠ e → h.attr2 n = none)
    (htf : (DomTree.abs (h.next + 1) (toLL h) f).ids.Nodup)
    (hdisj : ∀ n ∈ (DomTree.abs (h.next + 1) (toLL h) f).ids, n ∉ (DomTree.abs (fuelOf h) (toLL h) e).ids)
    (g : Nat) (hg : g ≤ h.next + 1) :
    DomTree.noAdjacentText [DomTree.abs g (toLL (normalize (fuelOf h) h e)) f] = true ∧
    DomTree.noAdjacentText [DomTree.abs g (toLL (normalize (fuelOf h) h e)) e] = true := by
  obtain ⟨h1, h2⟩ := normalize_attribute_fragments h e f ha hinv hac hw he hf hk hkf hb hbf hbe htf hdisj g hg
  constructor
  · rw [Proofs.DomTree.noAdjacentText_congr (us := [(DomTree.abs g (toLL h) f).normalize]) (by simp [DomTree.shapeL, h1])]
    exact normalize_merges_adjacent_text _
  · rw [Proofs.DomTree.noAdjacentText_congr (us := [(DomTree.abs g (toLL h) e).normalize]) (by simp [DomTree.shapeL, h2])]
    exact normalize_merges_adjacent_text _

/-- non-vacuity: an element holding, under another attribute key, a fragment with two adjacent text nodes -/
def exA : Heap :=
  let h1 := (create init 0 .elem 0 []).1
  let h2 := (create h1 0 .frag 0 []).1
  let h3 := (create h2 0 .text 0 [97]).1
  let h4 := (create h3 0 .text 0 [98]).1
  setAttr2 (opAppend (opAppend h4 2 3).1 2 4).1 1 2

example : exA.attr2 1 = some 2 ∧ exA.kids 2 = [3, 4] ∧ exA.kind 1 = .elem ∧ exA.kind 2 = .frag := by decide
example : (DomTree.abs (exA.next + 1) (toLL exA) 2).ids.Nodup ∧
    (∀ n ∈ (DomTree.abs (exA.next + 1) (toLL exA) 2).ids, n ∉ (DomTree.abs (fuelOf exA) (toLL exA) 1).ids) ∧
    (∀ n ∈ (DomTree.abs (exA.next + 1) (toLL exA) 2).ids, exA.attr2 n = none) := by decide
example : (DomTree.abs 3 (toLL (normalize (fuelOf exA) exA 1)) 2).shape = .node .frag 0 [.text [97, 98]] := by rfl

end PlasVerif.Properties.C06
