import PlasVerif.Proofs.Dom
import PlasVerif.Proofs.DomViews
import PlasVerif.Proofs.DomSpec
/-!
# C06 — the document tree stays a consistent tree under DOM edits

Property theorems over the heap model `Model/Dom.lean` (helper lemmas: `Proofs/Dom.lean`, `Proofs/DomViews.lean`,
`Proofs/DomTree.lean`).  Vocabulary (defined in `Proofs/Dom.lean`):
`NoAlias h` = no node's `childNodes` is its `attributes['self']` fragment; `Inv h` = every child listed by a
non-fragment node names that node as `parentNode` and is listed once; `Detached h c` = `c` is listed by no
non-fragment node (the property's "detached argument"); `Acyclic h` = a rank decreases along every child edge;
`Owned h` = every node's `ownerDocument` is the document that created it; `Reaches h a b` = `b` is `a` or a descendant.

Proved for every history (`tree_reachable`): `Inv`, `Acyclic`, `Owned`.  Proved per operation: refinement of the
plain list operation (`*_refines_list`), the derived views, and the normalisation theorems on trees.
Not proved, kept as `…_statement` at the end: heap-level `normalize`/`cloneNode` against the tree-level functions
and `compareDocumentPosition`; they and the `self`-attribute aliasing are carried by the correspondence streams.
-/
namespace PlasVerif.Properties.C06
open PlasVerif.Model.Dom PlasVerif.Proofs.Dom PlasVerif.Proofs.DomViews PlasVerif.Proofs.DomSpec
open PlasVerif.Spec

/-! ## the invariant and histories -/

theorem inv_init : Inv init := by
  constructor <;> intro n <;> simp [init]

/-- the documented editing operations, with single nodes as arguments -/
inductive Op
  | append (s c : Id)
  | insert (s : Id) (i : Int) (c : Id)
  | pop (s : Id) (i : Int)
  | removeChild (s c : Id)
  | insertBefore (s new ref : Id)
  | insertAfter (s new ref : Id)
  | replaceChild (s new old : Id)
  | setItem (s : Id) (i : Int) (c : Id)
  | extend (s : Id) (cs : List Id)
  | appendFrag (s c : Id)                 -- `append` with a fragment argument (its items are spliced in)
  | insertFrag (s : Id) (i : Int) (c : Id)

/-- what the model does for an operation (the error, if any, is dropped: the state is what matters) -/
def applyOp (h : Heap) : Op → Heap
  | .append s c => (opAppend h s c).1
  | .insert s i c => (opInsert h s i c).1
  | .pop s i => (opPop h s i).1
  | .removeChild s c => (removeChild h s c).1
  | .insertBefore s n r => (insertBefore h s n r).1
  | .insertAfter s n r => (insertAfter h s n r).1
  | .replaceChild s n o => (replaceChild h s n o).1
  | .setItem s i c => (setItem h s i c).1
  | .extend s cs => (extend h s cs).1
  | .appendFrag s c => (opAppend h s c).1
  | .insertFrag s i c => (opInsert h s i c).1

/-- a fragment argument: not the receiver, listed nowhere, its items distinct, detached single nodes -/
def FragArg (h : Heap) (s c : Id) : Prop :=
  h.kind c = .frag ∧ c ≠ s ∧ Detached h c ∧ (h.kids c).Nodup ∧ ∀ it ∈ h.kids c, h.kind it ≠ .frag ∧ Detached h it

/-- the documented precondition: the argument is a detached node (for the three moving operations it may
    already be a child of the receiver); nothing is required of indexes, references or the receiver -/
def Pre (h : Heap) : Op → Prop
  | .append _ c => h.kind c ≠ .frag ∧ Detached h c
  | .insert _ _ c => h.kind c ≠ .frag ∧ Detached h c
  | .setItem _ _ c => h.kind c ≠ .frag ∧ Detached h c
  | .pop _ _ => True
  | .removeChild _ _ => True
  | .insertBefore s n _ => h.kind n ≠ .frag ∧ DetachedExcept h s n
  | .insertAfter s n _ => h.kind n ≠ .frag ∧ DetachedExcept h s n
  | .replaceChild s n _ => h.kind n ≠ .frag ∧ DetachedExcept h s n
  | .extend _ cs => cs.Nodup ∧ ∀ c ∈ cs, h.kind c ≠ .frag ∧ Detached h c
  | .appendFrag s c => FragArg h s c
  | .insertFrag s _ c => FragArg h s c

/-- histories whose every step meets its precondition in the state it is applied to -/
def Valid : Heap → List Op → Prop
  | _, [] => True
  | h, o :: os => Pre h o ∧ Valid (applyOp h o) os

private theorem inv_insertRel (off : Nat) (h : Heap) (s n r : Id) (ha : NoAlias h) (hi : Inv h)
    (hk : h.kind n ≠ .frag) (hd : DetachedExcept h s n) :
    NoAlias (insertRel off h s n r).1 ∧ Inv (insertRel off h s n r).1 := by
  rw [insertRel_eq ha off s n r hk]
  have ha1 := noAlias_removeChild ha s n
  have hi1 := inv_removeChild ha hi s n
  have hd1 := detached_after_remove ha hi s n hd
  simp only
  split
  · exact ⟨noAlias_putAt ha1 _ _ _, inv_putAt hi1 s _ n hd1⟩
  · exact ⟨ha1, hi1⟩

/-- every operation keeps the invariant (and introduces no alias) when its precondition holds -/
theorem inv_step (h : Heap) (o : Op) (ha : NoAlias h) (hi : Inv h) (hp : Pre h o) :
    NoAlias (applyOp h o) ∧ Inv (applyOp h o) := by
  cases o with
  | append s c =>
    simp only [applyOp, opAppend_leaf ha s c hp.1]
    exact ⟨noAlias_putAt ha _ _ _, inv_putAt hi s _ c hp.2⟩
  | insert s i c =>
    simp only [applyOp, opInsert_leaf ha s i c hp.1]
    exact ⟨noAlias_putAt ha _ _ _, inv_putAt hi s _ c hp.2⟩
  | pop s i =>
    simp only [applyOp, opPop_fst]
    exact ⟨noAlias_pop ha s i, inv_pop ha hi s i⟩
  | removeChild s c => exact ⟨noAlias_removeChild ha s c, inv_removeChild ha hi s c⟩
  | insertBefore s n r => exact inv_insertRel 0 h s n r ha hi hp.1 hp.2
  | insertAfter s n r => exact inv_insertRel 1 h s n r ha hi hp.1 hp.2
  | replaceChild s n old =>
    simp only [applyOp]
    rw [replaceChild_eq ha s n old hp.1]
    have ha1 := noAlias_removeChild ha s n
    have hi1 := inv_removeChild ha hi s n
    have hd1 := detached_after_remove ha hi s n hp.2
    simp only
    split
    · exact ⟨noAlias_putAt (noAlias_pop ha1 _ _) _ _ _,
             inv_putAt (inv_pop ha1 hi1 _ _) s _ n (detached_pop ha1 _ _ n hd1)⟩
    · exact ⟨ha1, hi1⟩
  | setItem s i c =>
    simp only [applyOp]
    rw [setItem_eq ha s i c hp.1]
    have ha1 := noAlias_putAt ha s (pyInsPos (h.kids s).length i) c
    exact ⟨noAlias_pop ha1 _ _, inv_pop ha1 (inv_putAt hi s _ c hp.2) _ _⟩
  | extend s cs =>
    simp only [applyOp]
    rw [extend_eq s cs h ha (fun c hc => (hp.2 c hc).1)]
    exact inv_appendAll s cs h ha hi hp.1 (fun c hc => (hp.2 c hc).2)
  | appendFrag s c =>
    obtain ⟨hk, hne, hdc, hnd, hit⟩ := hp
    have hcn : c ∉ h.kids c := fun hm => (hit c hm).1 hk
    simp only [applyOp, opAppend, splices_ne ha s c hne, Bool.false_eq_true, if_false,
      append_frag_eq ha s c hk (fun it hm => (hit it hm).1)]
    have := inv_appendAll s (h.kids c) h ha hi hnd (fun it hm => (hit it hm).2)
    exact ⟨noAlias_setPO this.1 s c, inv_setPO this.2 s c (detached_appendAll s _ c h hcn hdc)⟩
  | insertFrag s i c =>
    obtain ⟨hk, hne, hdc, hnd, hit⟩ := hp
    have hcn : c ∉ h.kids c := fun hm => (hit c hm).1 hk
    simp only [applyOp, opInsert, splices_ne ha s c hne, Bool.false_eq_true, if_false,
      insert_frag_eq ha s i c hk (fun it hm => (hit it hm).1)]
    have := inv_insertAll s (h.kids c) h i ha hi hnd (fun it hm => (hit it hm).2)
    exact ⟨noAlias_setPO this.1 s c, inv_setPO this.2 s c (detached_insertAll s _ c h i hcn hdc)⟩

/-- **the tree invariant holds after every history** of append, insert, pop, removeChild, insertBefore,
    insertAfter, replaceChild, item assignment and extend with single-node arguments and of append / insert
    with fragment arguments (any indexes and references, any length) whose steps meet their preconditions -/
theorem inv_reachable (ops : List Op) : ∀ h, NoAlias h → Inv h → Valid h ops →
    Inv (ops.foldl applyOp h) := by
  induction ops with
  | nil => intro h _ hi _; exact hi
  | cons o os ih =>
    intro h ha hi hv
    have := inv_step h o ha hi hv.1
    exact ih _ this.1 this.2 hv.2

/-- non-vacuity: two fresh elements; append 1 to the document, insert 2 before it, replace 1 by itself … -/
example : Valid ((create (create init 0 .elem 0 []).1 0 .elem 1 []).1)
    [.append 0 1, .insertBefore 0 2 1, .pop 0 (-1)] := by
  refine ⟨⟨by decide, ?_⟩, ⟨by decide, ?_⟩, trivial, trivial⟩
  · intro n _; simp [create, init, upd]
  · intro n _ hn; simp [applyOp, opAppend, splices, create, init, upd, fuelOf, append, appendLeaf, setPO, rawAppend, hn]

/-- **every node keeps the document that created it**, whatever the operation -/
theorem owner_preserved (h : Heap) (o : Op) (ha : NoAlias h) (hp : Pre h o) (ho : Owned h) : Owned (applyOp h o) := by
  cases o with
  | append s c => simp only [applyOp, opAppend_leaf ha s c hp.1]; exact owned_putAt ho _ _ _
  | insert s i c => simp only [applyOp, opInsert_leaf ha s i c hp.1]; exact owned_putAt ho _ _ _
  | pop s i => simp only [applyOp, opPop_fst]; exact owned_pop ha ho s i
  | removeChild s c => exact owned_removeChild ha ho s c
  | insertBefore s n r =>
    simp only [applyOp, insertBefore]; rw [insertRel_eq ha 0 s n r hp.1]; simp only
    split
    · exact owned_putAt (owned_removeChild ha ho s n) _ _ _
    · exact owned_removeChild ha ho s n
  | insertAfter s n r =>
    simp only [applyOp, insertAfter]; rw [insertRel_eq ha 1 s n r hp.1]; simp only
    split
    · exact owned_putAt (owned_removeChild ha ho s n) _ _ _
    · exact owned_removeChild ha ho s n
  | replaceChild s n old =>
    simp only [applyOp]; rw [replaceChild_eq ha s n old hp.1]; simp only
    split
    · exact owned_putAt (owned_pop (noAlias_removeChild ha s n) (owned_removeChild ha ho s n) _ _) _ _ _
    · exact owned_removeChild ha ho s n
  | setItem s i c =>
    simp only [applyOp]; rw [setItem_eq ha s i c hp.1]
    exact owned_pop (noAlias_putAt ha _ _ _) (owned_putAt ho _ _ _) _ _
  | extend s cs =>
    simp only [applyOp]; rw [extend_eq s cs h ha (fun c hc => (hp.2 c hc).1)]
    exact owned_appendAll s cs h ho
  | appendFrag s c =>
    obtain ⟨hk, hne, _, _, hit⟩ := hp
    simp only [applyOp, opAppend, splices_ne ha s c hne, Bool.false_eq_true, if_false,
      append_frag_eq ha s c hk (fun it hm => (hit it hm).1)]
    exact owned_setPO (owned_appendAll s _ h ho) s c
  | insertFrag s i c =>
    obtain ⟨hk, hne, _, _, hit⟩ := hp
    simp only [applyOp, opInsert, splices_ne ha s c hne, Bool.false_eq_true, if_false,
      insert_frag_eq ha s i c hk (fun it hm => (hit it hm).1)]
    exact owned_setPO (owned_insertAll s _ h i ho) s c

/-- … hence after every valid history -/
theorem owner_reachable (ops : List Op) : ∀ h, NoAlias h → Inv h → Owned h → Valid h ops →
    Owned (ops.foldl applyOp h) := by
  induction ops with
  | nil => intro h _ _ ho _; exact ho
  | cons o os ih =>
    intro h ha hi ho hv
    have := inv_step h o ha hi hv.1
    exact ih _ this.1 this.2 (owner_preserved h o ha hv.1 ho) hv.2

example : Owned init := fun _ => rfl

/-- the argument (every item of a fragment or list argument) is not the receiver or one of its ancestors -/
def NotAncestor (h : Heap) : Op → Prop
  | .append s c => ¬ Reaches h c s
  | .insert s _ c => ¬ Reaches h c s
  | .setItem s _ c => ¬ Reaches h c s
  | .pop _ _ => True
  | .removeChild _ _ => True
  | .insertBefore s n _ => ¬ Reaches h n s
  | .insertAfter s n _ => ¬ Reaches h n s
  | .replaceChild s n _ => ¬ Reaches h n s
  | .extend s cs => ∀ c ∈ cs, ¬ Reaches h c s
  | .appendFrag s c => ∀ it ∈ h.kids c, ¬ Reaches h it s
  | .insertFrag s _ c => ∀ it ∈ h.kids c, ¬ Reaches h it s

/-- **the child lists stay acyclic** (a rank decreases along every child edge) under every operation whose
    argument is not an ancestor of the receiver -/
theorem acyclic_step (h : Heap) (o : Op) (ha : NoAlias h) (hp : Pre h o) (hs : NotAncestor h o) (hac : Acyclic h) :
    Acyclic (applyOp h o) := by
  cases o with
  | append s c => simp only [applyOp, opAppend_leaf ha s c hp.1]; exact acyclic_putAt hac _ _ _ hs
  | insert s i c => simp only [applyOp, opInsert_leaf ha s i c hp.1]; exact acyclic_putAt hac _ _ _ hs
  | pop s i => simp only [applyOp, opPop_fst]; exact acyclic_pop ha hac s i
  | removeChild s c => exact acyclic_removeChild ha hac s c
  | insertBefore s n r =>
    simp only [applyOp, insertBefore]; rw [insertRel_eq ha 0 s n r hp.1]; simp only
    split
    · exact acyclic_putAt (acyclic_removeChild ha hac s n) _ _ _
        (fun hr => hs (reaches_mono (removeChild_kids_sub ha s n) hr))
    · exact acyclic_removeChild ha hac s n
  | insertAfter s n r =>
    simp only [applyOp, insertAfter]; rw [insertRel_eq ha 1 s n r hp.1]; simp only
    split
    · exact acyclic_putAt (acyclic_removeChild ha hac s n) _ _ _
        (fun hr => hs (reaches_mono (removeChild_kids_sub ha s n) hr))
    · exact acyclic_removeChild ha hac s n
  | replaceChild s n old =>
    simp only [applyOp]; rw [replaceChild_eq ha s n old hp.1]; simp only
    have ha1 := noAlias_removeChild ha s n
    split
    · exact acyclic_putAt (acyclic_pop ha1 (acyclic_removeChild ha hac s n) _ _) _ _ _
        (fun hr => hs (reaches_mono (removeChild_kids_sub ha s n) (reaches_mono (pop_kids_sub ha1 s _) hr)))
    · exact acyclic_removeChild ha hac s n
  | setItem s i c =>
    simp only [applyOp]; rw [setItem_eq ha s i c hp.1]
    exact acyclic_pop (noAlias_putAt ha _ _ _) (acyclic_putAt hac _ _ _ hs) _ _
  | extend s cs =>
    simp only [applyOp]; rw [extend_eq s cs h ha (fun c hc => (hp.2 c hc).1)]
    exact acyclic_appendAll s cs h hac hs
  | appendFrag s c =>
    obtain ⟨hk, hne, _, _, hit⟩ := hp
    simp only [applyOp, opAppend, splices_ne ha s c hne, Bool.false_eq_true, if_false,
      append_frag_eq ha s c hk (fun it hm => (hit it hm).1)]
    exact acyclic_setPO (acyclic_appendAll s _ h hac hs) s c
  | insertFrag s i c =>
    obtain ⟨hk, hne, _, _, hit⟩ := hp
    simp only [applyOp, opInsert, splices_ne ha s c hne, Bool.false_eq_true, if_false,
      insert_frag_eq ha s i c hk (fun it hm => (hit it hm).1)]
    exact acyclic_setPO (acyclic_insertAll s _ h i hac hs) s c

/-- histories whose every step meets its precondition and never puts an ancestor below itself -/
def ValidTree : Heap → List Op → Prop
  | _, [] => True
  | h, o :: os => Pre h o ∧ NotAncestor h o ∧ ValidTree (applyOp h o) os

/-- **after every such history the structure is a forest**: parent links of listed children are right, nothing is
    listed twice, no node is its own descendant, every node keeps its document -/
theorem tree_reachable (ops : List Op) : ∀ h, NoAlias h → Inv h → Acyclic h → Owned h → ValidTree h ops →
    Inv (ops.foldl applyOp h) ∧ Acyclic (ops.foldl applyOp h) ∧ Owned (ops.foldl applyOp h) := by
  induction ops with
  | nil => intro h _ hi hac ho _; exact ⟨hi, hac, ho⟩
  | cons o os ih =>
    intro h ha hi hac ho hv
    have := inv_step h o ha hi hv.1
    exact ih _ this.1 this.2 (acyclic_step h o ha hv.1 hv.2.1 hac) (owner_preserved h o ha hv.1 ho) hv.2.2

/-- non-vacuity of `tree_reachable`: two fresh elements; append 1 to the document, insert 2 before it, pop the last -/
example : ValidTree ((create (create init 0 .elem 0 []).1 0 .elem 1 []).1)
    [.append 0 1, .insertBefore 0 2 1, .pop 0 (-1)] := by
  refine ⟨⟨by decide, ?_⟩, ?_, ⟨by decide, ?_⟩, ?_, trivial, trivial, trivial⟩
  · intro n _; simp [create, init, upd]
  · intro hr; exact absurd (reaches_leaf (by simp [create, init, upd]) hr) (by decide)
  · intro n _ hn; simp [applyOp, opAppend, splices, create, init, upd, fuelOf, append, appendLeaf, setPO, rawAppend, hn]
  · intro hr
    exact absurd (reaches_leaf (by simp [applyOp, opAppend, splices, create, init, upd, fuelOf, append, appendLeaf, setPO, rawAppend]) hr) (by decide)

example : Acyclic init := ⟨fun _ => 0, by intro n x hx; simp [init] at hx⟩

/-! ## each operation refines the plain list operation -/

/-- `append`: `l ++ [c]`, no other list changes -/
theorem append_refines_list (h : Heap) (s c : Id) (ha : NoAlias h) (hc : h.kind c ≠ .frag) :
    (opAppend h s c).1.kids s = h.kids s ++ [c] ∧ (∀ n, n ≠ s → (opAppend h s c).1.kids n = h.kids n) ∧
    (opAppend h s c).2 = none := by
  rw [opAppend_leaf ha s c hc]
  exact ⟨putAt_end_kids h s c, fun n hn => putAt_kids_other h s _ c n hn, rfl⟩

example : (opAppend (create init 0 .elem 0 []).1 0 1).1.kids 0 = [1] := by decide

/-- `insert` at an index in range: the splice -/
theorem insert_refines_list (h : Heap) (s c : Id) (i : Nat) (ha : NoAlias h) (hc : h.kind c ≠ .frag)
    (hi : i ≤ (h.kids s).length) :
    (opInsert h s i c).1.kids s = (h.kids s).take i ++ c :: (h.kids s).drop i ∧
    ∀ n, n ≠ s → (opInsert h s i c).1.kids n = h.kids n := by
  rw [opInsert_leaf ha s i c hc, pyInsPos_nat hi]
  exact ⟨putAt_kids_self h s i c, fun n hn => putAt_kids_other h s i c n hn⟩

/-- `pop` with an index in range: `eraseIdx`, and the popped node no longer names the receiver as parent -/
theorem pop_refines_list (h : Heap) (s : Id) (i : Nat) (ha : NoAlias h) (hi : i < (h.kids s).length) :
    (opPop h s i).1.kids s = (h.kids s).eraseIdx i ∧ (∀ n, n ≠ s → (opPop h s i).1.kids n = h.kids n) ∧
    (opPop h s i).1.parent ((h.kids s)[i]) ≠ some s := by
  rw [opPop_fst, pop_eq ha s i i _ (pyPopPos_nat hi) (List.getElem?_eq_getElem hi)]
  refine ⟨takeAt_kids_self h s i _, fun n hn => takeAt_kids_other h s i _ n hn, ?_⟩
  simp only [takeAt, upd, if_true]
  split <;> simp_all

/-- negative indexes count from the end, as for a Python list -/
theorem pop_last_refines_list (h : Heap) (s : Id) (ha : NoAlias h) (hne : h.kids s ≠ []) :
    (opPop h s (-1)).1.kids s = (h.kids s).dropLast := by
  have hlen : 0 < (h.kids s).length := List.length_pos_iff.mpr hne
  have hp : pyPopPos (h.kids s).length (-1) = some ((h.kids s).length - 1) := by
    unfold pyPopPos; simp; omega
  have hlt : (h.kids s).length - 1 < (h.kids s).length := by omega
  rw [opPop_fst, pop_eq ha s (-1) _ _ hp (List.getElem?_eq_getElem hlt), takeAt_kids_self]
  exact List.eraseIdx_length_sub_one

/-- `removeChild`: erase the first occurrence (nothing changes when absent), no other list changes -/
theorem removeChild_refines_list (h : Heap) (s c : Id) (ha : NoAlias h) :
    (removeChild h s c).1.kids s = (h.kids s).erase c ∧ ∀ n, n ≠ s → (removeChild h s c).1.kids n = h.kids n :=
  ⟨removeChild_kids_self ha s c, fun n hn => removeChild_kids_other ha s c n hn⟩

private theorem insertRel_refines (off : Nat) (hoff : off ≤ 1) (h : Heap) (s new ref : Id) (ha : NoAlias h)
    (hc : h.kind new ≠ .frag) (hr : ref ∈ (h.kids s).erase new) :
    (insertRel off h s new ref).1.kids s =
      ((h.kids s).erase new).take (((h.kids s).erase new).idxOf ref + off) ++
        new :: ((h.kids s).erase new).drop (((h.kids s).erase new).idxOf ref + off) ∧
    ∀ n, n ≠ s → (insertRel off h s new ref).1.kids n = h.kids n := by
  rw [insertRel_eq ha off s new ref hc]
  simp only [removeChild_kids_self ha, hr, if_true]
  have hlt := List.idxOf_lt_length_of_mem hr
  rw [pyInsPos_nat (by omega)]
  refine ⟨?_, fun n hn => ?_⟩
  · rw [putAt_kids_self, removeChild_kids_self ha]
  · rw [putAt_kids_other _ s _ new n hn, removeChild_kids_other ha s new n hn]

/-- `insertBefore(new, ref)`: `new` is first taken out of the list (a move), then spliced in before `ref` -/
theorem insertBefore_refines_list (h : Heap) (s new ref : Id) (ha : NoAlias h) (hc : h.kind new ≠ .frag)
    (hr : ref ∈ (h.kids s).erase new) :
    (insertBefore h s new ref).1.kids s =
      ((h.kids s).erase new).take (((h.kids s).erase new).idxOf ref) ++
        new :: ((h.kids s).erase new).drop (((h.kids s).erase new).idxOf ref) ∧
    ∀ n, n ≠ s → (insertBefore h s new ref).1.kids n = h.kids n :=
  insertRel_refines 0 (by omega) h s new ref ha hc hr

/-- `insertAfter(new, ref)` -/
theorem insertAfter_refines_list (h : Heap) (s new ref : Id) (ha : NoAlias h) (hc : h.kind new ≠ .frag)
    (hr : ref ∈ (h.kids s).erase new) :
    (insertAfter h s new ref).1.kids s =
      ((h.kids s).erase new).take (((h.kids s).erase new).idxOf ref + 1) ++
        new :: ((h.kids s).erase new).drop (((h.kids s).erase new).idxOf ref + 1) ∧
    ∀ n, n ≠ s → (insertAfter h s new ref).1.kids n = h.kids n :=
  insertRel_refines 1 (by omega) h s new ref ha hc hr

example : (insertBefore (opAppend (opAppend (create (create init 0 .elem 0 []).1 0 .elem 1 []).1 0 1).1 0 2).1 0 2 1).1.kids 0 = [2, 1] := by
  decide

/-- `replaceChild(new, old)`: `new` is first taken out of the list, then takes the place of `old` -/
theorem replaceChild_refines_list (h : Heap) (s new old : Id) (ha : NoAlias h) (hc : h.kind new ≠ .frag)
    (hr : old ∈ (h.kids s).erase new) :
    (replaceChild h s new old).1.kids s =
      ((h.kids s).erase new).take (((h.kids s).erase new).idxOf old) ++
        new :: ((h.kids s).erase new).drop (((h.kids s).erase new).idxOf old + 1) ∧
    ∀ n, n ≠ s → (replaceChild h s new old).1.kids n = h.kids n := by
  rw [replaceChild_eq ha s new old hc]
  have ha1 := noAlias_removeChild ha s new
  simp only [removeChild_kids_self ha, hr, if_true]
  have hlt := List.idxOf_lt_length_of_mem hr
  have hx : ((removeChild h s new).1.kids s)[((h.kids s).erase new).idxOf old]? = some old := by
    rw [removeChild_kids_self ha, List.getElem?_eq_getElem hlt, List.getElem_idxOf hlt]
  have hpop := pop_eq ha1 s (((h.kids s).erase new).idxOf old : Nat) _ old
    (by rw [removeChild_kids_self ha]; exact pyPopPos_nat hlt) hx
  rw [hpop]
  simp only [takeAt_kids_self, removeChild_kids_self ha]
  rw [pyInsPos_nat (by rw [List.length_eraseIdx]; simp [hlt]; omega)]
  refine ⟨?_, fun n hn => ?_⟩
  · rw [putAt_kids_self, takeAt_kids_self, removeChild_kids_self ha,
        take_eraseIdx_self _ _ hlt, drop_eraseIdx_self _ _ hlt]
  · rw [putAt_kids_other _ s _ new n hn, takeAt_kids_other _ s _ old n hn, removeChild_kids_other ha s new n hn]

/-- item assignment `node[i] = c` with `0 ≤ i < len`: the plain list update -/
theorem setItem_refines_list (h : Heap) (s c : Id) (i : Nat) (ha : NoAlias h) (hc : h.kind c ≠ .frag)
    (hi : i < (h.kids s).length) :
    (setItem h s i c).1.kids s = (h.kids s).take i ++ c :: (h.kids s).drop (i + 1) ∧
    ∀ n, n ≠ s → (setItem h s i c).1.kids n = h.kids n := by
  rw [setItem_eq ha s i c hc, pyInsPos_nat (Nat.le_of_lt hi)]
  have ha1 := noAlias_putAt ha s i c
  have hlen : i + 1 < ((putAt h s i c).kids s).length := by
    rw [putAt_kids_self]; simp; omega
  have hpop := pop_eq ha1 s ((i : Int) + 1) (i + 1) _ (by exact_mod_cast pyPopPos_nat hlen) (List.getElem?_eq_getElem hlen)
  rw [hpop]
  refine ⟨?_, fun n hn => ?_⟩
  · rw [takeAt_kids_self, putAt_kids_self, eraseIdx_succ_middle _ _ _ hi]
  · rw [takeAt_kids_other _ s _ _ n hn, putAt_kids_other h s i c n hn]

/-- observation O3 as a theorem: `node[len(node)] = c` appends `c` and then raises IndexError -/
theorem setItem_out_of_range_raises (h : Heap) (s c : Id) (ha : NoAlias h) (hc : h.kind c ≠ .frag) :
    (setItem h s (h.kids s).length c).2 = some .indexError ∧
    (setItem h s (h.kids s).length c).1.kids s = h.kids s ++ [c] := by
  have ha1 := noAlias_putAt ha s (h.kids s).length c
  have hnone : pyPopPos ((putAt h s (h.kids s).length c).kids s).length (((h.kids s).length : Int) + 1) = none := by
    rw [putAt_end_kids]; unfold pyPopPos; simp; omega
  have hp := pop_none ha1 s _ hnone
  simp only [setItem, splices_leaf h s c hc, hc, if_false, insert_fuelOf ha s _ c hc, pyInsPos_nat (Nat.le_refl _)]
  unfold opPop
  rw [hp]
  exact ⟨rfl, putAt_end_kids h s c⟩

/-- `extend` with a list of single nodes: `l ++ cs` -/
theorem extend_refines_list (h : Heap) (s : Id) (cs : List Id) (ha : NoAlias h) (hc : ∀ c ∈ cs, h.kind c ≠ .frag) :
    (extend h s cs).1.kids s = h.kids s ++ cs ∧ (∀ n, n ≠ s → (extend h s cs).1.kids n = h.kids n) ∧
    (extend h s cs).2 = none := by
  rw [extend_eq s cs h ha hc]
  exact ⟨(kids_appendAll s cs h).1, (kids_appendAll s cs h).2, rfl⟩

/-! ## fragment arguments: the items are spliced in, in order -/

/-- `append(fragment)`: `l ++ items`; the fragment keeps its own list, no other list changes -/
theorem append_fragment_refines_list (h : Heap) (s c : Id) (ha : NoAlias h) (hk : h.kind c = .frag) (hne : c ≠ s)
    (hit : ∀ it ∈ h.kids c, h.kind it ≠ .frag) :
    (opAppend h s c).1.kids s = h.kids s ++ h.kids c ∧ (∀ n, n ≠ s → (opAppend h s c).1.kids n = h.kids n) ∧
    (opAppend h s c).2 = none := by
  simp only [opAppend, splices_ne ha s c hne, Bool.false_eq_true, if_false, append_frag_eq ha s c hk hit, setPO_kids]
  exact ⟨(kids_appendAll s _ h).1, (kids_appendAll s _ h).2, trivial⟩

/-- `insert(i, fragment)` with `0 ≤ i ≤ len`: the items are spliced in at `i`, in order -/
theorem insert_fragment_refines_list (h : Heap) (s c : Id) (i : Nat) (ha : NoAlias h) (hk : h.kind c = .frag)
    (hne : c ≠ s) (hit : ∀ it ∈ h.kids c, h.kind it ≠ .frag) (hi : i ≤ (h.kids s).length) :
    (opInsert h s i c).1.kids s = (h.kids s).take i ++ h.kids c ++ (h.kids s).drop i ∧
    (∀ n, n ≠ s → (opInsert h s i c).1.kids n = h.kids n) := by
  simp only [opInsert, splices_ne ha s c hne, Bool.false_eq_true, if_false, insert_frag_eq ha s i c hk hit, setPO_kids]
  exact kids_insertAll s _ h i hi

/-- a fragment spliced into a fragment: the receiver's own parent is handed on (the `setParent` rule) -/
theorem append_to_fragment_parent (h : Heap) (s c : Id) (ha : NoAlias h) (hc : h.kind c ≠ .frag) (hs : h.kind s = .frag) :
    (opAppend h s c).1.parent c = h.parent s := by
  simp [opAppend_leaf ha s c hc, putAt, upd, hs]

/-! ## derived views agree with the list model -/

/-- `firstChild` / `lastChild` are the ends of the child list -/
theorem first_last (h : Heap) (s : Id) (ha : NoAlias h) :
    firstChild h s = (h.kids s).head? ∧ lastChild h s = (h.kids s).getLast? := by
  simp [firstChild, lastChild, childList_eq ha]

/-- `previousSibling` / `nextSibling` of a listed child are its neighbours in the parent's list -/
theorem siblings_are_neighbours (h : Heap) (p n : Id) (ha : NoAlias h) (hi : Inv h) (hp : h.kind p ≠ .frag)
    (hn : n ∈ h.kids p) :
    prevSibling h n = DomTree.prevIn (h.kids p) n ∧ nextSibling h n = DomTree.nextIn (h.kids p) n := by
  have hpar := hi.1 p n hp hn
  simp [prevSibling, nextSibling, hpar, childList_eq ha, hn, DomTree.prevIn, DomTree.nextIn]

/-- a node that is listed nowhere and whose parent link is empty has no siblings -/
theorem detached_has_no_siblings (h : Heap) (n : Id) (hp : h.parent n = none) :
    prevSibling h n = none ∧ nextSibling h n = none := by
  simp [prevSibling, nextSibling, hp]

/-- `textContent` is the concatenation of the text leaves of the unfolded tree, in document order
    (for every unfolding depth; the driver uses a depth that exceeds the number of nodes) -/
theorem textContent_is_concat (h : Heap) (n : Id) (fuel : Nat) (ha : NoAlias h) :
    textContent (fuel + 1) h n = (DomTree.abs (fuel + 1) (toLL h) n).textContent := by
  have := textContent_child ha (fuel + 1) n
  by_cases hk : h.kind n = .text
  · rw [← this]; simp [hk, textContent]
  · rw [← this]; simp [hk]

/-- `getElementsByTagName` is the preorder filter of the proper descendants of the unfolded tree -/
theorem getElementsByTagName_is_preorder_filter (h : Heap) (n : Id) (tag fuel : Nat) (ha : NoAlias h) :
    getElementsByTagName fuel h n tag = (DomTree.abs fuel (toLL h) n).elementsByName tag :=
  elements_abs ha tag fuel n

example : textContent 3 (opAppend (opAppend (create (create init 0 .elem 0 []).1 0 .text 0 [104, 105]).1 0 1).1 1 2).1 0 = [104, 105] := by
  decide

/-! ## normalisation (the pop-all-then-rebuild algorithm, on trees) -/

/-- normalisation does not change the text content -/
theorem normalize_preserves_textContent (t : DomTree.Tree) : t.normalize.textContent = t.textContent :=
  Proofs.DomTree.normalize_textContent t

/-- after normalisation no two text nodes are adjacent, at any depth -/
theorem normalize_merges_adjacent_text (t : DomTree.Tree) : DomTree.noAdjacentText [t.normalize] = true := by
  cases t with
  | text i s => simp [DomTree.Tree.normalize, DomTree.noAdjacentText]
  | node i k nm cs =>
    simp only [DomTree.Tree.normalize, DomTree.noAdjacentText]
    exact Proofs.DomTree.normalizeL_noAdjacent cs [] false

/-- normalisation is idempotent -/
theorem normalize_idempotent (t : DomTree.Tree) : t.normalize.normalize = t.normalize :=
  Proofs.DomTree.normalize_idem t

example : (DomTree.Tree.node 1 .elem 0 [.text 2 [97], .text 3 [98], .node 4 .elem 1 [], .text 5 [99]]).normalize =
    .node 1 .elem 0 [.text 0 [97, 98], .node 4 .elem 1 [], .text 0 [99]] := by
  simp [DomTree.Tree.normalize, DomTree.normalizeL, DomTree.flush]

/-! ## the Spec's list operations and the heap model commute

Whenever the executable list-of-lists model (`Spec/DomTree.lean`, the oracle of the correspondence check)
accepts an operation, the heap model produces exactly the child lists the Spec predicts. -/

/-- the list-of-lists model's `append` and the heap model's `append` produce the same child lists whenever the
    Spec accepts the arguments -/
theorem append_commutes (h : Heap) (s c : Id) (ha : NoAlias h) (m' : DomTree.LL)
    (hs : DomTree.append? (toLL h) s c = some m') : (opAppend h s c).1.kids = m'.kids := by
  unfold DomTree.append? at hs
  split at hs
  · rename_i hok
    injection hs with hs; subst hs
    funext n
    by_cases hk : h.kind c = .frag
    · obtain ⟨hne, hit⟩ := argOK_frag hk hok
      have := append_fragment_refines_list h s c ha hk hne hit
      have hit' : DomTree.items (toLL h) c = h.kids c := by simp [DomTree.items, hk, kindOf]
      by_cases hn : n = s
      · subst hn; simp [DomTree.set, hit', this.1]
      · simp [DomTree.set, hn, this.2.1 n hn]
    · have := append_refines_list h s c ha hk
      have hk' : kindOf (h.kind c) ≠ .frag := fun e => hk ((kindOf_frag _).mp e)
      have hit' : DomTree.items (toLL h) c = [c] := by simp [DomTree.items, hk']
      by_cases hn : n = s
      · subst hn; simp [DomTree.set, hit', this.1]
      · simp [DomTree.set, hn, this.2.1 n hn]
  · cases hs

theorem insert_commutes (h : Heap) (s c : Id) (i : Int) (ha : NoAlias h) (m' : DomTree.LL)
    (hs : DomTree.insert? (toLL h) s i c = some m') : (opInsert h s i c).1.kids = m'.kids := by
  unfold DomTree.insert? at hs
  split at hs
  · rename_i hok
    obtain ⟨hok, h0, hlen⟩ := hok
    injection hs with hs; subst hs
    have hi : i = (i.toNat : Int) := (Int.toNat_of_nonneg h0).symm
    have hle : i.toNat ≤ (h.kids s).length := by simp only [toLL_kids] at hlen; omega
    rw [hi]
    by_cases hk : h.kind c = .frag
    · obtain ⟨hne, hit⟩ := argOK_frag hk hok
      have := insert_fragment_refines_list h s c i.toNat ha hk hne hit hle
      simp only [Int.toNat_natCast, items_frag hk, DomTree.splice, toLL_kids]
      exact kids_eq_set this.1 this.2
    · have := insert_refines_list h s c i.toNat ha hk hle
      simp only [Int.toNat_natCast, items_leaf hk, DomTree.splice, toLL_kids]
      exact kids_eq_set (by rw [this.1]; simp) this.2
  · cases hs

theorem removeChild_commutes (h : Heap) (s c : Id) (ha : NoAlias h) (m' : DomTree.LL)
    (hs : DomTree.removeChild? (toLL h) s c = some m') : (removeChild h s c).1.kids = m'.kids := by
  unfold DomTree.removeChild? at hs
  split at hs
  · injection hs with hs; subst hs
    have := removeChild_refines_list h s c ha
    exact kids_eq_set this.1 this.2
  · cases hs

theorem pop_commutes (h : Heap) (s : Id) (i : Int) (ha : NoAlias h) (m' : DomTree.LL)
    (hs : DomTree.pop? (toLL h) s i = some m') : (opPop h s i).1.kids = m'.kids := by
  unfold DomTree.pop? at hs
  by_cases hok : s < (toLL h).next ∧ -(((toLL h).kids s).length : Int) ≤ i ∧ i < (((toLL h).kids s).length : Int)
  · simp only [hok, and_self, if_true] at hs
    obtain ⟨_, h1, h2⟩ := hok
    simp only [toLL_kids] at h1 h2 hs
    injection hs with hs; subst hs
    have hp := pyPopPos_range h1 h2
    have hlt := pyPopPos_lt hp
    rw [opPop_fst, pop_eq ha s i _ _ hp (List.getElem?_eq_getElem hlt)]
    exact kids_eq_set (takeAt_kids_self h s _ _) (fun n hn => takeAt_kids_other h s _ _ n hn)
  · simp only [hok, if_false] at hs; cases hs

theorem setItem_commutes (h : Heap) (s c : Id) (i : Int) (ha : NoAlias h) (hk : h.kind c ≠ .frag) (m' : DomTree.LL)
    (hs : DomTree.setItem? (toLL h) s i c = some m') : (setItem h s i c).1.kids = m'.kids := by
  unfold DomTree.setItem? at hs
  split at hs
  · rename_i hok
    obtain ⟨_, h0, hlen⟩ := hok
    injection hs with hs; subst hs
    have hi : i = (i.toNat : Int) := (Int.toNat_of_nonneg h0).symm
    have hlt : i.toNat < (h.kids s).length := by simp only [toLL_kids] at hlen; omega
    rw [hi]
    have := setItem_refines_list h s c i.toNat ha hk hlt
    simp only [Int.toNat_natCast, items_leaf hk, toLL_kids]
    exact kids_eq_set (by rw [this.1]; simp) this.2
  · cases hs

private theorem insertRel_commutes (off : Nat) (hoff : off ≤ 1) (h : Heap) (s new ref : Id) (ha : NoAlias h) (hk : h.kind new ≠ .frag)
    (m' : DomTree.LL) (hs : DomTree.insertRel? off (toLL h) s new ref = some m') :
    (insertRel off h s new ref).1.kids = m'.kids := by
  unfold DomTree.insertRel? at hs
  split at hs
  · rename_i hok
    obtain ⟨_, hr, hne⟩ := hok
    injection hs with hs; subst hs
    have hr' : ref ∈ (h.kids s).erase new := (List.mem_erase_of_ne hne).mpr hr
    have hlt := List.idxOf_lt_length_of_mem hr'
    rw [insertRel_eq ha off s new ref hk]
    simp only [removeChild_kids_self ha, hr', if_true, items_leaf hk, DomTree.splice, toLL_kids]
    rw [pyInsPos_nat (by omega)]
    refine kids_eq_set ?_ (fun n hn => ?_)
    · rw [putAt_kids_self, removeChild_kids_self ha]; simp
    · rw [putAt_kids_other _ s _ new n hn, removeChild_kids_other ha s new n hn]
  · cases hs

theorem replaceChild_commutes (h : Heap) (s new old : Id) (ha : NoAlias h) (hk : h.kind new ≠ .frag)
    (m' : DomTree.LL) (hs : DomTree.replaceChild? (toLL h) s new old = some m') :
    (replaceChild h s new old).1.kids = m'.kids := by
  unfold DomTree.replaceChild? at hs
  split at hs
  · rename_i hok
    obtain ⟨_, hr, hne⟩ := hok
    injection hs with hs; subst hs
    have hr' : old ∈ (h.kids s).erase new := (List.mem_erase_of_ne hne).mpr hr
    have := replaceChild_refines_list h s new old ha hk hr'
    simp only [items_leaf hk, toLL_kids]
    exact kids_eq_set (by rw [this.1]; simp) this.2
  · cases hs

/-- `insertBefore` -/
theorem insertBefore_commutes (h : Heap) (s new ref : Id) (ha : NoAlias h) (hk : h.kind new ≠ .frag)
    (m' : DomTree.LL) (hs : DomTree.insertRel? 0 (toLL h) s new ref = some m') :
    (insertBefore h s new ref).1.kids = m'.kids := insertRel_commutes 0 (by omega) h s new ref ha hk m' hs

/-- `insertAfter` -/
theorem insertAfter_commutes (h : Heap) (s new ref : Id) (ha : NoAlias h) (hk : h.kind new ≠ .frag)
    (m' : DomTree.LL) (hs : DomTree.insertRel? 1 (toLL h) s new ref = some m') :
    (insertAfter h s new ref).1.kids = m'.kids := insertRel_commutes 1 (by omega) h s new ref ha hk m' hs

example : (DomTree.append? (toLL (create init 0 .elem 0 []).1) 0 1).isSome = true := by decide

/-! ## statements carried by the correspondence only (not proved) -/

/-- the heap-level `normalize` computes the tree-level normalisation (up to the identity of the fresh text
    nodes).  Not proved: needs a frame argument over the fresh allocations of `appendText`; checked on every
    history of the `hist` stream (model dump = list-model dump after `nm`). -/
def normalize_refines_tree_statement : Prop :=
  ∀ (h : Heap) (s : Id) (fuel : Nat), NoAlias h → Inv h →
    (DomTree.abs fuel (toLL (normalize (fuelOf h) h s)) s).shape = (DomTree.abs fuel (toLL h) s).normalize.shape

/-- a deep clone is equal in shape to the original and shares no node with it.  Not proved (allocation frame
    argument); checked by the `hist` stream (`cl s 1`) and the disjointness part of the invariant oracle. -/
def clone_equal_disjoint_statement : Prop :=
  ∀ (h : Heap) (s : Id) (fuel : Nat), NoAlias h → Inv h →
    let r := clone (fuelOf h) h s true
    (DomTree.abs fuel (toLL r.1) r.2).shape = (DomTree.abs fuel (toLL h) s).shape ∧
    ∀ i ∈ (DomTree.abs fuel (toLL r.1) r.2).ids, i ∉ (DomTree.abs fuel (toLL h) s).ids

/-- `compareDocumentPosition` agrees with the position predicted by the list model for two nodes of one tree.
    Not proved; compared on the first 7 nodes of every history. -/
def compareDocumentPosition_agrees_statement : Prop :=
  ∀ (h : Heap) (a b : Id), NoAlias h → Inv h → h.kind a ≠ .frag → h.kind b ≠ .frag →
    (∀ n, h.parent n ≠ none → ∃ p, h.parent n = some p ∧ n ∈ h.kids p) →
    compareDocumentPosition h a b = DomTree.comparePos (toLL h) a b

end PlasVerif.Properties.C06
