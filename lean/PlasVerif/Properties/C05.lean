import PlasVerif.Proofs.EnableBalanceTable
import PlasVerif.Proofs.Signature
import PlasVerif.Proofs.Numbers
import PlasVerif.Proofs.Args
/-!
# C05 — Arguments are delimited, typed and bound as the macro's signature declares

Property theorems only; helper lemmas are in `Proofs/{Numbers,Args,Signature,EnableBalance,EnableBalanceTable}.lean`.
Models: `Model/{Numbers,Args,Signature,EnableBalance}.lean`; specs: `Spec/{Literals,Calls,Signature}.lean`.
-/
namespace PlasVerif.Properties.C05
open PlasVerif.Model.Numbers PlasVerif.Model.Args PlasVerif.Spec.Literals PlasVerif.Spec.Calls
open PlasVerif.Proofs.Numbers PlasVerif.Proofs.Args

/-! ## signature compiler -/

/-- Round trip of the signature compiler: every well-formed signature of the grammar (star-like modifier, `=`,
    arguments with every delimiter kind, type, list delimiter, subtype; any number of items, arbitrary names),
    written in the canonical spelling, compiles to exactly the declared arguments (names, positions, options). -/
theorem compile_render (sig : PlasVerif.Spec.Signature.Sig) (h : PlasVerif.Spec.Signature.WF sig = true) :
    PlasVerif.Model.Signature.compileArgs (PlasVerif.Spec.Signature.renderSig sig) =
      .ok (PlasVerif.Spec.Signature.expected sig) :=
  PlasVerif.Proofs.Signature.compile_render sig h

example : PlasVerif.Spec.Signature.WF PlasVerif.Proofs.Signature.exSig = true := by decide

/-! ## delimiter readers and the argument loop -/

/-- `readGrouping` on `[ … ]` (any bracket pair) whose content is balanced for that pair returns exactly the content,
    whatever the nesting depth, and stops right after the closing bracket. -/
theorem readGrouping_balanced (b e : Nat) (ts r : List Tok) (hbe : b ≠ e) (h : scanP b e 0 ts = some 0) :
    readGrouping b e (opener b :: (ts ++ closer e :: r)) = (some ts, r) :=
  PlasVerif.Proofs.Args.readGrouping_balanced b e ts r hbe h

example : readGrouping 91 93 (opener 91 :: ([.ch 97, .ch 91, .ch 98, .ch 93, .bg false, .eg false] ++ closer 93 :: [.ch 82])) =
    (some [.ch 97, .ch 91, .ch 98, .ch 93, .bg false, .eg false], [.ch 82]) := by decide

/-- `readToken` on a brace group with balanced content (any depth) returns exactly the content. -/
theorem readToken_group (ts r : List Tok) (h : scan 0 ts = some 0) :
    readToken (.bg false :: (ts ++ .eg false :: r)) = (some ts, r) :=
  PlasVerif.Proofs.Args.readToken_group ts r false false h

example : scan 0 [.ch 97, .bg false, .ch 98, .bg false, .eg false, .eg false, .sp] = some 0 := by decide

/-- `readCharacter` takes the star (any expected character) and nothing else. -/
theorem readCharacter_star (c : Nat) (r : List Tok) : readCharacter c (.ch c :: r) = (some [.ch c], r) :=
  PlasVerif.Proofs.Args.readCharacter_star c r

/-- **Binding and consumption.** For every signature shape (any number of arguments, each with spec none / one
    character / a bracket pair) and every conforming call (each argument either written, with balanced content and
    any blanks before it, or an absent optional one not followed by its own opening character), the argument loop
    binds every position to exactly the tokens written there, binds absent optional arguments to nothing, and leaves
    exactly what follows the call (if the call ends with absent optional arguments the blanks that follow were
    looked through, as in LaTeX). -/
theorem parse_call (cs : List ArgCall) (rest : List Tok) (h : wfCall cs rest = true) :
    delimitAll (cs.map (·.spec)) (renderCall cs ++ rest) =
      (cs.map (·.content), if endsAbsent cs then readOptionalSpaces rest else rest) :=
  delimitAll_call cs rest h

/-- non-vacuity: `*`, absent `[opt]`, `{a{b}}`, `(x(y))`, bare `z` followed by `R` -/
example : wfCall [⟨.chr 42, 0, some [.ch 42]⟩, ⟨.pair 91 93, 0, none⟩, ⟨.tok, 1, some [.ch 97, .bg false, .ch 98, .eg false]⟩,
      ⟨.pair 40 41, 0, some [.ch 120, .ch 40, .ch 121, .ch 41]⟩, ⟨.tok, 1, some [.ch 122]⟩] [.ch 82] = true := by decide

/-! ## numeric literals -/

/-- **Sign runs**: any run of `+`/`-` with blanks anywhere denotes −1 iff the number of `-` is odd, and the
    scanner stops at the first token that is not a sign or blank. -/
theorem signs_parity (s : Signs) (r : List Tok) (h : noSign r = true) :
    readOptionalSigns (s.render ++ r) = (s.den, settle r) :=
  readSigns_render s r h

example : readOptionalSigns ((⟨1, [(true, 2), (false, 0), (true, 1)]⟩ : Signs).render ++ [.ch 55]) = (1, [.ch 55]) := by decide

/-- **Integers**: every integer literal (sign run; decimal, `'`octal, `"`hexadecimal, `` ` ``character token,
    `` `\c ``, internal register; one optional space) followed by any tokens that cannot continue it denotes the
    same value as in TeX, and exactly the literal is consumed (`sameText`: what follows is untouched up to the
    in-place expansion of its first token, which has the same source). -/
theorem integer_denotes (l : IntLit) (rest : List Tok) (hw : l.wf = true) (hf : intFollow l rest = true) :
    ∃ rest', readInteger true (l.render ++ rest) = .ok (l.den, rest') ∧ sameText rest' rest :=
  integer_reads l rest hw hf

/-- non-vacuity: `- +"1F ` followed by `g` is −31 -/
example : intFollow ⟨⟨1, [(true, 1), (false, 0)]⟩, .hex [1, 15], true⟩ [.ch 103] = true ∧
    readInteger true ((⟨⟨1, [(true, 1), (false, 0)]⟩, .hex [1, 15], true⟩ : IntLit).render ++ [.ch 103]) = .ok (-31, [.ch 103]) :=
  ⟨by decide, by rfl⟩

/-- **Decimal constants**: `12`, `1.5`, `1,5`, `1.`, `.5`, `.` with any sign run denote their value (exact rational). -/
theorem decimal_denotes (l : DecLit) (rest : List Tok) (hw : l.body.wf = true) (hf : decFollow l.body rest = true) :
    readDecimal (l.render ++ rest) = .ok (l.den, settle rest) :=
  decimal_reads l rest hw hf

example : decFollow ⟨[1], some true, [5]⟩ [.ch 112] = true ∧ DecBody.wf ⟨[1], some true, [5]⟩ = true := by decide

/-- **Units**: the unit table regenerated from `dimen.units` / `dimen.__new__` is exactly TeX's table
    (same names, same order, same exact ratios to the scaled point; `ex`/`em` = the code's documented estimates). -/
theorem unit_factors_are_TeX : PlasVerif.Generated.Units.dimenUnits = texUnits := by decide +kernel

/-- the fil units are encoded as amount 1 plus the offsets that `decode` (= `dimen.fil`/`dimen.source`) reads back -/
theorem fil_units_decode : PlasVerif.Generated.Units.filUnits.map (fun u => (u.1, decode u.2)) =
    filNames.map (fun u => (u.1, (u.2, (1 : Rat)))) := by decide +kernel

/-- **Multiples of fil keep their order** (the repaired product of `readDimen`): for each of the three fil units of the
    regenerated table and every amount within TeX's own range, the value decodes to that order and that amount. -/
theorem combine_fil (u : Rat) (k : Nat) (hu : (u, k) ∈ [((2000000001 : Rat), 1), (4000000001, 2), (6000000001, 3)])
    (a : Rat) (h1 : -2000000000 < a) (h2 : a < 2000000000) : decode (combine a u) = (k, a) := by
  simp only [List.mem_cons, Prod.mk.injEq, List.mem_nil_iff, or_false] at hu
  rcases hu with ⟨rfl, rfl⟩ | ⟨rfl, rfl⟩ | ⟨rfl, rfl⟩
  · rw [combine_fil_unit _ 2000000000 1 (Or.inl ⟨rfl, rfl, rfl⟩)]; exact decode_enc _ 1 (Or.inl ⟨rfl, rfl⟩) a h1 h2
  · rw [combine_fil_unit _ 4000000000 2 (Or.inr (Or.inl ⟨rfl, rfl, rfl⟩))]; exact decode_enc _ 2 (Or.inr (Or.inl ⟨rfl, rfl⟩)) a h1 h2
  · rw [combine_fil_unit _ 6000000000 3 (Or.inr (Or.inr ⟨rfl, rfl, rfl⟩))]; exact decode_enc _ 3 (Or.inr (Or.inr ⟨rfl, rfl⟩)) a h1 h2

/-- finite units scale: the value is the product, and it decodes as a finite dimension while it stays in TeX's range -/
theorem combine_finite (a u : Rat) (hu1 : -2000000000 < u) (hu2 : u < 2000000000) : combine a u = a * u := by
  simp only [combine, absR]
  split <;> split <;> first | rfl | (exfalso; grind)

/-- spelled in any letter case -/
def sameWord (w name : List Nat) : Bool := w.map upper == name.map upper

/-- conforming dimension literal: well-formed constant, unit and `true` spelled in any case, value within TeX's range -/
def dimWf (l : DimLit) : Bool :=
  match l.body with
  | .inr _ => true
  | .inl d =>
    d.wf &&
    (match l.unit.tru with | none => true | some (w, _) => sameWord w kwTrue) &&
    (match l.unit.kind with
     | .phys i => (match texUnits[i]? with | some u => sameWord l.unit.spelling u.1 | none => false)
     | .fil i => (match filNames[i]? with | some u => sameWord l.unit.spelling u.1 | none => false)
     | .reg _ => true) &&
    decide (-2000000000 < l.den.amount ∧ l.den.amount < 2000000000)

/-- what follows cannot continue the unit: no blank unless the optional space was written, no `l` after `fil`/`fill` -/
def dimFollow (l : DimLit) (rest : List Tok) : Bool :=
  match l.body with
  | .inr _ => true
  | .inl _ =>
    match l.unit.kind with
    | .reg _ => true
    | .phys _ => l.unit.space || noSp rest
    | .fil _ => (l.unit.space || noSp rest) &&
        (match rest with | .ch c :: _ => !(l.unit.space == false && upper c == 76) | .cs [c] false :: _ => upper c != 76 | _ => true)

/-- **Dimensions, full statement** (every unit, `true`, any letter case, optional blanks, fil orders, register
    multiples): kept as a statement; see `dimen_denotes_partial` for what is proved and what is missing. -/
def dimen_denotes_statement : Prop :=
  ∀ (l : DimLit) (rest : List Tok), dimWf l = true → dimFollow l rest = true →
    ∃ v rest', readDimen stretchUnits (l.render ++ rest) = .ok (v, rest') ∧
      decode v = (l.den.order, l.den.amount) ∧ sameText rest' rest

/-- **Dimensions, proved part.** For every sign run and every well-formed decimal constant followed by anything that
    cannot continue it, `readDimen` returns the (repaired) product of the signed TeX value of the constant with the
    value `readUnitOfMeasure` reads next, and leaves what that reader leaves; with `unit_factors_are_TeX`
    (the table `readUnitOfMeasure` looks units up in is TeX's), `combine_finite` (finite units: exact product) and
    `combine_fil` (fil units: order kept, amount exact) this gives the denotation once the unit is recognised.
    MISSING for the full statement: the lemma that the keyword matcher (`readKeyword`/`matchWord` over the 11+3 unit
    names, optional `true`, any letter case, push-back of partial matches) recognises exactly the written unit and
    consumes exactly it — that part is carried by the `lit`/`num` correspondence streams (every unit, every case
    pattern, every follower kind), and by kernel-checked instances below. -/
theorem dimen_denotes_partial (units : List (List Nat × Rat)) (sg : Signs) (d : DecBody) (X : List Tok)
    (hw : d.wf = true) (hf : decFollow d X = true) :
    readDimenWith combine units (sg.render ++ (d.render ++ X)) =
      .ok (combine ((sg.den : Rat) * d.den) (readUnit units (settle X)).1, (readUnit units (settle X)).2) :=
  dimen_compose combine units sg d X hw hf

/-- kernel-checked instances of the full statement: `- 1.5 true In ` = −1.5in, `,5 FILL` (after plus) = 0.5fill, `2\reg` -/
example :
    ((readDimen stretchUnits ([.ch 45, .sp, .ch 49, .ch 46, .ch 53, .sp, .ch 116, .ch 114, .ch 117, .ch 101, .sp, .ch 73, .ch 110, .sp, .ch 82])).toOption.map
        (fun r => (decode r.1, r.2)) = some ((0, -(3 : Rat) / 2 * ((7227 : Rat) / 100 * 65536)), [.ch 82])) ∧
    ((readDimen stretchUnits ([.ch 44, .ch 53, .sp, .ch 70, .ch 73, .ch 76, .ch 76, .ch 120])).toOption.map
        (fun r => (decode r.1, r.2)) = some ((2, (1 : Rat) / 2), [.ch 120])) ∧
    ((readDimen stretchUnits ([.ch 50, .reg 655 false, .ch 120])).toOption.map
        (fun r => (decode r.1, r.2)) = some ((0, 1310), [.ch 120])) := by decide +kernel

/-- conforming glue literal -/
def glueWf (g : GlueLit) : Bool :=
  dimWf g.dim &&
  (match g.dim.body with | .inr _ => g.plus.isNone && g.minus.isNone | .inl _ => true) &&
  (match g.plus with | none => true | some (_, w, d) => sameWord w kwPlus && dimWf d) &&
  (match g.minus with | none => true | some (_, w, d) => sameWord w kwMinus && dimWf d)

/-- **Glue, full statement**: kept as a statement (it needs `dimen_denotes_statement` three times plus the `plus`/`minus`
    keyword lemma); carried by the `lit` stream (glue literals with every unit, fil order, case and follower). -/
def glue_denotes_statement : Prop :=
  ∀ (g : GlueLit) (rest : List Tok), glueWf g = true →
    (match g.minus, g.plus with
     | some (_, _, d), _ => dimFollow d rest
     | none, some (_, _, d) => dimFollow d rest
     | none, none => dimFollow g.dim rest) = true →
    (match rest with | .ch c :: _ => upper c != 80 && upper c != 77 | .cs [c] false :: _ => upper c != 80 && upper c != 77 | _ => true) = true →
    ∃ v rest', readGlue (g.render ++ rest) = .ok (v, rest') ∧
      (⟨⟨(decode v.dim).1, (decode v.dim).2⟩, v.stretch.map (fun x => ⟨(decode x).1, (decode x).2⟩),
        v.shrink.map (fun x => ⟨(decode x).1, (decode x).2⟩)⟩ : GlueVal) = g.den ∧ sameText rest' rest

/-- kernel-checked instance: `1pt plus 2fil minus 1.5 fill\relax` -/
example :
    (readGlue ([.ch 49, .ch 112, .ch 116, .sp, .ch 112, .ch 108, .ch 117, .ch 115, .sp, .ch 50, .ch 102, .ch 105, .ch 108, .sp,
        .ch 109, .ch 105, .ch 110, .ch 117, .ch 115, .sp, .ch 49, .ch 46, .ch 53, .sp, .ch 102, .ch 105, .ch 108, .ch 108,
        .cs [114, 101, 108, 97, 120] false])).toOption.map
      (fun r => (decode r.1.dim, r.1.stretch.map decode, r.1.shrink.map decode, r.2)) =
    some ((0, 65536), some (1, 2), some (2, (3 : Rat) / 2), [.cs [114, 101, 108, 97, 120] false]) := by decide +kernel

/-- The pinned code before the D14 repair read `1pt plus 2fil` as `2fill` (kernel-checked witness). -/
theorem asIs_fil_counterexample :
    (readGlueAsIs [.ch 49, .ch 112, .ch 116, .sp, .ch 112, .ch 108, .ch 117, .ch 115, .sp, .ch 50, .ch 102, .ch 105, .ch 108]).toOption.map
      (fun g => g.1.stretch.map decode) = some (some (2, 2)) ∧
    (readGlue [.ch 49, .ch 112, .ch 116, .sp, .ch 112, .ch 108, .ch 117, .ch 115, .sp, .ch 50, .ch 102, .ch 105, .ch 108]).toOption.map
      (fun g => g.1.stretch.map decode) = some (some (1, 2)) := by decide +kernel

/-! ## enable/disable balance -/

/-- Every control-flow path (any branch choices, any number of loop iterations) of the regenerated skeletons of
    `readArgumentAndSource`, `readDimen`, `readMuDimen`, `readUnitOfMeasure`, `readInteger`, `readGlue`, `readMuGlue`
    that ends in a `return` or falls off the end has made as many `ParameterCommand.enable()` as `.disable()` calls
    (exits by an escaping exception are exempt). -/
theorem enable_balance_all_paths :
    ∀ p ∈ PlasVerif.Generated.ArgPaths.skeletons, ∀ n m : Int,
      PlasVerif.Model.EnableBalance.Exec p.2 n .returned m ∨ PlasVerif.Model.EnableBalance.Exec p.2 n .normal m → m = n :=
  PlasVerif.Proofs.EnableBalanceTable.all_skeletons_paths_balanced

example : PlasVerif.Generated.ArgPaths.skeletons.length = 7 := by decide

end PlasVerif.Properties.C05
