import PlasVerif.Proofs.EnableBalanceTable
import PlasVerif.Proofs.CatRestoreTable
import PlasVerif.Proofs.Mode
import PlasVerif.Proofs.SignatureSpelling
import PlasVerif.Proofs.Casts
import PlasVerif.Proofs.Args
/-!
# C05 — Arguments are delimited, typed and bound as the macro's signature declares

Property theorems only; helper lemmas are in `Proofs/{Numbers,Keyword,Units,Dimen,Glue,Args,Casts,Signature,EnableBalance,
EnableBalanceTable}.lean`.  Models: `Model/{Numbers,Args,Signature,EnableBalance}.lean`; specs:
`Spec/{Literals,Conform,Calls,Values,Signature}.lean` (`Conform` = the decidable conformance / follow predicates that are
the hypotheses below; the driver evaluates them on every generated literal).
-/
namespace PlasVerif.Properties.C05
open PlasVerif.Model.Numbers PlasVerif.Model.Args PlasVerif.Spec.Literals PlasVerif.Spec.Calls PlasVerif.Spec.Conform
open PlasVerif.Spec.Values
open PlasVerif.Proofs.Numbers PlasVerif.Proofs.Args

/-! ## signature compiler -/

/-- Round trip of the signature compiler: every well-formed signature of the grammar (star-like modifier, `=`,
    arguments with every delimiter kind, type, list delimiter, subtype; any number of items, arbitrary names),
    written in the canonical spelling, compiles to exactly the declared arguments (names, positions, options). -/
theorem compile_render (sig : PlasVerif.Spec.Signature.Sig) (h : PlasVerif.Spec.Signature.WF sig = true) :
    PlasVerif.Model.Signature.compileArgs (PlasVerif.Spec.Signature.renderSig sig) =
      .ok (PlasVerif.Spec.Signature.expected sig) :=
  PlasVerif.Proofs.Signature.compile_render sig h

example : PlasVerif.Spec.Signature.WF PlasVerif.Proofs.Signature.exSig = true := by decide

/-- … and in every other spelling: any number of blanks in front, between the words and behind; none needed next to a
    bracket, a modifier or `=` (`*[opt:dict(;)]<a:str> n:list:int`). -/
theorem compile_render_spaced (lead : Nat) (gaps : List Nat) (sig : PlasVerif.Spec.Signature.Sig)
    (h : PlasVerif.Spec.Signature.WF sig = true)
    (hg : PlasVerif.Spec.Signature.gapsOK (PlasVerif.Spec.Signature.sigItems sig) gaps = true) (hne : sig ≠ []) :
    PlasVerif.Model.Signature.compileArgs (PlasVerif.Spec.Signature.renderSpaced lead gaps sig) =
      .ok (PlasVerif.Spec.Signature.expected sig) :=
  PlasVerif.Proofs.SignatureSpelling.compile_render_spaced lead gaps sig h hg hne

/-- non-vacuity: the example signature with no blank next to any bracket conforms, and compiles as declared -/
example : PlasVerif.Spec.Signature.gapsOK (PlasVerif.Spec.Signature.sigItems PlasVerif.Proofs.Signature.exSig)
      [0, 0, 0, 0, 0, 0, 2, 1, 0, 0, 0, 1, 0, 0, 0] = true ∧
    PlasVerif.Model.Signature.compileArgs (PlasVerif.Spec.Signature.renderSpaced 1 [0, 0, 0, 0, 0, 0, 2, 1, 0, 0, 0, 1, 0, 0, 0]
      PlasVerif.Proofs.Signature.exSig) = .ok (PlasVerif.Spec.Signature.expected PlasVerif.Proofs.Signature.exSig) :=
  ⟨by decide, by rfl⟩

/-! ## delimiter readers and the argument loop -/

/-- `readGrouping` on `[ … ]` (any bracket pair) whose content is balanced for that pair returns exactly the content,
    whatever the nesting depth, and stops right after the closing bracket. -/
theorem readGrouping_balanced (b e : Nat) (ts r : List Tok) (hbe : b ≠ e) (h : scanP b e 0 ts = some 0) :
    readGrouping b e (opener b :: (ts ++ closer e :: r)) = (some ts, r) :=
  PlasVerif.Proofs.Args.readGrouping_balanced b e ts r hbe h

example : readGrouping 91 93 (opener 91 :: ([.ch 97, .ch 91, .ch 98, .ch 93, .bg false, .eg false] ++ closer 93 :: [.ch 82])) =
    (some [.ch 97, .ch 91, .ch 98, .ch 93, .bg false, .eg false], [.ch 82]) := by decide

/-- `readToken` on a brace group with balanced content (any depth) returns exactly the content. -/
theorem readToken_group (ts r : List Tok) (h : scan 0 ts = some 0) :
    readToken (.bg false :: (ts ++ .eg false :: r)) = (some ts, r) :=
  PlasVerif.Proofs.Args.readToken_group ts r false false h

example : scan 0 [.ch 97, .bg false, .ch 98, .bg false, .eg false, .eg false, .sp] = some 0 := by decide

/-- `readCharacter` takes the star (any expected character) and nothing else. -/
theorem readCharacter_star (c : Nat) (r : List Tok) : readCharacter c (.ch c :: r) = (some [.ch c], r) :=
  PlasVerif.Proofs.Args.readCharacter_star c r

/-- **Binding and consumption.** For every signature shape (any number of arguments, each with spec none / one
    character / a bracket pair) and every conforming call (each argument either written, with balanced content and
    any blanks before it, or an absent optional one not followed by its own opening character), the argument loop
    binds every position to exactly the tokens written there, binds absent optional arguments to nothing, and leaves
    exactly what follows the call (if the call ends with absent optional arguments the blanks that follow were
    looked through, as in LaTeX). -/
theorem parse_call (cs : List ArgCall) (rest : List Tok) (h : wfCall cs rest = true) :
    delimitAll (cs.map (·.spec)) (renderCall cs ++ rest) =
      (cs.map (·.content), if endsAbsent cs then readOptionalSpaces rest else rest) :=
  delimitAll_call cs rest h

/-- non-vacuity: `*`, absent `[opt]`, `{a{b}}`, `(x(y))`, bare `z` followed by `R` -/
example : wfCall [⟨.chr 42, 0, some [.ch 42]⟩, ⟨.pair 91 93, 0, none⟩, ⟨.tok, 1, some [.ch 97, .bg false, .ch 98, .eg false]⟩,
      ⟨.pair 40 41, 0, some [.ch 120, .ch 40, .ch 121, .ch 41]⟩, ⟨.tok, 1, some [.ch 122]⟩] [.ch 82] = true := by decide

/-- non-vacuity: control symbols named like the delimiter (`\\>` inside `<…>`, `\\[` inside `[…]`, `\\}` inside braces) are
    ordinary tokens of a conforming call: `\\foo<a\\>b>[x\\[y]{u\\}v}` followed by `R` -/
example : wfCall [⟨.pair 60 62, 0, some [.ch 97, .cs [62] false, .ch 98]⟩, ⟨.pair 91 93, 0, some [.ch 120, .cs [91] false, .ch 121]⟩,
      ⟨.tok, 0, some [.ch 117, .cs [125] false, .ch 118]⟩] [.ch 82] = true ∧
    delimitAll [.pair 60 62, .pair 91 93, .tok]
      (renderCall [⟨.pair 60 62, 0, some [.ch 97, .cs [62] false, .ch 98]⟩, ⟨.pair 91 93, 0, some [.ch 120, .cs [91] false, .ch 121]⟩,
        ⟨.tok, 0, some [.ch 117, .cs [125] false, .ch 118]⟩] ++ [.ch 82]) =
      ([some [.ch 97, .cs [62] false, .ch 98], some [.ch 120, .cs [91] false, .ch 121], some [.ch 117, .cs [125] false, .ch 118]], [.ch 82]) := by
  decide

/-! ## the mode an argument is read in -/

/-- **Mode.** `Context.isMathMode`, which decides whether TeX's text ligatures are applied to an argument
    (`readArgumentAndSource`: no substitutions in math mode), finds the mode in force: going from the outermost context
    inwards every context that sets a mode overrides the enclosing ones, for every nesting of formulas, text boxes and
    groups of any depth; the document starts in text mode. -/
theorem mode_is_innermost (stack : List (Option Bool)) :
    PlasVerif.Model.Mode.isMathMode stack = PlasVerif.Spec.Mode.modeAfter stack :=
  PlasVerif.Proofs.Mode.isMathMode_eq stack

/-- a formula inside anything is math, a text box inside anything is text, a group changes nothing -/
theorem mode_push (stack : List (Option Bool)) (b : Bool) :
    PlasVerif.Model.Mode.isMathMode (stack ++ [some b]) = b ∧
    PlasVerif.Model.Mode.isMathMode (stack ++ [none]) = PlasVerif.Model.Mode.isMathMode stack :=
  ⟨PlasVerif.Proofs.Mode.scan_append_some stack b, PlasVerif.Proofs.Mode.scan_append_none stack⟩

/-- **Literal binding in math mode.** The text of an argument written directly in a formula (inside any number of
    groups) is exactly what was written — no text ligature is applied — whatever encloses the formula. -/
theorem math_argument_literal (outer : List (Option Bool)) (groups : Nat) (subs : List (List Nat × List Nat)) (t : List Nat) :
    PlasVerif.Model.Mode.argText (outer ++ [some true] ++ List.replicate groups none) subs t = t :=
  PlasVerif.Proofs.Mode.argText_formula outer groups subs t

/-- non-vacuity: `\\mbox{$…$}` (text box, formula) is math; `$\\mbox{…}$` is text -/
example : PlasVerif.Model.Mode.isMathMode [none, some false, some true, none] = true ∧
    PlasVerif.Model.Mode.isMathMode [none, some true, some false] = false := by decide

/-! ## typing: the casts -/

/-- **List-typed argument.** The written items (brace balanced, the delimiter only inside braces; any delimiter
    character) are bound as exactly that list: text items stripped, an item containing a group kept as its tokens. -/
theorem cast_list (d : Nat) (items : List (List Tok)) (hne : items ≠ []) (hok : ∀ it ∈ items, itemOK d it = true) :
    castList d .none (joinItems d items) = .ok (listVal items) :=
  PlasVerif.Proofs.Casts.castList_items d items hne hok

example : itemOK 44 [.ch 97, .bg false, .ch 44, .eg false] = true ∧
    castList 44 .none (joinItems 44 [[.ch 97], [.sp, .ch 98, .sp], [.bg false, .ch 44, .eg false]]) =
      .ok (listVal [[.ch 97], [.sp, .ch 98, .sp], [.bg false, .ch 44, .eg false]]) :=
  ⟨by decide, PlasVerif.Proofs.Casts.castList_items 44 _ (by simp) (by decide)⟩

/-- **Dictionary-typed argument.** Plain `key` / `key=value` entries are bound as exactly the prescribed map: value
    text stripped, a key without `=` bound to True, a repeated key takes the later value. -/
theorem cast_dict (d : Nat) (hd : d ≠ 61) (es : List Entry) (hes : ∀ e ∈ es, e.ok d = true) :
    castDict d .none (joinEntries d es) = .ok (dictVal es) :=
  PlasVerif.Proofs.Casts.castDict_entries d hd es hes

example : (∀ e ∈ [(⟨[.ch 107], some [.ch 118]⟩ : Entry), ⟨[.ch 102], none⟩], e.ok 44 = true) := by decide

/-- **Integer / float / dimension-typed arguments** (`int`, `float`, `dimen`): the content is bound to the TeX value of
    the literal written, and the stream is left exactly as it was. -/
theorem cast_int (l : IntLit) (rest : List Tok) (hw : l.wf = true) : internal .int l.render rest = .ok (.int l.den, rest) :=
  PlasVerif.Proofs.Casts.internal_int l rest hw
theorem cast_float (l : DecLit) (rest : List Tok) (hw : l.body.wf = true) :
    internal .float l.render rest = .ok (.rat l.den, rest) :=
  PlasVerif.Proofs.Casts.internal_float l rest hw
theorem cast_dimen (l : DimLit) (rest : List Tok) (hw : dimWf false l = true) :
    internal .dimen l.render rest = .ok (.rat l.den.amount, rest) :=
  PlasVerif.Proofs.Casts.internal_dimen l rest hw

/-- **TeX-style scanner types** (`Number`, `Dimen`, `Glue`): the literal is read straight from the stream after the
    blanks, bound to its TeX value, and exactly it is consumed. -/
theorem scanner_number (a : Arg) (l : IntLit) (k : Nat) (rest : List Tok) (h : a.ty = .tNumber) (hw : l.wf = true)
    (hf : intFollow l rest = true) :
    ∃ rest', readArgument a (spaces k ++ (l.render ++ rest)) = .ok (.int l.den, none, rest') ∧ sameText rest' rest :=
  PlasVerif.Proofs.Casts.scanner_number a l k rest h hw hf
theorem scanner_dimen (a : Arg) (l : DimLit) (k : Nat) (rest : List Tok) (h : a.ty = .tDimen) (hw : dimWf false l = true)
    (hf : dimFollow l rest = true) :
    readArgument a (spaces k ++ (l.render ++ rest)) = .ok (.rat l.den.amount, none, rest) :=
  PlasVerif.Proofs.Casts.scanner_dimen a l k rest h hw hf
theorem scanner_glue (a : Arg) (g : GlueLit) (k : Nat) (rest : List Tok) (h : a.ty = .tGlue) (hw : glueWf g = true)
    (hf : glueFollow g rest = true) :
    ∃ v, readArgument a (spaces k ++ (g.render ++ rest)) = .ok (.glue v, none, rest) ∧
      PlasVerif.Proofs.Glue.glueDecode v = g.den :=
  PlasVerif.Proofs.Casts.scanner_glue a g k rest h hw hf

/-- **`Macro.parse` as a whole.** For every list of declared arguments (spec + type), every conforming call, and
    values such that the cast of what is written at a position yields the value and leaves the stream alone (`CastsTo`;
    instances for the untyped, str, list, dict, int, float and dimen types are `castsTo_*` in `Proofs/Casts.lean`, built
    on the theorems above): the argument loop binds every declared argument exactly once, in declaration order, to that
    value (absent optional arguments to nothing), produces one source piece per argument, and leaves exactly what
    follows the call. -/
theorem parse_binds (bs : List Bound) (rest : List Tok) (hb : ∀ b ∈ bs, b.ok)
    (hw : wfCall (bs.map (·.call)) rest = true) :
    ∃ srcs, parse (bs.map (·.arg)) (renderCall (bs.map (·.call)) ++ rest) =
      .ok (bs.map (·.val), srcs,
           if endsAbsent (bs.map (·.call)) then readOptionalSpaces rest else rest) ∧ srcs.length = bs.length :=
  PlasVerif.Proofs.Args.parse_binds bs rest hb hw

/-- **The recorded source.** In the same situation the source pieces the invocation records (`argSource`) are, argument
    by argument, exactly the text written for that argument (nothing for an absent optional one, blanks in front
    dropped); their concatenation is `callSource`.  The model of `Macro.parse` is a function of the signature and the
    stream only: an invocation nested in one of the arguments cannot change what the enclosing one records (the
    document-level oracle checks the same of the code, whose `Argument` objects are shared by all invocations). -/
theorem parse_records_source (bs : List Bound) (rest : List Tok) (hb : ∀ b ∈ bs, b.ok)
    (hw : wfCall (bs.map (·.call)) rest = true) :
    parse (bs.map (·.arg)) (renderCall (bs.map (·.call)) ++ rest) =
      .ok (bs.map (·.val), bs.map (fun b => some (argBody b.call)),
           if endsAbsent (bs.map (·.call)) then readOptionalSpaces rest else rest) ∧
    (((bs.map (·.call)).map (fun c => some (argBody c))).filterMap id).flatten = callSource (bs.map (·.call)) :=
  ⟨PlasVerif.Proofs.Args.parse_binds_src bs rest hb hw, PlasVerif.Proofs.Args.sources_flatten _⟩

/-- … and with one more argument of any type in last position (the TeX-style scanner types `Number`, `Dimen`, `Glue`
    are generated there; `scanner_number/dimen/glue` give its `readArgument` result): everything before it is bound as in
    `parse_binds`, it is bound to its value, and what it leaves is what is left. -/
theorem parse_binds_last (bs : List Bound) (a : Arg) (tail r' : List Tok) (v : Val) (s : Option (List Tok))
    (hb : ∀ b ∈ bs, b.ok) (hw : wfCall (bs.map (·.call)) tail = true)
    (hlast : readArgument a tail = .ok (v, s, r')) :
    ∃ srcs, parse (bs.map (·.arg) ++ [a]) (renderCall (bs.map (·.call)) ++ tail) =
      .ok (bs.map (·.val) ++ [v], srcs ++ [s], r') ∧ srcs.length = bs.length :=
  PlasVerif.Proofs.Args.parse_binds_last bs a tail r' v s hb hw hlast

/-- a string-typed argument is bound to its text whatever its shape: exactly one brace group (`\\foo{{abc}}`, `[{htb}]`),
    groups next to text, blanks at the ends — braces dropped, ends stripped -/
example : textOf [.bg false, .ch 97, .ch 98, .ch 99, .eg false] = [97, 98, 99] ∧
    textOf [.sp, .ch 120, .bg false, .ch 121, .eg false, .ch 122, .sp] = [120, 121, 122] ∧
    textOf [.bg false, .bg false, .eg false, .eg false] = [] := by decide

/-- the `CastsTo` instances that feed `parse_binds` -/
theorem castsTo_instances :
    (∀ (a : Arg) toks, a.ty = .none ∨ a.ty = .nox → CastsTo a toks (.toks toks)) ∧
    (∀ (a : Arg) toks, a.ty = .str → CastsTo a toks (.str (textOf toks))) ∧
    (∀ (a : Arg) items, a.ty = .list → a.sub = .none → items ≠ [] → (∀ it ∈ items, itemOK a.delim it = true) →
        CastsTo a (joinItems a.delim items) (listVal items)) ∧
    (∀ (a : Arg) es, a.ty = .dict → a.sub = .none → a.delim ≠ 61 → (∀ e ∈ es, Entry.ok a.delim e = true) →
        CastsTo a (joinEntries a.delim es) (dictVal es)) ∧
    (∀ (a : Arg) (l : IntLit), a.ty = .int → l.wf = true → CastsTo a l.render (.int l.den)) ∧
    (∀ (a : Arg) (l : DecLit), a.ty = .float → l.body.wf = true → CastsTo a l.render (.rat l.den)) ∧
    (∀ (a : Arg) (l : DimLit), a.ty = .dimen → dimWf false l = true → CastsTo a l.render (.rat l.den.amount)) :=
  ⟨PlasVerif.Proofs.Casts.castsTo_plain, PlasVerif.Proofs.Casts.castsTo_str, PlasVerif.Proofs.Casts.castsTo_list,
   PlasVerif.Proofs.Casts.castsTo_dict, PlasVerif.Proofs.Casts.castsTo_int, PlasVerif.Proofs.Casts.castsTo_float,
   PlasVerif.Proofs.Casts.castsTo_dimen⟩

/-- non-vacuity of `parse_binds`: `\foo*[k=v,f]{12}` for `* [opt:dict] n:int`, followed by `R` -/
example : ∃ bs : List Bound, bs.length = 3 ∧ (∀ b ∈ bs, b.ok) ∧ wfCall (bs.map (·.call)) [.ch 82] = true := by
  refine ⟨[⟨⟨.chr 42, .none, 44, .none⟩, ⟨.chr 42, 0, some [.ch 42]⟩, .toks [.ch 42]⟩,
           ⟨⟨.pair 91 93, .dict, 44, .none⟩, ⟨.pair 91 93, 0, some (joinEntries 44 [⟨[.ch 107], some [.ch 118]⟩, ⟨[.ch 102], none⟩])⟩,
             dictVal [⟨[.ch 107], some [.ch 118]⟩, ⟨[.ch 102], none⟩]⟩,
           ⟨⟨.tok, .int, 44, .none⟩, ⟨.tok, 0, some (IntLit.render ⟨⟨0, []⟩, .dec [1, 2], false⟩)⟩, .int 12⟩], rfl, ?_, by decide⟩
  intro b hb
  simp only [List.mem_cons, List.mem_nil_iff, or_false] at hb
  rcases hb with rfl | rfl | rfl
  · exact ⟨rfl, rfl, PlasVerif.Proofs.Casts.castsTo_plain _ _ (Or.inl rfl)⟩
  · exact ⟨rfl, rfl, PlasVerif.Proofs.Casts.castsTo_dict _ _ rfl rfl (by decide) (by decide)⟩
  · exact ⟨rfl, rfl, PlasVerif.Proofs.Casts.castsTo_int _ ⟨⟨0, []⟩, .dec [1, 2], false⟩ rfl (by decide)⟩

/-! ## numeric literals -/

/-- **Sign runs**: any run of `+`/`-` with blanks anywhere denotes −1 iff the number of `-` is odd, and the
    scanner stops at the first token that is not a sign or blank. -/
theorem signs_parity (s : Signs) (r : List Tok) (h : noSign r = true) :
    readOptionalSigns (s.render ++ r) = (s.den, settle r) :=
  readSigns_render s r h

example : readOptionalSigns ((⟨1, [(true, 2), (false, 0), (true, 1)]⟩ : Signs).render ++ [.ch 55]) = (1, [.ch 55]) := by decide

/-- **Integers**: every integer literal (sign run; decimal, `'`octal, `"`hexadecimal, `` ` ``character token,
    `` `\c ``, internal register; one optional space) followed by any tokens that cannot continue it denotes the
    same value as in TeX, and exactly the literal is consumed (`sameText`: what follows is untouched up to the
    in-place expansion of its first token, which has the same source). -/
theorem integer_denotes (l : IntLit) (rest : List Tok) (hw : l.wf = true) (hf : intFollow l rest = true) :
    ∃ rest', readInteger true (l.render ++ rest) = .ok (l.den, rest') ∧ sameText rest' rest :=
  integer_reads l rest hw hf

/-- non-vacuity: `- +"1F ` followed by `g` is −31 -/
example : intFollow ⟨⟨1, [(true, 1), (false, 0)]⟩, .hex [1, 15], true⟩ [.ch 103] = true ∧
    readInteger true ((⟨⟨1, [(true, 1), (false, 0)]⟩, .hex [1, 15], true⟩ : IntLit).render ++ [.ch 103]) = .ok (-31, [.ch 103]) :=
  ⟨by decide, by rfl⟩

/-- **Decimal constants**: `12`, `1.5`, `1,5`, `1.`, `.5`, `.` with any sign run denote their value (exact rational). -/
theorem decimal_denotes (l : DecLit) (rest : List Tok) (hw : l.body.wf = true) (hf : decFollow l.body rest = true) :
    readDecimal (l.render ++ rest) = .ok (l.den, settle rest) :=
  decimal_reads l rest hw hf

example : decFollow ⟨[1], some true, [5]⟩ [.ch 112] = true ∧ DecBody.wf ⟨[1], some true, [5]⟩ = true := by decide

/-- **Units**: the unit table regenerated from `dimen.units` / `dimen.__new__` is exactly TeX's table
    (same names, same order, same exact ratios to the scaled point; `ex`/`em` = the code's documented estimates). -/
theorem unit_factors_are_TeX : PlasVerif.Generated.Units.dimenUnits = texUnits := by decide +kernel

/-- the fil units are encoded as amount 1 plus the offsets that `decode` (= `dimen.fil`/`dimen.source`) reads back -/
theorem fil_units_decode : PlasVerif.Generated.Units.filUnits.map (fun u => (u.1, decode u.2)) =
    filNames.map (fun u => (u.1, (u.2, (1 : Rat)))) := by decide +kernel

/-- **Multiples of fil keep their order** (the repaired product of `readDimen`): for every fil order and every amount
    within TeX's own range, the encoded value decodes to that order and that amount. -/
theorem combine_fil (k : Nat) (hk : k = 1 ∨ k = 2 ∨ k = 3) (a : Rat) (h1 : -2000000000 < a) (h2 : a < 2000000000) :
    decode (combine a (1 + 2000000000 * (k : Rat))) = (k, a) :=
  PlasVerif.Proofs.Dimen.combine_fil k hk a h1 h2

/-- finite units scale: the value is the exact product -/
theorem combine_finite (a u : Rat) (hu1 : -2000000000 < u) (hu2 : u < 2000000000) : combine a u = a * u :=
  PlasVerif.Proofs.Dimen.combine_finite a u hu1 hu2

/-- **The keyword matcher.** `readKeyword`'s word loop on a word spelled in any letter case followed by anything:
    every earlier word of the list that clashes with the spelled one, or extends it while the next token does not
    continue it, fails and pushes back exactly what it read; the first spelled word is taken and exactly it plus one
    optional space is consumed. -/
theorem keyword_select (T : List (List Nat × Rat)) (i : Nat) (w : List Nat × Rat) (sp : List Nat) (r : List Tok)
    (hi : T[i]? = some w) (hne : w.1 ≠ []) (hs : sameWord sp w.1 = true)
    (hf : ∀ x ∈ T.take i, PlasVerif.Proofs.Keyword.failsOn x.1 w.1 r = true) :
    tryWords T (sp.map .ch ++ r) = (some w, readOneOptionalSpace r) :=
  PlasVerif.Proofs.Keyword.tryWords_select T i w sp r hi hne hs hf

/-- **The unit matcher.** `readUnitOfMeasure`, called with `dimen.units` (or, after `plus`/`minus`, with the fil units
    appended), on a unit of measure as written — blanks, optional `true` in any case and blanks, one of the 11 units
    (or 3 fil orders) in any letter case, one optional space — followed by anything (after `fil`/`fill` not an `l`),
    returns exactly that unit's value in sp (fil: 1 plus the offset of its order), all within range, and consumes
    exactly the unit. -/
theorem unit_matcher_phys (allowFil : Bool) (u : UnitLit) (i : Nat) (Z : List Tok) (hk : u.kind = .phys i)
    (hw : unitWf allowFil u = true) :
    ∃ uv : Rat, readUnit (PlasVerif.Proofs.Dimen.tableFor allowFil) (u.render ++ Z) =
        (uv, readOneOptionalSpace (optSpace u.space ++ Z)) ∧
      u.kind.den = (0, uv) ∧ -2000000000 < uv ∧ uv < 2000000000 :=
  PlasVerif.Proofs.Dimen.unit_phys allowFil u i Z hk hw

theorem unit_matcher_fil (u : UnitLit) (j : Nat) (Z : List Tok) (hk : u.kind = .fil j) (hw : unitWf true u = true)
    (hL : restOK 108 (optSpace u.space ++ Z) = true) :
    ∃ k : Nat, readUnit stretchUnits (u.render ++ Z) =
        (1 + 2000000000 * (k : Rat), readOneOptionalSpace (optSpace u.space ++ Z)) ∧
      u.kind.den = (k, 1) ∧ (k = 1 ∨ k = 2 ∨ k = 3) :=
  PlasVerif.Proofs.Dimen.unit_fil u j Z hk hw hL

/-- a register as unit ("register multiple") -/
theorem unit_matcher_reg (T : List (List Nat × Rat)) (u : UnitLit) (v : Int) (Z : List Tok) (hk : u.kind = .reg v) :
    readUnit T (u.render ++ Z) = ((v : Rat), Z) ∧ u.kind.den = (0, (v : Rat)) :=
  PlasVerif.Proofs.Dimen.unit_reg T u v Z hk

/-- **Dimensions** (every unit, `true`, any letter case, optional blanks, fil orders after `plus`/`minus`, register
    multiples, bare registers, any sign run, every fraction form): every conforming dimension literal followed by
    tokens that cannot continue it is read as a value that decodes to the order and amount TeX assigns, and exactly
    the literal is consumed.  `allowFil` is the calling context: `false` = `readDimen()` with `dimen.units`,
    `true` = after `plus`/`minus`. -/
theorem dimen_denotes (allowFil : Bool) (l : DimLit) (rest : List Tok) (hw : dimWf allowFil l = true)
    (hf : dimFollow l rest = true) :
    ∃ v, readDimenWith combine (PlasVerif.Proofs.Dimen.tableFor allowFil) (l.render ++ rest) = .ok (v, rest) ∧
      decode v = (l.den.order, l.den.amount) := by
  have hL : filOK l rest = true := by unfold dimFollow at hf; simp only [Bool.and_eq_true] at hf; exact hf.1
  obtain ⟨v, hv, hd⟩ := PlasVerif.Proofs.Dimen.dimen_core allowFil l rest hw hL
  rw [PlasVerif.Proofs.Dimen.dimRest_follow l rest hf] at hv
  exact ⟨v, hv, hd⟩

/-- the two tables of the statement are the code's: `readDimen()` and `readDimen(units=dimen.units+['filll','fill','fil'])` -/
example : PlasVerif.Proofs.Dimen.tableFor false = PlasVerif.Generated.Units.dimenUnits ∧
    PlasVerif.Proofs.Dimen.tableFor true = stretchUnits := ⟨rfl, rfl⟩

/-- non-vacuity: `- 1.5 true In ` followed by `R`; `,5 FILL` followed by `x`; `2\reg` -/
example :
    dimWf false ⟨⟨0, [(true, 1)]⟩, .inl ⟨[1], some false, [5]⟩, ⟨1, some ([116, 114, 117, 101], 1), .phys 2, [73, 110], true⟩⟩ = true ∧
    dimFollow ⟨⟨0, [(true, 1)]⟩, .inl ⟨[1], some false, [5]⟩, ⟨1, some ([116, 114, 117, 101], 1), .phys 2, [73, 110], true⟩⟩ [.ch 82] = true ∧
    dimWf true ⟨⟨0, []⟩, .inl ⟨[], some true, [5]⟩, ⟨1, none, .fil 1, [70, 73, 76, 76], false⟩⟩ = true ∧
    dimFollow ⟨⟨0, []⟩, .inl ⟨[], some true, [5]⟩, ⟨1, none, .fil 1, [70, 73, 76, 76], false⟩⟩ [.ch 120] = true ∧
    dimWf false ⟨⟨0, []⟩, .inl ⟨[2], none, []⟩, ⟨0, none, .reg 655, [], false⟩⟩ = true := by decide +kernel

/-- **Glue**: every conforming glue literal (sign runs, dimension, optional `plus` stretch and `minus` shrink with
    keywords in any letter case, fil orders, register multiples; a bare register = internal glue) followed by tokens
    that cannot continue it is read as the TeX value of its three parts (orders decoded), and exactly the literal is
    consumed. -/
theorem glue_denotes (g : GlueLit) (rest : List Tok) (hw : glueWf g = true) (hf : glueFollow g rest = true) :
    ∃ v, readGlue (g.render ++ rest) = .ok (v, rest) ∧ PlasVerif.Proofs.Glue.glueDecode v = g.den :=
  PlasVerif.Proofs.Glue.glue_reads g rest hw hf

/-- non-vacuity: `1pt plus 2fil minus 1.5 fill` followed by `\relax` conforms -/
example :
    let pt : UnitLit := ⟨0, none, .phys 0, [112, 116], false⟩
    let g : GlueLit := ⟨⟨0, []⟩, ⟨⟨0, []⟩, .inl ⟨[1], none, []⟩, pt⟩,
      some (1, [112, 108, 117, 115], ⟨⟨1, []⟩, .inl ⟨[2], none, []⟩, ⟨0, none, .fil 2, [102, 105, 108], false⟩⟩),
      some (1, [109, 105, 110, 117, 115], ⟨⟨1, []⟩, .inl ⟨[1], some false, [5]⟩, ⟨1, none, .fil 1, [102, 105, 108, 108], false⟩⟩)⟩
    glueWf g = true ∧ glueFollow g [.cs [114, 101, 108, 97, 120] false] = true := by decide +kernel

/-- **A glue ends after its shrink part.** When the `minus` part is written, text that follows — even text spelling
    `plus` — is not part of the glue: the follow condition of `glue_denotes` asks nothing about a `plus` keyword then. -/
theorem glue_ends_after_shrink (g : GlueLit) (rest : List Tok) (d : DecBody) (k : Nat) (w : List Nat) (m : DimLit)
    (hb : g.dim.body = .inl d) (hm : g.minus = some (k, w, m)) :
    glueFollow g rest = (noSp rest && pmFollow kwPlus g.plus (pmRender g.minus ++ rest) && filOK m rest) := by
  simp [glueFollow, hb, hm, pmFollow]

/-- non-vacuity: `3pt minus 1pt ` followed by `plus two` conforms, and the model leaves `plus two` -/
example :
    let pt : UnitLit := ⟨0, none, .phys 0, [112, 116], false⟩
    let g : GlueLit := ⟨⟨0, []⟩, ⟨⟨0, []⟩, .inl ⟨[3], none, []⟩, pt⟩, none,
      some (1, [109, 105, 110, 117, 115], ⟨⟨1, []⟩, .inl ⟨[1], none, []⟩, ⟨0, none, .phys 0, [112, 116], true⟩⟩)⟩
    let rest : List Tok := [.ch 112, .ch 108, .ch 117, .ch 115, .sp, .ch 116, .ch 119, .ch 111]
    glueWf g = true ∧ glueFollow g rest = true ∧
      (readGlue (g.render ++ rest)).toOption.map (fun r => (r.1.stretch, r.1.shrink.map decode, r.2)) =
        some (none, some (0, 65536), rest) := by decide +kernel

/-- The pinned code before the D14 repair read `1pt plus 2fil` as `2fill` (kernel-checked witness). -/
theorem asIs_fil_counterexample :
    (readGlueAsIs [.ch 49, .ch 112, .ch 116, .sp, .ch 112, .ch 108, .ch 117, .ch 115, .sp, .ch 50, .ch 102, .ch 105, .ch 108]).toOption.map
      (fun g => g.1.stretch.map decode) = some (some (2, 2)) ∧
    (readGlue [.ch 49, .ch 112, .ch 116, .sp, .ch 112, .ch 108, .ch 117, .ch 115, .sp, .ch 50, .ch 102, .ch 105, .ch 108]).toOption.map
      (fun g => g.1.stretch.map decode) = some (some (1, 2)) := by decide +kernel

/-! ## enable/disable balance -/

/-- Every control-flow path (any branch choices, any number of loop iterations) of the regenerated skeletons of
    `readArgumentAndSource`, `readDimen`, `readMuDimen`, `readUnitOfMeasure`, `readInteger`, `readGlue`, `readMuGlue`
    that ends in a `return` or falls off the end has made as many `ParameterCommand.enable()` as `.disable()` calls
    (exits by an escaping exception are exempt). -/
theorem enable_balance_all_paths :
    ∀ p ∈ PlasVerif.Generated.ArgPaths.skeletons, ∀ n m : Int,
      PlasVerif.Model.EnableBalance.Exec p.2 n .returned m ∨ PlasVerif.Model.EnableBalance.Exec p.2 n .normal m → m = n :=
  PlasVerif.Proofs.EnableBalanceTable.all_skeletons_paths_balanced

example : PlasVerif.Generated.ArgPaths.skeletons.length = 7 := by decide

/-- **Character categories.** On every control-flow path (any branch choices, any number of loop iterations) of the
    regenerated skeleton of `readArgumentAndSource` that ends in a `return`, the loop restoring the per-type character
    categories (the `url` type reads `# ~ % &` as ordinary characters) has run once the dictionary of saved categories
    was created: an argument that is absent, or whatever else the reader finds, never leaves the categories switched
    for what follows (exits by an escaping exception are exempt). -/
theorem catcodes_restored_all_paths :
    ∀ p ∈ PlasVerif.Generated.CatPaths.catSkeletons, ∀ n m : Int,
      PlasVerif.Model.EnableBalance.Exec p.2 n .returned m ∨ PlasVerif.Model.EnableBalance.Exec p.2 n .normal m → m = n :=
  PlasVerif.Proofs.CatRestoreTable.all_cat_paths_restored

example : PlasVerif.Generated.CatPaths.catSkeletons.length = 1 := by decide

end PlasVerif.Properties.C05
