import PlasVerif.Proofs.FilenamesExpand
import PlasVerif.Proofs.FilenamesBudget
import PlasVerif.Proofs.FilenamesRefine
import PlasVerif.Proofs.FilenamesWorld
/-!
# C15 — The filename generator yields unique, clean names in template order

Property theorems only; helper lemmas are in `Proofs/Filenames.lean`, `Proofs/FilenamesExpand.lean`
(template level), `Proofs/FilenamesBudget.lean` (observation O3) and `Proofs/FilenamesRefine.lean`
(refinement of the Spec's reference generator).  All statements are about
`Model/Filenames.lean` (the code after the `fix:` commits D12, D14–D17) and hold for every
configuration, template, state and request history (no bound on lengths or on the pass bound).
The ghost trace (`Event`s) returned by `request` records every candidate tried.
-/
namespace PlasVerif.Properties.C15
open PlasVerif.Model.Filenames PlasVerif.Spec.Filenames PlasVerif.Proofs.Filenames PlasVerif.Generated.Filenames

private def s (x : String) : Str := x.toList.map Char.toNat
private def cfg0 : Config := { bad := s " ", sub := s "-", ext := s ".html" }
private def st0 : State :=
  initial [.name (s "index"), .alts [s "${id}", s "${title.2}", s "sect${num.3}"]] [] [s "sect001.html"]

/-- **No name is ever issued twice or equal to a reserved name**: for every template, initial
    variables, reserved set and request history. -/
theorem never_duplicate_never_reserved (cfg : Config) (items : List Item) (vars : Env) (reserved : List Str)
    (bs : List Env) :
    (issuedNames (results cfg (initial items vars reserved) bs)).Nodup ∧
    ∀ n ∈ issuedNames (results cfg (initial items vars reserved) bs), n ∉ reserved :=
  issued_fresh cfg bs (initial items vars reserved)

/-- the same from any reachable state: issued names are distinct and avoid everything taken so far -/
theorem never_duplicate_from_any_state (cfg : Config) (st : State) (bs : List Env) :
    (issuedNames (results cfg st bs)).Nodup ∧ ∀ n ∈ issuedNames (results cfg st bs), n ∉ st.taken :=
  issued_fresh cfg bs st

example : results cfg0 st0 [[], [(s "id", s "a")], [(s "id", s "a"), (s "title", s "A b c")], []] =
    [.name (s "index.html"), .name (s "a.html"), .name (s "A-b.html"), .name (s "sect002.html")] := by decide

/-- names are compared code point by code point, and the name handed out is exactly the one that was checked:
    canonically equivalent spellings (precomposed / combining accent) are two different fresh names, and a
    repeated spelling is skipped as taken -/
example : results cfg0 st0 [[], [(s "id", s "r\u00e9sum\u00e9")], [(s "id", s "re\u0301sume\u0301")], [(s "id", s "r\u00e9sum\u00e9")]] =
    [.name (s "index.html"), .name (s "r\u00e9sum\u00e9.html"), .name (s "re\u0301sume\u0301.html"), .name (s "sect002.html")] := by decide

/-- **A request never loops**: it runs at most `passBound + 1` wildcard passes and tries at most
    `|statics| + (passBound + 1)·|wildcard|` candidates (the function is total by construction). -/
theorem request_terminates (cfg : Config) (st : State) (b : Env) :
    (request cfg st b).1.passes ≤ st.passes + (passBound + 1) ∧
    (request cfg st b).2.2.length ≤ st.statics.length + (passBound + 1) * st.wildcard.length := by
  have h := request_ok cfg st b
  have hp : passesLeft st.passes ≤ passBound + 1 := by simp [passesLeft]
  refine ⟨Nat.le_trans h.passes (by omega), Nat.le_trans h.tries ?_⟩
  exact Nat.add_le_add_left (Nat.mul_le_mul_right _ hp) _

/-- **When no fresh name can be formed the generator reports an error** (never a name, never a loop):
    if every remaining static name and every alternative is unbound, invalid or already taken for
    every value of the running number, the request returns `ValueError` and the generator is finished. -/
theorem gives_up_with_error (cfg : Config) (st : State) (b : Env) (hd : st.dead = false)
    (hs : ∀ item ∈ st.statics, ∀ n, NotFresh cfg st.taken (envUpdate st.vars b) n item)
    (hw : ∀ item ∈ st.wildcard, ∀ v n, (v = envUpdate st.vars b ∨ v = envErase (envUpdate st.vars b) numKey) →
      NotFresh cfg st.taken v n item) :
    (request cfg st b).2.1 = .error .valueError ∧ (request cfg st b).1.dead = true :=
  request_gives_up cfg st b hd hs hw

example : (request cfg0 { st0 with statics := [], wildcard := [s "${id}"] } []).2.1 = .error .valueError := by decide

/-- every result is a name or `ValueError`; an error finishes the generator, and afterwards **every**
    later request reports the error again (D17: the pinned code returned `None`). -/
theorem error_is_reported_and_final (cfg : Config) (st : State) (b : Env) (bs : List Env) (e : Err)
    (h : (request cfg st b).2.1 = .error e) :
    e = .valueError ∧ ∀ r ∈ results cfg (request cfg st b).1 bs, r = .error .valueError := by
  obtain ⟨h1, _, h3⟩ := (request_ok cfg st b).error e h
  exact ⟨h1, dead_stays cfg bs _ h3⟩

/-- **`$num` starts at 1.** -/
theorem num_from_one (items : List Item) (vars : Env) (reserved : List Str) :
    (initial items vars reserved).num = 1 := rfl

/-- **`$num` takes successive values**: over a whole history the numbers used by the numbered
    candidates (issued or skipped as taken) are `1, 2, 3, …` in order. -/
theorem num_successive_from_one (cfg : Config) (items : List Item) (vars : Env) (reserved : List Str) (bs : List Env) :
    numberedNums (allEvents cfg (initial items vars reserved) bs) =
      upFrom 1 (numberedNums (allEvents cfg (initial items vars reserved) bs)).length :=
  nums_successive cfg bs (initial items vars reserved)

/-- **`$num` advances only when a numbered candidate is issued or skipped as already taken**, and then by
    exactly one: the number after a request is the number before plus the count of numbered candidates,
    and a candidate counts as numbered only if it was formed (fate `taken` or `issued`). -/
theorem num_advances_only_when_used (cfg : Config) (st : State) (b : Env) :
    (request cfg st b).1.num = st.num + (numberedNums (request cfg st b).2.2).length ∧
    ∀ e ∈ (request cfg st b).2.2, e.numbered = true → ∃ n, e.fate = .taken n ∨ e.fate = .issued n :=
  ⟨(request_ok cfg st b).nums.2, (request_ok cfg st b).numbered⟩

example : numberedNums (allEvents cfg0 st0 [[], [], []]) = [1, 2, 3] := by decide

/-- **Static names first**: while a static name is left, a request whose first static template is bound
    and fresh returns exactly that name (extension added) and moves on to the next one. -/
theorem statics_first (cfg : Config) (st : State) (b : Env) (item : Str) (rest : List Str) (r : Str) (u : Bool)
    (hd : st.dead = false) (hs : st.statics = item :: rest)
    (he : expand cfg (envUpdate st.vars b) st.num item = .ok r u) (hf : addExt cfg.ext r ∉ st.taken) :
    (request cfg st b).2.1 = .name (addExt cfg.ext r) ∧ (request cfg st b).1.statics = rest ∧
    (request cfg st b).1.num = bump st.num u :=
  request_static_first cfg st b item rest r u hd hs he hf

/-- **Static names first and in order, over a history**: if the static templates are literal text
    (no `$`), pairwise distinct after the extension rule and not reserved, the first `|statics|`
    requests return exactly these names in template order, whatever the bindings are. -/
theorem statics_first_in_order (cfg : Config) (st : State) (bs : List Env)
    (hd : st.dead = false) (hl : bs.length = st.statics.length)
    (hlit : ∀ x ∈ st.statics, ∀ c ∈ x, c ≠ cDollar)
    (hnd : (st.statics.map (addExt cfg.ext)).Nodup) (hfr : ∀ x ∈ st.statics, addExt cfg.ext x ∉ st.taken) :
    results cfg st bs = st.statics.map (fun x => .name (addExt cfg.ext x)) :=
  statics_history cfg st.statics st bs hd rfl hl
    (fun x hx v n => ⟨_, expand_lit cfg v n x (hlit x hx)⟩) hnd hfr

example : results cfg0 { st0 with statics := [s "index", s "toc"] } [[(s "id", s "a")], []] =
    [.name (s "index.html"), .name (s "toc.html")] := by decide

/-- **The first alternative whose variables are all bound**: in the wildcard phase, if the alternatives
    before `item` have an unbound variable and `item` is bound and fresh, the request returns `item`'s name. -/
theorem wildcard_first_bound_alternative (cfg : Config) (st : State) (b : Env) (pre : List Str) (item : Str)
    (post : List Str) (r : Str) (u : Bool) (hd : st.dead = false) (hs : st.statics = [])
    (hw : st.wildcard = pre ++ item :: post) (hnum : envGet (envUpdate st.vars b) numKey = none)
    (hpre : ∀ p ∈ pre, expand cfg (envUpdate st.vars b) st.num p = .unbound)
    (he : expand cfg (envUpdate st.vars b) st.num item = .ok r u) (hf : addExt cfg.ext r ∉ st.taken) :
    (request cfg st b).2.1 = .name (addExt cfg.ext r) ∧ (request cfg st b).1.num = bump st.num u :=
  request_first_bound cfg st b pre item post r u hd hs hw hnum hpre he hf

/-- … and in general **nothing but skips precedes the issued name**: when a request returns a name, the
    trace is `skips ++ [issued name]` where every skipped candidate was unbound or already taken; the
    name is fresh, joins the taken set, and the namespace is reset to the initial one. -/
theorem issued_after_skips_only (cfg : Config) (st : State) (b : Env) (n : Str)
    (h : (request cfg st b).2.1 = .name n) :
    n ∉ st.taken ∧ (request cfg st b).1.taken = n :: st.taken ∧ (request cfg st b).1.vars = st.base ∧
    ∃ pre e, (request cfg st b).2.2 = pre ++ [e] ∧ e.fate = .issued n ∧ ∀ x ∈ pre, x.isSkip st.taken := by
  obtain ⟨h1, h2, _, h4, h5⟩ := (request_ok cfg st b).name n h
  exact ⟨h1, h2, h4, h5⟩

example : ((request cfg0 { st0 with statics := [] } [(s "title", s "A b c")]).2.2.map (·.fate)) =
    [.unbound, .issued (s "A-b.html")] := by decide

/-- **Zero padding**: the number is its decimal digits preceded by zeros up to the requested width. -/
theorem zero_padding (w n : Nat) :
    pad w n = List.replicate (w - (natDigits n).length) cZero ++ natDigits n ∧
    (pad w n).length = max w (natDigits n).length :=
  ⟨rfl, pad_length w n⟩

example : pad 4 7 = s "0007" ∧ pad 0 12 = s "12" := by decide

/-- **Word limit**: the loop of the code keeps the first `n` blank-separated words, joined by one blank
    (also for a blank value: no words, empty result — D12). -/
theorem word_limit (n : Nat) (v : Str) : limitWords n v = joinSp ((words v).take n) := by
  simp [limitWords, limitLoop_eq_take]

example : limitWords 2 (s " A  Tale of Two") = s "A Tale" ∧ limitWords 1 (s "  ") = [] := by decide

/-- the pinned loop before the D12 repair raised `IndexError` on a blank value: kernel-checked witness -/
theorem asIs_counterexample : limitWordsAsIs 1 (s "") = none ∧ limitWords 1 (s "") = [] := by decide

/-- **Forbidden characters replaced**: when the substitute contains no forbidden character, the
    sequential `replace` calls of the code replace every forbidden character of a value by the substitute
    and nothing else, and no forbidden character is left. -/
theorem bad_chars_replaced (bad sub : Str) (h : ∀ c ∈ sub, c ∉ bad) (v : Str) :
    clean bad sub v = cleanSpec bad sub v ∧ ∀ c ∈ clean bad sub v, c ∉ bad := by
  rw [clean_eq_cleanSpec bad sub h v]
  exact ⟨rfl, cleanSpec_no_bad bad sub h v⟩

example : clean (s " /:") (s "-") (s "a b/c:d") = s "a-b-c-d" := by decide

/-- **Extension added when missing**, kept otherwise. -/
theorem extension_added_when_missing (ext x : Str) :
    (hasExt x = false → addExt ext x = x ++ ext) ∧ (hasExt x = true → addExt ext x = x) := by
  constructor <;> intro h <;> simp [addExt, h]

example : addExt (s ".html") (s "a/b.c/sect1") = s "a/b.c/sect1.html" ∧ addExt (s ".html") (s "toc.xml") = s "toc.xml" ∧
    addExt (s ".html") (s ".hidden") = s ".hidden.html" := by decide

/-- literal template text is issued as it stands (the string-level scanners find nothing in it) -/
theorem literal_expands_to_itself (cfg : Config) (v : Env) (n : Nat) (x : Str) (h : ∀ c ∈ x, c ≠ cDollar) :
    expand cfg v n x = .ok x (envHas (cleanEnv cfg v) numKey) :=
  expand_lit cfg v n x h

/-- **The string-level machinery computes the tree denotation** on every well-formed template tree
    (literal text without `$`, identifiers as names, digit strings as widths, every variable used at most
    once): `keysre.findall`, the number / word-limit loop over the keys, the character substitution, the
    format stripping and `string.Template.substitute` together yield exactly `render` — the running number
    zero-padded to its width, each bound value limited to its first `width` words, forbidden characters
    replaced — report an unbound variable exactly when `render` is undefined, and flag the candidate as
    numbered exactly when the template mentions `$num` (or the caller bound `num`).  Hypothesis on the
    configuration: the substitute string contains no forbidden character (otherwise the sequential
    `replace` calls re-replace it, see `bad_chars_replaced`). -/
theorem expand_eq_render (cfg : Config) (env : Env) (num : Nat) (t : Tmpl) (hwf : wf t = true)
    (hsub : ∀ c ∈ cfg.sub, c ∉ cfg.bad) :
    expand cfg env num (lin t) =
      match render cfg env num t with
      | none => .unbound
      | some r => .ok r (numbered t env) :=
  expand_render cfg env num t hwf hsub

private def t0 : Tmpl := [.var (s "jobname") none, .lit (s "-"), .var (s "title") (some (s "2")), .lit (s "_s"), .var (s "num") (some (s "3"))]

/-- non-vacuity: a well-formed tree with a plain variable, a word-limited one and a padded number -/
example : wf t0 = true ∧ lin t0 = s "${jobname}-${title.2}_s${num.3}" ∧
    render cfg0 [(s "jobname", s "my job"), (s "title", s "A Tale of Two")] 7 t0 = some (s "my-job-A-Tale_s007") ∧
    expand cfg0 [(s "jobname", s "my job"), (s "title", s "A Tale of Two")] 7 (lin t0) = .ok (s "my-job-A-Tale_s007") true ∧
    expand cfg0 [(s "jobname", s "j")] 7 (lin t0) = .unbound := by decide

/-! ### Observation O3: the give-up bound counts passes over the generator's whole life

`passes` is initialised once, so a request has only `passesLeft st.passes` passes left
(`passBound + 1 - st.passes`, at least one).  `st.fresh` is the same state with the counter reset, i.e.
the budget the request would have if the bound were counted per request (what `Spec.srequest` prescribes). -/

/-- the budget that is left -/
theorem passes_left (p : Nat) : passesLeft p = if p ≤ passBound then passBound + 1 - p else 1 :=
  passesLeft_eq p

/-- **Exact characterisation of the deviation.**  Let a request with a full budget issue the name `n`
    in its `j`-th wildcard pass (`j = 0`: a static name).  With the budget that is really left the request
    issues the same name when `j ≤ passesLeft st.passes`, and otherwise reports `ValueError` — although the
    fresh name `n ∉ st.taken` could be formed.  These are the only two outcomes. -/
theorem lifetime_budget_deviation (cfg : Config) (st : State) (b : Env) (n : Str)
    (h : (request cfg st.fresh b).2.1 = .name n) :
    n ∉ st.taken ∧
    ((request cfg st.fresh b).1.passes ≤ passesLeft st.passes → (request cfg st b).2.1 = .name n) ∧
    (passesLeft st.passes < (request cfg st.fresh b).1.passes → (request cfg st b).2.1 = .error .valueError) := by
  refine ⟨((request_ok cfg st.fresh b).name n h).1, ((request_budget cfg st b).2 n h).1, ((request_budget cfg st b).2 n h).2⟩

/-- … hence a request fails although a fresh name exists **iff** the first fresh candidate lies beyond the
    passes that are left. -/
theorem fails_though_fresh_iff (cfg : Config) (st : State) (b : Env) (n : Str)
    (h : (request cfg st.fresh b).2.1 = .name n) :
    (request cfg st b).2.1 = .error .valueError ↔ passesLeft st.passes < (request cfg st.fresh b).1.passes := by
  obtain ⟨h1, h2⟩ := (request_budget cfg st b).2 n h
  constructor
  · intro he
    by_cases hle : (request cfg st.fresh b).1.passes ≤ passesLeft st.passes
    · rw [h1 hle] at he; cases he
    · omega
  · exact h2

/-- no spurious success: when even the full budget fails, the request fails -/
theorem full_budget_error_is_error (cfg : Config) (st : State) (b : Env) (e : Err)
    (h : (request cfg st.fresh b).2.1 = .error e) : (request cfg st b).2.1 = .error .valueError :=
  (request_budget cfg st b).1 e h

/-- no deviation while the lifetime counter plus the passes a request needs stay within the bound
    (in particular for the first `passBound + 1` passes of a generator's life) -/
theorem no_deviation_within_bound (cfg : Config) (st : State) (b : Env) (n : Str)
    (h : (request cfg st.fresh b).2.1 = .name n)
    (hb : st.passes + (request cfg st.fresh b).1.passes ≤ passBound + 1) :
    (request cfg st b).2.1 = .name n := by
  apply ((request_budget cfg st b).2 n h).1
  rw [passesLeft_eq]
  split <;> omega

/-- the deviation is real: with the counter at the bound, one collision in the only alternative makes
    the request fail although the next number is free (kernel-checked) -/
theorem lifetime_budget_counterexample :
    let st : State := { st0 with statics := [], wildcard := [s "s${num}"], taken := [s "s1.html"], passes := passBound }
    (request cfg0 st []).2.1 = .error .valueError ∧ (request cfg0 st.fresh []).2.1 = .name (s "s2.html") := by
  decide

/-! ### The model refines the reference generator of the Spec

`Rel st sst`: the model state runs the linearisation of the (well-formed) template trees of the Spec
state, with the same number, taken set, initial namespace and liveness. -/

/-- **One request of the code = one request of the reference generator with the budget that is left**:
    same result (name or `ValueError`) and related successor states, for every related pair of states and
    every binding that does not bind `num`. -/
theorem request_refines_spec (cfg : Config) (hsub : ∀ c ∈ cfg.sub, c ∉ cfg.bad) (st : State) (sst : SState) (b : Env)
    (hR : Rel st sst) (hnum : envGet (envUpdate sst.base b) numKey = none) :
    (request cfg st b).2.1 = (srequestFuel cfg (passesLeft st.passes) sst b).2 ∧
    Rel (request cfg st b).1 (srequestFuel cfg (passesLeft st.passes) sst b).1 :=
  request_sim cfg hsub st sst b hR hnum

/-- with an unused lifetime counter the budget is the Spec's own (`passBound + 1` passes) -/
theorem first_request_is_spec (cfg : Config) (hsub : ∀ c ∈ cfg.sub, c ∉ cfg.bad) (st : State) (sst : SState) (b : Env)
    (hR : Rel st sst) (hnum : envGet (envUpdate sst.base b) numKey = none) (hp : st.passes = 0) :
    (request cfg st b).2.1 = (srequest cfg sst b).2 ∧ Rel (request cfg st b).1 (srequest cfg sst b).1 := by
  have h := request_sim cfg hsub st sst b hR hnum
  have e : passesLeft st.passes = passBound + 1 := by rw [hp]; rfl
  rw [e] at h
  exact h

/-- **Every name the code issues is the name the property prescribes** (static names first and in order,
    then the first alternative that is bound and fresh, numbers advancing on numbered candidates), whatever
    the lifetime counter is; the only possible disagreement with the Spec is a `ValueError` where the Spec
    still finds a name — exactly the O3 deviation characterised above. -/
theorem issued_name_is_spec_name (cfg : Config) (hsub : ∀ c ∈ cfg.sub, c ∉ cfg.bad) (st : State) (sst : SState) (b : Env)
    (hR : Rel st sst) (hnum : envGet (envUpdate sst.base b) numKey = none) (nm : Str)
    (h : (request cfg st b).2.1 = .name nm) :
    (srequest cfg sst b).2 = .name nm ∧ Rel (request cfg st b).1 (srequest cfg sst b).1 :=
  request_name_spec cfg hsub st sst b hR hnum nm h

/-- **Whole histories**: a generator built from well-formed template trees (static names, then a wildcard
    with at least one alternative) returns, for every request history that does not bind `num` and in which
    it has not reported an error, exactly the results of the reference generator. -/
theorem history_refines_spec (cfg : Config) (hsub : ∀ c ∈ cfg.sub, c ∉ cfg.bad) (statics wildcard : List Tmpl)
    (vars : Env) (reserved : List Str) (bs : List Env) (hw : wildcard ≠ [])
    (h1 : ∀ t ∈ statics, wf t = true) (h2 : ∀ t ∈ wildcard, wf t = true)
    (hnum : ∀ b ∈ bs, envGet (envUpdate vars b) numKey = none)
    (hall : ∀ r ∈ results cfg (initial ((statics.map lin).map Item.name ++ [Item.alts (wildcard.map lin)]) vars reserved) bs,
      ∃ nm, r = .name nm) :
    results cfg (initial ((statics.map lin).map Item.name ++ [Item.alts (wildcard.map lin)]) vars reserved) bs =
      srun cfg (sinit statics wildcard vars reserved) bs :=
  history_spec cfg hsub bs _ _ (initial_rel statics wildcard vars reserved hw h1 h2) hnum hall

private def w0 : List Tmpl := [[.var (s "id") none], [.var (s "title") (some (s "2"))], [.lit (s "sect"), .var (s "num") (some (s "3"))]]

/-- non-vacuity: the template `index [$id, $title(2), sect$num(3)]` as trees, a history with repeated and
    missing values; both generators return the same four names -/
example :
    let bs : List Env := [[], [(s "id", s "a")], [(s "id", s "a"), (s "title", s "A b c")], []]
    results cfg0 (initial (([[Seg.lit (s "index")]].map lin).map Item.name ++ [Item.alts (w0.map lin)]) [] [s "sect001.html"]) bs =
      [.name (s "index.html"), .name (s "a.html"), .name (s "A-b.html"), .name (s "sect002.html")] ∧
    srun cfg0 (sinit [[Seg.lit (s "index")]] w0 [] [s "sect001.html"]) bs =
      [.name (s "index.html"), .name (s "a.html"), .name (s "A-b.html"), .name (s "sect002.html")] := by decide

/-! ### Several generators in one process

A process is a list of `Filenames` objects (`Model.runW`): objects are created, variables are bound on one
of them and one of them is called, in any interleaving (the page-name and the image-name generator of a
run live side by side). -/

/-- **Every object answers from its own bindings and its own taken set**: in any schedule the results
    reported for object `j` are exactly those of object `j` run alone on the bind / call steps addressed to
    it — neither the creation of other objects nor bindings or calls on them are visible. -/
theorem generators_independent (j : Nat) (ops : List WOp) (w : List Gen) (g : Gen) (h : w[j]? = some g) :
    resultsOf j (runW w ops) = runG g (proj j ops) :=
  world_independent j ops w g h

/-- … and an object driven "bind this request's variables, then call" is the request history all other
    theorems speak about, so each of them holds per object in any interleaving. -/
theorem object_history (g : Gen) (bs : List Env) :
    runG g (bs.flatMap (fun b => [some b, none])) = results g.cfg g.st bs :=
  runG_requests bs g

example :
    let pages : Gen := ⟨cfg0, initial [.name (s "index"), .alts [s "${id}", s "sect${num.2}"]] [] []⟩
    let images : Gen := ⟨{ cfg0 with ext := s ".png" }, initial [.alts [s "${id}", s "img${num.2}"]] [] []⟩
    runW [] [.new pages, .new images, .call 0, .bind 0 [(s "id", s "intro")], .call 1, .call 0, .call 0, .call 1] =
      [(0, .name (s "index.html")), (1, .name (s "img01.png")), (0, .name (s "intro.html")),
       (0, .name (s "sect01.html")), (1, .name (s "img02.png"))] := by decide

end PlasVerif.Properties.C15
