import PlasVerif.Proofs.Lists
import PlasVerif.Proofs.Arrays
import PlasVerif.Proofs.Colspec
import PlasVerif.Proofs.ListNumbers
/-!
# C10 — Lists and tables keep their shape: items, rows, cells and spans as written

Property theorems only; helper lemmas are in `Proofs/Lists.lean`, `Proofs/Arrays.lean`, `Proofs/Colspec.lean`.
All theorems hold for every tree / row / specification of the Spec grammar: no bound on
nesting depth, number of items, rows, cells, or on the fuel beyond the stated minimum.
-/
namespace PlasVerif.Properties.C10
open PlasVerif.Model.Lists PlasVerif.Model.Arrays PlasVerif.Spec.ListTree PlasVerif.Spec.TableTree
open PlasVerif.Proofs.Lists PlasVerif.Proofs.Arrays PlasVerif.Proofs.Colspec

/-- Every nested structure (group, environment, list, table — nested to any depth, followed by
    anything) is digested into exactly the tree the document spells, and nothing after it is touched. -/
theorem digest_roundtrip (b : Block) (d f : Nat) (tl : Stream) (hwf : b.wf = true) (hl : b.isLeaf = false)
    (hf : b.cost ≤ f) :
    digestNode f (.mk (headTok d b) []) (tailR d b ++ tl) = some (b.node d, tl) :=
  block_ok b d f tl hwf hl hf

/-- A list environment yields exactly one item node per `\item`, in order, each holding everything
    up to the next `\item` of the same list (nested lists stay inside the item that contains them:
    they are part of `body.nodes`), with its term — whatever blanks (spaces, blank lines / `\par`)
    stand between `\begin{..}` and the first `\item` or after an `\item`: the list's children are
    the items themselves.  An item may end in a bare declaration (`Items.consD`: `\item a \bfseries x`, an
    environment token without end): it then holds its body and the declaration node, the declaration holds
    exactly what follows it in that item (again any blocks, with nested lists), and the next `\item` — or the
    end of the list — is not swallowed. -/
theorem items_roundtrip (d ty : Nat) (nsp : List Bool) (is : Items) (tl : Stream) (f : Nat) (hwf : is.wf = true)
    (hf : (Block.list ty nsp is).cost ≤ f) :
    digestNode f (mkT (d + 1) (.begin_ .list ty))
        (blanks (d + 1) nsp ++ (is.render (d + 1) ++ mkT d (.end_ .list ty) :: tl))
      = some (.mk ⟨d + 1, .begin_ .list ty⟩ (is.nodes (d + 1)), tl) := by
  have h := block_ok (.list ty nsp is) d f tl (by simpa [Block.wf] using hwf) rfl hf
  simpa [headTok, tailR, Block.node, mkT, List.append_assoc] using h

/-- one item per `\item`, terms attached in order, bodies in order -/
theorem items_one_per_item (d : Nat) (is : Items) :
    (is.nodes d).length = is.length ∧
    (is.nodes d).map (fun n => n.kind) = is.terms.map Kind.item ∧
    (is.nodes d).map Node.ch = is.children d :=
  items_shape is d

/-- An item whose body ends in a bare declaration (`\item a \bfseries x \item y`, a declaration being an
    environment token without end token) still holds exactly its own body and the declaration node; the
    declaration holds exactly what follows it in that item (any well-formed blocks), and the next `\item` stays
    on the stream for the list: the next item is NOT swallowed (former known finding
    `item-absorbed-by-declaration`, repaired by the `container` test of `Environment.digest`). -/
theorem item_keeps_trailing_declaration (d t t' ty : Nat) (body bs : Blocks) (rest : Stream)
    (hb1 : body.startsNonWs = true) (hb2 : body.wf = true) (hwf : bs.wf = true) (f : Nat)
    (hf : body.cost + bs.cost + 6 ≤ f) :
    digestNode f (mkT d (.item t))
        (body.render d ++ mkT (d + 1) (.begin_ .env ty) :: (bs.render (d + 1) ++ mkT d (.item t') :: rest))
      = some (.mk ⟨d, .item t⟩ (body.nodes d ++ [.mk ⟨d + 1, .begin_ .env ty⟩ (bs.nodes (d + 1))]), mkT d (.item t') :: rest) :=
  item_decl_digest d t t' ty body bs rest hb1 hb2 hwf f hf

/-- A declaration (or any non-list environment) stops at an `\item` whatever its context depth, and leaves it
    on the stream. -/
theorem declaration_stops_at_item (dd ty t ds : Nat) (bs : Blocks) (rest : Stream) (hwf : bs.wf = true)
    (f : Nat) (hf : bs.cost + 2 ≤ f) :
    digestNode f (mkT dd (.begin_ .env ty)) (bs.render dd ++ mkT ds (.item t) :: rest)
      = some (.mk ⟨dd, .begin_ .env ty⟩ (bs.nodes dd), mkT ds (.item t) :: rest) :=
  decl_digest_item dd ty t ds bs rest hwf f hf

/-- non-vacuity, on the token stream recorded from `\begin{itemize}\item \bfseries x \item y\end{itemize}`: the list
    has TWO items, the first holding the declaration node with `x`, the second holding `y` -/
example :
    (parse [mkT 3 (.begin_ .list 1), mkT 3 (.item 0), mkT 4 (.begin_ .env 5), mkT 4 (.text 120), mkT 4 .space,
            mkT 4 (.item 0), mkT 4 (.text 121), mkT 2 (.end_ .list 1)]).map
      (fun ns => ns.map fun n => (n.ch.length, n.ch.map fun i => i.ch.map fun d => d.ch.length)) = some [(2, [[2], [0]])] := by
  decide

example : digestNode 14 (mkT 3 (.item 0)) [mkT 3 (.text 97), mkT 4 (.begin_ .env 5), mkT 4 (.text 120), mkT 3 (.item 0), mkT 3 (.text 121)]
    = some (.mk ⟨3, .item 0⟩ [mkT 3 (.text 97), .mk ⟨4, .begin_ .env 5⟩ [mkT 4 (.text 120)]], [mkT 3 (.item 0), mkT 3 (.text 121)]) :=
  item_keeps_trailing_declaration 3 0 0 5 (.cons (.leaf (.text 97)) .nil) (.cons (.leaf (.text 120)) .nil) _ (by decide) (by decide) (by decide) 14 (by decide)

/-- non-vacuity: a description whose first `\item[T]` follows a space and a blank line, holding `a {b}` and an
    itemize whose first `\item` follows a blank line, then an empty `\item` -/
example :
    let inner := Block.list 1 [true] (.cons 0 [] (.cons (.leaf (.text 120)) .nil) .nil)
    let is := Items.cons 84 [false] (.cons (.leaf (.text 97)) (.cons (.grp (.cons (.leaf (.text 98)) .nil)) (.cons inner .nil)))
      (.cons 0 [] .nil .nil)
    is.wf = true ∧
    digestNode 40 (mkT 3 (.begin_ .list 2)) (blanks 3 [false, true] ++ (is.render 3 ++ [mkT 2 (.end_ .list 2), mkT 2 (.text 1)]))
      = some (.mk ⟨3, .begin_ .list 2⟩ (is.nodes 3), [mkT 2 (.text 1)]) := by
  refine ⟨by decide, ?_⟩
  exact items_roundtrip 2 2 [false, true] _ _ 40 (by decide) (by decide)

/-- non-vacuity with declarations: `\begin{itemize}\item a \bfseries x \begin{enumerate}\item \itshape y\end{enumerate} \item b\end{itemize}` -/
example :
    let inner := Block.list 2 [] (.consD 0 [] .nil 6 (.cons (.leaf (.text 121)) .nil) .nil)
    let is := Items.consD 0 [] (.cons (.leaf (.text 97)) .nil) 5 (.cons (.leaf (.text 120)) (.cons inner .nil))
      (.cons 0 [] (.cons (.leaf (.text 98)) .nil) .nil)
    is.wf = true ∧ (is.nodes 3).length = 2 ∧
    digestNode 60 (mkT 3 (.begin_ .list 1)) (blanks 3 [] ++ (is.render 3 ++ [mkT 2 (.end_ .list 1)]))
      = some (.mk ⟨3, .begin_ .list 1⟩ (is.nodes 3), []) := by
  refine ⟨by decide, by decide, ?_⟩
  exact items_roundtrip 2 1 [] _ _ 60 (by decide) (by decide)

/-- A tabular/array is digested into one row node per written row and one cell node per written
    cell, in order, each cell holding what stands between the separators (nested tables, lists,
    groups, math inside the cell that contains them). -/
theorem table_roundtrip (d ty : Nat) (c : Blocks) (cs : Cells) (rs : Rows) (tl : Stream) (f : Nat)
    (hwf : c.wf = true ∧ cs.wf = true ∧ rs.wf = true) (hf : (Block.table ty c cs rs).cost ≤ f) :
    digestNode f (mkT (d + 2) (.begin_ .array ty))
        (mkT (d + 2) .row :: mkT (d + 2) .cell ::
          (c.render (d + 2) ++ (cs.render (d + 2) ++ (rs.render (d + 2) ++ mkT d (.end_ .array ty) :: tl))))
      = some (.mk ⟨d + 2, .begin_ .array ty⟩
          (.mk ⟨d + 2, .row⟩ (.mk ⟨d + 2, .cell⟩ (c.nodes (d + 2)) :: cs.nodes (d + 2)) :: rs.nodes (d + 2)), tl) := by
  have h := block_ok (.table ty c cs rs) d f tl (by simp [Block.wf, hwf.1, hwf.2.1, hwf.2.2]) rfl hf
  simpa [headTok, tailR, Block.node, mkT, List.append_assoc] using h

/-- r written rows give r row nodes; the cells of each row are the written ones, in order -/
theorem table_rows_and_cells (d : Nat) (rs : Rows) :
    (rs.nodes d).map (fun r => r.ch.map Node.ch) = rs.toList.map (fun r => r.map (·.nodes d)) :=
  rows_shape rs d

/-- non-vacuity: `a & {b} \\ \hline c` with a nested table in the last cell -/
example :
    let inner := Block.table 7 (.cons (.leaf (.text 120)) .nil) .nil .nil
    let c := Blocks.cons (.leaf (.text 97)) .nil
    let cs := Cells.cons (.cons (.grp (.cons (.leaf (.text 98)) .nil)) .nil) .nil
    let rs := Rows.cons (.cons (.leaf .hline) (.cons (.leaf (.text 99)) (.cons inner .nil))) .nil .nil
    digestNode 60 (mkT 4 (.begin_ .array 7))
        (mkT 4 .row :: mkT 4 .cell :: (c.render 4 ++ (cs.render 4 ++ (rs.render 4 ++ [mkT 2 (.end_ .array 7)]))))
      = some (.mk ⟨4, .begin_ .array 7⟩ (.mk ⟨4, .row⟩ (.mk ⟨4, .cell⟩ (c.nodes 4) :: cs.nodes 4) :: rs.nodes 4), []) := by
  intro inner c cs rs
  exact table_roundtrip 2 7 c cs rs [] 60 (by decide) (by decide)

/-- A cell whose last `\multicolumn` is `\multicolumn{n}{st}{..}` carries span `n` and that column style. -/
theorem multicolumn_span (t : Tok) (pre post : List Node) (d n s : Nat) (st : ColStyle) (hpost : mcolOf post = none) :
    (cellOf (.mk t (pre ++ mkT d (.mcol n st s) :: post))).colspan = some n ∧
    (cellOf (.mk t (pre ++ mkT d (.mcol n st s) :: post))).own = some st ∧
    (cellOf (.mk t (pre ++ mkT d (.mcol n st s) :: post))).span = n := by
  simp [cellOf, Node.ch, mcolOf_append_last pre post d n s st hpost, CellR.span]

example : (cellOf (.mk ⟨4, .cell⟩ [mkT 4 .hline, mkT 4 (.mcol 2 ⟨2, false, true⟩ 97), mkT 4 .space])).span = 2 := by decide

/-- a cell without `\multicolumn` spans one column -/
theorem plain_cell_span (n : Node) (h : mcolOf n.ch = none) : (cellOf n).span = 1 := by
  simp [cellOf, h, CellR.span]

/-- Rule commands, column styles and row deletion never change a cell's span or content. -/
theorem borders_keep_cells (span : Option (Nat × Nat)) (loc : Loc) (cells : List CellR) (col : Nat) :
    (walk span loc col cells).map core = cells.map core := by
  simpa using walk_core true span loc cells col

/-- `Array.applyBorders` keeps exactly the rows that are not border-only (only blanks and rule
    commands), in order, and leaves span, own column specification and content of every cell of
    the kept rows as written: r non-empty rows yield r rows. -/
theorem table_rows_kept (spec : List ColStyle) (rows : List RowR) :
    (applyBordersTable spec rows).map (·.map core) = (rows.filter (!rowBorderOnly ·)).map (·.map core) :=
  applyBordersTable_core spec rows

example :
    let cell (ns : List Node) : CellR := { colspan := none, own := none, items := ns }
    ((applyBordersTable [⟨1, false, false⟩] [[cell [mkT 4 (.text 97)]], [cell [mkT 4 .space, mkT 4 .hline]], [cell []]]).map
      fun r => r.map fun c => (c.items.length, c.marks.bottom)) = [[(1, true)]] := by
  decide

/-- Rule commands mark the borders of exactly the ADJACENT rows, for every table and every placement of
    rule-only rows: the index-and-mutation loop of `Array.applyBorders` computes exactly the structural
    `specTable` — a rule-only row marks the bottom of the nearest content row above it (nothing else)
    and disappears, a rule-only first row marks the top of the second row, a content row applies the rules
    written in it to itself and takes the declared column styles, and the content rows keep their order. -/
theorem table_rules_adjacent (spec : List ColStyle) (rows : List RowR) :
    applyBordersTable spec rows = specTable spec rows :=
  applyBordersTable_eq_spec spec rows

/-- non-vacuity: `a \\ \hline \\ b \\ \hline` — the first `\hline` is the bottom of row a only, the last one the
    bottom of row b only -/
example :
    let cell (ns : List Node) : CellR := { colspan := none, own := none, items := ns }
    let rows := [[cell [mkT 4 (.text 97)]], [cell [mkT 4 .hline]], [cell [mkT 4 (.text 98)]], [cell [mkT 4 .space, mkT 4 .hline]]]
    ((specTable [] rows).map fun r => r.map fun c => (c.marks.top, c.marks.bottom)) = [[(false, true)], [(false, true)]] ∧
    ((specTable [] (rows.take 3)).map fun r => r.map fun c => (c.marks.top, c.marks.bottom)) = [[(false, true)], [(false, false)]] := by
  decide

/-- From tokens to finished rows, for EVERY written table (any nesting inside the cells, any placement of rule
    commands, any column styles): digesting the table's token stream and running `Array.applyBorders` on the result
    gives exactly `specTable` of the rows as written (`writtenRows`: one record per written cell, in order, with the
    span / own specification of its `\multicolumn` and its content) — rule-only rows gone, every rule on the
    adjacent content row, nothing after the table touched. -/
theorem table_pipeline (spec : List ColStyle) (d ty : Nat) (c : Blocks) (cs : Cells) (rs : Rows) (tl : Stream) (f : Nat)
    (hwf : c.wf = true ∧ cs.wf = true ∧ rs.wf = true) (hf : (Block.table ty c cs rs).cost ≤ f) :
    (digestNode f (mkT (d + 2) (.begin_ .array ty))
        (mkT (d + 2) .row :: mkT (d + 2) .cell ::
          (c.render (d + 2) ++ (cs.render (d + 2) ++ (rs.render (d + 2) ++ mkT d (.end_ .array ty) :: tl))))).map
      (fun p => (applyBordersTable spec (rowsOf p.1), p.2))
      = some (specTable spec (writtenRows (d + 2) c cs rs), tl) := by
  rw [table_roundtrip d ty c cs rs tl f hwf hf]
  have h := rowsOf_table d ty c cs rs
  simp only [Block.node] at h
  simp only [Option.map_some, h, table_rules_adjacent]

/-- non-vacuity: `a & \multicolumn{1}{c|}{b} \\ \hline` -/
example :
    let c := Blocks.cons (.leaf (.text 97)) .nil
    let cs := Cells.cons (.cons (.leaf (.mcol 1 ⟨2, false, true⟩ 98)) .nil) .nil
    let rs := Rows.cons (.cons (.leaf .hline) .nil) .nil .nil
    ((specTable [⟨1, false, false⟩, ⟨1, false, false⟩] (writtenRows 4 c cs rs)).map fun r =>
      r.map fun x => (x.span, x.marks.bottom, x.style.align, x.style.br)) = [[(1, true, 1, false), (1, true, 2, true)]] := by
  decide

/-- Formatting set in one cell does not leak into the next: a declaration (`\bfseries`, an
    environment token without end) written in a cell holds exactly what follows it in that cell
    and stops at the `&` or `\\` (whose context depth is lower), which stays on the stream. -/
theorem cell_format_isolated (D ty : Nat) (bs : Blocks) (stop : Node) (rest : Stream) (hwf : bs.wf = true)
    (hk : stop.kind = .amp ∨ stop.kind = .endrow) (hd : stop.depth ≤ D) (f : Nat) (hf : bs.cost + 3 ≤ f) :
    digestNode f (mkT (D + 1) (.begin_ .env ty)) (bs.render (D + 1) ++ stop :: rest)
      = some (.mk ⟨D + 1, .begin_ .env ty⟩ (bs.nodes (D + 1)), stop :: rest) :=
  decl_digest D ty bs stop rest hwf hk hd f hf

example : digestNode 9 (mkT 5 (.begin_ .env 5)) [mkT 5 (.text 97), mkT 4 .amp, mkT 4 .cell, mkT 4 (.text 98)]
    = some (.mk ⟨5, .begin_ .env 5⟩ [mkT 5 (.text 97)], [mkT 4 .amp, mkT 4 .cell, mkT 4 (.text 98)]) := by
  exact cell_format_isolated 4 5 (.cons (.leaf (.text 97)) .nil) (mkT 4 .amp) _ (by decide) (Or.inl rfl) (Nat.le_refl _) 9 (by decide)

/-- `Array.linkCells` (repaired): a spanning cell is linked to the declared columns it really covers —
    from its first column (the spans of the cells before it added up) to that plus its span minus one —
    and gets no link when the specification is too short. -/
theorem link_cells_endpoints (ncols : Nat) (cells : List CellR) :
    linkRow ncols 0 cells = linkSpec ncols 0 cells :=
  linkRow_eq ncols cells 0

/-- D32 witness, `\multicolumn{2}{c}{a} & \multicolumn{2}{c}{b}` under `{lcrp{1cm}}`: the pinned code links the
    second cell to columns 1..2 (its index in the row), the repaired code and the Spec to columns 2..3. -/
theorem link_cells_asIs_counterexample :
    let row : List CellR := [⟨some 2, none, [], {}, ⟨0, false, false⟩⟩, ⟨some 2, none, [], {}, ⟨0, false, false⟩⟩]
    linkRowAsIs 4 0 row = [some (0, 1), some (1, 2)] ∧ linkRow 4 0 row = [some (0, 1), some (2, 3)] ∧
    linkSpec 4 0 row = [some (0, 1), some (2, 3)] := by
  decide

/-- `numCols`: when every row's spans sum to at most `n` and one row is full, the table has `n` columns. -/
theorem full_row_spans_sum (rows : List RowR) (n : Nat)
    (hle : ∀ r ∈ rows, (r.map CellR.span).sum ≤ n) (hfull : ∃ r ∈ rows, (r.map CellR.span).sum = n) :
    numCols rows = n := by
  have key : ∀ (l : List Nat) (a : Nat), (∀ x ∈ l, x ≤ n) → a ≤ n → (a = n ∨ ∃ x ∈ l, x = n) → l.foldl max a = n := by
    intro l
    induction l with
    | nil => intro a _ _ h; rcases h with h | ⟨x, hx, _⟩; exact h; simp at hx
    | cons y ys ih =>
      intro a hl ha h
      have hy : y ≤ n := hl y (by simp)
      apply ih (max a y) (fun x hx => hl x (by simp [hx])) (by omega)
      rcases h with h | ⟨x, hx, hxn⟩
      · left; omega
      · rcases List.mem_cons.mp hx with rfl | hx
        · left; omega
        · right; exact ⟨x, hx, hxn⟩
  unfold numCols
  apply key _ 0 (by simpa using hle) (Nat.zero_le _)
  right
  obtain ⟨r, hr, hrn⟩ := hfull
  exact ⟨_, List.mem_map.mpr ⟨r, hr, rfl⟩, hrn⟩

example : numCols [[⟨none, none, [], {}, ⟨0, false, false⟩⟩, ⟨some 2, none, [], {}, ⟨0, false, false⟩⟩],
                   [⟨none, none, [], {}, ⟨0, false, false⟩⟩]] = 3 := by decide

/-- `\hline` (a rule without span) marks every cell of the row it is applied to, and changes nothing else. -/
theorem hline_marks_row (loc : Loc) (cells : List CellR) (col : Nat) :
    walk none loc col cells = cells.map (·.mark loc) :=
  walk_none loc cells col

/-- `\cline{a-b}` marks exactly the cells whose first column lies in `a..b`, counting columns
    by the spans of the cells before (repaired code). -/
theorem cline_marks_exactly (a b : Nat) (loc : Loc) (cells : List CellR) (col : Nat) :
    walk (some (a, b)) loc col cells = markRow (some (a, b)) loc col cells :=
  walk_eq_markRow _ loc cells col

/-- D7 witness, `\cline{3-3}` under `\multicolumn{2}{c}{a} & b`: the pinned code misses column 3,
    the repaired code marks it (kernel-checked). -/
theorem cline_asIs_counterexample :
    let row : List CellR := [⟨some 2, none, [], {}, ⟨0, false, false⟩⟩, ⟨none, none, [], {}, ⟨0, false, false⟩⟩]
    (walkAsIs (some (3, 3)) .top 1 row).map (·.marks.top) = [false, false] ∧
    (walk (some (3, 3)) .top 1 row).map (·.marks.top) = [false, true] ∧
    (markRow (some (3, 3)) .top 1 row).map (·.marks.top) = [false, true] := by
  decide

/-- The column specification gives every cell exactly the styles of the declared columns it
    covers (its own `\multicolumn` specification instead, if it has one): vertical bars mark the
    borders of the adjacent cells only. -/
theorem vbar_marks_columns (sp : List ColStyle) (cells : List CellR) :
    styleRow sp cells =
      List.zipWith (fun (c : CellR) s => styleCell ((sp.drop s).take c.span) c) cells
        (colStarts 0 (cells.map CellR.span)) := by
  simpa using styleRow_eq sp cells 0

example : (styleRow [⟨1, true, true⟩, ⟨2, false, false⟩, ⟨3, false, true⟩]
    [⟨some 2, some ⟨2, false, false⟩, [], {}, ⟨0, false, false⟩⟩, ⟨none, none, [], {}, ⟨0, false, false⟩⟩]).map (·.style)
    = [⟨2, false, false⟩, ⟨3, false, true⟩] := by decide

/-- `compileColspec` on the spelling of any well-formed specification tree returns exactly the
    declared columns with their bars (`*{n}{..}` repeated n times, `p{..}`, `@{..}`, `>{..}` consume
    their arguments), for every fuel from the exact step count on. -/
theorem colspec_compile (s : CSpec) (hwf : s.wf = true) (f : Nat) :
    compileColspec (f + s.cost + 1) s.render =
      match s.columns with
      | some cols => .ok cols
      | none => .error .indexError :=
  colspec_ok s hwf f

/-- the number of columns is the declared count -/
theorem colspec_count (s : CSpec) (hwf : s.wf = true) (cols : List ColStyle) (h : s.columns = some cols) :
    cols.length = s.count :=
  columns_length s hwf cols h

example :
    let s := CSpec.cons (.at_ []) (.cons (.col 108) (.cons .bar (.cons (.star [50] (.cons (.col 99) (.cons .bar .nil))) (.cons (.pcol 112 [50, 99, 109]) .nil))))
    s.wf = true ∧ s.count = 4 ∧
    compileColspec 20 s.render = .ok [⟨1, false, true⟩, ⟨2, false, true⟩, ⟨2, false, true⟩, ⟨1, false, false⟩] := by
  intro s
  exact ⟨by decide, by decide, by rfl⟩

/-- D15 witness, `@{}l|c`: the pinned code turns the braces of a leading `@{}` into two columns. -/
theorem colspec_asIs_counterexample :
    (match compileColspecAsIs 20 [.ch 64, .bg, .eg, .ch 108, .ch 124, .ch 99] with
      | .ok cols => cols.length | .error _ => 0) = 4 ∧
    (match compileColspec 20 [.ch 64, .bg, .eg, .ch 108, .ch 124, .ch 99] with
      | .ok cols => cols.length | .error _ => 0) = 2 := by
  decide


/-! ### list nesting depth, item counters and positions (`List.invoke`, `List.item.invoke/postArgument`) -/

section numbering
open PlasVerif.Model.ListNumbering PlasVerif.Spec.ListNumbers PlasVerif.Proofs.ListNumbers

/-- on the table regenerated from the live context every list counter is reset (if at all) by an
    EARLIER list counter — all the numbering theorems need about `Counter.resetby` — and there are four -/
theorem enum_resets_downward :
    Downward PlasVerif.Generated.ListCounters.resetBy ∧ nCounters = 4 := by
  constructor
  · show downward _ = true
    decide
  · decide

/-- Every item of every list of a forest nested at most four deep (any mix of labelled and
    unlabelled items, any number of lists and items) is numbered by the counter of its nesting
    level and gets as position its 1-based rank among the unlabelled items of its own list —
    nested lists in earlier items do not disturb it; a labelled item does not count. -/
theorem item_positions (lists : LLists) (hfit : lists.fits 0 = true) :
    (run lists.events fresh).1 = lists.expect 0 := by
  obtain ⟨s1, _, h⟩ := lists_run enum_resets_downward.1 lists 0 _ fresh (by omega) hfit fresh_at
  have := h []
  simpa [run] using congrArg Prod.fst this

/-- …and after the forest the nesting depth is back to 0 and every list counter is 0 again: the next
    list (or the next document processed with the same state) starts from scratch.  More generally,
    from any state between lists at level `d` the state returns to level `d` with the counters below
    `d` untouched. -/
theorem list_state_restored (lists : LLists) (d : Nat) (base : Nat → Nat) (s : PlasVerif.Model.ListNumbering.St) (hd : d ≤ 4)
    (hfit : lists.fits d = true) (h : At d base s) :
    At d base (run lists.events s).2 ∧ (run lists.events s).1 = lists.expect d := by
  obtain ⟨s1, hs1, hr⟩ := lists_run enum_resets_downward.1 lists d base s hd hfit h
  have := hr []
  simp only [List.append_nil, run] at this
  rw [this]
  exact ⟨hs1, by simp⟩

/-- non-vacuity: `enumerate[ a, [T] b, c {itemize[ d, e ]}, f ]  itemize[ g ]` -/
example :
    let inner := LItems.cons false .nil (.cons false .nil .nil)
    let outer := LItems.cons false .nil (.cons true .nil (.cons false (.cons inner .nil) (.cons false .nil .nil)))
    let forest := LLists.cons outer (.cons (.cons false .nil .nil) .nil)
    forest.fits 0 = true ∧
    (run forest.events fresh).1 = [⟨0, 1⟩, ⟨4, 2⟩, ⟨0, 2⟩, ⟨1, 1⟩, ⟨1, 2⟩, ⟨0, 3⟩, ⟨0, 1⟩] := by
  intro inner outer forest
  exact ⟨by decide, by rw [item_positions forest (by decide)]; decide⟩

example : (run (LLists.cons (.cons false .nil .nil) .nil).events fresh).2.depth = 0 :=
  (list_state_restored (LLists.cons (.cons false .nil .nil) .nil) 0 _ fresh (by omega) (by decide) fresh_at).1.depth

/-- Observation (outside the four levels LaTeX provides, hence outside `fits`): the items of a fifth
    nesting level fall into the caught `IndexError`, keep the class defaults (`enumi`, position 0) and
    step the OUTERMOST counter, so the outer list's next item is numbered 3 instead of 2 (kernel-checked on the
    model; LaTeX itself stops with "Too deeply nested"). -/
theorem fifth_level_asIs_witness :
    (run [.begin_, .item false, .begin_, .begin_, .begin_, .begin_, .item false, .end_, .end_, .end_, .end_,
          .item false, .end_] fresh).1 = [⟨0, 1⟩, ⟨0, 0⟩, ⟨0, 3⟩] := by
  decide

end numbering

end PlasVerif.Properties.C10
