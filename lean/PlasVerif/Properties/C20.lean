import PlasVerif.Proofs.Persist
/-!
# C20 — Cross-document label data survives a round trip and never blocks processing

Property theorems only; helper lemmas are in `Proofs/Persist.lean`.  Everything is stated for an
arbitrary codec `c` (the byte format of `pickle` is a parameter); the only law ever assumed is
`c.Lawful : ∀ v, c.dec (c.enc v) = some v`, and only where a file that was *written* is read back.
The previous content of the file is universally quantified everywhere: missing, empty,
truncated at any byte, bit-flipped, foreign — any `File β` whatsoever, decodable or not, of any shape.
-/
namespace PlasVerif.Properties.C20
open PlasVerif.Model.Persist PlasVerif.Generated.Persist PlasVerif.Spec.LabelStore PlasVerif.Proofs.Persist

variable {β : Type}

/-- The regenerated tables (`refAttributes`, `remap`, setters, read-only names) allow the round trip:
    no duplicate attribute, distinct storage slots, none of them read-only; and number, title and
    target are among the persisted attributes and land where a later run reads them. -/
theorem tables_ok : TablesOk ∧ "ref" ∈ refAttributes ∧ "title" ∈ refAttributes ∧ "url" ∈ refAttributes ∧
    slotOf (.str "ref") = "ref" ∧ slotOf (.str "title") = "@title" ∧ slotOf (.str "url") = "urloverride" := by
  refine ⟨⟨by decide, by decide, by decide⟩, by decide, by decide, by decide, by decide, by decide, by decide⟩

/-- **restore never raises**, whatever the file holds; labels already known are kept, and every label
    present afterwards was known before or is an entry of the file's section that restored cleanly
    (at worst labels are absent, never invented). -/
theorem restore_total (c : Codec β) (r : String) (f : File β) (L : Labels) :
    ∃ L', restore c r f L = .ok L' ∧ (∀ k ∈ keys L, k ∈ keys L') ∧
      (∀ k n, aget k L' = some n → aget k L = some n ∨ ∃ data v, oldSection c r f = some (.dict data) ∧
          (k, v) ∈ toDict data ∧ restoreEntry v = .ok n) := by
  refine ⟨_, restore_eq c r f L, ?_, ?_⟩
  · intro k hk
    unfold restoreFrom
    split
    · exact restoreLoop_mono _ _ _ hk
    · exact hk
  · intro k n h
    unfold restoreFrom at h
    split at h
    · next data hsec =>
      rcases restoreLoop_origin _ _ _ _ h with h' | ⟨v, hv, hr⟩
      · exact Or.inl h'
      · exact Or.inr ⟨data, v, hsec, hv, hr⟩
    · exact Or.inl h

/-- a file that is missing, undecodable (empty, truncated, …) or not a dictionary with a section for `r`
    leaves the labels exactly as they were -/
theorem restore_unreadable_is_noop (c : Codec β) (r : String) (f : File β) (L : Labels)
    (h : oldSection c r f = none) : restore c r f L = .ok L := by
  rw [restore_eq, h]; rfl

/-- non-vacuity: a section holding a well-formed entry after a garbage one still yields the good label -/
example : restore ⟨some, id⟩ "HTML5"
    (.bytes (some (.dict [(.str "HTML5", .dict [(.str "x", .int 5), (.str "a", .dict [(.str "ref", .str "1")])])]))) []
    = .ok [(.str "a", [("ref", .str "1")])] := by rfl

/-- **persist never raises**, whatever the previous file holds (repaired code, D10). -/
theorem persist_total (c : Codec β) (r : String) (src : Src) (f : File β) :
    ∃ b, persist c r src f = .ok (.bytes b) := ⟨_, persist_eq c r src f⟩

/-- the pinned code raises `TypeError` when the old file is `{'HTML5': 5}` (D10): kernel-checked witness -/
theorem persistAsIs_counterexample :
    persistAsIs (β := Option Val) ⟨some, id⟩ "HTML5" [("a", [("ref", .node "1")])]
      (.bytes (some (.dict [(.str "HTML5", .int 5)]))) = .error .typeError := by rfl

/-- non-vacuity of `persist_total` on the same input -/
example : persist (β := Option Val) ⟨some, id⟩ "HTML5" [("a", [("ref", .node "1")])]
      (.bytes (some (.dict [(.str "HTML5", .int 5)]))) =
    .ok (.bytes (some (.dict [(.str "HTML5", .dict [(.str "a", .dict [(.str "ref", .str "1")])])]))) := by rfl

/-- **the next save produces a complete, loadable file**: whatever the previous file, the new one decodes to a
    dictionary (with distinct keys) whose section for `r` is a dictionary that holds, for every current label,
    exactly what `Macro.persist` returned for its node. -/
theorem persist_then_loadable (c : Codec β) (hc : c.Lawful) (r : String) (src : Src) (f : File β)
    (hsrc : (keys src).Nodup) :
    ∃ b d sec, persist c r src f = .ok (.bytes b) ∧ c.dec b = some (.dict d) ∧ (keys d).Nodup ∧
      aget (.str r) d = some (.dict sec) ∧ (keys sec).Nodup ∧
      ∀ k n, (k, n) ∈ src → aget (.str k) sec = some (.dict (macroPersist n)) :=
  ⟨_, _, _, persist_eq c r src f, hc _, newDict_nodup c r src f, newDict_self c r src f,
    persistLoop_nodup _ _ (toDict_nodup _), fun k n h => persistLoop_get _ _ hsrc k n h⟩

/-- what a run under renderer `r` reads back from the file the previous `persist` wrote -/
theorem restore_persist (c : Codec β) (hc : c.Lawful) (r : String) (src : Src) (f : File β) (L : Labels) :
    ∃ f', persist c r src f = .ok f' ∧
      restore c r f' L = .ok (restoreLoop (persistLoop src (toDict (oldData c r f))) L) := by
  refine ⟨_, persist_eq c r src f, ?_⟩
  rw [restore_eq, oldSection_enc c hc r _ (newDict_nodup c r src f), newDict_self]
  simp only [restoreFrom]
  rw [toDict_eq_self (persistLoop_nodup _ _ (toDict_nodup _))]

/-- **round trip, whatever was in the file before**: after `persist`, a later `restore` under the same
    renderer binds every label of the run to the node rebuilt from its persisted attributes. -/
theorem roundtrip (c : Codec β) (hc : c.Lawful) (r : String) (src : Src) (f : File β) (L : Labels)
    (hsrc : SrcWF src) :
    ∃ f' L', persist c r src f = .ok f' ∧ restore c r f' L = .ok L' ∧ RestoredAll L' src := by
  obtain ⟨f', hp, hr⟩ := restore_persist c hc r src f L
  refine ⟨f', _, hp, hr, ?_⟩
  intro k n hmem
  refine ⟨_, ?_, restoreEntry_macroPersist tables_ok.1 n (hsrc.2 (k, n) hmem)⟩
  exact restoreLoop_get _ _ (persistLoop_nodup _ _ (toDict_nodup _)) _ _ _
    (persistLoop_get _ _ hsrc.1 k n hmem) (restoreEntry_macroPersist tables_ok.1 n (hsrc.2 (k, n) hmem))

/-- each persisted attribute value (any shape) is found again on the restored node, under the `vars()` key the
    class stores it (`slotOf`); an attribute that was `None` is absent -/
theorem restored_attributes (n : SrcNode) (hok : SrcOk n) :
    ∃ node, restoreEntry (.dict (macroPersist n)) = .ok node ∧
      ∀ name ∈ refAttributes, aget (slotOf (.str name)) node = persistVal (getattrSrc n name) := by
  refine ⟨_, restoreEntry_macroPersist tables_ok.1 n hok, ?_⟩
  intro name hname
  cases hv : persistVal (getattrSrc n name) with
  | none => exact restored_absent tables_ok.1 n name hname hv
  | some v => exact restored_attr tables_ok.1 n name hname v hv

/-- **same set**: from a missing or unreadable file (or one without a section for `r`), a fresh run restores
    exactly the saved labels, in order -/
theorem roundtrip_same_set (c : Codec β) (hc : c.Lawful) (r : String) (src : Src) (f : File β)
    (hsrc : SrcWF src) (hf : oldSection c r f = none) :
    ∃ f' L', persist c r src f = .ok f' ∧ restore c r f' [] = .ok L' ∧
      keys L' = src.map (fun kn => Key.str kn.1) := by
  obtain ⟨f', hp, hr⟩ := restore_persist c hc r src f []
  refine ⟨f', _, hp, hr, ?_⟩
  have hnd : (src.map (fun kn => Key.str kn.1)).Nodup := by
    have := nodup_map_of_inj Key.str (fun a b e => by cases e; rfl) _ hsrc.1
    simpa [keys, List.map_map, Function.comp_def] using this
  have hk : ∀ l : List (String × SrcNode),
      keys (l.map (fun kn => (Key.str kn.1, Val.dict (macroPersist kn.2)))) = l.map (fun kn => Key.str kn.1) := by
    intro l; simp [keys, List.map_map, Function.comp_def]
  rw [oldData_of_unreadable c r f hf]
  have : toDict ([] : List (Key × Val)) = [] := rfl
  rw [this, persistLoop_fresh src [] (by simpa using hnd)]
  simp only [List.nil_append]
  rw [restoreLoop_keys, hk]
  · simp
  · rw [hk]; simpa using hnd
  · intro kv hkv
    obtain ⟨kn, hkn, rfl⟩ := List.mem_map.1 hkv
    exact ⟨_, restoreEntry_macroPersist tables_ok.1 kn.2 (hsrc.2 kn hkn)⟩

/-- **separately per renderer**: saving under `r₁` changes nothing a run under another renderer `r₂` reads —
    for every previous file (readable or not). -/
theorem per_renderer_separation (c : Codec β) (hc : c.Lawful) (r₁ r₂ : String) (h : r₂ ≠ r₁) (src : Src)
    (f : File β) (L : Labels) :
    ∃ f', persist c r₁ src f = .ok f' ∧ restore c r₂ f' L = restore c r₂ f L := by
  refine ⟨_, persist_eq c r₁ src f, ?_⟩
  rw [restore_eq, restore_eq, oldSection_enc c hc r₂ _ (newDict_nodup c r₁ src f), newDict_other c r₁ r₂ src f h]

/-- **histories never fail**: any sequence of saves (any renderers, any label sets) and arbitrary damage to the
    file between them runs to the end. -/
theorem history_total (c : Codec β) (ops : List (Op β)) (f : File β) : ∃ f', run c ops f = .ok f' := by
  induction ops generalizing f with
  | nil => exact ⟨f, rfl⟩
  | cons op ops ih =>
    cases op with
    | save r src =>
      obtain ⟨b, hb⟩ := persist_total c r src f
      simp only [run, step, hb]; exact ih _
    | clobber f1 => simp only [run, step]; exact ih _

/-- **save / corrupt / restore / save across renderers**: after *any* history `h₀` (including arbitrary damage),
    a save under `r`, and then any number of saves under other renderers, a run under `r` restores every
    label of that save. -/
theorem history_roundtrip (c : Codec β) (hc : c.Lawful) (h₀ h₁ : List (Op β)) (r : String) (src : Src)
    (f : File β) (L : Labels) (hsrc : SrcWF src)
    (hother : ∀ op ∈ h₁, ∃ r' s, op = Op.save r' s ∧ r' ≠ r) :
    ∃ f' L', run c (h₀ ++ Op.save r src :: h₁) f = .ok f' ∧ restore c r f' L = .ok L' ∧ RestoredAll L' src := by
  obtain ⟨f0, h0⟩ := history_total c h₀ f
  obtain ⟨f1, L1, hp, hr, hall⟩ := roundtrip c hc r src f0 L hsrc
  have key : ∀ (h : List (Op β)) (g : File β), (∀ op ∈ h, ∃ r' s, op = Op.save r' s ∧ r' ≠ r) →
      ∃ g', run c h g = .ok g' ∧ restore c r g' L = restore c r g L := by
    intro h
    induction h with
    | nil => intro g _; exact ⟨g, rfl, rfl⟩
    | cons op ops ih =>
      intro g hh
      obtain ⟨r', s, rfl, hne⟩ := hh op List.mem_cons_self
      obtain ⟨g1, hg1, hsep⟩ := per_renderer_separation c hc r' r (Ne.symm hne) s g L
      obtain ⟨g2, hg2, hres⟩ := ih g1 (fun op hop => hh op (List.mem_cons_of_mem _ hop))
      exact ⟨g2, by simp only [run, step, hg1]; exact hg2, by rw [hres, hsep]⟩
  obtain ⟨f2, h2, hres⟩ := key h₁ f1 hother
  refine ⟨f2, L1, ?_, by rw [hres]; exact hr, hall⟩
  rw [run_append, h0]
  simp only [run, step, hp]
  exact h2

/-- **truncation at any byte** (bytes as a list): whatever prefix of a previously saved file is left behind by an
    interrupted write, reading it does not fail and the next save/restore cycle is complete again. -/
theorem truncation_harmless (c : Codec (List Nat)) (hc : c.Lawful) (v : Val) (cut : Nat) (r : String)
    (src : Src) (L : Labels) (hsrc : SrcWF src) :
    (∃ L', restore c r (.bytes ((c.enc v).take cut)) L = .ok L') ∧
    ∃ f' L', persist c r src (.bytes ((c.enc v).take cut)) = .ok f' ∧ restore c r f' L = .ok L' ∧ RestoredAll L' src :=
  ⟨⟨_, restore_eq c r _ L⟩, roundtrip c hc r src _ L hsrc⟩

/-! ### the statement in the property's own vocabulary (number, title, target) -/

theorem render_wf (Ls : LabelSet) (h : Ls.WF) : SrcWF (render Ls) := by
  constructor
  · have : keys (render Ls) = Ls.map (·.1) := by simp [keys, render, List.map_map, Function.comp_def]
    rw [this]; exact h.2
  · intro kn hkn
    obtain ⟨li, hli, rfl⟩ := List.mem_map.1 hkn
    obtain ⟨l, i⟩ := li
    have hl : l ≠ "" := h.1 (l, i) hli
    obtain ⟨a, b, t⟩ := i
    cases a <;> cases b <;> cases t <;>
      simp [SrcOk, srcOkB, refAttributes, remapKey, remap, deleteOnFalsy, aget, renderNode, getattrSrc, persistVal,
        optNode, optStr, Val.truthy, hl]

/-- the node rebuilt from a rendered label shows its number, title and target -/
theorem shows_render (l : String) (i : Info) (node : Node) (hl : l ≠ "")
    (h : restoreEntry (.dict (macroPersist (renderNode l i))) = .ok node) : Shows node i := by
  have hok : SrcOk (renderNode l i) := (render_wf [(l, i)] ⟨by simpa using hl, by simp⟩).2 (l, renderNode l i) (by simp [render])
  obtain ⟨node', h', hattr⟩ := restored_attributes (renderNode l i) hok
  rw [h] at h'; cases h'
  obtain ⟨_, hr, ht, hu, sr, st, su⟩ := tables_ok
  have h1 := hattr "ref" hr
  have h2 := hattr "title" ht
  have h3 := hattr "url" hu
  rw [sr] at h1; rw [st] at h2; rw [su] at h3
  obtain ⟨a, b, t⟩ := i
  unfold Shows showsB
  rw [h1, h2, h3]
  cases a <;> cases b <;> cases t <;>
    simp [renderNode, getattrSrc, aget, persistVal, optNode, optStr, agrees]

/-- **the property's first sentence**: for every label set (distinct non-empty labels; any numbers, titles, targets),
    every renderer, every previous file content and every history before it, the labels saved at the end of one run
    are restored in another run with the same number, title and target location each. -/
theorem labels_survive (c : Codec β) (hc : c.Lawful) (h₀ h₁ : List (Op β)) (r : String) (Ls : LabelSet)
    (f : File β) (L : Labels) (hwf : Ls.WF)
    (hother : ∀ op ∈ h₁, ∃ r' s, op = Op.save r' s ∧ r' ≠ r) :
    ∃ f' L', run c (h₀ ++ Op.save r (render Ls) :: h₁) f = .ok f' ∧ restore c r f' L = .ok L' ∧ ShowsAll L' Ls := by
  obtain ⟨f', L', h1, h2, h3⟩ := history_roundtrip c hc h₀ h₁ r (render Ls) f L (render_wf Ls hwf) hother
  refine ⟨f', L', h1, h2, ?_⟩
  intro l i hli
  obtain ⟨node, hget, hnode⟩ := h3 l (renderNode l i) (List.mem_map.2 ⟨(l, i), hli, rfl⟩)
  exact ⟨node, hget, shows_render l i node (hwf.1 (l, i) hli) hnode⟩

/-- non-vacuity: two renderers, damage in between, concrete label set -/
example :
    let c : Codec (Option Val) := ⟨some, id⟩
    let Ls : LabelSet := [("sec:a", ⟨some "1.2", some "Intro", some "index.html#sec:a"⟩), ("eq:1", ⟨some "3", none, some "s.html#eq:1"⟩)]
    Ls.WF ∧
    (match run c [.save "XHTML" (render Ls), .clobber (.bytes none), .save "HTML5" (render Ls), .save "XHTML" []] .missing with
     | .ok f => (match restore c "HTML5" f [] with
                 | .ok L => L.map (fun kn => (kn.1, showsB kn.2 ((aget (keyStr kn.1) Ls).getD default))) = [(.str "sec:a", true), (.str "eq:1", true)]
                 | .error _ => False)
     | .error _ => False) := by
  refine ⟨by decide, by rfl⟩

/-- the pinned `restore` loses a well-formed label that follows a garbage entry of the same section (D14),
    so a file poisoned once stays unusable after every later save: kernel-checked witness -/
theorem restoreAsIs_counterexample :
    restoreAsIs (β := Option Val) ⟨some, id⟩ "HTML5"
      (.bytes (some (.dict [(.str "HTML5", .dict [(.str "x", .int 5), (.str "a", .dict [(.str "ref", .str "1")])])]))) []
    = .ok [] := by rfl

/-! ### the same set: nothing is invented -/

/-- **a save invents nothing**: every label in the section written for `r` is a label of this run or was an entry of
    that section in the previous file (so labels of other documents processed in the same process, of other
    renderers, or of anything else can never appear) -/
theorem persist_invents_nothing (c : Codec β) (hc : c.Lawful) (r : String) (src : Src) (f : File β) :
    ∃ b d sec, persist c r src f = .ok (.bytes b) ∧ c.dec b = some (.dict d) ∧ aget (.str r) d = some (.dict sec) ∧
      ∀ k ∈ keys sec, k ∈ keys (toDict (oldData c r f)) ∨ ∃ kn ∈ src, k = Key.str kn.1 :=
  ⟨_, _, _, persist_eq c r src f, hc _, newDict_self c r src f, fun k hk => mem_keys_persistLoop _ _ k hk⟩

/-- **save then restore invents nothing**: the labels a later run sees are those it already had, those of the saving
    run, and the entries the section held before — for every previous file -/
theorem roundtrip_invents_nothing (c : Codec β) (hc : c.Lawful) (r : String) (src : Src) (f : File β) (L : Labels) :
    ∃ f' L', persist c r src f = .ok f' ∧ restore c r f' L = .ok L' ∧
      ∀ k ∈ keys L', k ∈ keys L ∨ k ∈ keys (toDict (oldData c r f)) ∨ ∃ kn ∈ src, k = Key.str kn.1 := by
  obtain ⟨f', hp, hr⟩ := restore_persist c hc r src f L
  refine ⟨f', _, hp, hr, ?_⟩
  intro k hk
  obtain ⟨n, hn⟩ := Option.isSome_iff_exists.1 ((aget_isSome_iff k _).2 hk)
  rcases restoreLoop_origin _ _ _ _ hn with h | ⟨v, hv, _⟩
  · exact Or.inl ((aget_isSome_iff k L).1 (by simp [h]))
  · exact Or.inr (mem_keys_persistLoop _ _ k (List.mem_map.2 ⟨(k, v), hv, rfl⟩))

/-! ### the second reader: the xr package (`\externaldocument`) -/

/-- xr never fails (it is total by construction: `xrLoad` returns the labels) and a file that is missing, undecodable
    or not a dictionary leaves the labels exactly as they were -/
theorem xr_unreadable_is_noop (c : Codec β) (pfx : String) (url : Option String) (f : File β) (L : XLabels)
    (h : f = .missing ∨ ∃ b, f = .bytes b ∧ ∀ kvs, c.dec b ≠ some (.dict kvs)) : xrLoad c pfx url f L = L := by
  rcases h with rfl | ⟨b, rfl, hb⟩
  · rfl
  · show (match c.dec b with
      | some (.dict kvs) => xrBlocks pfx url (toDict kvs) L
      | _ => L) = L
    split
    · next kvs hd => exact absurd hd (hb kvs)
    · rfl

/-- **round trip through xr, per renderer, whatever was in the file before** (the variant `xrLoadR` that reads the
    section of the renderer in use): every label of the run is found under `prefix + label` with exactly the saved record -/
theorem xrR_roundtrip (c : Codec β) (hc : c.Lawful) (r pfx : String) (src : Src) (f : File β) (L : XLabels)
    (hsrc : (keys src).Nodup) :
    ∃ f', persist c r src f = .ok f' ∧ ∀ k n, (k, n) ∈ src →
      aget (.str (pfx ++ k)) (xrLoadR c r pfx none f' L) = some (.dict (macroPersist n)) := by
  refine ⟨_, persist_eq c r src f, ?_⟩
  intro k n hmem
  rw [xrLoadR_persist c hc]
  exact xrBlock_get _ _ _ _ (persistLoop_nodup _ _ (toDict_nodup _)) k _ _
    (persistLoop_get _ _ hsrc k n hmem) (xrEntry_saved tables_ok.1 pfx k n)

/-- …and that reader invents nothing -/
theorem xrR_invents_nothing (c : Codec β) (hc : c.Lawful) (r pfx : String) (url : Option String) (src : Src)
    (f : File β) (L : XLabels) :
    ∃ f', persist c r src f = .ok f' ∧ ∀ k ∈ keys (xrLoadR c r pfx url f' L),
      k ∈ keys L ∨ ∃ l, k = .str (pfx ++ l) ∧
        (Key.str l ∈ keys (toDict (oldData c r f)) ∨ ∃ kn ∈ src, l = kn.1) := by
  refine ⟨_, persist_eq c r src f, ?_⟩
  intro k hk
  rw [xrLoadR_persist c hc] at hk
  rcases xrBlock_origin _ _ _ _ _ hk with h | ⟨l, hl, e⟩
  · exact Or.inl h
  · refine Or.inr ⟨l, e, ?_⟩
    rcases mem_keys_persistLoop _ _ _ hl with h | ⟨kn, hkn, e'⟩
    · exact Or.inl h
    · exact Or.inr ⟨kn, hkn, Key.str.inj e'⟩

/-- The full statement for the code as it is (`xrLoad` walks the sections of *all* renderers): FALSE, see
    `xr_mixes_renderers_counterexample` (known finding `xr-mixes-renderers`); proved for `xrLoadR` above and, for the
    code as it is, when the file `persist` found held no readable dictionary (`xr_roundtrip_partial`). -/
def xr_roundtrip_statement : Prop :=
  ∀ (c : Codec (Option Val)) (_ : c.Lawful) (r pfx : String) (src : Src) (f : File (Option Val)) (L : XLabels),
    (keys src).Nodup → ∃ f', persist c r src f = .ok f' ∧ ∀ k n, (k, n) ∈ src →
      aget (.str (pfx ++ k)) (xrLoad c pfx none f' L) = some (.dict (macroPersist n))

/-- the code as it is: round trip through xr when the previous file was missing, undecodable or not a dictionary
    (what is missing for the full statement: files that hold a section of another renderer with the same label) -/
theorem xr_roundtrip_partial (c : Codec β) (hc : c.Lawful) (r pfx : String) (src : Src) (f : File β) (L : XLabels)
    (hsrc : (keys src).Nodup)
    (hf : f = .missing ∨ ∃ b, f = .bytes b ∧ ∀ kvs, c.dec b ≠ some (.dict kvs)) :
    ∃ f', persist c r src f = .ok f' ∧ ∀ k n, (k, n) ∈ src →
      aget (.str (pfx ++ k)) (xrLoad c pfx none f' L) = some (.dict (macroPersist n)) := by
  obtain ⟨f', hp, hR⟩ := xrR_roundtrip c hc r pfx src f L hsrc
  refine ⟨f', hp, ?_⟩
  have hfresh : loadOld c r f = freshDict r := by
    rcases hf with rfl | ⟨b, rfl, hb⟩
    · rfl
    · cases hd : c.dec b with
      | none => simp [loadOld, hd]
      | some v =>
        cases v with
        | dict kvs => exact absurd hd (hb kvs)
        | _ => simp [loadOld, hd]
  have hf' : f' = .bytes (c.enc (.dict (newDict c r src f))) := by
    have := persist_eq c r src f; rw [hp] at this; cases this; rfl
  have hnew : newDict c r src f = [(.str r, .dict (persistLoop src (toDict (oldData c r f))))] := by
    unfold newDict; rw [hfresh]; simp [freshDict, aset]
  have hsame : xrLoad c pfx none f' L = xrLoadR c r pfx none f' L := by
    rw [hf']
    simp only [xrLoad, xrLoadR, hc (.dict _), toDict_eq_self (newDict_nodup c r src f)]
    rw [hnew]; simp [xrBlocks, aget]
  intro k n hmem
  rw [hsame]; exact hR k n hmem

/-- the code as it is reads a label saved under two renderers from the later section: after saving `a ↦ 1` under
    HTML5 into a file that holds `a ↦ 9` under XHTML, xr yields `9` (kernel-checked witness of the known finding) -/
theorem xr_mixes_renderers_counterexample :
    (match persist (β := Option Val) ⟨some, id⟩ "HTML5" [("a", [("ref", .node "1")])]
        (.bytes (some (.dict [(.str "HTML5", .dict []), (.str "XHTML", .dict [(.str "a", .dict [(.str "ref", .str "9")])])]))) with
     | .ok f' => xrLoad ⟨some, id⟩ "" none f' []
     | .error _ => []) = [(.str "a", .dict [(.str "ref", .str "9")])] := by rfl

/-- non-vacuity of `xrR_roundtrip` on the same input: the per-renderer reader yields the saved record -/
example :
    (match persist (β := Option Val) ⟨some, id⟩ "HTML5" [("a", [("ref", .node "1")])]
        (.bytes (some (.dict [(.str "HTML5", .dict []), (.str "XHTML", .dict [(.str "a", .dict [(.str "ref", .str "9")])])]))) with
     | .ok f' => xrLoadR ⟨some, id⟩ "HTML5" "P-" none f' []
     | .error _ => []) = [(.str "P-a", .dict [(.str "ref", .str "1")])] := by rfl

/-! ### the saved target location is that of the render that saves it -/

/-- **separately per render**: what a node answers for its target in the `k`-th render of one document object is what
    it answers when that render is the only one — whatever renders (other renderers, other file settings) came before
    or come after -/
theorem target_is_of_this_render (ov : Option String) (id : String) (pre post : List RenderView) (v : RenderView) :
    (renderUrls ov id (pre ++ v :: post))[pre.length]? = some (nodeUrl ov id v) := by
  simp [renderUrls]

/-- without an override and without a base url the target is a file of this render — the node's own file, or the
    file of its nearest enclosing file-creating ancestor followed by `#id` -/
theorem target_names_a_file_of_this_render (id : String) (v : RenderView) (hb : v.base = "") :
    nodeUrl none id v = enclosingFile v.ancestors ++ "#" ++ id ∨ ∃ f, v.own = some f ∧ f ≠ "" ∧ nodeUrl none id v = f := by
  obtain ⟨base, own, anc⟩ := v
  simp only at hb; subst hb
  have h0 : ("".endsWith "/") = false := by decide
  cases own with
  | none => left; simp [nodeUrl, h0]
  | some f =>
    by_cases hf : f = ""
    · left; simp [nodeUrl, h0, hf]
    · right; exact ⟨f, rfl, hf, by simp [nodeUrl, h0, hf]⟩

/-- the enclosing file is one of the ancestors' files (or nothing at all when no ancestor creates a file) -/
theorem enclosingFile_mem (anc : List (Option String)) :
    enclosingFile anc = "" ∨ some (enclosingFile anc) ∈ anc := by
  induction anc with
  | nil => left; rfl
  | cons a r ih =>
    cases a with
    | some f => right; simp [enclosingFile]
    | none =>
      rcases ih with h | h
      · left; simpa [enclosingFile] using h
      · right; simp [enclosingFile, h]

/-- non-vacuity: HTML5 then Text, an equation inside `sec-a.html` / `sec-a.txt` -/
example : renderUrls none "eq:1" [⟨"", none, [none, some "sec-a.html", some "index.html"]⟩,
                                   ⟨"", some "", [none, some "sec-a.txt", some "index.txt"]⟩]
    = ["sec-a.html#eq:1", "sec-a.txt#eq:1"] := by
  have h0 : ("".endsWith "/") = false := by decide
  simp [renderUrls, nodeUrl, h0, enclosingFile]

/-! ### which files another run restores (`Compile.parse`) -/

/-- the loop over the working directory and the paux directories never fails, whatever the files hold -/
theorem parse_total (c : Codec β) (r job : String) (files : List (String × File β)) (L : Labels) :
    ∃ L', parseRestores c r job files L = .ok L' := ⟨_, parseRestores_eq c r job files L⟩

/-- **every other document's file is restored**: for every file met by the loop whose name is not the job's own —
    wherever it stands, whatever other files (also files of the same name in other directories) come before or after —
    every entry of its section for the renderer that restores cleanly is a label of the run -/
theorem parse_restores_every_other_file (c : Codec β) (r job : String) (files : List (String × File β)) (L : Labels)
    (name : String) (f : File β) (hmem : (name, f) ∈ files) (hne : name ≠ job)
    (data : List (Key × Val)) (hsec : oldSection c r f = some (.dict data))
    (k : Key) (v : Val) (n : Node) (hk : aget k (toDict data) = some v) (hv : restoreEntry v = .ok n) :
    ∃ L', parseRestores c r job files L = .ok L' ∧ k ∈ keys L' := by
  refine ⟨_, parseRestores_eq c r job files L, ?_⟩
  induction files generalizing L with
  | nil => simp at hmem
  | cons hd t ih =>
    obtain ⟨name1, f1⟩ := hd
    simp only [parseFold]
    rcases List.mem_cons.1 hmem with e | hm
    · cases e
      rw [if_neg hne]
      apply parseFold_mono
      rw [hsec]; simp only [restoreFrom]
      exact (aget_isSome_iff k _).1 (by rw [restoreLoop_get _ _ (toDict_nodup _) k v n hk hv]; rfl)
    · split
      · exact ih L hm
      · exact ih _ hm

/-- the job's own file is never read and nothing is invented: a label of the run was known before or is an entry of
    the section of a file that is not the job's own -/
theorem parse_invents_nothing (c : Codec β) (r job : String) (files : List (String × File β)) (L : Labels) :
    ∃ L', parseRestores c r job files L = .ok L' ∧ ∀ k ∈ keys L', k ∈ keys L ∨
      ∃ nf ∈ files, nf.1 ≠ job ∧ ∃ data, oldSection c r nf.2 = some (.dict data) ∧ k ∈ keys (toDict data) :=
  ⟨_, parseRestores_eq c r job files L, fun k hk => parseFold_origin c r job files L k hk⟩

/-- non-vacuity: two different `main.paux` in two directories and the job's own file -/
example : parseRestores (β := Option Val) ⟨some, id⟩ "HTML5" "report"
    [("report", .bytes (some (.dict [(.str "HTML5", .dict [(.str "own", .dict [])])]))),
     ("main", .bytes (some (.dict [(.str "HTML5", .dict [(.str "a", .dict [(.str "ref", .str "2")])])]))),
     ("main", .bytes (some (.dict [(.str "HTML5", .dict [(.str "b", .dict [(.str "ref", .str "3")])])])))] []
    = .ok [(.str "a", [("ref", .str "2")]), (.str "b", [("ref", .str "3")])] := by rfl

end PlasVerif.Properties.C20
