import PlasVerif.Proofs.IfThen
import PlasVerif.Proofs.IfThenNum
/-!
# C19 — ifthen tests evaluate as the boolean expression they spell

Property theorems only; helper lemmas are in `Proofs/IfThen.lean`.
-/
namespace PlasVerif.Properties.C19
open PlasVerif.Model.IfThen PlasVerif.Spec.BoolExpr PlasVerif.Proofs.IfThen

/-- The evaluator computes the denotation of every expression tree of the grammar
    (any depth, `\not` anywhere an operand may appear, `\and`/`\or` left to right,
    `\( \)` grouping), and never raises on one. -/
theorem shunting_yard_correct (e : Expr) : evaluate e.lin = .ok e.den := by
  simp [evaluate, toPostfix_expr, evalPostfix_expr, bind, Except.bind, pure, Except.pure, result]

/-- non-vacuity / concrete instance: `1<2 \and \not 3<2` is true -/
example : evaluate (Expr.and (.atom (.cmp 1 .lt 2)) (.neg (.cmp 3 .lt 2))).lin = .ok true := by rfl

/-- Redundant parentheses never change the value. -/
theorem redundant_parens_irrelevant (e : Expr) :
    evaluate (Atom.paren e).lin = evaluate e.lin := by
  have h1 := shunting_yard_correct (.atom (.paren e))
  have h2 := shunting_yard_correct e
  simp only [lin_atom, den_atom, den_paren] at h1
  rw [h1, h2]

/-- `\not` applied twice is the identity, wherever it stands. -/
theorem double_not (a : Atom) : evaluate (Atom.neg (.neg a)).lin = evaluate a.lin := by
  have h1 := shunting_yard_correct (.atom (.neg (.neg a)))
  have h2 := shunting_yard_correct (.atom a)
  simp only [lin_atom, den_atom, den_neg, Bool.not_not] at h1 h2
  rw [h1, h2]

/-- Exactly the then-branch when the value is true, exactly the else-branch otherwise. -/
theorem then_xor_else {α} (e : Expr) (t f : α) :
    (evaluate e.lin).map (choose · t f) = .ok (if e.den then t else f) := by
  simp [shunting_yard_correct, Except.map, choose]

/-- The pinned code before the D4 repair is wrong on `true \and \not false`
    (`IndexError: pop from empty list`): kernel-checked witness. -/
theorem asIs_counterexample :
    evaluateAsIs (Expr.and (.atom (.lit true)) (.neg (.lit false))).lin = .error .indexError := by
  rfl

/-- `\whiledo`: if the test first fails after exactly `n` body runs, the loop runs the body
    exactly `n` times (on the successive states) and stops, given enough fuel. -/
theorem whiledo_iterates_exactly {σ τ} (test : σ → Bool) (body : σ → σ × List τ) (n : Nat) :
    ∀ (s : σ) (acc : List τ) (fuel : Nat), n < fuel →
    (∀ k < n, test (iterate (fun x => (body x).1) k s) = true) →
    test (iterate (fun x => (body x).1) n s) = false →
    whiledo test body fuel s acc =
      some (iterate (fun x => (body x).1) n s,
            acc ++ (List.range n).flatMap (fun k => (body (iterate (fun x => (body x).1) k s)).2)) := by
  induction n with
  | zero =>
    intro s acc fuel hf _ hstop
    cases fuel with
    | zero => omega
    | succ fuel => simp [whiledo, iterate] at hstop ⊢; simp [hstop]
  | succ n ih =>
    intro s acc fuel hf hgo hstop
    cases fuel with
    | zero => omega
    | succ fuel =>
      have h0 : test s = true := by simpa [iterate] using hgo 0 (by omega)
      have := ih (body s).1 (acc ++ (body s).2) fuel (by omega)
        (fun k hk => by simpa [iterate] using hgo (k + 1) (by omega))
        (by simpa [iterate] using hstop)
      simp only [whiledo, h0, if_true]
      rw [this]
      simp [iterate, List.range_succ_eq_map, List.flatMap_cons, List.flatMap_map]

/-- non-vacuity: a counter loop `while s < 3: s += 1; emit s` runs 3 times -/
example : whiledo (fun s : Nat => decide (s < 3)) (fun s => (s + 1, [s])) 10 0 [] = some (3, [0, 1, 2]) := by
  decide

open PlasVerif.Spec.Numeral PlasVerif.Proofs.IfThenNum in
/-- An integer operand spelled as a TeX ⟨number⟩ — any number of `+`/`-` signs, each followed by any number of blanks, then
    a non-empty decimal digit string — is read as the integer it denotes: negated once per minus sign.
    (`readSigned` is `ifthenelse.evaluate`'s operand collection + `TeX.readInteger`; stream `num` ties it to the code.
    Before the `fix:` commit for D54 the real code ended the operand at the first blank.) -/
theorem signed_operand_value (signs : List Sign) (d : Nat) (ds : List Nat) (h : ∀ x ∈ d :: ds, x < 10) :
    readSigned (spell signs (d :: ds)) = some (denote signs (d :: ds)) := by
  have hd : d < 10 := h d (by simp)
  have hr := readDigits_map 0 (d :: ds) h
  simp only [List.map_cons] at hr
  simp only [readSigned, spell, readSigns_spell, List.map_cons, readSigns_digit _ hd, digitChar_isDigit hd, if_true, hr,
    denote, decimalValue, Int.one_mul]

open PlasVerif.Spec.Numeral in
/-- non-vacuity: `- +  -12` denotes 12 and is read as 12; `-7` as -7 -/
example : readSigned (spell [⟨true, 1⟩, ⟨false, 2⟩, ⟨true, 0⟩] [1, 2]) = some 12
    ∧ spell [⟨true, 1⟩, ⟨false, 2⟩, ⟨true, 0⟩] [1, 2] = "- +  -12".toList
    ∧ readSigned "-7".toList = some (-7) := by decide

end PlasVerif.Properties.C19
