import PlasVerif.Proofs.Verbatim
import PlasVerif.Proofs.MathSource
/-!
# C11 — Verbatim text and mathematics pass through character-for-character

Property theorems only (helpers: `Proofs/Verbatim.lean`, `Proofs/MathSource.lean`).

Verbatim: `verbatimEnv` / `verbCmd` run the C01 tokenizer model under the verbatim table, which
delivers one token per character (`C01.verbatim_identity`, used through `tokenize_verbatim`); the
theorems below therefore speak about *characters*: the node's content is exactly the body, and the
unread input is exactly what follows the end marker.  That the category codes are the ordinary
ones again for that rest is C04 (`catcode_local`, `group_restores`) and the `vdoc`/`verbdoc` streams.

Mathematics: `src (top k f)` is the reconstructed source of the formula node for formula `f`
(`Macro.source` and friends over the tree the parser builds, `Model/MathParse.lean`); `tokenize
defaultCats` is the C01 tokenizer model; `toks f` the author's tokens (user macros expanded).
-/
namespace PlasVerif.Properties.C11
open PlasVerif.Model.Catcodes PlasVerif.Model.Tokenizer PlasVerif.Generated.Catcodes
open PlasVerif.Model.Verbatim PlasVerif.Model.MathSource PlasVerif.Model.MathParse
open PlasVerif.Spec.MathFormula PlasVerif.Proofs.Verbatim PlasVerif.Proofs.MathSource

/-! ## verbatim environments -/

/-- For every way of invoking the environment (`\begin{name}` or `\name`), every escape / group characters,
    every name, every body and every continuation: if the end marker's first occurrence in `body ++ marker`
    is the final one (partial markers inside the body are harmless), the scan returns exactly the body,
    reports the marker as found, and reading resumes exactly after the marker. -/
theorem verbatim_scan_exact (begun : Bool) (esc bg eg : Nat) (name body rest : List Nat)
    (h : FirstIsFinal (patterns begun esc bg eg name).1 body) :
    verbatimEnv begun esc bg eg name (body ++ (patterns begun esc bg eg name).1 ++ rest)
      = { content := body, closed := true, resume := rest } := by
  have hp : patterns begun esc bg eg name = ((patterns begun esc bg eg name).1, (patterns begun esc bg eg name).1) := by
    cases begun <;> rfl
  have hne : (patterns begun esc bg eg name).1 ≠ [] := by
    cases begun <;> simp [patterns, endPattern, endPattern2]
  unfold verbatimEnv
  rw [hp]
  exact verbatimEnvWith_exact _ body rest hne h

/-- non-vacuity: a body full of partial end markers, a backslash, braces, `%`, `^^M`, blanks and a line break -/
example : FirstIsFinal (patterns true 92 123 125 [118]).1
    [92, 101, 110, 100, 123, 118, 92, 101, 110, 100, 37, 32, 32, 94, 94, 77, 10, 92, 101, 110, 100, 123] := by decide

example : verbatimEnv true 92 123 125 [118] ([92, 101, 110, 100, 123, 118, 37, 10] ++ [92, 101, 110, 100, 123, 118, 125] ++ [32, 120])
    = { content := [92, 101, 110, 100, 123, 118, 37, 10], closed := true, resume := [32, 120] } := by decide +kernel

/-- The other marker is ordinary content (the defect D15 of the pinned code, kernel-checked on its witness):
    `\begin{v}a\endv b\end{v}` — the pinned scan stopped at `\endv`, the repaired one returns the whole body. -/
theorem verbatim_asIs_counterexample :
    verbatimEnvAsIs true 92 123 125 [118] ([97, 92, 101, 110, 100, 118, 98] ++ [92, 101, 110, 100, 123, 118, 125] ++ [120])
      ≠ { content := [97, 92, 101, 110, 100, 118, 98], closed := true, resume := [120] } ∧
    verbatimEnv true 92 123 125 [118] ([97, 92, 101, 110, 100, 118, 98] ++ [92, 101, 110, 100, 123, 118, 125] ++ [120])
      = { content := [97, 92, 101, 110, 100, 118, 98], closed := true, resume := [120] } := by
  constructor <;> decide +kernel

/-- An input without the end marker is swallowed whole and reported as not closed (nothing is lost, nothing invented). -/
theorem verbatim_unterminated (begun : Bool) (esc bg eg : Nat) (name input : List Nat)
    (h : ∀ k, 0 < k → k ≤ input.length → ¬ (patterns begun esc bg eg name).1 <:+ input.take k) :
    verbatimEnv begun esc bg eg name input = { content := input, closed := false, resume := [] } := by
  have hp : patterns begun esc bg eg name = ((patterns begun esc bg eg name).1, (patterns begun esc bg eg name).1) := by
    cases begun <;> rfl
  unfold verbatimEnv verbatimEnvWith
  rw [hp, tokenize_verbatim]
  have := scan_steps (patterns begun esc bg eg name).1 (patterns begun esc bg eg name).1 input [] []
    (fun k hk hk' => by simpa using h k hk hk')
  simp only [List.append_nil, List.nil_append] at this
  have e0 : ([Item.self] : List Item) = .self :: items [] := rfl
  simp only [e0, this]
  simp [scanLoop, itemsText, itemsText_items]

example : verbatimEnv true 92 123 125 [118] [97, 92, 101, 110, 100, 123, 118] =
    { content := [97, 92, 101, 110, 100, 123, 118], closed := false, resume := [] } := by decide +kernel

/-! ## `\verb` -/

/-- For *every* delimiter character `d` (other than `*`, which is the modifier), every body not containing the
    closing delimiter and every continuation: the content is exactly the body and reading resumes after the
    closing delimiter.  `closing d = d` except that plasTeX pairs `{` with `}`. -/
theorem verb_scan_exact (d : Nat) (body rest : List Nat) (hd : d ≠ 42) (hb : closing d ∉ body) :
    verbCmd (d :: body ++ closing d :: rest) = some ⟨false, ⟨body, true, rest⟩⟩ :=
  verbCmd_plain d body rest hd hb

/-- The starred form, for every delimiter (including `*` itself and letters). -/
theorem verb_star_scan_exact (d : Nat) (body rest : List Nat) (hb : closing d ∉ body) :
    verbCmd (42 :: d :: body ++ closing d :: rest) = some ⟨true, ⟨body, true, rest⟩⟩ :=
  verbCmd_star d body rest hb

/-- non-vacuity, on the D11 witness `\verb~x \y{z} % q~B` -/
example : verbCmd ([126] ++ [120, 32, 92, 121, 123, 122, 125, 32, 37, 32, 113] ++ [126, 66])
    = some ⟨false, ⟨[120, 32, 92, 121, 123, 122, 125, 32, 37, 32, 113], true, [66]⟩⟩ := by decide +kernel

/-- D11 on the pinned code, kernel-checked: under the ordinary category codes the characters `~ & # $ % \ { }`
    are not delivered as plain character tokens, so they could never match the closing delimiter. -/
theorem verb_asIs_counterexample : ∀ d ∈ [126, 38, 35, 36, 37, 92], delimiterUsableAsIs d = false := by decide +kernel

/-! ## mathematics -/

/-- `stripBlanks (lex (source (mathTree m))) = tokens m` for every formula of the grammar, at any depth, in every
    position (`$ $` / `\( \)`, `\[ \]` / `$$ $$`, `equation`): the reconstructed source of the formula node,
    re-tokenised, is — blanks aside — the canonical delimiters around exactly the author's tokens. -/
theorem math_source_roundtrip (k : Kind) (f : F) (hw : WF f = true) (hne : f.isNil = false) :
    stripBlanks (tokenize defaultCats (src (top k f))) = topToks k f := by
  have hb := lex_src f hw
  apply LexesTo.tokenize
  cases k with
  | inline =>
    have h36 : LexesTo [36] [Tok.ch 3 36] := LexesTo.char (c := 36) (cat := 3) (by decide +kernel) (by simp)
    exact (LexesTo.cons_char (c := 36) (cat := 3) (by decide +kernel) (by simp) (hb.append h36)).cast
      (by simp [top, src, mathTree_isNil, hne]) (by simp [topToks])
  | display =>
    have c91 : whichCode defaultCats 91 ∉ [11, 5, 7, 9, 15] := by decide +kernel
    have c93 : whichCode defaultCats 93 ∉ [11, 5, 7, 9, 15] := by decide +kernel
    have hclose : LexesTo [32, 92, 93] [Tok.cs [93]] :=
      (LexesTo.blank.append (LexesTo.csymbol c93 LexesTo.nil)).cast (by simp) (by simp)
    exact (LexesTo.csymbol c91 (LexesTo.blank.append (hb.append hclose))).cast
      (by simp [top, src, mathTree_isNil, hne]) (by simp [topToks])
  | equation =>
    exact (lex_env strEquation strEquation_chars LexesTo.blank hb).cast
      (by simp [top, src, mathTree_isNil, hne]) (by simp [topToks])

/-- the same for any sub-formula on its own (what `sourceChildren` / `childrenSource` return) -/
theorem math_children_roundtrip (f : F) (hw : WF f = true) :
    stripBlanks (tokenize defaultCats (src (mathTree f))) = toks f :=
  (lex_src f hw).tokenize

/-- non-vacuity: `x^{2}_i \frac{a}{\sqrt[3]{b}} \left( \mbox{if $y$} \right) \begin{array}{cc}a&b\\c&d\end{array}` is well-formed -/
example : WF (.ch 120 (.sup true (.ch 50 .nil) (.sub false (.ch 105 .nil)
    (.cmd2 [102, 114, 97, 99] true (.ch 97 .nil) true (.root (.ch 51 .nil) true (.ch 98 .nil) .nil)
    (.cmd1 [108, 101, 102, 116] false (.ch 40 .nil)
    (.cmd1 [109, 98, 111, 120] true (.ch 105 (.ch 102 (.sp (.math (.ch 121 .nil) .nil))))
    (.cmd1 [114, 105, 103, 104, 116] false (.ch 41 .nil)
    (.arr [99, 99] (.ch 97 (.amp (.ch 98 (.csym 92 (.ch 99 (.amp (.ch 100 .nil))))))) .nil)))))))) = true := by decide +kernel

example : stripBlanks (tokenize defaultCats (src (top .inline (.sym [97, 108] (.ch 120 (.sup false (.sym [98] .nil) .nil))))))
    = [.ch 3 36, .cs [97, 108], .ch 11 120, .ch 7 94, .cs [98], .ch 3 36] := by decide +kernel

/-- What the author writes (`render`: a blank after every control word) lexes to `toks` too — `toks` *is* the
    author's token sequence.  Stated for the argument-free fragment; the general case is carried by the `msrc`
    stream (real tokenizer on the written formula vs `toks`). -/
theorem render_lexes_plain (s : List Nat) (h : ∀ c ∈ s, c ∈ mathChars) :
    stripBlanks (tokenize defaultCats s) = s.map chTok :=
  (lex_chars s h).tokenize

/-- Known finding D17, kernel-checked on its witness `$x{'}$`: with the pinned digest-time character substitution
    inside a brace group the reconstructed source is *not* the author's tokens (the prime became U+2019);
    `math_source_roundtrip` is the statement for the repaired variant (`src`, no substitution in mathematics). -/
theorem math_group_asIs_counterexample :
    stripBlanks (tokenize defaultCats (36 :: 120 :: srcGroupAsIs (mathTree (.ch 39 .nil)) ++ [36]))
      ≠ topToks .inline (.ch 120 (.grp (.ch 39 .nil) .nil)) := by decide +kernel

/-! ## MathJax payload -/

theorem replaceChar_flatMap (c : Nat) (r s : List Nat) :
    replaceChar c r s = s.flatMap (fun x => if x = c then r else [x]) := by
  induction s with
  | nil => rfl
  | cons x xs ih => by_cases h : x = c <;> simp [replaceChar, h, ih]

/-- `mathjax_lt_gt` touches nothing but the angle characters: the result is the source with every `<` replaced
    by `\lt␣` and every `>` by `\gt␣`, all other characters unchanged and in order (the two chained
    `str.replace` calls do not interfere). -/
theorem mathjax_lt_gt_only_changes_angle (s : List Nat) : mathjaxLtGt s = s.flatMap angle := by
  unfold mathjaxLtGt
  rw [replaceChar_flatMap, replaceChar_flatMap, List.flatMap_assoc]
  congr 1
  funext x
  by_cases h60 : x = 60
  · subst h60; decide
  · by_cases h62 : x = 62
    · subst h62; decide
    · simp [angle, h60, h62]

/-- in particular a source without angle characters is handed over unchanged -/
theorem mathjax_identity_without_angle (s : List Nat) (h60 : 60 ∉ s) (h62 : 62 ∉ s) : mathjaxLtGt s = s := by
  rw [mathjax_lt_gt_only_changes_angle]
  induction s with
  | nil => rfl
  | cons x xs ih =>
    have hx60 : x ≠ 60 := fun e => h60 (by simp [e])
    have hx62 : x ≠ 62 := fun e => h62 (by simp [e])
    simp only [List.flatMap_cons, angle, hx60, hx62, if_false]
    rw [ih (fun hm => h60 (List.mem_cons_of_mem _ hm)) (fun hm => h62 (List.mem_cons_of_mem _ hm))]
    rfl

example : mathjaxLtGt [97, 60, 98, 62, 99] = [97, 92, 108, 116, 32, 98, 92, 103, 116, 32, 99] := by decide

end PlasVerif.Properties.C11
