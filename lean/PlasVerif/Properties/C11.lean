import PlasVerif.Proofs.Verbatim
import PlasVerif.Proofs.MathSource
import PlasVerif.Proofs.MathJax
import PlasVerif.Generated.MathTemplates
import PlasVerif.Properties.C04
import PlasVerif.Properties.C07
import PlasVerif.Properties.C02
import PlasVerif.Model.NoCharsub
import PlasVerif.Generated.NoCharsub
/-!
# C11 — Verbatim text and mathematics pass through character-for-character

Property theorems only (helpers: `Proofs/Verbatim.lean`, `Proofs/MathSource.lean`).

Verbatim: `verbatimEnv` / `verbCmd` run the C01 tokenizer model under the verbatim table, which
delivers one token per character (`C01.verbatim_identity`, used through `tokenize_verbatim`); the
theorems below therefore speak about *characters*: the node's content is exactly the body, and the
unread input is exactly what follows the end marker.  That the category codes are the ordinary
ones again for that rest is C04 (`catcode_local`, `group_restores`) and the `vdoc`/`verbdoc` streams.

Mathematics: `src (top k f)` is the reconstructed source of the formula node for formula `f`
(`Macro.source` and friends over the tree the parser builds, `Model/MathParse.lean`); `tokenize
defaultCats` is the C01 tokenizer model; `toks f` the author's tokens (user macros expanded).
-/
namespace PlasVerif.Properties.C11
open PlasVerif.Model.Catcodes PlasVerif.Model.Tokenizer PlasVerif.Generated.Catcodes
open PlasVerif.Model.Verbatim PlasVerif.Model.MathSource PlasVerif.Model.MathParse
open PlasVerif.Spec.MathFormula PlasVerif.Proofs.Verbatim PlasVerif.Proofs.MathSource

/-! ## verbatim environments -/

/-- For every way of invoking the environment (`\begin{name}` or `\name`), every escape / group characters,
    every name, every body and every continuation: if the end marker's first occurrence in `body ++ marker`
    is the final one (partial markers inside the body are harmless), the scan returns exactly the body,
    reports the marker as found, and reading resumes exactly after the marker. -/
theorem verbatim_scan_exact (begun : Bool) (esc bg eg : Nat) (name body rest : List Nat)
    (h : FirstIsFinal (patterns begun esc bg eg name).1 body) :
    verbatimEnv begun esc bg eg name (body ++ (patterns begun esc bg eg name).1 ++ rest)
      = { content := body, closed := true, resume := rest } := by
  have hp : patterns begun esc bg eg name = ((patterns begun esc bg eg name).1, (patterns begun esc bg eg name).1) := by
    cases begun <;> rfl
  have hne : (patterns begun esc bg eg name).1 ≠ [] := by
    cases begun <;> simp [patterns, endPattern, endPattern2]
  unfold verbatimEnv
  rw [hp]
  exact verbatimEnvWith_exact _ body rest hne h

/-- **Under a `\\let` alias** (`\\let\\code\\verbatim … \\begin{code}`): the end marker is spelled with the name *written* in
    `\\begin{…}` (`context.currenvir`), whatever the class is called; so for every written name, class name, body and
    rest — a body may mention `\\end{verbatim}` — the scan returns exactly the body and resumes after `\\end{code}`. -/
theorem verbatim_alias_scan_exact (esc bg eg : Nat) (written className body rest : List Nat)
    (h : FirstIsFinal (endPattern esc bg eg written) body) :
    verbatimBegun esc bg eg written className (body ++ endPattern esc bg eg written ++ rest)
      = { content := body, closed := true, resume := rest } :=
  verbatim_scan_exact true esc bg eg written body rest h

/-- … and taking the marker's name from the class instead is wrong, kernel-checked on `\\begin{c}a\\end{v}b\\end{c}x`
    with `c` an alias of `v`: the body would be cut at the literal `\\end{v}`. -/
theorem verbatim_alias_by_class_counterexample :
    verbatimBegun 92 123 125 [99] [118] ([97, 92, 101, 110, 100, 123, 118, 125, 98] ++ endPattern 92 123 125 [99] ++ [120])
      = { content := [97, 92, 101, 110, 100, 123, 118, 125, 98], closed := true, resume := [120] } ∧
    verbatimEnv true 92 123 125 [118] ([97, 92, 101, 110, 100, 123, 118, 125, 98] ++ endPattern 92 123 125 [99] ++ [120])
      ≠ { content := [97, 92, 101, 110, 100, 123, 118, 125, 98], closed := true, resume := [120] } := by
  constructor <;> decide +kernel

/-- non-vacuity: a body full of partial end markers, a backslash, braces, `%`, `^^M`, blanks and a line break -/
example : FirstIsFinal (patterns true 92 123 125 [118]).1
    [92, 101, 110, 100, 123, 118, 92, 101, 110, 100, 37, 32, 32, 94, 94, 77, 10, 92, 101, 110, 100, 123] := by decide

example : verbatimEnv true 92 123 125 [118] ([92, 101, 110, 100, 123, 118, 37, 10] ++ [92, 101, 110, 100, 123, 118, 125] ++ [32, 120])
    = { content := [92, 101, 110, 100, 123, 118, 37, 10], closed := true, resume := [32, 120] } := by decide +kernel

/-- The other marker is ordinary content (the defect D15 of the pinned code, kernel-checked on its witness):
    `\begin{v}a\endv b\end{v}` — the pinned scan stopped at `\endv`, the repaired one returns the whole body. -/
theorem verbatim_asIs_counterexample :
    verbatimEnvAsIs true 92 123 125 [118] ([97, 92, 101, 110, 100, 118, 98] ++ [92, 101, 110, 100, 123, 118, 125] ++ [120])
      ≠ { content := [97, 92, 101, 110, 100, 118, 98], closed := true, resume := [120] } ∧
    verbatimEnv true 92 123 125 [118] ([97, 92, 101, 110, 100, 118, 98] ++ [92, 101, 110, 100, 123, 118, 125] ++ [120])
      = { content := [97, 92, 101, 110, 100, 118, 98], closed := true, resume := [120] } := by
  constructor <;> decide +kernel

/-- An input without the end marker is swallowed whole and reported as not closed (nothing is lost, nothing invented). -/
theorem verbatim_unterminated (begun : Bool) (esc bg eg : Nat) (name input : List Nat)
    (h : ∀ k, 0 < k → k ≤ input.length → ¬ (patterns begun esc bg eg name).1 <:+ input.take k) :
    verbatimEnv begun esc bg eg name input = { content := input, closed := false, resume := [] } := by
  have hp : patterns begun esc bg eg name = ((patterns begun esc bg eg name).1, (patterns begun esc bg eg name).1) := by
    cases begun <;> rfl
  unfold verbatimEnv verbatimEnvWith
  rw [hp, tokenize_verbatim]
  have := scan_steps (patterns begun esc bg eg name).1 (patterns begun esc bg eg name).1 input [] []
    (fun k hk hk' => by simpa using h k hk hk')
  simp only [List.append_nil, List.nil_append] at this
  have e0 : ([Item.self] : List Item) = .self :: items [] := rfl
  simp only [e0, this]
  simp [scanLoop, itemsText, itemsText_items]

example : verbatimEnv true 92 123 125 [118] [97, 92, 101, 110, 100, 123, 118] =
    { content := [97, 92, 101, 110, 100, 123, 118], closed := false, resume := [] } := by decide +kernel

/-! ## `\verb` -/

/-- For *every* delimiter character `d` (other than `*`, which is the modifier), every body not containing the
    closing delimiter and every continuation: the content is exactly the body and reading resumes after the
    closing delimiter.  `closing d = d` except that plasTeX pairs `{` with `}`. -/
theorem verb_scan_exact (d : Nat) (body rest : List Nat) (hd : d ≠ 42) (hb : closing d ∉ body) :
    verbCmd (d :: body ++ closing d :: rest) = some ⟨false, ⟨body, true, rest⟩⟩ :=
  verbCmd_plain d body rest hd hb

/-- The starred form, for every delimiter (including `*` itself and letters). -/
theorem verb_star_scan_exact (d : Nat) (body rest : List Nat) (hb : closing d ∉ body) :
    verbCmd (42 :: d :: body ++ closing d :: rest) = some ⟨true, ⟨body, true, rest⟩⟩ :=
  verbCmd_star d body rest hb

/-- non-vacuity, on the D11 witness `\verb~x \y{z} % q~B` -/
example : verbCmd ([126] ++ [120, 32, 92, 121, 123, 122, 125, 32, 37, 32, 113] ++ [126, 66])
    = some ⟨false, ⟨[120, 32, 92, 121, 123, 122, 125, 32, 37, 32, 113], true, [66]⟩⟩ := by decide +kernel

/-- D11 on the pinned code, kernel-checked: under the ordinary category codes the characters `~ & # $ % \ { }`
    are not delivered as plain character tokens, so they could never match the closing delimiter. -/
theorem verb_asIs_counterexample : ∀ d ∈ [126, 38, 35, 36, 37, 92], delimiterUsableAsIs d = false := by decide +kernel

/-! ## mathematics -/

/-- `stripBlanks (lex (source (mathTree m))) = tokens m` for every formula of the grammar, at any depth, in every
    position (`$ $` / `\( \)`, `\[ \]` / `$$ $$`, `equation`): the reconstructed source of the formula node,
    re-tokenised, is — blanks aside — the canonical delimiters around exactly the author's tokens. -/
theorem math_source_roundtrip (k : Kind) (f : F) (hw : WF f = true) (hne : f.isNil = false) :
    stripBlanks (tokenize defaultCats (src (top k f))) = topToks k f := by
  have hb := lex_src f hw
  apply LexesTo.tokenize
  cases k with
  | inline =>
    have h36 : LexesTo [36] [Tok.ch 3 36] := LexesTo.char (c := 36) (cat := 3) (by decide +kernel) (by simp)
    exact (LexesTo.cons_char (c := 36) (cat := 3) (by decide +kernel) (by simp) (hb.append h36)).cast
      (by simp [top, src, mathTree_isNil, hne]) (by simp [topToks])
  | display =>
    have c91 : whichCode defaultCats 91 ∉ [11, 5, 7, 9, 15] := by decide +kernel
    have c93 : whichCode defaultCats 93 ∉ [11, 5, 7, 9, 15] := by decide +kernel
    have hclose : LexesTo [32, 92, 93] [Tok.cs [93]] :=
      (LexesTo.blank.append (LexesTo.csymbol c93 LexesTo.nil)).cast (by simp) (by simp)
    exact (LexesTo.csymbol c91 (LexesTo.blank.append (hb.append hclose))).cast
      (by simp [top, src, mathTree_isNil, hne]) (by simp [topToks])
  | equation =>
    exact (lex_env strEquation strEquation_chars LexesTo.blank hb).cast
      (by simp [top, src, mathTree_isNil, hne]) (by simp [topToks])

/-- the same for any sub-formula on its own (what `sourceChildren` / `childrenSource` return) -/
theorem math_children_roundtrip (f : F) (hw : WF f = true) :
    stripBlanks (tokenize defaultCats (src (mathTree f))) = toks f :=
  (lex_src f hw).tokenize

/-- non-vacuity: `x^{2}_i \frac{a}{\sqrt[3]{b}} \left( \mbox{if $y$} \right) \begin{array}{cc}a&b\\c&d\end{array}` is well-formed -/
example : WF (.ch 120 (.sup true (.ch 50 .nil) (.sub false (.ch 105 .nil)
    (.cmd2 [102, 114, 97, 99] true (.ch 97 .nil) true (.root (.ch 51 .nil) true (.ch 98 .nil) .nil)
    (.cmd1 [108, 101, 102, 116] false (.ch 40 .nil)
    (.cmd1 [109, 98, 111, 120] true (.ch 105 (.ch 102 (.sp (.math (.ch 121 .nil) .nil))))
    (.cmd1 [114, 105, 103, 104, 116] false (.ch 41 .nil)
    (.arr [99, 99] (.ch 97 (.amp (.ch 98 (.csym 92 (.ch 99 (.amp (.ch 100 .nil))))))) .nil)))))))) = true := by decide +kernel

example : stripBlanks (tokenize defaultCats (src (top .inline (.sym [97, 108] (.ch 120 (.sup false (.sym [98] .nil) .nil))))))
    = [.ch 3 36, .cs [97, 108], .ch 11 120, .ch 7 94, .cs [98], .ch 3 36] := by decide +kernel

/-- What the author writes (`render`: a blank after every control word) lexes to `toks` too — `toks` *is* the
    author's token sequence.  Stated for the argument-free fragment; the general case is carried by the `msrc`
    stream (real tokenizer on the written formula vs `toks`). -/
theorem render_lexes (f : F) (hw : WF f = true) :
    stripBlanks (tokenize defaultCats (render f)) = toks f :=
  (lex_render f hw).tokenize

/-- consequently source reconstruction and the author's text agree token for token, blanks aside -/
theorem math_source_is_what_was_written (f : F) (hw : WF f = true) :
    stripBlanks (tokenize defaultCats (src (mathTree f))) = stripBlanks (tokenize defaultCats (render f)) := by
  rw [render_lexes f hw, math_children_roundtrip f hw]

example : stripBlanks (tokenize defaultCats (render (.cmd2 [102, 114] true (.sym [97] .nil) false (.ch 98 .nil)
    (.root (.ch 51 .nil) true (.ch 120 .nil) (.sup false (.sym [98] .nil) .nil))))) =
    toks (.cmd2 [102, 114] true (.sym [97] .nil) false (.ch 98 .nil)
    (.root (.ch 51 .nil) true (.ch 120 .nil) (.sup false (.sym [98] .nil) .nil))) := by decide +kernel

/-- the argument-free special case (kept for reference) -/
theorem render_lexes_plain (s : List Nat) (h : ∀ c ∈ s, c ∈ mathChars) :
    stripBlanks (tokenize defaultCats s) = s.map chTok :=
  (lex_chars s h).tokenize

/-- Known finding D17, kernel-checked on its witness `$x{'}$`: with the pinned digest-time character substitution
    inside a brace group the reconstructed source is *not* the author's tokens (the prime became U+2019);
    `math_source_roundtrip` is the statement for the repaired variant (`src`, no substitution in mathematics). -/
theorem math_group_asIs_counterexample :
    stripBlanks (tokenize defaultCats (36 :: 120 :: srcGroupAsIs (mathTree (.ch 39 .nil)) ++ [36]))
      ≠ topToks .inline (.ch 120 (.grp (.ch 39 .nil) .nil)) := by decide +kernel

/-! ## text after verbatim is processed normally again (with the C04 context-stack model) -/

section after
open PlasVerif.Model.Context PlasVerif.Spec.Balanced

/-- The context operations of `VerbatimEnvironment.invoke` and `verb.invoke` are `push(self)`,
    `setVerbatimCatcodes()`, … scan …, `pop(self)`.  For every context stack, every (non-document) node and
    every `locals()`: while scanning the current table is the verbatim table (what `verbatimEnv` / `verbCmd`
    tokenise with), and after the `pop` the category table — every character's category — is exactly the
    one before the environment, at the same stack depth. -/
theorem after_verbatim_normal (o : ObjRef) (ho : o.docLevel = false) (locals : List (Nat × Val))
    (c : Ctx) (hc : c ≠ []) :
    cats (run [.push (some o) locals, .setVerbatim] c) = verbatimCats ∧
    cats (run [.push (some o) locals, .setVerbatim, .pop (some o)] c) = cats c ∧
    (∀ ch, whichCodeCtx (run [.push (some o) locals, .setVerbatim, .pop (some o)] c) ch = whichCodeCtx c ch) ∧
    (run [.push (some o) locals, .setVerbatim, .pop (some o)] c).length = c.length := by
  have hnd : notDoc (some o) = true := by simp [notDoc, ho]
  have hcl : closes (some o) (some o) = true := by simp [closes]
  have hb : Balanced [Op.setVerbatim] := .op _ _ rfl .nil
  have e : [Op.push (some o) locals, .setVerbatim, .pop (some o)]
      = Op.push (some o) locals :: ([Op.setVerbatim] ++ [Op.pop (some o)]) := rfl
  obtain ⟨d, h, _⟩ := PlasVerif.Properties.C04.group_restores (some o) (some o) locals [.setVerbatim] hb hnd hcl c hc
  refine ⟨?_, ?_, ?_, ?_⟩
  · simp only [run, List.foldl, step]
    rw [PlasVerif.Proofs.Context.push_notDoc _ _ _ hnd]
    rfl
  · rw [e, h, PlasVerif.Proofs.Context.cats_shape]
  · intro ch
    rw [e]
    exact PlasVerif.Properties.C04.catcode_local (some o) (some o) locals [.setVerbatim] hb hnd hcl c hc ch
  · rw [e, h, PlasVerif.Proofs.Context.shape_length]

/-- … hence the rest of the input is tokenised exactly as it would have been before the environment:
    for every body whose end marker occurs first at the end, what `verbatimEnv` leaves unread (`rest`),
    lexed under the table in force after the `pop`, gives the tokens `rest` gives under the table before. -/
theorem after_verbatim_rest_tokens (o : ObjRef) (ho : o.docLevel = false) (locals : List (Nat × Val))
    (c : Ctx) (hc : c ≠ []) (begun : Bool) (esc bg eg : Nat) (name body rest : List Nat)
    (h : FirstIsFinal (patterns begun esc bg eg name).1 body) (st : St) (p : Bool) :
    tokFrom (cats (run [.push (some o) locals, .setVerbatim, .pop (some o)] c)) st p
        (verbatimEnv begun esc bg eg name (body ++ (patterns begun esc bg eg name).1 ++ rest)).resume
      = tokFrom (cats c) st p rest := by
  rw [(after_verbatim_normal o ho locals c hc).2.1, verbatim_scan_exact begun esc bg eg name body rest h]

/-- non-vacuity: inside a group that made `@` a letter, after the verbatim environment `@` is a letter again and `%` a comment character -/
example : let c := run [.push none [], .setCat 64 11] init
    let o : ObjRef := ⟨7, 0, 3, false, [118], false⟩
    whichCodeCtx (run [.push (some o) [], .setVerbatim] c) 37 = 12 ∧
    whichCodeCtx (run [.push (some o) [], .setVerbatim, .pop (some o)] c) 64 = 11 ∧
    whichCodeCtx (run [.push (some o) [], .setVerbatim, .pop (some o)] c) 37 = 14 := by decide +kernel

end after

/-! ## no character substitution in verbatim text or mathematics (with the C07 normalisation model) -/

section nosub
open PlasVerif.Model.Digest PlasVerif.Spec.DocTree PlasVerif.Model.NoCharsub

theorem allCharsL_charToks (s : List Nat) : allCharsL (s.map charTok) = s := by
  induction s with
  | nil => rfl
  | cons c s ih => simp [allCharsL, allChars, charTok, ih]

/-- `Node.normalize(charsubs)` — called with any substitution list, from any ancestor — leaves every character
    below a verbatim, `\verb` or mathematics node as it was, at any depth (`NoCharSubEnvironment.normalize`,
    `verb.normalize`); in particular the verbatim node's `textContent` is still exactly its content. -/
theorem no_charsub_in_verbatim_or_math (cs : Bool) :
    (∀ (it : PlasVerif.Model.Digest.Item) (p : Ref) (kids : List Tree), it.nosub = true →
      allChars (norm cs (.node it p kids)) = allChars (.node it p kids)) ∧
    (∀ (ref : Ref) (content : List Nat), allChars (norm cs (verbatimNode ref content)) = content) := by
  refine ⟨fun it p kids h => PlasVerif.Properties.C07.charsubs_never_in_nosub cs it p kids h, ?_⟩
  intro ref content
  rw [verbatimNode, PlasVerif.Properties.C07.charsubs_never_in_nosub cs _ _ _ rfl]
  simp [allChars, nosubItem, allCharsL_charToks]

/-- The hypothesis `nosub = true` of the theorem above is the code's: in the table regenerated on every run by calling
    the real `normalize(document.charsubs)` of each class, every verbatim / `\\verb` / mathematics class drops the
    substitution list (and the ordinary classes used as a control do not). -/
theorem nosub_classes_suppress :
    (∀ n ∈ noSubstitutionClasses, PlasVerif.Generated.NoCharsub.nosubClasses.lookup n = some true) ∧
    PlasVerif.Generated.NoCharsub.nosubClasses.lookup "textbf" = some false := by decide

/-- end to end for the environment: scan, then document normalisation with the substitution list switched on:
    the node's text is the body, character for character -/
theorem verbatim_text_exact (begun : Bool) (esc bg eg : Nat) (name body rest : List Nat) (ref : Ref)
    (h : FirstIsFinal (patterns begun esc bg eg name).1 body) :
    allChars (norm true (verbatimNode ref
      (verbatimEnv begun esc bg eg name (body ++ (patterns begun esc bg eg name).1 ++ rest)).content)) = body := by
  rw [verbatim_scan_exact begun esc bg eg name body rest h]
  exact (no_charsub_in_verbatim_or_math true).2 ref body

/-- the same for `\\verb`, every delimiter -/
theorem verb_text_exact (d : Nat) (body rest : List Nat) (ref : Ref) (hd : d ≠ 42) (hb : closing d ∉ body) :
    (verbCmd (d :: body ++ closing d :: rest)).map (fun r => allChars (norm true (verbatimNode ref r.res.content))) = some body := by
  rw [verb_scan_exact d body rest hd hb]
  exact congrArg some ((no_charsub_in_verbatim_or_math true).2 ref body)

/-- non-vacuity: ``a--b''`` keeps its dashes and quotes in verbatim; in running text it would become `a–b”` -/
example : allChars (norm true (verbatimNode (.item 1) [97, 45, 45, 98, 39, 39])) = [97, 45, 45, 98, 39, 39] ∧
    applySubs PlasVerif.Generated.Digest.charsubs [97, 45, 45, 98, 39, 39] = [97, 8211, 98, 8221] := by decide

/-! ### known finding D17 `charsub-in-math-group`: both variants over the C07 model -/

/-- **as-is** (kernel-checked on the witness `$x{'}$`): `bgroup.digest` ends with `paragraphs(force=False)`, which
    normalises the group *with* the document's substitution list before the group is attached below the math
    node — the prime becomes U+2019 although the group stands in mathematics. -/
theorem math_group_digest_asIs_counterexample :
    allChars (paragraphs false (.node (groupItem (.item 2)) (.item 1) [charTok 39])) = [8217] ∧
    allChars (paragraphs false (.node (groupItem (.item 2)) (.item 1) [charTok 39]))
      ≠ allChars (.node (groupItem (.item 2)) (.item 1) [charTok 39]) := by
  constructor <;> decide

/-- **repaired**: when `paragraphs` knows the node stands in mathematics it normalises without a substitution
    list, and then no character below the group changes — for every group content, at any depth.  Outside
    mathematics the repaired function is the pinned one. -/
theorem math_group_digest_repaired (t : Tree) :
    allChars (paragraphsInMath true t) = allChars t ∧ paragraphsInMath false t = paragraphs false t :=
  ⟨by rw [paragraphsInMath]; exact PlasVerif.Properties.C07.norm_false_chars t, rfl⟩

end nosub

/-! ## user macros inside formulas (with the C02 expansion model)

"with user macros expanded": the `msrc` stream writes formulas with `\\newcommand` macros of every signature kind
— among them macros whose expansion is *empty* (`\\newcommand{\\todo}[1]{}`) and macros whose optional argument has an
*empty default* (`\\newcommand{\\norm}[2][]{…}`).  The two mechanisms live in C02's model (`Model/Macro.lean`:
`invoke`, the expansion loop's push-back, and `collectNewcommand` = `NewCommand.invoke`); the statements C11 relies on: -/

section usermacros
open PlasVerif.Model.Macro in
/-- **An empty expansion leaves nothing in the stream**: when a `\\newcommand` macro's replacement text is empty, the
    expansion loop continues with the input right after the macro's arguments — no node of the macro itself is
    yielded (`invoke()` returned `[]`, not `None`) — for every signature, every input, every environment. -/
theorem user_macro_empty_expansion_leaves_nothing (fx : Bool) (fuel : Nat) (name : PlasVerif.Model.Macro.Name)
    (nargs : Nat) (opt : Option (List PlasVerif.Model.Macro.Tok)) (rest : List PlasVerif.Model.Macro.Tok)
    (env env' : PlasVerif.Model.Macro.Env)
    (h : PlasVerif.Model.Macro.getItem name env = (.newcmd nargs opt (some []), env')) :
    PlasVerif.Model.Macro.invoke fx (fuel + 1) name rest env
      = PlasVerif.Model.Macro.next fx fuel ⟨(PlasVerif.Model.Macro.collectNewcommand nargs opt rest).2, env'⟩ := by
  rw [PlasVerif.Model.Macro.invoke, h]
  simp [PlasVerif.Model.Macro.invokeNewcommand, PlasVerif.Model.Macro.substBody, PlasVerif.Model.Macro.substGo, Except.map]

/-- **An empty default is still an optional argument**: with `[n][]` the macro looks for `[`; absent, `#1` is the empty
    token list and the mandatory arguments are read from the same place … -/
theorem user_macro_empty_default_absent (nargs : Nat) (s : List PlasVerif.Model.Macro.Tok)
    (h : ∀ t ts, PlasVerif.Spec.TeXMacro.skipBlanks s = t :: ts → PlasVerif.Model.Macro.isOpenBr t = false) :
    (PlasVerif.Model.Macro.collectNewcommand nargs (some []) s).1[1]? = some (some []) :=
  PlasVerif.Properties.C02.optional_default nargs [] s h

/-- … present, `#1` is the bracket content. -/
theorem user_macro_empty_default_present (nargs : Nat) (s ts : List PlasVerif.Model.Macro.Tok) (t : PlasVerif.Model.Macro.Tok)
    (hs : PlasVerif.Spec.TeXMacro.skipBlanks s = t :: ts) (ht : PlasVerif.Model.Macro.isOpenBr t = true) :
    (PlasVerif.Model.Macro.collectNewcommand nargs (some []) s).1[1]?
      = some (some (PlasVerif.Model.Macro.stripDelimited (PlasVerif.Model.Macro.readBracket 1 ts).1)) :=
  PlasVerif.Properties.C02.optional_present nargs [] s ts t hs ht

/-- kernel-checked on the macros the stream uses: `\\todo{x}+b` → `+b`;  `\\opt{b}x` → `bx` and `\\opt[a]{b}x` → `abx`
    for `\\newcommand{\\opt}[2][]{#1#2}` -/
example :
    PlasVerif.Model.Macro.invokeNewcommand 1 none [] [.ch 1 123, .ch 11 120, .ch 2 125, .ch 12 43, .ch 11 98]
      = .ok ([], [.ch 12 43, .ch 11 98]) ∧
    PlasVerif.Model.Macro.invokeNewcommand 2 (some []) [.ch 6 35, .ch 12 49, .ch 6 35, .ch 12 50]
        [.ch 1 123, .ch 11 98, .ch 2 125, .ch 11 120] = .ok ([.ch 11 98], [.ch 11 120]) ∧
    PlasVerif.Model.Macro.invokeNewcommand 2 (some []) [.ch 6 35, .ch 12 49, .ch 6 35, .ch 12 50]
        [.ch 12 91, .ch 11 97, .ch 12 93, .ch 1 123, .ch 11 98, .ch 2 125, .ch 11 120]
      = .ok ([.ch 11 97, .ch 11 98], [.ch 11 120]) := ⟨rfl, rfl, rfl⟩

end usermacros

/-! ## MathJax payload -/

theorem replaceChar_flatMap (c : Nat) (r s : List Nat) :
    replaceChar c r s = s.flatMap (fun x => if x = c then r else [x]) := by
  induction s with
  | nil => rfl
  | cons x xs ih => by_cases h : x = c <;> simp [replaceChar, h, ih]

/-- `mathjax_lt_gt` touches nothing but the angle characters: the result is the source with every `<` replaced
    by `\lt␣` and every `>` by `\gt␣`, all other characters unchanged and in order (the two chained
    `str.replace` calls do not interfere). -/
theorem mathjax_lt_gt_only_changes_angle (s : List Nat) : mathjaxLtGt s = s.flatMap angle := by
  unfold mathjaxLtGt
  rw [replaceChar_flatMap, replaceChar_flatMap, List.flatMap_assoc]
  congr 1
  funext x
  by_cases h60 : x = 60
  · subst h60; decide
  · by_cases h62 : x = 62
    · subst h62; decide
    · simp [angle, h60, h62]

/-- the payload contains no angle character at all, so an HTML parser cannot take part of a formula for a tag -/
theorem mathjax_no_angle (s : List Nat) : 60 ∉ mathjaxLtGt s ∧ 62 ∉ mathjaxLtGt s := by
  rw [mathjax_lt_gt_only_changes_angle]
  induction s with
  | nil => simp
  | cons x xs ih =>
    simp only [List.flatMap_cons, List.mem_append, not_or]
    refine ⟨⟨?_, ih.1⟩, ⟨?_, ih.2⟩⟩ <;>
    · unfold angle; split
      · decide
      · split
        · decide
        · simp; omega

/-- **What MathJax receives is the author's formula with `<` / `>` spelled `\\lt` / `\\gt`, token for token**: for every
    formula of the grammar (any depth; array column specifications without angle characters), `mathjax_lt_gt` of
    the reconstructed source re-tokenises — blanks aside — to the author's tokens in which exactly the ordinary
    characters `<` and `>` are replaced by the control words `\\lt` and `\\gt`. -/
theorem mathjax_payload_roundtrip (f : F) (hw : WF f = true) (hs : specsNoAngle f = true) :
    stripBlanks (tokenize defaultCats (mathjaxLtGt (src (mathTree f)))) = (toks f).map angleTok := by
  rw [mathjax_lt_gt_only_changes_angle]
  have h := PlasVerif.Proofs.MathJax.src_ltgtF f hw hs
  unfold PlasVerif.Proofs.MathJax.A at h
  rw [← h, math_children_roundtrip _ (PlasVerif.Proofs.MathJax.WF_ltgtF f hw), PlasVerif.Proofs.MathJax.toks_ltgtF f hs]

/-- the inline payload `math.mathjax_source` = `\\(` … `\\)` around it -/
theorem mathjax_inline_payload_roundtrip (f : F) (hw : WF f = true) (hs : specsNoAngle f = true) (hne : f.isNil = false) :
    stripBlanks (tokenize defaultCats (mathjaxInline (mathTree f)))
      = .cs [40] :: (toks f).map angleTok ++ [.cs [41]] := by
  have h := PlasVerif.Proofs.MathJax.src_ltgtF f hw hs
  unfold PlasVerif.Proofs.MathJax.A at h
  have hb := lex_src _ (PlasVerif.Proofs.MathJax.WF_ltgtF f hw)
  rw [PlasVerif.Proofs.MathJax.toks_ltgtF f hs, h, ← mathjax_lt_gt_only_changes_angle] at hb
  apply LexesTo.tokenize
  have c40 : whichCode defaultCats 40 ∉ [11, 5, 7, 9, 15] := by decide +kernel
  have c41 : whichCode defaultCats 41 ∉ [11, 5, 7, 9, 15] := by decide +kernel
  exact (LexesTo.csymbol c40 (hb.append (LexesTo.csymbol c41 LexesTo.nil))).cast
    (by simp [mathjaxInline, mathTree_isNil, hne]) (by simp)

example : stripBlanks (tokenize defaultCats (mathjaxInline (mathTree (.ch 97 (.ch 60 (.ch 98 .nil))))))
    = [.cs [40], .ch 11 97, .cs [108, 116], .ch 11 98, .cs [41]] := by decide +kernel

/-- The HTML5 templates of the mathematics classes write `mathjax_source` (not the raw `source`) into the page —
    read from the template file on every run. -/
theorem math_templates_emit_mathjax_source :
    ∀ n ∈ mathNodeClasses, PlasVerif.Generated.MathTemplates.payloadAttr.lookup n = some "mathjax_source" := by decide

/-- in particular a source without angle characters is handed over unchanged -/
theorem mathjax_identity_without_angle (s : List Nat) (h60 : 60 ∉ s) (h62 : 62 ∉ s) : mathjaxLtGt s = s := by
  rw [mathjax_lt_gt_only_changes_angle]
  induction s with
  | nil => rfl
  | cons x xs ih =>
    have hx60 : x ≠ 60 := fun e => h60 (by simp [e])
    have hx62 : x ≠ 62 := fun e => h62 (by simp [e])
    simp only [List.flatMap_cons, angle, hx60, hx62, if_false]
    rw [ih (fun hm => h60 (List.mem_cons_of_mem _ hm)) (fun hm => h62 (List.mem_cons_of_mem _ hm))]
    rfl

example : mathjaxLtGt [97, 60, 98, 62, 99] = [97, 92, 108, 116, 32, 98, 92, 103, 116, 32, 99] := by decide

end PlasVerif.Properties.C11
