import PlasVerif.Proofs.Render
/-!
# C13 — Rendering splits the document into files without losing or repeating content

Property theorems only; helper lemmas are in `Proofs/Render.lean`.  The model (`Model/Render.lean`) is
`Renderer.render` / `cacheFilenames` / `Renderable.filename` / `Renderable.__str__` / `SectionUtils.footnotes`
with the filename generator as a parameter `g : Gen σ` (property C15); the prescription (`Spec/Split.lean`) is
written from the property text: units = elements at or above the split level, each with the body text of its
region in document order followed by the footnote text of the region.

All theorems quantify over every generator, generator state, split level, filename template and document tree
(any size, any depth) in the domain `InDomain`: the document node has one `document` element (level
`DOCUMENT_LEVEL`), the effective split level is below `ENDSECTIONS_LEVEL` (the property ranges over −10..6),
and footnotes are neither units nor contain units or footnotes.
-/
namespace PlasVerif.Properties.C13
open PlasVerif.Model.Render PlasVerif.Spec.Split PlasVerif.Proofs.Render

def isDocRoot : Tree → Bool
  | .text _ => false
  | .elem a _ => a.level == DOCUMENT_LEVEL

/-- the domain of the property (decidable; the generated inputs are checked against it by the driver) -/
def InDomain (lvl : Int) (root : Tree) : Bool :=
  isDocRoot root && decide (lvl < ENDSECTIONS_LEVEL) && wf lvl false root

/-- `t1` … a small document used for the non-vacuity examples: document{ 1 fn{2} chapter{ 3 section{4 fn{5}} } } -/
def exDoc : Tree :=
  let at_ (tag : Nat) (level : Int) (foot : Bool) : Attrs :=
    { tag := tag, level := level, foot := foot, id := none, title := some "T", ref := none, name := "n" }
  .elem (at_ 1 DOCUMENT_LEVEL false)
    [.text 1, .elem (at_ 2 1001 true) [.text 2],
     .elem (at_ 3 0 false) [.text 3, .elem (at_ 4 1 false) [.text 4, .elem (at_ 5 1001 true) [.text 5]]]]

/-- a name supply for the examples -/
def exGen : Gen Nat := ⟨fun k _ => .ok (["index.html", "sect0001.html", "sect0002.html"].getD k "x", k + 1)⟩

def exTemplate : List Char := "index [$id, sect$num(4)]".toList

/-- **Main theorem.**  Whenever rendering succeeds, the files written are, up to the order of writing, exactly
    one per unit at or above the effective split level: the k-th unit in document order gets the k-th name the
    generator issues for the units' requests (in document order), its file opens with that unit's layout and
    its text is the body text of the unit's region in document order followed by the region's footnote text. -/
theorem render_partition {σ} (g : Gen σ) (s0 : σ) (split : Int) (tmpl : List Char) (root : Tree) (files : List File)
    (hd : InDomain (effLevel split tmpl) root = true)
    (h : render g s0 split tmpl [root] = .ok files) :
    ∃ names s', run g s0 ((units (effLevel split tmpl) root).map fun u => req u.attrs) = .ok (names, s') ∧
      names.length = (units (effLevel split tmpl) root).length ∧
      List.Perm (files.map summary) (List.zipWith expected names (units (effLevel split tmpl) root)) := by
  generalize hE : effLevel split tmpl = lvl at hd ⊢
  simp only [InDomain, Bool.and_eq_true, decide_eq_true_eq] at hd
  obtain ⟨⟨hroot, hl⟩, hw⟩ := hd
  cases root with
  | text m => simp [isDocRoot] at hroot
  | elem a ks =>
    have hdoc : a.level = DOCUMENT_LEVEL := by simpa [isDocRoot] using hroot
    have hdn : filenameOf g lvl s0 documentNode = .ok (none, s0) := by
      have hgt : (1001 : Int) > lvl := by simp only [ENDSECTIONS_LEVEL] at hl; omega
      simp [filenameOf, documentNode, hgt]
    simp only [render, hE, hdn] at h
    cases ha : assignL g lvl s0 [.elem a ks] with
    | error e => simp [ha] at h
    | ok p =>
      obtain ⟨atops, s'⟩ := p
      simp only [ha, Except.ok.injEq] at h
      obtain ⟨he, han, hr⟩ := assignL_spec g lvl _ s0 s' atops ha
      have hflt : atops.filter ATree.isDocLevel = atops := by
        cases atops with
        | nil => simp at he
        | cons r rest =>
          cases rest with
          | cons r2 rest2 => simp at he
          | nil =>
            cases r with
            | text m => simp at he
            | elem a' f ks' =>
              simp only [eraseL_cons, erase_elem, eraseL_nil, List.cons.injEq, Tree.elem.injEq, and_true] at he
              simp [ATree.isDocLevel, he.1, hdoc]
      rw [hflt] at h
      have hw' : wfL lvl false (eraseL atops) = true := by simp [he, hw]
      obtain ⟨_, _, _, i4, i5⟩ := mainL lvl hl atops han hw'
      subst h
      simp only [he, unitsL_cons, unitsL_nil, List.append_nil] at i4 i5
      simp only [unitReqsL, unitsL_cons, unitsL_nil, List.append_nil] at hr
      exact ⟨fileNamesL atops, s', hr, i4, i5⟩

/-- non-vacuity: the example document is in the domain at split level 0 and rendering it (names from a fixed
    supply) succeeds with two files -/
example : InDomain (effLevel 0 exTemplate) exDoc = true := by decide
example : (render exGen 0 0 exTemplate [exDoc]).map (·.map summary) =
      .ok [("sect0001.html", some (.lop 3), [3, 4, 5]), ("index.html", some (.lop 1), [1, 2])] := by rfl

/-- **Each sectioning unit at or above the split level is written to its own file**: as many files as units,
    named (up to the order of writing) by the generator's answers to the units' requests in document order. -/
theorem one_file_per_split_unit {σ} (g : Gen σ) (s0 : σ) (split : Int) (tmpl : List Char) (root : Tree) (files : List File)
    (hd : InDomain (effLevel split tmpl) root = true)
    (h : render g s0 split tmpl [root] = .ok files) :
    files.length = (units (effLevel split tmpl) root).length ∧
    ∃ names s', run g s0 ((units (effLevel split tmpl) root).map fun u => req u.attrs) = .ok (names, s') ∧
      List.Perm (files.map (·.1)) names := by
  obtain ⟨names, s', hr, hlen, hp⟩ := render_partition g s0 split tmpl root files hd h
  refine ⟨?_, names, s', hr, ?_⟩
  · have := hp.length_eq
    simp only [List.length_map, List.length_zipWith, hlen, Nat.min_self] at this
    exact this
  · have := hp.map (fun e => e.1)
    rw [zipWith_expected_names names _ hlen] at this
    simpa [summary, Function.comp_def] using this

example : (units (effLevel 0 exTemplate) exDoc).length = 2 := by decide

/-- **Footnote text is gathered at the end of its file, body text comes first in document order**: every file
    written is the file of some unit: it opens with that unit's layout and its text is the body text of the unit's
    region (document order) followed by the footnote text of the region. -/
theorem footnotes_gathered_at_end {σ} (g : Gen σ) (s0 : σ) (split : Int) (tmpl : List Char) (root : Tree) (files : List File)
    (hd : InDomain (effLevel split tmpl) root = true)
    (h : render g s0 split tmpl [root] = .ok files) :
    ∀ f ∈ files, ∃ u ∈ units (effLevel split tmpl) root,
      f.2.head? = some (.lop u.attrs.tag) ∧ textsOf f.2 = u.body ++ u.foot := by
  obtain ⟨names, s', _, _, hp⟩ := render_partition g s0 split tmpl root files hd h
  intro f hf
  have hm : summary f ∈ files.map summary := List.mem_map.mpr ⟨f, hf, rfl⟩
  obtain ⟨u, hu, he⟩ := zipWith_expected_mem' names _ _ (hp.mem_iff.mp hm)
  refine ⟨u, hu, ?_, ?_⟩
  · have := congrArg Prod.fst he; simpa [summary] using this
  · have := congrArg Prod.snd he; simpa [summary] using this

/-- **Units below the split level are written inside their nearest file-producing ancestor**: a text whose
    nearest enclosing unit (element at or above the split level) has tag `u` is found in a file that opens with
    the layout of `u`. -/
theorem owner_is_nearest_splitting_ancestor {σ} (g : Gen σ) (s0 : σ) (split : Int) (tmpl : List Char) (root : Tree)
    (files : List File) (hd : InDomain (effLevel split tmpl) root = true)
    (hlow : DOCUMENT_LEVEL ≤ effLevel split tmpl)
    (h : render g s0 split tmpl [root] = .ok files) (cur m u : Nat)
    (hown : (m, u) ∈ owners (effLevel split tmpl) cur root) :
    ∃ f ∈ files, f.2.head? = some (.lop u) ∧ m ∈ textsOf f.2 := by
  obtain ⟨names, s', _, hlen, hp⟩ := render_partition g s0 split tmpl root files hd h
  have hd' := hd
  simp only [InDomain, Bool.and_eq_true, decide_eq_true_eq] at hd'
  obtain ⟨⟨hroot, _⟩, hw⟩ := hd'
  have hnone : body (effLevel split tmpl) root ++ foot (effLevel split tmpl) root = [] := by
    cases root with
    | text m => simp [isDocRoot] at hroot
    | elem a ks =>
      have hdoc : a.level = DOCUMENT_LEVEL := by simpa [isDocRoot] using hroot
      simp [isUnit, hdoc, hlow]
  rcases owners_spec _ root hw cur m u hown with ⟨_, hm⟩ | ⟨un, hun, htag, hm⟩
  · rw [hnone] at hm; simp at hm
  · obtain ⟨n, hn⟩ := zipWith_expected_mem names _ hlen un hun
    obtain ⟨f, hf, hs⟩ := List.mem_map.mp (hp.mem_iff.mpr hn)
    refine ⟨f, hf, ?_, ?_⟩
    · have := congrArg (fun e => e.2.1) hs; simpa [summary, expected, htag] using this
    · have := congrArg (fun e => e.2.2) hs
      simp only [summary, expected] at this
      rw [this]; exact hm

example : (5, 3) ∈ owners (effLevel 0 exTemplate) 0 exDoc ∧ (2, 1) ∈ owners (effLevel 0 exTemplate) 0 exDoc := by decide

/-- **Every piece of text appears exactly once in exactly one file**: the texts of all files together are a
    permutation of the texts of the document (nothing lost, nothing repeated) … -/
theorem every_text_exactly_once {σ} (g : Gen σ) (s0 : σ) (split : Int) (tmpl : List Char) (root : Tree)
    (files : List File) (hd : InDomain (effLevel split tmpl) root = true)
    (hlow : DOCUMENT_LEVEL ≤ effLevel split tmpl)
    (h : render g s0 split tmpl [root] = .ok files) :
    List.Perm (files.flatMap fun f => textsOf f.2) (texts root) := by
  obtain ⟨names, s', _, hlen, hp⟩ := render_partition g s0 split tmpl root files hd h
  have hd' := hd
  simp only [InDomain, Bool.and_eq_true, decide_eq_true_eq] at hd'
  obtain ⟨⟨hroot, _⟩, hw⟩ := hd'
  have h1 := hp.flatMap_right (fun e => e.2.2)
  rw [zipWith_expected_texts names _ hlen, List.flatMap_map] at h1
  have h2 := conserve _ root hw
  have hnone : body (effLevel split tmpl) root ++ foot (effLevel split tmpl) root = [] := by
    cases root with
    | text m => simp [isDocRoot] at hroot
    | elem a ks =>
      have hdoc : a.level = DOCUMENT_LEVEL := by simpa [isDocRoot] using hroot
      simp [isUnit, hdoc, hlow]
  rw [hnone, List.append_nil] at h2
  exact (by simpa [summary] using h1 : List.Perm (files.flatMap fun f => textsOf f.2) _).trans h2

/-- … so when the texts of the document are pairwise different (marker words), no marker occurs twice anywhere
    in the output, and a marker of the document occurs in some file. -/
theorem marker_once_in_one_file {σ} (g : Gen σ) (s0 : σ) (split : Int) (tmpl : List Char) (root : Tree)
    (files : List File) (hd : InDomain (effLevel split tmpl) root = true)
    (hlow : DOCUMENT_LEVEL ≤ effLevel split tmpl)
    (h : render g s0 split tmpl [root] = .ok files) (hnd : (texts root).Nodup) :
    (files.flatMap fun f => textsOf f.2).Nodup ∧ ∀ m ∈ texts root, ∃ f ∈ files, m ∈ textsOf f.2 := by
  have hp := every_text_exactly_once g s0 split tmpl root files hd hlow h
  refine ⟨hp.nodup_iff.mpr hnd, ?_⟩
  intro m hm
  have := hp.mem_iff.mpr hm
  simpa [List.mem_flatMap] using this

example : (texts exDoc).Nodup ∧ DOCUMENT_LEVEL ≤ effLevel 0 exTemplate := by decide

/-- **Output filenames are pairwise distinct and contain no forbidden character**, given the guarantee of the
    filename generator (property C15) for the requests of this document. -/
theorem filenames_distinct_and_clean {σ} (g : Gen σ) (s0 : σ) (split : Int) (tmpl : List Char) (root : Tree)
    (files : List File) (bad : List Char) (hd : InDomain (effLevel split tmpl) root = true)
    (hg : GoodGen g s0 bad)
    (h : render g s0 split tmpl [root] = .ok files) :
    (files.map (·.1)).Nodup ∧ ∀ f ∈ files, ∀ c ∈ f.1.toList, c ∉ bad := by
  obtain ⟨_, names, s', hr, hp⟩ := one_file_per_split_unit g s0 split tmpl root files hd h
  obtain ⟨hn, hc⟩ := hg _ names s' hr
  refine ⟨hp.nodup_iff.mpr hn, ?_⟩
  intro f hf
  exact hc f.1 (hp.mem_iff.mp (List.mem_map.mpr ⟨f, hf, rfl⟩))

/-- **The same on every run**: `render` is a function of generator, configuration and document; moreover what
    the files hold does not depend on the names at all — two renderings of the same document under the same
    split level with *any* two generators (any states) write files with the same layouts and texts. -/
theorem render_deterministic {σ τ} (g1 : Gen σ) (g2 : Gen τ) (s1 : σ) (s2 : τ) (split : Int) (tmpl : List Char)
    (root : Tree) (files1 files2 : List File) (hd : InDomain (effLevel split tmpl) root = true)
    (h1 : render g1 s1 split tmpl [root] = .ok files1) (h2 : render g2 s2 split tmpl [root] = .ok files2) :
    List.Perm (files1.map fun f => (summary f).2) (files2.map fun f => (summary f).2) := by
  obtain ⟨n1, _, _, hl1, hp1⟩ := render_partition g1 s1 split tmpl root files1 hd h1
  obtain ⟨n2, _, _, hl2, hp2⟩ := render_partition g2 s2 split tmpl root files2 hd h2
  have a1 := hp1.map (fun e => e.2)
  have a2 := hp2.map (fun e => e.2)
  rw [zipWith_expected_content n1 _ hl1] at a1
  rw [zipWith_expected_content n2 _ hl2] at a2
  simp only [List.map_map, Function.comp_def] at a1 a2
  exact a1.trans a2.symm

/-- **A template that names a single file means "everything in that file"**: without blank and `[` in the
    (stripped) template the effective level is −10, and when no element below the `document` element is at or
    above level −10 (plasTeX's levels start at −2) exactly one file is written and it holds every text of the
    document, body text first. -/
theorem single_name_template_one_file {σ} (g : Gen σ) (s0 : σ) (split : Int) (tmpl : List Char) (a : Attrs)
    (ks : List Tree) (files : List File)
    (hs : hasBlankOrBracket (strip tmpl) = false)
    (hd : InDomain (-10) (.elem a ks) = true)
    (hdeep : (unitsL (-10) ks).isEmpty = true)
    (h : render g s0 split tmpl [.elem a ks] = .ok files) :
    ∃ n toks, files = [(n, toks)] ∧ toks.head? = some (.lop a.tag) ∧
      textsOf toks = bodyL (-10) ks ++ footL (-10) ks ∧ List.Perm (textsOf toks) (textsL ks) := by
  have hE : effLevel split tmpl = -10 := by simp [effLevel, hs]
  rw [← hE] at hd
  obtain ⟨names, s', _, hlen, hp⟩ := render_partition g s0 split tmpl _ files hd h
  rw [hE] at hd hlen hp
  have hd' := hd
  simp only [InDomain, Bool.and_eq_true, decide_eq_true_eq] at hd'
  obtain ⟨⟨hroot, _⟩, hw⟩ := hd'
  have hdoc : a.level = DOCUMENT_LEVEL := by simpa [isDocRoot] using hroot
  have hU : isUnit (-10) a = true := by simp [isUnit, hdoc, DOCUMENT_LEVEL]
  have hnil : unitsL (-10) ks = [] := by simpa using hdeep
  simp only [units_elem, hU, if_true, hnil] at hlen hp
  obtain ⟨n, rfl⟩ := List.length_eq_one_iff.mp (by simpa using hlen)
  simp only [List.zipWith_cons_cons, List.zipWith_nil_right] at hp
  obtain ⟨f, rfl, hf⟩ := List.map_eq_singleton_iff.mp (List.perm_singleton.mp hp)
  simp only [wf_elem, Bool.false_or, Bool.and_eq_true] at hw
  have hfoot : a.foot = false := by simpa [hU] using hw.1
  have hwk := hw.2
  rw [hfoot] at hwk
  have hc := conserveL (-10) ks hwk
  simp only [hnil, utexts_nil, List.nil_append] at hc
  have ht : textsOf f.2 = bodyL (-10) ks ++ footL (-10) ks := by
    have := congrArg (fun e => e.2.2) hf; simpa [summary, expected] using this
  refine ⟨f.1, f.2, rfl, ?_, ht, ?_⟩
  · have := congrArg (fun e => e.2.1) hf; simpa [summary, expected] using this
  · rw [ht]; exact hc

example : hasBlankOrBracket (strip " index ".toList) = false ∧ InDomain (-10) exDoc = true := by decide

end PlasVerif.Properties.C13
