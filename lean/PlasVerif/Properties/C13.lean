import PlasVerif.Proofs.Render
import PlasVerif.Proofs.RenderNames
/-!
# C13 — Rendering splits the document into files without losing or repeating content

Property theorems only; helper lemmas are in `Proofs/Render.lean`.  The model (`Model/Render.lean`) is
`Renderer.render` / `cacheFilenames` / `Renderable.filename` / `Renderable.__str__` / `SectionUtils.footnotes`
with the filename generator as a parameter `g : Gen σ` (property C15); the prescription (`Spec/Split.lean`) is
written from the property text: units = elements at or above the split level, each with the body text of its
region in document order followed by the footnote text of the region.

All theorems quantify over every generator (any state type `σ`, any type of names `ν`), generator state, split
level, filename template and document tree (any size, any depth) in the domain `InDomain`: the document node has
one `document` element (level `DOCUMENT_LEVEL`), the effective split level is below `ENDSECTIONS_LEVEL` (the
property ranges over −10..6), no footnote is itself a sectioning unit and a node with a unicode equivalent (`uni`) is a
leaf that is neither unit nor footnote; footnotes may be nested and may contain
units (`render_partition_tops` also admits the preamble nodes and whatever follows the `document` element).
`render_fails_only_with_generator` characterises the hypothesis `render … = .ok files`, and
`filenames_distinct_and_clean_with_Filenames` instantiates the generator with the C15 model of
`plasTeX/Filenames.py`, leaving no hypothesis about the generator.
-/
namespace PlasVerif.Properties.C13
open PlasVerif.Model.Render PlasVerif.Spec.Split PlasVerif.Proofs.Render PlasVerif.Proofs.RenderNames PlasVerif.Model.RenderNames

/-- the domain of the property (decidable; the generated inputs are checked against it by the driver):
    one `document` element below the document node, an effective split level below `ENDSECTIONS_LEVEL` (the
    property ranges over −10..6), no footnote that is itself a sectioning unit (footnotes may be nested, and may
    contain units), and either the `document` element is at or above the split level (always so for split levels
    ≥ `-sys.maxsize`) or no unit lies inside a footnote. -/
def InDomain (lvl : Int) (root : Tree) : Bool :=
  isDocRoot root && decide (lvl < ENDSECTIONS_LEVEL) && wf lvl root &&
    (decide (DOCUMENT_LEVEL ≤ lvl) || footFree lvl false root)

/-- `t1` … a small document used for the non-vacuity examples: document{ 1 fn{2} chapter{ 3 section{4 fn{5}} } } -/
def exDoc : Tree :=
  let at_ (tag : Nat) (level : Int) (foot : Bool) : Attrs :=
    { tag := tag, level := level, foot := foot, id := none, title := some "T", ref := none, name := "n" }
  .elem (at_ 1 DOCUMENT_LEVEL false)
    [.text 1, .elem (at_ 2 1001 true) [.text 2],
     .elem (at_ 3 0 false) [.text 3, .elem (at_ 4 1 false) [.text 4, .elem (at_ 5 1001 true) [.text 5]]]]

/-- a name supply for the examples -/
def exGen : Gen Nat String := ⟨fun k _ => .ok (["index.html", "sect0001.html", "sect0002.html"].getD k "x", k + 1)⟩

def exTemplate : List Char := "index [$id, sect$num(4)]".toList

/-- domain for an arbitrary list of children of the document node: every child is a `document` element or
    contains no unit (preamble commands, trailing text), plus the conditions of `InDomain` -/
def InDomainTops (lvl : Int) (tops : List Tree) : Bool :=
  decide (lvl < ENDSECTIONS_LEVEL) && wfL lvl tops && tops.all (fun t => isDocRoot t || (units lvl t).isEmpty) &&
    (decide (DOCUMENT_LEVEL ≤ lvl) || footFreeL lvl false tops)

/-- **`render_partition` for the whole document node**: with any children of the document node in `InDomainTops`
    (preamble nodes and other unit-free children are walked by `cacheFilenames` but neither rendered nor named),
    the files written are exactly one per unit of the children, named in document order, each with the body text
    of its region followed by the region's footnote text. -/
theorem render_partition_tops {σ ν} (g : Gen σ ν) (s0 : σ) (split : Int) (tmpl : List Char) (tops : List Tree)
    (files : List (File ν)) (hd : InDomainTops (effLevel split tmpl) tops = true)
    (h : render g s0 split tmpl tops = .ok files) :
    ∃ names s', run g s0 ((unitsL (effLevel split tmpl) tops).map fun u => req u.attrs) = .ok (names, s') ∧
      names.length = (unitsL (effLevel split tmpl) tops).length ∧
      List.Perm (files.map summary) (List.zipWith expected names (unitsL (effLevel split tmpl) tops)) := by
  generalize hE : effLevel split tmpl = lvl at hd ⊢
  simp only [InDomainTops, Bool.and_eq_true, Bool.or_eq_true, decide_eq_true_eq, List.all_eq_true] at hd
  obtain ⟨⟨⟨hl, hw⟩, hall⟩, hcorner⟩ := hd
  have hdn : filenameOf g lvl s0 documentNode = .ok (none, s0) := by
    have hgt : (1001 : Int) > lvl := by simp only [ENDSECTIONS_LEVEL] at hl; omega
    simp [filenameOf, documentNode, hgt]
  simp only [render, hE, hdn] at h
  cases ha : assignL g lvl s0 tops with
  | error e => simp [ha] at h
  | ok p =>
    obtain ⟨atops, s'⟩ := p
    simp only [ha, Except.ok.injEq] at h
    obtain ⟨he, han, hr⟩ := assignL_spec g lvl _ s0 s' atops ha
    have hw' : wfL lvl (eraseL atops) = true := by simp [he, hw]
    obtain ⟨_, _, i4, i5⟩ := mainL lvl hl atops han hw'
    have hall' : ∀ t ∈ atops, isDocRoot (erase t) = true ∨ units lvl (erase t) = [] := by
      intro t ht
      have hmem : erase t ∈ tops := by rw [← he]; exact mem_eraseL t atops ht
      have := hall _ hmem
      simpa only [Bool.or_eq_true, List.isEmpty_iff] using this
    obtain ⟨k1, k2⟩ := tops_render lvl hl atops han hw' hall' (by rw [he]; exact hcorner)
    rw [k2] at h
    rw [k1, List.append_nil] at i5
    subst h
    rw [he] at i4 i5
    simp only [unitReqsL] at hr
    exact ⟨fileNamesL atops, s', hr, i4, i5⟩

/-- **Main theorem.**  Whenever rendering succeeds, the files written are, up to the order of writing, exactly
    one per unit at or above the effective split level: the k-th unit in document order gets the k-th name the
    generator issues for the units' requests (in document order), its file opens with that unit's layout and
    its text is the body text of the unit's region in document order followed by the region's footnote text. -/
theorem render_partition {σ ν} (g : Gen σ ν) (s0 : σ) (split : Int) (tmpl : List Char) (root : Tree) (files : List (File ν))
    (hd : InDomain (effLevel split tmpl) root = true)
    (h : render g s0 split tmpl [root] = .ok files) :
    ∃ names s', run g s0 ((units (effLevel split tmpl) root).map fun u => req u.attrs) = .ok (names, s') ∧
      names.length = (units (effLevel split tmpl) root).length ∧
      List.Perm (files.map summary) (List.zipWith expected names (units (effLevel split tmpl) root)) := by
  have hdt : InDomainTops (effLevel split tmpl) [root] = true := by
    simp only [InDomain, Bool.and_eq_true, Bool.or_eq_true, decide_eq_true_eq] at hd
    obtain ⟨⟨⟨hroot, hl⟩, hw⟩, hcorner⟩ := hd
    simp only [InDomainTops, Bool.and_eq_true, Bool.or_eq_true, decide_eq_true_eq, List.all_cons, List.all_nil, Bool.and_true,
      wfL_cons, wfL_nil, footFreeL_cons, footFreeL_nil]
    exact ⟨⟨⟨hl, hw⟩, Or.inl hroot⟩, hcorner⟩
  obtain ⟨names, s', hr, hlen, hp⟩ := render_partition_tops g s0 split tmpl [root] files hdt h
  simp only [unitsL_cons, unitsL_nil, List.append_nil] at hr hlen hp
  exact ⟨names, s', hr, hlen, hp⟩

/-- non-vacuity: the example document is in the domain at split level 0 and rendering it (names from a fixed
    supply) succeeds with two files -/
example : InDomain (effLevel 0 exTemplate) exDoc = true := by decide
example : (render exGen 0 0 exTemplate [exDoc]).map (·.map summary) =
      .ok [("sect0001.html", some (.lop 3), [3, 4, 5]), ("index.html", some (.lop 1), [1, 2])] := by rfl

/-- a document of the widened domain: a footnote nested in a footnote, and a unit inside a footnote:
    document{ 1 fn₂{ 2 fn₃{3} 4 } fn₆{ 6 chapter₇{7} } chapter₅{5} } -/
def exDocNested : Tree :=
  let at_ (tag : Nat) (level : Int) (foot : Bool) : Attrs :=
    { tag := tag, level := level, foot := foot, id := none, title := some "T", ref := none, name := "n" }
  .elem (at_ 1 DOCUMENT_LEVEL false)
    [.text 1, .elem (at_ 2 1001 true) [.text 2, .elem (at_ 3 1001 true) [.text 3], .text 4],
     .elem (at_ 6 1001 true) [.text 6, .elem (at_ 7 0 false) [.text 7]],
     .elem (at_ 5 0 false) [.text 5]]

/-- non-vacuity of the widened domain: the nested footnote's text comes before its host's, the unit inside the
    footnote gets its own file (named in document order) -/
example : InDomain (effLevel 0 exTemplate) exDocNested = true := by decide
example : (render exGen 0 0 exTemplate [exDocNested]).map (·.map summary) =
      .ok [("sect0002.html", some (.lop 5), [5]), ("sect0001.html", some (.lop 7), [7]),
           ("index.html", some (.lop 1), [1, 3, 2, 4, 6])] := by rfl

/-- a node with a unicode equivalent (`\\S`, `\\ldots`, …: `node.str`, constructor `uni`) is in the domain as a leaf: it
    is printed as that text, without template, children or file -/
example : InDomain (effLevel 0 exTemplate)
    (.elem { tag := 1, level := DOCUMENT_LEVEL, foot := false, id := none, title := some "T", ref := none, name := "document" }
      [.text 1, .uni { tag := 2, level := 1001, foot := false, id := none, title := none, ref := none, name := "S" } [],
       .text 2]) = true := by decide

/-- **Each sectioning unit at or above the split level is written to its own file**: as many files as units,
    named (up to the order of writing) by the generator's answers to the units' requests in document order. -/
theorem one_file_per_split_unit {σ ν} (g : Gen σ ν) (s0 : σ) (split : Int) (tmpl : List Char) (root : Tree) (files : List (File ν))
    (hd : InDomain (effLevel split tmpl) root = true)
    (h : render g s0 split tmpl [root] = .ok files) :
    files.length = (units (effLevel split tmpl) root).length ∧
    ∃ names s', run g s0 ((units (effLevel split tmpl) root).map fun u => req u.attrs) = .ok (names, s') ∧
      List.Perm (files.map (·.1)) names := by
  obtain ⟨names, s', hr, hlen, hp⟩ := render_partition g s0 split tmpl root files hd h
  refine ⟨?_, names, s', hr, ?_⟩
  · have := hp.length_eq
    simp only [List.length_map, List.length_zipWith, hlen, Nat.min_self] at this
    exact this
  · have := hp.map (fun e => e.1)
    rw [zipWith_expected_names names _ hlen] at this
    simpa [summary, Function.comp_def] using this

example : (units (effLevel 0 exTemplate) exDoc).length = 2 := by decide

/-- **Footnote text is gathered at the end of its file, body text comes first in document order**: every file
    written is the file of some unit: it opens with that unit's layout and its text is the body text of the unit's
    region (document order) followed by the footnote text of the region. -/
theorem footnotes_gathered_at_end {σ ν} (g : Gen σ ν) (s0 : σ) (split : Int) (tmpl : List Char) (root : Tree) (files : List (File ν))
    (hd : InDomain (effLevel split tmpl) root = true)
    (h : render g s0 split tmpl [root] = .ok files) :
    ∀ f ∈ files, ∃ u ∈ units (effLevel split tmpl) root,
      f.2.head? = some (.lop u.attrs.tag) ∧ textsOf f.2 = u.body ++ u.foot := by
  obtain ⟨names, s', _, _, hp⟩ := render_partition g s0 split tmpl root files hd h
  intro f hf
  have hm : summary f ∈ files.map summary := List.mem_map.mpr ⟨f, hf, rfl⟩
  obtain ⟨u, hu, he⟩ := zipWith_expected_mem' names _ _ (hp.mem_iff.mp hm)
  refine ⟨u, hu, ?_, ?_⟩
  · have := congrArg Prod.fst he; simpa [summary] using this
  · have := congrArg Prod.snd he; simpa [summary] using this

/-- **Units below the split level are written inside their nearest file-producing ancestor**: a text whose
    nearest enclosing unit (element at or above the split level) has tag `u` is found in a file that opens with
    the layout of `u`. -/
theorem owner_is_nearest_splitting_ancestor {σ ν} (g : Gen σ ν) (s0 : σ) (split : Int) (tmpl : List Char) (root : Tree)
    (files : List (File ν)) (hd : InDomain (effLevel split tmpl) root = true)
    (hlow : DOCUMENT_LEVEL ≤ effLevel split tmpl)
    (h : render g s0 split tmpl [root] = .ok files) (cur m u : Nat)
    (hown : (m, u) ∈ owners (effLevel split tmpl) cur root) :
    ∃ f ∈ files, f.2.head? = some (.lop u) ∧ m ∈ textsOf f.2 := by
  obtain ⟨names, s', _, hlen, hp⟩ := render_partition g s0 split tmpl root files hd h
  have hd' := hd
  simp only [InDomain, Bool.and_eq_true, decide_eq_true_eq] at hd'
  obtain ⟨⟨⟨hroot, _⟩, hw⟩, _⟩ := hd'
  have hnone : body (effLevel split tmpl) root ++ foot (effLevel split tmpl) root = [] := by
    cases root with
    | text m => simp [isDocRoot] at hroot
    | elem a ks =>
      have hdoc : a.level = DOCUMENT_LEVEL := by simpa [isDocRoot] using hroot
      simp [isUnit, hdoc, hlow]
    | uni a ks =>
      have hdoc : a.level = DOCUMENT_LEVEL := by simpa [isDocRoot] using hroot
      simp [isUnit, hdoc, hlow]
  rcases owners_spec _ root hw cur m u hown with ⟨_, hm⟩ | ⟨un, hun, htag, hm⟩
  · rw [hnone] at hm; simp at hm
  · obtain ⟨n, hn⟩ := zipWith_expected_mem names _ hlen un hun
    obtain ⟨f, hf, hs⟩ := List.mem_map.mp (hp.mem_iff.mpr hn)
    refine ⟨f, hf, ?_, ?_⟩
    · have := congrArg (fun e => e.2.1) hs; simpa [summary, expected, htag] using this
    · have := congrArg (fun e => e.2.2) hs
      simp only [summary, expected] at this
      rw [this]; exact hm

example : (5, 3) ∈ owners (effLevel 0 exTemplate) 0 exDoc ∧ (2, 1) ∈ owners (effLevel 0 exTemplate) 0 exDoc := by decide

/-- **Every piece of text appears exactly once in exactly one file**: the texts of all files together are a
    permutation of the texts of the document (nothing lost, nothing repeated) … -/
theorem every_text_exactly_once {σ ν} (g : Gen σ ν) (s0 : σ) (split : Int) (tmpl : List Char) (root : Tree)
    (files : List (File ν)) (hd : InDomain (effLevel split tmpl) root = true)
    (hlow : DOCUMENT_LEVEL ≤ effLevel split tmpl)
    (h : render g s0 split tmpl [root] = .ok files) :
    List.Perm (files.flatMap fun f => textsOf f.2) (texts root) := by
  obtain ⟨names, s', _, hlen, hp⟩ := render_partition g s0 split tmpl root files hd h
  have hd' := hd
  simp only [InDomain, Bool.and_eq_true, decide_eq_true_eq] at hd'
  obtain ⟨⟨⟨hroot, _⟩, hw⟩, _⟩ := hd'
  have h1 := hp.flatMap_right (fun e => e.2.2)
  rw [zipWith_expected_texts names _ hlen, List.flatMap_map] at h1
  have h2 := conserve _ root hw
  have hnone : body (effLevel split tmpl) root ++ foot (effLevel split tmpl) root = [] := by
    cases root with
    | text m => simp [isDocRoot] at hroot
    | elem a ks =>
      have hdoc : a.level = DOCUMENT_LEVEL := by simpa [isDocRoot] using hroot
      simp [isUnit, hdoc, hlow]
    | uni a ks =>
      have hdoc : a.level = DOCUMENT_LEVEL := by simpa [isDocRoot] using hroot
      simp [isUnit, hdoc, hlow]
  rw [hnone, List.append_nil] at h2
  exact (by simpa [summary] using h1 : List.Perm (files.flatMap fun f => textsOf f.2) _).trans h2

/-- … so when the texts of the document are pairwise different (marker words), no marker occurs twice anywhere
    in the output, and a marker of the document occurs in some file. -/
theorem marker_once_in_one_file {σ ν} (g : Gen σ ν) (s0 : σ) (split : Int) (tmpl : List Char) (root : Tree)
    (files : List (File ν)) (hd : InDomain (effLevel split tmpl) root = true)
    (hlow : DOCUMENT_LEVEL ≤ effLevel split tmpl)
    (h : render g s0 split tmpl [root] = .ok files) (hnd : (texts root).Nodup) :
    (files.flatMap fun f => textsOf f.2).Nodup ∧ ∀ m ∈ texts root, ∃ f ∈ files, m ∈ textsOf f.2 := by
  have hp := every_text_exactly_once g s0 split tmpl root files hd hlow h
  refine ⟨hp.nodup_iff.mpr hnd, ?_⟩
  intro m hm
  have := hp.mem_iff.mpr hm
  simpa [List.mem_flatMap] using this

example : (texts exDoc).Nodup ∧ DOCUMENT_LEVEL ≤ effLevel 0 exTemplate := by decide

/-- **Output filenames are pairwise distinct**, given that the generator never issues a name twice
    (discharged for the model of `plasTeX/Filenames.py` in `filenames_distinct_with_Filenames` below). -/
theorem filenames_distinct {σ ν} (g : Gen σ ν) (s0 : σ) (split : Int) (tmpl : List Char) (root : Tree)
    (files : List (File ν)) (hd : InDomain (effLevel split tmpl) root = true)
    (hg : DistinctGen g s0)
    (h : render g s0 split tmpl [root] = .ok files) :
    (files.map (·.1)).Nodup := by
  obtain ⟨_, names, s', hr, hp⟩ := one_file_per_split_unit g s0 split tmpl root files hd h
  exact hp.nodup_iff.mpr (hg _ names s' hr)

/-- **Output filenames are pairwise distinct and clean** (`clean` = e.g. "contains no forbidden character",
    `noBadChars bad`), given the guarantee of the filename generator (property C15) for the requests of this
    document: every name a file is written under is a name the generator issued. -/
theorem filenames_distinct_and_clean {σ ν} (g : Gen σ ν) (s0 : σ) (split : Int) (tmpl : List Char) (root : Tree)
    (files : List (File ν)) (clean : ν → Prop) (hd : InDomain (effLevel split tmpl) root = true)
    (hg : GoodGen g s0 clean)
    (h : render g s0 split tmpl [root] = .ok files) :
    (files.map (·.1)).Nodup ∧ ∀ f ∈ files, clean f.1 := by
  obtain ⟨_, names, s', hr, hp⟩ := one_file_per_split_unit g s0 split tmpl root files hd h
  refine ⟨hp.nodup_iff.mpr (hg.1 _ names s' hr), ?_⟩
  intro f hf
  exact hg.2 _ names s' hr f.1 (hp.mem_iff.mp (List.mem_map.mpr ⟨f, hf, rfl⟩))

/-- **Output filenames are pairwise distinct, new, and clean — with the real generator, no hypothesis left**:
    the name supply is the model of `plasTeX/Filenames.py` proved correct under C15 (`filenamesGen cfg`, started
    in *any* generator state `st`, e.g. `Filenames.initial (parseTemplate template) [jobname] reserved`).
    Then the names the files are written under are pairwise distinct (C15 `never_duplicate_from_any_state`),
    none of them was taken/reserved before, and — when the substitute contains no forbidden character — a
    forbidden character in a file name is one that the extension or a template alternative spells literally,
    never one that came from a variable value (`CleanName`; derived from the code-level model of `expand`, using
    C15 `bad_chars_replaced`). -/
theorem filenames_distinct_and_clean_with_Filenames (cfg : PlasVerif.Model.Filenames.Config)
    (st : PlasVerif.Model.Filenames.State) (split : Int) (tmpl : List Char) (root : Tree)
    (files : List (File PlasVerif.Model.Filenames.Str)) (hd : InDomain (effLevel split tmpl) root = true)
    (h : render (filenamesGen cfg) st split tmpl [root] = .ok files) :
    (files.map (·.1)).Nodup ∧ (∀ f ∈ files, f.1 ∉ st.taken) ∧
    ((∀ c ∈ cfg.sub, c ∉ cfg.bad) → ∀ f ∈ files, CleanName cfg (st.statics ++ st.wildcard) f.1) := by
  obtain ⟨_, names, s', hr, hp⟩ := one_file_per_split_unit (filenamesGen cfg) st split tmpl root files hd h
  refine ⟨hp.nodup_iff.mpr (filenamesGen_distinct cfg st _ names s' hr), ?_, ?_⟩
  · intro f hf
    exact filenamesGen_not_taken cfg st s' _ names hr f.1 (hp.mem_iff.mp (List.mem_map.mpr ⟨f, hf, rfl⟩))
  · intro hsub f hf
    exact filenamesGen_clean cfg hsub st _ names s' hr f.1 (hp.mem_iff.mp (List.mem_map.mpr ⟨f, hf, rfl⟩))

/-- a configuration and generator state for the non-vacuity example: forbidden characters `: /.`, substitute `-`,
    extension `.html`, template `index [$id, sect$num(4)]` (as parsed) -/
def exCfg : PlasVerif.Model.Filenames.Config := { bad := strOf ": /.", sub := strOf "-", ext := strOf ".html" }
def exState : PlasVerif.Model.Filenames.State :=
  PlasVerif.Model.Filenames.initial [.name (strOf "index"), .alts [strOf "${id}", strOf "sect${num.4}"]] [] []

/-- **No file is overwritten**: a file is opened for writing under its name, so of two writes under one name only the
    later survives; with a generator that never repeats a name every file the rendering writes is found in the
    output directory afterwards with exactly the content written (together with `render_partition`: the text of every
    unit is on disk, in the file named for the unit). -/
theorem files_survive_on_disk {σ ν} [DecidableEq ν] (g : Gen σ ν) (s0 : σ) (split : Int) (tmpl : List Char) (root : Tree)
    (files : List (File ν)) (hd : InDomain (effLevel split tmpl) root = true) (hg : DistinctGen g s0)
    (h : render g s0 split tmpl [root] = .ok files) :
    ∀ f ∈ files, disk files f.1 = some f.2 :=
  disk_of_nodup files (filenames_distinct g s0 split tmpl root files hd hg h)

/-- … in particular with the model of `plasTeX/Filenames.py` as the name supply, from any generator state -/
theorem files_survive_on_disk_with_Filenames (cfg : PlasVerif.Model.Filenames.Config)
    (st : PlasVerif.Model.Filenames.State) (split : Int) (tmpl : List Char) (root : Tree)
    (files : List (File PlasVerif.Model.Filenames.Str)) (hd : InDomain (effLevel split tmpl) root = true)
    (h : render (filenamesGen cfg) st split tmpl [root] = .ok files) :
    ∀ f ∈ files, disk files f.1 = some f.2 :=
  files_survive_on_disk (filenamesGen cfg) st split tmpl root files hd (filenamesGen_distinct cfg st) h

/-- without distinct names text is lost: two writes under one name, the first is gone (what the faulty generators of
    the review rounds produced) -/
example : disk [("index.html", [Tok.txt 1]), ("index.html", [Tok.txt 2])] "index.html" = some [Tok.txt 2] := by decide

/-- **The same on every run**: `render` is a function of generator, configuration and document; moreover what
    the files hold does not depend on the names at all — two renderings of the same document under the same
    split level with *any* two generators (any states) write files with the same layouts and texts. -/
theorem render_deterministic {σ τ ν μ} (g1 : Gen σ ν) (g2 : Gen τ μ) (s1 : σ) (s2 : τ) (split : Int) (tmpl : List Char)
    (root : Tree) (files1 : List (File ν)) (files2 : List (File μ)) (hd : InDomain (effLevel split tmpl) root = true)
    (h1 : render g1 s1 split tmpl [root] = .ok files1) (h2 : render g2 s2 split tmpl [root] = .ok files2) :
    List.Perm (files1.map fun f => (summary f).2) (files2.map fun f => (summary f).2) := by
  obtain ⟨n1, _, _, hl1, hp1⟩ := render_partition g1 s1 split tmpl root files1 hd h1
  obtain ⟨n2, _, _, hl2, hp2⟩ := render_partition g2 s2 split tmpl root files2 hd h2
  have a1 := hp1.map (fun e => e.2)
  have a2 := hp2.map (fun e => e.2)
  rw [zipWith_expected_content n1 _ hl1] at a1
  rw [zipWith_expected_content n2 _ hl2] at a2
  simp only [List.map_map, Function.comp_def] at a1 a2
  exact a1.trans a2.symm

/-- **A template that names a single file means "everything in that file"**: without blank and `[` in the
    (stripped) template the effective level is −10, and when no element below the `document` element is at or
    above level −10 (plasTeX's levels start at −2) exactly one file is written and it holds every text of the
    document, body text first. -/
theorem single_name_template_one_file {σ ν} (g : Gen σ ν) (s0 : σ) (split : Int) (tmpl : List Char) (a : Attrs)
    (ks : List Tree) (files : List (File ν))
    (hs : hasBlankOrBracket (strip tmpl) = false)
    (hd : InDomain (-10) (.elem a ks) = true)
    (hdeep : (unitsL (-10) ks).isEmpty = true)
    (h : render g s0 split tmpl [.elem a ks] = .ok files) :
    ∃ n toks, files = [(n, toks)] ∧ toks.head? = some (.lop a.tag) ∧
      textsOf toks = bodyL (-10) ks ++ footL (-10) ks ∧ List.Perm (textsOf toks) (textsL ks) := by
  have hE : effLevel split tmpl = -10 := by simp [effLevel, hs]
  rw [← hE] at hd
  obtain ⟨names, s', _, hlen, hp⟩ := render_partition g s0 split tmpl _ files hd h
  rw [hE] at hd hlen hp
  have hd' := hd
  simp only [InDomain, Bool.and_eq_true, decide_eq_true_eq] at hd'
  obtain ⟨⟨⟨hroot, _⟩, hw⟩, _⟩ := hd'
  have hdoc : a.level = DOCUMENT_LEVEL := by simpa [isDocRoot] using hroot
  have hU : isUnit (-10) a = true := by simp [isUnit, hdoc, DOCUMENT_LEVEL]
  have hnil : unitsL (-10) ks = [] := by simpa using hdeep
  simp only [units_elem, hU, if_true, hnil] at hlen hp
  obtain ⟨n, rfl⟩ := List.length_eq_one_iff.mp (by simpa using hlen)
  simp only [List.zipWith_cons_cons, List.zipWith_nil_right] at hp
  obtain ⟨f, rfl, hf⟩ := List.map_eq_singleton_iff.mp (List.perm_singleton.mp hp)
  simp only [wf_elem, Bool.and_eq_true] at hw
  have hwk := hw.2
  have hc := conserveL (-10) ks hwk
  simp only [hnil, utexts_nil, List.nil_append] at hc
  have ht : textsOf f.2 = bodyL (-10) ks ++ footL (-10) ks := by
    have := congrArg (fun e => e.2.2) hf; simpa [summary, expected] using this
  refine ⟨f.1, f.2, rfl, ?_, ht, ?_⟩
  · have := congrArg (fun e => e.2.1) hf; simpa [summary, expected] using this
  · rw [ht]; exact hc

example : hasBlankOrBracket (strip " index ".toList) = false ∧ InDomain (-10) exDoc = true := by decide

/-! ### the document node as the parser builds it: preamble nodes, `document`, whatever follows -/

/-- non-vacuity: preamble command, the example document, trailing text -/
example : InDomainTops (effLevel 0 exTemplate)
    [.elem { tag := 90, level := 1001, foot := false, id := none, title := none, ref := none, name := "documentclass" } [],
     exDocNested, .text 99] = true := by decide

/-! ### the failure path -/

/-- **Rendering fails exactly when a name request fails, with the generator's exception**: for every document
    (any children of the document node, inside or outside `InDomain`), split level and template, `render` and
    the generator run over the rendering's requests (`allReqs`: the document node's own request at split levels
    ≥ 1001, then one request per element at or above the effective split level, in document order) either both
    succeed or both raise the same exception.  This characterises the hypothesis `render … = .ok files` of the
    other theorems. -/
theorem render_fails_only_with_generator {σ ν} (g : Gen σ ν) (s0 : σ) (split : Int) (tmpl : List Char) (tops : List Tree) :
    (render g s0 split tmpl tops).map (fun _ => ()) =
      (run g s0 (allReqs (effLevel split tmpl) tops)).map (fun _ => ()) :=
  render_run g s0 split tmpl tops

/-- rendering succeeds iff every name request is answered -/
theorem render_succeeds_iff {σ ν} (g : Gen σ ν) (s0 : σ) (split : Int) (tmpl : List Char) (tops : List Tree) :
    (∃ files, render g s0 split tmpl tops = .ok files) ↔
      ∃ names s', run g s0 (allReqs (effLevel split tmpl) tops) = .ok (names, s') := by
  have h := render_run g s0 split tmpl tops
  constructor
  · rintro ⟨files, hf⟩
    rw [hf] at h
    cases hr : run g s0 (allReqs (effLevel split tmpl) tops) with
    | error e => rw [hr] at h; simp [Except.map] at h
    | ok p => exact ⟨p.1, p.2, rfl⟩
  · rintro ⟨names, s', hr⟩
    rw [hr] at h
    cases hf : render g s0 split tmpl tops with
    | error e => rw [hf] at h; simp [Except.map] at h
    | ok files => exact ⟨files, rfl⟩

/-- on failure the exception is the generator's -/
theorem render_error_iff {σ ν} (g : Gen σ ν) (s0 : σ) (split : Int) (tmpl : List Char) (tops : List Tree) (e : Err) :
    render g s0 split tmpl tops = .error e ↔ run g s0 (allReqs (effLevel split tmpl) tops) = .error e := by
  have h := render_run g s0 split tmpl tops
  constructor
  · intro hf
    rw [hf] at h
    cases hr : run g s0 (allReqs (effLevel split tmpl) tops) with
    | error e' => simp_all [Except.map]
    | ok p => simp_all [Except.map]
  · intro hr
    rw [hr] at h
    cases hf : render g s0 split tmpl tops with
    | error e' => simp_all [Except.map]
    | ok p => simp_all [Except.map]

/-- non-vacuity: a generator that dies at its second request makes the rendering of the example document fail
    with `ValueError`; the example supply answers both requests -/
example : render (counterGen (some 1)) 0 0 exTemplate [exDoc] = .error .valueError ∧
    (allReqs (effLevel 0 exTemplate) [exDoc]).length = 2 := by
  constructor
  · rfl
  · decide

/-- non-vacuity: with the `Filenames` model as the supply the example document renders (both requests are
    answered: `index.html`, `sect0001.html`), and the substitute is not a forbidden character -/
example : (∃ files, render (filenamesGen exCfg) exState 0 exTemplate [exDoc] = .ok files) ∧
    (∀ c ∈ exCfg.sub, c ∉ exCfg.bad) := by
  refine ⟨(render_succeeds_iff _ _ _ _ _).mpr ?_, by decide⟩
  have h : ((PlasVerif.Spec.Split.run (filenamesGen exCfg) exState (allReqs (effLevel 0 exTemplate) [exDoc])).toOption.map (·.1)) =
      some [strOf "index.html", strOf "sect0001.html"] := by decide
  cases hr : PlasVerif.Spec.Split.run (filenamesGen exCfg) exState (allReqs (effLevel 0 exTemplate) [exDoc]) with
  | ok p => exact ⟨p.1, p.2, rfl⟩
  | error e => rw [hr] at h; simp [Except.toOption] at h

end PlasVerif.Properties.C13
