import PlasVerif.Proofs.Escape
import PlasVerif.Proofs.Cleanup
import PlasVerif.Proofs.TemplateExpr
import PlasVerif.Generated.Templates
/-!
# C12 — Rendered HTML never turns document text into markup

Property theorems only; helper lemmas are in `Proofs/Escape.lean`.  `textDefault false` is the escaping hook
every text node and `.str` short-cut goes through; `decode` is the Spec's reader of HTML character data.
The Jinja2/TAL template layer is not modelled: that every template emits node text only through the hook is
carried by the document-level oracle `doc12` of the harness (see `render_displays_leaves` for what is proved
about the recursion itself, given templates that only wrap their content in tags).
-/
namespace PlasVerif.Properties.C12
open PlasVerif.Generated.Escape PlasVerif.Model.Escape PlasVerif.Spec.HtmlText PlasVerif.Spec.HtmlTags PlasVerif.Proofs.Escape
open PlasVerif.Proofs.Cleanup (subWith_tagLocal para_local cell_local void_local Fills.refl)

/-- The chain read from the source of `textDefault` and the live function probed on every code point
    below `probeLimit` agree (finite table: 592 entries, kernel evaluation). -/
theorem chain_agrees_with_probe :
    ∀ c, c < probeLimit → textDefault false [c] = (probed.lookup c).getD [c] := by
  decide +kernel

/-- The hook is a character-wise substitution: no replacement of the chain interferes with another one. -/
theorem escape_is_charwise (s : List Nat) :
    textDefault false s = s.flatMap (fun c => textDefault false [c]) := by
  simp only [textDefault]
  exact applyChain_flatMap chain s

example : textDefault false [60, 38, 97] = [38, 108, 116, 59, 38, 97, 109, 112, 59, 97] := by decide

/-- Escaped text cannot be read as markup: no `<`, no `>`, and every `&` begins a character reference —
    for every string. -/
theorem escape_no_markup (s : List Nat) : NoMarkup (textDefault false s) := by
  simp only [textDefault]
  exact ⟨(not_lt_mem_escape s).1, (not_lt_mem_escape s).2, refsOnly_escape s⟩

example : NoMarkup (textDefault false (str "<script>alert(\"1\")</script> &amp; &#60;")) := escape_no_markup _

/-- An HTML reader displays exactly the characters of the input — for every string. -/
theorem escape_roundtrip (s : List Nat) : decode (textDefault false s) = s := by
  have := decode_escape_append s []
  simpa [textDefault, decode_nil] using this

example : decode (textDefault false (str "a<b> &lt; &amp;amp; \"q\"")) = str "a<b> &lt; &amp;amp; \"q\"" :=
  escape_roundtrip _

/-- … and stays so whatever template output follows the text: no reference of the escaped text reaches
    into what comes after it. -/
theorem escape_roundtrip_in_context (s post : List Nat) :
    decode (textDefault false s ++ post) = s ++ decode post := by
  simpa [textDefault] using decode_escape_append s post

-- text `&` followed by template output `lt;</b>`: the reader still sees `&`, then whatever `lt;</b>` reads as
example : decode (textDefault false [38] ++ str "lt;</b>") = [38] ++ decode (str "lt;</b>") :=
  escape_roundtrip_in_context _ _

/-- The order of the chain matters (`&` first): with the same replacements in reverse order a reader no longer
    gets `<` back. -/
theorem escape_order_matters : decode (applyChain chain.reverse [60]) ≠ [60] := by
  have h : applyChain chain.reverse [60] = 38 :: 97 :: 109 :: 112 :: 59 :: [108, 116, 59] := by decide
  rw [h, decode_amp_some (matchRef_amp _)]
  simp

/-- Nodes flagged `isMarkup` bypass the hook unchanged (declared markup of the packages `html`/`embed`;
    outside the property, stated so the model's domain is explicit). -/
theorem markup_nodes_bypass (s : List Nat) : textDefault true s = s := rfl

/-- The hook has no memory: in every sequence of calls on one renderer (any mix of plain and `isMarkup`
    strings, equal strings included) each result is what that call gives on its own, whatever came before. -/
theorem hook_history_independent (before after : List (Bool × List Nat)) (c : Bool × List Nat) :
    (textDefaultSeq (before ++ c :: after))[before.length]? = some (textDefault c.1 c.2) := by
  simp [textDefaultSeq]

/-- in particular a plain string is escaped even right after the same characters went through as declared markup -/
example : textDefaultSeq [(true, [60, 104, 114, 62]), (false, [60, 104, 114, 62])]
    = [[60, 104, 114, 62], [38, 108, 116, 59, 104, 114, 38, 103, 116, 59]] := by decide

/-- With escape-high-chars every file is 7-bit — for every file content. -/
theorem escape_high_ascii (f : List Nat) : Ascii (processFileContent true f) := by
  simp only [processFileContent, imagePass, ↓reduceIte]
  exact escapeHigh_ascii f

example : Ascii (processFileContent true [233, 60, 26085]) := escape_high_ascii _

/-- Escaped text followed by numeric escaping still reads back as the input — for every string. -/
theorem escape_high_roundtrip (s : List Nat) :
    decode (processFileContent true (textDefault false s)) = s := by
  simp only [processFileContent, imagePass, ↓reduceIte]
  rw [decode_escapeHigh]
  exact escape_roundtrip s

/-- Enabling escape-high-chars changes the representation only: for *every* file content (template output,
    escaped text, already present references, stray `&`) a reader decodes the same characters with the flag on
    and off; 7-bit content is not touched at all. -/
theorem escape_high_commutes_decoding (f : List Nat) :
    decode (processFileContent true f) = decode (processFileContent false f) := by
  simp only [processFileContent, imagePass, ↓reduceIte]
  exact decode_escapeHigh f

theorem escape_high_keeps_ascii (f : List Nat) (h : Ascii f) : processFileContent true f = f := by
  simp only [processFileContent, imagePass, ↓reduceIte]
  exact escapeHigh_id_of_ascii f h

example : decode (processFileContent true (str "&#12é &é; &amp;é")) = decode (str "&#12é &é; &amp;é") :=
  escape_high_commutes_decoding _

/-- The clean-up regexes of the HTML5 and XHTML renderers start every match at a `<`: text that went
    through the hook is never modified by them. -/
theorem cleanup_never_touches_escaped_text (s : List Nat) :
    cleanupHtml5 (textDefault false s) = textDefault false s ∧
    cleanupXhtml (textDefault false s) = textDefault false s := by
  have h : 60 ∉ textDefault false s := (escape_no_markup s).1
  have e1 := subWith_id matchEmptyPara matchEmptyPara_lt
  have e2 := subWith_id matchEmptyCell matchEmptyCell_lt
  have e3 := subWith_id matchVoidTag matchVoidTag_lt
  constructor
  · simp only [cleanupHtml5]
    rw [e1 _ _ h, e2 _ _ h]
  · simp only [cleanupXhtml]
    rw [e3 _ _ h, e1 _ _ h, e2 _ _ h]

/-- more generally: content without `<` passes the clean-up unchanged -/
theorem cleanup_identity_without_lt (s : List Nat) (h : 60 ∉ s) : cleanupHtml5 s = s ∧ cleanupXhtml s = s := by
  have e1 := subWith_id matchEmptyPara matchEmptyPara_lt
  have e2 := subWith_id matchEmptyCell matchEmptyCell_lt
  have e3 := subWith_id matchVoidTag matchVoidTag_lt
  constructor
  · simp only [cleanupHtml5]
    rw [e1 _ _ h, e2 _ _ h]
  · simp only [cleanupXhtml]
    rw [e3 _ _ h, e1 _ _ h, e2 _ _ h]

-- `<p> </p><td class="a"> </td>x` becomes `<td class="a">&nbsp;</td>x`
example : cleanupHtml5 [60, 112, 62, 32, 60, 47, 112, 62, 60, 116, 100, 32, 99, 108, 97, 115, 115, 61, 34, 97, 34, 62, 32, 60, 47, 116, 100, 62, 120] = [60, 116, 100, 32, 99, 108, 97, 115, 115, 61, 34, 97, 34, 62, 38, 110, 98, 115, 112, 59, 60, 47, 116, 100, 62, 120] := by decide +kernel
-- `<br><img src="a" / >` becomes `<br /><img src="a" />`
example : cleanupXhtml [60, 98, 114, 62, 60, 105, 109, 103, 32, 115, 114, 99, 61, 34, 97, 34, 32, 47, 32, 62] = [60, 98, 114, 32, 47, 62, 60, 105, 109, 103, 32, 115, 114, 99, 61, 34, 97, 34, 32, 47, 62] := by decide +kernel


/-- The clean-up of the HTML5 renderer on *any* file content whose tags are well formed (template markup
    around escaped text): no non-blank character of the character data is lost, changed or reordered, the
    only additions are literal `&nbsp;` references (empty cells), and the result is well tagged again.
    (`isSpace` = what Python's `\s` matches, regenerated table.) -/
theorem cleanup_html5_preserves_text (f : List Nat) (h : WellTagged f) :
    Fills (nsText isSpace f) (nsText isSpace (cleanupHtml5 f)) ∧ WellTagged (cleanupHtml5 f) := by
  have p1 := subWith_tagLocal Eq matchEmptyPara (fun _ => rfl) (fun c _ _ e => by rw [e]) para_local f.length false f h
  have p2 := subWith_tagLocal Fills matchEmptyCell Fills.refl (fun c _ _ e => .keep c e) cell_local
    (subWith matchEmptyPara f.length f).length false _ p1.2
  simp only [cleanupHtml5, nsText, WellTagged]
  refine ⟨?_, p2.2⟩
  have := p2.1
  rw [← p1.1] at this
  exact this

/-- The same for the XHTML renderer (` /` of empty tags, empty paragraphs, empty cells). -/
theorem cleanup_xhtml_preserves_text (f : List Nat) (h : WellTagged f) :
    Fills (nsText isSpace f) (nsText isSpace (cleanupXhtml f)) ∧ WellTagged (cleanupXhtml f) := by
  have p0 := subWith_tagLocal Eq matchVoidTag (fun _ => rfl) (fun c _ _ e => by rw [e]) void_local f.length false f h
  have p1 := subWith_tagLocal Eq matchEmptyPara (fun _ => rfl) (fun c _ _ e => by rw [e]) para_local
    (subWith matchVoidTag f.length f).length false _ p0.2
  have p2 := subWith_tagLocal Fills matchEmptyCell Fills.refl (fun c _ _ e => .keep c e) cell_local
    (subWith matchEmptyPara (subWith matchVoidTag f.length f).length (subWith matchVoidTag f.length f)).length false _ p1.2
  simp only [cleanupXhtml, nsText, WellTagged]
  refine ⟨?_, p2.2⟩
  have := p2.1
  rw [← p1.1, ← p0.1] at this
  exact this

/-- without the empty-cell filler nothing at all is added: paragraph removal and the XHTML ` /` keep the
    non-blank character data exactly -/
theorem cleanup_para_and_void_exact (f : List Nat) (h : WellTagged f) :
    nsText isSpace (subWith matchEmptyPara f.length f) = nsText isSpace f ∧
    nsText isSpace (subWith matchVoidTag f.length f) = nsText isSpace f := by
  have p1 := subWith_tagLocal Eq matchEmptyPara (fun _ => rfl) (fun c _ _ e => by rw [e]) para_local f.length false f h
  have p0 := subWith_tagLocal Eq matchVoidTag (fun _ => rfl) (fun c _ _ e => by rw [e]) void_local f.length false f h
  exact ⟨p1.1.symm, p0.1.symm⟩

-- non-vacuity: `<p> </p><td class="a"> </td>x &lt;` is well tagged
example : WellTagged [60, 112, 62, 32, 60, 47, 112, 62, 60, 116, 100, 32, 99, 108, 97, 115, 115, 61, 34, 97, 34, 62, 32, 60, 47, 116, 100, 62, 120, 32, 38, 108, 116, 59] := by unfold WellTagged; decide

/-! ### the render recursion (`Renderable.__str__`) -/

/-- template output that is markup only: a reader sees no character data in it -/
def TagOnly (p : List Nat) : Prop := ∀ b, stripTags (p ++ b) = stripTags b

-- mutual structural induction over the node tree
mutual
theorem strip_renderChild (T : Templates) (pre post : Nat → List Nat)
    (hT : ∀ k x, T k x = pre k ++ x ++ post k) (hpre : ∀ k, TagOnly (pre k)) (hpost : ∀ k, TagOnly (post k)) :
    (n : RNode) → n.flagged = false → ∀ b, stripTags (renderChild T n ++ b) = textDefault false n.leaves ++ stripTags b
  | .text m s, h, b => by
    simp only [RNode.flagged] at h
    subst h
    simp only [renderChild, RNode.leaves, stripTags]
    exact stripTagsAux_noLt _ _ (escape_no_markup s).1
  | .uni m s, h, b => by
    simp only [RNode.flagged] at h
    subst h
    simp only [renderChild, RNode.leaves, stripTags]
    exact stripTagsAux_noLt _ _ (escape_no_markup s).1
  | .elem k cs, h, b => by
    simp only [RNode.flagged] at h
    simp only [renderChild, RNode.leaves, hT, List.append_assoc]
    rw [hpre k, strip_renderChildren T pre post hT hpre hpost cs h, hpost k]
theorem strip_renderChildren (T : Templates) (pre post : Nat → List Nat)
    (hT : ∀ k x, T k x = pre k ++ x ++ post k) (hpre : ∀ k, TagOnly (pre k)) (hpost : ∀ k, TagOnly (post k)) :
    (ns : List RNode) → flaggedL ns = false → ∀ b, stripTags (renderChildren T ns ++ b) = textDefault false (leavesL ns) ++ stripTags b
  | [], _, b => by simp [renderChildren, leavesL, textDefault, applyChain_empty]
  | c :: cs, h, b => by
    simp only [flaggedL, Bool.or_eq_false_iff] at h
    simp only [renderChildren, leavesL, List.append_assoc]
    rw [strip_renderChild T pre post hT hpre hpost c h.1, strip_renderChildren T pre post hT hpre hpost cs h.2]
    simp [textDefault, applyChain_append]
end

/-- For every node tree (any depth and width) without `isMarkup` leaves, rendered by the recursion of
    `Renderable.__str__` through templates that only wrap their content in tags: the character data of the
    output is exactly the escaped document text in document order, so a reader displays exactly the text
    leaves — no leaf contributes an element, attribute or reference. -/
theorem render_displays_leaves (T : Templates) (pre post : Nat → List Nat)
    (hT : ∀ k x, T k x = pre k ++ x ++ post k) (hpre : ∀ k, TagOnly (pre k)) (hpost : ∀ k, TagOnly (post k))
    (n : RNode) (h : n.flagged = false) :
    stripTags (renderSelf T n) = textDefault false n.leaves ∧ textOf (renderSelf T n) = n.leaves := by
  have key : stripTags (renderSelf T n) = textDefault false n.leaves := by
    cases n with
    | text m s =>
      simp only [RNode.flagged] at h; subst h
      have := stripTagsAux_noLt (textDefault false s) [] (escape_no_markup s).1
      simpa [renderSelf, RNode.leaves, stripTags, stripTagsAux] using this
    | uni m s =>
      simp only [RNode.flagged] at h; subst h
      have := stripTagsAux_noLt (textDefault false s) [] (escape_no_markup s).1
      simpa [renderSelf, RNode.leaves, stripTags, stripTagsAux] using this
    | elem k cs =>
      simp only [RNode.flagged] at h
      have := strip_renderChildren T pre post hT hpre hpost cs h []
      simpa [renderSelf, RNode.leaves, stripTags, stripTagsAux] using this
  exact ⟨key, by rw [textOf, key, escape_roundtrip]⟩

/-! #### trees that also contain declared markup (`isMarkup` leaves of the packages html / embed) -/

/-- a piece of declared markup that is complete: it does not end inside a tag -/
def ClosedMarkup (s : List Nat) : Prop := ∀ b, stripTags (s ++ b) = stripTags s ++ stripTags b

mutual
/-- the character data a reader must get from a node: text leaves escaped, markup leaves' own character data -/
def shown : RNode → List Nat
  | .text m s => if m then stripTags s else textDefault false s
  | .uni m s => if m then stripTags s else textDefault false s
  | .elem _ cs => shownL cs
def shownL : List RNode → List Nat
  | [] => []
  | c :: cs => shown c ++ shownL cs
end

mutual
/-- every `isMarkup` leaf is complete markup -/
def markupClosed : RNode → Prop
  | .text m s => m = true → ClosedMarkup s
  | .uni m s => m = true → ClosedMarkup s
  | .elem _ cs => markupClosedL cs
def markupClosedL : List RNode → Prop
  | [] => True
  | c :: cs => markupClosed c ∧ markupClosedL cs
end

/-- the loop of `__str__` is a homomorphism: what a child contributes does not depend on its siblings
    (nothing is carried from one child to the next) -/
theorem children_output_independent (T : Templates) (a b : List RNode) :
    renderChildren T (a ++ b) = renderChildren T a ++ renderChildren T b := by
  induction a with
  | nil => simp [renderChildren]
  | cons c cs ih => simp [renderChildren, ih]

mutual
theorem shown_renderChild (T : Templates) (pre post : Nat → List Nat)
    (hT : ∀ k x, T k x = pre k ++ x ++ post k) (hpre : ∀ k, TagOnly (pre k)) (hpost : ∀ k, TagOnly (post k)) :
    (n : RNode) → markupClosed n → ∀ b, stripTags (renderChild T n ++ b) = shown n ++ stripTags b
  | .text m s, h, b => by
    cases m with
    | false =>
      simp only [renderChild, shown, stripTags]
      exact stripTagsAux_noLt _ _ (escape_no_markup s).1
    | true =>
      simp only [markupClosed] at h
      simpa [renderChild, shown, textDefault] using h trivial b
  | .uni m s, h, b => by
    cases m with
    | false =>
      simp only [renderChild, shown, stripTags]
      exact stripTagsAux_noLt _ _ (escape_no_markup s).1
    | true =>
      simp only [markupClosed] at h
      simpa [renderChild, shown, textDefault] using h trivial b
  | .elem k cs, h, b => by
    simp only [markupClosed] at h
    simp only [renderChild, shown, hT, List.append_assoc]
    rw [hpre k, shown_renderChildren T pre post hT hpre hpost cs h, hpost k]
theorem shown_renderChildren (T : Templates) (pre post : Nat → List Nat)
    (hT : ∀ k x, T k x = pre k ++ x ++ post k) (hpre : ∀ k, TagOnly (pre k)) (hpost : ∀ k, TagOnly (post k)) :
    (ns : List RNode) → markupClosedL ns → ∀ b, stripTags (renderChildren T ns ++ b) = shownL ns ++ stripTags b
  | [], _, b => by simp [renderChildren, shownL]
  | c :: cs, h, b => by
    simp only [markupClosedL] at h
    simp only [renderChildren, shownL, List.append_assoc]
    rw [shown_renderChild T pre post hT hpre hpost c h.1, shown_renderChildren T pre post hT hpre hpost cs h.2]
end

/-- Trees that mix text leaves with declared (complete) markup, in any order and with equal strings on both
    sides: the character data of the output is the escaped text leaves and the markup's own character data, in
    document order — a text leaf is escaped whatever markup was rendered before it. -/
theorem render_with_markup_leaves (T : Templates) (pre post : Nat → List Nat)
    (hT : ∀ k x, T k x = pre k ++ x ++ post k) (hpre : ∀ k, TagOnly (pre k)) (hpost : ∀ k, TagOnly (post k))
    (cs : List RNode) (h : markupClosedL cs) (k : Nat) :
    stripTags (renderSelf T (.elem k cs)) = shownL cs := by
  have := shown_renderChildren T pre post hT hpre hpost cs h []
  simpa [renderSelf, stripTags, stripTagsAux] using this

/-- non-vacuity: raw `<hr>` followed by the text `<hr>` -/
example : stripTags (renderSelf (fun _ x => str "<p>" ++ x ++ str "</p>")
    (.elem 0 [.uni true [60, 104, 114, 62], .elem 0 [.text false [60, 104, 114, 62]]]))
    = [38, 108, 116, 59, 104, 114, 38, 103, 116, 59] := by
  rw [render_with_markup_leaves _ (fun _ => str "<p>") (fun _ => str "</p>") (fun _ _ => rfl)]
  · decide
  · intro _ b; simp [str, stripTags, stripTagsAux]
  · intro _ b; simp [str, stripTags, stripTagsAux]
  · simp [markupClosedL, markupClosed, ClosedMarkup, stripTags, stripTagsAux]

/-! #### templates as sequences of literal output and content interpolations -/

/-- character data of a piece sequence, given the character data `x` of the interpolated content -/
def piecesData : List Piece → List Nat → List Nat
  | [], _ => []
  | .lit p :: ps, x => stripTags p ++ piecesData ps x
  | .content :: ps, x => x ++ piecesData ps x

mutual
/-- the character data a reader must get when templates are piece sequences: literal pieces contribute their
    own character data, every interpolation the character data of the node's children -/
def shownP (tpl : Nat → List Piece) : RNode → List Nat
  | .text m s => if m then stripTags s else textDefault false s
  | .uni m s => if m then stripTags s else textDefault false s
  | .elem k cs => piecesData (tpl k) (shownPL tpl cs)
def shownPL (tpl : Nat → List Piece) : List RNode → List Nat
  | [] => []
  | c :: cs => shownP tpl c ++ shownPL tpl cs
end

/-- every literal piece of every template is complete markup (does not end inside a tag) -/
def LiteralsClosed (tpl : Nat → List Piece) : Prop := ∀ k p, Piece.lit p ∈ tpl k → ClosedMarkup p

theorem strip_renderPieces (x X : List Nat) (hx : ∀ b, stripTags (x ++ b) = X ++ stripTags b) :
    ∀ (ps : List Piece), (∀ p, Piece.lit p ∈ ps → ClosedMarkup p) →
      ∀ b, stripTags (renderPieces x ps ++ b) = piecesData ps X ++ stripTags b
  | [], _, b => by simp [renderPieces, piecesData]
  | .lit p :: ps, h, b => by
    have ih := strip_renderPieces x X hx ps (fun q hq => h q (by simp [hq]))
    simp only [renderPieces, piecesData, List.append_assoc]
    rw [h p (by simp), ih]
  | .content :: ps, h, b => by
    have ih := strip_renderPieces x X hx ps (fun q hq => h q (by simp [hq]))
    simp only [renderPieces, piecesData, List.append_assoc]
    rw [hx, ih]

mutual
theorem shownP_renderChild (tpl : Nat → List Piece) (hl : LiteralsClosed tpl) :
    (n : RNode) → markupClosed n → ∀ b, stripTags (renderChild (pieceTemplates tpl) n ++ b) = shownP tpl n ++ stripTags b
  | .text m s, h, b => by
    cases m with
    | false =>
      simp only [renderChild, shownP, stripTags]
      exact stripTagsAux_noLt _ _ (escape_no_markup s).1
    | true =>
      simp only [markupClosed] at h
      simpa [renderChild, shownP, textDefault] using h trivial b
  | .uni m s, h, b => by
    cases m with
    | false =>
      simp only [renderChild, shownP, stripTags]
      exact stripTagsAux_noLt _ _ (escape_no_markup s).1
    | true =>
      simp only [markupClosed] at h
      simpa [renderChild, shownP, textDefault] using h trivial b
  | .elem k cs, h, b => by
    simp only [markupClosed] at h
    simp only [renderChild, shownP, pieceTemplates]
    exact strip_renderPieces _ _ (shownP_renderChildren tpl hl cs h) (tpl k) (hl k) b
theorem shownP_renderChildren (tpl : Nat → List Piece) (hl : LiteralsClosed tpl) :
    (ns : List RNode) → markupClosedL ns → ∀ b, stripTags (renderChildren (pieceTemplates tpl) ns ++ b) = shownPL tpl ns ++ stripTags b
  | [], _, b => by simp [renderChildren, shownPL]
  | c :: cs, h, b => by
    simp only [markupClosedL] at h
    simp only [renderChildren, shownPL, List.append_assoc]
    rw [shownP_renderChild tpl hl c h.1, shownP_renderChildren tpl hl cs h.2]
end

/-- Templates that are arbitrary sequences of complete literal output (markup *and* fixed words) and
    interpolations of the rendered content — repeated or dropped as the template pleases — over trees mixing
    text with complete declared markup: the character data of the output consists of the templates' own
    character data and, at every interpolation, exactly the escaped text of the leaves below: no leaf
    contributes anything but its own escaped characters, wherever and however often it is shown. -/
theorem render_piece_templates (tpl : Nat → List Piece) (hl : LiteralsClosed tpl)
    (cs : List RNode) (h : markupClosedL cs) (k : Nat) :
    stripTags (renderSelf (pieceTemplates tpl) (.elem k cs)) = shownPL tpl cs := by
  have := shownP_renderChildren tpl hl cs h []
  simpa [renderSelf, stripTags, stripTagsAux] using this

/-- non-vacuity: a caption-like template `<b>T</b>: {{obj}}<i>{{obj}}</i>` with its own words, showing its
    content twice; the text leaf `<` comes out as `&lt;` both times -/
example : stripTags (renderSelf (pieceTemplates fun _ => [.lit [60, 98, 62, 84, 60, 47, 98, 62, 58, 32], .content, .lit [60, 105, 62], .content, .lit [60, 47, 105, 62]])
    (.elem 0 [.elem 0 [.text false [60]]])) = [84, 58, 32, 38, 108, 116, 59, 38, 108, 116, 59] := by
  rw [render_piece_templates]
  · decide
  · intro k p hp
    simp at hp
    rcases hp with rfl | rfl | rfl <;> intro b <;> simp [stripTags, stripTagsAux]
  · simp [markupClosedL, markupClosed]

/-- The clause as the property states it, for a given family of templates `T`: every tree without declared
    markup displays exactly its text leaves.  For the real template files this is NOT a theorem (it is false for
    arbitrary `T`: `unescaping_template_breaks`).  Proved fragments: tag-only wrappers
    (`render_displays_leaves_partial`), arbitrary sequences of closed literal output and content interpolations
    (`render_piece_templates`), and — for the expression / filter layer of the real Jinja2 files — every
    `{{ … }}` of the HTML5 templates that shows a text position is of a class that displays text as text
    (`all_html5_interpolations_safe` over the regenerated table + `safe_interpolation_displays_text`).
    Still missing: (1) that the *source kind* the translator assigns to an expression by its name (DOM node vs raw
    string vs template data) is what the Python objects are at run time, and the control flow of the templates
    (`{% if %}`, `tal:condition/repeat`, macros) — carried by the document-level oracle `doc12`; (2) the same
    for the TAL expressions of the XHTML renderer, whose classes are proved safe in
    `all_xhtml_expressions_safe` + `safe_tal_expression_displays_text` (decoding of attribute values only for
    text without `'`: the Spec reader has no hexadecimal references); (3) interpolations listed as out of scope
    in the tables (URL arguments, math sources, labels / form fields, generated numbers, help-system files). -/
def render_displays_leaves_statement (T : Templates) : Prop :=
  ∀ n : RNode, n.flagged = false → textOf (renderSelf T n) = n.leaves

/-- proved part: every family of templates that only wrap their content in tags -/
theorem render_displays_leaves_partial (T : Templates) (pre post : Nat → List Nat)
    (hT : ∀ k x, T k x = pre k ++ x ++ post k) (hpre : ∀ k, TagOnly (pre k)) (hpost : ∀ k, TagOnly (post k)) :
    render_displays_leaves_statement T :=
  fun n h => (render_displays_leaves T pre post hT hpre hpost n h).2

/-- why the template layer matters (the shape of D9): a template that un-escapes what it is given — as
    Jinja2's `striptags` does — turns the text `<b>` back into a tag. -/
theorem unescaping_template_breaks : ¬ render_displays_leaves_statement (fun _ x => decode x) := by
  intro h
  have h1 := h (.elem 0 [.elem 0 [.text false [60, 98, 62]]]) rfl
  have h2 : renderSelf (fun _ x => decode x) (.elem 0 [.elem 0 [.text false [60, 98, 62]]])
      = decode (textDefault false [60, 98, 62] ++ []) ++ [] := rfl
  rw [h2, escape_roundtrip_in_context, decode_nil] at h1
  have h3 : textOf ([60, 98, 62] ++ [] ++ []) = [] := by
    simp [textOf, stripTags, stripTagsAux, decode_nil]
  have h4 : (RNode.elem 0 [RNode.elem 0 [RNode.text false [60, 98, 62]]]).leaves = [60, 98, 62] := rfl
  rw [h3, h4] at h1
  cases h1

/-- non-vacuity: `<span>` … `</span>` is a tag-only wrapper and a two-level tree with hostile leaves qualifies -/
example : TagOnly (str "<span>") ∧ TagOnly (str "</span>") := by
  constructor <;> intro b <;> simp [str, stripTags, stripTagsAux]

example :
    textOf (renderSelf (fun _ x => str "<span>" ++ x ++ str "</span>")
      (.elem 0 [.text false (str "<a"), .elem 0 [.uni false [38]], .text false (str "&lt;")])) = str "<a&&lt;" := by
  refine (render_displays_leaves _ (fun _ => str "<span>") (fun _ => str "</span>") (fun _ _ => rfl) ?_ ?_ _ rfl).2
  all_goals intro _ b; simp [str, stripTags, stripTagsAux]


/-! ### the expression / filter layer of the Jinja2 templates -/
section TemplateExpressions
open PlasVerif.Model.TemplateExpr PlasVerif.Proofs.TemplateExpr PlasVerif.Generated.Templates

/-- Jinja2's `e` filter, on *any* string (raw text, or what other filters produced): the result cannot be read
    as markup, contains no quote of either kind (safe inside an attribute value), and a reader decodes it back to
    exactly the string — also when template output follows. -/
theorem escape_filter_safe (x post : List Nat) :
    NoMarkup (escape5 x) ∧ 34 ∉ escape5 x ∧ 39 ∉ escape5 x ∧ decode (escape5 x ++ post) = x ++ decode post :=
  ⟨⟨(escape5_clean x).1, (escape5_clean x).2.1, refsOnly_escape5 x⟩, (escape5_clean x).2.2.1, (escape5_clean x).2.2.2,
   decode_escape5_append x post⟩

/-- the string that reaches the page's reader: for the classes ending in `e` whatever the earlier filters
    produced (the text itself for a raw source, its tag-stripped form after `striptags`), else the text -/
def displayed (i : Interp) (s : List Nat) : List Nat :=
  match i.filts with
  | [.esc] => base i.src s
  | [.striptags, .esc] => striptagsWith decode (base i.src s)
  | _ => s

/-- Every interpolation of a syntactically safe class displays document text as text, for every string:
    what it writes is free of markup, free of double quotes when it stands in an attribute value, and a reader
    decodes it to `displayed` — the text itself for `{{ node }}` in element content and for `{{ raw | e }}`. -/
theorem safe_interpolation_displays_text (i : Interp) (h : safe i = true) (hs : i.src ≠ .trusted) (s : List Nat) :
    NoMarkup (emit decode i s) ∧ (i.pos = .attr → 34 ∉ emit decode i s) ∧ decode (emit decode i s) = displayed i s := by
  obtain ⟨file, expr, src, filts, pos, sc⟩ := i
  simp only at hs
  have e5 := fun x => escape_filter_safe x []
  cases src with
  | trusted => exact absurd rfl hs
  | rendered =>
    match filts, pos, h with
    | [], .text, _ =>
      refine ⟨?_, ?_, ?_⟩
      · simpa [emit, base] using escape_no_markup s
      · intro h; cases h
      · simpa [emit, base, displayed] using escape_roundtrip s
    | [.striptags, .esc], p, _ =>
      have := e5 (striptagsWith decode (textDefault false s))
      refine ⟨?_, ?_, ?_⟩
      · simpa [emit, applyFilt, base] using this.1
      · intro _; simpa [emit, applyFilt, base] using this.2.1
      · simpa [emit, applyFilt, base, displayed, decode_nil] using this.2.2.2
  | raw =>
    match filts, pos, h with
    | [.esc], p, _ =>
      have := e5 s
      refine ⟨?_, ?_, ?_⟩
      · simpa [emit, applyFilt, base] using this.1
      · intro _; simpa [emit, applyFilt, base] using this.2.1
      · simpa [emit, applyFilt, base, displayed, decode_nil] using this.2.2.2
    | [.striptags, .esc], p, _ =>
      have := e5 (striptagsWith decode s)
      refine ⟨?_, ?_, ?_⟩
      · simpa [emit, applyFilt, base] using this.1
      · intro _; simpa [emit, applyFilt, base] using this.2.1
      · simpa [emit, applyFilt, base, displayed, decode_nil] using this.2.2.2

/-- exact fidelity for the two classes without `striptags`: the reader gets the document text itself -/
theorem plain_classes_display_the_text (i : Interp) (h : safe i = true) (hs : i.src ≠ .trusted)
    (hf : Filt.striptags ∉ i.filts) (s : List Nat) : decode (emit decode i s) = s := by
  rw [(safe_interpolation_displays_text i h hs s).2.2]
  obtain ⟨file, expr, src, filts, pos, sc⟩ := i
  cases src with
  | trusted => exact absurd rfl hs
  | rendered =>
    match filts, pos, h with
    | [], .text, _ => rfl
    | [.striptags, .esc], p, _ => simp at hf
  | raw =>
    match filts, pos, h with
    | [.esc], p, _ => rfl
    | [.striptags, .esc], p, _ => simp at hf

/-- **Every interpolation of the HTML5 renderer's template files** that shows one of the property's text
    positions belongs to a safe class (regenerated table of all `{{ … }}` of the current files: source kind,
    filter chain, position; finite check by kernel evaluation). -/
theorem all_html5_interpolations_safe : ∀ i ∈ interpolations, i.inScope = true → safe i = true := by
  decide +kernel

/-- non-vacuity: the table is not empty and contains interpolations of every safe class that is not `trusted` -/
example : interpolations.length > 100 ∧
    (interpolations.any fun i => i.inScope && i.src == .rendered && i.filts == [] && i.pos == .text) = true ∧
    (interpolations.any fun i => i.inScope && i.src == .raw && i.filts == [.esc]) = true ∧
    (interpolations.any fun i => i.inScope && i.src == .rendered && i.filts == [.striptags, .esc] && i.pos == .attr) = true := by
  decide +kernel

/-- why the classes are what they are (kernel-checked counterexamples, the shapes of D9, D15a, D16 and of a
    double escape): a raw string without `e` becomes a tag; a rendered node in an attribute keeps its quote. -/
theorem unsafe_classes_break :
    60 ∈ emit decode ⟨"", "", .raw, [], .text, true⟩ [60, 98, 62] ∧
    34 ∈ emit decode ⟨"", "", .rendered, [], .attr, true⟩ [34] ∧
    decode (emit decode ⟨"", "", .rendered, [.esc], .text, true⟩ [60]) ≠ [60] := by
  refine ⟨by decide, by decide, ?_⟩
  have h : emit decode ⟨"", "", .rendered, [.esc], .text, true⟩ [60] = 38 :: 97 :: 109 :: 112 :: 59 :: [108, 116, 59] := by decide
  rw [h, decode_amp_some (matchRef_amp _)]
  simp

/-! #### the TAL expressions of the XHTML templates -/

/-- Every TAL expression of a syntactically safe class displays document text as text, for every string: as
    element content what it writes is free of markup and decodes to exactly the text; as an attribute value it
    contains no `<`, `>` or `"`, and decodes to the text (stated for text without `'`: simpleTAL writes `'` as the
    hexadecimal reference `&#x27;`, which the Spec reader does not interpret). -/
theorem safe_tal_expression_displays_text (i : TalInterp) (h : safeTal i = true) (hs : i.src ≠ .trusted)
    (hm : i.mode ≠ .dropped) (s : List Nat) :
    (i.pos = .content → NoMarkup (emitTal i s) ∧ decode (emitTal i s) = s) ∧
    (i.pos = .attr → 60 ∉ emitTal i s ∧ 62 ∉ emitTal i s ∧ 34 ∉ emitTal i s ∧ (39 ∉ s → decode (emitTal i s) = s)) := by
  obtain ⟨file, expr, src, via, mode, pos, sc⟩ := i
  simp only at hs hm
  cases src with
  | trusted => exact absurd rfl hs
  | rendered =>
    cases mode <;> cases pos <;> cases via <;> simp [safeTal] at h hm <;>
      exact ⟨fun _ => ⟨by simpa [emitTal, base] using escape_no_markup s, by simpa [emitTal, base] using escape_roundtrip s⟩,
             fun h => by cases h⟩
  | raw =>
    cases mode <;> cases pos <;> cases via <;> simp [safeTal] at h hm
    all_goals first
      | exact ⟨fun _ => ⟨by simpa [emitTal, base, talEscapeText_eq] using escape_no_markup s,
                         by simpa [emitTal, base, talEscapeText_eq] using escape_roundtrip s⟩, fun h => by cases h⟩
      | (refine ⟨fun h => (by cases h), fun _ => ?_⟩
         have c := talEscapeAttr_clean s
         exact ⟨by simpa [emitTal, base] using c.1, by simpa [emitTal, base] using c.2.1, by simpa [emitTal, base] using c.2.2,
                fun h39 => by simpa [emitTal, base] using decode_talEscapeAttr s h39⟩)

/-- **Every TAL expression of the XHTML renderer's template files** (`tal:content`, `tal:replace`,
    `tal:attributes`) that shows one of the property's text positions belongs to a safe class (regenerated
    table; finite check by kernel evaluation). -/
theorem all_xhtml_expressions_safe : ∀ i ∈ talInterpolations, i.inScope = true → safeTal i = true := by
  decide +kernel

example : talInterpolations.length > 100 ∧
    (talInterpolations.any fun i => i.inScope && i.src == .rendered && i.pos == .content && !i.viaString) = true ∧
    (talInterpolations.any fun i => i.inScope && i.src == .raw && i.pos == .attr) = true ∧
    (talInterpolations.any fun i => i.inScope && i.src == .raw && i.pos == .content && i.mode == .text) = true := by
  decide +kernel

/-- why the TAL classes are what they are: a raw string inserted as `structure` becomes a tag (the shape of
    D15b read the other way round), and a node put into an attribute — or through `string:` — is escaped twice. -/
theorem unsafe_tal_classes_break :
    60 ∈ emitTal ⟨"", "", .raw, false, .structure, .content, true⟩ [60, 98, 62] ∧
    decode (emitTal ⟨"", "", .rendered, false, .text, .attr, true⟩ [60]) ≠ [60] ∧
    decode (emitTal ⟨"", "", .rendered, true, .text, .content, true⟩ [60]) ≠ [60] := by
  refine ⟨by decide, ?_, ?_⟩
  · have h : emitTal ⟨"", "", .rendered, false, .text, .attr, true⟩ [60] = 38 :: 97 :: 109 :: 112 :: 59 :: [108, 116, 59] := by decide
    rw [h, decode_amp_some (matchRef_amp _)]
    simp
  · have h : emitTal ⟨"", "", .rendered, true, .text, .content, true⟩ [60] = 38 :: 97 :: 109 :: 112 :: 59 :: [108, 116, 59] := by decide
    rw [h, decode_amp_some (matchRef_amp _)]
    simp

end TemplateExpressions

end PlasVerif.Properties.C12
