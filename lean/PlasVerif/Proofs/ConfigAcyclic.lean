import PlasVerif.Proofs.ConfigInterp
/-! Reading back terminates (no `RecursionError`) when references are acyclic. -/
namespace PlasVerif.Proofs.ConfigAcyclic
open PlasVerif.Model.Config PlasVerif.Spec.Config PlasVerif.Proofs.ConfigInterp

/-- `segsDen` with the error kinds kept -/
def segsDenE (look : Str → Except Err Str) : List Seg → Except Err Str
  | [] => .ok []
  | .lit s :: r => (s ++ ·) <$> segsDenE look r
  | .pct :: r => (37 :: ·) <$> segsDenE look r
  | .ref n :: r => do let v ← look n; let rest ← segsDenE look r; pure (v ++ rest)

theorem scan_render (look : Str → Except Err Str) : ∀ (segs : List Seg), (∀ s ∈ segs, s.wf = true) →
    scan look .text (render segs) = segsDenE look segs := by
  intro segs
  induction segs with
  | nil => intro _; rfl
  | cons sg r ih =>
    intro hwf
    have hr := ih (fun s hs => hwf s (List.mem_cons_of_mem _ hs))
    have hsg := hwf sg List.mem_cons_self
    cases sg with
    | lit s =>
      simp only [Seg.wf, Bool.not_eq_true'] at hsg
      have : render (.lit s :: r) = s ++ render r := by simp [render, Seg.render]
      rw [this, scan_lit look s hsg, segsDenE, hr]
    | pct =>
      have : render (.pct :: r) = 37 :: 37 :: render r := by simp [render, Seg.render]
      rw [this, scan_pct, segsDenE, hr]
    | ref n =>
      simp only [Seg.wf, Bool.not_eq_true'] at hsg
      have : render (.ref n :: r) = 37 :: 40 :: (n ++ 41 :: 115 :: render r) := by simp [render, Seg.render]
      rw [this, scan_ref look n hsg, segsDenE, hr]

theorem segsDenE_rec (look : Str → Except Err Str) : ∀ (segs : List Seg),
    segsDenE look segs = .error .recursionError → ∃ n, Seg.ref n ∈ segs ∧ look n = .error .recursionError := by
  intro segs
  induction segs with
  | nil => intro h; simp [segsDenE] at h
  | cons sg r ih =>
    intro h
    cases sg with
    | lit s =>
      simp only [segsDenE, Functor.map, Except.map] at h
      cases hr : segsDenE look r with
      | ok v => simp [hr] at h
      | error e =>
        simp only [hr, Except.error.injEq] at h
        subst h
        obtain ⟨n, hn, hl⟩ := ih hr
        exact ⟨n, List.mem_cons_of_mem _ hn, hl⟩
    | pct =>
      simp only [segsDenE, Functor.map, Except.map] at h
      cases hr : segsDenE look r with
      | ok v => simp [hr] at h
      | error e =>
        simp only [hr, Except.error.injEq] at h
        subst h
        obtain ⟨n, hn, hl⟩ := ih hr
        exact ⟨n, List.mem_cons_of_mem _ hn, hl⟩
    | ref n =>
      simp only [segsDenE, bind, Except.bind] at h
      cases hl : look n with
      | error e =>
        simp only [hl, Except.error.injEq] at h
        subst h
        exact ⟨n, List.mem_cons_self, hl⟩
      | ok v =>
        simp only [hl] at h
        cases hr : segsDenE look r with
        | ok w => simp [hr, pure, Except.pure] at h
        | error e =>
          simp only [hr, Except.error.injEq] at h
          subst h
          obtain ⟨n', hn, hl'⟩ := ih hr
          exact ⟨n', List.mem_cons_of_mem _ hn, hl'⟩

theorem lookupWith_rec (get : Nat → Except Err Val) : ∀ (cands : List Nat),
    lookupWith get cands = .error .recursionError → ∃ j ∈ cands, get j = .error .recursionError := by
  intro cands
  induction cands with
  | nil => intro h; simp [lookupWith] at h
  | cons j js ih =>
    intro h
    simp only [lookupWith] at h
    cases hg : get j with
    | ok v => simp [hg, pure, Except.pure] at h
    | error e =>
      cases e with
      | keyError =>
        simp only [hg] at h
        obtain ⟨j', hj, hr⟩ := ih h
        exact ⟨j', List.mem_cons_of_mem _ hj, hr⟩
      | recursionError => exact ⟨j, List.mem_cons_self, hg⟩
      | valueError => simp [hg] at h
      | systemExit => simp [hg] at h
      | argumentTypeError => simp [hg] at h
      | unsupported => simp [hg] at h

theorem mapM_rec {α β} (f : α → Except Err β) : ∀ (xs : List α),
    xs.mapM f = .error .recursionError → ∃ x ∈ xs, f x = .error .recursionError := by
  intro xs
  induction xs with
  | nil => intro h; simp [pure, Except.pure] at h
  | cons x r ih =>
    intro h
    simp only [List.mapM_cons, bind, Except.bind] at h
    cases hx : f x with
    | error e =>
      simp only [hx, Except.error.injEq] at h
      subst h
      exact ⟨x, List.mem_cons_self, hx⟩
    | ok v =>
      simp only [hx] at h
      cases hr : r.mapM f with
      | ok w => simp [hr, pure, Except.pure] at h
      | error e =>
        simp only [hr, Except.error.injEq] at h
        subst h
        obtain ⟨y, hy, hf⟩ := ih hr
        exact ⟨y, List.mem_cons_of_mem _ hy, hf⟩

/-- every string the option holds is a format string of the grammar whose references go to options of lower rank -/
def Ranked (T : Table) (st : St) (rank : Nat → Nat) : Prop :=
  ∀ i s, (st i = .atom (.str s) ∨ ∃ xs, st i = .list xs ∧ s ∈ xs) →
    ∃ segs, (∀ g ∈ segs, g.wf = true) ∧ s = render segs ∧
      ∀ n, Seg.ref n ∈ segs → ∀ j ∈ candidates T n, rank j < rank i

theorem getItem_no_recursion (T : Table) (st : St) (rank : Nat → Nat) (hr : Ranked T st rank) :
    ∀ (f i : Nat), rank i < f → getItem T st f i ≠ .error .recursionError := by
  intro f
  induction f with
  | zero => intro i h; omega
  | succ f ih =>
    intro i hi hrec
    have hstr : ∀ s, (st i = .atom (.str s) ∨ ∃ xs, st i = .list xs ∧ s ∈ xs) →
        interp (fun name => lookupWith (getItem T st f) (candidates T name)) s ≠ .error .recursionError := by
      intro s hs hbad
      obtain ⟨segs, hwf, rfl, hrk⟩ := hr i s hs
      rw [interp, scan_render _ segs hwf] at hbad
      obtain ⟨n, hn, hl⟩ := segsDenE_rec _ segs hbad
      obtain ⟨j, hj, hg⟩ := lookupWith_rec _ _ hl
      exact ih j (by have := hrk n hn j hj; omega) hg
    unfold getItem at hrec
    split at hrec
    · rename_i s hv
      simp only [Functor.map, Except.map] at hrec
      cases hs : interp (fun name => lookupWith (getItem T st f) (candidates T name)) s with
      | ok v => simp [hs] at hrec
      | error e =>
        simp only [hs, Except.error.injEq] at hrec
        subst hrec
        exact hstr s (Or.inl hv) hs
    · rename_i x xs hv
      simp only [Functor.map, Except.map] at hrec
      cases hs : (x :: xs).mapM (interp fun name => lookupWith (getItem T st f) (candidates T name)) with
      | ok v => simp [hs] at hrec
      | error e =>
        simp only [hs, Except.error.injEq] at hrec
        subst hrec
        obtain ⟨y, hy, hf⟩ := mapM_rec _ _ hs
        exact hstr y (Or.inr ⟨x :: xs, hv, hy⟩) hf
    · simp [pure, Except.pure] at hrec

end PlasVerif.Proofs.ConfigAcyclic
