import PlasVerif.Proofs.IndexMerge
import PlasVerif.Proofs.IndexColumns
set_option linter.unusedVariables false
/-! Helper lemmas for C18, part 7: the walk of the HTML5 index template over groups, columns and sub-trees. -/
namespace PlasVerif.Proofs.Index
open PlasVerif.Model.Index

/-- "is below the top level" -/
abbrev deep (x : Line) : Bool := decide (x.path.length > 1)

theorem topBlocks_flat : ∀ lines : List Line, (∀ l ∈ lines, 1 ≤ l.path.length) →
    (topBlocks lines).flatMap (fun b => b.1 :: b.2) = lines.dropWhile deep := by
  intro lines; induction lines with
  | nil => intro _; rfl
  | cons l ls ih =>
    intro h
    have ih' := ih (fun x hx => h x (List.mem_cons_of_mem _ hx))
    have hl := h l (List.mem_cons_self)
    simp only [topBlocks]
    split
    · rename_i h1
      have : deep l = false := by simp [deep, h1]
      simp only [List.flatMap_cons, List.dropWhile_cons, this]
      rw [ih']
      simp [List.takeWhile_append_dropWhile]
    · rename_i h1
      have : deep l = true := by simp [deep]; omega
      simp only [List.dropWhile_cons, this, if_true]
      exact ih'

theorem topItems_eq_blocks : ∀ lines : List Line,
    topItems lines = (topBlocks lines).map (fun b => (b.1, 1 + b.2.length)) := by
  intro lines; induction lines with
  | nil => rfl
  | cons l ls ih =>
    simp only [topItems, topBlocks]
    split <;> simp [ih]

theorem run'_paths_prefix : ∀ (es : List Entry) (prev : Path) (lines : List Line),
    paths lines <+: paths (run' prev lines es) := by
  intro es; induction es with
  | nil => intro prev lines; exact List.prefix_refl _
  | cons e es ih =>
    intro prev lines
    rw [run']
    refine List.IsPrefix.trans ?_ (ih e.path _)
    rw [step'_paths]
    exact List.prefix_append _ _

theorem run'_paths_nonempty : ∀ (es : List Entry) (prev : Path) (lines : List Line),
    (∀ q ∈ paths lines, q ≠ []) → ∀ q ∈ paths (run' prev lines es), q ≠ [] := by
  intro es; induction es with
  | nil => intro prev lines h; simpa [run'] using h
  | cons e es ih =>
    intro prev lines h
    rw [run']
    apply ih
    intro q hq
    rw [step'_paths] at hq
    rcases List.mem_append.mp hq with hq | hq
    · exact h q hq
    · obtain ⟨r, h1, _, h3⟩ := (mem_newLines_paths _ _ q).mp hq
      subst h3
      intro e
      exact h1 (List.append_eq_nil_iff.mp e).2

/-- the first node created is a top-level one -/
theorem mergeLines_head_top (es : List Entry) (hne : ∀ e ∈ es, e.path ≠ []) :
    (mergeLines es).dropWhile deep = mergeLines es := by
  rw [mergeLines_eq]
  cases es with
  | nil => rfl
  | cons e es =>
    rw [run']
    have hp := run'_paths_prefix es e.path (step' [] [] e)
    have he := hne e (List.mem_cons_self)
    cases hpath : e.path with
    | nil => exact absurd hpath he
    | cons l0 rest =>
      have hs : paths (step' [] [] e) = [l0] :: paths (newLines [l0] rest) := by
        rw [step'_paths, hpath]; simp [commonLen, paths, newLines]
      rw [hs] at hp
      obtain ⟨t, ht⟩ := hp
      try rw [hpath] at ht
      generalize run' (l0 :: rest) (step' [] [] e) es = R at ht ⊢
      cases R with
      | nil => rfl
      | cons a as =>
        simp only [paths, List.map_cons, List.cons_append, List.cons.injEq] at ht
        have : deep a = false := by simp [deep, ← ht.1]
        simp [List.dropWhile_cons, this]

end PlasVerif.Proofs.Index
