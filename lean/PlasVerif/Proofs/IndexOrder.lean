import PlasVerif.Spec.Index
set_option linter.unusedVariables false
/-! Helper lemmas for C18, part 1: Python list comparison lifts strict total orders; the entry order;
    stable insertion sort. -/
namespace PlasVerif.Proofs.Index
open PlasVerif.Model.Index

/-- a strict total order given as a boolean `<` (trichotomous with respect to `=`) -/
structure StrictTotal {α} (lt : α → α → Bool) : Prop where
  irrefl : ∀ a, lt a a = false
  trans : ∀ a b c, lt a b = true → lt b c = true → lt a c = true
  tri : ∀ a b, a ≠ b → lt a b = true ∨ lt b a = true

theorem StrictTotal.asymm {α} {lt : α → α → Bool} (h : StrictTotal lt) (a b : α) :
    lt a b = true → lt b a = false := by
  intro hab
  cases hba : lt b a with
  | false => rfl
  | true => have := h.trans a b a hab hba; simp [h.irrefl] at this

theorem natLt_strictTotal : StrictTotal (fun a b : Nat => decide (a < b)) where
  irrefl := by simp
  trans := by intro a b c; simp; omega
  tri := by intro a b; simp; omega

section
variable {α} [DecidableEq α] {lt : α → α → Bool}

theorem pyListLt_irrefl (h : StrictTotal lt) : ∀ l : List α, pyListLt lt l l = false := by
  intro l; induction l with
  | nil => simp [pyListLt]
  | cons a l ih => simp [pyListLt, ih]

theorem pyListLt_tri (h : StrictTotal lt) : ∀ l m : List α, l ≠ m → pyListLt lt l m = true ∨ pyListLt lt m l = true := by
  intro l; induction l with
  | nil => intro m; cases m <;> simp [pyListLt]
  | cons a l ih =>
    intro m; cases m with
    | nil => simp [pyListLt]
    | cons b m =>
      intro hne
      by_cases hab : a = b
      · subst hab
        have : l ≠ m := by intro e; apply hne; rw [e]
        simpa [pyListLt] using ih m this
      · have hba : ¬ b = a := fun e => hab e.symm
        simpa [pyListLt, hab, hba] using h.tri a b hab

theorem pyListLt_trans (h : StrictTotal lt) : ∀ l m n : List α,
    pyListLt lt l m = true → pyListLt lt m n = true → pyListLt lt l n = true := by
  intro l; induction l with
  | nil => intro m n; cases m <;> cases n <;> simp [pyListLt]
  | cons a l ih =>
    intro m n; cases m with
    | nil => simp [pyListLt]
    | cons b m =>
      cases n with
      | nil => simp [pyListLt]
      | cons c n =>
        by_cases hab : a = b <;> by_cases hbc : b = c
        · subst hab; subst hbc; simpa [pyListLt] using ih m n
        · subst hab; simp [pyListLt, hbc]
        · subst hbc; simp only [pyListLt, hab, if_false, if_true]; intro h1 _; exact h1
        · simp only [pyListLt, hab, hbc, if_false]
          intro h1 h2
          have h3 := h.trans a b c h1 h2
          by_cases hac : a = c
          · subst hac; simp [h.irrefl] at h3
          · simp [hac, h3]

theorem pyListLt_strictTotal (h : StrictTotal lt) : StrictTotal (pyListLt lt) :=
  ⟨pyListLt_irrefl h, pyListLt_trans h, pyListLt_tri h⟩
end

theorem strLt_strictTotal : StrictTotal strLt := pyListLt_strictTotal natLt_strictTotal
theorem tupleLt_strictTotal : StrictTotal tupleLt := pyListLt_strictTotal strLt_strictTotal
theorem keyLt_strictTotal : StrictTotal (pyListLt tupleLt) := pyListLt_strictTotal tupleLt_strictTotal

/-- pulling a strict total order back along an injective map -/
theorem StrictTotal.comap {α β} {lt : β → β → Bool} (h : StrictTotal lt) (f : α → β)
    (inj : ∀ a b, f a = f b → a = b) : StrictTotal (fun a b => lt (f a) (f b)) where
  irrefl a := h.irrefl _
  trans a b c := h.trans _ _ _
  tri a b hne := h.tri _ _ (fun e => hne (inj _ _ e))

theorem levelKey_inj (env : Env) : ∀ a b : Level, levelKey env a = levelKey env b → a = b := by
  intro a b h
  cases a; cases b
  simp [levelKey] at h
  simp [h]

/-- the order on levels: by the tuple of `levelKey` -/
def levelLt (env : Env) (a b : Level) : Bool := tupleLt (levelKey env a) (levelKey env b)

theorem levelLt_strictTotal (env : Env) : StrictTotal (levelLt env) :=
  tupleLt_strictTotal.comap (levelKey env) (levelKey_inj env)

/-- the order on key paths: Python list comparison of the level tuples -/
def pathLt (env : Env) : List Level → List Level → Bool := pyListLt (levelLt env)

theorem pathLt_strictTotal (env : Env) : StrictTotal (pathLt env) := pyListLt_strictTotal (levelLt_strictTotal env)

theorem pyListLt_map_inj {α β} [DecidableEq α] [DecidableEq β] (lt : β → β → Bool) (f : α → β)
    (inj : ∀ a b, f a = f b → a = b) :
    ∀ l m : List α, pyListLt lt (l.map f) (m.map f) = pyListLt (fun a b => lt (f a) (f b)) l m := by
  intro l; induction l with
  | nil => intro m; cases m <;> simp [pyListLt]
  | cons a l ih =>
    intro m; cases m with
    | nil => simp [pyListLt]
    | cons b m =>
      by_cases hab : a = b
      · subst hab; simp [pyListLt, ih]
      · have : ¬ f a = f b := fun e => hab (inj _ _ e)
        simp [pyListLt, hab, this]

/-- `IndexEntry.__lt__` is the lexicographic order of the key paths (the trailing length test never decides) -/
theorem entryLt_eq (env : Env) (a b : Entry) : entryLt env a b = pathLt env a.path b.path := by
  have hm : ∀ l m, pyListLt tupleLt (l.map (levelKey env)) (m.map (levelKey env)) = pathLt env l m :=
    pyListLt_map_inj tupleLt (levelKey env) (levelKey_inj env)
  unfold entryLt entryKey
  simp only [hm]
  cases h1 : pathLt env a.path b.path with
  | true => simp
  | false =>
    cases h2 : pathLt env b.path a.path with
    | true => simp
    | false =>
      have : a.path = b.path := by
        apply Classical.byContradiction
        intro hne
        rcases (pathLt_strictTotal env).tri _ _ hne with h | h <;> simp_all
      simp [this]

end PlasVerif.Proofs.Index
