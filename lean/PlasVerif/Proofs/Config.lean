import PlasVerif.Spec.Config
/-!
Helper lemmas for C16: the global loops of `ConfigManager.read` / `updateFromDict` refine, option by
option, the per-option denotation of `Spec/Config.lean`.
-/
namespace PlasVerif.Proofs.Config
open PlasVerif.Model.Config PlasVerif.Spec.Config

deriving instance DecidableEq for Except

/-! ## well-formed tables -/

/-- no two options share section and key (Python: `ConfigSection.__setitem__` raises on a duplicate) -/
def distinctKeys : Table → Bool
  | [] => true
  | o :: r => r.all (fun p => !(p.sec = o.sec && p.key = o.key)) && distinctKeys r

/-- list and dictionary options start from a list resp. a dictionary -/
def typedDflt (o : Opt) : Bool :=
  match o.ty, o.dflt with
  | .list, .list _ => true
  | .dict _ _, .dict _ => true
  | .atom _, _ => true
  | _, _ => false

def WF (T : Table) : Bool := distinctKeys T && T.all typedDflt

theorem distinctKeys_pairwise {T : Table} (h : distinctKeys T = true) :
    T.Pairwise fun a b => ¬(a.sec = b.sec ∧ a.key = b.key) := by
  induction T with
  | nil => exact List.Pairwise.nil
  | cons o r ih =>
    simp only [distinctKeys, Bool.and_eq_true, List.all_eq_true] at h
    refine List.Pairwise.cons ?_ (ih h.2)
    intro p hp hc
    have := h.1 p hp
    simp [hc.1, hc.2] at this

theorem distinct_idx {T : Table} (h : distinctKeys T = true) {i j : Nat} {a b : Opt}
    (hi : T[i]? = some a) (hj : T[j]? = some b) (hs : a.sec = b.sec) (hk : a.key = b.key) : i = j := by
  have hp := List.pairwise_iff_getElem.mp (distinctKeys_pairwise h)
  obtain ⟨hi', rfl⟩ := List.getElem?_eq_some_iff.mp hi
  obtain ⟨hj', rfl⟩ := List.getElem?_eq_some_iff.mp hj
  rcases Nat.lt_trichotomy i j with hlt | heq | hgt
  · exact absurd ⟨hs, hk⟩ (hp i j hi' hj' hlt)
  · exact heq
  · exact absurd ⟨hs.symm, hk.symm⟩ (hp j i hj' hi' hgt)

/-! ## one file line, seen from one option -/

/-- what a mention does to the option's value (model side conversions) -/
def applyMention (ty : Ty) (cur : Val) (m : Mention) : Except Err Val :=
  match ty, m with
  | .dict t _, .entry k v => dictSetStr t cur k v
  | ty, m => setFromString false ty cur (mentionStr m)

def stepOpt (T : Table) (i : Nat) (o : Opt) (cur : Val) (it : Item) : Except Err Val :=
  match mentionOf T i o it with
  | none => .ok cur
  | some m => applyMention o.ty cur m

theorem tyAt_eq {T : Table} {i : Nat} {o : Opt} (h : T[i]? = some o) : tyAt T i = o.ty := by
  simp [tyAt, h]

theorem set_same (st : St) (i : Nat) (v : Val) : st.set i v i = v := by simp [St.set]
theorem set_other (st : St) {i j : Nat} (v : Val) (h : j ≠ i) : st.set i v j = st j := by simp [St.set, h]

/-- routing: the line that `read` hands to some option is, for option `i`, exactly its `Mention` -/
theorem readItem_refines {T : Table} (hd : distinctKeys T = true) {i : Nat} {o : Opt} (hi : T[i]? = some o)
    {sec k v : Str} {st st' : St}
    (h : readItem false T sec st (k, v) = .ok st') :
    stepOpt T i o (st i) ⟨sec, k, v⟩ = .ok (st' i) := by
  unfold readItem at h
  simp only [] at h
  split at h
  · -- the key names an option `j`
    rename_i j hj
    obtain ⟨hjl, hpj, _⟩ := List.findIdx?_eq_some_iff_getElem.mp hj
    simp only [Bool.and_eq_true, decide_eq_true_eq] at hpj
    have hjo : T[j]? = some T[j] := List.getElem?_eq_getElem hjl
    cases hset : setFromString false (tyAt T j) (st j) v with
    | error e => simp [hset, bind, Except.bind] at h
    | ok w =>
      simp only [hset, bind, Except.bind, pure, Except.pure, Except.ok.injEq] at h
      subst h
      by_cases hij : i = j
      · subst hij
        have ho : T[i] = o := by simpa [hjo] using hi
        subst ho
        simp [stepOpt, mentionOf, addressed, hpj.1, hpj.2, applyMention, mentionStr, set_same]
        rw [← tyAt_eq hjo]; exact hset
      · rw [set_other _ _ hij]
        have hna : addressed o ⟨sec, k, v⟩ = false := by
          apply Bool.eq_false_iff.mpr
          intro ha
          simp only [addressed, Bool.and_eq_true, decide_eq_true_eq] at ha
          exact hij (distinct_idx hd hi hjo (by rw [hpj.1]; exact ha.1.symm) (by rw [hpj.2]; exact ha.2.symm))
        have hkn : keyKnown T sec k = true := by
          simp only [keyKnown, List.any_eq_true, Bool.and_eq_true, decide_eq_true_eq]
          exact ⟨T[j], List.getElem_mem hjl, hpj⟩
        simp [stepOpt, mentionOf, hna, hkn]
  · -- unknown key
    rename_i hnone
    have hall := List.findIdx?_eq_none_iff.mp hnone
    have hna : addressed o ⟨sec, k, v⟩ = false := by
      apply Bool.eq_false_iff.mpr
      intro ha
      simp only [addressed, Bool.and_eq_true, decide_eq_true_eq] at ha
      have := hall o (List.mem_of_getElem? hi)
      simp [ha.1.symm, ha.2.symm] at this
    have hkn : keyKnown T sec k = false := by
      apply Bool.eq_false_iff.mpr
      intro hk
      simp only [keyKnown, List.any_eq_true] at hk
      obtain ⟨p, hp, hpp⟩ := hk
      have := hall p hp
      simp [this] at hpp
    split at h
    · rename_i d hdx
      obtain ⟨hdl, hpd, hfirst⟩ := List.findIdx?_eq_some_iff_getElem.mp hdx
      simp only [Bool.and_eq_true, decide_eq_true_eq] at hpd
      have hdo : T[d]? = some T[d] := List.getElem?_eq_getElem hdl
      by_cases hid : i = d
      · subst hid
        have ho : T[i] = o := by simpa [hdo] using hi
        subst ho
        have hfd : firstDict T i T[i] = true := by
          simp only [firstDict, hpd.2, Bool.true_and, List.all_eq_true]
          intro p hp
          obtain ⟨n, hn, rfl⟩ := List.getElem_of_mem hp
          simp only [List.length_take] at hn
          have hlt : n < i := by omega
          have := hfirst n hlt
          simp only [List.getElem_take]
          simp only [Bool.and_eq_true, decide_eq_true_eq, not_and, Bool.not_eq_true] at this
          simp only [Bool.not_eq_true', Bool.and_eq_false_iff, decide_eq_false_iff_not]
          by_cases hs : T[n].sec = T[i].sec
          · right; exact this (by rw [hs, hpd.1])
          · left; exact hs
        cases hty : tyAt T i with
        | dict t l =>
          simp only [hty] at h
          have hty' : T[i].ty = .dict t l := by rw [← tyAt_eq hdo]; exact hty
          cases hset : dictSetStr t (st i) k v with
          | error e => simp [hset, bind, Except.bind] at h
          | ok w =>
            simp only [hset, bind, Except.bind, pure, Except.pure, Except.ok.injEq] at h
            subst h
            simp [stepOpt, mentionOf, hna, hkn, hfd, hpd.1, applyMention, hty', hset, set_same]
        | atom t => rw [tyAt_eq hdo] at hty; simp [isDict, hty] at hpd
        | list => rw [tyAt_eq hdo] at hty; simp [isDict, hty] at hpd
      · have hnm : mentionOf T i o ⟨sec, k, v⟩ = none := by
          simp only [mentionOf, hna, Bool.false_eq_true, if_false]
          split
          · rename_i hc
            exfalso
            simp only [Bool.and_eq_true, decide_eq_true_eq, firstDict, List.all_eq_true] at hc
            obtain ⟨⟨hsec, hdict, hfi⟩, _⟩ := hc
            obtain ⟨hil, rfl⟩ := List.getElem?_eq_some_iff.mp hi
            rcases Nat.lt_trichotomy i d with hlt | heq | hgt
            · have := hfirst i hlt
              simp [hsec, hdict] at this
            · exact hid heq
            · have hmem : T[d] ∈ T.take i := by
                rw [List.mem_take_iff_getElem]
                exact ⟨d, by omega, rfl⟩
              have := hfi _ hmem
              simp [hpd.1, hpd.2, hsec] at this
          · rfl
        have hst : st' i = st i := by
          cases hty : tyAt T d with
          | dict t l =>
            simp only [hty] at h
            cases hset : dictSetStr t (st d) k v with
            | error e => simp [hset, bind, Except.bind] at h
            | ok w =>
              simp only [hset, bind, Except.bind, pure, Except.pure, Except.ok.injEq] at h
              subst h
              exact set_other _ _ hid
          | atom t => simp only [hty, pure, Except.pure, Except.ok.injEq] at h; rw [h]
          | list => simp only [hty, pure, Except.pure, Except.ok.injEq] at h; rw [h]
        simp [stepOpt, hnm, hst]
    · rename_i hdn
      have halld := List.findIdx?_eq_none_iff.mp hdn
      simp only [pure, Except.pure, Except.ok.injEq] at h
      subst h
      have hnm : mentionOf T i o ⟨sec, k, v⟩ = none := by
        simp only [mentionOf, hna, Bool.false_eq_true, if_false]
        split
        · rename_i hc
          exfalso
          simp only [Bool.and_eq_true, decide_eq_true_eq, firstDict] at hc
          have := halld o (List.mem_of_getElem? hi)
          simp [hc.1.1.symm, hc.1.2.1] at this
        · rfl
      simp [stepOpt, hnm]

/-! ## the loops of `read`, seen from one option -/

def optFold (T : Table) (i : Nat) (o : Opt) (cur : Val) (items : List Item) : Except Err Val :=
  items.foldlM (stepOpt T i o) cur

def secItems (s : Section) : List Item := s.2.map fun kv => ⟨s.1, kv.1, kv.2⟩

theorem optFold_append (T : Table) (i : Nat) (o : Opt) (cur : Val) (a b : List Item) :
    optFold T i o cur (a ++ b) = (optFold T i o cur a).bind fun c => optFold T i o c b := by
  simp [optFold, List.foldlM_append, bind]

theorem items_refine {T : Table} (hd : distinctKeys T = true) {i : Nat} {o : Opt} (hi : T[i]? = some o) (sec : Str) :
    ∀ (items : List (Str × Str)) (st st' : St), items.foldlM (readItem false T sec) st = .ok st' →
      optFold T i o (st i) (items.map fun kv => ⟨sec, kv.1, kv.2⟩) = .ok (st' i) := by
  intro items
  induction items with
  | nil => intro st st' h; simp [pure, Except.pure] at h; simp [optFold, h, pure, Except.pure]
  | cons kv r ih =>
    intro st st' h
    simp only [List.foldlM_cons, bind, Except.bind] at h
    cases h1 : readItem false T sec st kv with
    | error e => simp [h1] at h
    | ok st1 =>
      simp only [h1] at h
      have hs := readItem_refines hd hi (sec := sec) (k := kv.1) (v := kv.2) (st := st) (st' := st1) (by simpa using h1)
      have := ih st1 st' h
      simp only [optFold, List.map_cons, List.foldlM_cons, bind, Except.bind, hs]
      exact this

theorem section_refines {T : Table} (hd : distinctKeys T = true) {i : Nat} {o : Opt} (hi : T[i]? = some o)
    (s : Section) (st st' : St) (h : readSection false T st s = .ok st') :
    optFold T i o (st i) (secItems s) = .ok (st' i) := by
  unfold readSection at h
  split at h
  · exact items_refine hd hi s.1 s.2 st st' h
  · -- "Unrecognized section": no option lives there, so no line of it mentions option `i`
    rename_i hsec
    simp only [pure, Except.pure, Except.ok.injEq] at h
    subst h
    have hne : o.sec ≠ s.1 := by
      intro he
      apply hsec
      simp only [hasSection, List.any_eq_true, decide_eq_true_eq]
      exact ⟨o, List.mem_of_getElem? hi, he⟩
    have : ∀ (items : List (Str × Str)) (c : Val), optFold T i o c (items.map fun kv => ⟨s.1, kv.1, kv.2⟩) = .ok c := by
      intro items
      induction items with
      | nil => intro c; rfl
      | cons kv r ih =>
        intro c
        have hm : mentionOf T i o ⟨s.1, kv.1, kv.2⟩ = none := by
          simp [mentionOf, addressed, Ne.symm hne]
        simp only [optFold, List.map_cons, List.foldlM_cons, stepOpt, hm, bind, Except.bind]
        exact ih c
    exact this s.2 (st i)

theorem file_refines {T : Table} (hd : distinctKeys T = true) {i : Nat} {o : Opt} (hi : T[i]? = some o) :
    ∀ (f : File) (st st' : St), readFile false T st f = .ok st' →
      optFold T i o (st i) (f.flatMap secItems) = .ok (st' i) := by
  intro f
  induction f with
  | nil => intro st st' h; simp [readFile, pure, Except.pure] at h; simp [optFold, h, pure, Except.pure]
  | cons s r ih =>
    intro st st' h
    simp only [readFile, List.foldlM_cons, bind, Except.bind] at h
    cases h1 : readSection false T st s with
    | error e => simp [h1] at h
    | ok st1 =>
      simp only [h1] at h
      rw [List.flatMap_cons, optFold_append, section_refines hd hi s st st1 h1]
      exact ih st1 st' h

theorem read_refines {T : Table} (hd : distinctKeys T = true) {i : Nat} {o : Opt} (hi : T[i]? = some o) :
    ∀ (fs : List File) (st st' : St), read false T st fs = .ok st' →
      optFold T i o (st i) (flat fs) = .ok (st' i) := by
  intro fs
  induction fs with
  | nil => intro st st' h; simp [Model.Config.read, pure, Except.pure] at h; simp [optFold, flat, h, pure, Except.pure]
  | cons f r ih =>
    intro st st' h
    simp only [Model.Config.read, List.foldlM_cons, bind, Except.bind] at h
    cases h1 : readFile false T st f with
    | error e => simp [h1] at h
    | ok st1 =>
      simp only [h1] at h
      have hf : flat (f :: r) = f.flatMap secItems ++ flat r := by simp [flat]; rfl
      rw [hf, optFold_append, file_refines hd hi f st st1 h1]
      exact ih st1 st' h

/-- the fold over all lines is the fold over the option's mentions -/
theorem optFold_mentions (T : Table) (i : Nat) (o : Opt) :
    ∀ (items : List Item) (cur : Val),
      optFold T i o cur items = (items.filterMap (mentionOf T i o)).foldlM (applyMention o.ty) cur := by
  intro items
  induction items with
  | nil => intro cur; rfl
  | cons it r ih =>
    intro cur
    simp only [optFold, List.foldlM_cons, stepOpt, List.filterMap_cons]
    cases hm : mentionOf T i o it with
    | none => simp only [bind, Except.bind]; exact ih cur
    | some m =>
      simp only [List.foldlM_cons]
      cases applyMention o.ty cur m with
      | error e => rfl
      | ok c => simp only [bind, Except.bind]; exact ih c

/-! ## conversions: model (`Except`) against spec (`Option`) -/

theorem bool_conv (s : Str) : (boolFromString s).toOption = specBool s := by
  simp only [boolFromString, specBool, boolWords]
  generalize lower (strip s) = w
  by_cases h1 : w = sYes
  · subst h1; decide
  by_cases h2 : w = sTrue
  · subst h2; decide
  by_cases h3 : w = sOn
  · subst h3; decide
  by_cases h4 : w = sOne
  · subst h4; decide
  by_cases h5 : w = sNo
  · subst h5; decide
  by_cases h6 : w = sFalse
  · subst h6; decide
  by_cases h7 : w = sOff
  · subst h7; decide
  by_cases h8 : w = sZero
  · subst h8; decide
  simp [List.find?, h1, h2, h3, h4, h5, h6, h7, h8, Except.toOption, Ne.symm h1, Ne.symm h2, Ne.symm h3, Ne.symm h4,
    Ne.symm h5, Ne.symm h6, Ne.symm h7, Ne.symm h8]

theorem atom_conv (t : ATy) (s : Str) : (atomFromString false t s).toOption = specAtom t s := by
  cases t with
  | str => rfl
  | int => simp only [atomFromString, specAtom]; cases parseInt s <;> rfl
  | flt => simp only [atomFromString, specAtom]; cases parseDec s <;> rfl
  | bool =>
    simp only [atomFromString, specAtom, Bool.false_eq_true, if_false, ← bool_conv]
    cases boolFromString s <;> rfl

theorem atom_conv_ok {t : ATy} {s : Str} {a : Atom} (h : atomFromString false t s = .ok a) : specAtom t s = some a := by
  rw [← atom_conv, h]; rfl

theorem applyMention_atom (t : ATy) (cur : Val) (m : Mention) :
    applyMention (.atom t) cur m = (atomFromString false t (mentionStr m)).map .atom := by
  cases m <;> simp [applyMention, setFromString, Functor.map, Except.map]

theorem fold_atom (t : ATy) : ∀ (ms : List Mention) (cur v : Val),
    ms.foldlM (applyMention (.atom t)) cur = .ok v →
    (ms.getLast? = none → v = cur) ∧
    (∀ m, ms.getLast? = some m → (specAtom t (mentionStr m)).map .atom = some v) := by
  intro ms
  induction ms with
  | nil => intro cur v h; simp [pure, Except.pure] at h; simp [h]
  | cons m r ih =>
    intro cur v h
    simp only [List.foldlM_cons, bind, Except.bind, applyMention_atom] at h
    cases hc : atomFromString false t (mentionStr m) with
    | error e => simp [hc, Except.map] at h
    | ok a =>
      simp only [hc, Except.map] at h
      cases r with
      | nil =>
        simp only [List.foldlM_nil, pure, Except.pure, Except.ok.injEq] at h
        simp [atom_conv_ok hc, h]
      | cons m2 r2 =>
        have := ih (.atom a) v h
        refine ⟨by simp, ?_⟩
        intro m' hm'
        rw [List.getLast?_cons_cons] at hm'
        exact this.2 m' hm'

theorem fold_list : ∀ (ms : List Mention) (xs : List Str) (v : Val),
    ms.foldlM (applyMention .list) (.list xs) = .ok v →
    v = .list (xs ++ (ms.map fun m => shlexSplit (mentionStr m)).flatten) := by
  intro ms
  induction ms with
  | nil => intro xs v h; simp [pure, Except.pure] at h; simp [h]
  | cons m r ih =>
    intro xs v h
    have h0 : applyMention .list (.list xs) m = .ok (.list (xs ++ shlexSplit (mentionStr m))) := by
      cases m <;> rfl
    simp only [List.foldlM_cons, bind, Except.bind, h0] at h
    rw [ih _ v h]
    simp [List.append_assoc]

theorem dictSetStr_ok {t : ATy} {kvs : List (Str × Atom)} {k v : Str} {w : Val}
    (h : dictSetStr t (.dict kvs) k v = .ok w) : ∃ kvs', putEntry t kvs k v = some kvs' ∧ w = .dict kvs' := by
  simp only [dictSetStr, bind, Except.bind] at h
  cases hc : atomFromString false t v with
  | error e => simp [hc] at h
  | ok a =>
    simp only [hc, pure, Except.pure, Except.ok.injEq] at h
    exact ⟨dictSet kvs k a, by simp [putEntry, atom_conv_ok hc], h.symm⟩

theorem dictSetEntries_ok (t : ATy) : ∀ (es : List Str) (kvs : List (Str × Atom)) (w : Val),
    dictSetEntries t (.dict kvs) es = .ok w →
    ∃ kvs', w = .dict kvs' ∧
      ((es.mapM fun e => (splitEq e []).map fun kv => (strip kv.1, strip kv.2)).bind
        fun ps => ps.foldlM (fun c kv => putEntry t c kv.1 kv.2) kvs) = some kvs' := by
  intro es
  induction es with
  | nil => intro kvs w h; simp [dictSetEntries, pure, Except.pure] at h; exact ⟨kvs, h.symm, by simp⟩
  | cons e r ih =>
    intro kvs w h
    simp only [dictSetEntries] at h
    cases hs : splitEq e [] with
    | none => simp [hs] at h
    | some kv =>
      simp only [hs, bind, Except.bind] at h
      cases h1 : dictSetStr t (.dict kvs) (strip kv.1) (strip kv.2) with
      | error e => simp [h1] at h
      | ok c =>
        simp only [h1] at h
        obtain ⟨kvs1, hp, rfl⟩ := dictSetStr_ok h1
        obtain ⟨kvs', hw, hr⟩ := ih kvs1 w h
        refine ⟨kvs', hw, ?_⟩
        simp only [List.mapM_cons, hs, Option.map_some, bind, Option.bind] at hr ⊢
        cases hm : (r.mapM fun e => (splitEq e []).map fun kv => (strip kv.1, strip kv.2)) with
        | none => simp [hm] at hr
        | some ps => simp only [hm] at hr; simp [pure, hp, hr]

theorem fold_dict (t : ATy) (l : Bool) : ∀ (ms : List Mention) (kvs : List (Str × Atom)) (v : Val),
    ms.foldlM (applyMention (.dict t l)) (.dict kvs) = .ok v →
    ∃ kvs', v = .dict kvs' ∧ ms.foldlM (dictMention t) kvs = some kvs' := by
  intro ms
  induction ms with
  | nil => intro kvs v h; simp [pure, Except.pure] at h; exact ⟨kvs, h.symm, rfl⟩
  | cons m r ih =>
    intro kvs v h
    simp only [List.foldlM_cons, bind, Except.bind] at h
    cases h1 : applyMention (.dict t l) (.dict kvs) m with
    | error e => simp [h1] at h
    | ok c =>
      simp only [h1] at h
      have : ∃ kvs1, c = .dict kvs1 ∧ dictMention t kvs m = some kvs1 := by
        cases m with
        | entry k v =>
          obtain ⟨kvs1, hp, hc⟩ := dictSetStr_ok (show dictSetStr t (.dict kvs) k v = .ok c from h1)
          exact ⟨kvs1, hc, hp⟩
        | direct s =>
          obtain ⟨kvs1, hc, hp⟩ := dictSetEntries_ok t _ kvs c (show dictSetEntries t (.dict kvs) (splitOn 44 s []) = .ok c from h1)
          exact ⟨kvs1, hc, by simpa [dictMention, entriesOf, bind] using hp⟩
      obtain ⟨kvs1, rfl, hm⟩ := this
      obtain ⟨kvs', hv, hr⟩ := ih kvs1 v h
      exact ⟨kvs', hv, by simp [List.foldlM_cons, hm, hr, bind]⟩

/-- the file stage: the model's fold over an option's mentions yields the prescribed value -/
theorem files_den {o : Opt} (ht : typedDflt o = true) {ms : List Mention} {v : Val}
    (h : ms.foldlM (applyMention o.ty) o.dflt = .ok v) : denFiles o ms = some v := by
  unfold denFiles
  cases hty : o.ty with
  | atom t =>
    rw [hty] at h
    have := fold_atom t ms o.dflt v h
    cases hl : ms.getLast? with
    | none => simp [this.1 hl]
    | some m => simpa using this.2 m hl
  | list =>
    rw [hty] at h
    cases hd : o.dflt with
    | list xs => rw [hd] at h; simp [fold_list ms xs v h]
    | atom a => simp [typedDflt, hty, hd] at ht
    | dict kvs => simp [typedDflt, hty, hd] at ht
  | dict t l =>
    rw [hty] at h
    cases hd : o.dflt with
    | dict kvs =>
      rw [hd] at h
      obtain ⟨kvs', hv, hr⟩ := fold_dict t l ms kvs v h
      simp [hr, hv]
    | atom a => simp [typedDflt, hty, hd] at ht
    | list xs => simp [typedDflt, hty, hd] at ht

/-! ## the command-line stage -/

def typedVal (ty : Ty) (v : Val) : Bool :=
  match ty, v with
  | .list, .list _ => true
  | .dict _ _, .dict _ => true
  | .atom _, _ => true
  | _, _ => false

theorem denFiles_typed {o : Opt} {ms : List Mention} {v : Val} (h : denFiles o ms = some v) : typedVal o.ty v = true := by
  unfold denFiles at h
  cases hty : o.ty with
  | atom t => rfl
  | list =>
    cases hd : o.dflt with
    | list xs => simp [hty, hd] at h; subst h; rfl
    | atom a => simp [hty, hd] at h
    | dict kvs => simp [hty, hd] at h
  | dict t l =>
    cases hd : o.dflt with
    | dict kvs =>
      simp only [hty, hd] at h
      cases hf : ms.foldlM (dictMention t) kvs with
      | none => simp [hf] at h
      | some r => simp [hf] at h; subst h; rfl
    | atom a => simp [hty, hd] at h
    | list xs => simp [hty, hd] at h

theorem occsOf_eq (o : Opt) (argv : List Occ) : occsOf o argv = cliOccs o argv := by
  unfold occsOf cliOccs
  congr 1
  funext a
  unfold owns flagsOf
  cases o.ty with
  | atom t => cases t <;> simp
  | list => rfl
  | dict t l => rfl

theorem dictCliEntry_ok {t : ATy} {links : Bool} {kvs : List (Str × Atom)} {args : List Str} {w : Val}
    (h : dictCliEntry t links (.dict kvs) args = .ok w) :
    ∃ kvs', w = .dict kvs' ∧
      ((cliEntries links args).bind fun es => es.foldlM (fun c kv => putEntry t c kv.1 kv.2) kvs) = some kvs' := by
  unfold dictCliEntry at h
  cases links with
  | true =>
    simp only [if_true] at h
    match args, h with
    | [n, title], h =>
      obtain ⟨k1, hp, hw⟩ := dictSetStr_ok h
      exact ⟨k1, hw, by simp [cliEntries, hp, bind]⟩
    | [n, url, title], h =>
      simp only [bind, Except.bind] at h
      cases h1 : dictSetStr t (.dict kvs) (n ++ [45, 117, 114, 108]) url with
      | error e => simp [h1] at h
      | ok c =>
        simp only [h1] at h
        obtain ⟨k1, hp1, rfl⟩ := dictSetStr_ok h1
        obtain ⟨k2, hp2, hw⟩ := dictSetStr_ok h
        exact ⟨k2, hw, by simp [cliEntries, hp1, hp2, bind]⟩
    | [], h => simp at h
    | [_], h => simp at h
    | _ :: _ :: _ :: _ :: _, h => simp at h
  | false =>
    simp only [Bool.false_eq_true, if_false] at h
    match args, h with
    | [k, v], h =>
      obtain ⟨k1, hp, hw⟩ := dictSetStr_ok h
      exact ⟨k1, hw, by simp [cliEntries, hp, bind]⟩
    | [], h => simp at h
    | [_], h => simp at h
    | _ :: _ :: _ :: _, h => simp at h

theorem fold_cli_dict (t : ATy) (links : Bool) : ∀ (occs : List Occ) (kvs : List (Str × Atom)) (v : Val),
    occs.foldlM (fun c a => dictCliEntry t links c a.args) (.dict kvs) = .ok v →
    ∃ kvs', v = .dict kvs' ∧
      occs.foldlM (fun c a => do
        let es ← cliEntries links a.args
        es.foldlM (fun c kv => putEntry t c kv.1 kv.2) c) kvs = some kvs' := by
  intro occs
  induction occs with
  | nil => intro kvs v h; simp [pure, Except.pure] at h; exact ⟨kvs, h.symm, rfl⟩
  | cons a r ih =>
    intro kvs v h
    simp only [List.foldlM_cons, bind, Except.bind] at h
    cases h1 : dictCliEntry t links (.dict kvs) a.args with
    | error e => simp [h1] at h
    | ok c =>
      simp only [h1] at h
      obtain ⟨k1, rfl, hp⟩ := dictCliEntry_ok h1
      obtain ⟨kvs', hv, hr⟩ := ih k1 v h
      refine ⟨kvs', hv, ?_⟩
      simp only [List.foldlM_cons, bind] at hp ⊢
      rw [hp]
      exact hr

/-- the command-line stage of one option yields the prescribed value -/
theorem cli_den {o : Opt} {cur v : Val} {argv : List Occ} (ht : typedVal o.ty cur = true)
    (h : updateOpt o cur argv = .ok v) : denCli o cur (cliOccs o argv) = some v := by
  unfold updateOpt at h
  rw [occsOf_eq] at h
  unfold denCli
  generalize cliOccs o argv = occs at h ⊢
  cases hty : o.ty with
  | atom t =>
    cases t with
    | bool =>
      simp only [hty] at h ⊢
      cases hl : occs.getLast? with
      | none => simp only [hl, pure, Except.pure, Except.ok.injEq] at h; simp [h]
      | some a => simp only [hl, pure, Except.pure, Except.ok.injEq] at h; simp [← h]
    | str =>
      simp only [hty] at h ⊢
      cases hl : occs.getLast? with
      | none => simp only [hl, pure, Except.pure, Except.ok.injEq] at h; simp [h]
      | some a =>
        simp only [hl] at h ⊢
        match hargs : a.args, h with
        | [s], h =>
          simp only [Functor.map, Except.map] at h
          cases hc : atomFromString false .str s with
          | error e => simp [hc] at h
          | ok x => simp only [hc, Except.ok.injEq] at h; simp [atom_conv_ok hc, h]
        | [], h => simp at h
        | _ :: _ :: _, h => simp at h
    | int =>
      simp only [hty] at h ⊢
      cases hl : occs.getLast? with
      | none => simp only [hl, pure, Except.pure, Except.ok.injEq] at h; simp [h]
      | some a =>
        simp only [hl] at h ⊢
        match hargs : a.args, h with
        | [s], h =>
          simp only [Functor.map, Except.map] at h
          cases hc : atomFromString false .int s with
          | error e => simp [hc] at h
          | ok x => simp only [hc, Except.ok.injEq] at h; simp [atom_conv_ok hc, h]
        | [], h => simp at h
        | _ :: _ :: _, h => simp at h
    | flt =>
      simp only [hty] at h ⊢
      cases hl : occs.getLast? with
      | none => simp only [hl, pure, Except.pure, Except.ok.injEq] at h; simp [h]
      | some a =>
        simp only [hl] at h ⊢
        match hargs : a.args, h with
        | [s], h =>
          simp only [Functor.map, Except.map] at h
          cases hc : atomFromString false .flt s with
          | error e => simp [hc] at h
          | ok x => simp only [hc, Except.ok.injEq] at h; simp [atom_conv_ok hc, h]
        | [], h => simp at h
        | _ :: _ :: _, h => simp at h
  | list =>
    simp only [hty] at h ht ⊢
    cases cur with
    | list xs => simp only [pure, Except.pure, Except.ok.injEq] at h; simp [h]
    | atom a => simp [typedVal] at ht
    | dict kvs => simp [typedVal] at ht
  | dict t l =>
    simp only [hty] at h ht ⊢
    cases cur with
    | dict kvs =>
      obtain ⟨kvs', hv, hr⟩ := fold_cli_dict t l occs kvs v h
      simp only [bind] at hr
      simp [hr, hv]
    | atom a => simp [typedVal] at ht
    | list xs => simp [typedVal] at ht

/-- `updateFromDict` touches option `k + n` with `updateOpt` of the `n`-th remaining option and nothing else -/
theorem updateFrom_spec (T : Table) (argv : List Occ) : ∀ (os : List Opt) (k : Nat) (st st' : St),
    updateFrom T argv os k st = .ok st' →
    ∀ (n : Nat) (o : Opt), os[n]? = some o → updateOptD T o (st (k + n)) argv = .ok (st' (k + n)) := by
  intro os
  induction os with
  | nil => intro k st st' _ n o hn; simp at hn
  | cons o1 r ih =>
    intro k st st' h n o hn
    simp only [updateFrom, bind, Except.bind] at h
    cases h1 : updateOptD T o1 (st k) argv with
    | error e => simp [h1] at h
    | ok v1 =>
      simp only [h1] at h
      -- indices below `k + 1` are not touched by the rest
      have hfix : ∀ (os : List Opt) (k' : Nat) (s s' : St), updateFrom T argv os k' s = .ok s' → ∀ j, j < k' → s' j = s j := by
        intro os
        induction os with
        | nil => intro k' s s' hh j _; simp [updateFrom, pure, Except.pure] at hh; rw [hh]
        | cons o2 r2 ih2 =>
          intro k' s s' hh j hj
          simp only [updateFrom, bind, Except.bind] at hh
          cases h2 : updateOptD T o2 (s k') argv with
          | error e => simp [h2] at hh
          | ok v2 =>
            simp only [h2] at hh
            rw [ih2 (k' + 1) _ s' hh j (by omega), set_other _ _ (by omega)]
      cases n with
      | zero =>
        simp only [List.getElem?_cons_zero, Option.some.injEq] at hn
        subst hn
        rw [Nat.add_zero, hfix r (k + 1) _ st' h k (by omega), set_same]
        exact h1
      | succ m =>
        simp only [List.getElem?_cons_succ] at hn
        have := ih (k + 1) _ st' h m o hn
        rw [set_other _ _ (by omega)] at this
        rw [show k + (m + 1) = k + 1 + m by omega]
        exact this

end PlasVerif.Proofs.Config
