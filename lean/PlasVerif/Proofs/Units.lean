import PlasVerif.Proofs.Keyword
/-! `readUnitOfMeasure` recognises exactly the written unit, and the dimension theorem built on it. -/
namespace PlasVerif.Proofs.Units
open PlasVerif.Spec.Conform
open PlasVerif.Model.Numbers PlasVerif.Spec.Literals PlasVerif.Proofs.Numbers PlasVerif.Proofs.Keyword
open PlasVerif.Generated.Units

/-- `readUnitOfMeasure` on a stream that starts with a character: the two keyword look-ups -/
theorem readUnit_ch (T : List (List Nat × Rat)) (c : Nat) (Y : List Tok) :
    readUnit T (.ch c :: Y) =
      ((match (readKeyword T (readKeyword [(kwTrue, 0)] (.ch c :: Y)).2).1 with
        | some w => w.2
        | none => (T.head?.map (·.2)).getD 0),
       (readKeyword T (readKeyword [(kwTrue, 0)] (.ch c :: Y)).2).2) := by
  simp only [readUnit, readOptionalSpaces, expand]
  simp
  split <;> simp_all

theorem readUnit_spaces (T : List (List Nat × Rat)) (n : Nat) (Y : List Tok) :
    readUnit T (spaces n ++ Y) = readUnit T Y := by
  simp only [readUnit, ros_spaces']

theorem readUnit_settle (T : List (List Nat × Rat)) (Y : List Tok) : readUnit T (settle Y) = readUnit T Y := by
  cases Y with
  | nil => rfl
  | cons t ts =>
    cases t <;> simp [readUnit, settle, expand, readOptionalSpaces]

theorem readUnit_seqRest (T : List (List Nat × Rat)) (Y : List Tok) : readUnit T (seqRest true Y) = readUnit T Y := by
  cases Y with
  | nil => rfl
  | cons t ts =>
    cases t <;> simp [readUnit, seqRest, expand, readOptionalSpaces]

theorem readUnit_decRest (T : List (List Nat × Rat)) (d : DecBody) (Y : List Tok) :
    readUnit T (decRest d Y) = readUnit T Y := by
  unfold decRest; split
  · exact readUnit_settle T Y
  · exact readUnit_seqRest T Y

/-- a register as unit ("register multiple") -/
theorem readUnit_reg (T : List (List Nat × Rat)) (v : Int) (Z : List Tok) :
    readUnit T (.reg v false :: Z) = ((v : Rat), Z) := by
  simp [readUnit, readOptionalSpaces, expand]

theorem sameWord_ne_nil {sp w : List Nat} (h : sameWord sp w = true) (hne : w ≠ []) : ∃ c cs, sp = c :: cs := by
  cases sp with
  | nil => cases w with
    | nil => exact absurd rfl hne
    | cons _ _ => simp [sameWord] at h
  | cons c cs => exact ⟨c, cs, rfl⟩

def truPart (tru : Option (List Nat × Nat)) : List Tok :=
  match tru with | none => [] | some (w, k) => w.map .ch ++ spaces k

/-- **The unit matcher.** For a table `T` in which the word at position `pos` is the first that does not fail on the
    written unit, `readUnitOfMeasure` on blanks, optional `true` (any case) + blanks, the unit in any letter case and
    whatever follows, returns that unit's value and consumes exactly that text plus one optional space. -/
theorem readUnit_word (T : List (List Nat × Rat)) (pos : Nat) (w : List Nat × Rat) (pre : Nat)
    (tru : Option (List Nat × Nat)) (sp : List Nat) (Z : List Tok)
    (hi : T[pos]? = some w) (hne : w.1 ≠ []) (hs : sameWord sp w.1 = true)
    (htru : (match tru with | none => true | some (tw, _) => sameWord tw kwTrue) = true)
    (hct : clash kwTrue w.1 = true)
    (hf : ∀ x ∈ T.take pos, failsOn x.1 w.1 Z = true) :
    readUnit T (spaces pre ++ (truPart tru ++ sp.map .ch ++ Z)) = (w.2, readOneOptionalSpace Z) := by
  rw [readUnit_spaces]
  obtain ⟨c, cs, rfl⟩ := sameWord_ne_nil hs hne
  have hsel := tryWords_select T pos w (c :: cs) Z hi hne hs hf
  cases tru with
  | none =>
    have hfail : ∀ x ∈ [(kwTrue, (0 : Rat))], failsOn x.1 (c :: cs) Z = true := by
      intro x hx; simp at hx; subst hx
      simp [failsOn, clash_congr kwTrue (c :: cs) w.1 (by simpa [sameWord] using hs), hct]
    have h1 := tryWords_none [(kwTrue, (0 : Rat))] (c :: cs) Z hfail
    simp only [truPart, List.nil_append, List.map_cons, List.cons_append] at h1 hsel ⊢
    rw [readUnit_ch]
    simp only [readKeyword]
    rw [ros_noSp (Tok.ch c :: _) rfl, h1]
    simp only []
    rw [ros_noSp (Tok.ch c :: _) rfl, hsel]
  | some tk =>
    obtain ⟨tw, k⟩ := tk
    simp only at htru
    obtain ⟨tc, tcs, rfl⟩ := sameWord_ne_nil htru (by simp [kwTrue])
    have h1 := tryWords_hit (kwTrue, (0 : Rat)) [] (tc :: tcs) (spaces k ++ ((c :: cs).map .ch ++ Z)) (by simp [kwTrue]) htru
    simp only [truPart, List.map_cons, List.cons_append, List.append_assoc] at h1 hsel ⊢
    rw [readUnit_ch]
    simp only [readKeyword]
    rw [ros_noSp (Tok.ch tc :: _) rfl, h1]
    simp only []
    rw [ros_oneSpace, ros_spaces', ros_noSp (Tok.ch c :: _) rfl, hsel]

end PlasVerif.Proofs.Units
