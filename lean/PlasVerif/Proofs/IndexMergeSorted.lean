import PlasVerif.Proofs.IndexMerge
set_option linter.unusedVariables false
/-! Helper lemmas for C18, part 5: on a sorted entry list the prefix-merge creates the nodes in strictly
    increasing path order (hence one node per path, siblings in collation order). -/
namespace PlasVerif.Proofs.Index
open PlasVerif.Model.Index

section
variable {α} [DecidableEq α] {lt : α → α → Bool}

theorem pyListLt_prefix : ∀ q p : List α, q <+: p → q ≠ p → pyListLt lt q p = true := by
  intro q; induction q with
  | nil => intro p _ hne; cases p with
    | nil => exact absurd rfl hne
    | cons b p => simp [pyListLt]
  | cons a q ih =>
    intro p hpre hne
    cases p with
    | nil => simp at hpre
    | cons b p =>
      obtain ⟨e, h⟩ := List.cons_prefix_cons.mp hpre
      subst e
      have : q ≠ p := fun e => hne (by rw [e])
      simpa [pyListLt] using ih p h this

theorem pyListLt_append_left : ∀ t a b : List α, pyListLt lt (t ++ a) (t ++ b) = pyListLt lt a b := by
  intro t; induction t with
  | nil => intro a b; rfl
  | cons x t ih => intro a b; simp [pyListLt, ih]
end

variable (env : Env)

/-- `prev ≤ item` and the first differing level: everything created for `item` lies strictly after `prev` -/
theorem pathLt_new (prev item : Path) (h : pathLt env item prev = false) (r : Path)
    (hr : r ≠ []) (hpre : r <+: item.drop (commonLen prev item)) :
    pathLt env prev (item.take (commonLen prev item) ++ r) = true := by
  have ht := commonLen_take prev item
  have hd := commonLen_drop prev item
  generalize commonLen prev item = c at ht hd hpre ⊢
  have e1 : prev = item.take c ++ prev.drop c := by rw [← ht, List.take_append_drop]
  have e2 : item = item.take c ++ item.drop c := by rw [List.take_append_drop]
  have h' : pyListLt (levelLt env) (item.drop c) (prev.drop c) = false := by
    rw [← pyListLt_append_left (item.take c)]
    rw [← e2, ← e1]; exact h
  show pyListLt (levelLt env) prev (item.take c ++ r) = true
  rw [e1, pyListLt_append_left]
  cases hdp : prev.drop c with
  | nil =>
    cases r with
    | nil => exact absurd rfl hr
    | cons y r' => simp [pyListLt]
  | cons x dp =>
    cases r with
    | nil => exact absurd rfl hr
    | cons y r' =>
      cases hdi : item.drop c with
      | nil => rw [hdi] at hpre; simp at hpre
      | cons y0 d' =>
        rw [hdi] at hpre
        obtain ⟨e, _⟩ := List.cons_prefix_cons.mp hpre
        subst e
        have hxy : x ≠ y := hd x y dp d' hdp hdi
        have hyx : ¬ y = x := fun e => hxy e.symm
        rw [hdp, hdi] at h'
        simp only [pyListLt, hyx, if_false] at h'
        simp only [pyListLt, hxy, if_false]
        rcases (levelLt_strictTotal env).tri x y hxy with h | h
        · exact h
        · rw [h] at h'; cases h'

/-- the created nodes are themselves in increasing order (each is a proper prefix of the next ones) -/
theorem newLines_pairwise : ∀ (ls : List Level) (cur : Path),
    (paths (newLines cur ls)).Pairwise (fun a b => pathLt env a b = true) := by
  intro ls; induction ls with
  | nil => intro cur; simp [newLines, paths]
  | cons l ls ih =>
    intro cur
    simp only [newLines, paths, List.map_cons]
    apply List.pairwise_cons.mpr
    refine ⟨?_, ih (cur ++ [l])⟩
    intro q hq
    obtain ⟨r, h1, h2, h3⟩ := (mem_newLines_paths ls (cur ++ [l]) q).mp hq
    subst h3
    apply pyListLt_prefix
    · exact ⟨r, rfl⟩
    · intro e
      have := congrArg List.length e
      simp at this
      exact h1 this

/-- invariant of the loop on sorted input -/
structure Increasing (prev : Path) (lines : List Line) : Prop where
  pw : (paths lines).Pairwise (fun a b => pathLt env a b = true)
  le : ∀ q ∈ paths lines, q = prev ∨ pathLt env q prev = true

theorem step'_increasing (prev : Path) (lines : List Line) (item : Entry)
    (hK : Increasing env prev lines) (hle : pathLt env item.path prev = false) :
    Increasing env item.path (step' prev lines item) := by
  have ST := pathLt_strictTotal env
  have hprev : prev = item.path ∨ pathLt env prev item.path = true := by
    by_cases e : prev = item.path
    · exact Or.inl e
    · rcases ST.tri _ _ e with h | h
      · exact Or.inr h
      · rw [h] at hle; cases hle
  have hnew : ∀ q ∈ paths (newLines (item.path.take (commonLen prev item.path)) (item.path.drop (commonLen prev item.path))),
      pathLt env prev q = true ∧ (q = item.path ∨ pathLt env q item.path = true) := by
    intro q hq
    obtain ⟨r, h1, h2, h3⟩ := (mem_newLines_paths _ _ q).mp hq
    subst h3
    refine ⟨pathLt_new env prev item.path hle r h1 h2, ?_⟩
    have hp : item.path.take (commonLen prev item.path) ++ r <+: item.path := by
      obtain ⟨t, ht⟩ := h2
      refine ⟨t, ?_⟩
      rw [List.append_assoc, ht, List.take_append_drop]
    by_cases e : item.path.take (commonLen prev item.path) ++ r = item.path
    · exact Or.inl e
    · exact Or.inr (pyListLt_prefix _ _ hp e)
  constructor
  · rw [step'_paths]
    apply List.pairwise_append.mpr
    refine ⟨hK.pw, newLines_pairwise env _ _, ?_⟩
    intro a ha b hb
    have hb' := (hnew b hb).1
    rcases hK.le a ha with e | h
    · rw [e]; exact hb'
    · exact ST.trans _ _ _ h hb'
  · rw [step'_paths]
    intro q hq
    rcases List.mem_append.mp hq with hq | hq
    · rcases hK.le q hq with e | h
      · subst e; exact hprev
      · rcases hprev with e | h2
        · subst e; exact Or.inr h
        · exact Or.inr (ST.trans _ _ _ h h2)
    · exact (hnew q hq).2

theorem run'_increasing : ∀ (es : List Entry) (prev : Path) (lines : List Line),
    Increasing env prev lines →
    (prev :: es.map (·.path)).Pairwise (fun a b => pathLt env b a = false) →
    (paths (run' prev lines es)).Pairwise (fun a b => pathLt env a b = true) := by
  intro es; induction es with
  | nil => intro prev lines hK _; simpa [run'] using hK.pw
  | cons e es ih =>
    intro prev lines hK hs
    rw [run']
    simp only [List.map_cons] at hs
    obtain ⟨h1, h2⟩ := List.pairwise_cons.mp hs
    exact ih e.path _ (step'_increasing env prev lines e hK (h1 e.path (by simp))) h2

end PlasVerif.Proofs.Index
