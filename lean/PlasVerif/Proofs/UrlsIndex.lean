import PlasVerif.Model.UrlsIndex
/-! Helper lemmas for C14: the groups of the index page have pairwise distinct ids. -/
namespace PlasVerif.Proofs.UrlsIndex
open PlasVerif.Model.UrlsIndex

def key (g : Group) : List Char × List Char := (g.title, g.id)

theorem addTo_some (title : List Char) (x : Nat) : ∀ (bs bs' : List Group), addTo title x bs = some bs' →
    bs'.map key = bs.map key ∧ ∃ g ∈ bs', x ∈ g.items
  | [], _, h => by simp [addTo] at h
  | g :: gs, bs', h => by
    simp only [addTo] at h
    split at h
    · cases h
      exact ⟨by simp [key], _, List.mem_cons_self, by simp⟩
    · cases h2 : addTo title x gs with
      | none => simp [h2] at h
      | some r =>
        simp only [h2, Option.map_some, Option.some.injEq] at h
        subst h
        obtain ⟨a, g', hg, hx⟩ := addTo_some title x gs r h2
        exact ⟨by simp [a], g', List.mem_cons_of_mem _ hg, hx⟩

theorem addTo_none (title : List Char) (x : Nat) : ∀ (bs : List Group), addTo title x bs = none →
    ∀ g ∈ bs, g.title ≠ title
  | [], _ => by simp
  | g :: gs, h => by
    simp only [addTo] at h
    split at h
    · simp at h
    · rename_i hne
      cases h2 : addTo title x gs with
      | some r => simp [h2] at h
      | none =>
        intro g' hg'
        simp only [List.mem_cons] at hg'
        rcases hg' with rfl | hg'
        · exact hne
        · exact addTo_none title x gs h2 g' hg'

theorem sym_not_infix : isInfix "Symbols".toList letters = false := by decide
theorem us_not_infix : isInfix ['_'] letters = false := by decide

/-- the id determines the title: two groups with different titles have different ids -/
theorem classify_id_inj (a b : Option (List Char)) (h : (classify a).2 = (classify b).2) :
    (classify a).1 = (classify b).1 := by
  have key : ∀ c : Option (List Char),
      (∃ t, isInfix t letters = true ∧ classify c = (t, t)) ∨
      classify c = ("_ (Underscore)".toList, ['_']) ∨ classify c = ("Symbols".toList, "Symbols".toList) := by
    intro c
    cases c with
    | none => right; right; rfl
    | some t =>
      simp only [classify]
      split
      · left; exact ⟨t, by assumption, rfl⟩
      · split
        · right; left; rfl
        · right; right; rfl
  rcases key a with ⟨t, ht, ea⟩ | ea | ea <;> rcases key b with ⟨u, hu, eb⟩ | eb | eb <;>
    simp only [ea, eb] at h ⊢
  all_goals first
    | exact h
    | rfl
    | exact absurd h (by decide)
    | (subst h; rw [us_not_infix] at ht; cases ht)
    | (subst h; rw [us_not_infix] at hu; cases hu)

/-- invariant of the loop, on the (title, id) pairs of the groups built so far -/
def Inv (K : List (List Char × List Char)) : Prop :=
  K.Pairwise (fun a b => a.1 ≠ b.1) ∧ ∀ k ∈ K, ∃ c, k = classify c

theorem step_inv (bs : List Group) (c : Option (List Char)) (x : Nat) (h : Inv (bs.map key)) :
    Inv ((step bs c x).map key) ∧ (∃ g ∈ step bs c x, x ∈ g.items) ∧
    (∀ g ∈ bs, ∀ y ∈ g.items, ∃ g' ∈ step bs c x, y ∈ g'.items) := by
  unfold step
  cases h2 : addTo (classify c).1 x bs with
  | some bs' =>
    obtain ⟨e, hx⟩ := addTo_some _ x bs bs' h2
    refine ⟨by simp only; rw [e]; exact h, hx, ?_⟩
    intro g hg y hy
    -- items only grow: by induction on the list inside addTo
    clear hx e h
    induction bs generalizing bs' with
    | nil => simp at hg
    | cons b bs ih =>
      simp only [addTo] at h2
      split at h2
      · cases h2
        simp only [List.mem_cons] at hg
        rcases hg with rfl | hg
        · exact ⟨_, List.mem_cons_self, by simp [hy]⟩
        · exact ⟨g, List.mem_cons_of_mem _ hg, hy⟩
      · cases h3 : addTo (classify c).1 x bs with
        | none => simp [h3] at h2
        | some r =>
          simp only [h3, Option.map_some, Option.some.injEq] at h2
          subst h2
          simp only [List.mem_cons] at hg
          rcases hg with rfl | hg
          · exact ⟨g, List.mem_cons_self, hy⟩
          · obtain ⟨g', hg', hy'⟩ := ih r h3 hg
            exact ⟨g', List.mem_cons_of_mem _ hg', hy'⟩
  | none =>
    have hn := addTo_none _ x bs h2
    simp only [List.map_append, List.map_cons, List.map_nil, key]
    refine ⟨⟨?_, ?_⟩, ⟨{ title := (classify c).1, id := (classify c).2, items := [x] }, by simp, by simp⟩, ?_⟩
    · refine List.pairwise_append.mpr ⟨h.1, by simp, ?_⟩
      intro a ha b hb
      simp only [List.mem_singleton] at hb
      subst hb
      obtain ⟨g, hg, rfl⟩ := List.mem_map.mp ha
      exact hn g hg
    · intro k hk
      simp only [List.mem_append, List.mem_singleton] at hk
      rcases hk with hk | rfl
      · exact h.2 k hk
      · exact ⟨c, rfl⟩
    · intro g hg y hy
      exact ⟨g, by simp [hg], hy⟩

theorem groupsGo_inv : ∀ (cs : List (Option (List Char))) (n : Nat) (bs : List Group), Inv (bs.map key) →
    Inv ((groupsGo cs n bs).map key)
  | [], _, _, h => h
  | c :: cs, n, bs, h => groupsGo_inv cs (n + 1) (step bs c n) (step_inv bs c n h).1

/-- distinct titles give distinct ids -/
theorem ids_pairwise (K : List (List Char × List Char)) (h : Inv K) : K.Pairwise (fun a b => a.2 ≠ b.2) := by
  refine h.1.imp_of_mem ?_
  intro a b ha hb hne heq
  obtain ⟨ca, rfl⟩ := h.2 a ha
  obtain ⟨cb, rfl⟩ := h.2 b hb
  exact hne (classify_id_inj ca cb heq)

/-- items already placed stay placed -/
theorem groupsGo_keeps : ∀ (cs : List (Option (List Char))) (n : Nat) (bs : List Group), Inv (bs.map key) →
    ∀ g ∈ bs, ∀ y ∈ g.items, ∃ g' ∈ groupsGo cs n bs, y ∈ g'.items
  | [], _, _, _, g, hg, y, hy => ⟨g, hg, hy⟩
  | c :: cs, n, bs, h, g, hg, y, hy => by
    obtain ⟨g1, hg1, hy1⟩ := (step_inv bs c n h).2.2 g hg y hy
    exact groupsGo_keeps cs (n + 1) (step bs c n) (step_inv bs c n h).1 g1 hg1 y hy1

theorem groupsGo_places : ∀ (cs : List (Option (List Char))) (n : Nat) (bs : List Group), Inv (bs.map key) →
    ∀ i, i < cs.length → ∃ g ∈ groupsGo cs n bs, (n + i) ∈ g.items
  | [], _, _, _, i, hi => by simp at hi
  | c :: cs, n, bs, h, i, hi => by
    have st := step_inv bs c n h
    cases i with
    | zero =>
      obtain ⟨g, hg, hx⟩ := st.2.1
      exact groupsGo_keeps cs (n + 1) (step bs c n) st.1 g hg n hx
    | succ i =>
      obtain ⟨g, hg, hx⟩ := groupsGo_places cs (n + 1) (step bs c n) st.1 i (by simpa using hi)
      exact ⟨g, hg, by have : n + (i + 1) = n + 1 + i := by omega
                       rw [this]; exact hx⟩

end PlasVerif.Proofs.UrlsIndex
