import PlasVerif.Proofs.DigestShape
/-!
Sectioning discipline: on sectioning-skeleton streams a unit of level `l` ends up holding only
paragraphs and units of level strictly between `l` and ENDSECTIONS.
-/
namespace PlasVerif.Proofs.Digest
open PlasVerif.Model.Digest PlasVerif.Spec.DocTree PlasVerif.Generated.Digest

theorem ends_lt_par : endSectionsLevel < parLevel := by decide

theorem digest_inert {f : Nat} {t : Tree} {s : List Tree} {t' : Tree} {s' : List Tree}
    (hi : inert t.it = true) (h : digest f t s = some (t', s')) : t' = t ∧ s' = s := by
  cases f with
  | zero => simp [digest] at h
  | succ f =>
    rcases digest_cases f t s t' s' h with ⟨a, b⟩ | ⟨hin, _⟩
    · exact ⟨a, b⟩
    · rw [hi] at hin; cases hin

theorem digestIf_inert {f : Nat} {x : Tree} {ref : Ref} {r : List Tree} {x' : Tree} {r' : List Tree}
    (hi : inert x.it = true) (h : digestIf f x ref r = some (x', r')) : x'.it = x.it ∧ r' = r := by
  unfold digestIf at h
  by_cases he : x.it.elem
  · simp only [he, if_true] at h
    obtain ⟨a, b⟩ := digest_inert (by simpa using hi) h
    exact ⟨by rw [a]; simp, b⟩
  · simp only [he] at h; cases h; exact ⟨rfl, rfl⟩

theorem digestIf_it {f : Nat} {x : Tree} {ref : Ref} {r : List Tree} {x' : Tree} {r' : List Tree}
    (h : digestIf f x ref r = some (x', r')) : x'.it = x.it := by
  unfold digestIf at h
  by_cases he : x.it.elem
  · simp only [he, if_true] at h
    cases f with
    | zero => simp [digest] at h
    | succ f =>
      rcases digest_cases f _ r x' r' h with ⟨a, _⟩ | ⟨_, k, dp0, s0, t1, dp1, _, hl, ht'⟩
      · rw [a]; simp
      · have := loop_it _ _ _ _ _ _ _ _ hl
        rcases ht' with rfl | ⟨b, rfl⟩
        · simpa using this
        · simpa [paragraphs_it] using this
  · simp only [he] at h; cases h; rfl

theorem digest_sec {f : Nat} {t : Tree} {s : List Tree} {t' : Tree} {s' : List Tree} (hdk : t.it.dk = .sec)
    (h : digest (f + 1) t s = some (t', s')) :
    ∃ t1 dp1, loop f .sec t false s = some (t1, dp1, s') ∧ t' = paragraphs true t1 := by
  unfold digest at h
  simp only [hdk] at h
  split at h
  · cases h
  · rename_i t1 dp1 s1 heq; cases h; exact ⟨t1, dp1, heq, rfl⟩

theorem pre_sec (t x : Tree) : (pre .sec t x = .push ∧ x.it.level ≤ t.it.level) ∨
    (pre .sec t x = .go ∧ ¬ x.it.level ≤ t.it.level) := by
  simp only [pre]
  by_cases h : x.it.level ≤ t.it.level
  · simp [h]
  · simp [h]

/-- the loop of `SectionUtils.digest` stops in front of an item that is not deeper (or at the end) -/
theorem loop_sec_head : ∀ (f : Nat) (t : Tree) (dp : Bool) (s : List Tree) (t' : Tree) (dp' : Bool) (s' : List Tree),
    loop f .sec t dp s = some (t', dp', s') → ∀ z, s'.head? = some z → z.it.level ≤ t.it.level
  | 0, _, _, _, _, _, _, h => by simp [loop] at h
  | f + 1, t, dp, [], t', dp', s', h => by unfold loop at h; cases h; simp
  | f + 1, t, dp, x :: r, t', dp', s', h => by
    rcases loop_cases f .sec t dp x r _ h with ⟨hp, he⟩ | ⟨hp, _⟩ | ⟨hp, _⟩ | ⟨hp, x', r', _, hc⟩
    · cases he
      rcases pre_sec t x with ⟨_, hl⟩ | ⟨hg, _⟩
      · intro z hz; simp at hz; subst hz; exact hl
      · rw [hg] at hp; cases hp
    · rcases pre_sec t x with ⟨hg, _⟩ | ⟨hg, _⟩ <;> (rw [hg] at hp; cases hp)
    · rcases pre_sec t x with ⟨hg, _⟩ | ⟨hg, _⟩ <;> (rw [hg] at hp; cases hp)
    · rcases hc with ⟨hpost, _⟩ | ⟨_, hl⟩
      · simp [post] at hpost
      · have := loop_sec_head f _ _ _ _ _ _ hl
        simpa using this

def AllSkel (s : List Tree) : Prop := ∀ x ∈ s, secSkel x = true

theorem skel_cases {x : Tree} (h : secSkel x = true) :
    (x.it.level < parLevel ∧ x.it.dk = .sec ∧ x.it.elem = true ∧ x.kids = [] ∧ documentLevel < x.it.level ∧
      x.it.level < endSectionsLevel) ∨
    (inert x.it = true ∧ (x.it.level < parLevel → x.it.level ≤ documentLevel)) := by
  unfold secSkel at h
  by_cases hl : x.it.level < parLevel
  · simp only [hl, if_true, Bool.or_eq_true, Bool.and_eq_true, beq_iff_eq, List.isEmpty_iff, decide_eq_true_eq] at h
    rcases h with ⟨⟨⟨⟨a, b⟩, c⟩, d⟩, e⟩ | ⟨a, b⟩
    · exact .inl ⟨hl, a, b, c, d, e⟩
    · exact .inr ⟨a, fun _ => b⟩
  · simp only [hl, if_false] at h
    exact .inr ⟨h, fun h' => absurd h' hl⟩

def SecSufD (f : Nat) : Prop :=
  ∀ t s t' s', t.it.dk = .sec → AllSkel s → digest f t s = some (t', s') → s' <:+ s
def SecSufL (f : Nat) : Prop :=
  ∀ t dp s t' dp' s', AllSkel s → loop f .sec t dp s = some (t', dp', s') → s' <:+ s

/-- on skeleton streams the sectioning loops only ever consume a prefix (nothing is pushed back digested) -/
theorem sec_suffix : ∀ f, SecSufD f ∧ SecSufL f
  | 0 => ⟨fun _ _ _ _ _ _ h => by simp [digest] at h, fun _ _ _ _ _ _ _ h => by simp [loop] at h⟩
  | f + 1 => by
    obtain ⟨ihd, ihl⟩ := sec_suffix f
    constructor
    · intro t s t' s' hdk hs h
      obtain ⟨t1, dp1, hl, _⟩ := digest_sec hdk h
      exact ihl _ _ _ _ _ _ hs hl
    · intro t dp s t' dp' s' hs h
      cases s with
      | nil => unfold loop at h; cases h; exact List.suffix_refl _
      | cons x r =>
        have hr : AllSkel r := fun y hy => hs y (by simp [hy])
        rcases loop_cases f .sec t dp x r _ h with ⟨_, he⟩ | ⟨hp, _⟩ | ⟨hp, _⟩ | ⟨_, x', r', hd, hc⟩
        · cases he; exact List.suffix_refl _
        · rcases pre_sec t x with ⟨hg, _⟩ | ⟨hg, _⟩ <;> (rw [hg] at hp; cases hp)
        · rcases pre_sec t x with ⟨hg, _⟩ | ⟨hg, _⟩ <;> (rw [hg] at hp; cases hp)
        · have hr' : r' <:+ r := by
            rcases skel_cases (hs x (by simp)) with ⟨_, hdk, he, _⟩ | ⟨hi, _⟩
            · unfold digestIf at hd
              simp only [he, if_true] at hd
              exact ihd _ _ _ _ (by simpa using hdk) hr hd
            · rw [(digestIf_inert hi hd).2]; exact List.suffix_refl _
          rcases hc with ⟨hpost, _⟩ | ⟨_, hl⟩
          · simp [post] at hpost
          · have hsk : AllSkel r' := fun y hy => hr y (hr'.subset hy)
            exact ((ihl _ _ _ _ _ _ hsk hl).trans hr').trans (List.suffix_cons x r)

/-- children so far: first material at or above paragraph level, then only sectioning units -/
def SecJ (l : Int) (t : Tree) (s : List Tree) : Prop :=
  ∃ A B, t.kids = A ++ B ∧ (∀ a ∈ A, ¬ a.it.level < parLevel) ∧
    (∀ b ∈ B, l < b.it.level ∧ b.it.level < endSectionsLevel) ∧
    (B ≠ [] → ∀ y, s.head? = some y → y.it.level < endSectionsLevel)

theorem sec_loop_shape : ∀ (f : Nat) (t : Tree) (dp : Bool) (s : List Tree) (t' : Tree) (dp' : Bool) (s' : List Tree),
    documentLevel < t.it.level → AllSkel s → SecJ t.it.level t s → loop f .sec t dp s = some (t', dp', s') →
    SecJ t.it.level t' []
  | 0, _, _, _, _, _, _, _, _, _, h => by simp [loop] at h
  | f + 1, t, dp, [], t', dp', s', _, _, hj, h => by
    unfold loop at h; cases h
    obtain ⟨A, B, h1, h2, h3, _⟩ := hj
    exact ⟨A, B, h1, h2, h3, fun _ y hy => by simp at hy⟩
  | f + 1, t, dp, x :: r, t', dp', s', hdoc, hs, hj, h => by
    have hr : AllSkel r := fun y hy => hs y (by simp [hy])
    rcases loop_cases f .sec t dp x r _ h with ⟨_, he⟩ | ⟨hp, _⟩ | ⟨hp, _⟩ | ⟨hp, x', r', hd, hc⟩
    · cases he
      obtain ⟨A, B, h1, h2, h3, _⟩ := hj
      exact ⟨A, B, h1, h2, h3, fun _ y hy => by simp at hy⟩
    · rcases pre_sec t x with ⟨hg, _⟩ | ⟨hg, _⟩ <;> (rw [hg] at hp; cases hp)
    · rcases pre_sec t x with ⟨hg, _⟩ | ⟨hg, _⟩ <;> (rw [hg] at hp; cases hp)
    · have hdeep : ¬ x.it.level ≤ t.it.level := by
        rcases pre_sec t x with ⟨hg, _⟩ | ⟨_, hl⟩
        · rw [hg] at hp; cases hp
        · exact hl
      have hx'it : x'.it = x.it := digestIf_it hd
      rcases hc with ⟨hpost, _⟩ | ⟨_, hl⟩
      · simp [post] at hpost
      · obtain ⟨A, B, h1, h2, h3, h4⟩ := hj
        -- the stream after digesting x, and what stands at its head
        have hfacts : r' <:+ r ∧ (x.it.level < parLevel →
            x.it.level < endSectionsLevel ∧ ∀ y, r'.head? = some y → y.it.level < endSectionsLevel) := by
          rcases skel_cases (hs x (by simp)) with ⟨_, hdk, he, _, _, hlt⟩ | ⟨hi, hdl⟩
          · unfold digestIf at hd
            simp only [he, if_true] at hd
            refine ⟨(sec_suffix f).1 _ _ _ _ (by simpa using hdk) hr hd, fun _ => ⟨hlt, ?_⟩⟩
            cases f with
            | zero => simp [digest] at hd
            | succ f =>
              obtain ⟨t1, dp1, hl1, _⟩ := digest_sec (by simpa using hdk) hd
              intro y hy
              have := loop_sec_head f _ _ _ _ _ _ hl1 y hy
              simp only [it_setParent] at this
              omega
          · refine ⟨by rw [(digestIf_inert hi hd).2]; exact List.suffix_refl _, fun hlt => ?_⟩
            have := hdl hlt
            omega
        obtain ⟨hsuf, hsec⟩ := hfacts
        have hsk : AllSkel r' := fun y hy => hr y (hsuf.subset hy)
        suffices key : SecJ (t.append x').it.level (t.append x') r' by
          simpa using sec_loop_shape f (t.append x') dp r' t' dp' s' (by simpa using hdoc) hsk key hl
        rw [it_append]
        by_cases hlt : x.it.level < parLevel
        · obtain ⟨hx100, hhead⟩ := hsec hlt
          refine ⟨A, B ++ [x'.setParent t.it.ref], by rw [kids_append', h1, List.append_assoc], h2, ?_, fun _ => hhead⟩
          intro b hb
          rcases List.mem_append.1 hb with hb | hb
          · exact h3 b hb
          · simp only [List.mem_singleton] at hb; subst hb
            simp only [it_setParent, hx'it]
            exact ⟨by omega, hx100⟩
        · have hB : B = [] := by
            cases B with
            | nil => rfl
            | cons b B' =>
              have := h4 (by simp) x (by simp)
              have := ends_lt_par
              omega
          subst hB
          refine ⟨A ++ [x'.setParent t.it.ref], [], by rw [kids_append', h1]; simp, ?_, by simp, by simp⟩
          intro a ha
          rcases List.mem_append.1 ha with ha | ha
          · exact h2 a ha
          · simp only [List.mem_singleton] at ha; subst ha
            simpa [hx'it] using hlt
where
  kids_append' {t x : Tree} : (t.append x).kids = t.kids ++ [x.setParent t.it.ref] := by cases t; rfl

/-! ### what `paragraphs(force=True)` makes of such children -/
theorem parLoop_shape (proto : Item) (o : Ref) (hpl : proto.level = parLevel) (B : List Tree)
    (hB : ∀ b ∈ B, b.it.level < endSectionsLevel) :
    ∀ (A done : List Tree) (cur : Tree), (∀ d ∈ done, d.it.level = parLevel) → cur.it.level = parLevel →
      (∀ a ∈ A, ¬ a.it.level < parLevel) →
      (∀ n ∈ (parLoop proto o done cur (A ++ B)).1, n.it.level = parLevel ∨ n ∈ B) ∧
      (∀ n ∈ (parLoop proto o done cur (A ++ B)).2, n ∈ B)
  | [], done, cur, hd, hc, _ => by
    have hdc : ∀ n ∈ done ++ [cur], n.it.level = parLevel := fun n hn => by
      rcases List.mem_append.1 hn with hn | hn
      · exact hd n hn
      · simp only [List.mem_singleton] at hn; subst hn; exact hc
    cases B with
    | nil => simp only [List.append_nil, parLoop]; exact ⟨fun n hn => .inl (hdc n hn), by simp⟩
    | cons b B' =>
      have hb := hB b (by simp)
      have hlt := ends_lt_par
      have h1 : (b.it.level == parLevel) = false := by
        simp only [beq_eq_false_iff_ne, ne_eq]; omega
      have h2 : b.it.level < parLevel := by omega
      simp only [List.nil_append, parLoop, h1, Bool.false_eq_true, if_false, h2, if_true]
      refine ⟨fun n hn => ?_, fun n hn => by simp [hn]⟩
      simp only [List.mem_append, List.mem_cons, List.mem_singleton, List.not_mem_nil, or_false] at hn
      rcases hn with hn | rfl | rfl
      · exact .inl (hd n hn)
      · exact .inl hc
      · exact .inr (by simp)
  | a :: A', done, cur, hd, hc, hA => by
    have ha := hA a (by simp)
    have hA' : ∀ a ∈ A', ¬ a.it.level < parLevel := fun y hy => hA y (by simp [hy])
    have hdc : ∀ n ∈ done ++ [cur], n.it.level = parLevel := fun n hn => by
      rcases List.mem_append.1 hn with hn | hn
      · exact hd n hn
      · simp only [List.mem_singleton] at hn; subst hn; exact hc
    simp only [List.cons_append]
    unfold parLoop
    split
    · rename_i hl
      exact parLoop_shape proto o hpl B hB A' _ a hdc (by simpa using hl) hA'
    · simp only [ha, if_false]
      split
      · refine parLoop_shape proto o hpl B hB A' _ _ ?_ hpl hA'
        intro n hn
        simp only [List.mem_append, List.mem_cons, List.mem_singleton, List.not_mem_nil, or_false] at hn
        rcases hn with hn | rfl | rfl
        · exact hd n hn
        · exact hc
        · exact hpl
      · exact parLoop_shape proto o hpl B hB A' done _ hd (by simpa using hc) hA'

theorem paragraphs_true_eq (it : Item) (p : Ref) (kids : List Tree) :
    paragraphs true (.node it p kids) =
      parResult it p kids (((kids.find? fun k => k.it.level == parLevel).map (·.it)).getD defaultPar) := by
  simp only [paragraphs]
  split
  · rename_i h; cases h
  · rfl

theorem proto_level (kids : List Tree) :
    (((kids.find? fun k => k.it.level == parLevel).map (·.it)).getD defaultPar).level = parLevel := by
  cases hf : kids.find? fun k => k.it.level == parLevel with
  | none => simpa using defaultPar_ok.2
  | some k => simpa using List.find?_some hf

theorem parResult_sec (it : Item) (p : Ref) (A B : List Tree) (proto : Item) (l : Int) (hpl : proto.level = parLevel)
    (hA : ∀ a ∈ A, ¬ a.it.level < parLevel) (hB : ∀ b ∈ B, l < b.it.level ∧ b.it.level < endSectionsLevel) :
    ∀ k ∈ (parResult it p (A ++ B) proto).kids, secKidOK l k = true := by
  obtain ⟨c1, c2⟩ := parLoop_shape proto it.ref hpl B (fun b hb => (hB b hb).2) A []
    (mkPar proto it.ref it.ref 0 false []) (by simp) hpl hA
  have hBok : ∀ b ∈ B, secKidOK l b = true := fun b hb => by
    simp only [secKidOK, Bool.or_eq_true, Bool.and_eq_true, decide_eq_true_eq, beq_iff_eq]
    exact .inr (hB b hb)
  intro k hk
  simp only [parResult, Tree.kids] at hk
  rcases List.mem_append.1 (List.mem_filter.1 hk).1 with hk | hk
  · obtain ⟨n, hn, rfl⟩ := List.mem_map.1 hk
    rcases c1 n hn with hl | hb
    · simp only [secKidOK, Bool.or_eq_true, beq_iff_eq, it_setParent]
      left
      simp only [hl, if_true, norm_it]
    · have hnl : (n.it.level == parLevel) = false := by
        have := (hB n hb).2
        have := ends_lt_par
        simp only [beq_eq_false_iff_ne, ne_eq]; omega
      simp only [hnl, Bool.false_eq_true, if_false]
      have := hBok n hb
      simpa [secKidOK] using this
  · exact hBok k (c2 k hk)

end PlasVerif.Proofs.Digest
