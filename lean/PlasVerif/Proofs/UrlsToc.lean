import PlasVerif.Proofs.UrlsNav
/-! Helper lemmas for C14: `tocOK` holds after `cacheFilenames` on every document whose levels nest. -/
namespace PlasVerif.Proofs.UrlsToc
open PlasVerif.Model.Urls PlasVerif.Proofs.Urls PlasVerif.Proofs.UrlsNav

@[simp] theorem nests_node (lv id num file kids) : nests (.node lv id num file kids) = nestsList lv kids := by rw [nests]
@[simp] theorem nestsList_nil (lv) : nestsList lv [] = true := by rw [nestsList]
@[simp] theorem nestsList_cons (lv k ks) :
    nestsList lv (k :: ks) = (decide (lv ≤ k.level) && nests k && nestsList lv ks) := by rw [nestsList]

theorem pass_level (touch mk : Int → Bool) (t : Tree) (g f : Nat) : (pass touch mk t g f).1.level = t.level := by
  cases t with
  | node lv id num file kids => rw [pass]; simp [Tree.level]

theorem nestsList_mono : ∀ (ks : List Tree) (lo lv : Int), lo ≤ lv → nestsList lv ks = true → nestsList lo ks = true
  | [], _, _, _, _ => by simp
  | k :: ks, lo, lv, h, hn => by
    simp only [nestsList_cons, Bool.and_eq_true, decide_eq_true_eq] at hn ⊢
    exact ⟨⟨by omega, hn.1.2⟩, nestsList_mono ks lo lv h hn.2⟩

/- above the split level nothing gets a file -/
mutual
theorem pass_high (touch : Int → Bool) (split : Int) : ∀ (t : Tree) (g f : Nat), split < t.level → nests t = true →
    filesOf t = [] → filesOf (pass touch (fun lv => decide (lv ≤ split)) t g f).1 = []
  | .node lv id num file kids, g, f => by
    intro hl hn h0
    simp only [Tree.level] at hl
    simp only [nests_node] at hn
    simp only [filesOf_node, List.append_eq_nil_iff] at h0
    have hfile : file = none := by cases file <;> simp_all
    subst hfile
    rw [pass]
    have hm : decide (lv ≤ split) = false := by simp; omega
    simp only [hm, filesOf_node]
    simpa using passList_high touch split kids lv _ f hl hn h0.2
theorem passList_high (touch : Int → Bool) (split : Int) : ∀ (ks : List Tree) (lv : Int) (g f : Nat), split < lv →
    nestsList lv ks = true → filesOfList ks = [] →
    filesOfList (passList touch (fun lv => decide (lv ≤ split)) ks g f).1 = []
  | [], _, _, _ => by intro _ _ _; rw [passList]; simp
  | k :: ks, lv, g, f => by
    intro hl hn h0
    simp only [nestsList_cons, Bool.and_eq_true, decide_eq_true_eq] at hn
    simp only [filesOfList_cons, List.append_eq_nil_iff] at h0
    rw [passList]
    simp only [filesOfList_cons, List.append_eq_nil_iff]
    exact ⟨pass_high touch split k g f (by omega) hn.1.2 h0.1, passList_high touch split ks lv _ _ hl hn.2 h0.2⟩
end

/- after `cacheFilenames`, file-producing sections hang on file-producing sections -/
mutual
theorem pass_tocOK (touch : Int → Bool) (split : Int) (hs : split < endSections) : ∀ (t : Tree) (g f : Nat),
    nests t = true → filesOf t = [] → tocOK (pass touch (fun lv => decide (lv ≤ split)) t g f).1 = true
  | .node lv id num file kids, g, f => by
    intro hn h0
    simp only [nests_node] at hn
    simp only [filesOf_node, List.append_eq_nil_iff] at h0
    rw [pass]
    simp only [tocOK_node]
    exact passList_tocOK touch split hs kids lv _ _ hn h0.2
theorem passList_tocOK (touch : Int → Bool) (split : Int) (hs : split < endSections) :
    ∀ (ks : List Tree) (lv : Int) (g f : Nat), nestsList lv ks = true → filesOfList ks = [] →
    tocOKList (passList touch (fun lv => decide (lv ≤ split)) ks g f).1 = true
  | [], _, _, _ => by intro _ _; rw [passList]; simp
  | k :: ks, lv, g, f => by
    intro hn h0
    simp only [nestsList_cons, Bool.and_eq_true, decide_eq_true_eq] at hn
    simp only [filesOfList_cons, List.append_eq_nil_iff] at h0
    rw [passList]
    simp only [tocOKList_cons, Bool.and_eq_true, Bool.or_eq_true]
    refine ⟨?_, passList_tocOK touch split hs ks lv _ _ hn.2 h0.2⟩
    by_cases hk : k.level ≤ split
    · right
      refine ⟨⟨?_, ?_⟩, pass_tocOK touch split hs k g f hn.1.2 h0.1⟩
      · simp only [isSub, pass_level, decide_eq_true_eq]; omega
      · simp [hasFile, pass_file, hk]
    · left
      rw [pass_high touch split k g f (by omega) hn.1.2 h0.1]; rfl
end

/- the render pass (ids only) keeps `tocOK` -/
mutual
theorem pass_keep_tocOK (touch : Int → Bool) : ∀ (t : Tree) (g f : Nat),
    tocOK (pass touch (fun _ => false) t g f).1 = tocOK t
  | .node lv id num file kids, g, f => by
    rw [pass]
    simp only [tocOK_node]
    exact passList_keep_tocOK touch kids _ _
theorem passList_keep_tocOK (touch : Int → Bool) : ∀ (ks : List Tree) (g f : Nat),
    tocOKList (passList touch (fun _ => false) ks g f).1 = tocOKList ks
  | [], _, _ => by rw [passList]
  | k :: ks, g, f => by
    rw [passList]
    simp only [tocOKList_cons]
    rw [pass_nofiles, pass_keep_tocOK touch k g f, passList_keep_tocOK touch ks]
    have h1 : isSub (pass touch (fun _ => false) k g f).1 = isSub k := by simp [isSub, pass_level]
    have h2 : hasFile (pass touch (fun _ => false) k g f).1 = hasFile k := by simp [hasFile, pass_file]
    rw [h1, h2]
end

theorem prepare_tocOK (split : Int) (hs : split < endSections) (t : Tree) (g : Nat)
    (hn : nests t = true) (h0 : filesOf t = []) : tocOK (prepare split t g) = true := by
  unfold prepare touchAll cacheFilenames
  rw [pass_keep_tocOK]
  exact pass_tocOK _ split hs t g 0 hn h0

end PlasVerif.Proofs.UrlsToc
