import PlasVerif.Proofs.Tokenizer
import PlasVerif.Model.Verbatim
import PlasVerif.Spec.MathFormula
/-! Helper lemmas about the verbatim scans (C11). -/
namespace PlasVerif.Proofs.Verbatim
open PlasVerif.Model.Catcodes PlasVerif.Model.Tokenizer PlasVerif.Generated.Catcodes
open PlasVerif.Model.Verbatim PlasVerif.Spec.MathFormula

/-- the token the tokenizer makes of one character under the verbatim table -/
def mkTok (c : Nat) : Tok := .ch (if c ∈ asciiLetters then 11 else 12) c

def items (s : List Nat) : List Item := s.map (fun c => Item.tok (mkTok c))

theorem tokenize_verbatim (s : List Nat) : tokenize verbatimCats s = s.map mkTok :=
  PlasVerif.Proofs.Tokenizer.tokFrom_verbatim .N false s

theorem items_length (s : List Nat) : (items s).length = s.length := by simp [items]

theorem items_append (a b : List Nat) : items (a ++ b) = items a ++ items b := by simp [items]

theorem matchesPat_items (w pat : List Nat) : matchesPat (items w) pat = true ↔ w = pat := by
  induction w generalizing pat with
  | nil => cases pat <;> simp [items, matchesPat]
  | cons c w ih =>
    cases pat with
    | nil => simp [items, matchesPat]
    | cons d pat =>
      show matchesPat (Item.tok (mkTok c) :: items w) (d :: pat) = true ↔ _
      simp only [matchesPat, itemIsChar, Bool.and_eq_true, ih pat]
      simp [tokIsChar, mkTok]

theorem itemsText_items (s : List Nat) : itemsText (items s) = s := by
  induction s with
  | nil => rfl
  | cons c s ih =>
    show itemsText (Item.tok (mkTok c) :: items s) = c :: s
    simp [itemsText, ih, tokText, mkTok]

/-- the suffix test of the loop, in string terms: the text read so far ends with the pattern -/
theorem endsWith_iff (done pat : List Nat) :
    endsWith (.self :: items done) pat = true ↔ pat <:+ done := by
  unfold endsWith
  simp only [List.length_cons, items_length, Bool.and_eq_true, decide_eq_true_eq]
  constructor
  · rintro ⟨hlen, hm⟩
    by_cases hle : pat.length ≤ done.length
    · have hd : (Item.self :: items done).drop (done.length + 1 - pat.length)
          = items (done.drop (done.length - pat.length)) := by
        have : done.length + 1 - pat.length = (done.length - pat.length) + 1 := by omega
        rw [this, List.drop_succ_cons]; simp [items, List.map_drop]
      rw [hd, matchesPat_items] at hm
      rw [List.suffix_iff_eq_drop]; exact hm.symm
    · have : done.length + 1 - pat.length = 0 := by omega
      rw [this, List.drop_zero] at hm
      cases pat with
      | nil => simp at hle
      | cons d pat => simp [matchesPat, itemIsChar] at hm
  · intro hs
    have hle : pat.length ≤ done.length := hs.length_le
    refine ⟨by omega, ?_⟩
    have hd : (Item.self :: items done).drop (done.length + 1 - pat.length)
        = items (done.drop (done.length - pat.length)) := by
      have : done.length + 1 - pat.length = (done.length - pat.length) + 1 := by omega
      rw [this, List.drop_succ_cons]; simp [items, List.map_drop]
    rw [hd, matchesPat_items]
    exact ((List.suffix_iff_eq_drop).mp hs).symm

/-- as long as no prefix read so far ends with either pattern, the loop just keeps appending -/
theorem scan_steps (pat pat2 : List Nat) (s done : List Nat) (rest : List Tok)
    (h : ∀ k, 0 < k → k ≤ s.length → ¬ pat <:+ done ++ s.take k ∧ ¬ pat2 <:+ done ++ s.take k) :
    scanLoop pat pat2 (.self :: items done) (s.map mkTok ++ rest)
      = scanLoop pat pat2 (.self :: items (done ++ s)) rest := by
  induction s generalizing done with
  | nil => simp
  | cons c s ih =>
    have h1 := h 1 (by omega) (by simp)
    simp only [List.take_succ_cons, List.take_zero] at h1
    have e : (Item.self :: items done) ++ [Item.tok (mkTok c)] = .self :: items (done ++ [c]) := by
      simp [items]
    have n1 : endsWith (.self :: items (done ++ [c])) pat = false := by
      rw [Bool.eq_false_iff]; intro hh; exact h1.1 ((endsWith_iff _ _).mp hh)
    have n2 : endsWith (.self :: items (done ++ [c])) pat2 = false := by
      rw [Bool.eq_false_iff]; intro hh; exact h1.2 ((endsWith_iff _ _).mp hh)
    rw [List.map_cons, List.cons_append, scanLoop]
    simp only [e, n1, n2, Bool.false_eq_true, if_false]
    have := ih (done ++ [c]) (fun k hk hk' => by
      have := h (k + 1) (by omega) (by simp; omega)
      simpa [List.take_succ_cons, List.append_assoc] using this)
    simpa [List.append_assoc] using this

/-- the step at which the first pattern is completed -/
theorem scan_hit (pat pat2 : List Nat) (pre : List Nat) (c : Nat) (rest : List Tok)
    (hp : pat <:+ pre ++ [c]) :
    scanLoop pat pat2 (.self :: items pre) (mkTok c :: rest)
      = ⟨(.self :: items (pre ++ [c])).take ((pre ++ [c]).length + 1 - pat.length), rest, 1⟩ := by
  have e : (Item.self :: items pre) ++ [Item.tok (mkTok c)] = .self :: items (pre ++ [c]) := by
    simp [items]
  have y : endsWith (.self :: items (pre ++ [c])) pat = true := (endsWith_iff _ _).mpr hp
  rw [scanLoop]
  simp only [e, y, if_true, List.length_cons, items_length]

/-- the whole scan with one end marker: exactly the body, resuming right after the marker -/
theorem verbatimEnvWith_exact (pat body rest : List Nat) (hne : pat ≠ [])
    (h : FirstIsFinal pat body) :
    verbatimEnvWith (pat, pat) (body ++ pat ++ rest) = { content := body, closed := true, resume := rest } := by
  obtain ⟨pre, c, hpc⟩ : ∃ pre c, pat = pre ++ [c] := ⟨pat.dropLast, pat.getLast hne, (List.dropLast_concat_getLast hne).symm⟩
  have hin : (body ++ pat ++ rest).map mkTok = (body ++ pre).map mkTok ++ (mkTok c :: rest.map mkTok) := by
    rw [hpc]; simp [List.append_assoc]
  have hsteps := scan_steps pat pat (body ++ pre) [] (mkTok c :: rest.map mkTok) (by
    intro k hk hk'
    have hlt : k < (body ++ pat).length := by rw [hpc]; simp at hk' ⊢; omega
    have ht : (body ++ pat).take k = (body ++ pre).take k := by
      rw [hpc, ← List.append_assoc, List.take_append_of_le_length hk']
    have := h k hlt
    rw [ht] at this
    simpa using this)
  have hhit := scan_hit pat pat (body ++ pre) c (rest.map mkTok) (by
    rw [List.append_assoc, ← hpc]; exact List.suffix_append _ _)
  have hbp : body ++ pre ++ [c] = body ++ pat := by rw [hpc, List.append_assoc]
  unfold verbatimEnvWith
  rw [tokenize_verbatim, hin]
  have e0 : ([Item.self] : List Item) = .self :: items [] := rfl
  simp only [e0, hsteps, List.nil_append, hhit, hbp]
  have htake : (Item.self :: items (body ++ pat)).take ((body ++ pat).length + 1 - pat.length) = .self :: items body := by
    have : (body ++ pat).length + 1 - pat.length = body.length + 1 := by simp; omega
    rw [this, List.take_succ_cons, items_append, List.take_left' (items_length body)]
  rw [htake]
  simp only [itemsText, itemsText_items]
  congr 1
  simp only [List.length_append, List.length_map, List.length_cons]
  have : body.length + pre.length + (rest.length + 1) - rest.length = (body ++ pat).length := by
    rw [hpc]; simp; omega
  rw [this, List.append_assoc body pat rest, ← List.append_assoc, List.drop_left' rfl]

theorem untilTok_spec (ep : Tok) (body : List Tok) (rest : List Tok) (h : ep ∉ body) :
    untilTok ep (body ++ ep :: rest) = (body, true, rest) := by
  induction body with
  | nil => simp [untilTok]
  | cons t body ih =>
    have ht : t ≠ ep := fun e => h (by simp [e])
    have := ih (fun hm => h (List.mem_cons_of_mem _ hm))
    simp [untilTok, ht, this]

theorem mkTok_inj {a b : Nat} (h : mkTok a = mkTok b) : a = b := by
  simp [mkTok] at h; exact h.2

theorem flatten_tokText (s : List Nat) : ((s.map mkTok).map tokText).flatten = s := by
  induction s with
  | nil => rfl
  | cons c s ih => simp [tokText, mkTok] at ih ⊢; exact ih

theorem ep_eq (d : Nat) : (if tokIsChar (mkTok d) 123 then Tok.ch 12 125 else mkTok d) = mkTok (closing d) := by
  by_cases h : d = 123
  · subst h; decide
  · simp [tokIsChar, mkTok, closing, h]

theorem not_mem_map_mkTok {c : Nat} {body : List Nat} (h : c ∉ body) : mkTok c ∉ body.map mkTok := by
  intro hm
  obtain ⟨x, hx, e⟩ := List.mem_map.mp hm
  exact h (mkTok_inj e ▸ hx)

/-- what `verb.invoke` + `verb.digest` do once the `*` look-ahead is done: `toks1 = d :: body ++ close :: rest` -/
theorem verb_core (pre : List Nat) (d : Nat) (body rest : List Nat) (hb : closing d ∉ body) :
    let input := pre ++ d :: body ++ closing d :: rest
    let u := untilTok (if tokIsChar (mkTok d) 123 then Tok.ch 12 125 else mkTok d)
              (body.map mkTok ++ mkTok (closing d) :: rest.map mkTok)
    (u.1.map tokText).flatten = body ∧ u.2.1 = true ∧
      input.drop ((input.map mkTok).length - u.2.2.length) = rest := by
  intro input u
  have hu : u = (body.map mkTok, true, rest.map mkTok) := by
    show untilTok _ _ = _
    rw [ep_eq]; exact untilTok_spec _ _ _ (not_mem_map_mkTok hb)
  rw [hu]
  refine ⟨flatten_tokText body, rfl, ?_⟩
  show input.drop _ = rest
  have hl : (input.map mkTok).length - (rest.map mkTok).length = (pre ++ d :: body ++ [closing d]).length := by
    simp [input]; omega
  have hi : input = (pre ++ d :: body ++ [closing d]) ++ rest := by simp [input]
  rw [hl, hi, List.drop_left' rfl]

theorem verbCmd_plain (d : Nat) (body rest : List Nat) (hd : d ≠ 42) (hb : closing d ∉ body) :
    verbCmd (d :: body ++ closing d :: rest) = some ⟨false, ⟨body, true, rest⟩⟩ := by
  have hc := verb_core [] d body rest hb
  simp only [List.nil_append] at hc
  obtain ⟨h1, h2, h3⟩ := hc
  have hs : tokIsChar (mkTok d) 42 = false := by simp [tokIsChar, mkTok, hd]
  unfold verbCmd
  rw [tokenize_verbatim]
  simp only [List.map_cons, List.map_append, List.cons_append, hs, Bool.false_eq_true, if_false] at h1 h2 h3 ⊢
  rw [h1, h2, h3]

theorem verbCmd_star (d : Nat) (body rest : List Nat) (hb : closing d ∉ body) :
    verbCmd (42 :: d :: body ++ closing d :: rest) = some ⟨true, ⟨body, true, rest⟩⟩ := by
  have hc := verb_core [42] d body rest hb
  obtain ⟨h1, h2, h3⟩ := hc
  have hs : tokIsChar (mkTok 42) 42 = true := by decide
  unfold verbCmd
  rw [tokenize_verbatim]
  simp only [List.map_cons, List.map_append, List.cons_append, List.nil_append, hs, if_true] at h1 h2 h3 ⊢
  rw [h1, h2, h3]

end PlasVerif.Proofs.Verbatim
