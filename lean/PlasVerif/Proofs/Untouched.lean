import PlasVerif.Proofs.EnumLists
/-! Helper lemmas for C08: a family of counters closed under "is reset by" is left alone by every event that does not
    name one of them - the syntactic reading of "no intervening reset or set" in consecutive numbering. -/
set_option linter.unusedSimpArgs false
set_option linter.unusedVariables false
namespace PlasVerif.Proofs.Untouched
open PlasVerif.Model.Counters PlasVerif.Model.Numbering PlasVerif.Spec.NumberingRules
open PlasVerif.Proofs.Counters PlasVerif.Proofs.EnumLists

attribute [local instance] Classical.propDecidable

theorem closed_iff (F : Forest) (A : List String) :
    closedB F A = true ↔ ∀ x p, (x, some p) ∈ F → x ∈ A → p ∈ A := by
  simp only [closedB, List.all_eq_true, Bool.or_eq_true, Bool.not_eq_true']
  constructor
  · intro h x p hm hx
    have := h (x, some p) hm
    rcases this with h1 | h1
    · rw [List.contains_iff_mem.mpr hx] at h1; cases h1
    · exact List.contains_iff_mem.mp h1
  · intro h e he
    obtain ⟨x, p⟩ := e
    by_cases hx : x ∈ A
    · right
      cases p with
      | none => rfl
      | some p => exact List.contains_iff_mem.mpr (h x p he hx)
    · left; simpa [List.contains_iff_mem] using hx

theorem within_closed (F : Forest) (A : List String) (hcl : closedB F A = true) {x d : String}
    (hw : Within F x d) : x ∈ A → d ∈ A := by
  rw [closed_iff] at hcl
  induction hw with
  | direct hm _ => exact fun hx => hcl _ _ hm hx
  | trans _ _ ih1 ih2 => exact fun hx => ih2 (ih1 hx)

/-- one store transition that leaves `A` alone -/
def Step1 (A : List String) (s s' : Store) : Prop :=
  (∀ x ∈ A, val s' x = val s x) ∧ closedB (skel s') A = true ∧
  (∀ x ∈ A, ∀ p, (x, p) ∈ skel s' → (x, p) ∈ skel s)

theorem Step1.refl (A : List String) (s : Store) (hcl : closedB (skel s) A = true) : Step1 A s s :=
  ⟨fun _ _ => rfl, hcl, fun _ _ _ h => h⟩

theorem Step1.trans {A : List String} {s1 s2 s3 : Store} (h12 : Step1 A s1 s2) (h23 : Step1 A s2 s3) :
    Step1 A s1 s3 :=
  ⟨fun x hx => by rw [h23.1 x hx, h12.1 x hx], h23.2.1, fun x hx p h => h12.2.2 x hx p (h23.2.2 x hx p h)⟩

/-- the reset table only grew by a declaration for a counter outside `A` -/
theorem grow (A : List String) (F F' : Forest) (hcl : closedB F A = true)
    (hF : F' = F ∨ ∃ d w, d ∉ A ∧ F' = F ++ [(d, w)]) :
    closedB F' A = true ∧ ∀ x ∈ A, ∀ p, (x, p) ∈ F' → (x, p) ∈ F := by
  rcases hF with rfl | ⟨d, w, hd, rfl⟩
  · exact ⟨hcl, fun _ _ _ h => h⟩
  · constructor
    · rw [closed_iff] at hcl ⊢
      intro x p hm hx
      rcases List.mem_append.mp hm with hm | hm
      · exact hcl x p hm hx
      · simp only [List.mem_singleton, Prod.mk.injEq] at hm
        exact absurd (hm.1 ▸ hx) hd
    · intro x hx p hm
      rcases List.mem_append.mp hm with hm | hm
      · exact hm
      · simp only [List.mem_singleton, Prod.mk.injEq] at hm
        exact absurd (hm.1 ▸ hx) hd

theorem skel_ensure_grow (A : List String) (s : Store) (d : Name) (hd : d ∉ A) :
    skel (ensure s d) = skel s ∨ ∃ d' w, d' ∉ A ∧ skel (ensure s d) = skel s ++ [(d', w)] := by
  rw [skel_ensure]
  by_cases h : (val s d).isSome = true
  · left; simp [h]
  · right; exact ⟨d, none, hd, by simp [h]⟩

theorem stepc_frame (A : List String) (s s' : Store) (d : Name) (hcl : closedB (skel s) A = true) (hd : d ∉ A)
    (hs : stepc s d = .ok s') : Step1 A s s' := by
  have hg := grow A (skel s) (skel (ensure s d)) hcl (skel_ensure_grow A s d hd)
  have key := stepc_vals s s' d hs
  refine ⟨fun x hx => ?_, by rw [key.1]; exact hg.1, fun x hx p h => hg.2 x hx p (by rwa [key.1] at h)⟩
  have hne : x ≠ d := fun h => hd (h ▸ hx)
  have hnw : ¬ Within (skel (ensure s d)) x d := fun hw => hd (within_closed _ A hg.1 hw hx)
  rw [key.2 x]
  simp [hnw, hne, val_ensure_of_ne]

theorem setc_frame (A : List String) (s : Store) (d : Name) (v : Int) (hcl : closedB (skel s) A = true) (hd : d ∉ A) :
    Step1 A s (setc s d v) := by
  have hg := grow A (skel s) (skel (ensure s d)) hcl (skel_ensure_grow A s d hd)
  refine ⟨fun x hx => ?_, by rw [skel_setc]; exact hg.1, fun x hx p h => hg.2 x hx p (by rwa [skel_setc] at h)⟩
  have hne : x ≠ d := fun h => hd (h ▸ hx)
  rw [val_setc]; simp [hne]

theorem addc_frame (A : List String) (s : Store) (d : Name) (v : Int) (hcl : closedB (skel s) A = true) (hd : d ∉ A) :
    Step1 A s (addc s d v) := by
  have hg := grow A (skel s) (skel (ensure s d)) hcl (skel_ensure_grow A s d hd)
  refine ⟨fun x hx => ?_, by rw [skel_addc]; exact hg.1, fun x hx p h => hg.2 x hx p (by rwa [skel_addc] at h)⟩
  have hne : x ≠ d := fun h => hd (h ▸ hx)
  rw [val_addc]; simp [hne]

theorem newc_frame (A : List String) (s : Store) (n : Name) (w : Option Name) (hcl : closedB (skel s) A = true)
    (hn : n ∉ A) : Step1 A s (newc s n w 0) := by
  unfold newc
  by_cases h : (val s n).isSome = true
  · simp only [h, if_true]; exact Step1.refl A s hcl
  · simp only [h, Bool.false_eq_true, if_false]
    have hsk : skel (s ++ [{ name := n, resetby := w, value := 0 }]) = skel s ++ [(n, w)] := by simp [skel]
    have hg := grow A (skel s) _ hcl (Or.inr ⟨n, w, hn, hsk⟩)
    refine ⟨fun x hx => ?_, hg.1, hg.2⟩
    have hne : ¬ n = x := fun h => hn (h ▸ hx)
    rw [val_append_single]
    cases val s x <;> simp [hne]

theorem pyIndex_mem {α} (l : List α) (i : Int) (x : α) (h : pyIndex l i = some x) : x ∈ l := by
  unfold pyIndex at h
  simp only at h
  split at h
  · cases h
  · exact List.mem_of_getElem? h

theorem listReset_frame (A : List String) (hA : ∀ n ∈ enumNames, n ∉ A) : ∀ (k : Nat) (i : Int) (s : Store),
    closedB (skel s) A = true → Step1 A s (listReset i k s) := by
  intro k
  induction k with
  | zero => intro i s hcl; exact Step1.refl A s hcl
  | succ k ih =>
    intro i s hcl
    simp only [listReset]
    cases hp : pyIndex listCounters i with
    | none => exact Step1.refl A s hcl
    | some nm =>
      simp only
      have hnm : nm ∉ A := hA nm (pyIndex_mem _ _ _ hp)
      have h1 := setc_frame A s nm 0 hcl hnm
      exact h1.trans (ih (i + 1) (setc s nm 0) h1.2.1)

theorem not_mem_of_all {A : List String} {t : String} (h : (!(A.contains t)) = true) : t ∉ A := by
  simpa [List.contains_iff_mem] using h

theorem numbered_frame1 (A : List String) (st st' : St) (tag : String) (c : Name) (starred : Bool) (level : Int)
    (hcl : closedB (skel st.store) A = true) (hsafe : starred = true ∨ c ∉ A)
    (h : numbered st tag c starred level = .ok st') : Step1 A st.store st'.store := by
  obtain ⟨_, _, _, hsame, hstep⟩ := numbered_frame _ _ _ _ _ _ h
  by_cases hs : starred = true ∨ c = ""
  · rw [hsame hs]; exact Step1.refl A _ hcl
  · have hs' : starred = false ∧ c ≠ "" := by cases starred <;> simp_all
    have hc : c ∉ A := by
      rcases hsafe with h | h
      · simp [hs'.1] at h
      · exact h
    exact stepc_frame A _ _ c hcl hc (hstep hs')

theorem ensure_frame (A : List String) (s : Store) (d : Name) (hcl : closedB (skel s) A = true) (hd : d ∉ A) :
    Step1 A s (ensure s d) := by
  have hg := grow A (skel s) (skel (ensure s d)) hcl (skel_ensure_grow A s d hd)
  exact ⟨fun x hx => val_ensure_of_ne s d x (fun h => hd (h ▸ hx)), hg.1, hg.2⟩

/-- one event that avoids `A` leaves `A` alone -/
theorem step_frame (A : List String) (st st' : St) (e : Ev) (hcl : closedB (skel st.store) A = true)
    (hav : avoids A st e = true) (h : step st e = .ok st') : Step1 A st.store st'.store := by
  simp only [avoids, List.all_eq_true] at hav
  cases e with
  | construct tag c starred level =>
    refine numbered_frame1 A st st' tag c starred level hcl ?_ h
    cases starred with
    | true => exact Or.inl rfl
    | false => exact Or.inr (not_mem_of_all (hav c (by simp [targets])))
  | thm env =>
    simp only [step] at h
    cases hl : st.envs.lookup env with
    | none => rw [hl] at h; simp only [Except.ok.injEq] at h; subst h; exact Step1.refl A _ hcl
    | some c =>
      rw [hl] at h
      exact numbered_frame1 A st st' _ c false _ hcl (Or.inr (not_mem_of_all (hav c (by simp [targets, hl])))) h
  | setc n v =>
    simp only [step, Except.ok.injEq] at h; subst h
    exact setc_frame A _ n v hcl (not_mem_of_all (hav n (by simp [targets])))
  | addc n v =>
    simp only [step, Except.ok.injEq] at h; subst h
    exact addc_frame A _ n v hcl (not_mem_of_all (hav n (by simp [targets])))
  | stepc n =>
    simp only [step] at h
    cases hs : stepc st.store n with
    | error e => rw [hs] at h; cases h
    | ok s =>
      rw [hs] at h
      simp only [Except.map, Except.ok.injEq] at h; subst h
      exact stepc_frame A _ _ n hcl (not_mem_of_all (hav n (by simp [targets]))) hs
  | newcounter n within =>
    have hn := not_mem_of_all (hav n (by simp [targets]))
    simp only [step] at h
    split at h
    · simp only [Except.ok.injEq] at h; subst h; exact Step1.refl A _ hcl
    · simp only [Except.ok.injEq] at h; subst h
      exact newc_frame A _ n within hcl hn
  | newtheorem name shared within starred =>
    have hn := not_mem_of_all (hav name (by simp [targets]))
    simp only [step] at h
    split at h
    · split at h
      · simp only [Except.ok.injEq] at h; subst h; exact Step1.refl A _ hcl
      · simp only [Except.ok.injEq] at h; subst h
        exact newc_frame A _ name _ hcl hn
    · simp only [Except.ok.injEq] at h; subst h; exact Step1.refl A _ hcl
  | beginList =>
    simp only [step, Except.ok.injEq] at h; subst h
    exact listReset_frame A (fun n hn => not_mem_of_all (hav n (by simpa [targets] using hn))) _ _ _ hcl
  | endList =>
    simp only [step, Except.ok.injEq] at h; subst h
    exact listReset_frame A (fun n hn => not_mem_of_all (hav n (by simpa [targets] using hn))) _ _ _ hcl
  | item tag hasTerm =>
    refine numbered_frame1 A st st' tag _ hasTerm _ hcl (Or.inr ?_) h
    have hA : ∀ n ∈ enumNames, n ∉ A := fun n hn => not_mem_of_all (hav n (by simpa [targets] using hn))
    cases hp : pyIndex listCounters (st.depth - 1) with
    | none => exact hA "enumi" (by decide)
    | some nm => exact hA nm (pyIndex_mem _ _ _ hp)
  | eqnBegin =>
    exact numbered_frame1 A st st' _ "equation" false _ hcl
      (Or.inr (not_mem_of_all (hav "equation" (by simp [targets])))) h
  | eqRow =>
    exact numbered_frame1 A st st' _ "equation" false _ hcl
      (Or.inr (not_mem_of_all (hav "equation" (by simp [targets])))) h
  | nonumber =>
    simp only [step, Except.ok.injEq] at h; subst h
    exact addc_frame A _ "equation" (-1) hcl (not_mem_of_all (hav "equation" (by simp [targets])))
  | appendix c =>
    simp only [step, Except.ok.injEq] at h; subst h
    exact setc_frame A _ c 0 hcl (not_mem_of_all (hav c (by simp [targets])))
  | «show» fmt c =>
    simp only [step, showRep] at h
    cases hr : represent (valD st.store c) fmt with
    | error e => rw [hr] at h; cases h
    | ok r =>
      rw [hr] at h
      simp only [Except.ok.injEq] at h; subst h
      exact ensure_frame A _ c hcl (not_mem_of_all (hav c (by simp [targets])))
  | showThe c =>
    simp only [step] at h
    cases hr : evalThe (theFuel st.thes) st.thes st.store ("the" ++ c) with
    | error e => rw [hr] at h; cases h
    | ok r =>
      rw [hr] at h
      simp only [Except.ok.injEq] at h; subst h
      exact Step1.refl A _ hcl
  | renewThe c body =>
    simp only [step, Except.ok.injEq] at h; subst h
    exact Step1.refl A _ hcl
  | setcv n m =>
    simp only [step, Except.ok.injEq] at h; subst h
    have h1 := ensure_frame A st.store m hcl (not_mem_of_all (hav m (by simp [targets])))
    exact h1.trans (setc_frame A _ n _ h1.2.1 (not_mem_of_all (hav n (by simp [targets]))))
  | addcv n m =>
    simp only [step, Except.ok.injEq] at h; subst h
    have h1 := ensure_frame A st.store m hcl (not_mem_of_all (hav m (by simp [targets])))
    exact h1.trans (addc_frame A _ n _ h1.2.1 (not_mem_of_all (hav n (by simp [targets]))))
  | initc n v =>
    simp only [step, Except.ok.injEq] at h; subst h
    exact setc_frame A _ n _ hcl (not_mem_of_all (hav n (by simp [targets])))

/-- a whole history that avoids `A` leaves `A` alone -/
theorem history_frame (A : List String) : ∀ (evs : List Ev) (st st' : St),
    closedB (skel st.store) A = true → historyAvoids A st evs = true → run st evs = .ok st' →
    Step1 A st.store st'.store := by
  intro evs
  induction evs with
  | nil =>
    intro st st' hcl _ h
    simp only [run, Except.ok.injEq] at h; subst h; exact Step1.refl A _ hcl
  | cons e es ih =>
    intro st st' hcl hav h
    simp only [run] at h
    simp only [historyAvoids, Bool.and_eq_true] at hav
    cases h1 : step st e with
    | error err => rw [h1] at h; cases h
    | ok st1 =>
      rw [h1] at h hav
      have s1 := step_frame A st st1 e hcl hav.1 h1
      exact s1.trans (ih st1 st' s1.2.1 hav.2 h)

/-- for a counter of a closed family, being within something depends only on the declarations of the family -/
theorem within_old (A : List String) (F F' : Forest) (hcl : closedB F A = true)
    (hold : ∀ x ∈ A, ∀ p, (x, p) ∈ F' → (x, p) ∈ F) {x d : String} (hw : Within F' x d) :
    x ∈ A → Within F x d := by
  induction hw with
  | direct hm hne => exact fun hx => Within.direct (hold _ hx _ hm) hne
  | trans _ _ ih1 ih2 =>
    intro hx
    have h1 := ih1 hx
    exact Within.trans h1 (ih2 (within_closed F A hcl h1 hx))

end PlasVerif.Proofs.Untouched
