import PlasVerif.Proofs.Dom
import PlasVerif.Proofs.DomTree
/-! The derived views of the heap model against the tree unfolded from the child lists. -/
namespace PlasVerif.Proofs.DomViews
open PlasVerif.Model.Dom PlasVerif.Proofs.Dom
open PlasVerif.Spec

def kindOf : Kind → DomTree.NKind
  | .doc => .doc | .elem => .elem | .text => .text | .frag => .frag

/-- the list-of-lists model of a heap: forget parent and owner links -/
def toLL (h : Heap) : DomTree.LL :=
  { kids := h.kids, kind := fun n => kindOf (h.kind n), text := h.text, name := h.name, next := h.next }

@[simp] theorem toLL_kids (h : Heap) : (toLL h).kids = h.kids := rfl
@[simp] theorem toLL_kind (h : Heap) (n : Id) : (toLL h).kind n = kindOf (h.kind n) := rfl
@[simp] theorem toLL_text (h : Heap) : (toLL h).text = h.text := rfl
@[simp] theorem toLL_name (h : Heap) : (toLL h).name = h.name := rfl

theorem kindOf_text (k : Kind) : kindOf k = .text ↔ k = .text := by cases k <;> simp [kindOf]
theorem kindOf_elem (k : Kind) : kindOf k = .elem ↔ k = .elem := by cases k <;> simp [kindOf]

theorem textContentL_map (f : Id → DomTree.Tree) (l : List Id) :
    DomTree.textContentL (l.map f) = l.flatMap (fun c => (f c).textContent) := by
  induction l with
  | nil => simp [DomTree.textContentL]
  | cons c cs ih => simp [DomTree.textContentL, ih]

/-- text content of a child as `Node.textContent` computes it, against the unfolded tree -/
theorem textContent_child {h : Heap} (ha : NoAlias h) : ∀ (fuel : Nat) (n : Id),
    (if h.kind n = .text then h.text n else textContent fuel h n) = (DomTree.abs fuel (toLL h) n).textContent := by
  intro fuel
  induction fuel with
  | zero =>
    intro n
    by_cases hk : h.kind n = .text
    · simp [hk, DomTree.abs, toLL, kindOf, DomTree.Tree.textContent]
    · have : kindOf (h.kind n) ≠ .text := fun e => hk ((kindOf_text _).mp e)
      simp [hk, textContent, DomTree.abs, toLL, this, DomTree.Tree.textContent, DomTree.textContentL]
  | succ fuel ih =>
    intro n
    by_cases hk : h.kind n = .text
    · simp [hk, DomTree.abs, toLL, kindOf, DomTree.Tree.textContent]
    · have : kindOf (h.kind n) ≠ .text := fun e => hk ((kindOf_text _).mp e)
      simp only [hk, if_false, textContent, childList_eq ha, DomTree.abs, toLL, this, DomTree.Tree.textContent,
        textContentL_map]
      congr 1
      funext c
      exact ih c

theorem descendantsL_map_elems (f : Id → DomTree.Tree) (tag : Nat) (l : List Id) :
    ((DomTree.descendantsL (l.map f)).filter (DomTree.Tree.isElemNamed tag)).map DomTree.Tree.id =
      l.flatMap (fun c => (if (f c).isElemNamed tag then [(f c).id] else []) ++ (f c).elementsByName tag) := by
  induction l with
  | nil => simp [DomTree.descendantsL]
  | cons c cs ih =>
    simp only [DomTree.Tree.elementsByName] at ih ⊢
    simp only [List.map_cons, DomTree.descendantsL, List.flatMap_cons, List.filter_cons, List.filter_append,
      List.map_append]
    split <;> simp [ih]

theorem abs_id (fuel : Nat) (m : DomTree.LL) (n : Id) : (DomTree.abs fuel m n).id = n := by
  cases fuel <;> simp only [DomTree.abs] <;> split <;> rfl

theorem abs_isElemNamed (fuel : Nat) (h : Heap) (n : Id) (tag : Nat) :
    (DomTree.abs fuel (toLL h) n).isElemNamed tag = true ↔ (h.kind n = .elem ∧ h.name n = tag) := by
  cases hk : h.kind n <;> cases fuel <;> simp [DomTree.abs, kindOf, hk, DomTree.Tree.isElemNamed]

/-- `getElementsByTagName` against the unfolded tree -/
theorem elements_abs {h : Heap} (ha : NoAlias h) (hb : NoAttr2 h) (tag : Nat) : ∀ (fuel : Nat) (n : Id),
    getElementsByTagName fuel h n tag = (DomTree.abs fuel (toLL h) n).elementsByName tag := by
  intro fuel
  induction fuel with
  | zero =>
    intro n
    simp only [getElementsByTagName, DomTree.abs]
    split <;> simp [DomTree.Tree.elementsByName, DomTree.Tree.descendants, DomTree.descendantsL]
  | succ fuel ih =>
    intro n
    by_cases hk : h.kind n = .text
    · simp [getElementsByTagName, hk, DomTree.abs, kindOf, DomTree.Tree.elementsByName, DomTree.Tree.descendants]
    · have : kindOf (h.kind n) ≠ .text := fun e => hk ((kindOf_text _).mp e)
      simp only [getElementsByTagName, hk, if_false, childList_eq ha, DomTree.abs, toLL_kind, toLL_kids, this, hb n,
        List.nil_append]
      rw [DomTree.Tree.elementsByName, DomTree.Tree.descendants, descendantsL_map_elems]
      congr 1
      funext c
      simp only [abs_isElemNamed, abs_id, ← ih c]

/-! ### without the `NoAlias` hypothesis: the tree unfolded through `childNodes` (the `self` attribute fragment where
a node has one) -/

/-- the list-of-lists model whose child list of a node is what `iter(node)` yields -/
def toLLc (h : Heap) : DomTree.LL :=
  { kids := childList h, kind := fun n => kindOf (h.kind n), text := h.text, name := h.name, next := h.next }

@[simp] theorem toLLc_kids (h : Heap) : (toLLc h).kids = childList h := rfl
@[simp] theorem toLLc_kind (h : Heap) (n : Id) : (toLLc h).kind n = kindOf (h.kind n) := rfl
@[simp] theorem toLLc_text (h : Heap) : (toLLc h).text = h.text := rfl
@[simp] theorem toLLc_name (h : Heap) : (toLLc h).name = h.name := rfl

theorem toLLc_eq_toLL {h : Heap} (ha : NoAlias h) : toLLc h = toLL h := by
  have : childList h = h.kids := funext (fun s => childList_eq ha s)
  simp [toLLc, toLL, this]

theorem textContent_child_c (h : Heap) : ∀ (fuel : Nat) (n : Id),
    (if h.kind n = .text then h.text n else textContent fuel h n) = (DomTree.abs fuel (toLLc h) n).textContent := by
  intro fuel
  induction fuel with
  | zero =>
    intro n
    by_cases hk : h.kind n = .text
    · simp [hk, DomTree.abs, kindOf, DomTree.Tree.textContent]
    · have : kindOf (h.kind n) ≠ .text := fun e => hk ((kindOf_text _).mp e)
      simp [hk, textContent, DomTree.abs, this, DomTree.Tree.textContent, DomTree.textContentL]
  | succ fuel ih =>
    intro n
    by_cases hk : h.kind n = .text
    · simp [hk, DomTree.abs, kindOf, DomTree.Tree.textContent]
    · have : kindOf (h.kind n) ≠ .text := fun e => hk ((kindOf_text _).mp e)
      simp only [hk, if_false, textContent, DomTree.abs, toLLc_kind, toLLc_kids, toLLc_text, toLLc_name, this,
        DomTree.Tree.textContent, textContentL_map]
      congr 1
      funext c
      exact ih c

theorem abs_isElemNamed_c (fuel : Nat) (h : Heap) (n : Id) (tag : Nat) :
    (DomTree.abs fuel (toLLc h) n).isElemNamed tag = true ↔ (h.kind n = .elem ∧ h.name n = tag) := by
  cases hk : h.kind n <;> cases fuel <;> simp [DomTree.abs, kindOf, hk, DomTree.Tree.isElemNamed]

theorem elements_abs_c (h : Heap) (hb : NoAttr2 h) (tag : Nat) : ∀ (fuel : Nat) (n : Id),
    getElementsByTagName fuel h n tag = (DomTree.abs fuel (toLLc h) n).elementsByName tag := by
  intro fuel
  induction fuel with
  | zero =>
    intro n
    simp only [getElementsByTagName, DomTree.abs]
    split <;> simp [DomTree.Tree.elementsByName, DomTree.Tree.descendants, DomTree.descendantsL]
  | succ fuel ih =>
    intro n
    by_cases hk : h.kind n = .text
    · simp [getElementsByTagName, hk, DomTree.abs, kindOf, DomTree.Tree.elementsByName, DomTree.Tree.descendants]
    · have : kindOf (h.kind n) ≠ .text := fun e => hk ((kindOf_text _).mp e)
      simp only [getElementsByTagName, hk, if_false, DomTree.abs, toLLc_kind, toLLc_kids, this, hb n, List.nil_append]
      rw [DomTree.Tree.elementsByName, DomTree.Tree.descendants, descendantsL_map_elems]
      congr 1
      funext c
      simp only [abs_isElemNamed_c, abs_id, ← ih c]

end PlasVerif.Proofs.DomViews
