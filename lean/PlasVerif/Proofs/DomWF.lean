import PlasVerif.Proofs.DomNormalize
/-! Well-formedness of the heap (listed ids are allocated, no fragment is listed, nothing beyond the allocation
counter) is kept by every editing step. -/
namespace PlasVerif.Proofs.DomWF
open PlasVerif.Model.Dom PlasVerif.Proofs.Dom PlasVerif.Proofs.DomClone PlasVerif.Proofs.DomNormalize

macro "omegaId" : tactic => `(tactic| ((try simp only [PlasVerif.Model.Dom.Id, PlasVerif.Spec.DomTree.Id] at *); omega))

/-- well-formed heap: every listed id is allocated, no fragment is listed, nothing is listed beyond the
    allocation counter (true of `init`, kept by `create` and by every operation) -/
def WF (h : Heap) : Prop := Closed h h.next ∧ Fresh h

theorem wf_putAt {h : Heap} (hw : WF h) (s k c : Nat) (hs : s < (h.next : Nat)) (hc : c < (h.next : Nat))
    (hk : h.kind c ≠ .frag) : WF (putAt h s k c) := by
  refine ⟨putAt_closed hw.1 s k c hc hk, ?_⟩
  intro n hn
  have hn' : (h.next : Nat) ≤ n := hn
  rw [putAt_kids_other h s k c n (by omegaId)]
  exact hw.2 n hn'

theorem wf_takeAt {h : Heap} (hw : WF h) (s j x : Nat) : WF (takeAt h s j x) := by
  refine ⟨?_, ?_⟩
  · intro n hn c hc
    exact hw.1 n hn c (takeAt_kids_sub h s j x n c hc)
  · intro n hn
    have := hw.2 n hn
    by_cases hns : n = s
    · subst hns; rw [takeAt_kids_self, this]; rfl
    · rw [takeAt_kids_other h s j x n hns]; exact this

theorem wf_setPO {h : Heap} (hw : WF h) (s c : Nat) : WF (setPO h s c) := hw

theorem wf_pop {h : Heap} (ha : NoAlias h) (hw : WF h) (s : Nat) (i : Int) : WF (pop h s i).1 := by
  rcases pop_cases ha s i with he | ⟨j, x, _, _, he⟩ <;> rw [he]
  · exact hw
  · exact wf_takeAt hw s j x

theorem wf_removeChild {h : Heap} (ha : NoAlias h) (hw : WF h) (s c : Nat) : WF (removeChild h s c).1 := by
  rcases removeChild_cases ha s c with ⟨_, he⟩ | ⟨_, he⟩ <;> rw [he]
  · exact hw
  · exact wf_takeAt hw s _ c

theorem wf_appendAll (s : Nat) (cs : List Nat) : ∀ h : Heap, WF h → s < (h.next : Nat) →
    (∀ c ∈ cs, c < (h.next : Nat) ∧ h.kind c ≠ .frag) → WF (appendAll h s cs) := by
  induction cs with
  | nil => intro h hw _ _; exact hw
  | cons c cs ih =>
    intro h hw hs hc
    rw [appendAll_cons]
    exact ih _ (wf_putAt hw s _ c hs (hc c (by simp)).1 (hc c (by simp)).2) hs (fun d hd => hc d (by simp [hd]))

theorem wf_insertAll (s : Nat) (cs : List Nat) : ∀ (h : Heap) (i : Int), WF h → s < (h.next : Nat) →
    (∀ c ∈ cs, c < (h.next : Nat) ∧ h.kind c ≠ .frag) → WF (insertAll h s i cs).1 := by
  induction cs with
  | nil => intro h i hw _ _; exact hw
  | cons c cs ih =>
    intro h i hw hs hc
    rw [insertAll_cons]
    exact ih _ _ (wf_putAt hw s _ c hs (hc c (by simp)).1 (hc c (by simp)).2) hs (fun d hd => hc d (by simp [hd]))

/-- the items of an allocated fragment are allocated single nodes -/
theorem frag_items_ok {h : Heap} (hw : WF h) {c : Nat} (hc : c < (h.next : Nat)) :
    ∀ it ∈ h.kids c, it < (h.next : Nat) ∧ h.kind it ≠ .frag := fun it hit => hw.1 c hc it hit

/-! ### every operation keeps the heap well-formed -/

section ops
variable {h : Heap} (ha : NoAlias h) (hw : WF h)
include ha hw

theorem wf_opAppend_leaf (s c : Nat) (hs : s < (h.next : Nat)) (hc : c < (h.next : Nat)) (hk : h.kind c ≠ .frag) :
    WF (opAppend h s c).1 := by
  rw [opAppend_leaf ha s c hk]; exact wf_putAt hw s _ c hs hc hk

theorem wf_opInsert_leaf (s : Nat) (i : Int) (c : Nat) (hs : s < (h.next : Nat)) (hc : c < (h.next : Nat))
    (hk : h.kind c ≠ .frag) : WF (opInsert h s i c).1 := by
  rw [opInsert_leaf ha s i c hk]; exact wf_putAt hw s _ c hs hc hk

theorem wf_setItem_leaf (s : Nat) (i : Int) (c : Nat) (hs : s < (h.next : Nat)) (hc : c < (h.next : Nat))
    (hk : h.kind c ≠ .frag) : WF (setItem h s i c).1 := by
  rw [setItem_eq ha s i c hk]
  exact wf_pop (noAlias_putAt ha _ _ _) (wf_putAt hw s _ c hs hc hk) _ _

theorem wf_insertRel_leaf (off : Nat) (s new ref : Nat) (hs : s < (h.next : Nat)) (hc : new < (h.next : Nat))
    (hk : h.kind new ≠ .frag) : WF (insertRel off h s new ref).1 := by
  rw [insertRel_eq ha off s new ref hk]
  have hw1 := wf_removeChild ha hw s new
  simp only
  split
  · exact wf_putAt hw1 s _ new (by rw [removeChild_next ha]; exact hs) (by rw [removeChild_next ha]; exact hc)
      (by rw [removeChild_kind ha]; exact hk)
  · exact hw1

theorem wf_replaceChild_leaf (s new old : Nat) (hs : s < (h.next : Nat)) (hc : new < (h.next : Nat))
    (hk : h.kind new ≠ .frag) : WF (replaceChild h s new old).1 := by
  rw [replaceChild_eq ha s new old hk]
  have ha1 := noAlias_removeChild ha s new
  have hw1 := wf_removeChild ha hw s new
  simp only
  split
  · exact wf_putAt (wf_pop ha1 hw1 _ _) s _ new (by rw [pop_next ha1, removeChild_next ha]; exact hs)
      (by rw [pop_next ha1, removeChild_next ha]; exact hc) (by rw [pop_kind ha1, removeChild_kind ha]; exact hk)
  · exact hw1

theorem wf_extend_leaf (s : Nat) (cs : List Nat) (hs : s < (h.next : Nat))
    (hc : ∀ c ∈ cs, c < (h.next : Nat) ∧ h.kind c ≠ .frag) : WF (extend h s cs).1 := by
  rw [extend_eq s cs h ha (fun c hm => (hc c hm).2)]
  exact wf_appendAll s cs h hw hs hc

theorem wf_opAppend_frag (s c : Nat) (hs : s < (h.next : Nat)) (hc : c < (h.next : Nat)) (hp : FragArg h s c) :
    WF (opAppend h s c).1 := by
  rw [opAppend_frag_eq ha s c hp]
  exact wf_setPO (wf_appendAll s _ h hw hs (frag_items_ok hw hc)) s c

theorem wf_opInsert_frag (s : Nat) (i : Int) (c : Nat) (hs : s < (h.next : Nat)) (hc : c < (h.next : Nat))
    (hp : FragArg h s c) : WF (opInsert h s i c).1 := by
  obtain ⟨hk, hne, _, _, hit⟩ := hp
  simp only [opInsert, splices_ne ha s c hne, Bool.false_eq_true, if_false,
    insert_frag_eq ha s i c hk (fun it hm => (hit it hm).1)]
  exact wf_setPO (wf_insertAll s _ h i hw hs (frag_items_ok hw hc)) s c

theorem wf_setItem_frag (s : Nat) (i : Int) (c : Nat) (hs : s < (h.next : Nat)) (hc : c < (h.next : Nat))
    (hp : FragArg h s c) : WF (setItem h s i c).1 := by
  obtain ⟨hk, hne, _, _, hit⟩ := hp
  rw [setItem_frag_eq ha s i c hk hne (fun it hm => (hit it hm).1), opPop_fst]
  exact wf_pop (noAlias_insertAll s _ h i ha) (wf_insertAll s _ h i hw hs (frag_items_ok hw hc)) _ _

theorem wf_insertRel_frag (off : Nat) (s new ref : Nat) (hs : s < (h.next : Nat)) (hc : new < (h.next : Nat))
    (hp : FragArg h s new) : WF (insertRel off h s new ref).1 := by
  obtain ⟨hk, hne, _, _, hit⟩ := hp
  rw [insertRel_frag_eq ha off s new ref hk hne (fun it hm => (hit it hm).1)]
  have hw1 := wf_removeChild ha hw s new
  have hitems : ∀ it ∈ h.kids new, it < ((removeChild h s new).1.next : Nat) ∧ (removeChild h s new).1.kind it ≠ .frag := by
    rw [removeChild_next ha, removeChild_kind ha]; exact frag_items_ok hw hc
  simp only
  split
  · exact wf_setPO (wf_insertAll s _ _ _ hw1 (by rw [removeChild_next ha]; exact hs) hitems) s new
  · exact hw1

theorem wf_replaceChild_frag (s new old : Nat) (hs : s < (h.next : Nat)) (hc : new < (h.next : Nat))
    (hp : FragArg h s new) : WF (replaceChild h s new old).1 := by
  obtain ⟨hk, hne, _, _, hit⟩ := hp
  rw [replaceChild_frag_eq ha s new old hk hne (fun it hm => (hit it hm).1)]
  have ha1 := noAlias_removeChild ha s new
  have hw1 := wf_removeChild ha hw s new
  simp only
  split
  · have hitems : ∀ it ∈ h.kids new,
        it < ((pop (removeChild h s new).1 s (((removeChild h s new).1.kids s).idxOf old)).1.next : Nat) ∧
        (pop (removeChild h s new).1 s (((removeChild h s new).1.kids s).idxOf old)).1.kind it ≠ .frag := by
      rw [pop_next ha1, removeChild_next ha, pop_kind ha1, removeChild_kind ha]; exact frag_items_ok hw hc
    exact wf_setPO (wf_insertAll s _ _ _ (wf_pop ha1 hw1 _ _)
      (by rw [pop_next ha1, removeChild_next ha]; exact hs) hitems) s new
  · exact hw1

end ops

theorem opAppend_argOK_next {h : Heap} (ha : NoAlias h) (s c : Nat) (hp : ArgOK h s c) :
    ((opAppend h s c).1.next : Nat) = h.next := by
  rcases hp with ⟨hk, _⟩ | hp
  · rw [opAppend_leaf ha s c hk]; rfl
  · rw [opAppend_frag_eq ha s c hp]
    have : ∀ (cs : List Nat) (a : Heap), ((appendAll a s cs).next : Nat) = a.next := by
      intro cs; induction cs with
      | nil => intro a; rfl
      | cons d ds ih => intro a; rw [appendAll_cons, ih]; rfl
    exact this _ h

theorem wf_extend_any (s : Nat) (cs : List Nat) : ∀ h : Heap, NoAlias h → Inv h → WF h → s < (h.next : Nat) →
    (∀ c ∈ cs, c < (h.next : Nat)) → ExtendPre s h cs → WF (cs.foldl (fun a c => (opAppend a s c).1) h) := by
  induction cs with
  | nil => intro h _ _ hw _ _ _; exact hw
  | cons c cs ih =>
    intro h ha hi hw hs hc hp
    have hn := opAppend_argOK_next ha s c hp.1
    have hstep := opAppend_argOK_inv ha hi s c hp.1
    have hw' : WF (opAppend h s c).1 := by
      rcases hp.1 with ⟨hk, _⟩ | hf
      · exact wf_opAppend_leaf ha hw s c hs (hc c (by simp)) hk
      · exact wf_opAppend_frag ha hw s c hs (hc c (by simp)) hf
    exact ih _ hstep.1 hstep.2 hw' (by rw [hn]; exact hs) (fun d hd => by rw [hn]; exact hc d (by simp [hd])) hp.2

end PlasVerif.Proofs.DomWF
