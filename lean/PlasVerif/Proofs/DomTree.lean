import PlasVerif.Spec.DomTree
/-! Helper lemmas about the tree-level vocabulary of `Spec/DomTree.lean` (text content, normalisation). -/
namespace PlasVerif.Proofs.DomTree
open PlasVerif.Spec.DomTree

theorem textContentL_append (a b : List Tree) : textContentL (a ++ b) = textContentL a ++ textContentL b := by
  induction a with
  | nil => simp [textContentL]
  | cons t ts ih => simp [textContentL, ih]

theorem textContentL_flush (p : List Nat) (hv : Bool) (h : hv = false → p = []) : textContentL (flush p hv) = p := by
  cases hv with
  | true => simp [flush, textContentL, Tree.textContent]
  | false => simp [flush, textContentL, h rfl]

mutual
theorem normalize_textContent : ∀ t : Tree, t.normalize.textContent = t.textContent
  | .text _ s => by simp [Tree.normalize, Tree.textContent]
  | .node i k nm cs => by
    simp only [Tree.normalize, Tree.textContent]
    rw [normalizeL_textContent cs [] false (fun _ => rfl)]; simp
theorem normalizeL_textContent : ∀ (ts : List Tree) (p : List Nat) (hv : Bool), (hv = false → p = []) →
    textContentL (normalizeL ts p hv) = p ++ textContentL ts
  | [], p, hv, h => by simp [normalizeL, textContentL, textContentL_flush p hv h]
  | .text _ s :: ts, p, hv, _ => by
    simp only [normalizeL, textContentL, Tree.textContent]
    rw [normalizeL_textContent ts (p ++ s) true (by simp)]; simp
  | .node i k nm cs :: ts, p, hv, h => by
    simp only [normalizeL, textContentL_append, textContentL, Tree.textContent, textContentL_flush p hv h]
    rw [normalizeL_textContent cs [] false (fun _ => rfl), normalizeL_textContent ts [] false (fun _ => rfl)]
    simp
end

mutual
theorem normalize_idem : ∀ t : Tree, t.normalize.normalize = t.normalize
  | .text _ s => by simp [Tree.normalize]
  | .node i k nm cs => by
    simp only [Tree.normalize]
    rw [normalizeL_idem cs [] false]
theorem normalizeL_idem : ∀ (ts : List Tree) (p : List Nat) (hv : Bool),
    normalizeL (normalizeL ts p hv) [] false = normalizeL ts p hv
  | [], p, hv => by
    cases hv <;> simp [normalizeL, flush]
  | .text _ s :: ts, p, hv => by
    simp only [normalizeL]
    exact normalizeL_idem ts (p ++ s) true
  | .node i k nm cs :: ts, p, hv => by
    cases hv with
    | false =>
      simp only [normalizeL, flush, List.nil_append, Bool.false_eq_true, if_false]
      rw [normalizeL_idem cs [] false, normalizeL_idem ts [] false]
    | true =>
      simp only [normalizeL, flush, if_true, List.cons_append, List.nil_append, List.append_nil]
      rw [normalizeL_idem cs [] false, normalizeL_idem ts [] false]
end

theorem noAdj_node_cons (i : Id) (k : NKind) (nm : Nat) (cs R : List Tree) :
    noAdjacentText (.node i k nm cs :: R) = (noAdjacentText cs && noAdjacentText R) := by
  cases R <;> simp [noAdjacentText, Tree.isText]

theorem noAdj_text_node (j : Id) (s : List Nat) (i : Id) (k : NKind) (nm : Nat) (cs R : List Tree) :
    noAdjacentText (.text j s :: .node i k nm cs :: R) = noAdjacentText (.node i k nm cs :: R) := by
  simp [noAdjacentText, Tree.isText]

theorem normalizeL_noAdjacent : ∀ (ts : List Tree) (p : List Nat) (hv : Bool),
    noAdjacentText (normalizeL ts p hv) = true
  | [], p, hv => by cases hv <;> simp [normalizeL, flush, noAdjacentText]
  | .text _ s :: ts, p, hv => by
    simp only [normalizeL]; exact normalizeL_noAdjacent ts (p ++ s) true
  | .node i k nm cs :: ts, p, hv => by
    cases hv with
    | false =>
      simp only [normalizeL, flush, List.nil_append, Bool.false_eq_true, if_false, noAdj_node_cons]
      rw [normalizeL_noAdjacent cs [] false, normalizeL_noAdjacent ts [] false]; rfl
    | true =>
      simp only [normalizeL, flush, if_true, List.cons_append, List.nil_append, noAdj_text_node, noAdj_node_cons]
      rw [normalizeL_noAdjacent cs [] false, normalizeL_noAdjacent ts [] false]; rfl

end PlasVerif.Proofs.DomTree
