import PlasVerif.Spec.DomTree
/-! Helper lemmas about the tree-level vocabulary of `Spec/DomTree.lean` (text content, normalisation). -/
namespace PlasVerif.Proofs.DomTree
open PlasVerif.Spec.DomTree

theorem textContentL_append (a b : List Tree) : textContentL (a ++ b) = textContentL a ++ textContentL b := by
  induction a with
  | nil => simp [textContentL]
  | cons t ts ih => simp [textContentL, ih]

theorem textContentL_flush (p : List Nat) (hv : Bool) (h : hv = false → p = []) : textContentL (flush p hv) = p := by
  cases hv with
  | true => simp [flush, textContentL, Tree.textContent]
  | false => simp [flush, textContentL, h rfl]

mutual
theorem normalize_textContent : ∀ t : Tree, t.normalize.textContent = t.textContent
  | .text _ s => by simp [Tree.normalize, Tree.textContent]
  | .node i k nm cs => by
    simp only [Tree.normalize, Tree.textContent]
    rw [normalizeL_textContent cs [] false (fun _ => rfl)]; simp
theorem normalizeL_textContent : ∀ (ts : List Tree) (p : List Nat) (hv : Bool), (hv = false → p = []) →
    textContentL (normalizeL ts p hv) = p ++ textContentL ts
  | [], p, hv, h => by simp [normalizeL, textContentL, textContentL_flush p hv h]
  | .text _ s :: ts, p, hv, _ => by
    simp only [normalizeL, textContentL, Tree.textContent]
    rw [normalizeL_textContent ts (p ++ s) true (by simp)]; simp
  | .node i k nm cs :: ts, p, hv, h => by
    simp only [normalizeL, textContentL_append, textContentL, Tree.textContent, textContentL_flush p hv h]
    rw [normalizeL_textContent cs [] false (fun _ => rfl), normalizeL_textContent ts [] false (fun _ => rfl)]
    simp
end

mutual
theorem normalize_idem : ∀ t : Tree, t.normalize.normalize = t.normalize
  | .text _ s => by simp [Tree.normalize]
  | .node i k nm cs => by
    simp only [Tree.normalize]
    rw [normalizeL_idem cs [] false]
theorem normalizeL_idem : ∀ (ts : List Tree) (p : List Nat) (hv : Bool),
    normalizeL (normalizeL ts p hv) [] false = normalizeL ts p hv
  | [], p, hv => by
    cases hv <;> simp [normalizeL, flush]
  | .text _ s :: ts, p, hv => by
    simp only [normalizeL]
    exact normalizeL_idem ts (p ++ s) true
  | .node i k nm cs :: ts, p, hv => by
    cases hv with
    | false =>
      simp only [normalizeL, flush, List.nil_append, Bool.false_eq_true, if_false]
      rw [normalizeL_idem cs [] false, normalizeL_idem ts [] false]
    | true =>
      simp only [normalizeL, flush, if_true, List.cons_append, List.nil_append, List.append_nil]
      rw [normalizeL_idem cs [] false, normalizeL_idem ts [] false]
end

theorem noAdj_node_cons (i : Id) (k : NKind) (nm : Nat) (cs R : List Tree) :
    noAdjacentText (.node i k nm cs :: R) = (noAdjacentText cs && noAdjacentText R) := by
  cases R <;> simp [noAdjacentText, Tree.isText]

theorem noAdj_text_node (j : Id) (s : List Nat) (i : Id) (k : NKind) (nm : Nat) (cs R : List Tree) :
    noAdjacentText (.text j s :: .node i k nm cs :: R) = noAdjacentText (.node i k nm cs :: R) := by
  simp [noAdjacentText, Tree.isText]

theorem normalizeL_noAdjacent : ∀ (ts : List Tree) (p : List Nat) (hv : Bool),
    noAdjacentText (normalizeL ts p hv) = true
  | [], p, hv => by cases hv <;> simp [normalizeL, flush, noAdjacentText]
  | .text _ s :: ts, p, hv => by
    simp only [normalizeL]; exact normalizeL_noAdjacent ts (p ++ s) true
  | .node i k nm cs :: ts, p, hv => by
    cases hv with
    | false =>
      simp only [normalizeL, flush, List.nil_append, Bool.false_eq_true, if_false, noAdj_node_cons]
      rw [normalizeL_noAdjacent cs [] false, normalizeL_noAdjacent ts [] false]; rfl
    | true =>
      simp only [normalizeL, flush, if_true, List.cons_append, List.nil_append, noAdj_text_node, noAdj_node_cons]
      rw [normalizeL_noAdjacent cs [] false, normalizeL_noAdjacent ts [] false]; rfl

/-! ### text content, normalisation and text adjacency depend on the shape only -/

mutual
/-- a tree of the given shape (all ids 0) -/
def ofShape : Shape → Tree
  | .text s => .text 0 s
  | .node k nm cs => .node 0 k nm (ofShapeL cs)
def ofShapeL : List Shape → List Tree
  | [] => []
  | c :: cs => ofShape c :: ofShapeL cs
end

mutual
theorem textContent_ofShape : ∀ t : Tree, (ofShape t.shape).textContent = t.textContent
  | .text _ s => by simp [Tree.shape, ofShape, Tree.textContent]
  | .node _ k nm cs => by simp [Tree.shape, ofShape, Tree.textContent, textContentL_ofShape cs]
theorem textContentL_ofShape : ∀ ts : List Tree, textContentL (ofShapeL (shapeL ts)) = textContentL ts
  | [] => by simp [shapeL, ofShapeL, textContentL]
  | t :: ts => by simp [shapeL, ofShapeL, textContentL, textContent_ofShape t, textContentL_ofShape ts]
end

theorem textContent_congr {t u : Tree} (h : t.shape = u.shape) : t.textContent = u.textContent := by
  rw [← textContent_ofShape t, ← textContent_ofShape u, h]

mutual
theorem normalize_ofShape : ∀ t : Tree, (ofShape t.shape).normalize.shape = t.normalize.shape
  | .text _ s => by simp [Tree.shape, ofShape, Tree.normalize]
  | .node _ k nm cs => by
    simp only [Tree.shape, ofShape, Tree.normalize]
    rw [normalizeL_ofShape cs [] false]
theorem normalizeL_ofShape : ∀ (ts : List Tree) (p : List Nat) (hv : Bool),
    shapeL (normalizeL (ofShapeL (shapeL ts)) p hv) = shapeL (normalizeL ts p hv)
  | [], p, hv => by simp [shapeL, ofShapeL, normalizeL]
  | .text _ s :: ts, p, hv => by
    simp only [shapeL, Tree.shape, ofShapeL, ofShape, normalizeL]
    exact normalizeL_ofShape ts (p ++ s) true
  | .node _ k nm cs :: ts, p, hv => by
    simp only [shapeL, Tree.shape, ofShapeL, ofShape, normalizeL]
    have shapeL_app : ∀ a b : List Tree, shapeL (a ++ b) = shapeL a ++ shapeL b := by
      intro a b; induction a with
      | nil => simp [shapeL]
      | cons x xs ih => simp [shapeL, ih]
    rw [shapeL_app, shapeL_app]
    simp only [shapeL, Tree.shape]
    rw [normalizeL_ofShape cs [] false, normalizeL_ofShape ts [] false]
end

theorem normalize_congr {t u : Tree} (h : t.shape = u.shape) : t.normalize.shape = u.normalize.shape := by
  rw [← normalize_ofShape t, ← normalize_ofShape u, h]

theorem isText_ofShape (t : Tree) : (ofShape t.shape).isText = t.isText := by
  cases t <;> simp [Tree.shape, ofShape, Tree.isText]

theorem noAdjacentText_ofShape : ∀ ts : List Tree, noAdjacentText (ofShapeL (shapeL ts)) = noAdjacentText ts
  | [] => by simp [shapeL, ofShapeL, noAdjacentText]
  | [.text _ _] => by simp [shapeL, ofShapeL, Tree.shape, ofShape, noAdjacentText]
  | [.node _ _ _ cs] => by
    simp only [shapeL, ofShapeL, Tree.shape, ofShape, noAdjacentText]
    exact noAdjacentText_ofShape cs
  | .text i s :: u :: ts => by
    have ih := noAdjacentText_ofShape (u :: ts)
    simp only [shapeL, ofShapeL] at ih
    simp only [shapeL, ofShapeL, Tree.shape, ofShape, noAdjacentText, Tree.isText, ih]
    cases u <;> simp [Tree.shape, ofShape]
  | .node i k nm cs :: u :: ts => by
    have ih := noAdjacentText_ofShape (u :: ts)
    have ihc := noAdjacentText_ofShape cs
    simp only [shapeL, ofShapeL] at ih
    simp only [shapeL, ofShapeL, Tree.shape, ofShape, noAdjacentText, Tree.isText, ih, ihc]
    cases u <;> simp [Tree.shape, ofShape]

theorem noAdjacentText_congr {ts us : List Tree} (h : shapeL ts = shapeL us) : noAdjacentText ts = noAdjacentText us := by
  rw [← noAdjacentText_ofShape ts, ← noAdjacentText_ofShape us, h]

end PlasVerif.Proofs.DomTree
