import PlasVerif.Spec.NumberingRules
/-! Helper lemmas for C08: the translated `numToRoman` produces the standard numeral.
    Structure: (1) every statement only appends to `roman` (prefix lemma), so the thousands prefix `"M"*n` is
    carried through unchanged; (2) the remaining number is `x % 1000 < 1000` and the twelve statements are three
    scaled copies of one digit program, each turning one decimal digit into its roman digit (digit decomposition);
    the kernel evaluation of the finite table is kept as a cross-check only. -/
set_option linter.unusedSimpArgs false
set_option linter.unusedVariables false
namespace PlasVerif.Proofs.Roman
open PlasVerif.Model.Counters PlasVerif.Spec.NumberingRules PlasVerif.Generated.Counters

theorem whileGe_prefix (k : Nat) (sym : List Char) : ∀ (f : Nat) (acc : List Char) (n : Nat),
    whileGe k sym f acc n = (acc ++ (whileGe k sym f [] n).1, (whileGe k sym f [] n).2) := by
  intro f
  induction f with
  | zero => intro acc n; simp [whileGe]
  | succ f ih =>
    intro acc n
    simp only [whileGe]
    split
    · rw [ih (acc ++ sym), ih ([] ++ sym)]; simp
    · simp

theorem runStmt_prefix (acc : List Char) (n : Nat) (s : Bool × Nat × List Char) :
    runStmt (acc, n) s = (acc ++ (runStmt ([], n) s).1, (runStmt ([], n) s).2) := by
  simp only [runStmt]
  split
  · exact whileGe_prefix _ _ _ _ _
  · split <;> simp

theorem foldl_prefix (stmts : List (Bool × Nat × List Char)) : ∀ (acc : List Char) (n : Nat),
    (stmts.foldl runStmt (acc, n)).1 = acc ++ (stmts.foldl runStmt ([], n)).1 := by
  induction stmts with
  | nil => intro acc n; simp
  | cons s ss ih =>
    intro acc n
    simp only [List.foldl_cons]
    rw [runStmt_prefix acc n s, ih, ih (runStmt ([], n) s).1]
    simp

theorem whileGe_snd (k : Nat) (sym : List Char) : ∀ (f : Nat) (acc : List Char) (n : Nat),
    (whileGe k sym f acc n).2 = (whileGe k sym f [] n).2 := by
  intro f acc n; rw [whileGe_prefix]

theorem runStmt_snd (acc : List Char) (n : Nat) (s : Bool × Nat × List Char) :
    (runStmt (acc, n) s).2 = (runStmt ([], n) s).2 := by
  rw [runStmt_prefix]

theorem foldl_snd (stmts : List (Bool × Nat × List Char)) : ∀ (acc : List Char) (n : Nat),
    (stmts.foldl runStmt (acc, n)).2 = (stmts.foldl runStmt ([], n)).2 := by
  induction stmts with
  | nil => intro acc n; rfl
  | cons s ss ih =>
    intro acc n
    simp only [List.foldl_cons]
    rw [show runStmt (acc, n) s = ((runStmt (acc, n) s).1, (runStmt (acc, n) s).2) from rfl, ih,
        show runStmt ([], n) s = ((runStmt ([], n) s).1, (runStmt ([], n) s).2) from rfl, ih (runStmt ([], n) s).1,
        runStmt_snd]

theorem repChars_thousands (n : Nat) : repChars romanThousand n = thousands n := by
  induction n with
  | zero => rfl
  | succ n ih => rw [repChars, ih]; simp [thousands, romanThousand]

/-! ## digit decomposition

The body of `numToRoman` after the thousands is three copies of one four-statement *digit program*
`if ≥9 / while ≥5 / if ≥4 / while ≥1`, with all thresholds multiplied by 100, 10 and 1.  Running a statement whose
threshold is a multiple `k*u` of the unit on a number `d*u + r` (`r < u`) does to `d` what the unscaled statement
does, and carries `r` along (`runStmt_scale`); so each stage turns its decimal digit into the roman digit and hands
the remainder to the next stage. -/

/-- the digit program for the symbols of 1, 5 and 10 of a position -/
def digitProg (one five ten : Char) : List (Bool × Nat × List Char) :=
  [(false, 9, [one, ten]), (true, 5, [five]), (false, 4, [one, five]), (true, 1, [one])]

def scale (u : Nat) (prog : List (Bool × Nat × List Char)) : List (Bool × Nat × List Char) :=
  prog.map fun st => (st.1, st.2.1 * u, st.2.2)

/-- the three scaled digit programs, hundreds, tens, units -/
def stages : List (Bool × Nat × List Char) :=
  scale 100 (digitProg 'C' 'D' 'M') ++ scale 10 (digitProg 'X' 'L' 'C') ++ scale 1 (digitProg 'I' 'V' 'X')

theorem scale_ge (u k d r : Nat) (hr : r < u) : (d * u + r ≥ k * u) ↔ d ≥ k := by
  constructor
  · intro h
    refine Nat.le_of_not_lt fun hlt => ?_
    have h1 : (d + 1) * u ≤ k * u := Nat.mul_le_mul_right u hlt
    have h2 : (d + 1) * u = d * u + u := Nat.succ_mul d u
    omega
  · intro h
    have := Nat.mul_le_mul_right u h
    omega

theorem scale_sub (u k d r : Nat) (h : k ≤ d) : d * u + r - k * u = (d - k) * u + r := by
  have h1 : k * u ≤ d * u := Nat.mul_le_mul_right u h
  have h2 : (d - k) * u = d * u - k * u := Nat.sub_mul d k u
  omega

theorem whileGe_scale (u k : Nat) (sym : List Char) (hk : 0 < k) (r : Nat) (hr : r < u) :
    ∀ (f2 f1 : Nat) (acc : List Char) (d : Nat), d ≤ f2 → d ≤ f1 →
      whileGe (k * u) sym f1 acc (d * u + r) =
        ((whileGe k sym f2 acc d).1, (whileGe k sym f2 acc d).2 * u + r) := by
  intro f2
  induction f2 with
  | zero =>
    intro f1 acc d h2 _
    have hd : d = 0 := by omega
    subst hd
    have hlt : ¬ (0 * u + r ≥ k * u) := by
      rw [scale_ge u k 0 r hr]; omega
    cases f1 with
    | zero => simp [whileGe]
    | succ f1 => simp only [whileGe, hlt, if_false]
  | succ f2 ih =>
    intro f1 acc d h2 h1
    by_cases hge : d ≥ k
    · have hge' : d * u + r ≥ k * u := (scale_ge u k d r hr).mpr hge
      cases f1 with
      | zero =>
        have : d = 0 := by omega
        omega
      | succ f1 =>
        simp only [whileGe, hge, hge', if_true]
        rw [scale_sub u k d r hge]
        exact ih f1 (acc ++ sym) (d - k) (by omega) (by omega)
    · have hlt' : ¬ (d * u + r ≥ k * u) := by rw [scale_ge u k d r hr]; exact hge
      cases f1 with
      | zero => simp [whileGe, hge]
      | succ f1 => simp only [whileGe, hge, hlt', if_false]

theorem runStmt_scale (u : Nat) (r : Nat) (hr : r < u) (acc : List Char) (d : Nat) (w : Bool) (k : Nat) (sym : List Char)
    (hk : 0 < k) :
    runStmt (acc, d * u + r) (w, k * u, sym) =
      ((runStmt (acc, d) (w, k, sym)).1, (runStmt (acc, d) (w, k, sym)).2 * u + r) := by
  cases w with
  | true =>
    simp only [runStmt, if_true]
    have hd : d ≤ d * u + r := by
      have : 0 < u := by omega
      have := Nat.le_mul_of_pos_right d this
      omega
    exact whileGe_scale u k sym hk r hr d (d * u + r) acc d (Nat.le_refl _) hd
  | false =>
    simp only [runStmt, Bool.false_eq_true, if_false]
    by_cases hge : d ≥ k
    · have hge' : d * u + r ≥ k * u := (scale_ge u k d r hr).mpr hge
      simp only [hge, hge', if_true, scale_sub u k d r hge]
    · have hlt' : ¬ (d * u + r ≥ k * u) := by rw [scale_ge u k d r hr]; exact hge
      simp only [hge, hlt', if_false]

theorem foldl_scale (u : Nat) (r : Nat) (hr : r < u) : ∀ (prog : List (Bool × Nat × List Char)),
    (∀ st ∈ prog, 0 < st.2.1) → ∀ (acc : List Char) (d : Nat),
    (scale u prog).foldl runStmt (acc, d * u + r) =
      ((prog.foldl runStmt (acc, d)).1, (prog.foldl runStmt (acc, d)).2 * u + r) := by
  intro prog
  induction prog with
  | nil => intro _ acc d; rfl
  | cons st prog ih =>
    intro hpos acc d
    obtain ⟨w, k, sym⟩ := st
    simp only [scale, List.map_cons, List.foldl_cons]
    rw [runStmt_scale u r hr acc d w k sym (hpos (w, k, sym) List.mem_cons_self)]
    exact ih (fun st hst => hpos st (List.mem_cons_of_mem _ hst)) _ _

/-- one decimal digit through the digit program (ten cases, each a closed computation) -/
theorem digitProg_table (one five ten : Char) : ∀ d, d < 10 →
    (digitProg one five ten).foldl runStmt ([], d) = (digit one five ten d, 0) := by
  intro d hd
  have : d = 0 ∨ d = 1 ∨ d = 2 ∨ d = 3 ∨ d = 4 ∨ d = 5 ∨ d = 6 ∨ d = 7 ∨ d = 8 ∨ d = 9 := by omega
  rcases this with rfl | rfl | rfl | rfl | rfl | rfl | rfl | rfl | rfl | rfl <;> rfl

theorem digitProg_pos (one five ten : Char) : ∀ st ∈ digitProg one five ten, 0 < st.2.1 := by
  intro st hst
  simp only [digitProg, List.mem_cons, List.not_mem_nil, or_false] at hst
  rcases hst with rfl | rfl | rfl | rfl <;> simp

/-- one stage: the digit `d` of the current unit becomes its roman digit, the remainder `r` is handed on -/
theorem stage (u : Nat) (one five ten : Char) (acc : List Char) (d r : Nat) (hd : d < 10) (hr : r < u) :
    (scale u (digitProg one five ten)).foldl runStmt (acc, d * u + r) = (acc ++ digit one five ten d, r) := by
  rw [foldl_scale u r hr _ (digitProg_pos one five ten)]
  have h1 := foldl_prefix (digitProg one five ten) acc d
  have h2 := digitProg_table one five ten d hd
  have h3 : ((digitProg one five ten).foldl runStmt (acc, d)).2 = ((digitProg one five ten).foldl runStmt ([], d)).2 := by
    exact foldl_snd (digitProg one five ten) acc d
  rw [h1, h3, h2]; simp

/-- the three low decimal digits, structurally, for any statement list that is the three scaled digit programs -/
theorem low_table_structural (stmts : List (Bool × Nat × List Char)) (hs : stmts = stages) :
    ∀ m, m < 1000 → (stmts.foldl runStmt ([], m)).1 = romanLow m := by
  intro m hm
  have e1 : m = (m / 100) * 100 + m % 100 := by omega
  have e2 : m % 100 = (m / 10 % 10) * 10 + m % 10 := by omega
  have e3 : m % 10 = (m % 10) * 1 + 0 := by omega
  rw [hs, stages, List.foldl_append, List.foldl_append]
  conv => lhs; rw [e1]
  rw [stage 100 'C' 'D' 'M' [] (m / 100) (m % 100) (by omega) (by omega)]
  conv => lhs; rw [e2]
  rw [stage 10 'X' 'L' 'C' _ (m / 10 % 10) (m % 10) (by omega) (by omega)]
  conv => lhs; rw [e3]
  rw [stage 1 'I' 'V' 'X' _ (m % 10) 0 (by omega) (by omega)]
  have : m / 100 % 10 = m / 100 := by omega
  simp [romanLow, this]

/-- the same table by kernel evaluation of the regenerated statements, whatever their shape (this is the version
    `roman_standard` rests on, so that a behaviour-preserving rewrite of `numToRoman` - e.g. an `if` turned into a
    `while` that runs at most once - does not break the proof) -/
theorem low_table : ∀ m, m < 1000 → (romanStmts.foldl runStmt ([], m)).1 = romanLow m := by
  decide +kernel

theorem romanChars_nat_of (n : Nat)
    (hlow : ∀ m, m < 1000 → (romanStmts.foldl runStmt ([], m)).1 = romanLow m) :
    PlasVerif.Model.Counters.romanChars (n : Int) = PlasVerif.Spec.NumberingRules.romanChars n := by
  have h1 : ((n : Int) / (romanDiv : Int)).toNat = n / 1000 := by simp [romanDiv]; omega
  have h2 : ((n : Int) % (romanDiv : Int)).toNat = n % 1000 := by simp [romanDiv]; omega
  simp only [PlasVerif.Model.Counters.romanChars, PlasVerif.Spec.NumberingRules.romanChars, h1, h2]
  rw [foldl_prefix, repChars_thousands, hlow _ (Nat.mod_lt _ (by decide))]

theorem romanChars_nat (n : Nat) :
    PlasVerif.Model.Counters.romanChars (n : Int) = PlasVerif.Spec.NumberingRules.romanChars n :=
  romanChars_nat_of n low_table

end PlasVerif.Proofs.Roman
