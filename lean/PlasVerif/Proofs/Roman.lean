import PlasVerif.Spec.NumberingRules
/-! Helper lemmas for C08: the translated `numToRoman` produces the standard numeral.
    Structure: (1) every statement only appends to `roman` (prefix lemma), so the thousands prefix `"M"*n` is
    carried through unchanged; (2) the remaining number is `x % 1000 < 1000` and the twelve statements map it to
    its three decimal digits - a finite table checked by the kernel. -/
namespace PlasVerif.Proofs.Roman
open PlasVerif.Model.Counters PlasVerif.Spec.NumberingRules PlasVerif.Generated.Counters

theorem whileGe_prefix (k : Nat) (sym : List Char) : ∀ (f : Nat) (acc : List Char) (n : Nat),
    whileGe k sym f acc n = (acc ++ (whileGe k sym f [] n).1, (whileGe k sym f [] n).2) := by
  intro f
  induction f with
  | zero => intro acc n; simp [whileGe]
  | succ f ih =>
    intro acc n
    simp only [whileGe]
    split
    · rw [ih (acc ++ sym), ih ([] ++ sym)]; simp
    · simp

theorem runStmt_prefix (acc : List Char) (n : Nat) (s : Bool × Nat × List Char) :
    runStmt (acc, n) s = (acc ++ (runStmt ([], n) s).1, (runStmt ([], n) s).2) := by
  simp only [runStmt]
  split
  · exact whileGe_prefix _ _ _ _ _
  · split <;> simp

theorem foldl_prefix (stmts : List (Bool × Nat × List Char)) : ∀ (acc : List Char) (n : Nat),
    (stmts.foldl runStmt (acc, n)).1 = acc ++ (stmts.foldl runStmt ([], n)).1 := by
  induction stmts with
  | nil => intro acc n; simp
  | cons s ss ih =>
    intro acc n
    simp only [List.foldl_cons]
    rw [runStmt_prefix acc n s, ih, ih (runStmt ([], n) s).1]
    simp

theorem repChars_thousands (n : Nat) : repChars romanThousand n = thousands n := by
  induction n with
  | zero => rfl
  | succ n ih => rw [repChars, ih]; simp [thousands, romanThousand]

/-- the finite table: the twelve translated statements turn every number below 1000 into its three roman digits -/
theorem low_table : ∀ m, m < 1000 → (romanStmts.foldl runStmt ([], m)).1 = romanLow m := by
  decide +kernel

theorem romanChars_nat (n : Nat) :
    PlasVerif.Model.Counters.romanChars (n : Int) = PlasVerif.Spec.NumberingRules.romanChars n := by
  have h1 : ((n : Int) / (romanDiv : Int)).toNat = n / 1000 := by simp [romanDiv]; omega
  have h2 : ((n : Int) % (romanDiv : Int)).toNat = n % 1000 := by simp [romanDiv]; omega
  simp only [PlasVerif.Model.Counters.romanChars, PlasVerif.Spec.NumberingRules.romanChars, h1, h2]
  rw [foldl_prefix, repChars_thousands, low_table _ (Nat.mod_lt _ (by decide))]

end PlasVerif.Proofs.Roman
