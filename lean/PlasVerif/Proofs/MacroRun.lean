import PlasVerif.Proofs.Macro
/-! Lemmas for the program-level theorem of C02 (`run_eq_texRun_fragment`): fuel monotonicity of the model's
    expansion loop, parsing round trips of definitions, environment correspondence. -/
namespace PlasVerif.Proofs.MacroRun
open PlasVerif.Model.Macro PlasVerif.Spec.TeXMacro PlasVerif.Proofs.Macro

/-! ### more fuel never changes a result -/

theorem fuel_mono (fx : Bool) : ∀ f,
   (∀ st x, next fx f st = .ok x → next fx (f+1) st = .ok x) ∧
   (∀ n r e x, invoke fx f n r e = .ok x → invoke fx (f+1) n r e = .ok x) ∧
   (∀ r e x, expAfter fx f r e = .ok x → expAfter fx (f+1) r e = .ok x) ∧
   (∀ a st x, csnameGo fx f a st = .ok x → csnameGo fx (f+1) a st = .ok x) ∧
   (∀ n r e x, expandOnce fx f n r e = .ok x → expandOnce fx (f+1) n r e = .ok x) := by
  intro f
  induction f with
  | zero =>
    refine ⟨?_, ?_, ?_, ?_, ?_⟩ <;> intros <;> simp_all [next, invoke, expAfter, csnameGo, expandOnce]
  | succ f ih =>
    obtain ⟨ihn, ihi, ihe, ihc, iho⟩ := ih
    refine ⟨?_, ?_, ?_, ?_, ?_⟩
    · intro st x h
      obtain ⟨inp, env⟩ := st
      cases hb : tooBig inp <;> cases inp with
      | nil => simp_all [next]
      | cons t rest =>
        cases hm : macroNameOf t <;> simp_all [next]
    · intro n r e x h
      unfold invoke at h ⊢
      simp only at h ⊢
      cases hg : (getItem n e).1 with
      | defn args body =>
        simp only [hg] at h ⊢
        cases hd : invokeDef args (body.getD []) r with
        | error er => simp [hd] at h
        | ok v => simp only [hd] at h ⊢; exact ihn _ _ h
      | newcmd k o b =>
        simp only [hg] at h ⊢
        cases hd : invokeNewcommand k o (b.getD []) r with
        | error er => simp [hd] at h
        | ok v => simp only [hd] at h ⊢; exact ihn _ _ h
      | unrec nm => simp only [hg] at h ⊢; exact h
      | prim p nm =>
        cases p <;> simp only [hg] at h ⊢
        case csname =>
          cases hc : csnameGo fx f [] ⟨r, (getItem n e).2⟩ with
          | error er => simp [hc] at h
          | ok v => rw [ihc _ _ _ hc]; simp only [hc] at h ⊢; exact ihn _ _ h
        case expandafter =>
          cases hc : expAfter fx f r (getItem n e).2 with
          | error er => simp [hc] at h
          | ok v => rw [ihe _ _ _ hc]; simp only [hc] at h ⊢; exact ihn _ _ h
        all_goals exact h
    · intro r e x h
      unfold expAfter at h ⊢
      match r, h with
      | [], h => exact h
      | [_], h => exact h
      | t1 :: .cs n2 :: rest', h =>
        simp only at h ⊢
        cases hc : expandOnce fx f n2 rest' e with
        | error er => simp [hc] at h
        | ok v => rw [iho _ _ _ _ hc]; simp only [hc] at h ⊢; exact h
      | t1 :: .ch _ _ :: rest', h => exact h
      | t1 :: .el _ :: rest', h => exact h
    · intro a st x h
      unfold csnameGo at h ⊢
      cases hc : next fx f st with
      | error er => simp [hc] at h
      | ok v =>
        rw [ihn _ _ hc]; simp only [hc] at h ⊢
        match v, h with
        | none, h => exact h
        | some (.el n, st'), h => exact h
        | some (.ch c d, st'), h => exact ihc _ _ _ h
        | some (.cs c, st'), h => exact ihc _ _ _ h
    · intro n r e x h
      unfold expandOnce at h ⊢
      simp only at h ⊢
      cases hg : (getItem n e).1 with
      | defn args body => simp only [hg] at h ⊢; exact h
      | newcmd k o b => simp only [hg] at h ⊢; exact h
      | unrec nm =>
        simp only [hg] at h ⊢
        cases fx
        · simp only [Bool.false_eq_true, if_false] at h ⊢
          cases hc : invoke false f n r (getItem n e).2 with
          | error er => simp [hc] at h
          | ok v => rw [ihi _ _ _ _ hc]; simp only [hc] at h ⊢; exact h
        · exact h
      | prim p nm =>
        cases p <;> simp only [hg] at h ⊢
        case csname =>
          cases hc : csnameGo fx f [] ⟨r, (getItem n e).2⟩ with
          | error er => simp [hc] at h
          | ok v => rw [ihc _ _ _ hc]; simp only [hc] at h ⊢; exact h
        case expandafter => exact ihe _ _ _ h
        all_goals
          cases fx
          · simp only [Bool.false_eq_true, if_false] at h ⊢
            cases hc : invoke false f n r (getItem n e).2 with
            | error er => simp [hc] at h
            | ok v => rw [ihi _ _ _ _ hc]; simp only [hc] at h ⊢; exact h
          · exact h

theorem next_mono (fx : Bool) (f k : Nat) (st : St) (x : Option (Tok × St)) (h : next fx f st = .ok x) :
    next fx (f + k) st = .ok x := by
  induction k with
  | zero => exact h
  | succ k ih => exact (fuel_mono fx (f + k)).1 st x ih

theorem run_mono1 (fx : Bool) : ∀ (f : Nat) (st : St) (v : List Nat), run fx f st = .ok v → run fx (f + 1) st = .ok v := by
  intro f
  induction f with
  | zero => intro st v h; simp [run] at h
  | succ f ih =>
    intro st v h
    unfold run at h ⊢
    cases hn : next fx f st with
    | error e => simp [hn] at h
    | ok x =>
      rw [(fuel_mono fx f).1 st x hn]
      simp only [hn] at h ⊢
      match x, h with
      | none, h => exact h
      | some (t, st'), h =>
        simp only at h ⊢
        cases hr : run fx f st' with
        | error e => simp [hr, Except.map] at h
        | ok w => rw [ih st' w hr]; simpa [hr] using h

theorem run_mono (fx : Bool) (f k : Nat) (st : St) (v : List Nat) (h : run fx f st = .ok v) :
    run fx (f + k) st = .ok v := by
  induction k with
  | zero => exact h
  | succ k ih => exact run_mono1 fx (f + k) st v ih

/-! ### definitions are stored as TeX reads them -/

theorem parsePT_spec (k : Nat) (ts : List Tok) : ∀ (pre : List Tok) (ds : List (List Tok)),
   parsePT k ts = some (pre, ds) →
   pre ++ renderParams k ds = ts ∧ (∀ t ∈ pre, t.isParam = false) ∧ (∀ d ∈ ds, ∀ t ∈ d, t.isParam = false)
   ∧ (ds ≠ [] → k + ds.length ≤ 10) ∧ hasNested ts = false ∧ (∀ t ∈ ts, t.isEl = false) := by
  fun_induction parsePT k ts with
  | case1 => intro pre ds h; simp at h; obtain ⟨rfl, rfl⟩ := h; simp [renderParams, hasNested]
  | case2 k t hp => intro pre ds h; simp at h
  | case3 k t hp =>
    intro pre ds h; simp at h; obtain ⟨rfl, rfl⟩ := h
    simp only [Bool.or_eq_true, not_or, Bool.not_eq_true] at hp
    simp [renderParams, hasNested, hp.1, hp.2]
  | case4 k t u us hp hc ih =>
    intro pre ds h
    obtain ⟨rfl, rfl, h1, h9⟩ := hc
    simp only [Option.map_eq_some_iff] at h
    obtain ⟨⟨a, b⟩, hab, heq⟩ := h
    simp at heq; obtain ⟨rfl, rfl⟩ := heq
    obtain ⟨e1, e2, e3, e4, e5, e6⟩ := ih a b hab
    refine ⟨?_, ?_, ?_, ?_, ?_, ?_⟩
    · simp [renderParams, e1]
    · simp
    · intro d hd; simp at hd; rcases hd with rfl | hd
      · exact e2
      · exact e3 d hd
    · intro _; simp
      by_cases hb : b = []
      · subst hb; simp; omega
      · have := e4 hb; omega
    · have hd : (digitTok k).isParam = false := rfl
      simp [hasNested, hp, hd, e5]
    · intro x hx; simp at hx
      rcases hx with rfl | rfl | hx
      · rfl
      · rfl
      · exact e6 x hx
  | case5 k t u us hp hc => intro pre ds h; simp at h
  | case6 k t u us hp he => intro pre ds h; simp at h
  | case7 k t u us hp he ih =>
    intro pre ds h
    simp only [Option.map_eq_some_iff] at h
    obtain ⟨⟨a, b⟩, hab, heq⟩ := h
    simp at heq; obtain ⟨rfl, rfl⟩ := heq
    obtain ⟨e1, e2, e3, e4, e5, e6⟩ := ih a b hab
    have hpf : t.isParam = false := by simpa using hp
    have hef : t.isEl = false := by simpa using he
    refine ⟨by simp [e1], ?_, e3, e4, ?_, ?_⟩
    · intro x hx; simp at hx; rcases hx with rfl | hx
      · exact hpf
      · exact e2 x hx
    · simp [hasNested, hpf, e5]
    · intro x hx; simp at hx; rcases hx with rfl | hx
      · exact hef
      · exact e6 x (by simpa using hx)

theorem hasNestedE_of_noEl : ∀ (ts : List Tok), (∀ t ∈ ts, t.isEl = false) → hasNestedE ts = .ok (hasNested ts) := by
  intro ts
  induction ts using hasNested.induct with
  | case1 => intro _; rfl
  | case2 t => intro h; simp [hasNestedE, hasNested, h t]
  | case3 t u us hp hu =>
    intro h
    have h1 := h t (by simp); have h2 := h u (by simp)
    simp [hasNestedE, hasNested, h1, h2, hp, hu]
  | case4 t u us hp hu ih =>
    intro h
    have h1 := h t (by simp); have h2 := h u (by simp)
    have := ih (fun x hx => h x (by simp [hx]))
    simp [hasNestedE, hasNested, h1, h2, hp, hu, this]
  | case5 t u us hp ih =>
    intro h
    have h1 := h t (by simp)
    have := ih (fun x hx => h x (by simp at hx ⊢; rcases hx with rfl | hx <;> simp [*]))
    simp [hasNestedE, hasNested, h1, hp, this]

theorem digitOf_spec (u : Tok) (k : Nat) (h : digitOf u = some k) : u = digitTok k ∧ 1 ≤ k ∧ k ≤ 9 := by
  unfold digitOf at h
  split at h
  · rename_i c
    split at h
    · simp at h; subst h; rename_i hc; refine ⟨?_, by omega, by omega⟩
      simp [digitTok]; omega
    · cases h
  · cases h

def BasicWF (n : Nat) : BItem → Prop
  | .tok t => t.isParam = false
  | .par k => 1 ≤ k ∧ k ≤ n ∧ k < 10
  | .hash c => c = 35

theorem parseBody_spec (n : Nat) (ts : List Tok) : ∀ (items : List BItem),
    parseBody n ts = some items → renderBody items = ts ∧ ∀ it ∈ items, BasicWF n it := by
  fun_induction parseBody n ts with
  | case1 => intro items h; simp at h; subst h; simp [renderBody]
  | case2 t hp => intro items h; simp at h
  | case3 t hp =>
    intro items h; simp at h; subst h
    simp [renderBody, renderItem, BasicWF]; simpa using hp
  | case4 us hp ih =>
    intro items h
    simp only [Option.map_eq_some_iff] at h
    obtain ⟨a, ha, rfl⟩ := h
    obtain ⟨e1, e2⟩ := ih a ha
    refine ⟨by simp [renderBody, renderItem, hashTok] at e1 ⊢; exact e1, ?_⟩
    intro it hit; simp at hit; rcases hit with rfl | hit
    · simp [BasicWF]
    · exact e2 it hit
  | case5 u us hu k hk hkn hp ih =>
    intro items h
    simp only [Option.map_eq_some_iff] at h
    obtain ⟨a, ha, rfl⟩ := h
    obtain ⟨e1, e2⟩ := ih a ha
    obtain ⟨rfl, h1, h9⟩ := digitOf_spec u k hk
    refine ⟨by simp [renderBody, renderItem] at e1 ⊢; exact e1, ?_⟩
    intro it hit; simp at hit; rcases hit with rfl | hit
    · simp [BasicWF]; omega
    · exact e2 it hit
  | case6 => intro items h; simp at h
  | case7 => intro items h; simp at h
  | case8 => intro items h; simp at h
  | case9 t u us hp ih =>
    intro items h
    simp only [Option.map_eq_some_iff] at h
    obtain ⟨a, ha, rfl⟩ := h
    obtain ⟨e1, e2⟩ := ih a ha
    refine ⟨by simp [renderBody, renderItem] at e1 ⊢; exact e1, ?_⟩
    intro it hit; simp at hit; rcases hit with rfl | hit
    · simpa [BasicWF] using hp
    · exact e2 it hit

theorem untilBg_eq_spanNoBg (s : List Tok) : untilBg s = spanNoBg s := by
  induction s with
  | nil => rfl
  | cons t ts ih => simp [untilBg, spanNoBg, ih]

theorem spanNoBg_snd (s : List Tok) : ∀ b r, (spanNoBg s).2 = b :: r → b.isBg = true := by
  induction s with
  | nil => intro b r h; simp [spanNoBg] at h
  | cons t ts ih =>
    intro b r h
    by_cases ht : t.isBg = true
    · simp [spanNoBg, ht] at h; rw [← h.1]; exact ht
    · simp [spanNoBg, ht] at h; exact ih b r h

theorem readTok_of_texRToken (s : List Tok) (n : Name) (r : List Tok) (h : texRToken s = some (n, r)) :
    readTok s = (some (.cs n), r) := by
  unfold texRToken at h
  unfold readTok
  rw [dropSpaces_eq_skipBlanks]
  cases hs : skipBlanks s with
  | nil => simp [hs] at h
  | cons t ts =>
    rw [hs] at h
    cases t with
    | cs m => simp at h; obtain ⟨rfl, rfl⟩ := h; rfl
    | ch a b => simp at h
    | el m => simp at h

theorem dropSpaces_noop (r : List Tok) (h : startsWithBlank r = false) :
    dropSpaces r = r := by
  cases r with
  | nil => rfl
  | cons t ts => simp [startsWithBlank] at h; simp [dropSpaces, h]

theorem bg_not_space (t : Tok) (h : t.isBg = true) : t.isSpace = false := by
  cases t with
  | ch cat c =>
    match cat, h with
    | 1, _ => rfl
    | 0, h => simp [Tok.isBg] at h
    | n + 2, h => simp [Tok.isBg] at h
  | cs n => rfl
  | el n => rfl

theorem spanNoBg_head_space (r : List Tok) :
    startsWithBlank (spanNoBg r).1 = false → (spanNoBg r).2 ≠ [] →
    startsWithBlank r = false := by
  cases r with
  | nil => intro _ _; rfl
  | cons t ts =>
    intro h _
    by_cases ht : t.isBg = true
    · simp [startsWithBlank, bg_not_space t ht]
    · simpa [spanNoBg, ht, startsWithBlank] using h

theorem readDefParts_of_texReadDef (s : List Tok) (nm : Name) (m : TMeaning) (rest : List Tok)
    (h : texReadDef s = .ok (nm, m, rest)) :
    ∃ pt items, m = .macro pt items ∧
      readDefParts s = .ok ⟨nm, renderPText pt, some (renderBody items), rest⟩ ∧
      pt.params.length ≤ 9 ∧ (∀ t ∈ pt.pre, t.isParam = false) ∧ (∀ d ∈ pt.params, ∀ t ∈ d, t.isParam = false) ∧
      (∀ it ∈ items, BasicWF pt.params.length it) := by
  unfold texReadDef at h
  cases hr : texRToken s with
  | none => simp [hr] at h
  | some nr =>
    obtain ⟨n, r⟩ := nr
    simp only [hr] at h
    cases hsp : (spanNoBg r).2 with
    | nil => simp [hsp] at h
    | cons b afterBg =>
      simp only [hsp] at h
      cases hblank : startsWithBlank (spanNoBg r).1 with
      | true => simp [hblank] at h
      | false =>
        simp only [hblank, Bool.false_eq_true, if_false] at h
        cases hpt : parsePText (spanNoBg r).1 with
        | none => simp [hpt] at h
        | some pt =>
          cases hg : texGroup 0 afterBg with
          | none => simp [hpt, hg] at h
          | some br =>
            obtain ⟨btoks, rest'⟩ := br
            simp only [hpt, hg] at h
            cases hb : parseBody pt.params.length btoks with
            | none => simp [hb] at h
            | some items =>
              simp only [hb, Except.ok.injEq, Prod.mk.injEq] at h
              obtain ⟨rfl, rfl, rfl⟩ := h
              -- parameter text
              unfold parsePText at hpt
              simp only [Option.map_eq_some_iff] at hpt
              obtain ⟨⟨pre, ds⟩, hpd, rfl⟩ := hpt
              obtain ⟨e1, e2, e3, e4, e5, e6⟩ := parsePT_spec 1 _ pre ds hpd
              obtain ⟨b1, b2⟩ := parseBody_spec _ _ items hb
              have hbg := spanNoBg_snd r b afterBg hsp
              have hdrop : dropSpaces r = r := dropSpaces_noop r
                (spanNoBg_head_space r hblank (by simp [hsp]))
              have hra : readArgument (b :: afterBg) = (some btoks, rest') := by
                simp [readArgument, dropSpaces, bg_not_space b hbg, readToken, hbg,
                  readGroup_of_texGroup afterBg 0 btoks rest' hg]
              refine ⟨⟨pre, ds⟩, items, rfl, ?_, ?_, e2, e3, b2⟩
              · unfold readDefParts
                simp only [readTok_of_texRToken s n r hr, hdrop, untilBg_eq_spanNoBg, hsp, hra, hasNestedE_of_noEl _ e6, e5,
                  renderPText, e1, b1]
                simp
              · by_cases hd : ds = []
                · simp [hd]
                · have := e4 hd; simp at this ⊢; omega

/-! ### the model's frames against TeX's tables -/

def bgroupN : Name := [98, 103, 114, 111, 117, 112]
def egroupN : Name := [101, 103, 114, 111, 117, 112]
def eqN : Name := [61]

def primRel : Prim → TPrim → Bool
  | .def_, .def_ => true
  | .gdef, .gdef => true
  | .let_, .let_ => true
  | .relax, .relax => true
  | .bgroup, .begingroup => true
  | .egroup, .endgroup => true
  | _, _ => false

/-- a model meaning and a TeX meaning that denote the same thing -/
def MRel : Option Meaning → Option TMeaning → Prop
  | none, none => True
  | some (.defn args (some body)), some (.macro pt items) =>
    args = renderPText pt ∧ body = renderBody items ∧ WFMacro pt items
  | some (.prim p _), some (.prim q) => primRel p q = true
  | _, _ => False

structure Good (env : Env) (t : Table) : Prop where
  rel : ∀ n, n ≠ bgroupN → n ≠ egroupN → MRel (lookup n env) (t.lookup n)
  bg : lookup bgroupN env = some (.prim .bgroup bgroupN)
  eg : lookup egroupN env = some (.prim .egroup egroupN)
  noeq : t.lookup eqN = none
  nobg : t.lookup bgroupN = none
  noeg : t.lookup egroupN = none

/-- the frame stack of the model against TeX's current table and the tables saved at each open group -/
def EnvRel : Env → List Table → Prop
  | [], [] => True
  | f :: fs, t :: ts => Good (f :: fs) t ∧ EnvRel fs ts
  | _, _ => False

def isHashItem : BItem → Bool | .hash _ => true | _ => false
def itemNoIfx : BItem → Bool | .tok t => !isIfx t | _ => true

/-- the fragment of `run_eq_texRun_fragment`: the definitions a run may make -/
def fragOk (n : Name) (m : TMeaning) : Bool :=
  n != bgroupN && n != egroupN && n != eqN &&
  match m with
  | .macro pt items => !(pt.pre.isEmpty && pt.params.isEmpty && items.any isHashItem) && items.all itemNoIfx
  | .prim _ => true
  | .latex .. => false

theorem lookup_nil_cons (n : Name) (e : Env) : lookup n ([] :: e) = lookup n e := by
  simp [lookup, List.lookup]

theorem envRel_push (env : Env) (t : Table) (ts : List Table) (h : EnvRel env (t :: ts)) :
    EnvRel (push env) (t :: t :: ts) := by
  cases env with
  | nil => simp [EnvRel] at h
  | cons f fs =>
    obtain ⟨g, r⟩ := h
    refine ⟨⟨?_, ?_, ?_, g.noeq, g.nobg, g.noeg⟩, g, r⟩
    · intro n h1 h2; show MRel (lookup n ([] :: f :: fs)) _; rw [lookup_nil_cons]; exact g.rel n h1 h2
    · show lookup bgroupN ([] :: f :: fs) = _; rw [lookup_nil_cons]; exact g.bg
    · show lookup egroupN ([] :: f :: fs) = _; rw [lookup_nil_cons]; exact g.eg

theorem envRel_pop (env : Env) (t t' : Table) (ts : List Table) (h : EnvRel env (t :: t' :: ts)) :
    EnvRel (pop env) (t' :: ts) := by
  match env, h with
  | f :: g :: gs, h => exact h.2
  | [f], h => simp [EnvRel] at h

theorem mrel_of_eq {a a' : Option Meaning} {b b' : Option TMeaning} (h : MRel a b) (ha : a' = a) (hb : b' = b) :
    MRel a' b' := by subst ha; subst hb; exact h

theorem lookup_cons_ne (k n : Name) (m : TMeaning) (t : Table) (h : n ≠ k) :
    List.lookup k ((n, m) :: t) = List.lookup k t := by
  have : (k == n) = false := by simp [Ne.symm h]
  simp [List.lookup, this]

theorem lookup_cons_same (n : Name) (m : TMeaning) (t : Table) : List.lookup n ((n, m) :: t) = some m := by
  simp [List.lookup]

theorem good_local (env : Env) (t : Table) (n : Name) (M : Meaning) (m : TMeaning) (g : Good env t)
    (h1 : n ≠ bgroupN) (h2 : n ≠ egroupN) (h3 : n ≠ eqN) (hm : MRel (some M) (some m)) :
    Good (setLocal n M env) ((n, m) :: t) := by
  refine ⟨?_, ?_, ?_, ?_, ?_, ?_⟩
  · intro k k1 k2
    by_cases hk : n = k
    · subst hk; rw [lookup_setLocal_same, lookup_cons_same]; exact hm
    · rw [lookup_setLocal_ne k n M env hk, lookup_cons_ne k n m t hk]; exact g.rel k k1 k2
  · rw [lookup_setLocal_ne _ n M env h1]; exact g.bg
  · rw [lookup_setLocal_ne _ n M env h2]; exact g.eg
  · rw [lookup_cons_ne _ n m t h3]; exact g.noeq
  · rw [lookup_cons_ne _ n m t h1]; exact g.nobg
  · rw [lookup_cons_ne _ n m t h2]; exact g.noeg

theorem envRel_local (env : Env) (t : Table) (ts : List Table) (n : Name) (M : Meaning) (m : TMeaning)
    (h : EnvRel env (t :: ts)) (h1 : n ≠ bgroupN) (h2 : n ≠ egroupN) (h3 : n ≠ eqN) (hm : MRel (some M) (some m)) :
    EnvRel (setLocal n M env) (((n, m) :: t) :: ts) := by
  cases env with
  | nil => simp [EnvRel] at h
  | cons f fs =>
    obtain ⟨g, r⟩ := h
    have := good_local (f :: fs) t n M m g h1 h2 h3 hm
    exact ⟨by simpa [setLocal] using this, r⟩

theorem filter_lookup_self (n : Name) (f : Frame) : (f.filter (fun p => p.1 ≠ n)).lookup n = none := by
  induction f with
  | nil => rfl
  | cons p ps ih =>
    obtain ⟨k, v⟩ := p
    by_cases hk : k = n
    · have : List.filter (fun p : Name × Meaning => decide (p.1 ≠ n)) ((k, v) :: ps) = List.filter (fun p => decide (p.1 ≠ n)) ps := by
        simp [List.filter, hk]
      rw [this, ih]
    · have : List.filter (fun p : Name × Meaning => decide (p.1 ≠ n)) ((k, v) :: ps) = (k, v) :: List.filter (fun p => decide (p.1 ≠ n)) ps := by
        simp [List.filter, hk]
      have hb : (n == k) = false := by simp [Ne.symm hk]
      rw [this]; simp only [List.lookup, hb]; exact ih

theorem dropLocals_shape (n : Name) (g : Frame) (gs : List Frame) : ∃ x xs, dropLocals n (g :: gs) = x :: xs := by
  cases gs with
  | nil => exact ⟨g, [], rfl⟩
  | cons h hs => exact ⟨_, _, rfl⟩

theorem global_cons (n : Name) (M : Meaning) (f g : Frame) (gs : List Frame) :
    setGlobal n M (dropLocals n (f :: g :: gs))
      = f.filter (fun p => p.1 ≠ n) :: setGlobal n M (dropLocals n (g :: gs)) := by
  obtain ⟨x, xs, hx⟩ := dropLocals_shape n g gs
  show setGlobal n M (f.filter (fun p => p.1 ≠ n) :: dropLocals n (g :: gs)) = _
  rw [hx]; rfl

theorem lookup_global_same (n : Name) (M : Meaning) : ∀ (f : Frame) (fs : List Frame),
    lookup n (setGlobal n M (dropLocals n (f :: fs))) = some M := by
  intro f fs
  induction fs generalizing f with
  | nil => simp [dropLocals, setGlobal, lookup, List.lookup]
  | cons g gs ih =>
    rw [global_cons]
    show (match (f.filter (fun p => p.1 ≠ n)).lookup n with | some m => some m | none => lookup n _) = _
    rw [filter_lookup_self]; exact ih g

theorem good_global (f : Frame) (fs : List Frame) (t : Table) (n : Name) (M : Meaning) (m : TMeaning)
    (g : Good (f :: fs) t)
    (h1 : n ≠ bgroupN) (h2 : n ≠ egroupN) (h3 : n ≠ eqN) (hm : MRel (some M) (some m)) :
    Good (setGlobal n M (dropLocals n (f :: fs))) ((n, m) :: t) := by
  refine ⟨?_, ?_, ?_, ?_, ?_, ?_⟩
  · intro k k1 k2
    by_cases hk : n = k
    · subst hk; rw [lookup_global_same, lookup_cons_same]; exact hm
    · rw [lookup_setGlobal_ne k n M hk, lookup_dropLocals_ne k n hk, lookup_cons_ne k n m t hk]; exact g.rel k k1 k2
  · rw [lookup_setGlobal_ne _ n M h1, lookup_dropLocals_ne _ n h1]; exact g.bg
  · rw [lookup_setGlobal_ne _ n M h2, lookup_dropLocals_ne _ n h2]; exact g.eg
  · rw [lookup_cons_ne _ n m t h3]; exact g.noeq
  · rw [lookup_cons_ne _ n m t h1]; exact g.nobg
  · rw [lookup_cons_ne _ n m t h2]; exact g.noeg

theorem envRel_global (n : Name) (M : Meaning) (m : TMeaning)
    (h1 : n ≠ bgroupN) (h2 : n ≠ egroupN) (h3 : n ≠ eqN) (hm : MRel (some M) (some m)) :
    ∀ (fs : List Frame) (f : Frame) (tables : List Table), EnvRel (f :: fs) tables →
    EnvRel (setGlobal n M (dropLocals n (f :: fs))) (tables.map ((n, m) :: ·)) := by
  intro fs
  induction fs with
  | nil =>
    intro f tables h
    match tables, h with
    | [t], h =>
      have := good_global f [] t n M m h.1 h1 h2 h3 hm
      exact ⟨this, trivial⟩
    | t :: t' :: ts, h => simp [EnvRel] at h
  | cons g gs ih =>
    intro f tables h
    match tables, h with
    | t :: ts, h =>
      have hg := good_global f (g :: gs) t n M m h.1 h1 h2 h3 hm
      have hr := ih g ts h.2
      rw [global_cons] at hg ⊢
      exact ⟨hg, hr⟩

/-! ### steps of the model's loop -/

theorem map_nil_append (x : Except Err (List Nat)) : x.map (([] : List Nat) ++ ·) = x := by
  cases x <;> simp [Except.map]

/-- a token that is not expandable is yielded -/
theorem run_step_yield (fx : Bool) (F : Nat) (t : Tok) (rest : List Tok) (env : Env)
    (hm : macroNameOf t = none) (hb : tooBig (t :: rest) = false) :
    run fx (F + 2) ⟨t :: rest, env⟩ = (run fx (F + 1) ⟨rest, env⟩).map (visibleOf t ++ ·) := by
  conv => lhs; unfold run
  simp only [next, hb, hm]; rfl

/-- a macro instance is yielded by `invoke` (primitives that return `None`) -/
theorem run_step_el (fx : Bool) (F : Nat) (t : Tok) (name nm : Name) (rest : List Tok) (env : Env) (st' : St)
    (hm : macroNameOf t = some name) (hb : tooBig (t :: rest) = false)
    (hi : invoke fx (F + 1) name rest env = .ok (some (.el nm, st'))) :
    run fx (F + 3) ⟨t :: rest, env⟩ = run fx (F + 2) st' := by
  conv => lhs; unfold run
  simp only [next, hb, hm, hi, visibleOf]
  exact map_nil_append _

/-- a user macro call: the loop continues on the expansion pushed back in front of the rest -/
theorem next_step_call (fx : Bool) (G : Nat) (t : Tok) (name : Name) (rest out rest' : List Tok) (env : Env)
    (args : List Tok) (body : List Tok)
    (hm : macroNameOf t = some name) (hb : tooBig (t :: rest) = false)
    (hl : lookup name env = some (.defn args (some body)))
    (hc : invokeDef args body rest = .ok (out, rest')) :
    next fx (G + 2) ⟨t :: rest, env⟩ = next fx G ⟨out ++ rest', env⟩ := by
  conv => lhs; unfold next
  simp only [hb, hm]
  conv => lhs; unfold invoke
  simp [getItem, hl, hc]

theorem run_of_next_eq (fx : Bool) (stA stB : St) (h : ∀ G, next fx (G + 2) stA = next fx G stB)
    (F : Nat) (v : List Nat) (hr : run fx F stB = .ok v) : run fx (F + 2) stA = .ok v := by
  cases F with
  | zero => simp [run] at hr
  | succ G =>
    unfold run at hr ⊢
    rw [h G]
    cases hn : next fx G stB with
    | error e => simp [hn] at hr
    | ok x =>
      simp only [hn] at hr ⊢
      match x, hr with
      | none, hr => exact hr
      | some (t, st'), hr =>
        simp only at hr ⊢
        cases hq : run fx G st' with
        | error e => simp [hq, Except.map] at hr
        | ok w => rw [run_mono fx G 2 st' w hq]; simpa [hq] using hr

/-! ### simulation -/

theorem dropSpaces_cs (n : Name) (r : List Tok) : dropSpaces (.cs n :: r) = .cs n :: r := by
  simp [dropSpaces, Tok.isSpace]

theorem let_parts (rest : List Tok) (nm src : Name) (rest' : List Tok)
    (h : texReadLet rest = some (nm, .cs src, rest')) (hs : src ≠ eqN) :
    ∃ r0, readTok rest = (some (.cs nm), r0) ∧ readTok (skipChar eqTok r0) = (some (.cs src), rest') := by
  unfold texReadLet at h
  cases hr : texRToken rest with
  | none => simp [hr] at h
  | some nr =>
    obtain ⟨n, r0⟩ := nr
    simp only [hr] at h
    refine ⟨r0, ?_, ?_⟩
    · have := readTok_of_texRToken rest n r0 hr
      cases hsb : skipBlanks r0 with
      | nil => simp [hsb, optEquals] at h
      | cons t ts =>
        split at h
        · simp at h; rw [← h.1]; exact this
        · cases h
    · have heq : eqTok (.cs src) = false := by
        simp [eqTok, Tok.text]; intro e; exact hs e
      unfold skipChar
      rw [dropSpaces_eq_skipBlanks]
      cases hsb : skipBlanks r0 with
      | nil => simp [hsb, optEquals] at h
      | cons t ts =>
        simp only [hsb, optEquals] at h
        by_cases h61 : t = .ch 12 61
        · subst h61
          have he : eqTok (.ch 12 61) = true := rfl
          simp only [he, if_true] at h ⊢
          cases ts with
          | nil => simp at h
          | cons u us =>
            simp only at h
            by_cases hu : u.isSpace = true
            · simp only [hu, if_true] at h
              cases us with
              | nil => simp at h
              | cons w ws =>
                simp at h; obtain ⟨_, rfl, rfl⟩ := h
                have hcs : (Tok.cs src).isSpace = false := rfl
                simp [readTok, dropSpaces, hu, hcs]
            · simp only [hu, Bool.false_eq_true, if_false] at h
              simp at h; obtain ⟨_, rfl, rfl⟩ := h
              simp [readTok, dropSpaces_cs]
        · simp only [h61, if_false] at h
          simp at h; obtain ⟨_, rfl, rfl⟩ := h
          simp [heq, readTok, dropSpaces_cs]

theorem macroNameOf_char' (cat c : Nat) (h1 : cat ≠ 1) (h2 : cat ≠ 2) : macroNameOf (.ch cat c) = none := by
  match cat, h1, h2 with
  | 0, _, _ => rfl
  | 1, h, _ => exact absurd rfl h
  | 2, _, h => exact absurd rfl h
  | n + 3, _, _ => rfl

theorem tooBig_false (s : List Tok) (h : ¬ s.length > 4000) : tooBig s = false := by
  simp [tooBig]; omega

theorem invoke_relax (fx : Bool) (F : Nat) (name nm : Name) (rest : List Tok) (env : Env)
    (h : lookup name env = some (.prim .relax nm)) :
    invoke fx (F + 1) name rest env = .ok (some (.el nm, ⟨rest, env⟩)) := by
  simp [invoke, getItem, h]
theorem invoke_bgroup (fx : Bool) (F : Nat) (name nm : Name) (rest : List Tok) (env : Env)
    (h : lookup name env = some (.prim .bgroup nm)) :
    invoke fx (F + 1) name rest env = .ok (some (.el nm, ⟨rest, push env⟩)) := by
  simp [invoke, getItem, h]
theorem invoke_egroup (fx : Bool) (F : Nat) (name nm : Name) (rest : List Tok) (env : Env)
    (h : lookup name env = some (.prim .egroup nm)) :
    invoke fx (F + 1) name rest env = .ok (some (.el nm, ⟨rest, pop env⟩)) := by
  simp [invoke, getItem, h]
theorem invoke_def (fx : Bool) (F : Nat) (name nm : Name) (rest : List Tok) (env : Env) (d : DefParts)
    (h : lookup name env = some (.prim .def_ nm)) (hd : readDefParts rest = .ok d) :
    invoke fx (F + 1) name rest env = .ok (some (.el nm, ⟨d.rest, newdef d.name d.args d.body true env⟩)) := by
  simp [invoke, getItem, h, hd]
theorem invoke_gdef (fx : Bool) (F : Nat) (name nm : Name) (rest : List Tok) (env : Env) (d : DefParts)
    (h : lookup name env = some (.prim .gdef nm)) (hd : readDefParts rest = .ok d) :
    invoke fx (F + 1) name rest env = .ok (some (.el nm, ⟨d.rest, newdef d.name d.args d.body false env⟩)) := by
  simp [invoke, getItem, h, hd]
theorem invoke_let (fx : Bool) (F : Nat) (name nm d s : Name) (rest r0 rest' : List Tok) (env : Env)
    (h : lookup name env = some (.prim .let_ nm)) (h1 : readTok rest = (some (.cs d), r0))
    (h2 : readTok (skipChar eqTok r0) = (some (.cs s), rest')) :
    invoke fx (F + 1) name rest env = .ok (some (.el nm, ⟨rest', letCs d s env⟩)) := by
  simp [invoke, getItem, h, h1, h2]

theorem fragOk_names (n : Name) (m : TMeaning) (h : fragOk n m = true) : n ≠ bgroupN ∧ n ≠ egroupN ∧ n ≠ eqN := by
  simp only [fragOk, Bool.and_eq_true, bne_iff_ne, ne_eq] at h
  exact ⟨h.1.1.1, h.1.1.2, h.1.2⟩

theorem wf_of_frag (nm : Name) (pt : PText) (items : List BItem)
    (h9 : pt.params.length ≤ 9) (hpre : ∀ t ∈ pt.pre, t.isParam = false)
    (hdel : ∀ d ∈ pt.params, ∀ t ∈ d, t.isParam = false)
    (hb : ∀ it ∈ items, BasicWF pt.params.length it) (hf : fragOk nm (.macro pt items) = true) :
    WFMacro pt items := by
  simp only [fragOk, Bool.and_eq_true] at hf
  obtain ⟨_, hh, hi⟩ := hf
  refine ⟨h9, hpre, hdel, ?_, ?_⟩
  · intro it hit
    have hbi := hb it hit
    cases it with
    | tok t =>
      have := (List.all_eq_true.mp hi) _ hit
      simp only [itemNoIfx, Bool.not_eq_true'] at this
      exact ⟨hbi, this⟩
    | par k => exact hbi
    | hash c => trivial
  · intro hp hq it hit c hc
    subst hc
    have : items.any isHashItem = true := List.any_eq_true.mpr ⟨_, hit, rfl⟩
    simp [hp, hq, this] at hh


theorem mrel_macro {a : Option Meaning} {pt : PText} {items : List BItem} (h : MRel a (some (.macro pt items))) :
    a = some (.defn (renderPText pt) (some (renderBody items))) ∧ WFMacro pt items := by
  match a, h with
  | some (.defn args (some body)), h => obtain ⟨rfl, rfl, wf⟩ := h; exact ⟨rfl, wf⟩

theorem mrel_prim {a : Option Meaning} {q : TPrim} (h : MRel a (some (.prim q))) :
    ∃ p nm, a = some (.prim p nm) ∧ primRel p q = true := by
  match a, h with
  | some (.prim p nm), h => exact ⟨p, nm, rfl, h⟩

theorem mrel_latex {a : Option Meaning} {k : Nat} {o : Option (List Tok)} {b : List BItem}
    (h : MRel a (some (.latex k o b))) : False := by
  match a, h with
  | some (.defn _ (some _)), h => exact h
  | some (.defn _ none), h => exact h
  | some (.newcmd ..), h => exact h
  | some (.prim ..), h => exact h
  | some (.unrec _), h => exact h
  | none, h => exact h

theorem mrel_some {a : Option Meaning} {m : TMeaning} (h : MRel a (some m)) : ∃ M, a = some M := by
  cases a with
  | none => cases m <;> exact absurd h (by simp [MRel])
  | some M => exact ⟨M, rfl⟩

theorem good_defined {env : Env} {t : Table} (g : Good env t) (n : Name) (m : TMeaning) (h : t.lookup n = some m) :
    n ≠ bgroupN ∧ n ≠ egroupN ∧ n ≠ eqN := by
  refine ⟨?_, ?_, ?_⟩ <;> intro e <;> subst e
  · rw [g.nobg] at h; cases h
  · rw [g.noeg] at h; cases h
  · rw [g.noeq] at h; cases h

theorem letCs_of_lookup (d s : Name) (M : Meaning) (e : Env) (h : lookup s e = some M) : letCs d s e = setLocal d M e := by
  simp [letCs, getItem, h]

theorem good_head {f : Frame} {fs : List Frame} {t : Table} {ts : List Table} (h : EnvRel (f :: fs) (t :: ts)) :
    Good (f :: fs) t := h.1

/-- **simulation**: every successful run of the TeX evaluator on the fragment is reproduced by the model -/
theorem sim (fx : Bool) : ∀ (fuel : Nat) (st : TSt) (v : List Nat), texRun fragOk fuel st = .ok v →
    ∀ env, EnvRel env (st.cur :: st.saved) → ∃ F, run fx F ⟨st.input, env⟩ = .ok v := by
  intro fuel
  induction fuel with
  | zero => intro st v h; simp [texRun] at h
  | succ fuel ih =>
    intro st v h env hrel
    obtain ⟨input, cur, saved⟩ := st
    unfold texRun at h
    simp only at h hrel ⊢
    by_cases hbig : input.length > 4000
    · simp [hbig] at h
    simp only [hbig, if_false] at h
    have hnb := tooBig_false input hbig
    cases env with
    | nil => simp [EnvRel] at hrel
    | cons f fs =>
    have hgood : Good (f :: fs) cur := hrel.1
    cases input with
    | nil =>
      simp at h; subst h
      exact ⟨2, by simp [run, next, tooBig]⟩
    | cons t rest =>
      cases t with
      | el n => simp at h
      | ch cat c =>
        simp only at h
        by_cases h1112 : cat = 11 ∨ cat = 12
        · simp only [h1112, if_true] at h
          cases hr : texRun fragOk fuel ⟨rest, cur, saved⟩ with
          | error e => simp [hr, Except.map] at h
          | ok v' =>
            simp [hr, Except.map] at h; subst h
            obtain ⟨F, hF⟩ := ih ⟨rest, cur, saved⟩ v' hr (f :: fs) hrel
            refine ⟨F + 2, ?_⟩
            rw [run_step_yield fx F _ rest _ (macroNameOf_char' cat c (by omega) (by omega)) hnb,
              run_mono fx F 1 _ _ hF]
            rcases h1112 with rfl | rfl <;> rfl
        · simp only [h1112, if_false] at h
          by_cases h10 : cat = 10
          · simp only [h10, if_true] at h
            obtain ⟨F, hF⟩ := ih ⟨rest, cur, saved⟩ v h (f :: fs) hrel
            refine ⟨F + 2, ?_⟩
            subst h10
            rw [run_step_yield fx F _ rest _ rfl hnb, run_mono fx F 1 _ _ hF]; rfl
          · simp only [h10, if_false] at h
            by_cases hc1 : cat = 1
            · simp only [hc1, if_true] at h
              subst hc1
              obtain ⟨F, hF⟩ := ih ⟨rest, cur, cur :: saved⟩ v h (push (f :: fs)) (envRel_push _ _ _ hrel)
              refine ⟨F + 3, ?_⟩
              rw [run_step_el fx F (.ch 1 c) bgroupN bgroupN rest (f :: fs) ⟨rest, push (f :: fs)⟩ rfl hnb
                (invoke_bgroup fx F _ _ rest _ hgood.bg)]
              exact run_mono fx F 2 _ _ hF
            · simp only [hc1, if_false] at h
              by_cases hc2 : cat = 2
              · simp only [hc2, if_true] at h
                subst hc2
                cases saved with
                | nil => simp at h
                | cons tb sv =>
                  simp only at h
                  obtain ⟨F, hF⟩ := ih ⟨rest, tb, sv⟩ v h (pop (f :: fs)) (envRel_pop _ _ _ _ hrel)
                  refine ⟨F + 3, ?_⟩
                  rw [run_step_el fx F (.ch 2 c) egroupN egroupN rest (f :: fs) ⟨rest, pop (f :: fs)⟩ rfl hnb
                    (invoke_egroup fx F _ _ rest _ hgood.eg)]
                  exact run_mono fx F 2 _ _ hF
              · simp [hc2] at h
      | cs n =>
        simp only at h
        have hmn : macroNameOf (.cs n) = some n := rfl
        cases hl : List.lookup n cur with
        | none => simp [hl] at h
        | some m =>
          obtain ⟨hn1, hn2, hn3⟩ := good_defined hgood n m hl
          have hrn := hgood.rel n hn1 hn2
          rw [hl] at hrn
          cases m with
          | latex k o b => exact (mrel_latex hrn).elim
          | «macro» pt items =>
            obtain ⟨hlm, wf⟩ := mrel_macro hrn
            simp only [hl] at h
            cases fuel with
            | zero => simp [texExpand] at h
            | succ fuel' =>
              unfold texExpand at h
              simp only [hl] at h
              cases hc : texCall pt items rest with
              | error e => simp [hc, Except.map] at h
              | ok r =>
                obtain ⟨out, rest'⟩ := r
                simp only [hc, Except.map] at h
                obtain ⟨F, hF⟩ := ih ⟨out ++ rest', cur, saved⟩ v h (f :: fs) hrel
                refine ⟨F + 2, ?_⟩
                exact run_of_next_eq fx _ _ (fun G => next_step_call fx G (.cs n) n rest out rest' (f :: fs) _ _ hmn hnb hlm
                  (invokeDef_of_texCall pt items rest out rest' wf hc)) F v hF
          | prim q =>
            obtain ⟨p, nmP, hlm, hpr⟩ := mrel_prim hrn
            simp only [hl] at h
            cases q <;> cases p <;> simp [primRel] at hpr
            case def_.def_ =>
              simp only at h
              cases hd : texReadDef rest with
              | error e => simp [hd] at h
              | ok r =>
                obtain ⟨nm, m, rest'⟩ := r
                simp only [hd] at h
                by_cases hpb : primBound cur nm = true
                · simp [hpb] at h
                simp only [hpb, Bool.false_eq_true, if_false] at h
                by_cases hok : fragOk nm m = true
                · simp only [hok, if_true] at h
                  obtain ⟨pt, items, rfl, hparts, h9, hpre, hdel, hb⟩ := readDefParts_of_texReadDef rest nm m rest' hd
                  obtain ⟨k1, k2, k3⟩ := fragOk_names _ _ hok
                  have hm : MRel (some (.defn (renderPText pt) (some (renderBody items)))) (some (.macro pt items)) :=
                    ⟨rfl, rfl, wf_of_frag nm pt items h9 hpre hdel hb hok⟩
                  obtain ⟨F, hF⟩ := ih (assignLocal nm (.macro pt items) ⟨rest', cur, saved⟩) v h
                    (setLocal nm (.defn (renderPText pt) (some (renderBody items))) (f :: fs))
                    (envRel_local _ _ _ _ _ _ hrel k1 k2 k3 hm)
                  refine ⟨F + 3, ?_⟩
                  rw [run_step_el fx F (.cs n) n nmP rest (f :: fs) _ hmn hnb (invoke_def fx F n nmP rest _ _ hlm hparts)]
                  exact run_mono fx F 2 _ _ hF
                · simp [hok] at h
            case gdef.gdef =>
              simp only at h
              cases hd : texReadDef rest with
              | error e => simp [hd] at h
              | ok r =>
                obtain ⟨nm, m, rest'⟩ := r
                simp only [hd] at h
                by_cases hpb : primBound cur nm = true
                · simp [hpb] at h
                simp only [hpb, Bool.false_eq_true, if_false] at h
                by_cases hok : fragOk nm m = true
                · simp only [hok, if_true] at h
                  obtain ⟨pt, items, rfl, hparts, h9, hpre, hdel, hb⟩ := readDefParts_of_texReadDef rest nm m rest' hd
                  obtain ⟨k1, k2, k3⟩ := fragOk_names _ _ hok
                  have hm : MRel (some (.defn (renderPText pt) (some (renderBody items)))) (some (.macro pt items)) :=
                    ⟨rfl, rfl, wf_of_frag nm pt items h9 hpre hdel hb hok⟩
                  obtain ⟨F, hF⟩ := ih (assignGlobal nm (.macro pt items) ⟨rest', cur, saved⟩) v h
                    (setGlobal nm (.defn (renderPText pt) (some (renderBody items))) (dropLocals nm (f :: fs)))
                    (envRel_global nm _ _ k1 k2 k3 hm fs f (cur :: saved) hrel)
                  refine ⟨F + 3, ?_⟩
                  rw [run_step_el fx F (.cs n) n nmP rest (f :: fs) _ hmn hnb (invoke_gdef fx F n nmP rest _ _ hlm hparts)]
                  exact run_mono fx F 2 _ _ hF
                · simp [hok] at h
            case let_.let_ =>
              simp only at h
              cases hd : texReadLet rest with
              | none => simp [hd] at h
              | some r =>
                obtain ⟨nm, tsrc, rest'⟩ := r
                cases tsrc with
                | ch a b => simp [hd] at h
                | el a => simp [hd] at h
                | cs src =>
                  simp only [hd] at h
                  cases hls : List.lookup src cur with
                  | none => simp [hls] at h
                  | some m' =>
                    simp only [hls] at h
                    by_cases hpb : primBound cur nm = true
                    · simp [hpb] at h
                    simp only [hpb, Bool.false_eq_true, if_false] at h
                    by_cases hok : fragOk nm m' = true
                    · simp only [hok, if_true] at h
                      obtain ⟨s1, s2, s3⟩ := good_defined hgood src m' hls
                      obtain ⟨k1, k2, k3⟩ := fragOk_names _ _ hok
                      have hrs := hgood.rel src s1 s2
                      rw [hls] at hrs
                      obtain ⟨M, hM⟩ := mrel_some hrs
                      rw [hM] at hrs
                      obtain ⟨r0, hp1, hp2⟩ := let_parts rest nm src rest' hd s3
                      obtain ⟨F, hF⟩ := ih (assignLocal nm m' ⟨rest', cur, saved⟩) v h
                        (setLocal nm M (f :: fs)) (envRel_local _ _ _ _ _ _ hrel k1 k2 k3 hrs)
                      refine ⟨F + 3, ?_⟩
                      rw [run_step_el fx F (.cs n) n nmP rest (f :: fs) _ hmn hnb
                        (invoke_let fx F n nmP nm src rest r0 rest' _ hlm hp1 hp2), letCs_of_lookup nm src M _ hM]
                      exact run_mono fx F 2 _ _ hF
                    · simp [hok] at h
            case relax.relax =>
              simp only at h
              obtain ⟨F, hF⟩ := ih ⟨rest, cur, saved⟩ v h (f :: fs) hrel
              refine ⟨F + 3, ?_⟩
              rw [run_step_el fx F (.cs n) n nmP rest (f :: fs) _ hmn hnb (invoke_relax fx F n nmP rest _ hlm)]
              exact run_mono fx F 2 _ _ hF
            case begingroup.bgroup =>
              simp only at h
              obtain ⟨F, hF⟩ := ih ⟨rest, cur, cur :: saved⟩ v h (push (f :: fs)) (envRel_push _ _ _ hrel)
              refine ⟨F + 3, ?_⟩
              rw [run_step_el fx F (.cs n) n nmP rest (f :: fs) _ hmn hnb (invoke_bgroup fx F n nmP rest _ hlm)]
              exact run_mono fx F 2 _ _ hF
            case endgroup.egroup =>
              simp only at h
              cases saved with
              | nil => simp at h
              | cons tb sv =>
                simp only at h
                obtain ⟨F, hF⟩ := ih ⟨rest, tb, sv⟩ v h (pop (f :: fs)) (envRel_pop _ _ _ _ hrel)
                refine ⟨F + 3, ?_⟩
                rw [run_step_el fx F (.cs n) n nmP rest (f :: fs) _ hmn hnb (invoke_egroup fx F n nmP rest _ hlm)]
                exact run_mono fx F 2 _ _ hF

/-! ### the initial tables of the fragment -/

def nm (s : String) : Name := s.toList.map Char.toNat

/-- (name, model primitive, TeX primitive) of the fragment {definitions, calls, groups, `\let`, `\relax`} -/
def fragPairs : List (Name × Prim × TPrim) :=
  [ (nm "def", .def_, .def_), (nm "gdef", .gdef, .gdef), (nm "let", .let_, .let_), (nm "relax", .relax, .relax),
    (nm "begingroup", .bgroup, .begingroup), (nm "endgroup", .egroup, .endgroup) ]

def envOf (l : List (Name × Prim × TPrim)) : Frame := l.map fun x => (x.1, Meaning.prim x.2.1 x.1)
def tblOf (l : List (Name × Prim × TPrim)) : Table := l.map fun x => (x.1, TMeaning.prim x.2.2)

/-- the `bgroup`/`egroup` classes behind the brace characters -/
def braceFrame : Frame := [(bgroupN, .prim .bgroup bgroupN), (egroupN, .prim .egroup egroupN)]

/-- TeX side: only the primitives of the fragment are known -/
def fragTable : Table := tblOf fragPairs
/-- model side: the same primitives (plus the classes the brace characters resolve to) in the global frame -/
def fragEnv : Env := [envOf fragPairs ++ braceFrame]

theorem pairs_rel (extra : Frame) (n : Name) (he : extra.lookup n = none) :
    ∀ (l : List (Name × Prim × TPrim)), (∀ x ∈ l, primRel x.2.1 x.2.2 = true) →
    MRel ((envOf l ++ extra).lookup n) ((tblOf l).lookup n) := by
  intro l
  induction l with
  | nil => intro _; simp [envOf, tblOf, he, MRel]
  | cons x xs ih =>
    intro h
    obtain ⟨k, p, q⟩ := x
    have hx := h (k, p, q) List.mem_cons_self
    have := ih (fun y hy => h y (List.mem_cons_of_mem _ hy))
    by_cases hk : n = k
    · subst hk; simpa [envOf, tblOf, List.lookup, MRel] using hx
    · have hb : (n == k) = false := by simp [hk]
      simpa [envOf, tblOf, List.lookup, hb] using this

theorem lookup_single (n : Name) (f : Frame) : lookup n [f] = f.lookup n := by
  simp only [lookup]; cases f.lookup n <;> rfl

theorem tblOf_none (n : Name) : ∀ (l : List (Name × Prim × TPrim)), (∀ x ∈ l, x.1 ≠ n) → (tblOf l).lookup n = none := by
  intro l
  induction l with
  | nil => intro _; rfl
  | cons x xs ih =>
    intro h
    have hx := h x List.mem_cons_self
    have hb : (n == x.1) = false := by simp [Ne.symm hx]
    simp only [tblOf, List.map, List.lookup, hb]
    exact ih (fun y hy => h y (List.mem_cons_of_mem _ hy))

theorem fragTable_none (n : Name) (h : ∀ x ∈ fragPairs, x.1 ≠ n) : fragTable.lookup n = none :=
  tblOf_none n fragPairs h

theorem envRel_frag : EnvRel fragEnv [fragTable] := by
  refine ⟨⟨?_, ?_, ?_, ?_, ?_, ?_⟩, trivial⟩
  · intro n h1 h2
    show MRel (lookup n [envOf fragPairs ++ braceFrame]) _
    rw [lookup_single]
    apply pairs_rel
    · have a : (n == bgroupN) = false := by simp [h1]
      have b : (n == egroupN) = false := by simp [h2]
      simp [braceFrame, List.lookup, a, b]
    · decide
  · decide
  · decide
  · exact fragTable_none _ (by decide)
  · exact fragTable_none _ (by decide)
  · exact fragTable_none _ (by decide)

/-- **program level**: every successful run of the independent TeX evaluator inside the fragment is reproduced,
    with the same visible text, by the model of plasTeX's loop (either variant of D49), given enough fuel -/
theorem run_of_texRun_frag (fx : Bool) (fuel : Nat) (p : List Tok) (v : List Nat)
    (h : texRun fragOk fuel ⟨p, fragTable, []⟩ = .ok v) : ∃ F, run fx F ⟨p, fragEnv⟩ = .ok v :=
  sim fx fuel ⟨p, fragTable, []⟩ v h fragEnv envRel_frag

/-! ### `\\newcommand` macros -/

theorem readBracket_plain (r : List Tok) : ∀ (p : List Tok),
    (∀ x ∈ p, isOpenBr x = false ∧ isCloseBr x = false) → readBracket 1 (p ++ rBrack :: r) = (p, r) := by
  intro p
  induction p with
  | nil => intro _; simp [readBracket, rBrack, isOpenBr, isCloseBr]
  | cons x xs ih =>
    intro h
    have hx := h x List.mem_cons_self
    have := ih (fun y hy => h y (List.mem_cons_of_mem _ hy))
    simp [readBracket, hx.1, hx.2, this]

theorem readArgs_of_texMandatory : ∀ (n : Nat) (s : List Tok) (args : List (List Tok)) (rest : List Tok),
    texMandatory n s = some (args, rest) → nf3Mandatory n s = true →
    readArgs n s = (args.map some, rest) ∧ args.length = n := by
  intro n
  induction n with
  | zero => intro s args rest h _; simp [texMandatory] at h; obtain ⟨rfl, rfl⟩ := h; simp [readArgs]
  | succ n ih =>
    intro s args rest h hn
    simp only [texMandatory] at h
    cases hu : texUndelimited s with
    | none => simp [hu] at h
    | some ar =>
      obtain ⟨a, r⟩ := ar
      simp only [hu, Option.map_eq_some_iff] at h
      obtain ⟨⟨as, r'⟩, hx, heq⟩ := h
      simp at heq; obtain ⟨rfl, rfl⟩ := heq
      simp only [nf3Mandatory, hu, Bool.and_eq_true] at hn
      have hr := readArgument_of_texUndelimited s a r hu (noMathHead_spec s hn.1)
      obtain ⟨e1, e2⟩ := ih r as r' hx hn.2
      simp [readArgs, hr, e1, e2]

theorem isAnyBracket_spec (x : Tok) (h : isAnyBracket x = false) : isOpenBr x = false ∧ isCloseBr x = false := by
  cases x with
  | ch cat c =>
    by_cases h1 : c = 91
    · subst h1; simp [isAnyBracket] at h
    · by_cases h2 : c = 93
      · subst h2; simp [isAnyBracket] at h
      · constructor
        · unfold isOpenBr; split
          · rename_i heq; simp at heq; exact absurd heq.2 h1
          · rfl
        · unfold isCloseBr; split
          · rename_i heq; simp at heq; exact absurd heq.2 h2
          · rfl
  | cs n => exact ⟨rfl, rfl⟩
  | el n => exact ⟨rfl, rfl⟩

theorem lbrack_open (t : Tok) (h : isLBrack t = true) : isOpenBr t = true := by
  cases t with
  | ch cat c => simp [isLBrack] at h; split at h <;> simp_all [isOpenBr]
  | cs n => simp [isLBrack] at h
  | el n => simp [isLBrack] at h

/-- **One call of a `\\newcommand` macro in the model = one call in LaTeX/TeX**: optional argument absent (default) or
    present (bracket content, NF-prog 3), any number of mandatory arguments, any replacement text. -/
theorem invokeNewcommand_of_texLatexCall (nargs : Nat) (opt : Option (List Tok)) (items : List BItem)
    (s out rest : List Tok) (hw : ∀ it ∈ items, WFItem nargs it) (ho : opt.isSome = true → 1 ≤ nargs)
    (hopen : ∀ t ts, skipBlanks s = t :: ts → isOpenBr t = true → isLBrack t = true)
    (h : texLatexCall nargs opt items s = .ok (out, rest)) :
    invokeNewcommand nargs opt (renderBody items) s = .ok (out, rest) := by
  unfold texLatexCall at h
  cases opt with
  | none =>
    simp only at h
    cases hm : texMandatory nargs s with
    | none => simp [hm] at h
    | some ar =>
      obtain ⟨args, rest'⟩ := ar
      simp only [hm] at h
      by_cases hn : nf3Mandatory nargs s = true
      · simp only [hn, if_true, Except.ok.injEq, Prod.mk.injEq] at h
        obtain ⟨rfl, rfl⟩ := h
        obtain ⟨e1, e2⟩ := readArgs_of_texMandatory nargs s args rest' hm hn
        have hs : substBody (renderBody items) (none :: args.map some) = .ok (texSubst items args) :=
          substGo_render args items (by simpa [e2] using hw)
        simp [invokeNewcommand, collectNewcommand, e1, hs, Except.map]
      · simp [hn] at h
  | some d =>
    have h1 : 1 ≤ nargs := ho rfl
    simp only at h
    cases hopt : texOptional d s with
    | none => simp [hopt] at h
    | some ar =>
      obtain ⟨a, r⟩ := ar
      simp only [hopt] at h
      cases hm : texMandatory (nargs - 1) r with
      | none => simp [hm] at h
      | some ar2 =>
        obtain ⟨args, rest'⟩ := ar2
        simp only [hm] at h
        by_cases hn : (nf3Optional s && nf3Mandatory (nargs - 1) r) = true
        · simp only [hn, if_true, Except.ok.injEq, Prod.mk.injEq] at h
          obtain ⟨rfl, rfl⟩ := h
          simp only [Bool.and_eq_true] at hn
          obtain ⟨e1, e2⟩ := readArgs_of_texMandatory (nargs - 1) r args rest' hm hn.2
          have hs : substBody (renderBody items) (none :: (a :: args).map some) = .ok (texSubst items (a :: args)) :=
            substGo_render (a :: args) items (by simpa [e2, Nat.sub_add_cancel h1] using hw)
          -- the optional argument: same value, same rest
          have key : optValue (readOptional s).1 d = a ∧ (readOptional s).2 = r := by
            unfold texOptional at hopt
            unfold readOptional
            rw [dropSpaces_eq_skipBlanks]
            cases hsb : skipBlanks s with
            | nil => simp [hsb] at hopt; simp [optValue, hopt.1, hopt.2]
            | cons t ts =>
              simp only [hsb] at hopt
              by_cases hl : isLBrack t = true
              · simp only [hl, if_true, Option.map_eq_some_iff] at hopt
                obtain ⟨⟨p, r2⟩, hscan, heq⟩ := hopt
                simp at heq; obtain ⟨rfl, rfl⟩ := heq
                have hnfp : ∀ x ∈ p, isOpenBr x = false ∧ isCloseBr x = false := by
                  have := hn.1
                  simp only [nf3Optional, hsb, hl, if_true, hscan, Bool.not_eq_true', List.any_eq_false] at this
                  intro x hx; exact isAnyBracket_spec x (by simpa using this x hx)
                have hsplit := texScan_split _ _ _ _ _ hscan
                have hrb : readBracket 1 ts = (p, r2) := by
                  rw [hsplit]; simpa using readBracket_plain r2 p hnfp
                simp [optValue, lbrack_open t hl, hrb, stripDelimited_eq_texStrip]
              · have hnot : isOpenBr t = false := by
                  cases ho : isOpenBr t with
                  | false => rfl
                  | true => exact absurd (hopen t ts hsb ho) hl
                simp only [hl, Bool.false_eq_true, if_false, Option.some.injEq, Prod.mk.injEq] at hopt
                obtain ⟨rfl, rfl⟩ := hopt
                simp [optValue, hnot]
          simp only [invokeNewcommand, collectNewcommand]
          rw [key.1, key.2, e1]
          simp only [List.map] at hs
          simp [hs, Except.map]
        · simp [hn] at h

end PlasVerif.Proofs.MacroRun
