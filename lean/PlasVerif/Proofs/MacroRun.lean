import PlasVerif.Proofs.Macro
/-! Lemmas for the program-level theorem of C02 (`run_eq_texRun_fragment`): fuel monotonicity of the model's
    expansion loop, parsing round trips of definitions, environment correspondence. -/
namespace PlasVerif.Proofs.MacroRun
open PlasVerif.Model.Macro PlasVerif.Spec.TeXMacro PlasVerif.Proofs.Macro

/-! ### more fuel never changes a result -/

theorem fuel_mono (fx : Bool) : ∀ f,
   (∀ st x, next fx f st = .ok x → next fx (f+1) st = .ok x) ∧
   (∀ n r e x, invoke fx f n r e = .ok x → invoke fx (f+1) n r e = .ok x) ∧
   (∀ r e x, expAfter fx f r e = .ok x → expAfter fx (f+1) r e = .ok x) ∧
   (∀ a st x, csnameGo fx f a st = .ok x → csnameGo fx (f+1) a st = .ok x) ∧
   (∀ n r e x, expandOnce fx f n r e = .ok x → expandOnce fx (f+1) n r e = .ok x) := by
  intro f
  induction f with
  | zero =>
    refine ⟨?_, ?_, ?_, ?_, ?_⟩ <;> intros <;> simp_all [next, invoke, expAfter, csnameGo, expandOnce]
  | succ f ih =>
    obtain ⟨ihn, ihi, ihe, ihc, iho⟩ := ih
    refine ⟨?_, ?_, ?_, ?_, ?_⟩
    · intro st x h
      obtain ⟨inp, env⟩ := st
      cases hb : tooBig inp <;> cases inp with
      | nil => simp_all [next]
      | cons t rest =>
        cases hm : macroNameOf t <;> simp_all [next]
    · intro n r e x h
      unfold invoke at h ⊢
      simp only at h ⊢
      cases hg : (getItem n e).1 with
      | defn args body =>
        simp only [hg] at h ⊢
        cases hd : invokeDef args (body.getD []) r with
        | error er => simp [hd] at h
        | ok v => simp only [hd] at h ⊢; exact ihn _ _ h
      | newcmd k o b =>
        simp only [hg] at h ⊢
        cases hd : invokeNewcommand k o (b.getD []) r with
        | error er => simp [hd] at h
        | ok v => simp only [hd] at h ⊢; exact ihn _ _ h
      | unrec nm => simp only [hg] at h ⊢; exact h
      | prim p nm =>
        cases p <;> simp only [hg] at h ⊢
        case csname =>
          cases hc : csnameGo fx f [] ⟨r, (getItem n e).2⟩ with
          | error er => simp [hc] at h
          | ok v => rw [ihc _ _ _ hc]; simp only [hc] at h ⊢; exact ihn _ _ h
        case expandafter =>
          cases hc : expAfter fx f r (getItem n e).2 with
          | error er => simp [hc] at h
          | ok v => rw [ihe _ _ _ hc]; simp only [hc] at h ⊢; exact ihn _ _ h
        case ifx =>
          cases ha : readXTok (getItem n e).2 r with
          | error er => simp [ha] at h
          | ok va =>
            obtain ⟨a, r1⟩ := va
            simp only [ha] at h ⊢
            cases hb : readXTok (getItem n e).2 r1 with
            | error er => simp [hb] at h
            | ok vb => obtain ⟨b, r2⟩ := vb; simp only [hb] at h ⊢; exact ihn _ _ h
        all_goals exact h
    · intro r e x h
      unfold expAfter at h ⊢
      match r, h with
      | [], h => exact h
      | [_], h => exact h
      | t1 :: .cs n2 :: rest', h =>
        simp only at h ⊢
        cases hc : expandOnce fx f n2 rest' e with
        | error er => simp [hc] at h
        | ok v => rw [iho _ _ _ _ hc]; simp only [hc] at h ⊢; exact h
      | t1 :: .ch _ _ :: rest', h => exact h
      | t1 :: .el _ :: rest', h => exact h
    · intro a st x h
      unfold csnameGo at h ⊢
      cases hc : next fx f st with
      | error er => simp [hc] at h
      | ok v =>
        rw [ihn _ _ hc]; simp only [hc] at h ⊢
        match v, h with
        | none, h => exact h
        | some (.el n, st'), h => exact h
        | some (.ch c d, st'), h => exact ihc _ _ _ h
        | some (.cs c, st'), h => exact ihc _ _ _ h
    · intro n r e x h
      unfold expandOnce at h ⊢
      simp only at h ⊢
      cases hg : (getItem n e).1 with
      | defn args body => simp only [hg] at h ⊢; exact h
      | newcmd k o b => simp only [hg] at h ⊢; exact h
      | unrec nm =>
        simp only [hg] at h ⊢
        cases fx
        · simp only [Bool.false_eq_true, if_false] at h ⊢
          cases hc : invoke false f n r (getItem n e).2 with
          | error er => simp [hc] at h
          | ok v => rw [ihi _ _ _ _ hc]; simp only [hc] at h ⊢; exact h
        · exact h
      | prim p nm =>
        cases p <;> simp only [hg] at h ⊢
        case csname =>
          cases hc : csnameGo fx f [] ⟨r, (getItem n e).2⟩ with
          | error er => simp [hc] at h
          | ok v => rw [ihc _ _ _ hc]; simp only [hc] at h ⊢; exact h
        case expandafter => exact ihe _ _ _ h
        all_goals
          cases fx
          · simp only [Bool.false_eq_true, if_false] at h ⊢
            cases hc : invoke false f n r (getItem n e).2 with
            | error er => simp [hc] at h
            | ok v => rw [ihi _ _ _ _ hc]; simp only [hc] at h ⊢; exact h
          · exact h

theorem next_mono (fx : Bool) (f k : Nat) (st : St) (x : Option (Tok × St)) (h : next fx f st = .ok x) :
    next fx (f + k) st = .ok x := by
  induction k with
  | zero => exact h
  | succ k ih => exact (fuel_mono fx (f + k)).1 st x ih

theorem run_mono1 (fx : Bool) : ∀ (f : Nat) (st : St) (v : List Nat), run fx f st = .ok v → run fx (f + 1) st = .ok v := by
  intro f
  induction f with
  | zero => intro st v h; simp [run] at h
  | succ f ih =>
    intro st v h
    unfold run at h ⊢
    cases hn : next fx f st with
    | error e => simp [hn] at h
    | ok x =>
      rw [(fuel_mono fx f).1 st x hn]
      simp only [hn] at h ⊢
      match x, h with
      | none, h => exact h
      | some (t, st'), h =>
        simp only at h ⊢
        cases hr : run fx f st' with
        | error e => simp [hr, Except.map] at h
        | ok w => rw [ih st' w hr]; simpa [hr] using h

theorem run_mono (fx : Bool) (f k : Nat) (st : St) (v : List Nat) (h : run fx f st = .ok v) :
    run fx (f + k) st = .ok v := by
  induction k with
  | zero => exact h
  | succ k ih => exact run_mono1 fx (f + k) st v ih

/-! ### definitions are stored as TeX reads them -/

theorem parsePT_spec (k : Nat) (ts : List Tok) : ∀ (pre : List Tok) (ds : List (List Tok)),
   parsePT k ts = some (pre, ds) →
   pre ++ renderParams k ds = ts ∧ (∀ t ∈ pre, t.isParam = false) ∧ (∀ d ∈ ds, ∀ t ∈ d, t.isParam = false)
   ∧ (ds ≠ [] → k + ds.length ≤ 10) ∧ True ∧ (∀ t ∈ ts, t.isEl = false) := by
  fun_induction parsePT k ts with
  | case1 => intro pre ds h; simp at h; obtain ⟨rfl, rfl⟩ := h; simp [renderParams]
  | case2 k t hp => intro pre ds h; simp at h
  | case3 k t hp =>
    intro pre ds h; simp at h; obtain ⟨rfl, rfl⟩ := h
    simp only [Bool.or_eq_true, not_or, Bool.not_eq_true] at hp
    simp [renderParams, hp.1, hp.2]
  | case4 k t u us hp hc ih =>
    intro pre ds h
    obtain ⟨rfl, rfl, h1, h9⟩ := hc
    simp only [Option.map_eq_some_iff] at h
    obtain ⟨⟨a, b⟩, hab, heq⟩ := h
    simp at heq; obtain ⟨rfl, rfl⟩ := heq
    obtain ⟨e1, e2, e3, e4, e5, e6⟩ := ih a b hab
    refine ⟨?_, ?_, ?_, ?_, ?_, ?_⟩
    · simp [renderParams, e1]
    · simp
    · intro d hd; simp at hd; rcases hd with rfl | hd
      · exact e2
      · exact e3 d hd
    · intro _; simp
      by_cases hb : b = []
      · subst hb; simp; omega
      · have := e4 hb; omega
    · have hd : (digitTok k).isParam = false := rfl
      trivial
    · intro x hx; simp at hx
      rcases hx with rfl | rfl | hx
      · rfl
      · rfl
      · exact e6 x hx
  | case5 k t u us hp hc => intro pre ds h; simp at h
  | case6 k t u us hp he => intro pre ds h; simp at h
  | case7 k t u us hp he ih =>
    intro pre ds h
    simp only [Option.map_eq_some_iff] at h
    obtain ⟨⟨a, b⟩, hab, heq⟩ := h
    simp at heq; obtain ⟨rfl, rfl⟩ := heq
    obtain ⟨e1, e2, e3, e4, e5, e6⟩ := ih a b hab
    have hpf : t.isParam = false := by simpa using hp
    have hef : t.isEl = false := by simpa using he
    refine ⟨by simp [e1], ?_, e3, e4, ?_, ?_⟩
    · intro x hx; simp at hx; rcases hx with rfl | hx
      · exact hpf
      · exact e2 x hx
    · trivial
    · intro x hx; simp at hx; rcases hx with rfl | hx
      · exact hef
      · exact e6 x (by simpa using hx)

theorem digitOf_spec (u : Tok) (k : Nat) (h : digitOf u = some k) : u = digitTok k ∧ 1 ≤ k ∧ k ≤ 9 := by
  unfold digitOf at h
  split at h
  · rename_i c
    split at h
    · simp at h; subst h; rename_i hc; refine ⟨?_, by omega, by omega⟩
      simp [digitTok]; omega
    · cases h
  · cases h

def BasicWF (n : Nat) : BItem → Prop
  | .tok t => t.isParam = false
  | .par k => 1 ≤ k ∧ k ≤ n ∧ k < 10
  | .hash c => c = 35

theorem parseBody_spec (n : Nat) (ts : List Tok) : ∀ (items : List BItem),
    parseBody n ts = some items → renderBody items = ts ∧ ∀ it ∈ items, BasicWF n it := by
  fun_induction parseBody n ts with
  | case1 => intro items h; simp at h; subst h; simp [renderBody]
  | case2 t hp => intro items h; simp at h
  | case3 t hp =>
    intro items h; simp at h; subst h
    simp [renderBody, renderItem, BasicWF]; simpa using hp
  | case4 us hp ih =>
    intro items h
    simp only [Option.map_eq_some_iff] at h
    obtain ⟨a, ha, rfl⟩ := h
    obtain ⟨e1, e2⟩ := ih a ha
    refine ⟨by simp [renderBody, renderItem, hashTok] at e1 ⊢; exact e1, ?_⟩
    intro it hit; simp at hit; rcases hit with rfl | hit
    · simp [BasicWF]
    · exact e2 it hit
  | case5 u us hu k hk hkn hp ih =>
    intro items h
    simp only [Option.map_eq_some_iff] at h
    obtain ⟨a, ha, rfl⟩ := h
    obtain ⟨e1, e2⟩ := ih a ha
    obtain ⟨rfl, h1, h9⟩ := digitOf_spec u k hk
    refine ⟨by simp [renderBody, renderItem] at e1 ⊢; exact e1, ?_⟩
    intro it hit; simp at hit; rcases hit with rfl | hit
    · simp [BasicWF]; omega
    · exact e2 it hit
  | case6 => intro items h; simp at h
  | case7 => intro items h; simp at h
  | case8 => intro items h; simp at h
  | case9 t u us hp ih =>
    intro items h
    simp only [Option.map_eq_some_iff] at h
    obtain ⟨a, ha, rfl⟩ := h
    obtain ⟨e1, e2⟩ := ih a ha
    refine ⟨by simp [renderBody, renderItem] at e1 ⊢; exact e1, ?_⟩
    intro it hit; simp at hit; rcases hit with rfl | hit
    · simpa [BasicWF] using hp
    · exact e2 it hit

theorem untilBg_eq_spanNoBg (s : List Tok) : untilBg s = spanNoBg s := by
  induction s with
  | nil => rfl
  | cons t ts ih => simp [untilBg, spanNoBg, ih]

theorem spanNoBg_snd (s : List Tok) : ∀ b r, (spanNoBg s).2 = b :: r → b.isBg = true := by
  induction s with
  | nil => intro b r h; simp [spanNoBg] at h
  | cons t ts ih =>
    intro b r h
    by_cases ht : t.isBg = true
    · simp [spanNoBg, ht] at h; rw [← h.1]; exact ht
    · simp [spanNoBg, ht] at h; exact ih b r h

theorem readTok_of_texRToken (s : List Tok) (n : Name) (r : List Tok) (h : texRToken s = some (n, r)) :
    readTok s = (some (.cs n), r) := by
  unfold texRToken at h
  unfold readTok
  rw [dropSpaces_eq_skipBlanks]
  cases hs : skipBlanks s with
  | nil => simp [hs] at h
  | cons t ts =>
    rw [hs] at h
    cases t with
    | cs m => simp at h; obtain ⟨rfl, rfl⟩ := h; rfl
    | ch a b => simp at h
    | el m => simp at h

theorem dropSpaces_noop (r : List Tok) (h : startsWithBlank r = false) :
    dropSpaces r = r := by
  cases r with
  | nil => rfl
  | cons t ts => simp [startsWithBlank] at h; simp [dropSpaces, h]

theorem bg_not_space (t : Tok) (h : t.isBg = true) : t.isSpace = false := by
  cases t with
  | ch cat c =>
    match cat, h with
    | 1, _ => rfl
    | 0, h => simp [Tok.isBg] at h
    | n + 2, h => simp [Tok.isBg] at h
  | cs n => rfl
  | el n => rfl

theorem spanNoBg_head_space (r : List Tok) :
    startsWithBlank (spanNoBg r).1 = false → (spanNoBg r).2 ≠ [] →
    startsWithBlank r = false := by
  cases r with
  | nil => intro _ _; rfl
  | cons t ts =>
    intro h _
    by_cases ht : t.isBg = true
    · simp [startsWithBlank, bg_not_space t ht]
    · simpa [spanNoBg, ht, startsWithBlank] using h

theorem readDefParts_of_texReadDef (s : List Tok) (nm : Name) (m : TMeaning) (rest : List Tok)
    (h : texReadDef s = .ok (nm, m, rest)) :
    ∃ pt items, m = .macro pt items ∧
      readDefParts s = .ok ⟨nm, renderPText pt, some (renderBody items), rest⟩ ∧
      pt.params.length ≤ 9 ∧ (∀ t ∈ pt.pre, t.isParam = false) ∧ (∀ d ∈ pt.params, ∀ t ∈ d, t.isParam = false) ∧
      (∀ it ∈ items, BasicWF pt.params.length it) := by
  unfold texReadDef at h
  cases hr : texRToken s with
  | none => simp [hr] at h
  | some nr =>
    obtain ⟨n, r⟩ := nr
    simp only [hr] at h
    cases hsp : (spanNoBg r).2 with
    | nil => simp [hsp] at h
    | cons b afterBg =>
      simp only [hsp] at h
      cases hblank : startsWithBlank (spanNoBg r).1 with
      | true => simp [hblank] at h
      | false =>
        simp only [hblank, Bool.false_eq_true, if_false] at h
        cases hpt : parsePText (spanNoBg r).1 with
        | none => simp [hpt] at h
        | some pt =>
          cases hg : texGroup 0 afterBg with
          | none => simp [hpt, hg] at h
          | some br =>
            obtain ⟨btoks, rest'⟩ := br
            simp only [hpt, hg] at h
            cases hb : parseBody pt.params.length btoks with
            | none => simp [hb] at h
            | some items =>
              simp only [hb, Except.ok.injEq, Prod.mk.injEq] at h
              obtain ⟨rfl, rfl, rfl⟩ := h
              -- parameter text
              unfold parsePText at hpt
              simp only [Option.map_eq_some_iff] at hpt
              obtain ⟨⟨pre, ds⟩, hpd, rfl⟩ := hpt
              obtain ⟨e1, e2, e3, e4, e5, e6⟩ := parsePT_spec 1 _ pre ds hpd
              obtain ⟨b1, b2⟩ := parseBody_spec _ _ items hb
              have hbg := spanNoBg_snd r b afterBg hsp
              have hdrop : dropSpaces r = r := dropSpaces_noop r
                (spanNoBg_head_space r hblank (by simp [hsp]))
              have hra : readArgument (b :: afterBg) = (some btoks, rest') := by
                simp [readArgument, dropSpaces, bg_not_space b hbg, readToken, hbg,
                  readGroup_of_texGroup afterBg 0 btoks rest' hg]
              refine ⟨⟨pre, ds⟩, items, rfl, ?_, ?_, e2, e3, b2⟩
              · unfold readDefParts
                simp only [readTok_of_texRToken s n r hr, hdrop, untilBg_eq_spanNoBg, hsp, hra,
                  renderPText, e1, b1]
              · by_cases hd : ds = []
                · simp [hd]
                · have := e4 hd; simp at this ⊢; omega

/-! ### the model's frames against TeX's tables -/

def primRel : Prim → TPrim → Bool
  | .def_, .def_ => true
  | .gdef, .gdef => true
  | .let_, .let_ => true
  | .relax, .relax => true
  | .bgroup, .begingroup => true
  | .egroup, .endgroup => true
  | .csname, .csname => true
  | .endcsname, .endcsname => true
  | .expandafter, .expandafter => true
  | .newcommand, .newcommand => true
  | .newcommand, .renewcommand => true
  | .ifx, .ifx => true
  | .inert, .else_ => true
  | .inert, .fi => true
  | _, _ => false

/-- a model meaning and a TeX meaning that denote the same thing -/
def MRel : Option Meaning → Option TMeaning → Prop
  | none, none => True
  | some (.defn args (some body)), some (.macro pt items) =>
    args = renderPText pt ∧ body = renderBody items ∧ WFMacro pt items
  | some (.newcmd k o (some body)), some (.latex k' o' items) =>
    k = k' ∧ o = o' ∧ body = renderBody items ∧ (∀ it ∈ items, WFItem k it) ∧ (o.isSome = true → 1 ≤ k)
  | some (.prim p n), some (.prim q) => primRel p q = true ∧ (p = .endcsname → n = endcsnameName)
  | _, _ => False

/-- `fx` = the repaired variant of D49; in the variant as is, `\expandafter` is not part of the proved fragment -/
structure Good (fx : Bool) (env : Env) (t : Table) : Prop where
  rel : ∀ n, n ∉ reservedNames → MRel (lookup n env) (t.lookup n)
  bg : lookup bgroupN env = some (.prim .bgroup bgroupN)
  eg : lookup egroupN env = some (.prim .egroup egroupN)
  res : ∀ n ∈ reservedNames, t.lookup n = none
  noea : fx = false → ∀ n, t.lookup n ≠ some (.prim .expandafter)

/-- the frame stack of the model against TeX's current table and the tables saved at each open group -/
def EnvRel (fx : Bool) : Env → List Table → Prop
  | [], [] => True
  | f :: fs, t :: ts => Good fx (f :: fs) t ∧ EnvRel fx fs ts
  | _, _ => False

theorem lookup_nil_cons (n : Name) (e : Env) : lookup n ([] :: e) = lookup n e := by
  simp [lookup, List.lookup]

theorem envRel_push (fx : Bool) (env : Env) (t : Table) (ts : List Table) (h : EnvRel fx env (t :: ts)) :
    EnvRel fx (push env) (t :: t :: ts) := by
  cases env with
  | nil => simp [EnvRel] at h
  | cons f fs =>
    obtain ⟨g, r⟩ := h
    refine ⟨⟨?_, ?_, ?_, g.res, g.noea⟩, g, r⟩
    · intro n h1; show MRel (lookup n ([] :: f :: fs)) _; rw [lookup_nil_cons]; exact g.rel n h1
    · show lookup bgroupN ([] :: f :: fs) = _; rw [lookup_nil_cons]; exact g.bg
    · show lookup egroupN ([] :: f :: fs) = _; rw [lookup_nil_cons]; exact g.eg

theorem envRel_pop (fx : Bool) (env : Env) (t t' : Table) (ts : List Table) (h : EnvRel fx env (t :: t' :: ts)) :
    EnvRel fx (pop env) (t' :: ts) := by
  match env, h with
  | f :: g :: gs, h => exact h.2
  | [f], h => simp [EnvRel] at h

theorem lookup_cons_ne (k n : Name) (m : TMeaning) (t : Table) (h : n ≠ k) :
    List.lookup k ((n, m) :: t) = List.lookup k t := by
  have : (k == n) = false := by simp [Ne.symm h]
  simp [List.lookup, this]

theorem lookup_cons_same (n : Name) (m : TMeaning) (t : Table) : List.lookup n ((n, m) :: t) = some m := by
  simp [List.lookup]

theorem bg_reserved : bgroupN ∈ reservedNames := by decide
theorem eg_reserved : egroupN ∈ reservedNames := by decide

theorem table_side (fx : Bool) (t : Table) (n : Name) (m : TMeaning)
    (hres : ∀ k ∈ reservedNames, t.lookup k = none) (hnoea : fx = false → ∀ k, t.lookup k ≠ some (.prim .expandafter))
    (hr : n ∉ reservedNames) (hea : fx = false → m ≠ .prim .expandafter) :
    (∀ k ∈ reservedNames, List.lookup k ((n, m) :: t) = none) ∧
    (fx = false → ∀ k, List.lookup k ((n, m) :: t) ≠ some (.prim .expandafter)) := by
  constructor
  · intro k hk
    have : n ≠ k := fun e => hr (e ▸ hk)
    rw [lookup_cons_ne k n m t this]; exact hres k hk
  · intro hf k
    by_cases hk : n = k
    · subst hk; rw [lookup_cons_same]; intro e; exact hea hf (Option.some.inj e)
    · rw [lookup_cons_ne k n m t hk]; exact hnoea hf k

theorem good_local (fx : Bool) (env : Env) (t : Table) (n : Name) (M : Meaning) (m : TMeaning) (g : Good fx env t)
    (hr : n ∉ reservedNames) (hm : MRel (some M) (some m)) (hea : fx = false → m ≠ .prim .expandafter) :
    Good fx (setLocal n M env) ((n, m) :: t) := by
  have h1 : n ≠ bgroupN := fun e => hr (e ▸ bg_reserved)
  have h2 : n ≠ egroupN := fun e => hr (e ▸ eg_reserved)
  obtain ⟨t1, t2⟩ := table_side fx t n m g.res g.noea hr hea
  refine ⟨?_, ?_, ?_, t1, t2⟩
  · intro k k1
    by_cases hk : n = k
    · subst hk; rw [lookup_setLocal_same, lookup_cons_same]; exact hm
    · rw [lookup_setLocal_ne k n M env hk, lookup_cons_ne k n m t hk]; exact g.rel k k1
  · rw [lookup_setLocal_ne _ n M env h1]; exact g.bg
  · rw [lookup_setLocal_ne _ n M env h2]; exact g.eg

theorem envRel_local (fx : Bool) (env : Env) (t : Table) (ts : List Table) (n : Name) (M : Meaning) (m : TMeaning)
    (h : EnvRel fx env (t :: ts)) (hr : n ∉ reservedNames) (hm : MRel (some M) (some m))
    (hea : fx = false → m ≠ .prim .expandafter) :
    EnvRel fx (setLocal n M env) (((n, m) :: t) :: ts) := by
  cases env with
  | nil => simp [EnvRel] at h
  | cons f fs =>
    obtain ⟨g, r⟩ := h
    have := good_local fx (f :: fs) t n M m g hr hm hea
    exact ⟨by simpa [setLocal] using this, r⟩

theorem filter_lookup_self (n : Name) (f : Frame) : (f.filter (fun p => p.1 ≠ n)).lookup n = none := by
  induction f with
  | nil => rfl
  | cons p ps ih =>
    obtain ⟨k, v⟩ := p
    by_cases hk : k = n
    · have : List.filter (fun p : Name × Meaning => decide (p.1 ≠ n)) ((k, v) :: ps) = List.filter (fun p => decide (p.1 ≠ n)) ps := by
        simp [List.filter, hk]
      rw [this, ih]
    · have : List.filter (fun p : Name × Meaning => decide (p.1 ≠ n)) ((k, v) :: ps) = (k, v) :: List.filter (fun p => decide (p.1 ≠ n)) ps := by
        simp [List.filter, hk]
      have hb : (n == k) = false := by simp [Ne.symm hk]
      rw [this]; simp only [List.lookup, hb]; exact ih

theorem dropLocals_shape (n : Name) (g : Frame) (gs : List Frame) : ∃ x xs, dropLocals n (g :: gs) = x :: xs := by
  cases gs with
  | nil => exact ⟨g, [], rfl⟩
  | cons h hs => exact ⟨_, _, rfl⟩

theorem global_cons (n : Name) (M : Meaning) (f g : Frame) (gs : List Frame) :
    setGlobal n M (dropLocals n (f :: g :: gs))
      = f.filter (fun p => p.1 ≠ n) :: setGlobal n M (dropLocals n (g :: gs)) := by
  obtain ⟨x, xs, hx⟩ := dropLocals_shape n g gs
  show setGlobal n M (f.filter (fun p => p.1 ≠ n) :: dropLocals n (g :: gs)) = _
  rw [hx]; rfl

theorem lookup_global_same (n : Name) (M : Meaning) : ∀ (f : Frame) (fs : List Frame),
    lookup n (setGlobal n M (dropLocals n (f :: fs))) = some M := by
  intro f fs
  induction fs generalizing f with
  | nil => simp [dropLocals, setGlobal, lookup, List.lookup]
  | cons g gs ih =>
    rw [global_cons]
    show (match (f.filter (fun p => p.1 ≠ n)).lookup n with | some m => some m | none => lookup n _) = _
    rw [filter_lookup_self]; exact ih g

theorem good_global (fx : Bool) (f : Frame) (fs : List Frame) (t : Table) (n : Name) (M : Meaning) (m : TMeaning)
    (g : Good fx (f :: fs) t)
    (hr : n ∉ reservedNames) (hm : MRel (some M) (some m)) (hea : fx = false → m ≠ .prim .expandafter) :
    Good fx (setGlobal n M (dropLocals n (f :: fs))) ((n, m) :: t) := by
  have h1 : n ≠ bgroupN := fun e => hr (e ▸ bg_reserved)
  have h2 : n ≠ egroupN := fun e => hr (e ▸ eg_reserved)
  obtain ⟨t1, t2⟩ := table_side fx t n m g.res g.noea hr hea
  refine ⟨?_, ?_, ?_, t1, t2⟩
  · intro k k1
    by_cases hk : n = k
    · subst hk; rw [lookup_global_same, lookup_cons_same]; exact hm
    · rw [lookup_setGlobal_ne k n M hk, lookup_dropLocals_ne k n hk, lookup_cons_ne k n m t hk]; exact g.rel k k1
  · rw [lookup_setGlobal_ne _ n M h1, lookup_dropLocals_ne _ n h1]; exact g.bg
  · rw [lookup_setGlobal_ne _ n M h2, lookup_dropLocals_ne _ n h2]; exact g.eg

theorem envRel_global (fx : Bool) (n : Name) (M : Meaning) (m : TMeaning)
    (hr : n ∉ reservedNames) (hm : MRel (some M) (some m)) (hea : fx = false → m ≠ .prim .expandafter) :
    ∀ (fs : List Frame) (f : Frame) (tables : List Table), EnvRel fx (f :: fs) tables →
    EnvRel fx (setGlobal n M (dropLocals n (f :: fs))) (tables.map ((n, m) :: ·)) := by
  intro fs
  induction fs with
  | nil =>
    intro f tables h
    match tables, h with
    | [t], h =>
      have := good_global fx f [] t n M m h.1 hr hm hea
      exact ⟨this, trivial⟩
    | t :: t' :: ts, h => simp [EnvRel] at h
  | cons g gs ih =>
    intro f tables h
    match tables, h with
    | t :: ts, h =>
      have hg := good_global fx f (g :: gs) t n M m h.1 hr hm hea
      have hr' := ih g ts h.2
      rw [global_cons] at hg ⊢
      exact ⟨hg, hr'⟩

/-! ### steps of the model's loop -/

theorem map_nil_append (x : Except Err (List Nat)) : x.map (([] : List Nat) ++ ·) = x := by
  cases x <;> simp [Except.map]

/-- a token that is not expandable is yielded -/
theorem run_step_yield (fx : Bool) (F : Nat) (t : Tok) (rest : List Tok) (env : Env)
    (hm : macroNameOf t = none) (hb : tooBig (t :: rest) = false) :
    run fx (F + 2) ⟨t :: rest, env⟩ = (run fx (F + 1) ⟨rest, env⟩).map (visibleOf t ++ ·) := by
  conv => lhs; unfold run
  simp only [next, hb, hm]; rfl

/-- a macro instance is yielded by `invoke` (primitives that return `None`) -/
theorem run_step_el (fx : Bool) (F : Nat) (t : Tok) (name nm : Name) (rest : List Tok) (env : Env) (st' : St)
    (hm : macroNameOf t = some name) (hb : tooBig (t :: rest) = false)
    (hi : invoke fx (F + 1) name rest env = .ok (some (.el nm, st'))) :
    run fx (F + 3) ⟨t :: rest, env⟩ = run fx (F + 2) st' := by
  conv => lhs; unfold run
  simp only [next, hb, hm, hi, visibleOf]
  exact map_nil_append _

/-- a user macro call: the loop continues on the expansion pushed back in front of the rest -/
theorem next_step_call (fx : Bool) (G : Nat) (t : Tok) (name : Name) (rest out rest' : List Tok) (env : Env)
    (args : List Tok) (body : List Tok)
    (hm : macroNameOf t = some name) (hb : tooBig (t :: rest) = false)
    (hl : lookup name env = some (.defn args (some body)))
    (hc : invokeDef args body rest = .ok (out, rest')) :
    next fx (G + 2) ⟨t :: rest, env⟩ = next fx G ⟨out ++ rest', env⟩ := by
  conv => lhs; unfold next
  simp only [hb, hm]
  conv => lhs; unfold invoke
  simp [getItem, hl, hc]

theorem run_of_next_eq (fx : Bool) (stA stB : St) (h : ∀ G, next fx (G + 2) stA = next fx G stB)
    (F : Nat) (v : List Nat) (hr : run fx F stB = .ok v) : run fx (F + 2) stA = .ok v := by
  cases F with
  | zero => simp [run] at hr
  | succ G =>
    unfold run at hr ⊢
    rw [h G]
    cases hn : next fx G stB with
    | error e => simp [hn] at hr
    | ok x =>
      simp only [hn] at hr ⊢
      match x, hr with
      | none, hr => exact hr
      | some (t, st'), hr =>
        simp only at hr ⊢
        cases hq : run fx G st' with
        | error e => simp [hq, Except.map] at hr
        | ok w => rw [run_mono fx G 2 st' w hq]; simpa [hq] using hr

/-! ### `\\newcommand` macros -/

theorem readBracket_plain (r : List Tok) : ∀ (p : List Tok),
    (∀ x ∈ p, isOpenBr x = false ∧ isCloseBr x = false) → readBracket 1 (p ++ rBrack :: r) = (p, r) := by
  intro p
  induction p with
  | nil => intro _; simp [readBracket, rBrack, isOpenBr, isCloseBr]
  | cons x xs ih =>
    intro h
    have hx := h x List.mem_cons_self
    have := ih (fun y hy => h y (List.mem_cons_of_mem _ hy))
    simp [readBracket, hx.1, hx.2, this]

theorem readArgs_of_texMandatory : ∀ (n : Nat) (s : List Tok) (args : List (List Tok)) (rest : List Tok),
    texMandatory n s = some (args, rest) → nf3Mandatory n s = true →
    readArgs n s = (args.map some, rest) ∧ args.length = n := by
  intro n
  induction n with
  | zero => intro s args rest h _; simp [texMandatory] at h; obtain ⟨rfl, rfl⟩ := h; simp [readArgs]
  | succ n ih =>
    intro s args rest h hn
    simp only [texMandatory] at h
    cases hu : texUndelimited s with
    | none => simp [hu] at h
    | some ar =>
      obtain ⟨a, r⟩ := ar
      simp only [hu, Option.map_eq_some_iff] at h
      obtain ⟨⟨as, r'⟩, hx, heq⟩ := h
      simp at heq; obtain ⟨rfl, rfl⟩ := heq
      simp only [nf3Mandatory, hu, Bool.and_eq_true] at hn
      have hr := readArgument_of_texUndelimited s a r hu (noMathHead_spec s hn.1)
      obtain ⟨e1, e2⟩ := ih r as r' hx hn.2
      simp [readArgs, hr, e1, e2]

theorem isAnyBracket_spec (x : Tok) (h : isAnyBracket x = false) : isOpenBr x = false ∧ isCloseBr x = false := by
  cases x with
  | ch cat c =>
    by_cases h1 : c = 91
    · subst h1; simp [isAnyBracket] at h
    · by_cases h2 : c = 93
      · subst h2; simp [isAnyBracket] at h
      · constructor
        · unfold isOpenBr; split
          · rename_i heq; simp at heq; exact absurd heq.2 h1
          · rfl
        · unfold isCloseBr; split
          · rename_i heq; simp at heq; exact absurd heq.2 h2
          · rfl
  | cs n => exact ⟨rfl, rfl⟩
  | el n => exact ⟨rfl, rfl⟩

theorem lbrack_open (t : Tok) (h : isLBrack t = true) : isOpenBr t = true := by
  cases t with
  | ch cat c => simp [isLBrack] at h; split at h <;> simp_all [isOpenBr]
  | cs n => simp [isLBrack] at h
  | el n => simp [isLBrack] at h

theorem isOpenAny_eq (t : Tok) : isOpenAny t = isOpenBr t := by
  cases t with
  | ch cat c => by_cases h : c = 91
                · subst h; rfl
                · unfold isOpenAny isOpenBr; split <;> split <;> simp_all
  | cs n => rfl
  | el n => rfl

/-- **One call of a `\\newcommand` macro in the model = one call in LaTeX/TeX**: optional argument absent (default) or
    present (bracket content, NF-prog 3), any number of mandatory arguments, any replacement text. -/
theorem invokeNewcommand_of_texLatexCall (nargs : Nat) (opt : Option (List Tok)) (items : List BItem)
    (s out rest : List Tok) (hw : ∀ it ∈ items, WFItem nargs it) (ho : opt.isSome = true → 1 ≤ nargs)
    (h : texLatexCall nargs opt items s = .ok (out, rest)) :
    invokeNewcommand nargs opt (renderBody items) s = .ok (out, rest) := by
  unfold texLatexCall at h
  cases opt with
  | none =>
    simp only at h
    cases hm : texMandatory nargs s with
    | none => simp [hm] at h
    | some ar =>
      obtain ⟨args, rest'⟩ := ar
      simp only [hm] at h
      by_cases hn : nf3Mandatory nargs s = true
      · simp only [hn, if_true, Except.ok.injEq, Prod.mk.injEq] at h
        obtain ⟨rfl, rfl⟩ := h
        obtain ⟨e1, e2⟩ := readArgs_of_texMandatory nargs s args rest' hm hn
        have hs : substBody (renderBody items) (none :: args.map some) = .ok (texSubst items args) :=
          substGo_render args items (by simpa [e2] using hw)
        simp [invokeNewcommand, collectNewcommand, e1, hs, Except.map]
      · simp [hn] at h
  | some d =>
    have h1 : 1 ≤ nargs := ho rfl
    simp only at h
    cases hopt : texOptional d s with
    | none => simp [hopt] at h
    | some ar =>
      obtain ⟨a, r⟩ := ar
      simp only [hopt] at h
      cases hm : texMandatory (nargs - 1) r with
      | none => simp [hm] at h
      | some ar2 =>
        obtain ⟨args, rest'⟩ := ar2
        simp only [hm] at h
        by_cases hn : (nf3Optional s && nf3Mandatory (nargs - 1) r) = true
        · simp only [hn, if_true, Except.ok.injEq, Prod.mk.injEq] at h
          obtain ⟨rfl, rfl⟩ := h
          simp only [Bool.and_eq_true] at hn
          obtain ⟨e1, e2⟩ := readArgs_of_texMandatory (nargs - 1) r args rest' hm hn.2
          have hs : substBody (renderBody items) (none :: (a :: args).map some) = .ok (texSubst items (a :: args)) :=
            substGo_render (a :: args) items (by simpa [e2, Nat.sub_add_cancel h1] using hw)
          -- the optional argument: same value, same rest
          have key : optValue (readOptional s).1 d = a ∧ (readOptional s).2 = r := by
            unfold texOptional at hopt
            unfold readOptional
            rw [dropSpaces_eq_skipBlanks]
            cases hsb : skipBlanks s with
            | nil => simp [hsb] at hopt; simp [optValue, hopt.1, hopt.2]
            | cons t ts =>
              simp only [hsb] at hopt
              by_cases hl : isLBrack t = true
              · simp only [hl, if_true, Option.map_eq_some_iff] at hopt
                obtain ⟨⟨p, r2⟩, hscan, heq⟩ := hopt
                simp at heq; obtain ⟨rfl, rfl⟩ := heq
                have hnfp : ∀ x ∈ p, isOpenBr x = false ∧ isCloseBr x = false := by
                  have := hn.1
                  simp only [nf3Optional, hsb, hl, if_true, hscan, Bool.not_eq_true', List.any_eq_false] at this
                  intro x hx; exact isAnyBracket_spec x (by simpa using this x hx)
                have hsplit := texScan_split _ _ _ _ _ hscan
                have hrb : readBracket 1 ts = (p, r2) := by
                  rw [hsplit]; simpa using readBracket_plain r2 p hnfp
                simp [optValue, lbrack_open t hl, hrb, stripDelimited_eq_texStrip]
              · simp only [hl, Bool.false_eq_true, if_false] at hopt
                by_cases hoa : isOpenAny t = true
                · simp [hoa] at hopt
                · have hnot : isOpenBr t = false := by
                    rw [← isOpenAny_eq]; simpa using hoa
                  simp only [hoa, Bool.false_eq_true, if_false, Option.some.injEq, Prod.mk.injEq] at hopt
                  obtain ⟨rfl, rfl⟩ := hopt
                  simp [optValue, hnot]
          simp only [invokeNewcommand, collectNewcommand]
          rw [key.1, key.2, e1]
          simp only [List.map] at hs
          simp [hs, Except.map]
        · simp [hn] at h

theorem skipBlanks_head (s : List Tok) (t : Tok) (ts : List Tok) (h : skipBlanks s = t :: ts) : t.isSpace = false := by
  induction s with
  | nil => simp [skipBlanks] at h
  | cons x xs ih =>
    by_cases hx : x.isSpace = true
    · simp [skipBlanks, hx] at h; exact ih h
    · simp [skipBlanks, hx] at h; rw [← h.1]; simpa using hx

theorem skipBlanks_of_head (t : Tok) (ts : List Tok) (h : t.isSpace = false) : skipBlanks (t :: ts) = t :: ts := by
  simp [skipBlanks, h]

theorem csOnly_spec (toks : List Tok) (n : Name) (h : csOnly toks = some n) : toks = [.cs n] := by
  unfold csOnly at h
  split at h
  · simp at h; subst h; rfl
  · cases h

theorem isStarAny_eq (t : Tok) : isStarAny t = starTok t := by
  cases t with
  | ch cat c =>
    by_cases h : c = 42
    · subst h; rfl
    · have : starTok (.ch cat c) = false := by simp [starTok, Tok.text, h]
      rw [this]; unfold isStarAny; split <;> simp_all
  | cs n =>
    by_cases h : n = [42]
    · subst h; rfl
    · have : starTok (.cs n) = false := by simp [starTok, Tok.text, h]
      rw [this]; unfold isStarAny; split <;> simp_all
  | el n => rfl

theorem bg_not_math (t : Tok) (h : t.isBg = true) : t.isMath = false := by
  cases t with
  | ch cat c =>
    match cat, h with
    | 1, _ => rfl
    | 0, h => simp [Tok.isBg] at h
    | n + 2, h => simp [Tok.isBg] at h
  | cs n => rfl
  | el n => rfl

theorem undelimited_cs_nomath (s r1 : List Tok) (n : Name) (h : texUndelimited s = some ([.cs n], r1)) :
    noMathHead s = true := by
  unfold texUndelimited at h
  unfold noMathHead
  cases hs : skipBlanks s with
  | nil => rfl
  | cons t ts =>
    simp only [hs] at h
    by_cases hb : t.isBg = true
    · simp [bg_not_math t hb]
    · simp only [hb, Bool.false_eq_true, if_false] at h
      by_cases he : t.isEg = true
      · simp [he] at h
      · simp only [he, Bool.false_eq_true, if_false, Option.some.injEq, Prod.mk.injEq, List.cons.injEq, and_true] at h
        rw [h.1]; rfl

/-- the name argument -/
theorem newcommand_name (rest s1 r1 : List Tok) (n : Name)
    (h1 : skipStar rest = some s1) (h2 : texUndelimited s1 = some ([.cs n], r1)) :
    readArgument (skipChar starTok rest) = (some [.cs n], r1) := by
  have key : skipChar starTok rest = s1 := by
    unfold skipStar at h1
    unfold skipChar
    rw [dropSpaces_eq_skipBlanks]
    cases hs : skipBlanks rest with
    | nil => simp [hs] at h1; subst h1; rfl
    | cons t r =>
      simp only [hs] at h1
      by_cases h12 : t = .ch 12 42
      · subst h12
        simp at h1; subst h1; rfl
      · simp only [h12, if_false] at h1
        by_cases hst : isStarAny t = true
        · simp [hst] at h1
        · simp only [hst, Bool.false_eq_true, if_false, Option.some.injEq] at h1
          subst h1
          have : starTok t = false := by rw [← isStarAny_eq]; simpa using hst
          simp [this]
  rw [key]
  exact readArgument_of_texUndelimited s1 _ r1 h2 (noMathHead_spec s1 (undelimited_cs_nomath s1 r1 n h2))

theorem digitsNat_spec (p : List Tok) (k : Nat) (h : digitsNat p = some k) : digitsVal p = some k ∧ k ≤ 9 := by
  unfold digitsNat at h
  split at h
  · rename_i c
    split at h
    · rename_i hc
      simp at h; subst h
      refine ⟨?_, by omega⟩
      simp [digitsVal, isDigit, hc.1, hc.2]
    · cases h
  · cases h

theorem nf3Optional_plain (r1 ts p r : List Tok) (t : Tok) (hs : skipBlanks r1 = t :: ts) (hl : isLBrack t = true)
    (hscan : texScan [rBrack] 0 ts = some (p, r)) (hn : nf3Optional r1 = true) :
    readBracket 1 ts = (p, r) := by
  have hnfp : ∀ x ∈ p, isOpenBr x = false ∧ isCloseBr x = false := by
    simp only [nf3Optional, hs, hl, if_true, hscan, Bool.not_eq_true', List.any_eq_false] at hn
    intro x hx; exact isAnyBracket_spec x (by simpa using hn x hx)
  have hsplit := texScan_split _ _ _ _ _ hscan
  rw [hsplit]; simpa using readBracket_plain r p hnfp

/-- the `[n]` argument -/
theorem newcommand_count (r1 r2 : List Tok) (k : Nat) (h : texReadCount r1 = (some k, r2)) (hn : nf3Optional r1 = true) :
    (readOptional r1).2 = r2 ∧ digitsVal ((readOptional r1).1.getD []) = some k ∧ k ≤ 9 := by
  unfold texReadCount at h
  unfold readOptional
  rw [dropSpaces_eq_skipBlanks]
  cases hs : skipBlanks r1 with
  | nil => simp [hs] at h; obtain ⟨rfl, rfl⟩ := h; simp [digitsVal]
  | cons t ts =>
    simp only [hs] at h
    by_cases hl : isLBrack t = true
    · simp only [hl, if_true] at h
      cases hscan : texScan [rBrack] 0 ts with
      | none => simp [hscan] at h
      | some pr =>
        obtain ⟨p, r⟩ := pr
        simp only [hscan, Prod.mk.injEq] at h
        obtain ⟨hd, rfl⟩ := h
        have hrb := nf3Optional_plain r1 ts p r t hs hl hscan hn
        obtain ⟨d1, d2⟩ := digitsNat_spec p k hd
        simp [lbrack_open t hl, hrb, d1, d2]
    · simp only [hl, Bool.false_eq_true, if_false] at h
      by_cases hoa : isOpenAny t = true
      · simp [hoa] at h
      · have hnot : isOpenBr t = false := by rw [← isOpenAny_eq]; simpa using hoa
        simp only [hoa, Bool.false_eq_true, if_false, Prod.mk.injEq, Option.some.injEq] at h
        obtain ⟨rfl, rfl⟩ := h
        simp [hnot, digitsVal]

/-- the `[default]` argument (given that a body follows) -/
theorem newcommand_default (k : Nat) (r2 r3 : List Tok) (o : Option (List Tok))
    (h : texReadDefault k r2 = (o, r3)) (hn : nf3Optional r2 = true) (hne : r3 ≠ []) :
    (readOptional r2).2 = r3 ∧ (readOptional r2).1.map stripDelimited = o ∧ (o.isSome = true → 1 ≤ k) := by
  unfold texReadDefault at h
  unfold readOptional
  rw [dropSpaces_eq_skipBlanks]
  cases hs : skipBlanks r2 with
  | nil => simp [hs] at h; exact absurd h.2 hne
  | cons t ts =>
    simp only [hs] at h
    by_cases hl : isLBrack t = true ∧ k ≥ 1
    · simp only [hl, and_self, if_true] at h
      cases hscan : texScan [rBrack] 0 ts with
      | none => simp [hscan] at h; exact absurd h.2 hne
      | some pr =>
        obtain ⟨p, r⟩ := pr
        simp only [hscan, Prod.mk.injEq] at h
        obtain ⟨rfl, rfl⟩ := h
        have hrb := nf3Optional_plain r2 ts p r t hs hl.1 hscan hn
        simp [lbrack_open t hl.1, hrb, stripDelimited_eq_texStrip]; exact hl.2
    · simp only [hl, if_false] at h
      by_cases hoa : isOpenAny t = true
      · simp [hoa] at h; exact absurd h.2 hne
      · have hnot : isOpenBr t = false := by rw [← isOpenAny_eq]; simpa using hoa
        simp only [hoa, Bool.false_eq_true, if_false, Prod.mk.injEq] at h
        obtain ⟨rfl, rfl⟩ := h
        simp [hnot]

/-- the replacement text -/
theorem newcommand_body (k : Nat) (r3 rest : List Tok) (items : List BItem)
    (h : texReadBody k r3 = some (items, rest)) :
    readArgument r3 = (some (renderBody items), rest) ∧ (∀ it ∈ items, BasicWF k it) ∧ r3 ≠ [] := by
  unfold texReadBody at h
  cases hs : skipBlanks r3 with
  | nil => simp [hs] at h
  | cons b r4 =>
    simp only [hs] at h
    by_cases hb : b.isBg = true
    · simp only [hb, if_true] at h
      cases hg : texGroup 0 r4 with
      | none => simp [hg] at h
      | some br =>
        obtain ⟨btoks, rest'⟩ := br
        simp only [hg, Option.map_eq_some_iff, Prod.mk.injEq] at h
        obtain ⟨body, hpb, rfl, rfl⟩ := h
        obtain ⟨b1, b2⟩ := parseBody_spec k btoks body hpb
        refine ⟨?_, b2, ?_⟩
        · unfold readArgument
          rw [dropSpaces_eq_skipBlanks, hs]
          simp [readToken, hb, readGroup_of_texGroup r4 0 btoks rest' hg, b1]
        · intro e; subst e; simp [skipBlanks] at hs
    · simp [hb] at h

/-- `\newcommand`/`\renewcommand` read their arguments as LaTeX does, wherever LaTeX's reading is defined (NF-prog) -/
theorem newcommand_parts (rest : List Tok) (nm : Name) (m : TMeaning) (rest' : List Tok)
    (h : texReadNewcommand rest = .ok (nm, m, rest')) :
    ∃ k o items, m = .latex k o items ∧ k ≤ 9 ∧ (o.isSome = true → 1 ≤ k) ∧ (∀ it ∈ items, BasicWF k it) ∧
      ∀ (fx : Bool) (F : Nat) (name nmP : Name) (env : Env), lookup name env = some (.prim .newcommand nmP) →
        invoke fx (F + 1) name rest env
          = .ok (some (.el nmP, ⟨rest', newcommand nm k o (some (renderBody items)) env⟩)) := by
  unfold texReadNewcommand at h
  cases h1 : skipStar rest with
  | none => simp [h1] at h
  | some s1 =>
    simp only [h1] at h
    cases h2 : texUndelimited s1 with
    | none => simp [h2] at h
    | some tr =>
      obtain ⟨toks, r1⟩ := tr
      simp only [h2] at h
      cases h3 : csOnly toks with
      | none => simp [h3] at h
      | some n =>
        simp only [h3] at h
        have htoks := csOnly_spec toks n h3
        subst htoks
        cases h4 : (texReadCount r1).1 with
        | none => simp [h4] at h
        | some k =>
          simp only [h4] at h
          by_cases hnf : (!(nf3Optional r1) || !(nf3Optional (texReadCount r1).2)) = true
          · simp [hnf] at h
          · simp only [hnf, Bool.false_eq_true, if_false] at h
            simp only [Bool.or_eq_true, Bool.not_eq_true', not_or, Bool.not_eq_false] at hnf
            cases h5 : texReadBody k (texReadDefault k (texReadCount r1).2).2 with
            | none => simp [h5] at h
            | some br =>
              obtain ⟨items, rest2⟩ := br
              simp only [h5, Except.ok.injEq, Prod.mk.injEq] at h
              obtain ⟨rfl, rfl, rfl⟩ := h
              have hname := newcommand_name rest s1 r1 n h1 h2
              obtain ⟨c1, c2, c3⟩ := newcommand_count r1 (texReadCount r1).2 k (by rw [← h4]) hnf.1
              obtain ⟨b1, b2, b3⟩ := newcommand_body k _ rest2 items h5
              obtain ⟨d1, d2, d3⟩ := newcommand_default k (texReadCount r1).2 (texReadDefault k (texReadCount r1).2).2
                (texReadDefault k (texReadCount r1).2).1 rfl hnf.2 b3
              refine ⟨k, _, items, rfl, c3, d3, b2, ?_⟩
              intro fx F name nmP env hl
              simp [invoke, getItem, hl, hname, c1, c2, d1, d2, b1, firstCs]

/-! ### simulation -/

theorem dropSpaces_cs (n : Name) (r : List Tok) : dropSpaces (.cs n :: r) = .cs n :: r := by
  simp [dropSpaces, Tok.isSpace]

theorem let_parts (rest : List Tok) (nm src : Name) (rest' : List Tok)
    (h : texReadLet rest = some (nm, .cs src, rest')) (hs : src ≠ eqN) :
    ∃ r0, readTok rest = (some (.cs nm), r0) ∧ readTok (skipChar eqTok r0) = (some (.cs src), rest') := by
  unfold texReadLet at h
  cases hr : texRToken rest with
  | none => simp [hr] at h
  | some nr =>
    obtain ⟨n, r0⟩ := nr
    simp only [hr] at h
    refine ⟨r0, ?_, ?_⟩
    · have := readTok_of_texRToken rest n r0 hr
      cases hsb : skipBlanks r0 with
      | nil => simp [hsb, optEquals] at h
      | cons t ts =>
        split at h
        · simp at h; rw [← h.1]; exact this
        · cases h
    · have heq : eqTok (.cs src) = false := by
        simp [eqTok, Tok.text]; intro e; exact hs e
      unfold skipChar
      rw [dropSpaces_eq_skipBlanks]
      cases hsb : skipBlanks r0 with
      | nil => simp [hsb, optEquals] at h
      | cons t ts =>
        simp only [hsb, optEquals] at h
        by_cases h61 : t = .ch 12 61
        · subst h61
          have he : eqTok (.ch 12 61) = true := rfl
          simp only [he, if_true] at h ⊢
          cases ts with
          | nil => simp at h
          | cons u us =>
            simp only at h
            by_cases hu : u.isSpace = true
            · simp only [hu, if_true] at h
              cases us with
              | nil => simp at h
              | cons w ws =>
                simp at h; obtain ⟨_, rfl, rfl⟩ := h
                have hcs : (Tok.cs src).isSpace = false := rfl
                simp [readTok, dropSpaces, hu, hcs]
            · simp only [hu, Bool.false_eq_true, if_false] at h
              simp at h; obtain ⟨_, rfl, rfl⟩ := h
              simp [readTok, dropSpaces_cs]
        · simp only [h61, if_false] at h
          simp at h; obtain ⟨_, rfl, rfl⟩ := h
          simp [heq, readTok, dropSpaces_cs]

theorem macroNameOf_char' (cat c : Nat) (h1 : cat ≠ 1) (h2 : cat ≠ 2) : macroNameOf (.ch cat c) = none := by
  match cat, h1, h2 with
  | 0, _, _ => rfl
  | 1, h, _ => exact absurd rfl h
  | 2, _, h => exact absurd rfl h
  | n + 3, _, _ => rfl

theorem tooBig_false (s : List Tok) (h : ¬ s.length > 4000) : tooBig s = false := by
  simp [tooBig]; omega

theorem invoke_relax (fx : Bool) (F : Nat) (name nm : Name) (rest : List Tok) (env : Env)
    (h : lookup name env = some (.prim .relax nm)) :
    invoke fx (F + 1) name rest env = .ok (some (.el nm, ⟨rest, env⟩)) := by
  simp [invoke, getItem, h]
theorem invoke_bgroup (fx : Bool) (F : Nat) (name nm : Name) (rest : List Tok) (env : Env)
    (h : lookup name env = some (.prim .bgroup nm)) :
    invoke fx (F + 1) name rest env = .ok (some (.el nm, ⟨rest, push env⟩)) := by
  simp [invoke, getItem, h]
theorem invoke_egroup (fx : Bool) (F : Nat) (name nm : Name) (rest : List Tok) (env : Env)
    (h : lookup name env = some (.prim .egroup nm)) :
    invoke fx (F + 1) name rest env = .ok (some (.el nm, ⟨rest, pop env⟩)) := by
  simp [invoke, getItem, h]
theorem invoke_def (fx : Bool) (F : Nat) (name nm : Name) (rest : List Tok) (env : Env) (d : DefParts)
    (h : lookup name env = some (.prim .def_ nm)) (hd : readDefParts rest = .ok d) :
    invoke fx (F + 1) name rest env = .ok (some (.el nm, ⟨d.rest, newdef d.name d.args d.body true env⟩)) := by
  simp [invoke, getItem, h, hd]
theorem invoke_gdef (fx : Bool) (F : Nat) (name nm : Name) (rest : List Tok) (env : Env) (d : DefParts)
    (h : lookup name env = some (.prim .gdef nm)) (hd : readDefParts rest = .ok d) :
    invoke fx (F + 1) name rest env = .ok (some (.el nm, ⟨d.rest, newdef d.name d.args d.body false env⟩)) := by
  simp [invoke, getItem, h, hd]
theorem invoke_let (fx : Bool) (F : Nat) (name nm d s : Name) (rest r0 rest' : List Tok) (env : Env)
    (h : lookup name env = some (.prim .let_ nm)) (h1 : readTok rest = (some (.cs d), r0))
    (h2 : readTok (skipChar eqTok r0) = (some (.cs s), rest')) :
    invoke fx (F + 1) name rest env = .ok (some (.el nm, ⟨rest', letCs d s env⟩)) := by
  simp [invoke, getItem, h, h1, h2]

theorem next_le (fx : Bool) (f f' : Nat) (st : St) (x : Option (Tok × St)) (h : next fx f st = .ok x) (hle : f ≤ f') :
    next fx f' st = .ok x := by
  obtain ⟨k, rfl⟩ := Nat.exists_eq_add_of_le hle
  exact next_mono fx f k st x h

theorem csnameGo_le (fx : Bool) (f f' : Nat) (acc : List Nat) (st : St) (x : Name × St)
    (h : csnameGo fx f acc st = .ok x) (hle : f ≤ f') : csnameGo fx f' acc st = .ok x := by
  obtain ⟨k, rfl⟩ := Nat.exists_eq_add_of_le hle
  induction k with
  | zero => exact h
  | succ k ih => exact (fuel_mono fx (f + k)).2.2.2.1 acc st x (ih (by omega))

theorem expandOnce_le (fx : Bool) (f f' : Nat) (n : Name) (r : List Tok) (e : Env) (x : List Tok × St)
    (h : expandOnce fx f n r e = .ok x) (hle : f ≤ f') : expandOnce fx f' n r e = .ok x := by
  obtain ⟨k, rfl⟩ := Nat.exists_eq_add_of_le hle
  induction k with
  | zero => exact h
  | succ k ih => exact (fuel_mono fx (f + k)).2.2.2.2 n r e x (ih (by omega))

theorem expAfter_le (fx : Bool) (f f' : Nat) (r : List Tok) (e : Env) (x : List Tok × St)
    (h : expAfter fx f r e = .ok x) (hle : f ≤ f') : expAfter fx f' r e = .ok x := by
  obtain ⟨k, rfl⟩ := Nat.exists_eq_add_of_le hle
  induction k with
  | zero => exact h
  | succ k ih => exact (fuel_mono fx (f + k)).2.2.1 r e x (ih (by omega))

theorem run_le (fx : Bool) (f f' : Nat) (st : St) (v : List Nat) (h : run fx f st = .ok v) (hle : f ≤ f') :
    run fx f' st = .ok v := by
  obtain ⟨k, rfl⟩ := Nat.exists_eq_add_of_le hle
  exact run_mono fx f k st v h

/-- if every result of the loop on `stB` is also a result on `stA`, a run on `stB` is a run on `stA` -/
theorem run_transfer (fx : Bool) (stA stB : St)
    (h : ∀ G x, next fx G stB = .ok x → ∃ G', next fx G' stA = .ok x)
    (F : Nat) (v : List Nat) (hr : run fx F stB = .ok v) : ∃ F', run fx F' stA = .ok v := by
  cases F with
  | zero => simp [run] at hr
  | succ G =>
    unfold run at hr
    cases hn : next fx G stB with
    | error e => simp [hn] at hr
    | ok x =>
      obtain ⟨G1, hG1⟩ := h G x hn
      refine ⟨max G G1 + 1, ?_⟩
      unfold run
      rw [next_le fx G1 (max G G1) stA x hG1 (by omega)]
      simp only [hn] at hr ⊢
      match x, hr with
      | none, hr => exact hr
      | some (t, st'), hr =>
        simp only at hr ⊢
        cases hq : run fx G st' with
        | error e => simp [hq, Except.map] at hr
        | ok w => rw [run_le fx G (max G G1) st' w hq (by omega)]; simpa [hq] using hr

theorem csname_transfer (fx : Bool) (stA stB : St) (henv : stA.env = stB.env)
    (h : ∀ G x, next fx G stB = .ok x → ∃ G', next fx G' stA = .ok x)
    (F : Nat) (acc : List Nat) (R : Name × St) (hr : csnameGo fx F acc stB = .ok R) :
    ∃ F', csnameGo fx F' acc stA = .ok R := by
  cases F with
  | zero => simp [csnameGo] at hr
  | succ G =>
    unfold csnameGo at hr
    cases hn : next fx G stB with
    | error e => simp [hn] at hr
    | ok x =>
      obtain ⟨G1, hG1⟩ := h G x hn
      refine ⟨max G G1 + 1, ?_⟩
      unfold csnameGo
      rw [next_le fx G1 (max G G1) stA x hG1 (by omega)]
      simp only [hn] at hr ⊢
      match x, hr with
      | none, hr => simpa [henv] using hr
      | some (.el n, st'), hr => exact hr
      | some (.ch a b, st'), hr => exact csnameGo_le fx G _ _ _ _ hr (by omega)
      | some (.cs a, st'), hr => exact csnameGo_le fx G _ _ _ _ hr (by omega)

theorem mrel_macro {a : Option Meaning} {pt : PText} {items : List BItem} (h : MRel a (some (.macro pt items))) :
    a = some (.defn (renderPText pt) (some (renderBody items))) ∧ WFMacro pt items := by
  match a, h with
  | some (.defn args (some body)), h => obtain ⟨rfl, rfl, wf⟩ := h; exact ⟨rfl, wf⟩

theorem mrel_latex {a : Option Meaning} {k : Nat} {o : Option (List Tok)} {b : List BItem}
    (h : MRel a (some (.latex k o b))) :
    a = some (.newcmd k o (some (renderBody b))) ∧ (∀ it ∈ b, WFItem k it) ∧ (o.isSome = true → 1 ≤ k) := by
  match a, h with
  | some (.newcmd k' o' (some body)), h => obtain ⟨rfl, rfl, rfl, w, ho⟩ := h; exact ⟨rfl, w, ho⟩

theorem mrel_prim {a : Option Meaning} {q : TPrim} (h : MRel a (some (.prim q))) :
    ∃ p nm, a = some (.prim p nm) ∧ primRel p q = true ∧ (p = .endcsname → nm = endcsnameName) := by
  match a, h with
  | some (.prim p nm), h => exact ⟨p, nm, rfl, h.1, h.2⟩

theorem mrel_some {a : Option Meaning} {m : TMeaning} (h : MRel a (some m)) : ∃ M, a = some M := by
  cases a with
  | none => cases m <;> exact absurd h (by simp [MRel])
  | some M => exact ⟨M, rfl⟩

theorem good_defined {fx : Bool} {env : Env} {t : Table} (g : Good fx env t) (n : Name) (m : TMeaning)
    (h : t.lookup n = some m) : n ∉ reservedNames := by
  intro hn; rw [g.res n hn] at h; cases h

theorem next_step_newcmd (fx : Bool) (G : Nat) (t : Tok) (name : Name) (rest out rest' : List Tok) (env : Env)
    (k : Nat) (o : Option (List Tok)) (body : List Tok)
    (hm : macroNameOf t = some name) (hb : tooBig (t :: rest) = false)
    (hl : lookup name env = some (.newcmd k o (some body)))
    (hc : invokeNewcommand k o body rest = .ok (out, rest')) :
    next fx (G + 2) ⟨t :: rest, env⟩ = next fx G ⟨out ++ rest', env⟩ := by
  conv => lhs; unfold next
  simp only [hb, hm]
  conv => lhs; unfold invoke
  simp [getItem, hl, hc]

/-- **expansion**: what TeX's `expand` does to the head of the input, the model's loop does too (macros of both kinds,
    `\csname`, `\expandafter`, nested to any depth) -/
theorem expand_sim (fx : Bool) (env : Env) (tbl : Table) (hg : Good fx env tbl) : ∀ f,
    (∀ n rest inp, texExpand f tbl n rest = .ok (some inp) → tooBig (.cs n :: rest) = false →
        ∀ G x, next fx G ⟨inp, env⟩ = .ok x → ∃ G', next fx G' ⟨.cs n :: rest, env⟩ = .ok x) ∧
    (∀ acc inp nm rest', texCsname f tbl acc inp = .ok (nm, rest') →
        ∃ G, csnameGo fx G acc ⟨inp, env⟩ = .ok (nm, ⟨rest', env⟩)) ∧
    (∀ n rest r, texExpand f tbl n rest = .ok r → (r = none → fx = true) →
        ∃ G exp st', expandOnce fx G n rest env = .ok (exp, st') ∧ st'.env = env ∧
          exp ++ st'.input = (match r with | some inp => inp | none => .cs n :: rest)) := by
  intro f
  induction f with
  | zero =>
    refine ⟨?_, ?_, ?_⟩ <;> intros <;> simp_all [texExpand, texCsname]
  | succ f ih =>
    obtain ⟨ih1, ih2, ih3⟩ := ih
    -- (3) one expansion as `\expandafter` performs it
    have h3 : ∀ n rest r, texExpand (f + 1) tbl n rest = .ok r → (r = none → fx = true) →
        ∃ G exp st', expandOnce fx G n rest env = .ok (exp, st') ∧ st'.env = env ∧
          exp ++ st'.input = (match r with | some inp => inp | none => .cs n :: rest) := by
      intro n rest r h hfx
      unfold texExpand at h
      cases hl : List.lookup n tbl with
      | none => simp [hl] at h
      | some m =>
        have hnr := good_defined hg n m hl
        have hrn := hg.rel n hnr
        rw [hl] at hrn
        simp only [hl] at h
        cases m with
        | «macro» pt items =>
          obtain ⟨hlm, wf⟩ := mrel_macro hrn
          cases hc : texCall pt items rest with
          | error e => simp [hc, Except.map] at h
          | ok res =>
            obtain ⟨out, rest'⟩ := res
            simp [hc, Except.map] at h; subst h
            refine ⟨1, out, ⟨rest', env⟩, ?_, rfl, rfl⟩
            simp [expandOnce, getItem, hlm, invokeDef_of_texCall pt items rest out rest' wf hc]
        | latex k o items =>
          obtain ⟨hlm, w, ho⟩ := mrel_latex hrn
          cases hc : texLatexCall k o items rest with
          | error e => simp [hc, Except.map] at h
          | ok res =>
            obtain ⟨out, rest'⟩ := res
            simp [hc, Except.map] at h; subst h
            refine ⟨1, out, ⟨rest', env⟩, ?_, rfl, rfl⟩
            simp [expandOnce, getItem, hlm, invokeNewcommand_of_texLatexCall k o items rest out rest' w ho hc]
        | prim q =>
          obtain ⟨p, nmP, hlm, hpr, _⟩ := mrel_prim hrn
          cases q <;> cases p <;> simp [primRel] at hpr
          case csname.csname =>
            simp only at h
            cases hc : texCsname f tbl [] rest with
            | error e => simp [hc, Except.map] at h
            | ok res =>
              obtain ⟨nmC, rest'⟩ := res
              simp [hc, Except.map] at h; subst h
              obtain ⟨G, hG⟩ := ih2 [] rest nmC rest' hc
              refine ⟨G + 1, [.cs nmC], ⟨rest', env⟩, ?_, rfl, rfl⟩
              simp [expandOnce, getItem, hlm, hG]
          case expandafter.expandafter =>
            simp only at h
            match rest, h with
            | [], h => simp at h
            | [_], h => simp at h
            | t1 :: .cs n2 :: rest', h =>
              simp only at h
              cases he : texExpand f tbl n2 rest' with
              | error e => simp [he] at h
              | ok r2 =>
                have hfx' : fx = true := by
                  cases hfxb : fx with
                  | true => rfl
                  | false => exact absurd hl (hg.noea hfxb n)
                obtain ⟨G, exp, st', hG, henv, hin⟩ := ih3 n2 rest' r2 he (fun _ => hfx')
                refine ⟨G + 2, t1 :: exp, st', ?_, henv, ?_⟩
                · simp [expandOnce, getItem, hlm, expAfter, hG]
                · cases r2 with
                  | none => simp [he] at h; subst h; simpa using hin
                  | some inp2 => simp [he] at h; subst h; simpa using hin
            | t1 :: .ch a b :: rest', h =>
              simp at h; subst h
              exact ⟨2, [t1, .ch a b], ⟨rest', env⟩, by simp [expandOnce, getItem, hlm, expAfter], rfl, rfl⟩
            | t1 :: .el a :: rest', h =>
              simp at h; subst h
              exact ⟨2, [t1, .el a], ⟨rest', env⟩, by simp [expandOnce, getItem, hlm, expAfter], rfl, rfl⟩
          all_goals
            simp only at h
            simp at h; subst h
            have hfx' := hfx rfl
            subst hfx'
            exact ⟨1, [.cs n], ⟨rest, env⟩, by simp [expandOnce, getItem, hlm], rfl, rfl⟩
    -- (2) the loop inside `\csname`
    have h2 : ∀ acc inp nmC rest', texCsname (f + 1) tbl acc inp = .ok (nmC, rest') →
        ∃ G, csnameGo fx G acc ⟨inp, env⟩ = .ok (nmC, ⟨rest', env⟩) := by
      intro acc inp nmC rest' h
      unfold texCsname at h
      by_cases hbig : inp.length > 4000
      · simp [hbig] at h
      simp only [hbig, if_false] at h
      have hnb : tooBig inp = false := by simp [tooBig]; omega
      match inp, h, hnb with
      | [], h, _ => simp at h
      | .el a :: rest, h, _ => simp at h
      | .ch cat c :: rest, h, hnb =>
        simp only at h
        by_cases hc : cat = 10 ∨ cat = 11 ∨ cat = 12
        · simp only [hc, if_true] at h
          obtain ⟨G, hG⟩ := ih2 _ _ _ _ h
          refine ⟨G + 2, ?_⟩
          have hmn : macroNameOf (.ch cat c) = none := by
            rcases hc with rfl | rfl | rfl <;> rfl
          conv => lhs; unfold csnameGo
          simp only [next, hnb, hmn]
          exact csnameGo_le fx G (G + 1) _ _ _ (by simpa [Tok.text] using hG) (by omega)
        · simp [hc] at h
      | .cs n :: rest, h, hnb =>
        simp only at h
        by_cases hend : List.lookup n tbl = some (.prim .endcsname)
        · simp only [hend, if_true, Except.ok.injEq, Prod.mk.injEq] at h
          obtain ⟨rfl, rfl⟩ := h
          have hnr := good_defined hg n _ hend
          have hrn := hg.rel n hnr
          rw [hend] at hrn
          obtain ⟨p, nmP, hlm, hpr, hnm⟩ := mrel_prim hrn
          have hp : p = .endcsname := by cases p <;> simp [primRel] at hpr; rfl
          subst hp
          have := hnm rfl; subst this
          refine ⟨3, ?_⟩
          simp [csnameGo, next, hnb, macroNameOf, invoke, getItem, hlm]
        · simp only [hend, if_false] at h
          cases he : texExpand f tbl n rest with
          | error e => simp [he] at h
          | ok r =>
            cases r with
            | none => simp [he] at h
            | some inp' =>
              simp only [he] at h
              obtain ⟨G, hG⟩ := ih2 _ _ _ _ h
              exact csname_transfer fx ⟨.cs n :: rest, env⟩ ⟨inp', env⟩ rfl
                (ih1 n rest inp' he hnb) G acc _ hG
    -- (1) one expansion at the head of the input, inside the loop
    have h1 : ∀ n rest inp, texExpand (f + 1) tbl n rest = .ok (some inp) → tooBig (.cs n :: rest) = false →
        ∀ G x, next fx G ⟨inp, env⟩ = .ok x → ∃ G', next fx G' ⟨.cs n :: rest, env⟩ = .ok x := by
      intro n rest inp h hnb G x hx
      have hmn : macroNameOf (.cs n) = some n := rfl
      have h' := h
      unfold texExpand at h
      cases hl : List.lookup n tbl with
      | none => simp [hl] at h
      | some m =>
        have hnr := good_defined hg n m hl
        have hrn := hg.rel n hnr
        rw [hl] at hrn
        simp only [hl] at h
        cases m with
        | «macro» pt items =>
          obtain ⟨hlm, wf⟩ := mrel_macro hrn
          cases hc : texCall pt items rest with
          | error e => simp [hc, Except.map] at h
          | ok res =>
            obtain ⟨out, rest'⟩ := res
            simp [hc, Except.map] at h; subst h
            exact ⟨G + 2, by
              rw [next_step_call fx G (.cs n) n rest out rest' env _ _ hmn hnb hlm
                (invokeDef_of_texCall pt items rest out rest' wf hc)]; exact hx⟩
        | latex k o items =>
          obtain ⟨hlm, w, ho⟩ := mrel_latex hrn
          cases hc : texLatexCall k o items rest with
          | error e => simp [hc, Except.map] at h
          | ok res =>
            obtain ⟨out, rest'⟩ := res
            simp [hc, Except.map] at h; subst h
            exact ⟨G + 2, by
              rw [next_step_newcmd fx G (.cs n) n rest out rest' env _ _ _ hmn hnb hlm
                (invokeNewcommand_of_texLatexCall k o items rest out rest' w ho hc)]; exact hx⟩
        | prim q =>
          obtain ⟨p, nmP, hlm, hpr, _⟩ := mrel_prim hrn
          cases q <;> cases p <;> simp [primRel] at hpr
          case csname.csname =>
            simp only at h
            cases hc : texCsname f tbl [] rest with
            | error e => simp [hc, Except.map] at h
            | ok res =>
              obtain ⟨nmC, rest'⟩ := res
              simp [hc, Except.map] at h; subst h
              obtain ⟨G1, hG1⟩ := ih2 [] rest nmC rest' hc
              refine ⟨max G G1 + 2, ?_⟩
              conv => lhs; unfold next
              simp only [hnb, hmn]
              conv => lhs; unfold invoke
              simp only [getItem, hlm, csnameGo_le fx G1 (max G G1) _ _ _ hG1 (by omega)]
              exact next_le fx G (max G G1) _ x hx (by omega)
          case expandafter.expandafter =>
            obtain ⟨G1, exp, st', hG1, henv, hin⟩ := h3 n rest (some inp) h' (by intro e; cases e)
            -- `expandOnce` on `\expandafter` is `expAfter`
            cases G1 with
            | zero => simp [expandOnce] at hG1
            | succ G2 =>
              have hea : expAfter fx G2 rest env = .ok (exp, st') := by
                simpa [expandOnce, getItem, hlm] using hG1
              refine ⟨max G G2 + 2, ?_⟩
              conv => lhs; unfold next
              simp only [hnb, hmn]
              conv => lhs; unfold invoke
              simp only [getItem, hlm, expAfter_le fx G2 (max G G2) _ _ _ hea (by omega)]
              obtain ⟨i', e'⟩ := st'
              simp only at henv hin
              subst henv
              rw [hin]
              exact next_le fx G (max G G2) _ x hx (by omega)
          all_goals simp at h
    exact ⟨h1, h2, h3⟩

theorem texIsIfx_eq (t : Tok) : texIsIfx t = isIfx t := by
  cases t with
  | ch cat c => simp [texIsIfx, isIfx, Tok.text, ifxName]
  | cs n => simp [texIsIfx, isIfx, Tok.text, ifxName]
  | el n => rfl

theorem fragOk_names (n : Name) (m : TMeaning) (h : fragOk n m = true) : n ∉ reservedNames := by
  simp only [fragOk, Bool.and_eq_true, Bool.not_eq_true'] at h
  intro hn
  have := h.1
  simp [List.contains_iff_mem, hn] at this

theorem wf_of_frag (nm : Name) (pt : PText) (items : List BItem)
    (h9 : pt.params.length ≤ 9) (hpre : ∀ t ∈ pt.pre, t.isParam = false)
    (hdel : ∀ d ∈ pt.params, ∀ t ∈ d, t.isParam = false)
    (hb : ∀ it ∈ items, BasicWF pt.params.length it) (hf : fragOk nm (.macro pt items) = true) :
    WFMacro pt items := by
  simp only [fragOk, Bool.and_eq_true] at hf
  obtain ⟨_, hi⟩ := hf
  refine ⟨h9, hpre, hdel, ?_⟩
  intro it hit
  have hbi := hb it hit
  cases it with
  | tok t =>
    have := (List.all_eq_true.mp hi) _ hit
    simp only [itemNoIfx, Bool.not_eq_true', texIsIfx_eq] at this
    exact ⟨hbi, this⟩
  | par k => exact hbi
  | hash c => trivial

theorem wf_latex_of_frag (nm : Name) (k : Nat) (o : Option (List Tok)) (items : List BItem)
    (hb : ∀ it ∈ items, BasicWF k it) (hf : fragOk nm (.latex k o items) = true) :
    ∀ it ∈ items, WFItem k it := by
  simp only [fragOk, Bool.and_eq_true] at hf
  obtain ⟨_, hi⟩ := hf
  intro it hit
  have hbi := hb it hit
  cases it with
  | tok t =>
    have := (List.all_eq_true.mp hi) _ hit
    simp only [itemNoIfx, Bool.not_eq_true', texIsIfx_eq] at this
    exact ⟨hbi, this⟩
  | par j => exact hbi
  | hash c => trivial

theorem letCs_of_lookup (d s : Name) (M : Meaning) (e : Env) (h : lookup s e = some M) : letCs d s e = setLocal d M e := by
  simp [letCs, getItem, h]

theorem newcommand_fresh (n : Name) (k : Nat) (o b : Option (List Tok)) (e : Env) (h : lookup n e = none) :
    newcommand n k o b e = setLocal n (.newcmd k o b) e := by
  simp [newcommand, h]

theorem newcommand_over_defn (n : Name) (k : Nat) (o b : Option (List Tok)) (e : Env) (a : List Tok) (bd : Option (List Tok))
    (h : lookup n e = some (.defn a bd)) : newcommand n k o b e = setLocal n (.newcmd k o b) e := by
  simp [newcommand, h]

theorem newcommand_over_newcmd (n : Name) (k : Nat) (o b : Option (List Tok)) (e : Env) (k' : Nat) (o' bd : Option (List Tok))
    (h : lookup n e = some (.newcmd k' o' bd)) : newcommand n k o b e = setLocal n (.newcmd k o b) e := by
  simp [newcommand, h]

theorem mrel_none {a : Option Meaning} (h : MRel a none) : a = none := by
  cases a with
  | none => rfl
  | some M => cases M <;> simp [MRel] at h

/-- a table entry that is not `\expandafter` in the variant as is -/
theorem notEa_of_good {fx : Bool} {env : Env} {t : Table} (g : Good fx env t) (n : Name) (m : TMeaning)
    (h : t.lookup n = some m) : fx = false → m ≠ .prim .expandafter := by
  intro hf e; subst e; exact g.noea hf n h

/-! ### `\ifx` inside NF-prog 4: the model's comparison is TeX's -/

def itemTok : BItem → Tok
  | .tok t => t
  | _ => .ch 12 0

theorem renderBody_plain : ∀ (b : List BItem), b.all plainItem = true →
    renderBody b = b.map itemTok ∧ (b.map itemTok).all plainChar = true := by
  intro b
  induction b with
  | nil => intro _; exact ⟨rfl, rfl⟩
  | cons it rest ih =>
    intro h
    simp only [List.all_cons, Bool.and_eq_true] at h
    obtain ⟨e1, e2⟩ := ih h.2
    cases it with
    | tok t =>
      have hp : plainChar t = true := by
        cases t with
        | ch cat c =>
          have := h.1
          unfold plainItem at this
          split at this <;> simp_all [plainChar]
        | cs n => simp [plainItem] at h
        | el n => simp [plainItem] at h
      refine ⟨?_, ?_⟩
      · simp only [renderBody, List.flatMap_cons, renderItem, List.map_cons, itemTok] at e1 ⊢
        rw [e1]; rfl
      · simp [itemTok, hp, e2]
    | par k => simp [plainItem] at h
    | hash c => simp [plainItem] at h

theorem itemTok_inj : ∀ (a b : List BItem), a.all plainItem = true → b.all plainItem = true →
    a.map itemTok = b.map itemTok → a = b := by
  intro a
  induction a with
  | nil => intro b _ _ h; cases b with | nil => rfl | cons y ys => simp at h
  | cons x xs ih =>
    intro b ha hb h
    cases b with
    | nil => simp at h
    | cons y ys =>
      simp only [List.all_cons, Bool.and_eq_true] at ha hb
      simp only [List.map_cons, List.cons.injEq] at h
      have hxy : x = y := by
        cases x <;> cases y <;> simp_all [plainItem, itemTok]
      rw [hxy, ih ys ha.2 hb.2 h.2]

theorem ifValEq_ifValOf (a b : List Tok) : ifValEq (ifValOf a) (ifValOf b) = (a == b) := by
  match a, b with
  | [], [] => rfl
  | [], [y] => rfl
  | [], y :: z :: w => rfl
  | [x], [] => rfl
  | [x], [y] => simp [ifValOf, ifValEq]
  | [x], y :: z :: w => simp [ifValOf, ifValEq]
  | x :: x' :: xs, [] => rfl
  | x :: x' :: xs, [y] => simp [ifValOf, ifValEq]
  | x :: x' :: xs, y :: z :: w => simp [ifValOf, ifValEq]

theorem ifxKind_mac (tbl : Table) (t : Tok) (body : List BItem) (h : ifxKind tbl t = some (.mac body)) :
    ∃ n pt, t = .cs n ∧ tbl.lookup n = some (.macro pt body) ∧ pt.pre = [] ∧ pt.params = [] ∧ body.all plainItem = true := by
  cases t with
  | el n => simp [ifxKind] at h
  | ch cat c => simp only [ifxKind] at h; split at h <;> simp at h
  | cs n =>
    simp only [ifxKind] at h
    cases hl : List.lookup n tbl with
    | none => simp [hl] at h
    | some m =>
      cases m with
      | prim q => simp [hl] at h
      | latex a b c => simp [hl] at h
      | «macro» pt body' =>
        simp only [hl] at h
        cases hc : (pt.pre.isEmpty && pt.params.isEmpty && body'.all plainItem) with
        | false => simp [hc] at h
        | true =>
          simp only [hc, if_true, Option.some.injEq, IfxKind.mac.injEq] at h
          subst h
          simp only [Bool.and_eq_true, List.isEmpty_iff] at hc
          exact ⟨n, pt, rfl, hl, hc.1.1, hc.1.2, hc.2⟩

theorem ifxKind_char (tbl : Table) (t : Tok) (cat c : Nat) (h : ifxKind tbl t = some (.char cat c)) :
    t = .ch cat c ∧ (cat = 11 ∨ cat = 12) := by
  cases t with
  | el n => simp [ifxKind] at h
  | ch a b =>
    simp only [ifxKind] at h
    by_cases hc : a = 11 ∨ a = 12
    · simp only [hc, if_true, Option.some.injEq, IfxKind.char.injEq] at h
      obtain ⟨rfl, rfl⟩ := h; exact ⟨rfl, hc⟩
    · simp [hc] at h
  | cs n =>
    simp only [ifxKind] at h
    split at h
    · split at h <;> simp at h
    · simp at h

/-- one operand of `\ifx`, a character: the `XTok` reader of the code returns the token itself -/
theorem xtok_of_char (env : Env) (tbl : Table) (t : Tok) (cat c : Nat) (h : ifxKind tbl t = some (.char cat c)) :
    xtokOfTok env t = .ok (.tok (.ch cat c)) := by
  obtain ⟨rfl, hc⟩ := ifxKind_char tbl t cat c h
  simp [xtokOfTok, hc]

/-- one operand of `\ifx`, a plain-text macro: the reader returns its text (one token, or the fragment of its tokens) -/
theorem xtok_of_mac (fx : Bool) (env : Env) (tbl : Table) (hg : Good fx env tbl) (t : Tok) (body : List BItem)
    (h : ifxKind tbl t = some (.mac body)) :
    xtokOfTok env t = .ok (ifValOf (body.map itemTok)) := by
  obtain ⟨n, pt, rfl, hl, hp1, hp2, hb⟩ := ifxKind_mac tbl t body h
  have hnr := good_defined hg n _ hl
  have hrn := hg.rel n hnr
  rw [hl] at hrn
  obtain ⟨hlm, _⟩ := mrel_macro hrn
  obtain ⟨r1, r2⟩ := renderBody_plain body hb
  have hpt : renderPText pt = [] := by simp [renderPText, hp1, hp2, renderParams]
  simp [xtokOfTok, hlm, hpt, r1, r2]

/-- **`\ifx` compares as TeX does (NF-prog 4).**  For two operands that TeX classifies as two character tokens or as two
    macros without parameters and with plain-text replacement texts (`ifxKind`), the values the code's `XTok` reader
    computes compare equal (`ifValEq`: tokens by category and character, fragments child by child AND by length) exactly
    when TeX says the two tokens agree. -/
theorem ifx_compare_is_tex (fx : Bool) (env : Env) (tbl : Table) (hg : Good fx env tbl) (t1 t2 : Tok) (k1 k2 : IfxKind) (b : Bool)
    (h1 : ifxKind tbl t1 = some k1) (h2 : ifxKind tbl t2 = some k2) (hb : ifxAgree k1 k2 = some b) :
    ∃ v1 v2, xtokOfTok env t1 = .ok v1 ∧ xtokOfTok env t2 = .ok v2 ∧ ifValEq v1 v2 = b := by
  cases k1 with
  | char a c =>
    cases k2 with
    | char a' c' =>
      simp only [ifxAgree, Option.some.injEq] at hb
      refine ⟨_, _, xtok_of_char env tbl t1 a c h1, xtok_of_char env tbl t2 a' c' h2, ?_⟩
      subst hb
      by_cases ha : a = a'
      · by_cases hc : c = c'
        · subst ha; subst hc; simp [ifValEq]
        · simp [ifValEq, ha, hc]
      · simp [ifValEq, ha]
    | mac y => simp [ifxAgree] at hb
  | mac x =>
    cases k2 with
    | char a' c' => simp [ifxAgree] at hb
    | mac y =>
      simp only [ifxAgree, Option.some.injEq] at hb
      refine ⟨_, _, xtok_of_mac fx env tbl hg t1 x h1, xtok_of_mac fx env tbl hg t2 y h2, ?_⟩
      rw [ifValEq_ifValOf]
      subst hb
      obtain ⟨_, _, _, _, _, _, hx⟩ := ifxKind_mac tbl t1 x h1
      obtain ⟨_, _, _, _, _, _, hy⟩ := ifxKind_mac tbl t2 y h2
      by_cases hxy : x = y
      · subst hxy; simp
      · have : x.map itemTok ≠ y.map itemTok := fun e => hxy (itemTok_inj x y hx hy e)
        simp [hxy, this]

/-! ### branch selection: `processIfContent` against TeX's skipping -/

/-- the name-based classification of the code agrees with TeX's meaning-based one on this token -/
def condAgree (tbl : Table) (t : Tok) : Bool :=
  match nameKind t, texCondKind tbl t with
  | .opens, .opens => true
  | .closes, .closes => true
  | .alt, .alt => true
  | .other, .other => true
  | _, _ => false

theorem nameStartsIf_eq (n : Name) : nameStartsIf n = startsWithIf n := by
  unfold nameStartsIf startsWithIf; split <;> simp_all

theorem condAgree_of_ok (tbl : Table) (t : Tok) (h : condNamesOk tbl t = true) : condAgree tbl t = true := by
  have hk : texCondKind tbl t = .other ∨ ∃ n, t = .cs n := by
    cases t with
    | cs n => exact Or.inr ⟨n, rfl⟩
    | ch a b => exact Or.inl rfl
    | el n => exact Or.inl rfl
  cases t with
  | ch a b =>
    -- a character: no name on the Spec side; `bgroup`/`egroup` on the model side, never conditional
    have : nameKind (.ch a b) = .other := by
      unfold nameKind anyMacroName
      split <;> simp_all [startsWithIf]
    simp [condAgree, this, texCondKind]
  | cs n =>
    simp only [condNamesOk, condName, nameStartsIf_eq] at h
    unfold condAgree nameKind
    simp only [anyMacroName]
    by_cases h1 : n = [110, 101, 119, 105, 102] ∨ n = [111, 114]
    · simp [h1] at h
    · simp only [h1, if_false] at h
      simp only [not_or] at h1
      by_cases h2 : startsWithIf n = true
      · simp only [h2, if_true, beq_iff_eq] at h; simp [h1.1, h2, h]
      · simp only [h2, Bool.false_eq_true, if_false] at h
        by_cases h3 : n = [102, 105]
        · simp only [h3, if_true, beq_iff_eq] at h; subst h3; simp [startsWithIf, h]
        · simp only [h3, if_false] at h
          by_cases h4 : n = [101, 108, 115, 101]
          · simp only [h4, if_true, beq_iff_eq] at h; subst h4; simp [startsWithIf, h]
          · simp only [h4, if_false, beq_iff_eq] at h
            simp [h1.1, h1.2, h2, h3, h4, h]
  | el n =>
    simp only [condNamesOk, condName, nameStartsIf_eq, texCondKind] at h
    unfold condAgree nameKind
    simp only [anyMacroName, texCondKind]
    by_cases h1 : n = [110, 101, 119, 105, 102] ∨ n = [111, 114]
    · simp [h1] at h
    · simp only [h1, if_false] at h
      simp only [not_or] at h1
      by_cases h2 : startsWithIf n = true
      · simp [h2] at h
      · simp only [h2, Bool.false_eq_true, if_false] at h
        by_cases h3 : n = [102, 105]
        · simp [h3] at h
        · simp only [h3, if_false] at h
          by_cases h4 : n = [101, 108, 115, 101]
          · simp [h4] at h
          · simp [h1.1, h1.2, h2, h3, h4]

theorem ifScan_nil (nest : Nat) (cur : List Tok) (done : List (List Tok)) :
    ifScan nest cur done [] = ((cur.reverse :: done).reverse, []) := by simp [ifScan]

/-- one step of the scan on a token that is not `\newif` -/
theorem ifScan_step (nest : Nat) (cur : List Tok) (done : List (List Tok)) (t : Tok) (L : List Tok)
    (h : nameKind t ≠ .newif) :
    ifScan nest cur done (t :: L) =
      match nameKind t with
      | .newif => ([], [])
      | .opens => ifScan (nest + 1) (t :: cur) done L
      | .closes => if nest = 0 then ((cur.reverse :: done).reverse, L) else ifScan (nest - 1) (t :: cur) done L
      | .alt => if nest = 0 then ifScan 0 [] (cur.reverse :: done) L else ifScan nest (t :: cur) done L
      | .other => ifScan nest (t :: cur) done L := by
  cases L with
  | nil =>
    cases hk : nameKind t <;> simp [ifScan, hk] at h ⊢
    all_goals (try split) <;> simp [ifScan]
  | cons u us =>
    cases hk : nameKind t <;> simp [ifScan, hk] at h ⊢

/-- the accumulators of the two scans describe the same state -/
def AccRel (seenElse : Bool) (tb fb cur : List Tok) (done : List (List Tok)) : Prop :=
  (seenElse = false ∧ done = [] ∧ cur.reverse = tb ∧ fb = []) ∨ (seenElse = true ∧ done = [tb] ∧ cur.reverse = fb)

theorem branches_sim (tbl : Table) : ∀ (r : List Tok) (nest : Nat) (seenElse : Bool) (tb fb cur : List Tok)
    (done : List (List Tok)) (tb' fb' after : List Tok),
    AccRel seenElse tb fb cur done →
    texBranches tbl nest seenElse tb fb r = some (tb', fb', after) →
    ∃ cases, ifScan nest cur done r = (cases, after) ∧ ifChoose cases true = tb' ∧ ifChoose cases false = fb' := by
  intro r
  induction r with
  | nil => intro nest se tb fb cur done tb' fb' after _ h; simp [texBranches] at h
  | cons t ts ih =>
    intro nest se tb fb cur done tb' fb' after hacc h
    -- the accumulators after keeping `t`
    have hkeep : AccRel se (if se then tb else tb ++ [t]) (if se then fb ++ [t] else fb) (t :: cur) done := by
      rcases hacc with ⟨rfl, hd, hc, hf⟩ | ⟨rfl, hd, hc⟩
      · left; simp [hd, hc, hf]
      · right; simp [hd, hc]
    unfold texBranches at h
    simp only at h
    have hok : condNamesOk tbl t = true := by
      cases hc : condNamesOk tbl t with
      | true => rfl
      | false => simp [hc] at h
    simp only [hok, Bool.not_true, Bool.false_eq_true, if_false] at h
    have ht := condAgree_of_ok tbl t hok
    unfold condAgree at ht
    cases hk : texCondKind tbl t <;> cases hn : nameKind t <;> simp [hk, hn] at ht
    all_goals simp only [hk] at h
    · -- opens
      rw [ifScan_step nest cur done t ts (by rw [hn]; decide), hn]
      exact ih (nest + 1) se _ _ (t :: cur) done tb' fb' after hkeep h
    · -- closes
      rw [ifScan_step nest cur done t ts (by rw [hn]; decide), hn]
      cases nest with
      | zero =>
        simp only at h
        simp only [Option.some.injEq, Prod.mk.injEq] at h
        obtain ⟨rfl, rfl, rfl⟩ := h
        refine ⟨(cur.reverse :: done).reverse, by simp, ?_, ?_⟩
        · rcases hacc with ⟨_, hd, hc, _⟩ | ⟨_, hd, hc⟩
          · simp [ifChoose, hd, hc]
          · simp [ifChoose, hd]
        · rcases hacc with ⟨_, hd, hc, hf⟩ | ⟨_, hd, hc⟩
          · simp [ifChoose, hd, hf]
          · simp [ifChoose, hd, hc]
      | succ k =>
        simp only at h
        simp only [Nat.add_one_ne_zero, if_false, Nat.add_sub_cancel]
        exact ih k se _ _ (t :: cur) done tb' fb' after hkeep h
    · -- alt
      rw [ifScan_step nest cur done t ts (by rw [hn]; decide), hn]
      cases nest with
      | zero =>
        simp only at h
        cases se with
        | true => simp at h
        | false =>
          simp only [Bool.false_eq_true, if_false] at h
          simp only [if_true]
          rcases hacc with ⟨_, hd, hc, hf⟩ | ⟨hse, _, _⟩
          · exact ih 0 true tb fb [] (cur.reverse :: done) tb' fb' after
              (Or.inr ⟨rfl, by simp [hd, hc], by simp [hf]⟩) h
          · cases hse
      | succ k =>
        simp only at h
        simp only [Nat.add_one_ne_zero, if_false]
        exact ih (k + 1) se _ _ (t :: cur) done tb' fb' after hkeep h
    · -- other
      rw [ifScan_step nest cur done t ts (by rw [hn]; decide), hn]
      exact ih nest se _ _ (t :: cur) done tb' fb' after hkeep h

/-- **branch selection**: wherever TeX's skipping is defined inside NF-prog 6 (`texBranches`, which checks name against meaning
    token by token), `processIfContent` selects TeX's branches and stops where TeX stops -/
theorem ifScan_is_texBranches (tbl : Table) (r tb fb after : List Tok)
    (h : texBranches tbl 0 false [] [] r = some (tb, fb, after)) (b : Bool) :
    ifChoose (ifScan 0 [] [] r).1 b ++ (ifScan 0 [] [] r).2 = (if b then tb else fb) ++ after := by
  obtain ⟨cases, hs, h1, h2⟩ := branches_sim tbl r 0 false [] [] [] [] tb fb after (Or.inl ⟨rfl, rfl, rfl, rfl⟩) h
  rw [hs]
  cases b <;> simp [h1, h2]

theorem readXTok_of_kind (fx : Bool) (env : Env) (tbl : Table) (hg : Good fx env tbl) (t : Tok) (k : IfxKind)
    (rest : List Tok) (h : ifxKind tbl t = some k) :
    ∃ v, xtokOfTok env t = .ok v ∧ readXTok env (t :: rest) = .ok (v, rest) := by
  have hv : ∃ v, xtokOfTok env t = .ok v := by
    cases k with
    | char a c => exact ⟨_, xtok_of_char env tbl t a c h⟩
    | mac body => exact ⟨_, xtok_of_mac fx env tbl hg t body h⟩
  obtain ⟨v, hv⟩ := hv
  refine ⟨v, hv, ?_⟩
  have hshape : t.isSpace = false ∧ t.isBg = false := by
    cases k with
    | char a c =>
      obtain ⟨rfl, hc⟩ := ifxKind_char tbl t a c h
      rcases hc with rfl | rfl <;> exact ⟨rfl, rfl⟩
    | mac body =>
      obtain ⟨n, pt, rfl, _⟩ := ifxKind_mac tbl t body h
      exact ⟨rfl, rfl⟩
  simp [readXTok, dropSpaces, hshape.1, hshape.2, hv, Except.map]

/-- **one `\ifx` in the model = one `\ifx` of TeX (NF-prog 4 and 6)**: with operands TeX classifies as two characters or two
    plain-text macros, and a conditional text on which names and meanings agree, the loop continues exactly on the branch
    TeX selects followed by what follows the matching `\fi` -/
theorem ifx_step (fx : Bool) (G : Nat) (name nm : Name) (t1 t2 : Tok) (r tb fb after : List Tok) (env : Env) (tbl : Table)
    (hg : Good fx env tbl) (hl : lookup name env = some (.prim .ifx nm)) (k1 k2 : IfxKind) (b : Bool)
    (h1 : ifxKind tbl t1 = some k1) (h2 : ifxKind tbl t2 = some k2) (hb : ifxAgree k1 k2 = some b)
    (hbr : texBranches tbl 0 false [] [] r = some (tb, fb, after)) :
    invoke fx (G + 1) name (t1 :: t2 :: r) env = next fx G ⟨(if b then tb else fb) ++ after, env⟩ := by
  obtain ⟨v1, v2, e1, e2, heq⟩ := ifx_compare_is_tex fx env tbl hg t1 t2 k1 k2 b h1 h2 hb
  obtain ⟨w1, f1, g1⟩ := readXTok_of_kind fx env tbl hg t1 k1 (t2 :: r) h1
  obtain ⟨w2, f2, g2⟩ := readXTok_of_kind fx env tbl hg t2 k2 r h2
  have hw1 : w1 = v1 := by rw [e1] at f1; cases f1; rfl
  have hw2 : w2 = v2 := by rw [e2] at f2; cases f2; rfl
  subst hw1; subst hw2
  conv => lhs; unfold invoke
  simp only [getItem, hl, g1, g2, heq, ifScan_is_texBranches tbl r tb fb after hbr b]


/-- **simulation**: every successful run of the TeX evaluator inside `fragOk` is reproduced by the model
    (`fx = false`, the code as is, as long as `\\expandafter` is not among the known primitives: known finding D49) -/
theorem sim (fx : Bool) : ∀ (fuel : Nat) (st : TSt) (v : List Nat), texRun fragOk fuel st = .ok v →
    ∀ env, EnvRel fx env (st.cur :: st.saved) → ∃ F, run fx F ⟨st.input, env⟩ = .ok v := by
  intro fuel
  induction fuel with
  | zero => intro st v h; simp [texRun] at h
  | succ fuel ih =>
    intro st v h env hrel
    obtain ⟨input, cur, saved⟩ := st
    unfold texRun at h
    simp only at h hrel ⊢
    by_cases hbig : input.length > 4000
    · simp [hbig] at h
    simp only [hbig, if_false] at h
    have hnb := tooBig_false input hbig
    cases env with
    | nil => simp [EnvRel] at hrel
    | cons f fs =>
    have hgood : Good fx (f :: fs) cur := hrel.1
    cases input with
    | nil =>
      simp at h; subst h
      exact ⟨2, by simp [run, next, tooBig]⟩
    | cons t rest =>
      cases t with
      | el n => simp at h
      | ch cat c =>
        simp only at h
        by_cases h1112 : cat = 11 ∨ cat = 12
        · simp only [h1112, if_true] at h
          cases hr : texRun fragOk fuel ⟨rest, cur, saved⟩ with
          | error e => simp [hr, Except.map] at h
          | ok v' =>
            simp [hr, Except.map] at h; subst h
            obtain ⟨F, hF⟩ := ih ⟨rest, cur, saved⟩ v' hr (f :: fs) hrel
            refine ⟨F + 2, ?_⟩
            rw [run_step_yield fx F _ rest _ (macroNameOf_char' cat c (by omega) (by omega)) hnb,
              run_mono fx F 1 _ _ hF]
            rcases h1112 with rfl | rfl <;> rfl
        · simp only [h1112, if_false] at h
          by_cases h10 : cat = 10
          · simp only [h10, if_true] at h
            obtain ⟨F, hF⟩ := ih ⟨rest, cur, saved⟩ v h (f :: fs) hrel
            refine ⟨F + 2, ?_⟩
            subst h10
            rw [run_step_yield fx F _ rest _ rfl hnb, run_mono fx F 1 _ _ hF]; rfl
          · simp only [h10, if_false] at h
            by_cases hc1 : cat = 1
            · simp only [hc1, if_true] at h
              subst hc1
              obtain ⟨F, hF⟩ := ih ⟨rest, cur, cur :: saved⟩ v h (push (f :: fs)) (envRel_push fx _ _ _ hrel)
              refine ⟨F + 3, ?_⟩
              rw [run_step_el fx F (.ch 1 c) bgroupN bgroupN rest (f :: fs) ⟨rest, push (f :: fs)⟩ rfl hnb
                (invoke_bgroup fx F _ _ rest _ hgood.bg)]
              exact run_mono fx F 2 _ _ hF
            · simp only [hc1, if_false] at h
              by_cases hc2 : cat = 2
              · simp only [hc2, if_true] at h
                subst hc2
                cases saved with
                | nil => simp at h
                | cons tb sv =>
                  simp only at h
                  obtain ⟨F, hF⟩ := ih ⟨rest, tb, sv⟩ v h (pop (f :: fs)) (envRel_pop fx _ _ _ _ hrel)
                  refine ⟨F + 3, ?_⟩
                  rw [run_step_el fx F (.ch 2 c) egroupN egroupN rest (f :: fs) ⟨rest, pop (f :: fs)⟩ rfl hnb
                    (invoke_egroup fx F _ _ rest _ hgood.eg)]
                  exact run_mono fx F 2 _ _ hF
              · simp [hc2] at h
      | cs n =>
        simp only at h
        have hmn : macroNameOf (.cs n) = some n := rfl
        cases hl : List.lookup n cur with
        | none => simp [hl] at h
        | some m =>
          have hnr := good_defined hgood n m hl
          have hrn := hgood.rel n hnr
          rw [hl] at hrn
          -- everything expandable: one step of TeX's `expand`, then the induction hypothesis
          have expandable : ∀ inp, texExpand fuel cur n rest = .ok (some inp) →
              texRun fragOk fuel ⟨inp, cur, saved⟩ = .ok v → ∃ F, run fx F ⟨.cs n :: rest, f :: fs⟩ = .ok v := by
            intro inp he hr
            obtain ⟨F, hF⟩ := ih ⟨inp, cur, saved⟩ v hr (f :: fs) hrel
            exact run_transfer fx ⟨.cs n :: rest, f :: fs⟩ ⟨inp, f :: fs⟩
              ((expand_sim fx (f :: fs) cur hgood fuel).1 n rest inp he hnb) F v hF
          have viaExpand : (match texExpand fuel cur n rest with
                | .error e => (.error e : Except TErr (List Nat))
                | .ok none => .error (.outside "unexpected unexpandable")
                | .ok (some inp) => texRun fragOk fuel ⟨inp, cur, saved⟩) = .ok v →
              ∃ F, run fx F ⟨.cs n :: rest, f :: fs⟩ = .ok v := by
            intro h
            cases he : texExpand fuel cur n rest with
            | error e => simp [he] at h
            | ok r =>
              cases r with
              | none => simp [he] at h
              | some inp => simp only [he] at h; exact expandable inp he h
          cases m with
          | latex k o b => simp only [hl] at h; exact viaExpand h
          | «macro» pt items => simp only [hl] at h; exact viaExpand h
          | prim q =>
            obtain ⟨p, nmP, hlm, hpr, _⟩ := mrel_prim hrn
            simp only [hl] at h
            cases q <;> cases p <;> simp [primRel] at hpr
            case csname.csname => exact viaExpand h
            case expandafter.expandafter => exact viaExpand h
            case endcsname.endcsname => simp at h
            case else_.inert => simp at h
            case fi.inert => simp at h
            case ifx.ifx =>
              simp only at h
              cases rest with
              | nil => simp at h
              | cons t1 rest1 =>
                cases rest1 with
                | nil => simp at h
                | cons t2 r =>
                  simp only at h
                  cases hk1 : ifxKind cur t1 with
                  | none => simp [hk1] at h
                  | some k1 =>
                    cases hk2 : ifxKind cur t2 with
                    | none => simp [hk1, hk2] at h
                    | some k2 =>
                      simp only [hk1, hk2] at h
                      cases hag : ifxAgree k1 k2 with
                      | none => simp [hag] at h
                      | some b =>
                        cases hbr : texBranches cur 0 false [] [] r with
                        | none => simp [hag, hbr] at h
                        | some res =>
                          obtain ⟨tb, fb, after⟩ := res
                          simp only [hag, hbr] at h
                          obtain ⟨F, hF⟩ := ih ⟨(if b then tb else fb) ++ after, cur, saved⟩ v h (f :: fs) hrel
                          refine run_transfer fx ⟨.cs n :: t1 :: t2 :: r, f :: fs⟩ ⟨(if b then tb else fb) ++ after, f :: fs⟩
                            (fun G x hx => ⟨G + 2, ?_⟩) F v hF
                          conv => lhs; unfold next
                          simp only [hnb, hmn]
                          rw [ifx_step fx G n nmP t1 t2 r tb fb after (f :: fs) cur hgood hlm k1 k2 b hk1 hk2 hag hbr]
                          exact hx
            case def_.def_ =>
              simp only at h
              cases hd : texReadDef rest with
              | error e => simp [hd] at h
              | ok r =>
                obtain ⟨nm, m, rest'⟩ := r
                simp only [hd] at h
                by_cases hpb : primBound cur nm = true
                · simp [hpb] at h
                simp only [hpb, Bool.false_eq_true, if_false] at h
                by_cases hok : fragOk nm m = true
                · simp only [hok, if_true] at h
                  obtain ⟨pt, items, rfl, hparts, h9, hpre, hdel, hb⟩ := readDefParts_of_texReadDef rest nm m rest' hd
                  have hk := fragOk_names _ _ hok
                  have hm : MRel (some (.defn (renderPText pt) (some (renderBody items)))) (some (.macro pt items)) :=
                    ⟨rfl, rfl, wf_of_frag nm pt items h9 hpre hdel hb hok⟩
                  obtain ⟨F, hF⟩ := ih (assignLocal nm (.macro pt items) ⟨rest', cur, saved⟩) v h
                    (setLocal nm (.defn (renderPText pt) (some (renderBody items))) (f :: fs))
                    (envRel_local fx _ _ _ _ _ _ hrel hk hm (fun _ e => by cases e))
                  refine ⟨F + 3, ?_⟩
                  rw [run_step_el fx F (.cs n) n nmP rest (f :: fs) _ hmn hnb (invoke_def fx F n nmP rest _ _ hlm hparts)]
                  exact run_mono fx F 2 _ _ hF
                · simp [hok] at h
            case gdef.gdef =>
              simp only at h
              cases hd : texReadDef rest with
              | error e => simp [hd] at h
              | ok r =>
                obtain ⟨nm, m, rest'⟩ := r
                simp only [hd] at h
                by_cases hpb : primBound cur nm = true
                · simp [hpb] at h
                simp only [hpb, Bool.false_eq_true, if_false] at h
                by_cases hok : fragOk nm m = true
                · simp only [hok, if_true] at h
                  obtain ⟨pt, items, rfl, hparts, h9, hpre, hdel, hb⟩ := readDefParts_of_texReadDef rest nm m rest' hd
                  have hk := fragOk_names _ _ hok
                  have hm : MRel (some (.defn (renderPText pt) (some (renderBody items)))) (some (.macro pt items)) :=
                    ⟨rfl, rfl, wf_of_frag nm pt items h9 hpre hdel hb hok⟩
                  obtain ⟨F, hF⟩ := ih (assignGlobal nm (.macro pt items) ⟨rest', cur, saved⟩) v h
                    (setGlobal nm (.defn (renderPText pt) (some (renderBody items))) (dropLocals nm (f :: fs)))
                    (envRel_global fx nm _ _ hk hm (fun _ e => by cases e) fs f (cur :: saved) hrel)
                  refine ⟨F + 3, ?_⟩
                  rw [run_step_el fx F (.cs n) n nmP rest (f :: fs) _ hmn hnb (invoke_gdef fx F n nmP rest _ _ hlm hparts)]
                  exact run_mono fx F 2 _ _ hF
                · simp [hok] at h
            case let_.let_ =>
              simp only at h
              cases hd : texReadLet rest with
              | none => simp [hd] at h
              | some r =>
                obtain ⟨nm, tsrc, rest'⟩ := r
                cases tsrc with
                | ch a b => simp [hd] at h
                | el a => simp [hd] at h
                | cs src =>
                  simp only [hd] at h
                  cases hls : List.lookup src cur with
                  | none => simp [hls] at h
                  | some m' =>
                    simp only [hls] at h
                    by_cases hpb : primBound cur nm = true
                    · simp [hpb] at h
                    simp only [hpb, Bool.false_eq_true, if_false] at h
                    by_cases hok : fragOk nm m' = true
                    · simp only [hok, if_true] at h
                      have hsr := good_defined hgood src m' hls
                      have hk := fragOk_names _ _ hok
                      have hrs := hgood.rel src hsr
                      rw [hls] at hrs
                      obtain ⟨M, hM⟩ := mrel_some hrs
                      rw [hM] at hrs
                      have s3 : src ≠ eqN := fun e => hsr (e ▸ (by decide : eqN ∈ reservedNames))
                      obtain ⟨r0, hp1, hp2⟩ := let_parts rest nm src rest' hd s3
                      obtain ⟨F, hF⟩ := ih (assignLocal nm m' ⟨rest', cur, saved⟩) v h
                        (setLocal nm M (f :: fs)) (envRel_local fx _ _ _ _ _ _ hrel hk hrs (notEa_of_good hgood src m' hls))
                      refine ⟨F + 3, ?_⟩
                      rw [run_step_el fx F (.cs n) n nmP rest (f :: fs) _ hmn hnb
                        (invoke_let fx F n nmP nm src rest r0 rest' _ hlm hp1 hp2), letCs_of_lookup nm src M _ hM]
                      exact run_mono fx F 2 _ _ hF
                    · simp [hok] at h
            case relax.relax =>
              simp only at h
              obtain ⟨F, hF⟩ := ih ⟨rest, cur, saved⟩ v h (f :: fs) hrel
              refine ⟨F + 3, ?_⟩
              rw [run_step_el fx F (.cs n) n nmP rest (f :: fs) _ hmn hnb (invoke_relax fx F n nmP rest _ hlm)]
              exact run_mono fx F 2 _ _ hF
            case begingroup.bgroup =>
              simp only at h
              obtain ⟨F, hF⟩ := ih ⟨rest, cur, cur :: saved⟩ v h (push (f :: fs)) (envRel_push fx _ _ _ hrel)
              refine ⟨F + 3, ?_⟩
              rw [run_step_el fx F (.cs n) n nmP rest (f :: fs) _ hmn hnb (invoke_bgroup fx F n nmP rest _ hlm)]
              exact run_mono fx F 2 _ _ hF
            case endgroup.egroup =>
              simp only at h
              cases saved with
              | nil => simp at h
              | cons tb sv =>
                simp only at h
                obtain ⟨F, hF⟩ := ih ⟨rest, tb, sv⟩ v h (pop (f :: fs)) (envRel_pop fx _ _ _ _ hrel)
                refine ⟨F + 3, ?_⟩
                rw [run_step_el fx F (.cs n) n nmP rest (f :: fs) _ hmn hnb (invoke_egroup fx F n nmP rest _ hlm)]
                exact run_mono fx F 2 _ _ hF
            case newcommand.newcommand =>
              simp only at h
              cases hd : texReadNewcommand rest with
              | error e => simp [hd] at h
              | ok r =>
                obtain ⟨nm, m, rest'⟩ := r
                simp only [hd] at h
                cases hlk : List.lookup nm cur with
                | some m0 => simp [hlk] at h
                | none =>
                  simp only [hlk, Option.isSome_none, Bool.false_eq_true, if_false] at h
                  by_cases hok : fragOk nm m = true
                  · simp only [hok, if_true] at h
                    obtain ⟨k, o, items, rfl, h9, ho, hb, hinv⟩ := newcommand_parts rest nm m rest' hd
                    have hk := fragOk_names _ _ hok
                    have hnone : lookup nm (f :: fs) = none := by
                      have := hgood.rel nm hk; rw [hlk] at this; exact mrel_none this
                    have hm : MRel (some (.newcmd k o (some (renderBody items)))) (some (.latex k o items)) :=
                      ⟨rfl, rfl, rfl, wf_latex_of_frag nm k o items hb hok, ho⟩
                    obtain ⟨F, hF⟩ := ih (assignLocal nm (.latex k o items) ⟨rest', cur, saved⟩) v h
                      (setLocal nm (.newcmd k o (some (renderBody items))) (f :: fs))
                      (envRel_local fx _ _ _ _ _ _ hrel hk hm (fun _ e => by cases e))
                    refine ⟨F + 3, ?_⟩
                    rw [run_step_el fx F (.cs n) n nmP rest (f :: fs) _ hmn hnb (hinv fx F n nmP _ hlm),
                      newcommand_fresh nm k o _ _ hnone]
                    exact run_mono fx F 2 _ _ hF
                  · simp [hok] at h
            case renewcommand.newcommand =>
              simp only at h
              cases hd : texReadNewcommand rest with
              | error e => simp [hd] at h
              | ok r =>
                obtain ⟨nm, m, rest'⟩ := r
                simp only [hd] at h
                cases hlk : List.lookup nm cur with
                | none => simp [hlk] at h
                | some m0 =>
                  simp only [hlk, Option.isNone_some, Bool.false_eq_true, if_false] at h
                  by_cases hpb : primBound cur nm = true
                  · simp [hpb] at h
                  simp only [hpb, Bool.false_eq_true, if_false] at h
                  by_cases hok : fragOk nm m = true
                  · simp only [hok, if_true] at h
                    obtain ⟨k, o, items, rfl, h9, ho, hb, hinv⟩ := newcommand_parts rest nm m rest' hd
                    have hk := fragOk_names _ _ hok
                    have hm : MRel (some (.newcmd k o (some (renderBody items)))) (some (.latex k o items)) :=
                      ⟨rfl, rfl, rfl, wf_latex_of_frag nm k o items hb hok, ho⟩
                    have hrn0 := hgood.rel nm hk
                    rw [hlk] at hrn0
                    have hset : newcommand nm k o (some (renderBody items)) (f :: fs)
                        = setLocal nm (.newcmd k o (some (renderBody items))) (f :: fs) := by
                      cases m0 with
                      | «macro» pt0 it0 => exact newcommand_over_defn _ _ _ _ _ _ _ (mrel_macro hrn0).1
                      | latex k0 o0 it0 => exact newcommand_over_newcmd _ _ _ _ _ _ _ _ (mrel_latex hrn0).1
                      | prim q0 => simp [primBound, hlk] at hpb
                    obtain ⟨F, hF⟩ := ih (assignLocal nm (.latex k o items) ⟨rest', cur, saved⟩) v h
                      (setLocal nm (.newcmd k o (some (renderBody items))) (f :: fs))
                      (envRel_local fx _ _ _ _ _ _ hrel hk hm (fun _ e => by cases e))
                    refine ⟨F + 3, ?_⟩
                    rw [run_step_el fx F (.cs n) n nmP rest (f :: fs) _ hmn hnb (hinv fx F n nmP _ hlm), hset]
                    exact run_mono fx F 2 _ _ hF
                  · simp [hok] at h

/-! ### the initial tables -/

theorem lookup_single (n : Name) (f : Frame) : lookup n [f] = f.lookup n := by
  simp only [lookup]; cases f.lookup n <;> rfl

theorem lookup_none_of_not_mem {β : Type} (n : Name) : ∀ (l : List (Name × β)), n ∉ l.map Prod.fst → l.lookup n = none := by
  intro l
  induction l with
  | nil => intro _; rfl
  | cons x xs ih =>
    intro h
    simp only [List.map_cons, List.mem_cons, not_or] at h
    have hb : (n == x.1) = false := by simp [h.1]
    simp only [List.lookup, hb]; exact ih h.2

theorem lookup_mem_snd {β : Type} (n : Name) (v : β) : ∀ (l : List (Name × β)), l.lookup n = some v → v ∈ l.map Prod.snd := by
  intro l
  induction l with
  | nil => intro h; simp [List.lookup] at h
  | cons x xs ih =>
    intro h
    by_cases hb : n = x.1
    · subst hb; simp [List.lookup] at h; simp [h]
    · have : (n == x.1) = false := by simp [hb]
      simp only [List.lookup, this] at h
      simp [ih h]

/-- decidable form of `MRel` for primitives and undefined names -/
def mrelPrimB : Option Meaning → Option TMeaning → Bool
  | none, none => true
  | some (.prim p n), some (.prim q) => primRel p q && (p != .endcsname || n == endcsnameName)
  | _, _ => false

theorem mrel_of_mrelPrimB {a : Option Meaning} {b : Option TMeaning} (h : mrelPrimB a b = true) : MRel a b := by
  match a, b, h with
  | none, none, _ => trivial
  | some (.prim p n), some (.prim q), h =>
    simp only [mrelPrimB, Bool.and_eq_true, Bool.or_eq_true, bne_iff_ne, ne_eq, beq_iff_eq] at h
    exact ⟨h.1, fun hp => by rcases h.2 with h2 | h2; exact absurd hp h2; exact h2⟩

/-- a frame of primitives against a table of primitives -/
theorem good_of_tables (fx : Bool) (fr : Frame) (tb : Table)
    (hkeys : ∀ x ∈ tb.map Prod.fst, mrelPrimB (fr.lookup x) (tb.lookup x) = true)
    (hextra : ∀ x ∈ fr.map Prod.fst, x ∈ tb.map Prod.fst ∨ x ∈ reservedNames)
    (hbg : fr.lookup bgroupN = some (.prim .bgroup bgroupN)) (heg : fr.lookup egroupN = some (.prim .egroup egroupN))
    (hres : ∀ n ∈ reservedNames, tb.lookup n = none)
    (hea : fx = false → ∀ v ∈ tb.map Prod.snd, v ≠ .prim .expandafter) :
    Good fx [fr] tb := by
  refine ⟨?_, ?_, ?_, hres, ?_⟩
  · intro n hn
    rw [lookup_single]
    by_cases hm : n ∈ tb.map Prod.fst
    · exact mrel_of_mrelPrimB (hkeys n hm)
    · have h1 : tb.lookup n = none := lookup_none_of_not_mem n tb hm
      have h2 : fr.lookup n = none := by
        apply lookup_none_of_not_mem
        intro hf
        rcases hextra n hf with h | h
        · exact hm h
        · exact hn h
      rw [h1, h2]; trivial
  · rw [lookup_single]; exact hbg
  · rw [lookup_single]; exact heg
  · intro hf n hl
    exact hea hf _ (lookup_mem_snd n _ tb hl) rfl

/-- (name, model primitive, TeX primitive) of the fragment {definitions, calls, groups, `\let`, `\relax`} -/
def fragPairs : List (Name × Prim × TPrim) :=
  [ (nm "def", .def_, .def_), (nm "gdef", .gdef, .gdef), (nm "let", .let_, .let_), (nm "relax", .relax, .relax),
    (nm "begingroup", .bgroup, .begingroup), (nm "endgroup", .egroup, .endgroup) ]

def envOf (l : List (Name × Prim × TPrim)) : Frame := l.map fun x => (x.1, Meaning.prim x.2.1 x.1)
def tblOf (l : List (Name × Prim × TPrim)) : Table := l.map fun x => (x.1, TMeaning.prim x.2.2)

/-- the `bgroup`/`egroup` classes behind the brace characters -/
def braceFrame : Frame := [(bgroupN, .prim .bgroup bgroupN), (egroupN, .prim .egroup egroupN)]

/-- TeX side: only the primitives of the fragment are known -/
def fragTable : Table := tblOf fragPairs
/-- model side: the same primitives (plus the classes the brace characters resolve to) in the global frame -/
def fragEnv : Env := [envOf fragPairs ++ braceFrame]

theorem envRel_frag (fx : Bool) : EnvRel fx fragEnv [fragTable] :=
  ⟨good_of_tables fx _ fragTable (by decide) (by decide) (by decide) (by decide) (by decide) (fun _ => by decide), trivial⟩

/-- the whole macro language with `\ifx`: the model's initial frame against the Spec's table `condTable` (repaired variant of D49) -/
theorem envRel_language : EnvRel true initEnv [condTable] :=
  ⟨good_of_tables true prims condTable (by decide) (by decide) (by decide) (by decide) (by decide) (fun h => by cases h), trivial⟩

/-- everything but `\expandafter`: (name, model primitive, TeX primitive) -/
def noEAPairs : List (Name × Prim × TPrim) :=
  fragPairs ++ [ (nm "newcommand", .newcommand, .newcommand), (nm "renewcommand", .newcommand, .renewcommand),
    (nm "csname", .csname, .csname), (nm "endcsname", .endcsname, .endcsname) ]

/-- TeX side: all primitives of the macro language except `\expandafter` -/
def noEATable : Table := tblOf noEAPairs
/-- model side: the corresponding classes -/
def noEAEnv : Env := [envOf noEAPairs ++ braceFrame]

theorem envRel_noEA (fx : Bool) : EnvRel fx noEAEnv [noEATable] :=
  ⟨good_of_tables fx _ noEATable (by decide) (by decide) (by decide) (by decide) (by decide) (fun _ => by decide), trivial⟩

/-- fragment {`\\def`, `\\gdef`, calls, groups, `\\let`, `\\relax`}: both variants of D49 -/
theorem run_of_texRun_frag (fx : Bool) (fuel : Nat) (p : List Tok) (v : List Nat)
    (h : texRun fragOk fuel ⟨p, fragTable, []⟩ = .ok v) : ∃ F, run fx F ⟨p, fragEnv⟩ = .ok v :=
  sim fx fuel ⟨p, fragTable, []⟩ v h fragEnv (envRel_frag fx)

/-- everything but `\\expandafter`: both variants of D49 -/
theorem run_of_texRun_noEA (fx : Bool) (fuel : Nat) (p : List Tok) (v : List Nat)
    (h : texRun fragOk fuel ⟨p, noEATable, []⟩ = .ok v) : ∃ F, run fx F ⟨p, noEAEnv⟩ = .ok v :=
  sim fx fuel ⟨p, noEATable, []⟩ v h noEAEnv (envRel_noEA fx)

/-- the whole macro language from the model's own initial frame: repaired variant of D49 -/
theorem run_of_texRun_language (fuel : Nat) (p : List Tok) (v : List Nat)
    (h : texRun fragOk fuel ⟨p, condTable, []⟩ = .ok v) : ∃ F, run true F ⟨p, initEnv⟩ = .ok v :=
  sim true fuel ⟨p, condTable, []⟩ v h initEnv envRel_language

/-! ### a run under a stricter filter is a run under a weaker one -/

theorem texRun_weaken (ok1 ok2 : Name → TMeaning → Bool) (hok : ∀ n m, ok1 n m = true → ok2 n m = true) :
    ∀ (fuel : Nat) (st : TSt) (v : List Nat), texRun ok1 fuel st = .ok v → texRun ok2 fuel st = .ok v := by
  intro fuel
  induction fuel with
  | zero => intro st v h; simp [texRun] at h
  | succ fuel ih =>
    intro st v h
    obtain ⟨input, cur, saved⟩ := st
    unfold texRun at h ⊢
    simp only at h ⊢
    by_cases hbig : input.length > 4000
    · simp [hbig] at h
    simp only [hbig, if_false] at h ⊢
    cases input with
    | nil => exact h
    | cons t rest =>
      cases t with
      | el n => simp at h
      | ch cat c =>
        simp only at h ⊢
        by_cases h1 : cat = 11 ∨ cat = 12
        · simp only [h1, if_true] at h ⊢
          cases hr : texRun ok1 fuel ⟨rest, cur, saved⟩ with
          | error e => simp [hr, Except.map] at h
          | ok w => rw [ih _ _ hr]; simpa [hr] using h
        · simp only [h1, if_false] at h ⊢
          by_cases h2 : cat = 10
          · simp only [h2, if_true] at h ⊢; exact ih _ _ h
          · simp only [h2, if_false] at h ⊢
            by_cases h3 : cat = 1
            · simp only [h3, if_true] at h ⊢; exact ih _ _ h
            · simp only [h3, if_false] at h ⊢
              by_cases h4 : cat = 2
              · simp only [h4, if_true] at h ⊢
                cases saved with
                | nil => simp at h
                | cons a b => exact ih _ _ h
              · simp [h4] at h
      | cs n =>
        simp only at h ⊢
        cases hl : List.lookup n cur with
        | none => simp [hl] at h
        | some m =>
          simp only [hl] at h ⊢
          have viaExpand : ∀ {X : Except TErr (Option (List Tok))},
              (match X with
                | .error e => (.error e : Except TErr (List Nat))
                | .ok none => .error (.outside "unexpected unexpandable")
                | .ok (some inp) => texRun ok1 fuel ⟨inp, cur, saved⟩) = .ok v →
              (match X with
                | .error e => (.error e : Except TErr (List Nat))
                | .ok none => .error (.outside "unexpected unexpandable")
                | .ok (some inp) => texRun ok2 fuel ⟨inp, cur, saved⟩) = .ok v := by
            intro X hX
            match X, hX with
            | .ok (some inp), hX => exact ih _ _ hX
          cases m with
          | latex k o b => exact viaExpand h
          | «macro» pt items => exact viaExpand h
          | prim q =>
            cases q
            case csname => exact viaExpand h
            case expandafter => exact viaExpand h
            case endcsname => simp at h
            case else_ => simp at h
            case fi => simp at h
            case ifx =>
              simp only at h ⊢
              match rest, h with
              | [], h => simp at h
              | [_], h => simp at h
              | t1 :: t2 :: r, h =>
                simp only at h ⊢
                cases hk1 : ifxKind cur t1 with
                | none => simp [hk1] at h
                | some k1 =>
                  cases hk2 : ifxKind cur t2 with
                  | none => simp [hk1, hk2] at h
                  | some k2 =>
                    simp only [hk1, hk2] at h ⊢
                    cases hag : ifxAgree k1 k2 with
                    | none => simp [hag] at h
                    | some b =>
                      cases hbr : texBranches cur 0 false [] [] r with
                      | none => simp [hag, hbr] at h
                      | some res =>
                        obtain ⟨tb, fb, after⟩ := res
                        simp only [hag, hbr] at h ⊢
                        exact ih _ _ h
            case relax => exact ih _ _ h
            case begingroup => exact ih _ _ h
            case endgroup =>
              cases saved with
              | nil => simp at h
              | cons a b => exact ih _ _ h
            case def_ =>
              simp only at h ⊢
              cases hd : texReadDef rest with
              | error e => simp [hd] at h
              | ok r =>
                obtain ⟨nm, m, rest'⟩ := r
                simp only [hd] at h ⊢
                by_cases hpb : primBound cur nm = true
                · simp [hpb] at h
                simp only [hpb, Bool.false_eq_true, if_false] at h ⊢
                by_cases hk : ok1 nm m = true
                · simp only [hk, hok nm m hk, if_true] at h ⊢; exact ih _ _ h
                · simp [hk] at h
            case gdef =>
              simp only at h ⊢
              cases hd : texReadDef rest with
              | error e => simp [hd] at h
              | ok r =>
                obtain ⟨nm, m, rest'⟩ := r
                simp only [hd] at h ⊢
                by_cases hpb : primBound cur nm = true
                · simp [hpb] at h
                simp only [hpb, Bool.false_eq_true, if_false] at h ⊢
                by_cases hk : ok1 nm m = true
                · simp only [hk, hok nm m hk, if_true] at h ⊢; exact ih _ _ h
                · simp [hk] at h
            case newcommand =>
              simp only at h ⊢
              cases hd : texReadNewcommand rest with
              | error e => simp [hd] at h
              | ok r =>
                obtain ⟨nm, m, rest'⟩ := r
                simp only [hd] at h ⊢
                by_cases hs : (List.lookup nm cur).isSome = true
                · simp [hs] at h
                simp only [hs, Bool.false_eq_true, if_false] at h ⊢
                by_cases hk : ok1 nm m = true
                · simp only [hk, hok nm m hk, if_true] at h ⊢; exact ih _ _ h
                · simp [hk] at h
            case renewcommand =>
              simp only at h ⊢
              cases hd : texReadNewcommand rest with
              | error e => simp [hd] at h
              | ok r =>
                obtain ⟨nm, m, rest'⟩ := r
                simp only [hd] at h ⊢
                by_cases hs : (List.lookup nm cur).isNone = true
                · simp [hs] at h
                simp only [hs, Bool.false_eq_true, if_false] at h ⊢
                by_cases hpb : primBound cur nm = true
                · simp [hpb] at h
                simp only [hpb, Bool.false_eq_true, if_false] at h ⊢
                by_cases hk : ok1 nm m = true
                · simp only [hk, hok nm m hk, if_true] at h ⊢; exact ih _ _ h
                · simp [hk] at h
            case let_ =>
              simp only at h ⊢
              cases hd : texReadLet rest with
              | none => simp [hd] at h
              | some r =>
                obtain ⟨nm, tsrc, rest'⟩ := r
                cases tsrc with
                | ch a b => simp [hd] at h
                | el a => simp [hd] at h
                | cs src =>
                  simp only [hd] at h ⊢
                  cases hls : List.lookup src cur with
                  | none => simp [hls] at h
                  | some m' =>
                    simp only [hls] at h ⊢
                    by_cases hpb : primBound cur nm = true
                    · simp [hpb] at h
                    simp only [hpb, Bool.false_eq_true, if_false] at h ⊢
                    by_cases hk : ok1 nm m' = true
                    · simp only [hk, hok nm m' hk, if_true] at h ⊢; exact ih _ _ h
                    · simp [hk] at h


end PlasVerif.Proofs.MacroRun
