import PlasVerif.Spec.TableTree
/-! Helper lemmas for C10 (borders, spans, column styles). -/
namespace PlasVerif.Proofs.Arrays
open PlasVerif.Model.Lists PlasVerif.Model.Arrays PlasVerif.Spec.TableTree

/-- what border application never touches -/
def core (c : CellR) : Option Nat × Option ColStyle × List Node := (c.colspan, c.own, c.items)

@[simp] theorem core_mark (c : CellR) (l : Loc) : core (c.mark l) = core c := rfl
@[simp] theorem span_mark (c : CellR) (l : Loc) : (c.mark l).span = c.span := rfl

theorem walk_eq_markRow (span : Option (Nat × Nat)) (loc : Loc) :
    ∀ (cells : List CellR) (col : Nat), walk span loc col cells = markRow span loc col cells := by
  intro cells
  induction cells with
  | nil => intro col; simp [walk, markRow, colStarts]
  | cons c cs ih =>
    intro col
    have := ih (col + c.span)
    simp only [markRow] at this
    by_cases h : inSpan span col = true <;> simp [walk, markRow, colStarts, h, this]

theorem walk_core (w : Bool) (span : Option (Nat × Nat)) (loc : Loc) :
    ∀ (cells : List CellR) (col : Nat),
      ((if w then walk span loc col cells else walkAsIs span loc col cells).map core) = cells.map core := by
  intro cells
  induction cells with
  | nil => intro col; cases w <;> simp [walk, walkAsIs]
  | cons c cs ih =>
    intro col
    cases w
    · have := ih (col + c.span); have := ih (col + 1)
      by_cases h : inSpan span col = true <;> simp_all [walkAsIs]
    · have := ih (col + c.span)
      by_cases h : inSpan span col = true <;> simp_all [walk]

theorem walk_none (loc : Loc) : ∀ (cells : List CellR) (col : Nat), walk none loc col cells = cells.map (·.mark loc) := by
  intro cells
  induction cells with
  | nil => intro col; simp [walk]
  | cons c cs ih => intro col; simp [walk, inSpan, ih]

theorem mcolOf_append_last (pre post : List Node) (d n s : Nat) (st : ColStyle)
    (hpost : mcolOf post = none) :
    mcolOf (pre ++ mkT d (.mcol n st s) :: post) = some (n, st) := by
  induction pre with
  | nil => simp [mcolOf, hpost, mkT, Node.kind, Node.tok]
  | cons p ps ih => simp [mcolOf, ih]

theorem linkRow_eq (ncols : Nat) : ∀ (cells : List CellR) (c : Nat), linkRow ncols c cells = linkSpec ncols c cells := by
  intro cells
  induction cells with
  | nil => intro c; simp [linkRow, linkSpec, colStarts]
  | cons x xs ih =>
    intro c
    have := ih (c + x.span)
    simp only [linkSpec] at this
    simp [linkRow, linkSpec, colStarts, this]

def styleCell (specs : List ColStyle) (c : CellR) : CellR :=
  specs.foldl (fun (c : CellR) s => { c with style := styleUpdate c.style (c.own.getD s) }) c

theorem styleCell_span (specs : List ColStyle) : ∀ c : CellR, (styleCell specs c).span = c.span := by
  induction specs with
  | nil => intro c; rfl
  | cons s ss ih => intro c; simp only [styleCell, List.foldl_cons] at ih ⊢; rw [ih]; rfl

theorem styleRow_eq (sp : List ColStyle) :
    ∀ (cells : List CellR) (k : Nat),
      styleRow (sp.drop k) cells =
        List.zipWith (fun (c : CellR) s => styleCell ((sp.drop s).take c.span) c) cells (colStarts k (cells.map CellR.span)) := by
  intro cells
  induction cells with
  | nil => intro k; simp [styleRow, colStarts]
  | cons c cs ih =>
    intro k
    have := ih (k + c.span)
    simp only [styleRow, List.map_cons, colStarts, List.zipWith_cons_cons, List.drop_drop, styleCell] at this ⊢
    rw [this]


/-! ### `Array.applyBorders` keeps exactly the rows that are not border-only, cells untouched -/

abbrev Walk := Option (Nat × Nat) → Loc → Nat → List CellR → List CellR

def CorePres (w : Walk) : Prop := ∀ span loc col cells, (w span loc col cells).map core = cells.map core

theorem walk_corePres : CorePres walk := fun span loc col cells => by
  simpa using walk_core true span loc cells col

theorem set_same {α β} (g : α → β) : ∀ (l : List α) (i : Nat) (r a : α), l[i]? = some r → g a = g r →
    (l.set i a).map g = l.map g := by
  intro l
  induction l with
  | nil => intro i r a h; simp at h
  | cons x xs ih =>
    intro i r a h hg
    cases i with
    | zero => simp at h; subst h; simp [hg]
    | succ i => simp at h; simp [ih i r a h hg]

theorem foldl_pres {α β γ} (g : α → γ) (f : α → β → α) (h : ∀ a b, g (f a b) = g a) :
    ∀ (bs : List β) (a : α), g (bs.foldl f a) = g a := by
  intro bs
  induction bs with
  | nil => intro a; rfl
  | cons b bs ih => intro a; rw [List.foldl_cons, ih, h]

theorem applyCellBorders_core (w : Walk) (hw : CorePres w) (bs : List Border) (given : Option Loc) (tgt : List CellR) :
    (applyCellBorders w bs given tgt).map core = tgt.map core := by
  unfold applyCellBorders
  simp only [List.map_map]
  have h1 : ((bs.filter (!·.vert)).foldl (fun t b => w b.span (b.loc given) 1 t) tgt).map core = tgt.map core :=
    foldl_pres (fun t => t.map core) _ (fun a b => hw _ _ _ _) _ tgt
  rw [← h1]
  apply List.map_congr_left
  intro c _
  simp only [Function.comp]
  apply foldl_pres core
  intro a b
  have := hw b.span (b.loc given) 1 [a]
  cases hq : w b.span (b.loc given) 1 [a] with
  | nil => rfl
  | cons x xs => rw [hq] at this; simp at this; simpa using this.1

theorem applyRow_core (w : Walk) (hw : CorePres w) (src : RowR) (given : Option Loc) (tgt : List CellR) :
    (applyRow w src given tgt).map core = tgt.map core := by
  unfold applyRow
  exact foldl_pres (fun t => t.map core) _ (fun a c => applyCellBorders_core w hw _ given a) src tgt

theorem styleCell_core (specs : List ColStyle) (c : CellR) : core (styleCell specs c) = core c := by
  unfold styleCell
  exact foldl_pres core (fun (c : CellR) s => { c with style := styleUpdate c.style (c.own.getD s) }) (fun a s => rfl) specs c

theorem styleRow_core : ∀ (cells : RowR) (sp : List ColStyle), (styleRow sp cells).map core = cells.map core := by
  intro cells
  induction cells with
  | nil => intro sp; rfl
  | cons c cs ih =>
    intro sp
    have := styleCell_core (sp.take c.span) c
    simp only [styleCell] at this
    simp [styleRow, ih, this]

def rowCore (r : RowR) := r.map core

theorem modifyAt_core (rows : List RowR) (i : Nat) (f : RowR → RowR) (hf : ∀ r, rowCore (f r) = rowCore r) :
    (modifyAt rows i f).map rowCore = rows.map rowCore := by
  unfold modifyAt
  cases h : rows[i]? with
  | none => rfl
  | some r => exact set_same rowCore rows i r (f r) h (hf r)

theorem tableLoop_core (w : Walk) (hw : CorePres w) (spec : List ColStyle) :
    ∀ (k i : Nat) (prev : Option Nat) (rows : List RowR), (tableLoop w spec k i prev rows).map rowCore = rows.map rowCore := by
  intro k
  induction k with
  | zero => intro i prev rows; rfl
  | succ k ih =>
    intro i prev rows
    rw [tableLoop]
    cases h : rows[i]? with
    | none => rfl
    | some row =>
      simp only
      split
      · split
        · rw [ih, modifyAt_core]; intro r; exact applyRow_core w hw _ _ r
        · cases prev with
          | none => simp only; rw [ih]
          | some p => simp only; rw [ih, modifyAt_core]; intro r; exact applyRow_core w hw _ _ r
      · rw [ih]
        apply set_same rowCore rows i row _ h
        unfold rowCore
        rw [styleRow_core, applyRow_core w hw]

theorem rowBorderOnly_core (r r' : RowR) (h : rowCore r = rowCore r') : rowBorderOnly r = rowBorderOnly r' := by
  unfold rowCore at h
  induction r generalizing r' with
  | nil => cases r' with
    | nil => rfl
    | cons _ _ => simp at h
  | cons c cs ih =>
    cases r' with
    | nil => simp at h
    | cons c' cs' =>
      simp only [List.map_cons, List.cons.injEq] at h
      have hc : c.items = c'.items := by have := h.1; simp [core] at this; exact this.2.2
      have := ih cs' h.2
      simp only [rowBorderOnly, List.all_cons] at this ⊢
      rw [this]; simp [cellBorderOnly, hc]

theorem filter_core : ∀ (a b : List RowR), a.map rowCore = b.map rowCore →
    (a.filter (!rowBorderOnly ·)).map rowCore = (b.filter (!rowBorderOnly ·)).map rowCore := by
  intro a
  induction a with
  | nil => intro b h; cases b with
    | nil => rfl
    | cons _ _ => simp at h
  | cons x xs ih =>
    intro b h
    cases b with
    | nil => simp at h
    | cons y ys =>
      simp only [List.map_cons, List.cons.injEq] at h
      have hb := rowBorderOnly_core x y h.1
      have := ih ys h.2
      simp only [List.filter_cons, hb]
      cases rowBorderOnly y <;> simp [this, h.1]

theorem applyBordersTable_core (spec : List ColStyle) (rows : List RowR) :
    (applyBordersTable spec rows).map rowCore = (rows.filter (!rowBorderOnly ·)).map rowCore := by
  unfold applyBordersTable
  exact filter_core _ _ (tableLoop_core walk walk_corePres spec _ _ _ rows)


/-! ### the index/mutation loop of `Array.applyBorders` refines the structural `specTable` -/

theorem getElem?_pre {α} (pre : List α) (x : α) (post : List α) : (pre ++ x :: post)[pre.length]? = some x := by
  induction pre with
  | nil => rfl
  | cons p ps ih => simpa using ih

theorem set_pre {α} (pre : List α) (x y : α) (post : List α) : (pre ++ x :: post).set pre.length y = pre ++ y :: post := by
  induction pre with
  | nil => rfl
  | cons p ps ih => simpa using ih

theorem modifyAt_pre (pre : List RowR) (x : RowR) (post : List RowR) (f : RowR → RowR) :
    modifyAt (pre ++ x :: post) pre.length f = pre ++ f x :: post := by
  unfold modifyAt
  rw [getElem?_pre]
  exact set_pre pre x (f x) post

theorem rowBorderOnly_applyRow (src : RowR) (g : Option Loc) (r : RowR) :
    rowBorderOnly (applyRow walk src g r) = rowBorderOnly r :=
  rowBorderOnly_core _ _ (applyRow_core walk walk_corePres src g r)

theorem rowBorderOnly_ownRow (spec : List ColStyle) (r : RowR) : rowBorderOnly (ownRow spec r) = rowBorderOnly r := by
  unfold ownRow
  apply rowBorderOnly_core
  unfold rowCore
  rw [styleRow_core, applyRow_core walk walk_corePres]

def keep (rows : List RowR) : List RowR := rows.filter (!rowBorderOnly ·)

theorem keep_append (a b : List RowR) : keep (a ++ b) = keep a ++ keep b := by simp [keep]

theorem keep_allBO (b : List RowR) (h : ∀ x ∈ b, rowBorderOnly x = true) : keep b = [] := by
  simp only [keep, List.filter_eq_nil_iff]
  intro x hx; simp [h x hx]

/-- the loop from position `i > 0` on: `D` finished rows, `cur` the last content row (at index
    `D.length`, what `prev` points to), `B` the rule-only rows after it, `post` not yet visited -/
theorem tableLoop_from (spec : List ColStyle) :
    ∀ (post D : List RowR) (cur : Option RowR) (B : List RowR) (k i : Nat) (rows : List RowR),
      rows = (D ++ cur.toList ++ B) ++ post →
      i = (D ++ cur.toList ++ B).length →
      post.length ≤ k →
      (∀ b ∈ B, rowBorderOnly b = true) →
      (∀ r, cur = some r → rowBorderOnly r = false) →
      0 < i →
      keep (tableLoop walk spec k i (cur.map fun _ => D.length) rows) = keep D ++ specRows spec cur post := by
  intro post
  induction post with
  | nil =>
    intro D cur B k i rows hrows hi _ hB hcur _
    have hres : tableLoop walk spec k i (cur.map fun _ => D.length) rows = rows := by
      cases k with
      | zero => simp [tableLoop]
      | succ k =>
        rw [tableLoop]
        have : rows[i]? = none := by rw [hrows, hi]; simp
        simp [this]
    rw [hres, hrows, List.append_nil, keep_append, keep_append, keep_allBO B hB]
    cases cur with
    | none => simp [specRows, keep]
    | some r => simp [specRows, keep, hcur r rfl]
  | cons x rest ih =>
    intro D cur B k i rows hrows hi hk hB hcur hpos
    obtain ⟨k', rfl⟩ : ∃ k', k = k' + 1 := ⟨k - 1, by simp at hk; omega⟩
    have hk' : rest.length ≤ k' := by simp at hk; omega
    have hne : (i == 0) = false := by
      cases i with
      | zero => omega
      | succ n => rfl
    have hget : rows[i]? = some x := by rw [hrows, hi]; exact getElem?_pre _ x rest
    rw [tableLoop, hget]
    simp only
    by_cases hx : rowBorderOnly x = true
    · simp only [hx, if_true, hne, Bool.false_and, Bool.false_eq_true, if_false]
      have hB' : ∀ b ∈ B ++ [x], rowBorderOnly b = true := by
        intro b hb; rcases List.mem_append.mp hb with h | h
        · exact hB b h
        · simp at h; subst h; exact hx
      cases cur with
      | none =>
        simp only [Option.map_none]
        have := ih D none (B ++ [x]) k' (i + 1) rows (by rw [hrows]; simp) (by rw [hi]; simp; omega) hk' hB'
          (by intro r h; cases h) (by omega)
        simp only [Option.map_none] at this
        rw [this]; simp [specRows, hx]
      | some r =>
        simp only [Option.map_some]
        have hmod : modifyAt rows D.length (applyRow walk x (some .bottom))
            = (D ++ (some (applyRow walk x (some .bottom) r)).toList ++ (B ++ [x])) ++ rest := by
          have := modifyAt_pre D r (B ++ x :: rest) (applyRow walk x (some .bottom))
          rw [hrows]; simpa [List.append_assoc] using this
        have := ih D (some (applyRow walk x (some .bottom) r)) (B ++ [x]) k' (i + 1) _ hmod
          (by rw [hi]; simp; omega) hk' hB'
          (by intro r' h; cases h; rw [rowBorderOnly_applyRow]; exact hcur r rfl) (by omega)
        simp only [Option.map_some] at this
        rw [this]; simp [specRows, hx]
    · have hx' : rowBorderOnly x = false := by simpa using hx
      simp only [hx', Bool.false_eq_true, if_false]
      have hset : rows.set i (styleRow spec (applyRow walk x none x))
          = ((D ++ cur.toList ++ B) ++ (some (ownRow spec x)).toList ++ []) ++ rest := by
        rw [hrows, hi, set_pre]; simp [ownRow]
      have := ih (D ++ cur.toList ++ B) (some (ownRow spec x)) [] k' (i + 1) _ hset
        (by rw [hi]; simp; omega) hk' (by intro b h; cases h)
        (by intro r' h; cases h; exact (rowBorderOnly_ownRow spec x).trans hx') (by omega)
      simp only [Option.map_some, ← hi] at this
      rw [this, keep_append, keep_append, keep_allBO B hB]
      cases cur with
      | none => simp [specRows, hx', keep]
      | some r => simp [specRows, hx', keep, hcur r rfl]

theorem applyBordersTable_eq_spec (spec : List ColStyle) (rows : List RowR) :
    applyBordersTable spec rows = specTable spec rows := by
  unfold applyBordersTable
  show keep _ = _
  cases rows with
  | nil => simp [tableLoop, specTable, specRows, keep]
  | cons x rest =>
    simp only [List.length_cons]
    rw [tableLoop]
    simp only [List.getElem?_cons_zero]
    by_cases hx : rowBorderOnly x = true
    · have hBx : ∀ b ∈ [x], rowBorderOnly b = true := by intro b h; simp at h; subst h; exact hx
      cases rest with
      | nil =>
        have hc : (((0 : Nat) == 0) && (([] : List RowR).length + 1 - 1 != 0)) = false := by simp
        simp only [hx, if_true, hc, Bool.false_eq_true, if_false]
        have := tableLoop_from spec [] [] none [x] 0 1 [x] (by simp) (by simp) (by simp) hBx (by intro r h; cases h) (by omega)
        simpa [specTable, specRows, hx, keep] using this
      | cons y rest' =>
        have hm : modifyAt (x :: y :: rest') 1 (applyRow walk x (some .top)) = x :: applyRow walk x (some .top) y :: rest' := by
          simp [modifyAt]
        have hc : (((0 : Nat) == 0) && ((y :: rest').length + 1 - 1 != 0)) = true := by simp
        simp only [hx, if_true, hc, hm]
        have := tableLoop_from spec (applyRow walk x (some .top) y :: rest') [] none [x] (rest'.length + 1) 1
          (x :: applyRow walk x (some .top) y :: rest') (by simp) (by simp) (by simp) hBx (by intro r h; cases h) (by omega)
        simpa [specTable, hx, keep] using this
    · have hx' : rowBorderOnly x = false := by simpa using hx
      simp only [hx', Bool.false_eq_true, if_false, List.set_cons_zero]
      have := tableLoop_from spec rest [] (some (ownRow spec x)) [] rest.length 1 (ownRow spec x :: rest)
        (by simp) (by simp) (Nat.le_refl _)
        (by intro b h; cases h) (by intro r h; cases h; exact (rowBorderOnly_ownRow spec x).trans hx') (by omega)
      simp only [Option.map_some, List.length_nil] at this
      have hs : specTable spec (x :: rest) = specRows spec none (x :: rest) := by
        cases rest with
        | nil => rfl
        | cons y r' => simp [specTable, hx']
      rw [hs]
      simpa [specRows, hx', keep, ownRow] using this


/-! ### the rows handed to `Array.applyBorders` are the rows as written -/

theorem kind_mk (t : Tok) (ch : List Node) : (Node.mk t ch).kind = t.kind := rfl
theorem ch_mk (t : Tok) (ch : List Node) : (Node.mk t ch).ch = ch := rfl

open PlasVerif.Spec.ListTree in
theorem cells_written : ∀ (cs : Cells) (d : Nat),
    ((cs.nodes d).filter (·.kind == .cell)).map cellOf = cs.toList.map (writtenCell d)
  | .nil, d => by simp [Cells.nodes, Cells.toList]
  | .cons c rest, d => by
    have ih := cells_written rest d
    simp only [Cells.nodes, Cells.toList, List.filter_cons, kind_mk, beq_self_eq_true, if_true, List.map_cons, ih]
    rfl

open PlasVerif.Spec.ListTree in
theorem rows_written : ∀ (rs : Rows) (d : Nat),
    (rs.nodes d).filterMap (fun r => if r.kind == .row then some (r.ch.filter (·.kind == .cell) |>.map cellOf) else none)
      = rs.toList.map fun r => r.map (writtenCell d)
  | .nil, d => by simp [Rows.nodes, Rows.toList]
  | .cons c cs rest, d => by
    have ih := rows_written rest d
    have hc := cells_written cs d
    simp only [Rows.nodes, Rows.toList, List.filterMap_cons, kind_mk, ch_mk, beq_self_eq_true, if_true, List.filter_cons,
      List.map_cons, ih, hc]
    rfl

open PlasVerif.Spec.ListTree in
theorem rowsOf_table (d ty : Nat) (c : Blocks) (cs : Cells) (rs : Rows) :
    rowsOf ((Block.table ty c cs rs).node d) = writtenRows (d + 2) c cs rs := by
  have hr := rows_written rs (d + 2)
  have hc := cells_written cs (d + 2)
  simp only [rowsOf, Block.node, ch_mk, List.filterMap_cons, kind_mk, beq_self_eq_true, if_true, List.filter_cons,
    List.map_cons, hr, hc, writtenRows]
  rfl

end PlasVerif.Proofs.Arrays
