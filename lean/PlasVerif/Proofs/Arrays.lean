import PlasVerif.Spec.TableTree
/-! Helper lemmas for C10 (borders, spans, column styles). -/
namespace PlasVerif.Proofs.Arrays
open PlasVerif.Model.Lists PlasVerif.Model.Arrays PlasVerif.Spec.TableTree

/-- what border application never touches -/
def core (c : CellR) : Option Nat × Option ColStyle × List Node := (c.colspan, c.own, c.items)

@[simp] theorem core_mark (c : CellR) (l : Loc) : core (c.mark l) = core c := rfl
@[simp] theorem span_mark (c : CellR) (l : Loc) : (c.mark l).span = c.span := rfl

theorem walk_eq_markRow (span : Option (Nat × Nat)) (loc : Loc) :
    ∀ (cells : List CellR) (col : Nat), walk span loc col cells = markRow span loc col cells := by
  intro cells
  induction cells with
  | nil => intro col; simp [walk, markRow, colStarts]
  | cons c cs ih =>
    intro col
    have := ih (col + c.span)
    simp only [markRow] at this
    by_cases h : inSpan span col = true <;> simp [walk, markRow, colStarts, h, this]

theorem walk_core (w : Bool) (span : Option (Nat × Nat)) (loc : Loc) :
    ∀ (cells : List CellR) (col : Nat),
      ((if w then walk span loc col cells else walkAsIs span loc col cells).map core) = cells.map core := by
  intro cells
  induction cells with
  | nil => intro col; cases w <;> simp [walk, walkAsIs]
  | cons c cs ih =>
    intro col
    cases w
    · have := ih (col + c.span); have := ih (col + 1)
      by_cases h : inSpan span col = true <;> simp_all [walkAsIs]
    · have := ih (col + c.span)
      by_cases h : inSpan span col = true <;> simp_all [walk]

theorem walk_none (loc : Loc) : ∀ (cells : List CellR) (col : Nat), walk none loc col cells = cells.map (·.mark loc) := by
  intro cells
  induction cells with
  | nil => intro col; simp [walk]
  | cons c cs ih => intro col; simp [walk, inSpan, ih]

theorem mcolOf_append_last (pre post : List Node) (d n s : Nat) (st : ColStyle)
    (hpost : mcolOf post = none) :
    mcolOf (pre ++ mkT d (.mcol n st s) :: post) = some (n, st) := by
  induction pre with
  | nil => simp [mcolOf, hpost, mkT, Node.kind, Node.tok]
  | cons p ps ih => simp [mcolOf, ih]

def styleCell (specs : List ColStyle) (c : CellR) : CellR :=
  specs.foldl (fun (c : CellR) s => { c with style := styleUpdate c.style (c.own.getD s) }) c

theorem styleCell_span (specs : List ColStyle) : ∀ c : CellR, (styleCell specs c).span = c.span := by
  induction specs with
  | nil => intro c; rfl
  | cons s ss ih => intro c; simp only [styleCell, List.foldl_cons] at ih ⊢; rw [ih]; rfl

theorem styleRow_eq (sp : List ColStyle) :
    ∀ (cells : List CellR) (k : Nat),
      styleRow (sp.drop k) cells =
        List.zipWith (fun (c : CellR) s => styleCell ((sp.drop s).take c.span) c) cells (colStarts k (cells.map CellR.span)) := by
  intro cells
  induction cells with
  | nil => intro k; simp [styleRow, colStarts]
  | cons c cs ih =>
    intro k
    have := ih (k + c.span)
    simp only [styleRow, List.map_cons, colStarts, List.zipWith_cons_cons, List.drop_drop, styleCell] at this ⊢
    rw [this]


/-! ### `Array.applyBorders` keeps exactly the rows that are not border-only, cells untouched -/

abbrev Walk := Option (Nat × Nat) → Loc → Nat → List CellR → List CellR

def CorePres (w : Walk) : Prop := ∀ span loc col cells, (w span loc col cells).map core = cells.map core

theorem walk_corePres : CorePres walk := fun span loc col cells => by
  simpa using walk_core true span loc cells col

theorem set_same {α β} (g : α → β) : ∀ (l : List α) (i : Nat) (r a : α), l[i]? = some r → g a = g r →
    (l.set i a).map g = l.map g := by
  intro l
  induction l with
  | nil => intro i r a h; simp at h
  | cons x xs ih =>
    intro i r a h hg
    cases i with
    | zero => simp at h; subst h; simp [hg]
    | succ i => simp at h; simp [ih i r a h hg]

theorem foldl_pres {α β γ} (g : α → γ) (f : α → β → α) (h : ∀ a b, g (f a b) = g a) :
    ∀ (bs : List β) (a : α), g (bs.foldl f a) = g a := by
  intro bs
  induction bs with
  | nil => intro a; rfl
  | cons b bs ih => intro a; rw [List.foldl_cons, ih, h]

theorem applyCellBorders_core (w : Walk) (hw : CorePres w) (bs : List Border) (given : Option Loc) (tgt : List CellR) :
    (applyCellBorders w bs given tgt).map core = tgt.map core := by
  unfold applyCellBorders
  simp only [List.map_map]
  have h1 : ((bs.filter (!·.vert)).foldl (fun t b => w b.span (b.loc given) 1 t) tgt).map core = tgt.map core :=
    foldl_pres (fun t => t.map core) _ (fun a b => hw _ _ _ _) _ tgt
  rw [← h1]
  apply List.map_congr_left
  intro c _
  simp only [Function.comp]
  apply foldl_pres core
  intro a b
  have := hw b.span (b.loc given) 1 [a]
  cases hq : w b.span (b.loc given) 1 [a] with
  | nil => rfl
  | cons x xs => rw [hq] at this; simp at this; simpa using this.1

theorem applyRow_core (w : Walk) (hw : CorePres w) (src : RowR) (given : Option Loc) (tgt : List CellR) :
    (applyRow w src given tgt).map core = tgt.map core := by
  unfold applyRow
  exact foldl_pres (fun t => t.map core) _ (fun a c => applyCellBorders_core w hw _ given a) src tgt

theorem styleCell_core (specs : List ColStyle) (c : CellR) : core (styleCell specs c) = core c := by
  unfold styleCell
  exact foldl_pres core (fun (c : CellR) s => { c with style := styleUpdate c.style (c.own.getD s) }) (fun a s => rfl) specs c

theorem styleRow_core : ∀ (cells : RowR) (sp : List ColStyle), (styleRow sp cells).map core = cells.map core := by
  intro cells
  induction cells with
  | nil => intro sp; rfl
  | cons c cs ih =>
    intro sp
    have := styleCell_core (sp.take c.span) c
    simp only [styleCell] at this
    simp [styleRow, ih, this]

def rowCore (r : RowR) := r.map core

theorem modifyAt_core (rows : List RowR) (i : Nat) (f : RowR → RowR) (hf : ∀ r, rowCore (f r) = rowCore r) :
    (modifyAt rows i f).map rowCore = rows.map rowCore := by
  unfold modifyAt
  cases h : rows[i]? with
  | none => rfl
  | some r => exact set_same rowCore rows i r (f r) h (hf r)

theorem tableLoop_core (w : Walk) (hw : CorePres w) (spec : List ColStyle) :
    ∀ (k i : Nat) (prev : Option Nat) (rows : List RowR), (tableLoop w spec k i prev rows).map rowCore = rows.map rowCore := by
  intro k
  induction k with
  | zero => intro i prev rows; rfl
  | succ k ih =>
    intro i prev rows
    rw [tableLoop]
    cases h : rows[i]? with
    | none => rfl
    | some row =>
      simp only
      split
      · split
        · rw [ih, modifyAt_core]; intro r; exact applyRow_core w hw _ _ r
        · cases prev with
          | none => simp only; rw [ih]
          | some p => simp only; rw [ih, modifyAt_core]; intro r; exact applyRow_core w hw _ _ r
      · rw [ih]
        apply set_same rowCore rows i row _ h
        unfold rowCore
        rw [styleRow_core, applyRow_core w hw]

theorem rowBorderOnly_core (r r' : RowR) (h : rowCore r = rowCore r') : rowBorderOnly r = rowBorderOnly r' := by
  unfold rowCore at h
  induction r generalizing r' with
  | nil => cases r' with
    | nil => rfl
    | cons _ _ => simp at h
  | cons c cs ih =>
    cases r' with
    | nil => simp at h
    | cons c' cs' =>
      simp only [List.map_cons, List.cons.injEq] at h
      have hc : c.items = c'.items := by have := h.1; simp [core] at this; exact this.2.2
      have := ih cs' h.2
      simp only [rowBorderOnly, List.all_cons] at this ⊢
      rw [this]; simp [cellBorderOnly, hc]

theorem filter_core : ∀ (a b : List RowR), a.map rowCore = b.map rowCore →
    (a.filter (!rowBorderOnly ·)).map rowCore = (b.filter (!rowBorderOnly ·)).map rowCore := by
  intro a
  induction a with
  | nil => intro b h; cases b with
    | nil => rfl
    | cons _ _ => simp at h
  | cons x xs ih =>
    intro b h
    cases b with
    | nil => simp at h
    | cons y ys =>
      simp only [List.map_cons, List.cons.injEq] at h
      have hb := rowBorderOnly_core x y h.1
      have := ih ys h.2
      simp only [List.filter_cons, hb]
      cases rowBorderOnly y <;> simp [this, h.1]

theorem applyBordersTable_core (spec : List ColStyle) (rows : List RowR) :
    (applyBordersTable spec rows).map rowCore = (rows.filter (!rowBorderOnly ·)).map rowCore := by
  unfold applyBordersTable
  exact filter_core _ _ (tableLoop_core walk walk_corePres spec _ _ _ rows)

end PlasVerif.Proofs.Arrays
