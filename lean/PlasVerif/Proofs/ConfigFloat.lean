import PlasVerif.Proofs.ConfigBuiltins
/-! `float(str(x)) == x` on the modelled decimals. -/
namespace PlasVerif.Proofs.ConfigFloat
open PlasVerif.Model.Config PlasVerif.Spec.Config PlasVerif.Proofs.ConfigBuiltins

theorem digitsVal_zeros : ∀ (k : Nat) (s : Str), digitsVal (List.replicate k 48 ++ s) 0 = digitsVal s 0 := by
  intro k
  induction k with
  | zero => intro s; rfl
  | succ k ih => intro s; simp [List.replicate_succ, digitsVal, ih]

theorem all_no46 (s : Str) (h : s.all isDigit = true) : ∀ (rest : Str),
    (s ++ 46 :: rest).takeWhile (· ≠ 46) = s ∧ (s ++ 46 :: rest).dropWhile (· ≠ 46) = 46 :: rest := by
  induction s with
  | nil => intro rest; simp [List.takeWhile, List.dropWhile]
  | cons c cs ih =>
    intro rest
    simp only [List.all_cons, Bool.and_eq_true] at h
    have hc : c ≠ 46 := by
      have := h.1; simp only [isDigit, Bool.and_eq_true, decide_eq_true_eq] at this; omega
    obtain ⟨h1, h2⟩ := ih h.2 rest
    have hc' : decide (c ≠ 46) = true := by simp [hc]
    simp only [List.cons_append, List.takeWhile_cons, List.dropWhile_cons, hc', if_true]
    exact ⟨by rw [h1], h2⟩

theorem normDec_keep (m e : Nat) (h : e = 0 ∨ m % 10 ≠ 0) : normDec m e = (m, e) := by
  cases e with
  | zero => rfl
  | succ e => rcases h with h | h; · omega
              · simp [normDec, h]

/-- the digit string `d` that `fltStr` cuts into integer and fraction part -/
theorem pad_facts (n e : Nat) :
    let d := padLeft (e + 1) (natStr n)
    d.all isDigit = true ∧ e + 1 ≤ d.length ∧ digitsVal d 0 = n := by
  obtain ⟨ha, hv⟩ := natStr_digits n
  simp only [allDigits, Bool.and_eq_true] at ha
  refine ⟨?_, ?_, ?_⟩
  · simp only [padLeft, List.all_append, ha.2, Bool.and_true, List.all_replicate]
    simp [isDigit]
  · simp only [padLeft, List.length_append, List.length_replicate]; omega
  · simp only [padLeft, digitsVal_zeros, hv]

theorem parseDec_neg (ip fp : Str) (hip : allDigits ip = true) (hfp : allDigits fp = true) :
    parseDec (45 :: (ip ++ 46 :: fp)) =
      .ok (-1 * ((normDec (digitsVal (ip ++ fp) 0) fp.length).1 : Int), (normDec (digitsVal (ip ++ fp) 0) fp.length).2) := by
  have hd : ip.all isDigit = true := by simp only [allDigits, Bool.and_eq_true] at hip; exact hip.2
  obtain ⟨h1, h2⟩ := all_no46 ip hd fp
  simp only [parseDec, h1, h2, hip, hfp, Bool.and_self, if_true]

theorem parseDec_pos (ip fp : Str) (hip : allDigits ip = true) (hfp : allDigits fp = true) :
    parseDec (ip ++ 46 :: fp) =
      .ok (1 * ((normDec (digitsVal (ip ++ fp) 0) fp.length).1 : Int), (normDec (digitsVal (ip ++ fp) 0) fp.length).2) := by
  have hd : ip.all isDigit = true := by simp only [allDigits, Bool.and_eq_true] at hip; exact hip.2
  obtain ⟨h1, h2⟩ := all_no46 ip hd fp
  cases ip with
  | nil => simp [allDigits] at hip
  | cons c cs =>
    have hc : isDigit c = true := by simp only [List.all_cons, Bool.and_eq_true] at hd; exact hd.1
    simp only [isDigit, Bool.and_eq_true, decide_eq_true_eq] at hc
    unfold parseDec
    split
    rename_i neg r heq
    split at heq
    · rename_i r' heq'; simp only [List.cons_append, List.cons.injEq] at heq'; omega
    · rename_i r' heq'; simp only [List.cons_append, List.cons.injEq] at heq'; omega
    · cases heq
      simp only [h1, h2, hip, hfp, Bool.and_self, if_true, Bool.false_eq_true, if_false]

/-- `float(str(x)) == x` for every decimal `m / 10^e` in normal form (`e = 0` or `10 ∤ m`) -/
theorem parseDec_fltStr (m : Int) (e : Nat) (hn : e = 0 ∨ m.natAbs % 10 ≠ 0) : parseDec (fltStr m e) = .ok (m, e) := by
  obtain ⟨hall, hlen, hval⟩ := pad_facts m.natAbs e
  generalize hd : padLeft (e + 1) (natStr m.natAbs) = d at hall hlen hval
  have hip : allDigits (d.take (d.length - e)) = true := by
    simp only [allDigits, Bool.and_eq_true, Bool.not_eq_true', List.isEmpty_eq_false_iff]
    refine ⟨?_, ?_⟩
    · intro h
      have := congrArg List.length h
      simp only [List.length_take, List.length_nil] at this
      omega
    · exact List.all_eq_true.mpr fun x hx => List.all_eq_true.mp hall x (List.mem_of_mem_take hx)
  have hfpall : (d.drop (d.length - e)).all isDigit = true :=
    List.all_eq_true.mpr fun x hx => List.all_eq_true.mp hall x (List.mem_of_mem_drop hx)
  have hfplen : (d.drop (d.length - e)).length = e := by simp only [List.length_drop]; omega
  have hres : ∀ (fp' : Str), allDigits fp' = true →
      normDec (digitsVal (d.take (d.length - e) ++ fp') 0) fp'.length = (m.natAbs, e) →
      parseDec ((if m < 0 then [45] else []) ++ d.take (d.length - e) ++ [46] ++ fp') = .ok (m, e) := by
    intro fp' hfp hnorm
    by_cases hneg : m < 0
    · have := parseDec_neg _ fp' hip hfp
      simp only [hneg, if_true, List.cons_append, List.nil_append, List.append_assoc, hnorm] at this ⊢
      rw [this]; congr 2; omega
    · have := parseDec_pos _ fp' hip hfp
      simp only [hneg, if_false, List.cons_append, List.nil_append, List.append_assoc, hnorm] at this ⊢
      rw [this]; congr 2; omega
  unfold fltStr
  simp only [hd]
  by_cases he : e = 0
  · subst he
    have hemp : (d.drop (d.length - 0)).isEmpty = true := by simp
    simp only [hemp, if_true]
    apply hres [48] (by decide)
    simp only [Nat.sub_zero, List.take_length, digitsVal_append, hval, digitsVal, List.length_cons, List.length_nil]
    simp [normDec]
  · have hne : (d.drop (d.length - e)).isEmpty = false := by
      apply Bool.eq_false_iff.mpr
      intro h
      have := hfplen
      simp only [List.isEmpty_iff] at h
      rw [h] at this
      simp at this; omega
    simp only [hne, Bool.false_eq_true, if_false]
    apply hres _ (by simp only [allDigits, hne, hfpall]; rfl)
    rw [List.take_append_drop, hval, hfplen]
    have hm10 : m.natAbs % 10 ≠ 0 := by
      rcases hn with h | h
      · exact absurd h he
      · exact h
    exact normDec_keep _ _ (Or.inr hm10)

end PlasVerif.Proofs.ConfigFloat
