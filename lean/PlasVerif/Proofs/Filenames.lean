import PlasVerif.Spec.Filenames
/-! Helper lemmas for C15.  Property statements are in `Properties/C15.lean`. -/
namespace PlasVerif.Model.Filenames

/-! ### vocabulary used by the statements -/

def Walk.num : Walk → Nat
  | .issued _ _ n => n | .raised _ n => n | .fell _ n => n

def Walk.isIssued : Walk → Bool
  | .issued .. => true | _ => false

def Loop.num : Loop → Nat
  | .issued _ n _ => n | .raised n _ => n | .gaveUp n _ => n

def Loop.passes : Loop → Nat
  | .issued _ _ p => p | .raised _ p => p | .gaveUp _ p => p

def Loop.isIssued : Loop → Bool
  | .issued .. => true | _ => false

/-- names issued in a list of results -/
def issuedNames : List Result → List Str
  | [] => []
  | .name s :: rs => s :: issuedNames rs
  | .error _ :: rs => issuedNames rs

/-- the numbers used by the numbered candidates of a trace, in order -/
def numberedNums : List Event → List Nat
  | [] => []
  | e :: es => if e.numbered then e.num :: numberedNums es else numberedNums es

/-- `s, s+1, …` (`k` values) -/
def upFrom : Nat → Nat → List Nat
  | _, 0 => []
  | s, k + 1 => s :: upFrom (s + 1) k

/-- every event but a final issue is a skip: unbound, or a name that is already taken -/
def Event.isSkip (taken : List Str) (e : Event) : Prop :=
  e.fate = .unbound ∨ ∃ s, e.fate = .taken s ∧ s ∈ taken

/-- a candidate consumes a number only when it was formed (issued or skipped as taken) -/
def Event.numberedOk (e : Event) : Prop :=
  e.numbered = true → ∃ s, e.fate = .taken s ∨ e.fate = .issued s

end PlasVerif.Model.Filenames

namespace PlasVerif.Proofs.Filenames
open PlasVerif.Model.Filenames PlasVerif.Spec.Filenames PlasVerif.Generated.Filenames

theorem upFrom_append (s a b : Nat) : upFrom s a ++ upFrom (s + a) b = upFrom s (a + b) := by
  induction a generalizing s with
  | zero => simp [upFrom]
  | succ a ih =>
    have : a + 1 + b = (a + b) + 1 := by omega
    rw [this]; simp only [upFrom, List.cons_append]
    have h2 : s + (a + 1) = s + 1 + a := by omega
    rw [h2, ih]

theorem numberedNums_append (a b : List Event) : numberedNums (a ++ b) = numberedNums a ++ numberedNums b := by
  induction a with
  | nil => simp [numberedNums]
  | cons e es ih => by_cases h : e.numbered <;> simp [numberedNums, h, ih]

/-! ### the walks -/

/-- everything the clauses need about one walk over a list of templates (static names or one
    wildcard pass): freshness of an issued name, the skips before it, exact advance of the number -/
structure WalkOk (taken : List Str) (num : Nat) (w : Walk) (ev : List Event) : Prop where
  fresh : ∀ name rest n, w = .issued name rest n → name ∉ taken ∧ ∃ pre e, ev = pre ++ [e] ∧ e.fate = .issued name ∧ ∀ x ∈ pre, x.isSkip taken
  skips : w.isIssued = false → (∀ rest n, w ≠ .raised rest n) → ∀ x ∈ ev, x.isSkip taken
  nums : numberedNums ev = upFrom num (numberedNums ev).length ∧ w.num = num + (numberedNums ev).length
  numbered : ∀ e ∈ ev, e.numberedOk

theorem bump_eq (num : Nat) (u : Bool) : bump num u = num + (if u then 1 else 0) := by
  cases u <;> simp [bump]

theorem walkOk_cons_skip {taken : List Str} {num : Nat} {w : Walk} {ev : List Event} {e : Event} {u : Bool}
    (he : e.isSkip taken) (hn : e.numbered = u) (hnum : e.num = num) (hok : e.numberedOk)
    (h : WalkOk taken (bump num u) w ev) : WalkOk taken num w (e :: ev) := by
  refine ⟨?_, ?_, ?_, ?_⟩
  · intro name rest n hw
    obtain ⟨h1, pre, x, h2, h3, h4⟩ := h.fresh name rest n hw
    refine ⟨h1, e :: pre, x, by simp [h2], h3, ?_⟩
    intro y hy
    rcases List.mem_cons.mp hy with rfl | hy
    · exact he
    · exact h4 y hy
  · intro h1 h2 x hx
    rcases List.mem_cons.mp hx with rfl | hx
    · exact he
    · exact h.skips h1 h2 x hx
  · obtain ⟨h1, h2⟩ := h.nums
    cases u with
    | false =>
      simp only [bump] at h1 h2
      simp [numberedNums, hn]
      exact ⟨h1, h2⟩
    | true =>
      simp only [bump, if_true] at h1 h2
      simp only [numberedNums, hn, if_true, List.length_cons, upFrom, hnum]
      refine ⟨by rw [← h1], by omega⟩
  · intro y hy
    rcases List.mem_cons.mp hy with rfl | hy
    · exact hok
    · exact h.numbered y hy

theorem walkOk_issue {taken : List Str} {num : Nat} {name : Str} {rest : List Str} {item : Str} {u : Bool}
    (hf : name ∉ taken) : WalkOk taken num (.issued name rest (bump num u)) [⟨item, num, u, .issued name⟩] := by
  refine ⟨?_, ?_, ?_, ?_⟩
  · intro n r k hw
    cases hw
    exact ⟨hf, [], _, rfl, rfl, by simp⟩
  · intro h; simp [Walk.isIssued] at h
  · cases u <;> simp [numberedNums, upFrom, Walk.num, bump]
  · intro e he
    simp at he; subst he
    intro _; exact ⟨name, Or.inr rfl⟩

theorem walkOk_raise {taken : List Str} {num : Nat} {rest : List Str} {item : Str} :
    WalkOk taken num (.raised rest num) [⟨item, num, false, .invalid⟩] := by
  refine ⟨?_, ?_, ?_, ?_⟩
  · intro n r k hw; cases hw
  · intro _ h; exact absurd rfl (h rest num)
  · simp [numberedNums, upFrom, Walk.num]
  · intro e he; simp at he; subst he; intro h; simp at h

theorem walkOk_nil {taken : List Str} {num : Nat} {vars : Env} : WalkOk taken num (.fell vars num) [] := by
  refine ⟨?_, ?_, ?_, ?_⟩
  · intro n r k hw; cases hw
  · intro _ _ x hx; simp at hx
  · simp [numberedNums, upFrom, Walk.num]
  · intro e he; simp at he

theorem staticWalk_ok (cfg : Config) (taken : List Str) (items : List Str) (vars : Env) (num : Nat) :
    WalkOk taken num (staticWalk cfg taken items vars num).1 (staticWalk cfg taken items vars num).2 := by
  induction items generalizing num with
  | nil => simpa [staticWalk] using walkOk_nil
  | cons item rest ih =>
    simp only [staticWalk]
    split
    · exact walkOk_cons_skip (u := false) (Or.inl rfl) rfl rfl (by intro h; simp at h) (by simpa [bump] using ih num)
    · exact walkOk_raise
    · rename_i r used _
      by_cases ht : addExt cfg.ext r ∈ taken
      · simp only [ht, if_true]
        exact walkOk_cons_skip (u := used) (Or.inr ⟨_, rfl, ht⟩) rfl rfl (fun _ => ⟨_, Or.inl rfl⟩) (ih (bump num used))
      · simp only [ht, if_false]
        exact walkOk_issue ht

theorem altWalk_ok (cfg : Config) (taken : List Str) (items : List Str) (vars : Env) (num : Nat) :
    WalkOk taken num (altWalk cfg taken items vars num).1 (altWalk cfg taken items vars num).2 := by
  induction items generalizing num vars with
  | nil => simpa [altWalk] using walkOk_nil
  | cons item rest ih =>
    simp only [altWalk]
    split
    · exact walkOk_cons_skip (u := false) (Or.inl rfl) rfl rfl (by intro h; simp at h) (by simpa [bump] using ih _ num)
    · exact walkOk_raise
    · rename_i r used _
      by_cases ht : addExt cfg.ext r ∈ taken
      · simp only [ht, if_true]
        exact walkOk_cons_skip (u := used) (Or.inr ⟨_, rfl, ht⟩) rfl rfl (fun _ => ⟨_, Or.inl rfl⟩) (ih _ (bump num used))
      · simp only [ht, if_false]
        exact walkOk_issue ht

theorem staticWalk_length (cfg : Config) (taken : List Str) (items : List Str) (vars : Env) (num : Nat) :
    (staticWalk cfg taken items vars num).2.length ≤ items.length := by
  induction items generalizing num with
  | nil => simp [staticWalk]
  | cons item rest ih =>
    simp only [staticWalk]
    split
    · have := ih num; simp only [List.length_cons]; omega
    · simp
    · split
      · have := ih (bump num ‹Bool›); simp only [List.length_cons]; omega
      · simp

theorem altWalk_length (cfg : Config) (taken : List Str) (items : List Str) (vars : Env) (num : Nat) :
    (altWalk cfg taken items vars num).2.length ≤ items.length := by
  induction items generalizing num vars with
  | nil => simp [altWalk]
  | cons item rest ih =>
    simp only [altWalk]
    split
    · have := ih (envErase vars numKey) num; simp only [List.length_cons]; omega
    · simp
    · split
      · have := ih vars (bump num ‹Bool›); simp only [List.length_cons]; omega
      · simp

/-! ### the pass loop -/

structure LoopOk (taken : List Str) (num passes fuel width : Nat) (l : Loop) (ev : List Event) : Prop where
  fresh : ∀ name n p, l = .issued name n p → name ∉ taken ∧ ∃ pre e, ev = pre ++ [e] ∧ e.fate = .issued name ∧ ∀ x ∈ pre, x.isSkip taken
  skips : ∀ n p, l = .gaveUp n p → ∀ x ∈ ev, x.isSkip taken
  nums : numberedNums ev = upFrom num (numberedNums ev).length ∧ l.num = num + (numberedNums ev).length
  numbered : ∀ e ∈ ev, e.numberedOk
  passes : l.passes ≤ passes + fuel ∧ (0 < fuel → passes < l.passes)
  tries : ev.length ≤ fuel * width

theorem passLoop_ok (cfg : Config) (taken wild : List Str) (fuel : Nat) (vars : Env) (num passes : Nat) :
    LoopOk taken num passes fuel wild.length (passLoop cfg taken wild fuel vars num passes).1
      (passLoop cfg taken wild fuel vars num passes).2 := by
  induction fuel generalizing vars num passes with
  | zero =>
    simp only [passLoop]
    refine ⟨(by intro _ _ _ h; cases h), (by intro _ _ _ x hx; simp at hx), (by simp [numberedNums, upFrom, Loop.num]),
      (by intro e he; simp at he), (by simp [Loop.passes]), (by simp)⟩
  | succ fuel ih =>
    have hok := altWalk_ok cfg taken wild vars num
    have hlen := altWalk_length cfg taken wild vars num
    simp only [passLoop]
    generalize altWalk cfg taken wild vars num = res at hok hlen
    obtain ⟨w, ev⟩ := res
    simp only at hok hlen
    have hmul : (fuel + 1) * wild.length = fuel * wild.length + wild.length := by rw [Nat.succ_mul]
    cases w with
    | issued name rest n =>
      simp only
      refine ⟨?_, (by intro _ _ h; cases h), (by simpa [Loop.num, Walk.num] using hok.nums), hok.numbered,
        (by simp [Loop.passes]), (by rw [hmul]; omega)⟩
      intro nm k p h
      cases h
      exact hok.fresh _ _ _ rfl
    | raised rest n =>
      simp only
      refine ⟨(by intro _ _ _ h; cases h), (by intro _ _ h; cases h), (by simpa [Loop.num, Walk.num] using hok.nums), hok.numbered,
        (by simp [Loop.passes]), (by rw [hmul]; omega)⟩
    | fell vars' n =>
      simp only
      have hsk : ∀ x ∈ ev, x.isSkip taken := hok.skips rfl (by intro _ _ h; cases h)
      by_cases hf : fuel = 0
      · simp only [hf, if_true]
        refine ⟨(by intro _ _ _ h; cases h), (by intro _ _ _; exact hsk), (by simpa [Loop.num, Walk.num] using hok.nums), hok.numbered,
          (by simp [Loop.passes]), (by simp; omega)⟩
      · simp only [hf, if_false]
        have hi := ih vars' n (passes + 1)
        generalize passLoop cfg taken wild fuel vars' n (passes + 1) = res2 at hi
        obtain ⟨l, ev'⟩ := res2
        simp only at hi ⊢
        obtain ⟨hn1, hn2⟩ := hok.nums
        obtain ⟨hm1, hm2⟩ := hi.nums
        simp only [Walk.num] at hn2
        refine ⟨?_, ?_, ?_, ?_, ?_, ?_⟩
        · intro nm k p h
          obtain ⟨h1, pre, e, h2, h3, h4⟩ := hi.fresh nm k p h
          refine ⟨h1, ev ++ pre, e, by simp [h2], h3, ?_⟩
          intro x hx
          rcases List.mem_append.mp hx with hx | hx
          · exact hsk x hx
          · exact h4 x hx
        · intro k p h x hx
          rcases List.mem_append.mp hx with hx | hx
          · exact hsk x hx
          · exact hi.skips k p h x hx
        · rw [numberedNums_append, List.length_append]
          refine ⟨?_, by omega⟩
          rw [← upFrom_append, ← hn1]
          rw [hn2] at hm1
          rw [← hm1]
        · intro e he
          rcases List.mem_append.mp he with he | he
          · exact hok.numbered e he
          · exact hi.numbered e he
        · have := hi.passes
          refine ⟨by omega, fun _ => by have := this.2 (by omega); omega⟩
        · have := hi.tries
          rw [List.length_append, hmul]; omega

/-! ### one request -/

structure RequestOk (st : State) (st' : State) (r : Result) (ev : List Event) : Prop where
  name : ∀ s, r = .name s → s ∉ st.taken ∧ st'.taken = s :: st.taken ∧ st'.dead = false ∧ st'.vars = st.base ∧
            ∃ pre e, ev = pre ++ [e] ∧ e.fate = .issued s ∧ ∀ x ∈ pre, x.isSkip st.taken
  error : ∀ e, r = .error e → e = .valueError ∧ st'.taken = st.taken ∧ st'.dead = true
  nums : numberedNums ev = upFrom st.num (numberedNums ev).length ∧ st'.num = st.num + (numberedNums ev).length
  numbered : ∀ e ∈ ev, e.numberedOk
  passes : st'.passes ≤ st.passes + passesLeft st.passes
  tries : ev.length ≤ st.statics.length + passesLeft st.passes * st.wildcard.length
  frame : st'.wildcard = st.wildcard ∧ st'.base = st.base

theorem request_ok (cfg : Config) (st : State) (b : Env) :
    RequestOk st (request cfg st b).1 (request cfg st b).2.1 (request cfg st b).2.2 := by
  unfold request
  by_cases hd : st.dead = true
  · simp only [hd, if_true]
    refine ⟨(by intro s h; cases h), (by intro e h; cases h; exact ⟨rfl, rfl, rfl⟩), (by simp [numberedNums, upFrom]),
      (by intro e he; simp at he), (by simp), (by simp), ⟨rfl, rfl⟩⟩
  · have hd' : st.dead = false := by simpa using hd
    simp only [hd', Bool.false_eq_true, if_false]
    have hok := staticWalk_ok cfg st.taken st.statics (envUpdate st.vars b) st.num
    have hlen := staticWalk_length cfg st.taken st.statics (envUpdate st.vars b) st.num
    generalize staticWalk cfg st.taken st.statics (envUpdate st.vars b) st.num = res at hok hlen
    obtain ⟨w, ev⟩ := res
    simp only at hok hlen
    cases w with
    | issued name rest n =>
      simp only
      refine ⟨?_, (by intro e h; cases h), (by simpa [Walk.num] using hok.nums), hok.numbered, (by simp), (by omega), ⟨rfl, rfl⟩⟩
      intro s h
      cases h
      obtain ⟨h1, h2⟩ := hok.fresh _ _ _ rfl
      exact ⟨h1, rfl, rfl, rfl, h2⟩
    | raised rest n =>
      simp only
      refine ⟨(by intro s h; cases h), (by intro e h; cases h; exact ⟨rfl, rfl, rfl⟩), (by simpa [Walk.num] using hok.nums),
        hok.numbered, (by simp), (by omega), ⟨rfl, rfl⟩⟩
    | fell vars' n =>
      simp only
      have hsk : ∀ x ∈ ev, x.isSkip st.taken := hok.skips rfl (by intro _ _ h; cases h)
      obtain ⟨hn1, hn2⟩ := hok.nums
      simp only [Walk.num] at hn2
      unfold wildcardPhase
      have hl := passLoop_ok cfg st.taken st.wildcard (passesLeft st.passes) vars' n st.passes
      generalize passLoop cfg st.taken st.wildcard (passesLeft st.passes) vars' n st.passes = res2 at hl
      obtain ⟨l, ev'⟩ := res2
      simp only at hl
      obtain ⟨hm1, hm2⟩ := hl.nums
      have hnums : numberedNums (ev ++ ev') = upFrom st.num (numberedNums (ev ++ ev')).length ∧
          l.num = st.num + (numberedNums (ev ++ ev')).length := by
        rw [numberedNums_append, List.length_append]
        refine ⟨?_, by omega⟩
        rw [← upFrom_append, ← hn1]
        rw [hn2] at hm1
        rw [← hm1]
      have hnumbered : ∀ e ∈ ev ++ ev', e.numberedOk := by
        intro e he
        rcases List.mem_append.mp he with he | he
        · exact hok.numbered e he
        · exact hl.numbered e he
      have htries : (ev ++ ev').length ≤ st.statics.length + passesLeft st.passes * st.wildcard.length := by
        have := hl.tries
        rw [List.length_append]; omega
      cases l with
      | issued name n' p =>
        simp only
        refine ⟨?_, (by intro e h; cases h), (by simpa [Loop.num] using hnums), hnumbered,
          (by have := hl.passes.1; simpa [Loop.passes] using this), htries, ⟨rfl, rfl⟩⟩
        intro s h
        cases h
        obtain ⟨h1, pre, e, h2, h3, h4⟩ := hl.fresh _ _ _ rfl
        refine ⟨h1, rfl, hd', rfl, ev ++ pre, e, by simp [h2], h3, ?_⟩
        intro x hx
        rcases List.mem_append.mp hx with hx | hx
        · exact hsk x hx
        · exact h4 x hx
      | raised n' p =>
        simp only
        refine ⟨(by intro s h; cases h), (by intro e h; cases h; exact ⟨rfl, rfl, rfl⟩), (by simpa [Loop.num] using hnums), hnumbered,
          (by have := hl.passes.1; simpa [Loop.passes] using this), htries, ⟨rfl, rfl⟩⟩
      | gaveUp n' p =>
        simp only
        refine ⟨(by intro s h; cases h), (by intro e h; cases h; exact ⟨rfl, rfl, rfl⟩), (by simpa [Loop.num] using hnums), hnumbered,
          (by have := hl.passes.1; simpa [Loop.passes] using this), htries, ⟨rfl, rfl⟩⟩

/-! ### histories -/

theorem run_cons (cfg : Config) (st : State) (b : Env) (bs : List Env) :
    run cfg st (b :: bs) = ((request cfg st b).2.1, (request cfg st b).2.2) :: run cfg (request cfg st b).1 bs := by
  simp [run]

theorem results_cons (cfg : Config) (st : State) (b : Env) (bs : List Env) :
    results cfg st (b :: bs) = (request cfg st b).2.1 :: results cfg (request cfg st b).1 bs := by
  simp [results, run]

theorem issued_fresh (cfg : Config) (bs : List Env) : ∀ st : State,
    (issuedNames (results cfg st bs)).Nodup ∧ ∀ s ∈ issuedNames (results cfg st bs), s ∉ st.taken := by
  induction bs with
  | nil => intro st; simp [results, run, issuedNames]
  | cons b bs ih =>
    intro st
    rw [results_cons]
    have hr := request_ok cfg st b
    obtain ⟨ih1, ih2⟩ := ih (request cfg st b).1
    generalize (request cfg st b).2.1 = r at hr
    cases r with
    | name s =>
      obtain ⟨h1, h2, _⟩ := hr.name s rfl
      simp only [issuedNames]
      rw [h2] at ih2
      refine ⟨List.nodup_cons.mpr ⟨?_, ih1⟩, ?_⟩
      · intro hmem
        exact (ih2 s hmem) (List.mem_cons_self ..)
      · intro x hx
        rcases List.mem_cons.mp hx with rfl | hx
        · exact h1
        · intro hx2
          exact (ih2 x hx) (List.mem_cons_of_mem _ hx2)
    | error e =>
      obtain ⟨_, h2, _⟩ := hr.error e rfl
      simp only [issuedNames]
      rw [h2] at ih2
      exact ⟨ih1, ih2⟩

theorem dead_stays (cfg : Config) (bs : List Env) : ∀ st : State, st.dead = true →
    ∀ r ∈ results cfg st bs, r = .error .valueError := by
  induction bs with
  | nil => intro st _ r hr; simp [results, run] at hr
  | cons b bs ih =>
    intro st hd r hr
    rw [results_cons] at hr
    have h1 : (request cfg st b).2.1 = .error .valueError := by simp [request, hd]
    have h2 : (request cfg st b).1.dead = true := by simp [request, hd]
    rcases List.mem_cons.mp hr with rfl | hr
    · exact h1
    · exact ih _ h2 r hr

/-- all events of a history, in order -/
def allEvents (cfg : Config) (st : State) (bs : List Env) : List Event := (run cfg st bs).flatMap (·.2)

theorem nums_successive (cfg : Config) (bs : List Env) : ∀ st : State,
    numberedNums (allEvents cfg st bs) = upFrom st.num (numberedNums (allEvents cfg st bs)).length := by
  induction bs with
  | nil => intro st; simp [allEvents, run, numberedNums, upFrom]
  | cons b bs ih =>
    intro st
    have hr := (request_ok cfg st b).nums
    have hi := ih (request cfg st b).1
    simp only [allEvents, run_cons, List.flatMap_cons] at hi ⊢
    rw [numberedNums_append, List.length_append, ← upFrom_append, ← hr.1]
    rw [hr.2] at hi
    rw [← hi]

/-! ### giving up -/

theorem envErase_idem (e : Env) (k : Str) : envErase (envErase e k) k = envErase e k := by
  induction e with
  | nil => simp [envErase]
  | cons kv r ih =>
    obtain ⟨a, w⟩ := kv
    by_cases h : a = k <;> simp [envErase, h, ih]

theorem envErase_of_none (e : Env) (k : Str) (h : envGet e k = none) : envErase e k = e := by
  induction e with
  | nil => simp [envErase]
  | cons kv r ih =>
    obtain ⟨a, w⟩ := kv
    by_cases hk : a = k
    · simp [envGet, hk] at h
    · simp [envGet, hk] at h
      simp [envErase, hk, ih h]

end PlasVerif.Proofs.Filenames
namespace PlasVerif.Model.Filenames
/-- no fresh name can be formed from `item` under namespace `v` and number `n`:
    a variable is unbound, the template is invalid, or the name is already taken -/
def NotFresh (cfg : Config) (taken : List Str) (v : Env) (n : Nat) (item : Str) : Prop :=
  match expand cfg v n item with
  | .ok r _ => addExt cfg.ext r ∈ taken
  | _ => True
end PlasVerif.Model.Filenames
namespace PlasVerif.Proofs.Filenames
open PlasVerif.Model.Filenames PlasVerif.Spec.Filenames PlasVerif.Generated.Filenames

theorem staticWalk_nofresh (cfg : Config) (taken : List Str) (items : List Str) (vars : Env)
    (h : ∀ item ∈ items, ∀ n, NotFresh cfg taken vars n item) : ∀ n,
    (staticWalk cfg taken items vars n).1.isIssued = false ∧
    ∀ v' n', (staticWalk cfg taken items vars n).1 = .fell v' n' → v' = vars := by
  induction items with
  | nil => intro n; simp [staticWalk, Walk.isIssued]
  | cons item rest ih =>
    intro n
    have h0 := h item (List.mem_cons_self ..) n
    have ih' := ih (fun i hi => h i (List.mem_cons_of_mem _ hi))
    simp only [staticWalk]
    unfold NotFresh at h0
    split
    · exact ih' n
    · simp [Walk.isIssued]
    · rename_i r used heq
      rw [heq] at h0
      simp only [h0, if_true]
      exact ih' _

theorem altWalk_nofresh (cfg : Config) (taken : List Str) (S : Env → Prop) (hS : ∀ v, S v → S (envErase v numKey))
    (items : List Str) (h : ∀ item ∈ items, ∀ v n, S v → NotFresh cfg taken v n item) : ∀ v n, S v →
    (altWalk cfg taken items v n).1.isIssued = false ∧
    ∀ v' n', (altWalk cfg taken items v n).1 = .fell v' n' → S v' := by
  induction items with
  | nil =>
    intro v n hv
    simp only [altWalk, Walk.isIssued, true_and]
    intro v' n' heq
    cases heq
    exact hv
  | cons item rest ih =>
    intro v n hv
    have h0 := h item (List.mem_cons_self ..) v n hv
    have ih' := ih (fun i hi => h i (List.mem_cons_of_mem _ hi))
    simp only [altWalk]
    unfold NotFresh at h0
    split
    · exact ih' _ n (hS v hv)
    · simp [Walk.isIssued]
    · rename_i r used heq
      rw [heq] at h0
      simp only [h0, if_true]
      exact ih' _ _ hv

theorem passLoop_nofresh (cfg : Config) (taken wild : List Str) (S : Env → Prop) (hS : ∀ v, S v → S (envErase v numKey))
    (h : ∀ item ∈ wild, ∀ v n, S v → NotFresh cfg taken v n item) : ∀ fuel v n p, S v →
    (passLoop cfg taken wild fuel v n p).1.isIssued = false := by
  intro fuel
  induction fuel with
  | zero => intro v n p _; simp [passLoop, Loop.isIssued]
  | succ fuel ih =>
    intro v n p hv
    have ha := altWalk_nofresh cfg taken S hS wild h v n hv
    simp only [passLoop]
    generalize altWalk cfg taken wild v n = res at ha
    obtain ⟨w, ev⟩ := res
    cases w with
    | issued name rest k => simp [Walk.isIssued] at ha
    | raised rest k => simp [Loop.isIssued]
    | fell v' k =>
      simp only
      by_cases hf : fuel = 0
      · simp [hf, Loop.isIssued]
      · simp only [hf, if_false]
        exact ih v' k (p + 1) (ha.2 v' k rfl)

theorem request_gives_up (cfg : Config) (st : State) (b : Env) (hd : st.dead = false)
    (hs : ∀ item ∈ st.statics, ∀ n, NotFresh cfg st.taken (envUpdate st.vars b) n item)
    (hw : ∀ item ∈ st.wildcard, ∀ v n, (v = envUpdate st.vars b ∨ v = envErase (envUpdate st.vars b) numKey) →
      NotFresh cfg st.taken v n item) :
    (request cfg st b).2.1 = .error .valueError ∧ (request cfg st b).1.dead = true := by
  unfold request
  simp only [hd, Bool.false_eq_true, if_false]
  have h1 := staticWalk_nofresh cfg st.taken st.statics (envUpdate st.vars b) hs st.num
  generalize staticWalk cfg st.taken st.statics (envUpdate st.vars b) st.num = res at h1
  obtain ⟨w, ev⟩ := res
  cases w with
  | issued name rest k => simp [Walk.isIssued] at h1
  | raised rest k => simp
  | fell v' k =>
    simp only
    have hv : v' = envUpdate st.vars b := h1.2 v' k rfl
    subst hv
    unfold wildcardPhase
    have h2 := passLoop_nofresh cfg st.taken st.wildcard
      (fun v => v = envUpdate st.vars b ∨ v = envErase (envUpdate st.vars b) numKey)
      (by intro v hv
          rcases hv with rfl | rfl
          · exact Or.inr rfl
          · exact Or.inr (envErase_idem _ _))
      hw (passesLeft st.passes) (envUpdate st.vars b) k st.passes (Or.inl rfl)
    generalize passLoop cfg st.taken st.wildcard (passesLeft st.passes) (envUpdate st.vars b) k st.passes = res2 at h2
    obtain ⟨l, ev'⟩ := res2
    cases l with
    | issued name n' p => simp [Loop.isIssued] at h2
    | raised n' p => simp
    | gaveUp n' p => simp

/-! ### order: static names first, then the first bound alternative -/

theorem request_static_first (cfg : Config) (st : State) (b : Env) (item : Str) (rest : List Str) (r : Str) (u : Bool)
    (hd : st.dead = false) (hs : st.statics = item :: rest)
    (he : expand cfg (envUpdate st.vars b) st.num item = .ok r u) (hf : addExt cfg.ext r ∉ st.taken) :
    (request cfg st b).2.1 = .name (addExt cfg.ext r) ∧ (request cfg st b).1.statics = rest ∧
    (request cfg st b).1.num = bump st.num u := by
  unfold request
  simp [hd, hs, staticWalk, he, hf]

theorem altWalk_first_bound (cfg : Config) (taken : List Str) (pre : List Str) (item : Str) (post : List Str)
    (vars : Env) (num : Nat) (r : Str) (u : Bool) (hnum : envGet vars numKey = none)
    (hpre : ∀ p ∈ pre, expand cfg vars num p = .unbound)
    (he : expand cfg vars num item = .ok r u) (hf : addExt cfg.ext r ∉ taken) :
    (altWalk cfg taken (pre ++ item :: post) vars num).1 = .issued (addExt cfg.ext r) post (bump num u) := by
  induction pre with
  | nil => simp [altWalk, he, hf]
  | cons p ps ih =>
    have hp := hpre p (List.mem_cons_self ..)
    simp only [List.cons_append, altWalk, hp, envErase_of_none vars numKey hnum]
    exact ih (fun q hq => hpre q (List.mem_cons_of_mem _ hq))

theorem request_first_bound (cfg : Config) (st : State) (b : Env) (pre : List Str) (item : Str) (post : List Str)
    (r : Str) (u : Bool) (hd : st.dead = false) (hs : st.statics = []) (hw : st.wildcard = pre ++ item :: post)
    (hnum : envGet (envUpdate st.vars b) numKey = none)
    (hpre : ∀ p ∈ pre, expand cfg (envUpdate st.vars b) st.num p = .unbound)
    (he : expand cfg (envUpdate st.vars b) st.num item = .ok r u) (hf : addExt cfg.ext r ∉ st.taken) :
    (request cfg st b).2.1 = .name (addExt cfg.ext r) ∧ (request cfg st b).1.num = bump st.num u := by
  have ha := altWalk_first_bound cfg st.taken pre item post (envUpdate st.vars b) st.num r u hnum hpre he hf
  unfold request
  simp only [hd, Bool.false_eq_true, if_false, hs, staticWalk]
  unfold wildcardPhase
  simp only [passesLeft, passLoop, hw]
  generalize altWalk cfg st.taken (pre ++ item :: post) (envUpdate st.vars b) st.num = res at ha
  obtain ⟨w, ev⟩ := res
  simp only at ha
  subst ha
  simp


/-! ### whole histories: the static names -/

theorem statics_history (cfg : Config) (ss : List Str) : ∀ (st : State) (bs : List Env),
    st.dead = false → st.statics = ss → bs.length = ss.length →
    (∀ s ∈ ss, ∀ v n, ∃ u, expand cfg v n s = .ok s u) →
    (ss.map (addExt cfg.ext)).Nodup → (∀ s ∈ ss, addExt cfg.ext s ∉ st.taken) →
    results cfg st bs = ss.map (fun s => .name (addExt cfg.ext s)) := by
  induction ss with
  | nil =>
    intro st bs _ _ hl _ _ _
    have : bs = [] := List.eq_nil_of_length_eq_zero (by simpa using hl)
    subst this
    simp [results, run]
  | cons s rest ih =>
    intro st bs hd hs hl hlit hnd hfr
    cases bs with
    | nil => simp at hl
    | cons b bs =>
      obtain ⟨u, hu⟩ := hlit s (List.mem_cons_self ..) (envUpdate st.vars b) st.num
      have hf := hfr s (List.mem_cons_self ..)
      obtain ⟨h1, h2, _⟩ := request_static_first cfg st b s rest s u hd hs hu hf
      have hok := (request_ok cfg st b).name _ h1
      obtain ⟨_, ht, hd2, _⟩ := hok
      rw [results_cons, h1, List.map_cons]
      congr 1
      have hnd' : addExt cfg.ext s ∉ rest.map (addExt cfg.ext) ∧ (rest.map (addExt cfg.ext)).Nodup := by
        rw [List.map_cons] at hnd; exact List.nodup_cons.mp hnd
      apply ih _ bs hd2 h2 (by simpa using hl) (fun x hx => hlit x (List.mem_cons_of_mem _ hx)) hnd'.2
      intro x hx
      rw [ht]
      intro hmem
      rcases List.mem_cons.mp hmem with heq | hmem
      · exact hnd'.1 (by rw [← heq]; exact List.mem_map_of_mem hx)
      · exact hfr x (List.mem_cons_of_mem _ hx) hmem

/-! ### component functions -/

theorem limitLoop_eq_take (n : Nat) (ws acc : List Str) : limitLoop n ws acc = acc ++ ws.take n := by
  induction n generalizing ws acc with
  | zero => simp [limitLoop]
  | succ n ih =>
    cases ws with
    | nil => simp [limitLoop]
    | cons w ws => simp [limitLoop, ih]

theorem pad_length (w n : Nat) : (pad w n).length = max w (natDigits n).length := by
  simp [pad]; omega

theorem flatMap_single (v : Str) : v.flatMap (fun c => [c]) = v := by
  induction v with
  | nil => rfl
  | cons x xs ih => simp [List.flatMap_cons, ih]

theorem cleanSpec_append (bad sub a b : Str) : cleanSpec bad sub (a ++ b) = cleanSpec bad sub a ++ cleanSpec bad sub b := by
  simp [cleanSpec, List.flatMap_append]

theorem cleanSpec_disjoint (bad sub v : Str) (h : ∀ c ∈ v, c ∉ bad) : cleanSpec bad sub v = v := by
  induction v with
  | nil => rfl
  | cons x xs ih =>
    have hx := h x (List.mem_cons_self ..)
    have := ih (fun c hc => h c (List.mem_cons_of_mem _ hc))
    simp only [cleanSpec] at this ⊢
    simp [List.flatMap_cons, hx, this]

theorem cleanSpec_replaceChar (c : Nat) (rest sub : Str) (hrest : ∀ x ∈ sub, x ∉ rest) (v : Str) :
    cleanSpec rest sub (replaceChar c sub v) = cleanSpec (c :: rest) sub v := by
  induction v with
  | nil => rfl
  | cons x xs ihv =>
    have e1 : replaceChar c sub (x :: xs) = (if x = c then sub else [x]) ++ replaceChar c sub xs := by
      simp [replaceChar, List.flatMap_cons]
    have e2 : cleanSpec (c :: rest) sub (x :: xs) = (if x ∈ c :: rest then sub else [x]) ++ cleanSpec (c :: rest) sub xs := by
      simp [cleanSpec, List.flatMap_cons]
    rw [e1, cleanSpec_append, ihv, e2]
    congr 1
    by_cases hxc : x = c
    · simp [hxc, cleanSpec_disjoint rest sub sub hrest]
    · by_cases hxr : x ∈ rest
      · simp [hxc, hxr, cleanSpec, List.flatMap_cons]
      · simp [hxc, hxr, cleanSpec, List.flatMap_cons]

theorem clean_eq_cleanSpec (bad sub : Str) (h : ∀ c ∈ sub, c ∉ bad) (v : Str) : clean bad sub v = cleanSpec bad sub v := by
  induction bad generalizing v with
  | nil => simp [clean, cleanSpec]
  | cons c rest ih =>
    have hrest : ∀ x ∈ sub, x ∉ rest := fun x hx hr => h x hx (List.mem_cons_of_mem _ hr)
    have hstep : clean (c :: rest) sub v = clean rest sub (replaceChar c sub v) := by simp [clean]
    rw [hstep, ih hrest, cleanSpec_replaceChar c rest sub hrest]

theorem cleanSpec_no_bad (bad sub : Str) (h : ∀ c ∈ sub, c ∉ bad) (v : Str) : ∀ c ∈ cleanSpec bad sub v, c ∉ bad := by
  intro c hc
  simp only [cleanSpec, List.mem_flatMap] at hc
  obtain ⟨x, _, hx⟩ := hc
  by_cases hb : x ∈ bad
  · simp only [hb, if_true] at hx; exact h c hx
  · simp only [hb, if_false, List.mem_singleton] at hx; subst hx; exact hb


/-! ### literal text (no `$`) expands to itself -/

theorem matchKey_no_dollar (c : Nat) (cs : Str) (h : c ≠ cDollar) : matchKey (c :: cs) = none := by
  cases cs with
  | nil => simp [matchKey]
  | cons d r => simp [matchKey, h]

theorem findKeys_lit (s : Str) (h : ∀ c ∈ s, c ≠ cDollar) : findKeys 0 s = [] := by
  induction s with
  | nil => simp [findKeys]
  | cons c cs ih =>
    simp only [findKeys, matchKey_no_dollar c cs (h c (List.mem_cons_self ..))]
    exact ih (fun x hx => h x (List.mem_cons_of_mem _ hx))

theorem strip_lit (s : Str) (h : ∀ c ∈ s, c ≠ cDollar) : stripFormats s = s := by
  unfold stripFormats
  induction s with
  | nil => simp [scan]
  | cons c cs ih =>
    simp only [scan, mStrip, matchKey_no_dollar c cs (h c (List.mem_cons_self ..))]
    rw [ih (fun x hx => h x (List.mem_cons_of_mem _ hx))]

theorem substitute_lit (ns : Env) (s : Str) (h : ∀ c ∈ s, c ≠ cDollar) : substitute ns 0 s = .ok s := by
  induction s with
  | nil => simp [substitute]
  | cons c cs ih =>
    simp only [substitute, h c (List.mem_cons_self ..), if_false]
    rw [ih (fun x hx => h x (List.mem_cons_of_mem _ hx))]
    rfl

theorem expand_lit (cfg : Config) (v : Env) (n : Nat) (s : Str) (h : ∀ c ∈ s, c ≠ cDollar) :
    expand cfg v n s = .ok s (envHas (cleanEnv cfg v) numKey) := by
  simp [expand, findKeys_lit s h, applyKeys, strip_lit s h, substitute_lit _ s h]

end PlasVerif.Proofs.Filenames
