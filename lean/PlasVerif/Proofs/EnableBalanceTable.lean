import PlasVerif.Generated.ArgPaths
import PlasVerif.Proofs.EnableBalance
/-!
# The regenerated skeleton table is balanced

`PlasVerif.Generated.ArgPaths.skeletons` is regenerated from the current `plasTeX/TeX.py` on every run
(`harness/props/c05_paths.py`). The theorem below is a kernel evaluation (`decide`) of the checker on that finite
table, so this module **fails to build** exactly when some reader has a `return` / fall-off-the-end path on which
`ParameterCommand.enable()` / `.disable()` do not net to 0 (or a loop iteration that is not neutral);
`firstUnbalanced skeletons` (Model) names the function. Combined with `balanced_sound` this gives the statement for
every path and any number of loop iterations (`all_skeletons_paths_balanced`).
-/
namespace PlasVerif.Proofs.EnableBalanceTable
open PlasVerif.Model.EnableBalance PlasVerif.Proofs.EnableBalance
open PlasVerif.Generated.ArgPaths (skeletons)

/-- the table covers the seven anchored functions -/
theorem skeleton_names : skeletons.map (·.1) =
    ["readArgumentAndSource", "readDimen", "readMuDimen", "readUnitOfMeasure", "readInteger", "readGlue",
     "readMuGlue"] := by decide

set_option maxRecDepth 100000 in
theorem all_skeletons_balanced : ∀ p ∈ skeletons, balanced p.2 = true := by decide

/-- every return / fall-off-the-end execution of every listed reader restores the counter -/
theorem all_skeletons_paths_balanced :
    ∀ p ∈ skeletons, ∀ n m : Int, Exec p.2 n .returned m ∨ Exec p.2 n .normal m → m = n :=
  fun p hp => balanced_sound (all_skeletons_balanced p hp)

set_option maxRecDepth 100000 in
theorem firstUnbalanced_none : firstUnbalanced skeletons = none := by decide

end PlasVerif.Proofs.EnableBalanceTable
