import PlasVerif.Proofs.ConfigHist
import PlasVerif.Proofs.ConfigTotal
/-!
The converse for histories: a history inside the domain of the spec (every step well-formed, the denotation of every
option defined) raises nothing — every `read`, every `updateFromDict`, every assignment finishes.
-/
namespace PlasVerif.Proofs.ConfigHistTotal
open PlasVerif.Model.Config PlasVerif.Spec.Config PlasVerif.Proofs.Config PlasVerif.Proofs.ConfigRouting
  PlasVerif.Proofs.ConfigDest PlasVerif.Proofs.ConfigHist PlasVerif.Proofs.ConfigTotal

/-- the file stage from an arbitrary current value does not raise inside the domain -/
theorem files_total_from {ty : Ty} {cur : Val} {ms : List Mention} (hden : (denFilesFrom ty cur ms).isSome = true)
    (hatom : ∀ t, ty = .atom t → ∀ m ∈ ms, (specAtom t (mentionStr m)).isSome = true) :
    ∃ v, ms.foldlM (applyMention ty) cur = .ok v := by
  unfold denFilesFrom at hden
  cases ty with
  | atom t => exact fold_atom_some t ms cur (hatom t rfl)
  | list =>
    cases cur with
    | list xs => exact fold_list_some ms xs
    | atom a => simp at hden
    | dict k => simp at hden
  | dict t l =>
    cases cur with
    | dict kvs =>
      simp only [] at hden
      cases hf : ms.foldlM (dictMention t) kvs with
      | none => simp [hf] at hden
      | some k' => exact ⟨_, fold_dict_some t l ms kvs k' hf⟩
    | atom a => simp at hden
    | list xs => simp at hden

theorem mention_wf_file {T : Table} {f : File} {i : Nat} {o : Opt} (hi : T[i]? = some o)
    (hdom : (flat [f]).all (itemWf T) = true) (t : ATy) (hty : o.ty = .atom t) :
    ∀ m ∈ mentions T i o [f], (specAtom t (mentionStr m)).isSome = true :=
  mention_wf hi hdom t hty

/-- one step inside the domain does not raise -/
theorem stepHist_total {T : Table} (hwf : WF T = true) (hwc : WFcli T = true) {st : St}
    (ht : ∀ i o, T[i]? = some o → typedVal o.ty (st i) = true) (s : Step) (hs : stepWf T s = true)
    (hden : ∀ i o, T[i]? = some o → (denStep T i o (st i) s).isSome = true) :
    ∃ st', stepHist false T st s = .ok st' := by
  simp only [WF, Bool.and_eq_true] at hwf
  obtain ⟨hd, _⟩ := hwf
  cases s with
  | read f =>
    simp only [stepWf] at hs
    simp only [stepHist]
    apply file_total hd f st
    intro i o hi
    have hfl : flat [f] = f.flatMap secItems := by simp [flat]; rfl
    rw [optFold_mentions, ← hfl]
    have := hden i o hi
    simp only [denStep, mentions] at this
    exact files_total_from this (fun t hty => mention_wf_file hi hs t hty)
  | cli argv =>
    simp only [stepWf] at hs
    have hp := PlasVerif.Proofs.ConfigDomain.parseArgs_ok T argv hs
    obtain ⟨st', hu⟩ := updateFrom_total T argv T 0 st (by
      intro n o hn
      rw [Nat.zero_add, updateOptD_eq hwc hn argv hp _ (ht n o hn)]
      have := hden n o hn
      simp only [denStep] at this
      exact cli_total this)
    exact ⟨st', by simp only [stepHist, hp, bind, Except.bind]; exact hu⟩
  | assign sec key v =>
    simp only [stepWf, keyKnown] at hs
    have : (findIdx T sec key).isSome = true := by
      simp only [findIdx, List.findIdx?_isSome]
      exact hs
    obtain ⟨j, hj⟩ := Option.isSome_iff_exists.mp this
    exact ⟨st.set j v, by simp [stepHist, assign, hj, pure, Except.pure]⟩
  | observe => exact ⟨st, rfl⟩

/-- a well-formed assignment whose denotation is defined gives a value of the option's class -/
theorem assignOk_of_den {T : Table} (hwf : WF T = true) {st : St} (s : Step)
    (hden : ∀ i o, T[i]? = some o → (denStep T i o (st i) s).isSome = true) : assignOk T s := by
  cases s with
  | assign sec key v =>
    intro o ho hsec hkey
    obtain ⟨i, hi⟩ := List.getElem?_of_mem ho
    have := hden i o hi
    simp only [denStep, hsec, hkey, decide_true, Bool.and_self, if_true] at this
    by_cases hsh : shaped o.ty v = true
    · exact hsh
    · simp [hsh] at this
  | read f => trivial
  | cli a => trivial
  | observe => trivial

theorem foldlM_cons_isSome {α β} (f : β → α → Option β) (b : β) (a : α) (r : List α)
    (h : ((a :: r).foldlM f b).isSome = true) : ∃ b', f b a = some b' ∧ (r.foldlM f b').isSome = true := by
  simp only [List.foldlM_cons, bind, Option.bind] at h
  cases hf : f b a with
  | none => simp [hf] at h
  | some b' => exact ⟨b', rfl, by simpa [hf] using h⟩

/-- **a history inside the domain raises nothing** -/
theorem hist_total {T : Table} (hwf : WF T = true) (hwc : WFcli T = true) : ∀ (steps : List Step) (st : St),
    (∀ i o, T[i]? = some o → typedVal o.ty (st i) = true) → (∀ s ∈ steps, stepWf T s = true) →
    (∀ i o, T[i]? = some o → (steps.foldlM (denStep T i o) (st i)).isSome = true) →
    (hist false T steps st).2 = none := by
  intro steps
  induction steps with
  | nil => intro st _ _ _; rfl
  | cons s r ih =>
    intro st ht hs hden
    have hstep1 : ∀ i o, T[i]? = some o → (denStep T i o (st i) s).isSome = true := by
      intro i o hi
      obtain ⟨b', hb, _⟩ := foldlM_cons_isSome _ _ _ _ (hden i o hi)
      simp [hb]
    obtain ⟨st1, hst1⟩ := stepHist_total hwf hwc ht s (hs s List.mem_cons_self) hstep1
    have hone : ∀ i o, T[i]? = some o → denStep T i o (st i) s = some (st1 i) :=
      fun i o hi => stepHist_refines hwf hwc hi (ht i o hi) s (assignOk_of_den hwf s hstep1) hst1
    have ht1 : ∀ i o, T[i]? = some o → typedVal o.ty (st1 i) = true :=
      fun i o hi => denStep_typed (ht i o hi) s (hone i o hi)
    have hrest := ih st1 ht1 (fun x hx => hs x (List.mem_cons_of_mem _ hx)) (by
      intro i o hi
      obtain ⟨b', hb, hr⟩ := foldlM_cons_isSome _ _ _ _ (hden i o hi)
      rw [hone i o hi] at hb
      rw [Option.some.inj hb]; exact hr)
    simp only [hist, hst1]
    exact hrest

end PlasVerif.Proofs.ConfigHistTotal
