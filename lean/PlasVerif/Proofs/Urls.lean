import PlasVerif.Model.Urls
import PlasVerif.Spec.Links
/-! Helper lemmas for C14 (link targets). -/
namespace PlasVerif.Proofs.Urls
open PlasVerif.Model.Urls PlasVerif.Spec.Links

def toLink (u : Url) : Link Nat Id := ⟨u.file, u.frag⟩

/-! ### equations of the mutual definitions -/

@[simp] theorem urls_node (anc lv id num file kids) :
    urls anc (.node lv id num file kids) =
      (.node lv id num file kids, url (.node lv id num file kids) anc) ::
        urlsList (.node lv id num file kids :: anc) kids := by rw [urls]
@[simp] theorem urlsList_nil (anc) : urlsList anc [] = [] := by rw [urlsList]
@[simp] theorem urlsList_cons (anc t ts) : urlsList anc (t :: ts) = urls anc t ++ urlsList anc ts := by rw [urlsList]

@[simp] theorem render_node (lv id num file kids) :
    render (.node lv id num file kids) =
      match file with
      | some f => ([], (f, id.toList ++ (renderList kids).1) :: (renderList kids).2)
      | none => (id.toList ++ (renderList kids).1, (renderList kids).2) := by rw [render.eq_def]; cases file <;> rfl
@[simp] theorem renderList_nil : renderList [] = ([], []) := by rw [renderList]
@[simp] theorem renderList_cons (t ts) :
    renderList (t :: ts) = ((render t).1 ++ (renderList ts).1, (render t).2 ++ (renderList ts).2) := by rw [renderList]

@[simp] theorem idsOf_node (lv id num file kids) : idsOf (.node lv id num file kids) = id.toList ++ idsOfList kids := by rw [idsOf]
@[simp] theorem idsOfList_nil : idsOfList [] = [] := by rw [idsOfList]
@[simp] theorem idsOfList_cons (t ts) : idsOfList (t :: ts) = idsOf t ++ idsOfList ts := by rw [idsOfList]

@[simp] theorem filesOf_node (lv id num file kids) : filesOf (.node lv id num file kids) = file.toList ++ filesOfList kids := by rw [filesOf]
@[simp] theorem filesOfList_nil : filesOfList [] = [] := by rw [filesOfList]
@[simp] theorem filesOfList_cons (t ts) : filesOfList (t :: ts) = filesOf t ++ filesOfList ts := by rw [filesOfList]

@[simp] theorem walkUp_cons_some (a rest f) (h : a.file = some f) : walkUp (a :: rest) = some f := by
  simp [walkUp, h]
@[simp] theorem walkUp_cons_none (a rest) (h : a.file = none) : walkUp (a :: rest) = walkUp rest := by
  simp [walkUp, h]

/-! ### landing: the file `url` finds by walking up is the file `__str__` writes the node into -/

/-- a URL computed inside a subtree rendered under ancestors `anc` either goes to the enclosing file
    (and its fragment flows into the parent's string) or to a file written inside the subtree -/
def Good (anc : List Tree) (inl : List Id) (files : List (Nat × List Id)) (u : Url) : Prop :=
  (u.file = walkUp anc ∧ ∀ i, u.frag = some i → i ∈ inl) ∨
  (∃ f ids, u.file = some f ∧ (f, ids) ∈ files ∧ ∀ i, u.frag = some i → i ∈ ids)

theorem Good.mono {anc inl files u inl' files'} (h : Good anc inl files u)
    (h1 : ∀ i ∈ inl, i ∈ inl') (h2 : ∀ p ∈ files, p ∈ files') : Good anc inl' files' u := by
  rcases h with ⟨a, b⟩ | ⟨f, ids, a, b, c⟩
  · exact .inl ⟨a, fun i hi => h1 _ (b i hi)⟩
  · exact .inr ⟨f, ids, a, h2 _ b, c⟩

mutual
theorem land_tree (anc : List Tree) : ∀ (t : Tree), ∀ p ∈ urls anc t, Good anc (render t).1 (render t).2 p.2
  | .node lv id num file kids => by
    intro p hp
    have ih := land_list (.node lv id num file kids :: anc) kids
    simp only [urls_node, List.mem_cons] at hp
    rcases hp with rfl | hp
    · -- the node itself
      cases file with
      | some f =>
        right
        exact ⟨f, id.toList ++ (renderList kids).1, by simp [url, Tree.file], by simp, by simp [url, Tree.file]⟩
      | none =>
        left
        refine ⟨by simp [url, Tree.file], ?_⟩
        intro i hi
        simp [url, Tree.file, Tree.id] at hi
        simp [hi]
    · -- a descendant
      have g := ih p hp
      cases file with
      | some f =>
        right
        rcases g with ⟨a, b⟩ | ⟨f', ids, a, b, c⟩
        · refine ⟨f, id.toList ++ (renderList kids).1, ?_, by simp, ?_⟩
          · rw [a]; exact walkUp_cons_some _ _ _ rfl
          · intro i hi; simp [b i hi]
        · exact ⟨f', ids, a, by simp [b], c⟩
      | none =>
        have hw : walkUp (Tree.node lv id num none kids :: anc) = walkUp anc := walkUp_cons_none _ _ rfl
        rcases g with ⟨a, b⟩ | ⟨f', ids, a, b, c⟩
        · left
          exact ⟨by rw [a, hw], fun i hi => by simp [b i hi]⟩
        · right
          exact ⟨f', ids, a, by simpa using b, c⟩
theorem land_list (anc : List Tree) : ∀ (ts : List Tree), ∀ p ∈ urlsList anc ts,
    Good anc (renderList ts).1 (renderList ts).2 p.2
  | [] => by intro p hp; simp at hp
  | t :: ts => by
    intro p hp
    simp only [urlsList_cons, List.mem_append] at hp
    rcases hp with hp | hp
    · exact (land_tree anc t p hp).mono (fun i hi => by simp [hi]) (fun q hq => by simp [hq])
    · exact (land_list anc ts p hp).mono (fun i hi => by simp [hi]) (fun q hq => by simp [hq])
end

/- every file assigned in the tree is written by `render` -/
mutual
theorem files_written_tree : ∀ (t : Tree), ∀ f ∈ filesOf t, ∃ ids, (f, ids) ∈ (render t).2
  | .node lv id num file kids => by
    intro f hf
    simp only [filesOf_node, List.mem_append] at hf
    rcases hf with hf | hf
    · cases file with
      | none => simp at hf
      | some f0 =>
        simp at hf; subst hf
        exact ⟨id.toList ++ (renderList kids).1, by simp⟩
    · obtain ⟨ids, h⟩ := files_written_list kids f hf
      cases file with
      | none => exact ⟨ids, by simpa using h⟩
      | some f0 => exact ⟨ids, by simp [h]⟩
theorem files_written_list : ∀ (ts : List Tree), ∀ f ∈ filesOfList ts, ∃ ids, (f, ids) ∈ (renderList ts).2
  | [] => by intro f hf; simp at hf
  | t :: ts => by
    intro f hf
    simp only [filesOfList_cons, List.mem_append] at hf
    rcases hf with hf | hf
    · obtain ⟨ids, h⟩ := files_written_tree t f hf
      exact ⟨ids, by simp [h]⟩
    · obtain ⟨ids, h⟩ := files_written_list ts f hf
      exact ⟨ids, by simp [h]⟩
end

/-- for a root that creates a file, every URL of the tree lands in the rendered output -/
theorem land_root (root : Tree) (f : Nat) (hf : root.file = some f) :
    ∀ p ∈ urls [] root, Lands (render root).2 (toLink p.2) := by
  cases root with
  | node lv id num file kids =>
    simp only [Tree.file] at hf
    subst hf
    intro p hp
    simp only [urls_node, List.mem_cons] at hp
    rcases hp with rfl | hp
    · exact ⟨f, id.toList ++ (renderList kids).1, by simp [toLink, url, Tree.file], by simp, by simp [toLink, url, Tree.file]⟩
    · have g := land_list [.node lv id num (some f) kids] kids p hp
      rcases g with ⟨a, b⟩ | ⟨f', ids, a, b, c⟩
      · refine ⟨f, id.toList ++ (renderList kids).1, ?_, by simp, ?_⟩
        · simp only [toLink]; rw [a]; exact walkUp_cons_some _ _ _ rfl
        · intro i hi; simp [b i hi]
      · exact ⟨f', ids, a, by simp [b], c⟩

/-! ### what `pass` does to the root -/

theorem pass_file (touch mk : Int → Bool) (t : Tree) (g f : Nat) :
    (pass touch mk t g f).1.file = if mk t.level then some f else t.file := by
  cases t with
  | node lv id num file kids => cases h : mk lv <;> simp [pass, Tree.file, Tree.level, h]

theorem prepare_root_file (split : Int) (t : Tree) (g : Nat) (h : t.level ≤ split) :
    (prepare split t g).file = some 0 := by
  unfold prepare touchAll cacheFilenames
  rw [pass_file]
  simp
  rw [pass_file]
  simp [h]

/-! ### identifiers: list view of a pass (fresh-name generation) -/

mutual
def slots (touch : Int → Bool) : Tree → List (Bool × Option Id)
  | .node lv id _ _ kids => (touch lv, id) :: slotsList touch kids
def slotsList (touch : Int → Bool) : List Tree → List (Bool × Option Id)
  | [] => []
  | t :: ts => slots touch t ++ slotsList touch ts
end

/-- what a pre-order walk does to the identifiers, on the flat list of (touched?, id) -/
def fill : List (Bool × Option Id) → Nat → List Id × Nat
  | [], g => ([], g)
  | (true, id) :: r, g => ((getId id g).1 :: (fill r (getId id g).2).1, (fill r (getId id g).2).2)
  | (false, id) :: r, g => (id.toList ++ (fill r g).1, (fill r g).2)

def pre (l : List (Bool × Option Id)) : List Id := l.flatMap (fun s => s.2.toList)

theorem fill_append (a b : List (Bool × Option Id)) : ∀ g,
    fill (a ++ b) g = ((fill a g).1 ++ (fill b (fill a g).2).1, (fill b (fill a g).2).2) := by
  induction a with
  | nil => intro g; simp [fill]
  | cons s a ih =>
    intro g
    obtain ⟨tch, id⟩ := s
    cases tch <;> simp [fill, ih]

theorem pre_append (a b) : pre (a ++ b) = pre a ++ pre b := by simp [pre]
theorem pre_cons (b : Bool) (id : Option Id) (l) : pre ((b, id) :: l) = id.toList ++ pre l := by simp [pre]

mutual
theorem pass_fill (touch mk : Int → Bool) : ∀ (t : Tree) (g f : Nat),
    idsOf (pass touch mk t g f).1 = (fill (slots touch t) g).1 ∧
    (pass touch mk t g f).2.1 = (fill (slots touch t) g).2
  | .node lv id num file kids, g, f => by
    rw [pass, slots]
    cases h : touch lv
    · have ih := passList_fill touch mk kids g (if mk lv then f + 1 else f)
      simp [fill, h, ih.1, ih.2]
    · have ih := passList_fill touch mk kids (getId id g).2 (if mk lv then f + 1 else f)
      simp [fill, h, ih.1, ih.2]
theorem passList_fill (touch mk : Int → Bool) : ∀ (ts : List Tree) (g f : Nat),
    idsOfList (passList touch mk ts g f).1 = (fill (slotsList touch ts) g).1 ∧
    (passList touch mk ts g f).2.1 = (fill (slotsList touch ts) g).2
  | [], g, f => by rw [passList, slotsList]; simp [fill]
  | t :: ts, g, f => by
    rw [passList, slotsList, fill_append]
    have h1 := pass_fill touch mk t g f
    have h2 := passList_fill touch mk ts (pass touch mk t g f).2.1 (pass touch mk t g f).2.2
    simp [h1.1, h2.1, h2.2, ← h1.2]
end

mutual
theorem pre_slots (touch : Int → Bool) : ∀ (t : Tree), pre (slots touch t) = idsOf t
  | .node lv id num file kids => by
    rw [slots]; simp [pre]; exact pre_slotsList touch kids
theorem pre_slotsList (touch : Int → Bool) : ∀ (ts : List Tree), pre (slotsList touch ts) = idsOfList ts
  | [] => by rw [slotsList]; simp [pre]
  | t :: ts => by rw [slotsList, pre_append, pre_slots touch t, pre_slotsList touch ts]; simp
end

/-- a pass never lowers the counter, and every identifier afterwards is an old one or a fresh one
    drawn from the interval the counter moved over -/
theorem fill_spec : ∀ (l : List (Bool × Option Id)) (g : Nat),
    g ≤ (fill l g).2 ∧
    ∀ i ∈ (fill l g).1, i ∈ pre l ∨ ∃ k, i = .gen k ∧ g ≤ k ∧ k < (fill l g).2 := by
  intro l
  induction l with
  | nil => intro g; simp [fill]
  | cons s l ih =>
    intro g
    obtain ⟨tch, id⟩ := s
    cases tch with
    | false =>
      have := ih g
      simp only [fill, pre_cons]
      refine ⟨this.1, ?_⟩
      intro i hi
      simp only [List.mem_append] at hi ⊢
      rcases hi with hi | hi
      · exact .inl (.inl hi)
      · rcases this.2 i hi with h | h
        · exact .inl (.inr h)
        · exact .inr h
    | true =>
      cases id with
      | some j =>
        have := ih g
        simp only [fill, getId, pre_cons]
        refine ⟨this.1, ?_⟩
        intro i hi
        simp only [List.mem_cons, List.mem_append] at hi ⊢
        rcases hi with hi | hi
        · exact .inl (.inl (by simp [hi]))
        · rcases this.2 i hi with h | h
          · exact .inl (.inr h)
          · exact .inr h
      | none =>
        have := ih (g + 1)
        simp only [fill, getId, pre_cons]
        refine ⟨by omega, ?_⟩
        intro i hi
        simp only [List.mem_cons] at hi
        rcases hi with hi | hi
        · exact .inr ⟨g, hi, by omega, by omega⟩
        · rcases this.2 i hi with h | h
          · exact .inl (by simpa using h)
          · obtain ⟨k, a, b, c⟩ := h
            exact .inr ⟨k, a, by omega, c⟩

theorem fill_nodup : ∀ (l : List (Bool × Option Id)) (g : Nat),
    (pre l).Nodup → (∀ k, Id.gen k ∈ pre l → k < g) → (fill l g).1.Nodup := by
  intro l
  induction l with
  | nil => intro g _ _; simp [fill]
  | cons s l ih =>
    intro g hn hb
    obtain ⟨tch, id⟩ := s
    have hpre : pre ((tch, id) :: l) = id.toList ++ pre l := by simp [pre]
    rw [hpre] at hn hb
    have hn' := List.nodup_append.mp hn
    have hbl : ∀ k, Id.gen k ∈ pre l → k < g := fun k hk => hb k (by simp [hk])
    cases tch with
    | false =>
      simp only [fill]
      have sp := fill_spec l g
      refine List.nodup_append.mpr ⟨hn'.1, ih g hn'.2.1 hbl, ?_⟩
      intro a ha b hb' hab
      subst hab
      rcases sp.2 a hb' with h | ⟨k, rfl, h1, _⟩
      · exact hn'.2.2 a ha a h rfl
      · have := hb k (by simp [ha]); omega
    | true =>
      cases id with
      | some j =>
        simp only [fill, getId]
        have sp := fill_spec l g
        refine List.nodup_cons.mpr ⟨?_, ih g hn'.2.1 hbl⟩
        intro hj
        rcases sp.2 j hj with h | ⟨k, rfl, h1, _⟩
        · exact hn'.2.2 j (by simp) j h rfl
        · have := hb k (by simp); omega
      | none =>
        simp only [fill, getId]
        have sp := fill_spec l (g + 1)
        refine List.nodup_cons.mpr ⟨?_, ih (g + 1) hn'.2.1 (fun k hk => by have := hbl k hk; omega)⟩
        intro hj
        rcases sp.2 _ hj with h | ⟨k, hk, h1, _⟩
        · have := hbl g h; omega
        · cases hk; omega

/-- ids after a pass are distinct and below the new counter, if they were before -/
theorem pass_nodup (touch mk : Int → Bool) (t : Tree) (g f : Nat)
    (hn : (idsOf t).Nodup) (hb : ∀ k, Id.gen k ∈ idsOf t → k < g) :
    (idsOf (pass touch mk t g f).1).Nodup ∧
    ∀ k, Id.gen k ∈ idsOf (pass touch mk t g f).1 → k < (pass touch mk t g f).2.1 := by
  have e := pass_fill touch mk t g f
  have p := pre_slots touch t
  rw [e.1, e.2]
  refine ⟨fill_nodup _ g (by rw [p]; exact hn) (by rw [p]; exact hb), ?_⟩
  intro k hk
  have sp := fill_spec (slots touch t) g
  rcases sp.2 _ hk with h | ⟨k', hk', _, h2⟩
  · rw [p] at h; have := hb k h; omega
  · cases hk'; exact h2

theorem prepare_nodup (split : Int) (t : Tree) (g : Nat)
    (hn : (idsOf t).Nodup) (hb : ∀ k, Id.gen k ∈ idsOf t → k < g) :
    (idsOf (prepare split t g)).Nodup := by
  unfold prepare touchAll cacheFilenames
  have a := pass_nodup (fun lv => decide (lv ≤ split)) (fun lv => decide (lv ≤ split)) t g 0 hn hb
  exact (pass_nodup _ _ _ _ 0 a.1 a.2).1

/-! ### the rendered files only contain identifiers of the tree, each once -/

mutual
theorem render_sub : ∀ (t : Tree),
    (∀ i ∈ (render t).1, i ∈ idsOf t) ∧ (∀ p ∈ (render t).2, ∀ i ∈ p.2, i ∈ idsOf t)
  | .node lv id num file kids => by
    have ih := renderList_sub kids
    cases file with
    | none =>
      simp only [render_node, idsOf_node]
      refine ⟨?_, ?_⟩
      · intro i hi; simp only [List.mem_append] at hi ⊢
        rcases hi with hi | hi
        · exact .inl hi
        · exact .inr (ih.1 i hi)
      · intro p hp i hi; simp only [List.mem_append]; exact .inr (ih.2 p hp i hi)
    | some f =>
      simp only [render_node, idsOf_node]
      refine ⟨by simp, ?_⟩
      intro p hp i hi
      simp only [List.mem_cons] at hp
      simp only [List.mem_append]
      rcases hp with rfl | hp
      · simp only [List.mem_append] at hi
        rcases hi with hi | hi
        · exact .inl hi
        · exact .inr (ih.1 i hi)
      · exact .inr (ih.2 p hp i hi)
theorem renderList_sub : ∀ (ts : List Tree),
    (∀ i ∈ (renderList ts).1, i ∈ idsOfList ts) ∧ (∀ p ∈ (renderList ts).2, ∀ i ∈ p.2, i ∈ idsOfList ts)
  | [] => by simp
  | t :: ts => by
    have a := render_sub t
    have b := renderList_sub ts
    simp only [renderList_cons, idsOfList_cons]
    refine ⟨?_, ?_⟩
    · intro i hi; simp only [List.mem_append] at hi ⊢
      rcases hi with hi | hi
      · exact .inl (a.1 i hi)
      · exact .inr (b.1 i hi)
    · intro p hp i hi; simp only [List.mem_append] at hp ⊢
      rcases hp with hp | hp
      · exact .inl (a.2 p hp i hi)
      · exact .inr (b.2 p hp i hi)
end

mutual
theorem render_nodup : ∀ (t : Tree), (idsOf t).Nodup →
    (render t).1.Nodup ∧ ∀ p ∈ (render t).2, p.2.Nodup
  | .node lv id num file kids => by
    intro hn
    simp only [idsOf_node] at hn
    have hn' := List.nodup_append.mp hn
    have ih := renderList_nodup kids hn'.2.1
    have sub := renderList_sub kids
    have own : (id.toList ++ (renderList kids).1).Nodup := by
      refine List.nodup_append.mpr ⟨hn'.1, ih.1, ?_⟩
      intro a ha b hb hab
      exact hn'.2.2 a ha b (sub.1 b hb) hab
    cases file with
    | none => simp only [render_node]; exact ⟨own, ih.2⟩
    | some f =>
      simp only [render_node]
      refine ⟨by simp, ?_⟩
      intro p hp
      simp only [List.mem_cons] at hp
      rcases hp with rfl | hp
      · exact own
      · exact ih.2 p hp
theorem renderList_nodup : ∀ (ts : List Tree), (idsOfList ts).Nodup →
    (renderList ts).1.Nodup ∧ ∀ p ∈ (renderList ts).2, p.2.Nodup
  | [] => by simp
  | t :: ts => by
    intro hn
    simp only [idsOfList_cons] at hn
    have hn' := List.nodup_append.mp hn
    have a := render_nodup t hn'.1
    have b := renderList_nodup ts hn'.2.1
    have sa := render_sub t
    have sb := renderList_sub ts
    simp only [renderList_cons]
    refine ⟨List.nodup_append.mpr ⟨a.1, b.1, ?_⟩, ?_⟩
    · intro x hx y hy hxy
      exact hn'.2.2 x (sa.1 x hx) y (sb.1 y hy) hxy
    · intro p hp
      simp only [List.mem_append] at hp
      rcases hp with hp | hp
      · exact a.2 p hp
      · exact b.2 p hp
end

/-! ### labels -/

theorem find_unique {α} (key : α → String) : ∀ (L : List α) (e : α),
    (L.map key).Nodup → e ∈ L → L.find? (fun x => key x == key e) = some e := by
  intro L
  induction L with
  | nil => intro e _ h; simp at h
  | cons x L ih =>
    intro e hn he
    simp only [List.map_cons, List.nodup_cons] at hn
    simp only [List.mem_cons] at he
    by_cases hx : key x = key e
    · rcases he with rfl | he
      · simp
      · exfalso; apply hn.1; rw [hx]; exact List.mem_map_of_mem he
    · rcases he with rfl | he
      · exact absurd rfl hx
      · rw [List.find?_cons_of_neg (by simpa using hx)]; exact ih e hn.2 he

/-! ### table of contents -/

@[simp] theorem proxyLinks_node (nf limit lvl anc lv id num file kids) :
    proxyLinks nf limit lvl anc (.node lv id num file kids) =
      url (.node lv id num file kids) anc ::
        (if lvl < limit then entriesLinks nf limit (lvl + 1) (.node lv id num file kids :: anc) kids else []) := by
  rw [proxyLinks]
@[simp] theorem entriesLinks_nil (nf limit lvl anc) : entriesLinks nf limit lvl anc [] = [] := by rw [entriesLinks]
@[simp] theorem entriesLinks_cons (nf limit lvl anc k ks) :
    entriesLinks nf limit lvl anc (k :: ks) =
      (if tocEntry nf k then proxyLinks nf limit lvl anc k else []) ++ entriesLinks nf limit lvl anc ks := by
  rw [entriesLinks]

/- every toc link is the URL of a node of the tree (computed with its real ancestors) -/
mutual
theorem proxy_sub (nf : Bool) (limit : Int) : ∀ (t : Tree) (lvl : Int) (anc : List Tree),
    ∀ u ∈ proxyLinks nf limit lvl anc t, ∃ p ∈ urls anc t, p.2 = u
  | .node lv id num file kids, lvl, anc => by
    intro u hu
    simp only [proxyLinks_node, List.mem_cons] at hu
    rcases hu with rfl | hu
    · exact ⟨(.node lv id num file kids, url (.node lv id num file kids) anc), by simp, rfl⟩
    · split at hu
      · obtain ⟨p, hp, e⟩ := entries_sub nf limit kids (lvl + 1) (.node lv id num file kids :: anc) u hu
        exact ⟨p, by simp [hp], e⟩
      · simp at hu
theorem entries_sub (nf : Bool) (limit : Int) : ∀ (ks : List Tree) (lvl : Int) (anc : List Tree),
    ∀ u ∈ entriesLinks nf limit lvl anc ks, ∃ p ∈ urlsList anc ks, p.2 = u
  | [], _, _ => by simp
  | k :: ks, lvl, anc => by
    intro u hu
    simp only [entriesLinks_cons, List.mem_append] at hu
    rcases hu with hu | hu
    · split at hu
      · obtain ⟨p, hp, e⟩ := proxy_sub nf limit k lvl anc u hu
        exact ⟨p, by simp [hp], e⟩
      · simp at hu
    · obtain ⟨p, hp, e⟩ := entries_sub nf limit ks lvl anc u hu
      exact ⟨p, by simp [hp], e⟩
end

@[simp] theorem heightT_node (lv id num file kids) : heightT (.node lv id num file kids) = 1 + heightL kids := by rw [heightT]
@[simp] theorem heightL_nil : heightL [] = 0 := by rw [heightL]
@[simp] theorem heightL_cons (t ts) : heightL (t :: ts) = max (heightT t) (heightL ts) := by rw [heightL]
@[simp] theorem tocOK_node (lv id num file kids) : tocOK (.node lv id num file kids) = tocOKList kids := by rw [tocOK]
@[simp] theorem tocOKList_nil : tocOKList [] = true := by rw [tocOKList]
@[simp] theorem tocOKList_cons (k ks) : tocOKList (k :: ks) =
    (((filesOf k).isEmpty || (isSub k && hasFile k && tocOK k)) && tocOKList ks) := by rw [tocOKList]

theorem heightL_pos_of_mem : ∀ (ks : List Tree) (f : Nat), f ∈ filesOfList ks → 1 ≤ heightL ks
  | [], f, h => by simp at h
  | k :: ks, f, _ => by
    cases k with
    | node lv id num file kids => simp; omega

/- with a depth limit that covers the nesting, every file below the entries is linked -/
mutual
theorem proxy_reach (nf : Bool) (limit : Int) : ∀ (t : Tree) (lvl : Int) (anc : List Tree),
    tocOK t = true → hasFile t = true → lvl + heightT t ≤ limit + 1 →
    ∀ f ∈ filesOf t, ∃ u ∈ proxyLinks nf limit lvl anc t, u.file = some f
  | .node lv id num file kids, lvl, anc => by
    intro hok hf hh f hm
    simp only [heightT_node] at hh
    simp only [filesOf_node, List.mem_append] at hm
    rcases hm with hm | hm
    · cases file with
      | none => simp at hm
      | some f0 =>
        simp at hm; subst hm
        exact ⟨url (.node lv id num (some f) kids) anc, by simp, by simp [url, Tree.file]⟩
    · have hpos := heightL_pos_of_mem kids f hm
      have hlt : lvl < limit := by omega
      obtain ⟨u, hu, e⟩ := entries_reach nf limit kids (lvl + 1) (.node lv id num file kids :: anc)
        (by simpa using hok) (by omega) f hm
      exact ⟨u, by simp [hlt, hu], e⟩
theorem entries_reach (nf : Bool) (limit : Int) : ∀ (ks : List Tree) (lvl : Int) (anc : List Tree),
    tocOKList ks = true → lvl + heightL ks ≤ limit + 1 →
    ∀ f ∈ filesOfList ks, ∃ u ∈ entriesLinks nf limit lvl anc ks, u.file = some f
  | [], _, _ => by simp
  | k :: ks, lvl, anc => by
    intro hok hh f hm
    simp only [tocOKList_cons, Bool.and_eq_true, Bool.or_eq_true] at hok
    simp only [heightL_cons] at hh
    simp only [filesOfList_cons, List.mem_append] at hm
    rcases hm with hm | hm
    · rcases hok.1 with he | hk
      · rw [List.isEmpty_iff.mp he] at hm; simp at hm
      · obtain ⟨u, hu, e⟩ := proxy_reach nf limit k lvl anc hk.2 hk.1.2 (by omega) f hm
        have hent : tocEntry nf k = true := by simp [tocEntry, hk.1.1, hk.1.2]
        exact ⟨u, by simp [hent, hu], e⟩
    · obtain ⟨u, hu, e⟩ := entries_reach nf limit ks lvl anc hok.2 (by omega) f hm
      exact ⟨u, by simp [hu], e⟩
end

theorem any_sub_file : ∀ (ks : List Tree) (f : Nat), tocOKList ks = true → f ∈ filesOfList ks →
    (ks.filter isSub).any hasFile = true
  | [], f, _, h => by simp at h
  | k :: ks, f, hok, hm => by
    simp only [tocOKList_cons, Bool.and_eq_true, Bool.or_eq_true] at hok
    simp only [filesOfList_cons, List.mem_append] at hm
    rcases hm with hm | hm
    · rcases hok.1 with he | hk
      · rw [List.isEmpty_iff.mp he] at hm; simp at hm
      · simp [List.filter, hk.1.1, hk.1.2]
    · have := any_sub_file ks f hok.2 hm
      simp only [List.filter_cons]
      split
      · simp [this]
      · exact this

end PlasVerif.Proofs.Urls
