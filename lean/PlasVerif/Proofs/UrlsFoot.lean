import PlasVerif.Proofs.Urls
/-! Helper lemmas for C14: footnote marks and footnote texts end up in the same file; effective split level. -/
namespace PlasVerif.Proofs.UrlsFoot
open PlasVerif.Model.Urls PlasVerif.Proofs.Urls

@[simp] theorem footnotes_node (anc lv id info file kids) :
    footnotes anc (.node lv id info file kids) =
      (if info.foot then [(.node lv id info file kids, (url (.node lv id info file kids) anc).file, footOwner anc)] else []) ++
        footnotesList (.node lv id info file kids :: anc) kids := by rw [footnotes]
@[simp] theorem footnotesList_nil (anc) : footnotesList anc [] = [] := by rw [footnotesList]
@[simp] theorem footnotesList_cons (anc t ts) :
    footnotesList anc (t :: ts) = footnotes anc t ++ footnotesList anc ts := by rw [footnotesList]

@[simp] theorem allNodes_node (P lv id info file kids) :
    allNodes P (.node lv id info file kids) = (P lv info file && allNodesList P kids) := by rw [allNodes]
@[simp] theorem allNodesList_nil (P) : allNodesList P [] = true := by rw [allNodesList]
@[simp] theorem allNodesList_cons (P t ts) :
    allNodesList P (t :: ts) = (allNodes P t && allNodesList P ts) := by rw [allNodesList]

/-- when only sections create files, the section walk of `SectionUtils.footnotes` and the parent walk of
    `Renderable.url` find the same file -/
theorem footOwner_eq_walkUp : ∀ (anc : List Tree), (∀ a ∈ anc, hasFile a = true → isSub a = true) →
    footOwner anc = walkUp anc
  | [], _ => by simp [footOwner, walkUp]
  | a :: rest, h => by
    have ih := footOwner_eq_walkUp rest (fun x hx => h x (by simp [hx]))
    cases hf : a.file with
    | none =>
      simp only [footOwner, walkUp, hf]
      split <;> exact ih
    | some f =>
      have hs : isSub a = true := h a (by simp) (by simp [hasFile, hf])
      simp [footOwner, walkUp, hf, hs]

/-- the node predicate of `navOK` -/
def navP : Int → Info → Option Nat → Bool :=
  fun lv info file => (!file.isSome || decide (lv < endSections)) && (!info.foot || decide (endSections ≤ lv))

theorem navOK_eq (t : Tree) : navOK t = allNodes navP t := rfl

mutual
theorem foot_tree (anc : List Tree) (ha : ∀ a ∈ anc, hasFile a = true → isSub a = true) :
    ∀ (t : Tree), allNodes navP t = true → ∀ e ∈ footnotes anc t, e.2.1 = e.2.2 ∧ e.1.foot = true
  | .node lv id info file kids => by
    intro hok e he
    simp only [allNodes_node, Bool.and_eq_true] at hok
    have hself : hasFile (.node lv id info file kids) = true → isSub (.node lv id info file kids) = true := by
      intro hf
      have := hok.1
      simp only [navP, Bool.and_eq_true, Bool.or_eq_true, Bool.not_eq_true', decide_eq_true_eq] at this
      simp only [hasFile, Tree.file] at hf
      simp only [isSub, Tree.level]
      rcases this.1 with h | h
      · simp [h] at hf
      · exact decide_eq_true h
    simp only [footnotes_node, List.mem_append] at he
    rcases he with he | he
    · split at he
      · rename_i hfoot
        simp only [List.mem_singleton] at he
        subst he
        refine ⟨?_, by simpa [Tree.foot] using hfoot⟩
        -- a footnote is not a section, so it has no file: its mark is in the file found by walking up
        have hnf : file = none := by
          have := hok.1
          simp only [navP, Bool.and_eq_true, Bool.or_eq_true, Bool.not_eq_true', decide_eq_true_eq] at this
          cases file with
          | none => rfl
          | some f =>
            rcases this.1 with h | h
            · simp at h
            · rcases this.2 with h2 | h2
              · simp [hfoot] at h2
              · simp only [endSections] at h h2; omega
        subst hnf
        simp only [url, Tree.file]
        exact (footOwner_eq_walkUp anc ha).symm
      · simp at he
    · exact foot_list (.node lv id info file kids :: anc)
        (by intro a haa; simp only [List.mem_cons] at haa; rcases haa with rfl | haa
            · exact hself
            · exact ha a haa) kids hok.2 e he
theorem foot_list (anc : List Tree) (ha : ∀ a ∈ anc, hasFile a = true → isSub a = true) :
    ∀ (ts : List Tree), allNodesList navP ts = true → ∀ e ∈ footnotesList anc ts, e.2.1 = e.2.2 ∧ e.1.foot = true
  | [] => by intro _ e he; simp at he
  | t :: ts => by
    intro hok e he
    simp only [allNodesList_cons, Bool.and_eq_true] at hok
    simp only [footnotesList_cons, List.mem_append] at he
    rcases he with he | he
    · exact foot_tree anc ha t hok.1 e he
    · exact foot_list anc ha ts hok.2 e he
end

/- footnotes are nodes of the tree with their real URL -/
mutual
theorem footnotes_sub (anc : List Tree) : ∀ (t : Tree), ∀ e ∈ footnotes anc t,
    ∃ p ∈ urls anc t, p.1 = e.1 ∧ p.2.file = e.2.1
  | .node lv id info file kids => by
    intro e he
    simp only [footnotes_node, List.mem_append] at he
    rcases he with he | he
    · split at he
      · simp only [List.mem_singleton] at he
        subst he
        exact ⟨(.node lv id info file kids, url (.node lv id info file kids) anc), by simp, rfl, rfl⟩
      · simp at he
    · obtain ⟨p, hp, e1, e2⟩ := footnotesList_sub (.node lv id info file kids :: anc) kids e he
      exact ⟨p, by simp [hp], e1, e2⟩
theorem footnotesList_sub (anc : List Tree) : ∀ (ts : List Tree), ∀ e ∈ footnotesList anc ts,
    ∃ p ∈ urlsList anc ts, p.1 = e.1 ∧ p.2.file = e.2.1
  | [] => by intro e he; simp at he
  | t :: ts => by
    intro e he
    simp only [footnotesList_cons, List.mem_append] at he
    rcases he with he | he
    · obtain ⟨p, hp, e1, e2⟩ := footnotes_sub anc t e he
      exact ⟨p, by simp [hp], e1, e2⟩
    · obtain ⟨p, hp, e1, e2⟩ := footnotesList_sub anc ts e he
      exact ⟨p, by simp [hp], e1, e2⟩
end

/-! ### `pass` and node predicates -/

mutual
theorem pass_allNodes (touch mk : Int → Bool) (P Q : Int → Info → Option Nat → Bool)
    (h : ∀ lv info file f, P lv info file = true → Q lv info (if mk lv then some f else file) = true) :
    ∀ (t : Tree) (g f : Nat), allNodes P t = true → allNodes Q (pass touch mk t g f).1 = true
  | .node lv id info file kids, g, f => by
    intro hp
    simp only [allNodes_node, Bool.and_eq_true] at hp
    rw [pass]
    simp only [allNodes_node, Bool.and_eq_true]
    exact ⟨h lv info file f hp.1, passList_allNodes touch mk P Q h kids _ _ hp.2⟩
theorem passList_allNodes (touch mk : Int → Bool) (P Q : Int → Info → Option Nat → Bool)
    (h : ∀ lv info file f, P lv info file = true → Q lv info (if mk lv then some f else file) = true) :
    ∀ (ts : List Tree) (g f : Nat), allNodesList P ts = true → allNodesList Q (passList touch mk ts g f).1 = true
  | [], _, _ => by intro _; rw [passList]; simp
  | t :: ts, g, f => by
    intro hp
    simp only [allNodesList_cons, Bool.and_eq_true] at hp
    rw [passList]
    simp only [allNodesList_cons, Bool.and_eq_true]
    exact ⟨pass_allNodes touch mk P Q h t g f hp.1, passList_allNodes touch mk P Q h ts _ _ hp.2⟩
end

theorem prepare_navOK (split : Int) (hs : split < endSections) (t : Tree) (g : Nat) (h : inputOK t = true) :
    navOK (prepare split t g) = true := by
  unfold prepare touchAll cacheFilenames
  rw [navOK_eq]
  refine pass_allNodes _ _ navP navP ?_ _ _ _ (pass_allNodes _ _ _ navP ?_ t g 0 h)
  · intro lv info file f hq; simpa using hq
  · intro lv info file f hp
    simp only [Bool.and_eq_true, Bool.or_eq_true, Bool.not_eq_true', decide_eq_true_eq, Option.isNone_iff_eq_none] at hp
    obtain ⟨hnone, hfoot⟩ := hp
    subst hnone
    simp only [navP, Bool.and_eq_true, Bool.or_eq_true, Bool.not_eq_true', decide_eq_true_eq]
    refine ⟨?_, hfoot⟩
    by_cases hl : lv ≤ split
    · right; omega
    · left; simp [hl]

theorem effSplit_lt (split : Int) (tmpl : List Char) (hs : split < endSections) : effSplit split tmpl < endSections := by
  unfold effSplit
  split
  · exact hs
  · simp [endSections]

theorem effSplit_cases (split : Int) (tmpl : List Char) : effSplit split tmpl = split ∨ effSplit split tmpl = -10 := by
  unfold effSplit; split <;> simp

/-! ### navigation entries registered by the parser -/

theorem setLinkType_inTree (links : List NavEntry) (e : NavEntry) (h : ∀ x ∈ links, x.inTree = true)
    (he : e.inTree = true) : ∀ x ∈ setLinkType links e, x.inTree = true := by
  intro x hx
  unfold setLinkType at hx
  split at hx
  · exact h x hx
  · simp only [List.mem_cons, List.mem_filter] at hx
    rcases hx with rfl | hx
    · exact he
    · exact h x hx.1

theorem parseNav_inTree_go : ∀ (hist : List Inst) (links : List NavEntry), (∀ x ∈ links, x.inTree = true) →
    ∀ x ∈ hist.foldl invokeInst links, x.inTree = true
  | [], links, h => by simpa using h
  | i :: rest, links, h => by
    simp only [List.foldl_cons]
    apply parseNav_inTree_go rest
    cases i with
    | cmd k p => exact setLinkType_inTree links _ h rfl
    | envBegin k p => exact setLinkType_inTree links _ h rfl
    | envEnd k p => exact h

/-- at most one entry per key (a dictionary) -/
theorem setLinkType_keys (links : List NavEntry) (e : NavEntry) (h : (links.map (·.key)).Nodup) :
    ((setLinkType links e).map (·.key)).Nodup := by
  unfold setLinkType
  split
  · exact h
  · simp only [List.map_cons, List.nodup_cons]
    refine ⟨?_, ?_⟩
    · intro hm
      obtain ⟨x, hx, hk⟩ := List.mem_map.mp hm
      simp only [List.mem_filter] at hx
      simp [hk] at hx
    · exact (List.Sublist.map _ List.filter_sublist).nodup h

end PlasVerif.Proofs.UrlsFoot
