import PlasVerif.Proofs.Filenames
/-!
C15, observation O3: `passes` counts the wildcard passes of the generator's whole life, not of one
request.  The lemmas here compare a run of the pass loop with the budget that is left
(`passesLeft st.passes`) against a run with any other budget, so that the requests that fail although
a fresh name exists are characterised exactly.
-/
namespace PlasVerif.Model.Filenames
def Loop.isGaveUp : Loop → Bool
  | .gaveUp .. => true | _ => false
/-- the same state with the lifetime pass counter reset: the budget a request would have if the
    give-up bound were counted per request -/
def State.fresh (st : State) : State := { st with passes := 0 }
end PlasVerif.Model.Filenames

namespace PlasVerif.Proofs.Filenames
open PlasVerif.Model.Filenames PlasVerif.Spec.Filenames PlasVerif.Generated.Filenames

theorem fst_let_pair {α β γ : Type} (x : α × β) (g : β → γ) :
    (match x with | (l, e) => (l, g e)).1 = x.1 := by
  cases x; rfl

/-- Two runs of the pass loop from the same namespace and number, one with budget `f` (counter at `p`),
    one with budget `k` (counter at `p'`): if the first ends in its `j`-th pass (`j = q - p`) by issuing
    (or raising), the second does the same in its `j`-th pass when `j ≤ k` and gives up when `k < j`;
    if the first gives up, every run with a budget `≤ f` gives up. -/
theorem passLoop_budget (cfg : Config) (taken wild : List Str) : ∀ (f : Nat) (vars : Env) (n p k p' : Nat),
    match (passLoop cfg taken wild f vars n p).1 with
    | .issued s n' q =>
      (q - p ≤ k → (passLoop cfg taken wild k vars n p').1 = .issued s n' (p' + (q - p))) ∧
      (k < q - p → (passLoop cfg taken wild k vars n p').1.isGaveUp = true)
    | .raised n' q =>
      (q - p ≤ k → (passLoop cfg taken wild k vars n p').1 = .raised n' (p' + (q - p))) ∧
      (k < q - p → (passLoop cfg taken wild k vars n p').1.isGaveUp = true)
    | .gaveUp _ _ => k ≤ f → (passLoop cfg taken wild k vars n p').1.isGaveUp = true := by
  intro f
  induction f with
  | zero =>
    intro vars n p k p'
    simp only [passLoop]
    intro hk
    have : k = 0 := by omega
    subst this
    simp [passLoop, Loop.isGaveUp]
  | succ f ih =>
    intro vars n p k p'
    have h0 : (passLoop cfg taken wild 0 vars n p').1.isGaveUp = true := by simp [passLoop, Loop.isGaveUp]
    cases k with
    | zero =>
      have hq := (passLoop_ok cfg taken wild (f + 1) vars n p).passes.2 (by omega)
      generalize (passLoop cfg taken wild (f + 1) vars n p).1 = l at hq
      cases l with
      | issued s n' q => simp only [Loop.passes] at hq; exact ⟨fun h => by omega, fun _ => h0⟩
      | raised n' q => simp only [Loop.passes] at hq; exact ⟨fun h => by omega, fun _ => h0⟩
      | gaveUp n' q => exact fun _ => h0
    | succ k =>
      simp only [passLoop]
      generalize altWalk cfg taken wild vars n = res
      obtain ⟨w, ev⟩ := res
      cases w with
      | issued s rest n' =>
        simp only
        have e : p + 1 - p = 1 := by omega
        rw [e]
        exact ⟨fun _ => rfl, fun h => by omega⟩
      | raised rest n' =>
        simp only
        have e : p + 1 - p = 1 := by omega
        rw [e]
        exact ⟨fun _ => rfl, fun h => by omega⟩
      | fell vars' n' =>
        simp only
        by_cases hf : f = 0
        · -- the first run gives up after this pass
          simp only [hf, if_true]
          intro hk
          have : k = 0 := by omega
          simp [this, Loop.isGaveUp]
        · simp only [hf, if_false]
          have hq := (passLoop_ok cfg taken wild f vars' n' (p + 1)).passes.2 (by omega)
          by_cases hk : k = 0
          · simp only [hk, if_true]
            generalize (passLoop cfg taken wild f vars' n' (p + 1)).1 = l at hq
            cases l with
            | issued s n'' q => simp only [Loop.passes] at hq; exact ⟨fun h => by omega, fun _ => by simp [Loop.isGaveUp]⟩
            | raised n'' q => simp only [Loop.passes] at hq; exact ⟨fun h => by omega, fun _ => by simp [Loop.isGaveUp]⟩
            | gaveUp n'' q => exact fun _ => by simp [Loop.isGaveUp]
          · simp only [hk, if_false]
            have hi := ih vars' n' (p + 1) k (p' + 1)
            generalize (passLoop cfg taken wild f vars' n' (p + 1)).1 = l at hq hi
            cases l with
            | issued s n'' q =>
              simp only [Loop.passes] at hq
              simp only at hi ⊢
              obtain ⟨h1, h2⟩ := hi
              refine ⟨fun h => ?_, fun h => h2 (by omega)⟩
              rw [h1 (by omega)]
              congr 1; omega
            | raised n'' q =>
              simp only [Loop.passes] at hq
              simp only at hi ⊢
              obtain ⟨h1, h2⟩ := hi
              refine ⟨fun h => ?_, fun h => h2 (by omega)⟩
              rw [h1 (by omega)]
              congr 1; omega
            | gaveUp n'' q =>
              simp only at hi ⊢
              exact fun h => hi (by omega)


theorem passesLeft_eq (p : Nat) : passesLeft p = if p ≤ passBound then passBound + 1 - p else 1 := by
  unfold passesLeft
  split <;> omega

/-- what the budget that is left does to the outcome a full budget would have -/
theorem request_budget (cfg : Config) (st : State) (b : Env) :
    (∀ e, (request cfg st.fresh b).2.1 = .error e → (request cfg st b).2.1 = .error .valueError) ∧
    (∀ s, (request cfg st.fresh b).2.1 = .name s →
      ((request cfg st.fresh b).1.passes ≤ passesLeft st.passes → (request cfg st b).2.1 = .name s) ∧
      (passesLeft st.passes < (request cfg st.fresh b).1.passes → (request cfg st b).2.1 = .error .valueError)) := by
  unfold request
  simp only [State.fresh]
  by_cases hd : st.dead = true
  · simp [hd]
  · have hd' : st.dead = false := by simpa using hd
    simp only [hd', Bool.false_eq_true, if_false]
    generalize staticWalk cfg st.taken st.statics (envUpdate st.vars b) st.num = res
    obtain ⟨w, ev⟩ := res
    cases w with
    | issued name rest n =>
      simp only
      refine ⟨fun e h => (by cases h), fun s h => ?_⟩
      cases h
      exact ⟨fun _ => rfl, fun hlt => by simp at hlt⟩
    | raised rest n => simp
    | fell vars' n =>
      simp only
      unfold wildcardPhase
      simp only
      have hb := passLoop_budget cfg st.taken st.wildcard (passesLeft 0) vars' n 0 (passesLeft st.passes) st.passes
      generalize passLoop cfg st.taken st.wildcard (passesLeft 0) vars' n 0 = r1 at hb
      generalize passLoop cfg st.taken st.wildcard (passesLeft st.passes) vars' n st.passes = r2 at hb
      obtain ⟨l1, ev1⟩ := r1
      obtain ⟨l2, ev2⟩ := r2
      cases l1 with
      | issued s n' q =>
        simp only at hb ⊢
        refine ⟨fun e h => (by cases h), fun s' h => ?_⟩
        cases h
        obtain ⟨h1, h2⟩ := hb
        refine ⟨fun hle => ?_, fun hlt => ?_⟩
        · have := h1 (by simpa using hle)
          subst this
          rfl
        · have := h2 (by simpa using hlt)
          cases l2 <;> simp [Loop.isGaveUp] at this ⊢
      | raised n' q =>
        simp only at hb ⊢
        refine ⟨fun e _ => ?_, fun s h => by cases h⟩
        obtain ⟨h1, h2⟩ := hb
        by_cases hle : q - 0 ≤ passesLeft st.passes
        · have := h1 hle; subst this; rfl
        · have := h2 (by omega)
          cases l2 <;> simp [Loop.isGaveUp] at this ⊢
      | gaveUp n' q =>
        simp only at hb ⊢
        refine ⟨fun e _ => ?_, fun s h => by cases h⟩
        have := hb (by unfold passesLeft; omega)
        cases l2 <;> simp [Loop.isGaveUp] at this ⊢

end PlasVerif.Proofs.Filenames
