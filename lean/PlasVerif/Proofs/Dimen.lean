import PlasVerif.Proofs.Units
/-! Dimension literals: table facts of the regenerated unit tables, well-formedness / follow predicates, and the
theorem that `readDimen` denotes the TeX value of every conforming dimension literal. -/
namespace PlasVerif.Proofs.Dimen
open PlasVerif.Spec.Conform
open PlasVerif.Model.Numbers PlasVerif.Spec.Literals PlasVerif.Proofs.Numbers PlasVerif.Proofs.Keyword PlasVerif.Proofs.Units
open PlasVerif.Generated.Units

/-! ### facts about the regenerated tables (finite, kernel evaluation) -/

theorem units_eq : dimenUnits = texUnits := by decide +kernel

/-- in both tables every earlier physical unit clashes with a later one -/
theorem phys_clash : (List.range 11).all (fun i =>
    match stretchUnits[i]? with
    | some w => (stretchUnits.take i).all (fun x => clash x.1 w.1) && !w.1.isEmpty && clash kwTrue w.1 &&
                decide (-2000000000 < w.2 ∧ w.2 < 2000000000) && (dimenUnits[i]? == some w)
    | none => false) = true := by decide +kernel

/-- an earlier word either clashes with a fil unit or extends it by an `l` -/
theorem fil_clash : (List.range 3).all (fun j =>
    match stretchUnits[11 + j]?, filNames[j]? with
    | some w, some n => (stretchUnits.take (11 + j)).all (fun x => clash x.1 w.1 || ext x.1 w.1 == some 108) &&
                        !w.1.isEmpty && clash kwTrue w.1 && (w.1 == n.1) && (w.2 == 1 + 2000000000 * (n.2 : Rat)) &&
                        (n.2 == 1 || n.2 == 2 || n.2 == 3)
    | _, _ => false) = true := by decide +kernel

/-- every letter of the unit names and of the keywords is a lower-case ASCII letter -/
theorem names_lower : (stretchUnits.all (fun x => x.1.all (fun c => 97 ≤ c && c ≤ 122))) &&
    kwTrue.all (fun c => 97 ≤ c && c ≤ 122) && kwPlus.all (fun c => 97 ≤ c && c ≤ 122) &&
    kwMinus.all (fun c => 97 ≤ c && c ≤ 122) = true := by decide +kernel

theorem take_dimen (i : Nat) (h : i ≤ 11) : stretchUnits.take i = dimenUnits.take i := by
  have hl : dimenUnits.length = 11 := by decide +kernel
  unfold stretchUnits
  rw [List.take_append_of_le_length (by omega)]

/-! ### conformance predicates -/

/-- position of the written unit in the code's table (`dimen.units + ['filll','fill','fil']`) -/
def unitPos : UnitKind → Option Nat
  | .phys i => if i < 11 then some i else none
  | .fil j => if j < 3 then some (11 + j) else none
  | .reg _ => none




/-- what the dimension reader leaves: after a unit word one optional space is absorbed -/
def dimRest (l : DimLit) (R : List Tok) : List Tok :=
  match l.body, l.unit.kind with
  | .inr _, _ => R
  | .inl _, .reg _ => R
  | .inl _, _ => readOneOptionalSpace (optSpace l.unit.space ++ R)


theorem dimRest_follow (l : DimLit) (R : List Tok) (h : dimFollow l R = true) : dimRest l R = R := by
  unfold dimFollow at h; unfold dimRest
  simp only [Bool.and_eq_true] at h
  split <;> simp_all [oneSpace_opt]

/-! ### decoding -/

theorem decode_finite (x : Rat) (h1 : -2000000000 < x) (h2 : x < 2000000000) : decode x = (0, x) := by
  simp only [decode, absR]
  repeat' split
  all_goals first | rfl | (exfalso; grind)

theorem combine_finite (a u : Rat) (hu1 : -2000000000 < u) (hu2 : u < 2000000000) : combine a u = a * u := by
  simp only [combine, absR]
  split <;> split <;> first | rfl | (exfalso; grind)

theorem combine_fil (k : Nat) (hk : k = 1 ∨ k = 2 ∨ k = 3) (a : Rat) (h1 : -2000000000 < a) (h2 : a < 2000000000) :
    decode (combine a (1 + 2000000000 * (k : Rat))) = (k, a) := by
  rcases hk with rfl | rfl | rfl
  · have e : (1 + 2000000000 * ((1 : Nat) : Rat)) = 2000000001 := by decide +kernel
    rw [e, combine_fil_unit _ 2000000000 1 (Or.inl ⟨rfl, rfl, rfl⟩)]; exact decode_enc _ 1 (Or.inl ⟨rfl, rfl⟩) a h1 h2
  · have e : (1 + 2000000000 * ((2 : Nat) : Rat)) = 4000000001 := by decide +kernel
    rw [e, combine_fil_unit _ 4000000000 2 (Or.inr (Or.inl ⟨rfl, rfl, rfl⟩))]; exact decode_enc _ 2 (Or.inr (Or.inl ⟨rfl, rfl⟩)) a h1 h2
  · have e : (1 + 2000000000 * ((3 : Nat) : Rat)) = 6000000001 := by decide +kernel
    rw [e, combine_fil_unit _ 6000000000 3 (Or.inr (Or.inr ⟨rfl, rfl, rfl⟩))]; exact decode_enc _ 3 (Or.inr (Or.inr ⟨rfl, rfl⟩)) a h1 h2


/-! ### the unit of a literal -/

/-- the table `readUnitOfMeasure` is called with: `dimen.units`, plus the fil units after `plus`/`minus` -/
def tableFor (allowFil : Bool) : List (List Nat × Rat) := if allowFil then stretchUnits else dimenUnits

theorem table_get (allowFil : Bool) (i : Nat) (hi : i < 11) : (tableFor allowFil)[i]? = dimenUnits[i]? ∧
    (tableFor allowFil).take i = dimenUnits.take i := by
  have hl : dimenUnits.length = 11 := by decide +kernel
  cases allowFil with
  | false => exact ⟨rfl, rfl⟩
  | true =>
    refine ⟨?_, take_dimen i (by omega)⟩
    simp only [tableFor, if_true, stretchUnits]
    rw [List.getElem?_append_left (by omega)]

theorem unit_render (u : UnitLit) (Z : List Tok) (hk : ∀ v, u.kind ≠ .reg v) :
    u.render ++ Z = spaces u.pre ++ (truPart u.tru ++ u.spelling.map .ch ++ (optSpace u.space ++ Z)) := by
  unfold UnitLit.render truPart
  cases hkind : u.kind with
  | reg v => exact absurd hkind (hk v)
  | phys i => cases u.tru <;> simp [List.append_assoc]
  | fil i => cases u.tru <;> simp [List.append_assoc]

theorem unit_phys (allowFil : Bool) (u : UnitLit) (i : Nat) (Z : List Tok) (hk : u.kind = .phys i)
    (hw : unitWf allowFil u = true) :
    ∃ uv : Rat, readUnit (tableFor allowFil) (u.render ++ Z) = (uv, readOneOptionalSpace (optSpace u.space ++ Z)) ∧
      u.kind.den = (0, uv) ∧ -2000000000 < uv ∧ uv < 2000000000 := by
  simp only [unitWf, hk, Bool.and_eq_true] at hw
  obtain ⟨htru, hsp⟩ := hw
  cases hn : texUnits[i]? with
  | none => simp [hn] at hsp
  | some n =>
    rw [hn] at hsp
    have hi : i < 11 := by
      rcases Nat.lt_or_ge i 11 with h | h
      · exact h
      · have : texUnits.length = 11 := by decide +kernel
        simp [List.getElem?_eq_none (by omega : texUnits.length ≤ i)] at hn
    have hpc := phys_clash
    rw [List.all_eq_true] at hpc
    have hpi := hpc i (by simp [hi])
    cases hs : stretchUnits[i]? with
    | none => simp [hs] at hpi
    | some w =>
      simp only [hs, Bool.and_eq_true, List.all_eq_true, Bool.not_eq_true', List.isEmpty_eq_false_iff,
        decide_eq_true_eq, beq_iff_eq] at hpi
      obtain ⟨⟨⟨⟨hcl, hne⟩, hct⟩, hrange⟩, hd⟩ := hpi
      have hwn : w = n := by
        have : texUnits[i]? = some w := by rw [← units_eq]; exact hd
        rw [hn] at this; exact (Option.some.inj this).symm
      subst hwn
      have ⟨hget, htake⟩ := table_get allowFil i hi
      refine ⟨w.2, ?_, ?_, hrange.1, hrange.2⟩
      · rw [unit_render u Z (by intro v; rw [hk]; simp)]
        apply readUnit_word (tableFor allowFil) i w u.pre u.tru u.spelling (optSpace u.space ++ Z)
          (by rw [hget]; exact hd) hne hsp htru hct
        intro x hx
        rw [htake, ← take_dimen i (by omega)] at hx
        simp [failsOn, hcl x hx]
      · simp [hk, UnitKind.den, hn]

theorem unit_fil (u : UnitLit) (j : Nat) (Z : List Tok) (hk : u.kind = .fil j)
    (hw : unitWf true u = true) (hL : restOK 108 (optSpace u.space ++ Z) = true) :
    ∃ k : Nat, readUnit stretchUnits (u.render ++ Z) = (1 + 2000000000 * (k : Rat), readOneOptionalSpace (optSpace u.space ++ Z)) ∧
      u.kind.den = (k, 1) ∧ (k = 1 ∨ k = 2 ∨ k = 3) := by
  simp only [unitWf, hk, Bool.and_eq_true, Bool.true_and] at hw
  obtain ⟨htru, hsp⟩ := hw
  cases hn : filNames[j]? with
  | none => simp [hn] at hsp
  | some n =>
    rw [hn] at hsp
    have hj : j < 3 := by
      rcases Nat.lt_or_ge j 3 with h | h
      · exact h
      · have : filNames.length = 3 := by decide
        simp [List.getElem?_eq_none (by omega : filNames.length ≤ j)] at hn
    have hfc := fil_clash
    rw [List.all_eq_true] at hfc
    have hfj := hfc j (by simp [hj])
    cases hs : stretchUnits[11 + j]? with
    | none => simp [hs] at hfj
    | some w =>
      simp only [hs, hn, Bool.and_eq_true, List.all_eq_true, Bool.not_eq_true', List.isEmpty_eq_false_iff,
        beq_iff_eq, Bool.or_eq_true] at hfj
      obtain ⟨⟨⟨⟨⟨hcl, hne⟩, hct⟩, hname⟩, hval⟩, hord⟩ := hfj
      refine ⟨n.2, ?_, ?_, ?_⟩
      · rw [unit_render u Z (by intro v; rw [hk]; simp), ← hval]
        apply readUnit_word stretchUnits (11 + j) w u.pre u.tru u.spelling (optSpace u.space ++ Z) hs hne
          (by rw [hname]; exact hsp) htru hct
        intro x hx
        rcases hcl x hx with h | h
        · simp [failsOn, h]
        · simp [failsOn, h, hL]
      · simp [hk, UnitKind.den, hn]
      · rcases hord with (h | h) | h <;> simp [h]

theorem unit_reg (T : List (List Nat × Rat)) (u : UnitLit) (v : Int) (Z : List Tok) (hk : u.kind = .reg v) :
    readUnit T (u.render ++ Z) = ((v : Rat), Z) ∧ u.kind.den = (0, (v : Rat)) := by
  refine ⟨?_, by simp [hk, UnitKind.den]⟩
  simp only [UnitLit.render, hk, List.append_assoc, List.cons_append, List.nil_append]
  rw [readUnit_spaces, readUnit_reg]


/-! ### the whole dimension -/

theorem names_lower' : texUnits.all (fun x => x.1.all (fun c => 97 ≤ c && c ≤ 122) && !x.1.isEmpty) &&
    filNames.all (fun x => x.1.all (fun c => 97 ≤ c && c ≤ 122) && !x.1.isEmpty) = true := by decide

/-- the head of the stream is a blank, a register, or a character that is neither digit nor decimal separator -/
def headOK : List Tok → Bool
  | .sp :: _ => true
  | .reg _ _ :: _ => true
  | .ch c :: _ => !isDigit c && c != 46 && c != 44
  | _ => false

theorem decFollow_of_headOK (d : DecBody) (X : List Tok) (h : headOK X = true) : decFollow' d X = true := by
  unfold decFollow'
  cases X with
  | nil => simp [headOK] at h
  | cons t ts =>
    cases t with
    | ch c =>
      simp only [headOK, Bool.and_eq_true, Bool.not_eq_true', bne_iff_ne, ne_eq] at h
      have h1 : notSep (.ch c :: ts) = true := by unfold notSep; split <;> simp_all
      cases d.sep <;> simp [stops, h.1.1, h1]
    | sp => cases d.sep <;> simp [stops, notSep]
    | reg v x => cases d.sep <;> simp [stops, notSep]
    | bg x => simp [headOK] at h
    | eg x => simp [headOK] at h
    | cs n x => simp [headOK] at h

theorem letter_like (c l : Nat) (hl : 97 ≤ l ∧ l ≤ 122) (h : upper c = upper l) :
    (!isDigit c && c != 46 && c != 44) = true := by
  have hul : upper l = l - 32 := by unfold upper; simp [hl.1, hl.2]
  rw [hul] at h
  unfold upper at h
  simp only [Bool.and_eq_true, Bool.not_eq_true', bne_iff_ne, ne_eq, isDigit, decide_eq_true_eq, Bool.and_eq_false_iff,
    decide_eq_false_iff_not]
  split at h
  · rename_i hc; simp only [Bool.and_eq_true, decide_eq_true_eq] at hc; omega
  · omega

theorem sameWord_head {c l : Nat} {cs ls : List Nat} (h : sameWord (c :: cs) (l :: ls) = true) : upper c = upper l := by
  simp only [sameWord, List.map_cons, beq_iff_eq, List.cons.injEq] at h; exact h.1

theorem unit_headOK (allowFil : Bool) (u : UnitLit) (Z : List Tok) (hw : unitWf allowFil u = true) :
    headOK (u.render ++ Z) = true := by
  obtain ⟨pre, tru, kind, spelling, space⟩ := u
  cases pre with
  | succ n => simp [UnitLit.render, spaces, List.replicate_succ, headOK]
  | zero =>
    simp only [unitWf, Bool.and_eq_true] at hw
    obtain ⟨htru, hk⟩ := hw
    have hnl := names_lower'
    simp only [Bool.and_eq_true, List.all_eq_true, decide_eq_true_eq, Bool.not_eq_true', List.isEmpty_eq_false_iff] at hnl
    have key : ∀ (name : List Nat), (∀ c ∈ name, 97 ≤ c ∧ c ≤ 122) → name ≠ [] → sameWord spelling name = true →
        headOK ((spaces 0 ++ (truPart tru ++ spelling.map Tok.ch ++ optSpace space)) ++ Z) = true := by
      intro name hlow hne hs
      cases tru with
      | some tk =>
        obtain ⟨tw, k⟩ := tk
        simp only at htru
        obtain ⟨tc, tcs, rfl⟩ := sameWord_ne_nil htru (by simp [kwTrue])
        have := letter_like tc 116 (by omega) (sameWord_head (ls := [114, 117, 101]) htru)
        simpa [spaces, headOK, truPart] using this
      | none =>
        obtain ⟨c, cs, rfl⟩ := sameWord_ne_nil hs hne
        cases name with
        | nil => exact absurd rfl hne
        | cons l ls =>
          have := letter_like c l (hlow l (List.mem_cons_self)) (sameWord_head hs)
          simpa [spaces, headOK, truPart] using this
    cases kind with
    | reg v => simp [UnitLit.render, spaces, headOK]
    | phys i =>
      simp only at hk
      cases hn : texUnits[i]? with
      | none => simp [hn] at hk
      | some n =>
        rw [hn] at hk
        have hmem : n ∈ texUnits := List.mem_of_getElem? hn
        have := hnl.1 n hmem
        have hk' := key n.1 (fun c hc => this.1 c hc) this.2 hk
        cases tru <;> simpa [UnitLit.render, truPart] using hk'
    | fil j =>
      simp only [Bool.and_eq_true] at hk
      cases hn : filNames[j]? with
      | none => simp [hn] at hk
      | some n =>
        rw [hn] at hk
        have hmem : n ∈ filNames := List.mem_of_getElem? hn
        have := hnl.2 n hmem
        have hk' := key n.1 (fun c hc => this.1 c hc) this.2 hk.2
        cases tru <;> simpa [UnitLit.render, truPart] using hk'

/-- **Dimensions.** `readDimen` (with the table of the context: fil units only after `plus`/`minus`) on every conforming
    dimension literal returns a value that decodes to the TeX order and amount, and leaves exactly `dimRest`. -/
theorem dimen_core (allowFil : Bool) (l : DimLit) (R : List Tok) (hw : dimWf allowFil l = true) (hL : filOK l R = true) :
    ∃ v, readDimenWith combine (tableFor allowFil) (l.render ++ R) = .ok (v, dimRest l R) ∧
      decode v = (l.den.order, l.den.amount) := by
  obtain ⟨sg, body, u⟩ := l
  simp only [dimWf, Bool.and_eq_true, decide_eq_true_eq] at hw
  obtain ⟨hbody, hrange⟩ := hw
  cases body with
  | inr v =>
    refine ⟨(sg.den : Rat) * (v : Rat), ?_, ?_⟩
    · have hsig := readSigns_render sg (Tok.reg v false :: R) (by simp [noSign])
      simp only [DimLit.render, List.append_assoc, List.cons_append, List.nil_append, dimRest]
      simp only [readDimenWith, hsig, settle, expand]
    · simp only [DimLit.den] at hrange ⊢
      exact decode_finite _ hrange.1 hrange.2
  | inl d =>
    simp only [Bool.and_eq_true] at hbody
    obtain ⟨hd, hu⟩ := hbody
    have hcomp := dimen_compose combine (tableFor allowFil) sg d (u.render ++ R) hd
      (decFollow_of_headOK d _ (unit_headOK allowFil u R hu))
    rw [readUnit_decRest] at hcomp
    have hrender : (DimLit.render ⟨sg, .inl d, u⟩) ++ R = sg.render ++ (d.render ++ (u.render ++ R)) := by
      simp [DimLit.render, List.append_assoc]
    rw [hrender, hcomp]
    simp only [DimLit.den] at hrange ⊢
    cases hk : u.kind with
    | phys i =>
      obtain ⟨uv, hr, hden, h1, h2⟩ := unit_phys allowFil u i R hk hu
      rw [hk] at hden
      refine ⟨combine ((sg.den : Rat) * d.den) uv, by simp [hr, dimRest, hk], ?_⟩
      rw [combine_finite _ _ h1 h2]
      simp only [hk, hden] at hrange ⊢
      exact decode_finite _ hrange.1 hrange.2
    | reg v =>
      obtain ⟨hr, hden⟩ := unit_reg (tableFor allowFil) u v R hk
      rw [hk] at hden
      have hv : -2000000000 < (v : Rat) ∧ (v : Rat) < 2000000000 := by
        have := hu; simp only [unitWf, hk, Bool.and_eq_true, decide_eq_true_eq] at this; exact this.2
      refine ⟨combine ((sg.den : Rat) * d.den) (v : Rat), by simp [hr, dimRest, hk], ?_⟩
      rw [combine_finite _ _ hv.1 hv.2]
      simp only [hk, hden] at hrange ⊢
      exact decode_finite _ hrange.1 hrange.2
    | fil j =>
      have haf : allowFil = true := by
        simp only [unitWf, hk, Bool.and_eq_true] at hu; exact hu.2.1
      subst haf
      have hL' : restOK 108 (optSpace u.space ++ R) = true := by simpa [filOK, hk] using hL
      obtain ⟨k, hr, hden, hk3⟩ := unit_fil u j R hk hu hL'
      rw [hk] at hden
      refine ⟨combine ((sg.den : Rat) * d.den) (1 + 2000000000 * (k : Rat)), by simp [tableFor, hr, dimRest, hk], ?_⟩
      simp only [hk, hden, Rat.mul_one] at hrange ⊢
      exact combine_fil k hk3 _ hrange.1 hrange.2

end PlasVerif.Proofs.Dimen
