import PlasVerif.Proofs.DomClone
/-! `Node.normalize` of the heap model against the tree-level normalisation (`Spec/DomTree.lean`). -/
namespace PlasVerif.Proofs.DomNormalize
open PlasVerif.Model.Dom PlasVerif.Proofs.Dom PlasVerif.Proofs.DomViews PlasVerif.Proofs.DomClone
open PlasVerif.Spec PlasVerif.Spec.DomTree

macro "omegaId" : tactic => `(tactic| ((try simp only [PlasVerif.Model.Dom.Id, PlasVerif.Spec.DomTree.Id] at *); omega))

/-! ### the primitive steps of `normalize` -/

/-- `while self.childNodes: self.pop()` -/
def clearKids (h : Heap) (s : Nat) : Heap :=
  { h with kids := upd h.kids s [],
           parent := fun j => if j ∈ h.kids s ∧ (h.parent j = some s ∨ h.parent j = some s) then none else h.parent j }

/-- the merged text node made by `appendText` (node `h.next`), already appended to `s` -/
def addText (h : Heap) (s : Nat) (txt : List Nat) : Heap :=
  putAt
    { h with next := h.next + 1, kids := upd h.kids h.next [],
             parent := upd (upd h.parent h.next none) h.next (some s),
             owner := upd (upd h.owner h.next (some ((h.owner s).getD 0))) h.next
                        (upd h.owner h.next (some ((h.owner s).getD 0)) s),
             kind := upd h.kind h.next .text, text := upd h.text h.next (txt.flatMap h.text),
             name := upd h.name h.next 0, attr := upd h.attr h.next none, attr2 := upd h.attr2 h.next none }
    s (h.kids s).length h.next

theorem appendText_nil (h : Heap) (s : Nat) : appendText h s [] = h := by simp [appendText]

theorem appendText_eq {h : Heap} (ha : NoAlias h) (s : Nat) (txt : List Nat) (hne : txt ≠ []) (hs : s ≠ h.next) :
    appendText h s txt = addText h s txt := by
  have he : txt.isEmpty = false := by cases txt <;> simp_all
  simp only [appendText, he, Bool.false_eq_true, if_false, create]
  rw [append_fuelOf]
  · simp [addText, upd, hs]
  · intro n; simp only [upd]; split
    · rfl
    · exact ha n
  · simp [upd]

section addText
variable (h : Heap) (s : Nat) (txt : List Nat)

theorem addText_next : ((addText h s txt).next : Nat) = h.next + 1 := rfl
theorem addText_kids_s (hs : s ≠ h.next) : (addText h s txt).kids s = h.kids s ++ [h.next] := by
  simp [addText, putAt, upd, hs]
theorem addText_kids_v (hs : s ≠ h.next) : (addText h s txt).kids h.next = [] := by
  simp [addText, putAt, upd, Ne.symm hs]
theorem addText_kids_other (n : Nat) (hn : n ≠ s) (hv : n ≠ h.next) : (addText h s txt).kids n = h.kids n := by
  simp [addText, putAt, upd, hn, hv]
theorem addText_kind_v : (addText h s txt).kind h.next = .text := by simp [addText, putAt, upd]
theorem addText_text_v : (addText h s txt).text h.next = txt.flatMap h.text := by simp [addText, putAt, upd]
theorem addText_labels (n : Nat) (hv : n ≠ h.next) :
    (addText h s txt).kind n = h.kind n ∧ (addText h s txt).text n = h.text n ∧ (addText h s txt).name n = h.name n := by
  simp [addText, putAt, upd, hv]
theorem addText_noAlias (ha : NoAlias h) : NoAlias (addText h s txt) := by
  intro n; simp only [addText, putAt, upd]; split
  · rfl
  · exact ha n
theorem addText_owned (ho : Owned h) (hs : s ≠ h.next) : Owned (addText h s txt) := by
  intro n
  have h0 := ho s
  simp only [addText, putAt, upd, hs, if_false, h0, Option.getD_some]
  split
  · rfl
  · exact ho n
theorem addText_fresh (hf : Fresh h) (hs : s < (h.next : Nat)) : Fresh (addText h s txt) := by
  intro n hn
  have hn' : (h.next : Nat) + 1 ≤ n := hn
  have h1 : n ≠ s := by omegaId
  have h2 : n ≠ h.next := by omegaId
  rw [addText_kids_other h s txt n h1 h2]
  exact hf n (by omegaId)
theorem addText_attr2_old (n : Nat) (hn : n ≠ h.next) : (addText h s txt).attr2 n = h.attr2 n := by
  simp [addText, putAt, upd, hn]
theorem addText_attr2_new : (addText h s txt).attr2 h.next = none := by
  simp [addText, putAt, upd]
end addText

theorem addText_closed {h : Heap} (hc : Closed h h.next) (s : Nat) (txt : List Nat) (hs : s < (h.next : Nat)) :
    Closed (addText h s txt) (addText h s txt).next := by
  have hsv : s ≠ h.next := by omegaId
  intro n hn c hcm
  rw [addText_next] at hn ⊢
  by_cases hns : n = s
  · subst hns
    rw [addText_kids_s h n txt hsv] at hcm
    rcases List.mem_append.mp hcm with hm | hm
    · have := hc n hs c hm
      have hcv : c ≠ h.next := by have := this.1; omegaId
      exact ⟨by have := this.1; omegaId, by rw [(addText_labels h n txt c hcv).1]; exact this.2⟩
    · simp only [List.mem_singleton] at hm; subst hm
      exact ⟨by omegaId, by rw [addText_kind_v]; simp⟩
  · by_cases hnv : n = h.next
    · subst hnv; rw [addText_kids_v h s txt hsv] at hcm; cases hcm
    · rw [addText_kids_other h s txt n hns hnv] at hcm
      have := hc n (by omegaId) c hcm
      have hcv : c ≠ h.next := by have := this.1; omegaId
      exact ⟨by have := this.1; omegaId, by rw [(addText_labels h s txt c hcv).1]; exact this.2⟩

theorem clearKids_closed {h : Heap} (hc : Closed h h.next) (s : Nat) : Closed (clearKids h s) (clearKids h s).next := by
  intro n hn c hcm
  simp only [clearKids, upd] at hcm
  split at hcm
  · cases hcm
  · exact hc n hn c hcm

theorem putAt_closed {h : Heap} (hc : Closed h h.next) (s k y : Nat) (hy : y < (h.next : Nat)) (hk : h.kind y ≠ .frag) :
    Closed (putAt h s k y) (putAt h s k y).next := by
  intro n hn c hcm
  show c < (h.next : Nat) ∧ h.kind c ≠ .frag
  by_cases hns : n = s
  · subst hns
    rw [putAt_kids_self] at hcm
    rcases mem_middle.mp hcm with e | hm
    · subst e; exact ⟨hy, hk⟩
    · exact hc n hn c hm
  · rw [putAt_kids_other h s k y n hns] at hcm; exact hc n hn c hcm

/-- the merged text node is a fresh leaf appended to `s`: the invariant is kept -/
theorem inv_addText {h : Heap} (hi : Inv h) (hc : Closed h h.next) (hf : Fresh h) (s : Nat) (txt : List Nat) :
    Inv (addText h s txt) := by
  unfold addText
  obtain ⟨i1, i2⟩ := hi
  have hlt : ∀ n c : Nat, c ∈ h.kids n → n < (h.next : Nat) ∧ c < (h.next : Nat) := by
    intro n c hm
    have hn : n < (h.next : Nat) := by
      apply Nat.lt_of_not_le; intro hle
      rw [hf n hle] at hm; cases hm
    exact ⟨hn, (hc n hn c hm).1⟩
  apply inv_putAt
  · refine ⟨?_, ?_⟩
    · intro n c hn hm
      simp only [upd] at hn hm ⊢
      by_cases hnv : n = h.next
      · simp [hnv] at hm
      · simp only [hnv, if_false] at hn hm
        have hcv : c ≠ h.next := by have := (hlt n c hm).2; omegaId
        simp only [hcv, if_false]
        exact i1 n c hn hm
    · intro n hn
      simp only [upd] at hn ⊢
      by_cases hnv : n = h.next
      · simp [hnv]
      · simp only [hnv, if_false] at hn ⊢; exact i2 n hn
  · intro n _ hm
    simp only [upd] at hm
    by_cases hnv : n = h.next
    · simp [hnv] at hm
    · simp only [hnv, if_false] at hm
      have := (hlt n _ hm).2
      omegaId

theorem inv_clearKids {h : Heap} (hi : Inv h) (s : Nat) : Inv (clearKids h s) := by
  obtain ⟨i1, i2⟩ := hi
  refine ⟨?_, ?_⟩
  · intro n c hn hm
    simp only [clearKids, upd] at hn hm ⊢
    by_cases hns : n = s
    · simp [hns] at hm
    · simp only [hns, if_false] at hm
      have hp := i1 n c hn hm
      have : ¬ (h.parent c = some s) := by rw [hp]; intro e; exact hns (Option.some.inj e)
      simp [hp]
      intro _ e; exact hns e
  · intro n hn
    simp only [clearKids, upd] at hn ⊢
    by_cases hns : n = s
    · simp [hns]
    · simp only [hns, if_false]; exact i2 n hn

/-- the loop body of `normalize` -/
def normStep (f : Nat) (s : Nat) (a : Heap × List Nat) (item : Nat) : Heap × List Nat :=
  if a.1.kind item = .text then (a.1, a.2 ++ [item])
  else (normalize f (append (fuelOf (appendText a.1 s a.2)) (appendText a.1 s a.2) s item) item, [])

/-- the pop-all-then-rebuild loop of `Node.normalize` on `s` -/
def loopRes (f : Nat) (h : Heap) (s : Nat) : Heap :=
  appendText ((h.kids s).foldl (normStep f s) (clearKids h s, [])).1 s
    ((h.kids s).foldl (normStep f s) (clearKids h s, [])).2

theorem normalize_succ_eq (f : Nat) {h : Heap} (ha : NoAlias h) (s : Nat) (hb : h.attr2 s = none) (hk : h.kind s ≠ .text) :
    normalize (f + 1) h s = loopRes f h s := by
  rw [normalize]
  simp only [hk, if_false, ha s, hb, childList_eq ha, cn_eq ha]
  rfl

/-- with a fragment under another attribute key: that fragment is normalised first, then the loop runs -/
theorem normalize_succ_eq2 (f : Nat) {h : Heap} (ha : NoAlias h) (s f2 : Nat) (hb : h.attr2 s = some f2)
    (hk : h.kind s ≠ .text) (ha0 : NoAlias (normalize f h f2)) :
    normalize (f + 1) h s = loopRes f (normalize f h f2) s := by
  rw [normalize]
  simp only [hk, if_false, ha s, hb, childList_eq ha0, cn_eq ha0]
  rfl

/-! ### facts about unfolded trees -/

theorem abs_text {m : LL} {t : Nat} (hk : m.kind t = .text) (g : Nat) : abs g m t = .text t (m.text t) := by
  cases g <;> simp [abs, hk]

theorem abs_zero_node {m : LL} {n : Nat} (hk : m.kind n ≠ .text) : abs 0 m n = .node n (m.kind n) (m.name n) [] := by
  simp [abs, hk]

theorem abs_succ_node {m : LL} {n : Nat} (hk : m.kind n ≠ .text) (g : Nat) :
    abs (g + 1) m n = .node n (m.kind n) (m.name n) ((m.kids n).map (abs g m)) := by
  simp [abs, hk]

theorem ids_abs_mono (m : LL) : ∀ (g f : Nat), g ≤ f → ∀ (c i : Nat), i ∈ (abs g m c).ids → i ∈ (abs f m c).ids := by
  intro g
  induction g with
  | zero =>
    intro f _ c i hi
    have : i = c := by
      simp only [abs] at hi
      split at hi <;> simpa [Tree.ids, idsL] using hi
    subst this; exact abs_ids_root f m i
  | succ g ih =>
    intro f hf c i hi
    obtain ⟨f', rfl⟩ : ∃ f', f = f' + 1 := ⟨f - 1, by omega⟩
    by_cases hk : m.kind c = .text
    · rw [abs_text hk] at hi ⊢; exact hi
    · rw [abs_succ_node hk] at hi ⊢
      simp only [Tree.ids, List.mem_cons] at hi ⊢
      rcases hi with e | hi
      · exact Or.inl e
      · obtain ⟨d, hd, hdi⟩ := idsL_map_mem hi
        exact Or.inr (mem_idsL_map hd (ih f' (by omega) d i hdi))

theorem idsL_map_cons (F : Nat → Tree) (y : Nat) (l : List Nat) : idsL ((y :: l).map F) = (F y).ids ++ idsL (l.map F) := by
  simp [idsL]

theorem sameAt_of {h a : Heap} {i : Nat} (hk : a.kids i = h.kids i)
    (hl : a.kind i = h.kind i ∧ a.text i = h.text i ∧ a.name i = h.name i) : SameAt (toLL h) (toLL a) i :=
  sameAt_of_sameH ⟨hk, hl.1, hl.2.1, hl.2.2⟩

theorem shapeL_map_cons (F : Nat → Tree) (y : Nat) (l : List Nat) : shapeL ((y :: l).map F) = (F y).shape :: shapeL (l.map F) := by
  simp [shapeL]

theorem normalizeL_node_head (i : Nat) (k : NKind) (nm : Nat) (cs ts : List Tree) (p : List Nat) (hv : Bool) :
    normalizeL (.node i k nm cs :: ts) p hv = flush p hv ++ ((Tree.node i k nm cs).normalize :: normalizeL ts [] false) := by
  simp [normalizeL, Tree.normalize]

theorem flush_nil_false : flush [] false = [] := rfl

theorem zero_depth_normalize_shape (m : LL) (n : Nat) : (abs 0 m n).normalize.shape = (abs 0 m n).shape := by
  simp only [abs]
  split <;> simp [Tree.normalize, Tree.shape, normalizeL, flush, shapeL]

/-! ### the loop invariant of `normalize` -/

/-- same labels (kind, text, name) at node `n` -/
def SameLab (h a : Heap) (n : Nat) : Prop := a.kind n = h.kind n ∧ a.text n = h.text n ∧ a.name n = h.name n

/-- state of the loop over `nodes = h.kids s`: `a` the heap, `txt` the pending text nodes, `rest` the items to come -/
structure FI (f : Nat) (h : Heap) (s : Nat) (a : Heap) (txt rest : List Nat) : Prop where
  noAlias : NoAlias a
  attr2old : ∀ n : Nat, n < (h.next : Nat) → a.attr2 n = h.attr2 n
  attr2none : ∀ n : Nat, h.attr2 n = none → a.attr2 n = none
  owned : Owned h → Owned a
  fresh : Fresh h → Fresh a
  sub : ∀ n c : Nat, n < (h.next : Nat) → c < (h.next : Nat) → c ∈ a.kids n → c ∈ h.kids n
  leaf : Fresh h → ∀ n : Nat, (h.next : Nat) ≤ n → a.kids n = []
  inv : Inv h → Fresh h → h.kind s ≠ .frag → Inv a
  closed : Closed a a.next
  next_le : (h.next : Nat) ≤ a.next
  labels : ∀ n : Nat, n < (h.next : Nat) → SameLab h a n
  restKids : ∀ i ∈ idsL (rest.map (abs f (toLL h))), a.kids i = h.kids i
  otherKids : ∀ n : Nat, n < (h.next : Nat) → n ≠ s → n ∉ idsL ((h.kids s).map (abs f (toLL h))) → a.kids n = h.kids n
  txtOrig : ∀ t ∈ txt, t < (h.next : Nat) ∧ h.kind t = .text
  outIds : ∀ g : Nat, g ≤ f → ∀ i ∈ idsL ((a.kids s).map (abs g (toLL a))),
      i ≠ s ∧ i ∉ idsL (rest.map (abs f (toLL h))) ∧ i < (a.next : Nat) ∧
      (i ∈ idsL ((h.kids s).map (abs f (toLL h))) ∨ (h.next : Nat) ≤ i)
  outShape : ∀ g : Nat, g ≤ f →
      shapeL ((a.kids s).map (abs g (toLL a))) ++
        shapeL (normalizeL (rest.map (abs g (toLL h))) (txt.flatMap h.text) (!txt.isEmpty)) =
      shapeL (normalizeL ((h.kids s).map (abs g (toLL h))) [] false)

/-- the fixed side conditions of the loop -/
structure Side (f : Nat) (h : Heap) (s : Nat) : Prop where
  noAlias : NoAlias h
  loc : ∀ n ∈ idsL ((h.kids s).map (abs f (toLL h))), h.attr2 n = none
  closed : Closed h h.next
  slt : s < (h.next : Nat)
  snot : s ∉ idsL ((h.kids s).map (abs f (toLL h)))

theorem side_item {f : Nat} {h : Heap} {s y : Nat} (sd : Side f h s) (hy : y ∈ h.kids s) :
    y < (h.next : Nat) ∧ h.kind y ≠ .frag ∧ (∀ i ∈ (abs f (toLL h) y).ids, i < (h.next : Nat) ∧ i ≠ s ∧
      i ∈ idsL ((h.kids s).map (abs f (toLL h)))) := by
  have h1 := sd.closed s sd.slt y hy
  refine ⟨h1.1, h1.2, fun i hi => ⟨abs_ids_lt sd.closed f y h1.1 i hi, ?_, mem_idsL_map hy hi⟩⟩
  intro e; subst e; exact sd.snot (mem_idsL_map hy hi)

theorem fi_text {f : Nat} {h : Heap} {s : Nat} {a : Heap} {txt rest : List Nat} {t : Nat}
    (sd : Side f h s) (hsub : ∀ y ∈ t :: rest, y ∈ h.kids s) (inv : FI f h s a txt (t :: rest)) (hk : h.kind t = .text) :
    FI f h s a (txt ++ [t]) rest := by
  have ht := side_item sd (hsub t (by simp))
  have hkt : (toLL h).kind t = .text := by simp [hk, kindOf]
  refine ⟨inv.noAlias, inv.attr2old, inv.attr2none, inv.owned, inv.fresh, inv.sub, inv.leaf, inv.inv, inv.closed, inv.next_le, inv.labels, ?_, inv.otherKids, ?_, ?_, ?_⟩
  · intro i hi
    exact inv.restKids i (by rw [idsL_map_cons]; exact List.mem_append_right _ hi)
  · intro u hu
    rcases List.mem_append.mp hu with hu | hu
    · exact inv.txtOrig u hu
    · simp only [List.mem_singleton] at hu; subst hu; exact ⟨ht.1, hk⟩
  · intro g hg i hi
    obtain ⟨h1, h2, h3, h4⟩ := inv.outIds g hg i hi
    exact ⟨h1, fun hm => h2 (by rw [idsL_map_cons]; exact List.mem_append_right _ hm), h3, h4⟩
  · intro g hg
    have := inv.outShape g hg
    rw [List.map_cons, abs_text hkt g] at this
    simp only [normalizeL] at this
    rw [← this]
    have he : (txt ++ [t]).isEmpty = false := by cases txt <;> simp
    simp [List.flatMap_append, he]

theorem rest_ids_lt {f : Nat} {h : Heap} {s : Nat} {rest : List Nat} (sd : Side f h s) (hsub : ∀ y ∈ rest, y ∈ h.kids s) :
    ∀ i ∈ idsL (rest.map (abs f (toLL h))), i < (h.next : Nat) ∧ i ≠ s ∧ i ∈ idsL ((h.kids s).map (abs f (toLL h))) := by
  intro i hi
  obtain ⟨y, hy, hyi⟩ := idsL_map_mem hi
  exact (side_item sd (hsub y hy)).2.2 i hyi

theorem fi_flush {f : Nat} {h : Heap} {s : Nat} {a : Heap} {txt rest : List Nat}
    (sd : Side f h s) (hsub : ∀ y ∈ rest, y ∈ h.kids s) (inv : FI f h s a txt rest)
    (hfl : ∀ g : Nat, g ≤ f → normalizeL (rest.map (abs g (toLL h))) (txt.flatMap h.text) (!txt.isEmpty) =
      flush (txt.flatMap h.text) (!txt.isEmpty) ++ normalizeL (rest.map (abs g (toLL h))) [] false) :
    FI f h s (appendText a s txt) [] rest := by
  by_cases hne : txt = []
  · subst hne
    rw [appendText_nil]
    exact inv
  · have hsv : s ≠ a.next := by have := sd.slt; have := inv.next_le; omegaId
    rw [appendText_eq inv.noAlias s txt hne hsv]
    have hrl := rest_ids_lt sd hsub
    have hks := addText_kids_s a s txt hsv
    have he : txt.isEmpty = false := by cases txt <;> simp_all
    have htext : txt.flatMap a.text = txt.flatMap h.text :=
      flatMap_congr_mem (fun t ht => (inv.labels t (inv.txtOrig t ht).1).2.1)
    have hvk : (toLL (addText a s txt)).kind a.next = .text := by simp [addText_kind_v, kindOf]
    have old : ∀ g : Nat, g ≤ f → ∀ c ∈ a.kids s, abs g (toLL (addText a s txt)) c = abs g (toLL a) c := by
      intro g hg c hc
      apply abs_congr
      intro i hi
      obtain ⟨h1, _, h3, _⟩ := inv.outIds g hg i (mem_idsL_map hc hi)
      have hiv : i ≠ a.next := by omegaId
      exact sameAt_of (addText_kids_other a s txt i h1 hiv) (addText_labels a s txt i hiv)
    refine ⟨addText_noAlias a s txt inv.noAlias,
      (fun n hn => by rw [addText_attr2_old a s txt n (by have := inv.next_le; omegaId)]; exact inv.attr2old n hn),
      (fun n hn => by
        by_cases hnv : n = a.next
        · rw [hnv]; exact addText_attr2_new a s txt
        · rw [addText_attr2_old a s txt n hnv]; exact inv.attr2none n hn),
      fun ho => addText_owned a s txt (inv.owned ho) hsv,
      fun hf => addText_fresh a s txt (inv.fresh hf) (by have := sd.slt; have := inv.next_le; omegaId),
      (by
        intro n c hn hc hm
        have hnv : n ≠ a.next := by have := inv.next_le; omegaId
        by_cases hns : n = s
        · subst hns
          rw [hks] at hm
          rcases List.mem_append.mp hm with hm | hm
          · exact inv.sub n c hn hc hm
          · simp only [List.mem_singleton] at hm
            have := inv.next_le; omegaId
        · rw [addText_kids_other a s txt n hns hnv] at hm; exact inv.sub n c hn hc hm),
      (by
        intro hf n hn
        by_cases hnv : n = a.next
        · rw [hnv]; exact addText_kids_v a s txt hsv
        · have hns : n ≠ s := by have := sd.slt; omegaId
          rw [addText_kids_other a s txt n hns hnv]; exact inv.leaf hf n hn),
      (fun hi hf hk => inv_addText (inv.inv hi hf hk) inv.closed (inv.fresh hf) s txt),
      addText_closed inv.closed s txt (by have := sd.slt; have := inv.next_le; omegaId),
      by rw [addText_next]; have := inv.next_le; omegaId, ?_, ?_, ?_, ?_, ?_, ?_⟩
    · intro n hn
      have hnv : n ≠ a.next := by have := inv.next_le; omegaId
      obtain ⟨l1, l2, l3⟩ := addText_labels a s txt n hnv
      obtain ⟨m1, m2, m3⟩ := inv.labels n hn
      exact ⟨l1.trans m1, l2.trans m2, l3.trans m3⟩
    · intro i hi
      obtain ⟨h1, h2, _⟩ := hrl i hi
      have hiv : i ≠ a.next := by have := inv.next_le; omegaId
      rw [addText_kids_other a s txt i h2 hiv]; exact inv.restKids i hi
    · intro n hn hns hnn
      have hnv : n ≠ a.next := by have := inv.next_le; omegaId
      rw [addText_kids_other a s txt n hns hnv]; exact inv.otherKids n hn hns hnn
    · intro t ht; cases ht
    · intro g hg i hi
      rw [hks, List.map_append, idsL_append, List.map_congr_left (old g hg)] at hi
      rcases List.mem_append.mp hi with hi | hi
      · obtain ⟨h1, h2, h3, h4⟩ := inv.outIds g hg i hi
        exact ⟨h1, h2, by rw [addText_next]; omegaId, h4⟩
      · simp only [List.map_cons, List.map_nil, abs_text hvk g, idsL, Tree.ids, List.append_nil, List.mem_singleton] at hi
        subst hi
        refine ⟨Ne.symm hsv, ?_, by rw [addText_next]; omegaId, Or.inr inv.next_le⟩
        intro hm
        have := (hrl _ hm).1
        have := inv.next_le
        omegaId
    · intro g hg
      have h1 := inv.outShape g hg
      rw [hfl g hg, shapeL_append] at h1
      rw [hks, List.map_append, shapeL_append, List.map_congr_left (old g hg), ← h1]
      simp only [List.map_cons, List.map_nil, abs_text hvk g, shapeL, Tree.shape, toLL_text, addText_text_v, htext,
        flush, he, Bool.not_false, if_true, List.flatMap_nil, List.isEmpty_nil, Bool.not_true, List.append_assoc,
        List.cons_append, List.nil_append]

/-! ### the specification of `normalize` and the node step -/

structure NormSpec (f : Nat) (h : Heap) (s : Nat) (h' : Heap) : Prop where
  noAlias : NoAlias h'
  attr2old : ∀ n : Nat, n < (h.next : Nat) → h'.attr2 n = h.attr2 n
  attr2none : ∀ n : Nat, h.attr2 n = none → h'.attr2 n = none
  owned : Owned h → Owned h'
  fresh : Fresh h → Fresh h'
  sub : ∀ n c : Nat, n < (h.next : Nat) → c < (h.next : Nat) → c ∈ h'.kids n → c ∈ h.kids n
  leaf : Fresh h → ∀ n : Nat, (h.next : Nat) ≤ n → h'.kids n = []
  inv : Inv h → Fresh h → h.kind s ≠ .frag → Inv h'
  closed : Closed h' h'.next
  next_le : (h.next : Nat) ≤ h'.next
  labels : ∀ n : Nat, n < (h.next : Nat) → SameLab h h' n
  frame : ∀ n : Nat, n < (h.next : Nat) → n ∉ (abs f (toLL h) s).ids → h'.kids n = h.kids n
  shape : ∀ g : Nat, g ≤ f → (abs g (toLL h') s).shape = (abs g (toLL h) s).normalize.shape
  ids : ∀ g : Nat, g ≤ f → ∀ i ∈ (abs g (toLL h') s).ids,
      i ∈ (abs f (toLL h) s).ids ∨ ((h.next : Nat) ≤ i ∧ i < (h'.next : Nat))

/-- the hypotheses under which `normalize f h s` is specified: well-formed heap, allocated root, and the unfolding of
    `s` to depth `f` repeats no node (the part of the heap below `s` is a tree) -/
def NormPre (f : Nat) (h : Heap) (s : Nat) : Prop :=
  NoAlias h ∧ (∀ n ∈ (abs f (toLL h) s).ids, h.attr2 n = none) ∧ Closed h h.next ∧ s < (h.next : Nat) ∧
    (abs f (toLL h) s).ids.Nodup

theorem fi_node {f : Nat}
    (ih : ∀ (h : Heap) (s : Nat), NormPre f h s → NormSpec f h s (normalize f h s))
    {h : Heap} {s : Nat} {a : Heap} {rest : List Nat} {y : Nat}
    (sd : Side f h s) (hsub : ∀ z ∈ y :: rest, z ∈ h.kids s) (hnd : (idsL ((y :: rest).map (abs f (toLL h)))).Nodup)
    (inv : FI f h s a [] (y :: rest)) (hk : h.kind y ≠ .text) :
    FI f h s (normalize f (append (fuelOf a) a s y) y) [] rest := by
  have hy := side_item sd (hsub y (by simp))
  have hsub' : ∀ z ∈ rest, z ∈ h.kids s := fun z hz => hsub z (by simp [hz])
  have hrl := rest_ids_lt sd hsub
  rw [idsL_map_cons] at hnd
  obtain ⟨hndy, hndr, hdisj⟩ := List.nodup_append.mp hnd
  have hyk : a.kind y ≠ .frag := by rw [(inv.labels y hy.1).1]; exact hy.2.1
  have hya : y < (a.next : Nat) := by have := inv.next_le; omegaId
  rw [append_fuelOf inv.noAlias s y hyk]
  -- the heap before the recursive call
  have ha2 : NoAlias (putAt a s (a.kids s).length y) := noAlias_putAt inv.noAlias _ _ _
  have hc2 : Closed (putAt a s (a.kids s).length y) (putAt a s (a.kids s).length y).next :=
    putAt_closed inv.closed s _ y hya hyk
  have k2s : (putAt a s (a.kids s).length y).kids s = a.kids s ++ [y] := putAt_end_kids a s y
  have k2o : ∀ n : Nat, n ≠ s → (putAt a s (a.kids s).length y).kids n = a.kids n :=
    fun n hn => putAt_kids_other a s _ y n hn
  have lab2 : ∀ n : Nat, SameLab a (putAt a s (a.kids s).length y) n := fun n => ⟨rfl, rfl, rfl⟩
  -- the subtree of `y` is still the original one
  have ysame : ∀ i ∈ (abs f (toLL h) y).ids, SameAt (toLL h) (toLL (putAt a s (a.kids s).length y)) i := by
    intro i hi
    obtain ⟨h1, h2, _⟩ := hy.2.2 i hi
    have hk' : (putAt a s (a.kids s).length y).kids i = h.kids i := by
      rw [k2o i h2]; exact inv.restKids i (by rw [idsL_map_cons]; exact List.mem_append_left _ hi)
    exact sameAt_of hk' (inv.labels i h1)
  have yabs : ∀ g : Nat, g ≤ f → abs g (toLL (putAt a s (a.kids s).length y)) y = abs g (toLL h) y := by
    intro g hg
    apply abs_congr
    intro i hi
    exact ysame i (ids_abs_mono (toLL h) g f hg y i hi)
  have pre : NormPre f (putAt a s (a.kids s).length y) y :=
    ⟨ha2, (by
        intro n hn
        rw [yabs f (Nat.le_refl _)] at hn
        have h1 := (hy.2.2 n hn)
        show a.attr2 n = none
        rw [inv.attr2old n h1.1]; exact sd.loc n h1.2.2), hc2, hya, by rw [yabs f (Nat.le_refl _)]; exact hndy⟩
  have spec := ih _ y pre
  generalize normalize f (putAt a s (a.kids s).length y) y = a3 at spec ⊢
  have hn23 : ((putAt a s (a.kids s).length y).next : Nat) = a.next := rfl
  have frame3 : ∀ n : Nat, n < (a.next : Nat) → n ∉ (abs f (toLL h) y).ids → a3.kids n = (putAt a s (a.kids s).length y).kids n := by
    intro n hn hni
    exact spec.frame n hn (by rw [yabs f (Nat.le_refl _)]; exact hni)
  have hsy : s ∉ (abs f (toLL h) y).ids := fun hm => (hy.2.2 s hm).2.1 rfl
  have k3s : a3.kids s = a.kids s ++ [y] := by
    rw [frame3 s (by have := sd.slt; have := inv.next_le; omegaId) hsy, k2s]
  have lab3 : ∀ n : Nat, n < (a.next : Nat) → SameLab a a3 n := fun n hn => spec.labels n hn
  have old : ∀ g : Nat, g ≤ f → ∀ c ∈ a.kids s, abs g (toLL a3) c = abs g (toLL a) c := by
    intro g hg c hc
    apply abs_congr
    intro i hi
    obtain ⟨h1, h2, h3, _⟩ := inv.outIds g hg i (mem_idsL_map hc hi)
    have hiy : i ∉ (abs f (toLL h) y).ids := fun hm => h2 (by rw [idsL_map_cons]; exact List.mem_append_left _ hm)
    exact sameAt_of (by rw [frame3 i h3 hiy, k2o i h1]) (lab3 i h3)
  have fresh2 : Fresh a → Fresh (putAt a s (a.kids s).length y) := by
    intro hf n hn
    have hn' : (a.next : Nat) ≤ n := hn
    rw [k2o n (by have := sd.slt; have := inv.next_le; omegaId)]
    exact hf n hn'
  refine ⟨spec.noAlias,
    (fun n hn => by rw [spec.attr2old n (by have := inv.next_le; omegaId)]; exact inv.attr2old n hn),
    (fun n hn => spec.attr2none n (inv.attr2none n hn)),
    fun ho => spec.owned (owned_putAt (inv.owned ho) _ _ _),
    fun hf => spec.fresh (fresh2 (inv.fresh hf)),
    (by
      intro n c hn hc hm
      have hm2 := spec.sub n c (by have := inv.next_le; omegaId) (by have := inv.next_le; omegaId) hm
      by_cases hns : n = s
      · subst hns
        rw [k2s] at hm2
        rcases List.mem_append.mp hm2 with hm2 | hm2
        · exact inv.sub n c hn hc hm2
        · simp only [List.mem_singleton] at hm2; subst hm2; exact hsub c (by simp)
      · rw [k2o n hns] at hm2; exact inv.sub n c hn hc hm2),
    (by
      intro hf n hn
      by_cases hna : n < (a.next : Nat)
      · have hiy : n ∉ (abs f (toLL h) y).ids := fun hm => by have := (hy.2.2 n hm).1; omegaId
        have hns : n ≠ s := by have := sd.slt; omegaId
        rw [frame3 n hna hiy, k2o n hns]; exact inv.leaf hf n hn
      · exact spec.leaf (fresh2 (inv.fresh hf)) n (by omegaId)),
    (by
      intro hi hf hks
      have hia := inv.inv hi hf hks
      have hdet : Detached a y := by
        intro n hn hm
        by_cases hns : n = s
        · subst hns
          have := (inv.outIds 0 (Nat.zero_le _) y (mem_idsL_map hm (abs_ids_root 0 _ y))).2.1
          exact this (by rw [idsL_map_cons]; exact List.mem_append_left _ (abs_ids_root f _ y))
        · by_cases hnl : n < (h.next : Nat)
          · have hmh := inv.sub n y hnl hy.1 hm
            have hkn : h.kind n ≠ .frag := by rw [← (inv.labels n hnl).1]; exact hn
            have p1 := hi.1 n y hkn hmh
            have p2 := hi.1 s y hks (hsub y (by simp))
            rw [p1] at p2
            exact hns (Option.some.inj p2)
          · rw [inv.leaf hf n (Nat.le_of_not_lt hnl)] at hm; cases hm
      exact spec.inv (inv_putAt hia s _ y hdet) (fresh2 (inv.fresh hf)) hyk),
    spec.closed,
    by have := spec.next_le; have := inv.next_le; omegaId, ?_, ?_, ?_, ?_, ?_, ?_⟩
  · intro n hn
    obtain ⟨l1, l2, l3⟩ := lab3 n (by have := inv.next_le; omegaId)
    obtain ⟨m1, m2, m3⟩ := inv.labels n hn
    exact ⟨l1.trans m1, l2.trans m2, l3.trans m3⟩
  · intro i hi
    obtain ⟨h1, h2, _⟩ := rest_ids_lt sd hsub' i hi
    have hiy : i ∉ (abs f (toLL h) y).ids := fun hm => hdisj i hm i hi rfl
    rw [frame3 i (by have := inv.next_le; omegaId) hiy, k2o i h2]
    exact inv.restKids i (by rw [idsL_map_cons]; exact List.mem_append_right _ hi)
  · intro n hn hns hnn
    have hiy : n ∉ (abs f (toLL h) y).ids := fun hm => hnn (hy.2.2 n hm).2.2
    rw [frame3 n (by have := inv.next_le; omegaId) hiy, k2o n hns]
    exact inv.otherKids n hn hns hnn
  · intro t ht; cases ht
  · intro g hg i hi
    rw [k3s, List.map_append, idsL_append, List.map_congr_left (old g hg)] at hi
    rcases List.mem_append.mp hi with hi | hi
    · obtain ⟨h1, h2, h3, h4⟩ := inv.outIds g hg i hi
      exact ⟨h1, fun hm => h2 (by rw [idsL_map_cons]; exact List.mem_append_right _ hm),
        by have := spec.next_le; omegaId, h4⟩
    · simp only [List.map_cons, List.map_nil, idsL, List.append_nil] at hi
      rcases spec.ids g hg i hi with hm | hm
      · rw [yabs f (Nat.le_refl _)] at hm
        obtain ⟨h1, h2, h3⟩ := hy.2.2 i hm
        exact ⟨h2, fun hr => hdisj i hm i hr rfl, by have := spec.next_le; have := inv.next_le; omegaId, Or.inl h3⟩
      · refine ⟨by have := sd.slt; have := inv.next_le; omegaId, ?_, hm.2, Or.inr (by have := inv.next_le; omegaId)⟩
        intro hr
        have := (rest_ids_lt sd hsub' i hr).1
        have := inv.next_le
        omegaId
  · intro g hg
    have h1 := inv.outShape g hg
    have hky : (toLL h).kind y ≠ .text := by
      simp only [toLL_kind]; exact fun e => hk ((kindOf_text _).mp e)
    have hnode : ∃ i k nm cs, abs g (toLL h) y = .node i k nm cs := by
      cases g with
      | zero => exact ⟨_, _, _, _, abs_zero_node hky⟩
      | succ g => exact ⟨_, _, _, _, abs_succ_node hky g⟩
    obtain ⟨i0, k0, nm0, cs0, hnd0⟩ := hnode
    rw [List.map_cons, hnd0, normalizeL_node_head] at h1
    simp only [List.flatMap_nil, List.isEmpty_nil, Bool.not_true, flush_nil_false, List.nil_append] at h1
    rw [k3s, List.map_append, shapeL_append, List.map_congr_left (old g hg), ← h1]
    simp only [List.map_cons, List.map_nil, shapeL, spec.shape g hg, yabs g hg, hnd0, List.append_assoc,
      List.cons_append, List.nil_append, List.flatMap_nil, List.isEmpty_nil, Bool.not_true]

theorem fi_fold {f : Nat}
    (ih : ∀ (h : Heap) (s : Nat), NormPre f h s → NormSpec f h s (normalize f h s))
    {h : Heap} {s : Nat} (sd : Side f h s) :
    ∀ (rest : List Nat) (a : Heap) (txt : List Nat), (∀ y ∈ rest, y ∈ h.kids s) →
      (idsL (rest.map (abs f (toLL h)))).Nodup → FI f h s a txt rest →
      FI f h s (rest.foldl (normStep f s) (a, txt)).1 (rest.foldl (normStep f s) (a, txt)).2 [] := by
  intro rest
  induction rest with
  | nil => intro a txt _ _ inv; exact inv
  | cons y rest ihr =>
    intro a txt hsub hnd inv
    have hy := side_item sd (hsub y (by simp))
    have hsub' : ∀ z ∈ rest, z ∈ h.kids s := fun z hz => hsub z (by simp [hz])
    have hnd' : (idsL (rest.map (abs f (toLL h)))).Nodup := by
      rw [idsL_map_cons] at hnd; exact (List.nodup_append.mp hnd).2.1
    have hkeq : a.kind y = h.kind y := (inv.labels y hy.1).1
    rw [List.foldl_cons]
    by_cases hk : h.kind y = .text
    · have : normStep f s (a, txt) y = (a, txt ++ [y]) := by simp [normStep, hkeq, hk]
      rw [this]
      exact ihr a (txt ++ [y]) hsub' hnd' (fi_text sd hsub inv hk)
    · have : normStep f s (a, txt) y =
          (normalize f (append (fuelOf (appendText a s txt)) (appendText a s txt) s y) y, []) := by
        simp [normStep, hkeq, hk]
      rw [this]
      have hky : (toLL h).kind y ≠ .text := by
        simp only [toLL_kind]; exact fun e => hk ((kindOf_text _).mp e)
      have hfl : ∀ g : Nat, g ≤ f → normalizeL ((y :: rest).map (abs g (toLL h))) (txt.flatMap h.text) (!txt.isEmpty) =
          flush (txt.flatMap h.text) (!txt.isEmpty) ++ normalizeL ((y :: rest).map (abs g (toLL h))) [] false := by
        intro g _
        have hnode : ∃ i k nm cs, abs g (toLL h) y = .node i k nm cs := by
          cases g with
          | zero => exact ⟨_, _, _, _, abs_zero_node hky⟩
          | succ g => exact ⟨_, _, _, _, abs_succ_node hky g⟩
        obtain ⟨i0, k0, nm0, cs0, hnd0⟩ := hnode
        rw [List.map_cons, hnd0, normalizeL_node_head, normalizeL_node_head, flush_nil_false, List.nil_append]
      have inv1 := fi_flush sd hsub inv hfl
      exact ihr _ [] hsub' hnd' (fi_node ih sd hsub hnd inv1 hk)

/-- **`normalize` computes the tree-level normalisation** of the subtree, touches nothing outside it, and keeps the
    heap well-formed -/
theorem loop_spec {f : Nat}
    (ih : ∀ (h : Heap) (s : Nat), NormPre f h s → NormSpec f h s (normalize f h s))
    {h : Heap} {s : Nat} (ha : NoAlias h) (hk : h.kind s ≠ .text)
    (hbk : ∀ n ∈ idsL ((h.kids s).map (abs f (toLL h))), h.attr2 n = none)
    (hc : Closed h h.next) (hs : s < (h.next : Nat))
    (hsnot : s ∉ idsL ((h.kids s).map (abs f (toLL h))))
    (hndk : (idsL ((h.kids s).map (abs f (toLL h)))).Nodup) :
    NormSpec (f + 1) h s (loopRes f h s) := by
  have hky : (toLL h).kind s ≠ .text := by
    simp only [toLL_kind]; exact fun e => hk ((kindOf_text _).mp e)
  have sd : Side f h s := ⟨ha, hbk, hc, hs, hsnot⟩
  unfold loopRes
  -- the loop
  have init : FI f h s (clearKids h s) [] (h.kids s) := by
    refine ⟨fun n => ha n, fun _ _ => rfl, fun _ hn => hn, fun ho n => ho n, ?_, ?_, ?_, fun hi _ _ => inv_clearKids hi s, clearKids_closed hc s, Nat.le_refl _, fun n _ => ⟨rfl, rfl, rfl⟩, ?_, ?_, ?_, ?_, ?_⟩
    · intro hf n hn
      have := hf n hn
      simp only [clearKids, upd]; split
      · rfl
      · exact this
    · intro n c _ _ hm
      simp only [clearKids, upd] at hm
      split at hm
      · cases hm
      · exact hm
    · intro hf n hn
      have := hf n hn
      simp only [clearKids, upd]; split
      · rfl
      · exact this
    · intro i hi
      have : i ≠ s := fun e => hsnot (e ▸ hi)
      simp [clearKids, upd, this]
    · intro n _ hns _; simp [clearKids, upd, hns]
    · intro t ht; cases ht
    · intro g _ i hi; simp [clearKids, upd, idsL] at hi
    · intro g _; simp [clearKids, upd, shapeL]
  have fin := fi_fold ih sd (h.kids s) (clearKids h s) [] (fun y hy => hy) hndk init
  generalize (h.kids s).foldl (normStep f s) (clearKids h s, []) = r at fin ⊢
  have hfl : ∀ g : Nat, g ≤ f → normalizeL (([] : List Nat).map (abs g (toLL h))) (r.2.flatMap h.text) (!r.2.isEmpty) =
      flush (r.2.flatMap h.text) (!r.2.isEmpty) ++ normalizeL (([] : List Nat).map (abs g (toLL h))) [] false := by
    intro g _; simp [normalizeL, flush]
  have last := fi_flush sd (fun y hy => by cases hy) fin hfl
  generalize appendText r.1 s r.2 = a at last ⊢
  obtain ⟨lk, lt, ln⟩ := last.labels s hs
  have hka : (toLL a).kind s ≠ .text := by simp only [toLL_kind, lk]; exact fun e => hk ((kindOf_text _).mp e)
  refine ⟨last.noAlias, last.attr2old, last.attr2none, last.owned, last.fresh, last.sub, last.leaf, last.inv, last.closed, last.next_le, last.labels, ?_, ?_, ?_⟩
  · intro n hn hni
    rw [abs_succ_node hky f] at hni
    simp only [Tree.ids, List.mem_cons, not_or, toLL_kids] at hni
    exact last.otherKids n hn hni.1 hni.2
  · intro g hg
    cases g with
    | zero =>
      rw [zero_depth_normalize_shape, abs_zero_node hka, abs_zero_node hky]
      simp [Tree.shape, lk, ln]
    | succ g =>
      have hs' := last.outShape g (by omega)
      simp only [List.map_nil, List.flatMap_nil, List.isEmpty_nil, Bool.not_true, normalizeL, flush_nil_false,
        shapeL, List.append_nil] at hs'
      rw [abs_succ_node hka g, abs_succ_node hky g]
      simp only [Tree.normalize, Tree.shape, toLL_kind, toLL_name, toLL_kids, lk, ln, hs']
  · intro g hg i hi
    cases g with
    | zero =>
      rw [abs_zero_node hka] at hi
      simp only [Tree.ids, idsL, List.mem_cons, List.not_mem_nil, or_false] at hi
      subst hi; exact Or.inl (abs_ids_root _ _ _)
    | succ g =>
      rw [abs_succ_node hka g] at hi
      simp only [Tree.ids, List.mem_cons, toLL_kids] at hi
      rcases hi with e | hi
      · subst e; exact Or.inl (abs_ids_root _ _ _)
      · obtain ⟨_, _, h3, h4⟩ := last.outIds g (by omega) i hi
        rcases h4 with h4 | h4
        · left; rw [abs_succ_node hky f]; simp only [Tree.ids, List.mem_cons, toLL_kids]; exact Or.inr h4
        · exact Or.inr ⟨h4, h3⟩


theorem norm_spec : ∀ (f : Nat) (h : Heap) (s : Nat), NormPre f h s → NormSpec f h s (normalize f h s) := by
  intro f
  induction f with
  | zero =>
    intro h s ⟨ha, _, hc, hs, _⟩
    simp only [normalize]
    refine ⟨ha, fun _ _ => rfl, fun _ hn => hn, id, id, fun _ _ _ _ hm => hm, fun hf n hn => hf n hn, fun hi _ _ => hi, hc, Nat.le_refl _, fun n _ => ⟨rfl, rfl, rfl⟩, fun n _ _ => rfl, ?_, fun g hg i hi => Or.inl ?_⟩
    · intro g hg
      obtain rfl : g = 0 := by omega
      exact (zero_depth_normalize_shape _ _).symm
    · obtain rfl : g = 0 := by omega
      exact hi
  | succ f ih =>
    intro h s ⟨ha, hb, hc, hs, hnd⟩
    by_cases hk : h.kind s = .text
    · have hkt : (toLL h).kind s = .text := by simp [hk, kindOf]
      have : normalize (f + 1) h s = h := by rw [normalize]; simp [hk]
      rw [this]
      refine ⟨ha, fun _ _ => rfl, fun _ hn => hn, id, id, fun _ _ _ _ hm => hm, fun hf n hn => hf n hn, fun hi _ _ => hi, hc, Nat.le_refl _, fun n _ => ⟨rfl, rfl, rfl⟩, fun n _ _ => rfl, ?_, fun g hg i hi => Or.inl ?_⟩
      · intro g _; rw [abs_text hkt g]; simp [Tree.normalize, Tree.shape]
      · rw [abs_text hkt] at hi ⊢; exact hi
    · have hky : (toLL h).kind s ≠ .text := by
        simp only [toLL_kind]; exact fun e => hk ((kindOf_text _).mp e)
      rw [abs_succ_node hky f] at hnd
      simp only [Tree.ids, toLL_kids] at hnd
      obtain ⟨hsnot, hndk⟩ := List.nodup_cons.mp hnd
      have hbs : h.attr2 s = none := hb s (abs_ids_root _ _ _)
      have hbk : ∀ n ∈ idsL ((h.kids s).map (abs f (toLL h))), h.attr2 n = none := by
        intro n hn
        apply hb n
        rw [abs_succ_node hky f]
        simp only [Tree.ids, List.mem_cons, toLL_kids]
        exact Or.inr hn
      rw [normalize_succ_eq f ha s hbs hk]
      exact loop_spec ih ha hk hbk hc hs hsnot hndk

/-- `normalize` keeps the heap acyclic: the old edges it leaves are original edges, the fresh text nodes are leaves -/
theorem acyclic_of_normSpec {f : Nat} {h : Heap} {s : Nat} {h' : Heap} (spec : NormSpec f h s h') (hf : Fresh h)
    (hac : Acyclic h) : Acyclic h' := by
  obtain ⟨r, hr⟩ := hac
  refine ⟨fun n => if n < (h.next : Nat) then r n + 1 else 0, ?_⟩
  intro n c hc
  by_cases hn : n < (h.next : Nat)
  · simp only [hn, if_true]
    by_cases hcn : c < (h.next : Nat)
    · simp only [hcn, if_true]
      have := hr n c (spec.sub n c hn hcn hc)
      omega
    · simp only [hcn, if_false]; omega
  · rw [spec.leaf hf n (Nat.le_of_not_lt hn)] at hc; cases hc

/-- `normalize` on an element `e` that holds a fragment `f2` under another attribute key normalises `f2`'s subtree as
    well (the fragment is normalised first; the rebuild of `e`'s own child list, on a disjoint part of the heap, does
    not disturb it) -/
theorem norm_attr2 (f : Nat) (h : Heap) (e f2 : Nat)
    (ha : NoAlias h) (hc : Closed h h.next) (he : e < (h.next : Nat)) (hf2 : f2 < (h.next : Nat))
    (hk : h.kind e ≠ .text) (hb : h.attr2 e = some f2)
    (hb2 : ∀ n ∈ (abs f (toLL h) f2).ids, h.attr2 n = none)
    (hnd2 : (abs f (toLL h) f2).ids.Nodup)
    (hbk : ∀ n ∈ idsL ((h.kids e).map (abs f (toLL h))), h.attr2 n = none)
    (hnde : (abs (f + 1) (toLL h) e).ids.Nodup)
    (hdisj : ∀ n ∈ (abs f (toLL h) f2).ids, n ∉ (abs (f + 1) (toLL h) e).ids) :
    (∀ g : Nat, g ≤ f →
      (abs g (toLL (normalize (f + 1) h e)) f2).shape = (abs g (toLL h) f2).normalize.shape) ∧
    (∀ g : Nat, g ≤ f + 1 →
      (abs g (toLL (normalize (f + 1) h e)) e).shape = (abs g (toLL h) e).normalize.shape) := by
  have spec := norm_spec f h f2 ⟨ha, hb2, hc, hf2, hnd2⟩
  rw [normalize_succ_eq2 f ha e f2 hb hk spec.noAlias]
  generalize normalize f h f2 = h0 at spec ⊢
  have hlt : ∀ i ∈ (abs (f + 1) (toLL h) e).ids, i < (h.next : Nat) := abs_ids_lt hc (f + 1) e he
  have hsame : ∀ i ∈ (abs (f + 1) (toLL h) e).ids, SameAt (toLL h) (toLL h0) i := by
    intro i hi
    have hil := hlt i hi
    exact sameAt_of (spec.frame i hil (fun hc' => hdisj i hc' hi)) (spec.labels i hil)
  have hT : abs (f + 1) (toLL h0) e = abs (f + 1) (toLL h) e := abs_congr (f + 1) (toLL h) (toLL h0) e hsame
  have hky : (toLL h).kind e ≠ .text := by
    simp only [toLL_kind]; exact fun e' => hk ((kindOf_text _).mp e')
  obtain ⟨lk, _, _⟩ := spec.labels e he
  have hk0 : h0.kind e ≠ .text := by rw [lk]; exact hk
  have hky0 : (toLL h0).kind e ≠ .text := by
    simp only [toLL_kind]; exact fun e' => hk0 ((kindOf_text _).mp e')
  have hL : (h0.kids e).map (abs f (toLL h0)) = (h.kids e).map (abs f (toLL h)) := by
    have := hT
    rw [abs_succ_node hky f, abs_succ_node hky0 f] at this
    simp only [toLL_kids] at this
    injection this
  rw [abs_succ_node hky f] at hnde
  simp only [Tree.ids, toLL_kids] at hnde
  obtain ⟨hsnot, hndk⟩ := List.nodup_cons.mp hnde
  have he0 : e < (h0.next : Nat) := by have := spec.next_le; omegaId
  have ls : NormSpec (f + 1) h0 e (loopRes f h0 e) := by
    apply loop_spec (norm_spec f) spec.noAlias hk0 _ spec.closed he0
    · rw [hL]; exact hsnot
    · rw [hL]; exact hndk
    · intro n hn
      rw [hL] at hn
      exact spec.attr2none n (hbk n hn)
  generalize loopRes f h0 e = L at ls ⊢
  refine ⟨?_, fun g hg => ?_⟩
  rotate_left
  · rw [ls.shape g hg]
    have : abs g (toLL h0) e = abs g (toLL h) e :=
      abs_congr g (toLL h) (toLL h0) e (fun i hi => hsame i (ids_abs_mono (toLL h) g (f + 1) hg e i hi))
    rw [this]
  intro g hg
  have : abs g (toLL L) f2 = abs g (toLL h0) f2 := by
    apply abs_congr g (toLL h0) (toLL L) f2
    intro i hi
    have hi0 : i < (h0.next : Nat) ∧ i ∉ (abs (f + 1) (toLL h0) e).ids := by
      rw [hT]
      rcases spec.ids g hg i hi with h1 | h1
      · have := abs_ids_lt hc f f2 hf2 i h1
        have := spec.next_le
        exact ⟨by omegaId, hdisj i h1⟩
      · refine ⟨h1.2, fun hc' => ?_⟩
        have := hlt i hc'
        omegaId
    exact sameAt_of (ls.frame i hi0.1 hi0.2) (ls.labels i hi0.1)
  rw [this]
  exact spec.shape g hg

end PlasVerif.Proofs.DomNormalize
