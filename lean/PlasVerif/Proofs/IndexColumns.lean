import PlasVerif.Spec.Index
set_option linter.unusedVariables false
/-! Helper lemmas for C18, part 3: `splitColumns` and `groups`. -/
namespace PlasVerif.Proofs.Index
open PlasVerif.Model.Index

section
variable {α : Type}

theorem splitGo_flatten (ct cols : Nat) : ∀ (es : List (Nat × α)) (cur : Nat) (done : List (List α)) (last : List α),
    (splitGo ct cols es cur done last).flatten = done.flatten ++ last ++ es.map (·.2) := by
  intro es; induction es with
  | nil => intro cur done last; simp [splitGo]
  | cons e es ih =>
    intro cur done last
    obtain ⟨num, item⟩ := e
    simp only [splitGo]
    split
    · rw [ih]; simp
    · split
      · rw [ih]; simp
      · split
        · rw [ih]; simp
        · rw [ih]; simp

theorem splitGo_length (ct cols : Nat) : ∀ (es : List (Nat × α)) (cur : Nat) (done : List (List α)) (last : List α),
    done.length + 1 ≤ cols → (splitGo ct cols es cur done last).length ≤ cols := by
  intro es; induction es with
  | nil => intro cur done last h; simpa [splitGo] using h
  | cons e es ih =>
    intro cur done last h
    obtain ⟨num, item⟩ := e
    simp only [splitGo]
    split
    · exact ih _ _ _ h
    · rename_i hlt
      have hlt : done.length + 1 < cols := by omega
      split
      · apply ih; simp; omega
      · split
        · apply ih; simp; omega
        · exact ih _ _ _ h

theorem filter_nonempty_flatten (L : List (List α)) : (L.filter (fun x => !x.isEmpty)).flatten = L.flatten := by
  induction L with
  | nil => rfl
  | cons x L ih =>
    cases x with
    | nil => simpa [List.filter_cons] using ih
    | cons a x => simp [ih]

theorem reverse_map_reverse_flatten (L : List (List α)) : (L.reverse.map List.reverse).flatten = L.flatten.reverse := by
  rw [List.reverse_flatten, List.map_reverse]

theorem splitColumns_flatten (w : α → Nat) (items : List α) (cols : Nat) :
    (splitColumns w items cols).flatten = items := by
  simp only [splitColumns, List.flatten_append, filter_nonempty_flatten, reverse_map_reverse_flatten, splitGo_flatten]
  simp [List.map_reverse, Function.comp_def]

theorem splitColumns_length (w : α → Nat) (items : List α) (cols : Nat) (h : 1 ≤ cols) :
    (splitColumns w items cols).length = cols := by
  simp only [splitColumns, List.length_append, List.length_replicate]
  have h1 := splitGo_length (α := α) ((items.map w).sum / cols) cols ((items.map fun i => (w i, i)).reverse) 0 [] [] (by simpa using h)
  have h2 := List.length_filter_le (fun x : List α => !x.isEmpty)
    ((splitGo ((items.map w).sum / cols) cols ((items.map fun i => (w i, i)).reverse) 0 [] []).reverse.map List.reverse)
  simp only [List.length_map, List.length_reverse] at h2
  omega

/-- the non-empty columns come first, the padding last -/
theorem splitColumns_shape (w : α → Nat) (items : List α) (cols : Nat) :
    ∃ full pad, splitColumns w items cols = full ++ List.replicate pad [] ∧ ∀ c ∈ full, c ≠ [] := by
  refine ⟨_, _, rfl, ?_⟩
  intro c hc
  have := (List.mem_filter.mp hc).2
  intro e; subst e; simp at this
end

/-! ### groups -/
section
variable {α : Type} (tl : α → Str × Str)

/-- forward description of one round of the batching loop: the entry joins the batch of its title, or opens a
    new batch at the end when there is none -/
def addItem (gs : List (Group α)) (x : α) : List (Group α) :=
  match appendTo (tl x).2 x gs with
  | some gs' => gs'
  | none => gs ++ [{ title := (tl x).2, label := (tl x).1, items := [x] }]

theorem appendTo_none_iff (t : Str) (x : α) : ∀ gs : List (Group α),
    appendTo t x gs = none ↔ ∀ g ∈ gs, g.title ≠ t := by
  intro gs; induction gs with
  | nil => simp [appendTo]
  | cons g gs ih =>
    simp only [appendTo]
    split
    · rename_i h; simp [h]
    · rename_i h; simp [ih, h]

theorem appendTo_decomp (t : Str) (x : α) : ∀ (gs gs' : List (Group α)), appendTo t x gs = some gs' →
    ∃ pre g post, gs = pre ++ g :: post ∧ g.title = t ∧ (∀ h ∈ pre, h.title ≠ t) ∧
      gs' = pre ++ { g with items := g.items ++ [x] } :: post := by
  intro gs; induction gs with
  | nil => intro gs' h; simp [appendTo] at h
  | cons g gs ih =>
    intro gs' h
    simp only [appendTo] at h
    split at h
    · rename_i ht
      exact ⟨[], g, gs, rfl, ht, by simp, by simpa using h.symm⟩
    · rename_i ht
      cases hr : appendTo t x gs with
      | none => simp [hr] at h
      | some r =>
        simp only [hr, Option.map_some, Option.some.injEq] at h
        obtain ⟨pre, g0, post, e1, e2, e3, e4⟩ := ih r hr
        refine ⟨g :: pre, g0, post, by simp [e1], e2, ?_, by simp [← h, e4]⟩
        intro h0 hh
        rcases List.mem_cons.mp hh with e | hh
        · subst e; exact ht
        · exact e3 h0 hh

theorem appendTo_append_new (t l : Str) (x : α) : ∀ gs : List (Group α), (∀ g ∈ gs, g.title ≠ t) →
    appendTo t x (gs ++ [{ title := t, label := l, items := [] }]) = some (gs ++ [{ title := t, label := l, items := [x] }]) := by
  intro gs; induction gs with
  | nil => intro _; simp [appendTo]
  | cons g gs ih =>
    intro h
    have hg : ¬ g.title = t := h g (by simp)
    simp only [List.cons_append, appendTo, hg, if_false]
    rw [ih (fun g' hg' => h g' (List.mem_cons_of_mem _ hg'))]
    rfl

theorem groupsGo_eq : ∀ (xs : List α) (cur : Str) (bs : List (Group α)), (∃ g ∈ bs, g.title = cur) →
    groupsGo tl xs cur bs = .ok (xs.foldl (addItem tl) bs) := by
  intro xs; induction xs with
  | nil => intro cur bs _; simp [groupsGo]
  | cons x xs ih =>
    intro cur bs hcur
    simp only [groupsGo, List.foldl_cons]
    cases hap : appendTo (tl x).2 x bs with
    | none =>
      have hno := (appendTo_none_iff (tl x).2 x bs).mp hap
      have hne : cur ≠ (tl x).2 := by
        obtain ⟨g, hg, e⟩ := hcur
        intro e2; exact hno g hg (e.trans e2)
      have hany : (bs.any fun g => decide (g.title = (tl x).2)) = false := by
        simp only [List.any_eq_false, decide_eq_true_eq]
        exact hno
      simp only [ne_eq, hne, not_false_eq_true, hany, Bool.false_eq_true, and_self, if_true]
      rw [appendTo_append_new _ _ _ _ hno]
      simp only [addItem, hap]
      exact ih _ _ ⟨{ title := (tl x).2, label := (tl x).1, items := [x] }, by simp, rfl⟩
    | some gs' =>
      have hex : ∃ g ∈ bs, g.title = (tl x).2 := by
        apply Classical.byContradiction
        intro hn
        have := (appendTo_none_iff (tl x).2 x bs).mpr (fun g hg e => hn ⟨g, hg, e⟩)
        rw [hap] at this; cases this
      have hany : (bs.any fun g => decide (g.title = (tl x).2)) = true := by
        simp only [List.any_eq_true, decide_eq_true_eq]; exact hex
      simp only [hany, not_true_eq_false, and_false, if_false, hap]
      simp only [addItem, hap]
      obtain ⟨pre, g, post, e1, e2, e3, e4⟩ := appendTo_decomp _ _ _ _ hap
      exact ih _ _ ⟨{ g with items := g.items ++ [x] }, by rw [e4]; simp, e2⟩

theorem groupItems_cons (x : α) (xs : List α) (h : (tl x).2 ≠ []) :
    groupItems tl (x :: xs) = .ok ((x :: xs).foldl (addItem tl) []) := by
  have h' : ([] : Str) ≠ (tl x).2 := fun e => h e.symm
  have e := groupsGo_eq tl xs (tl x).2 [{ title := (tl x).2, label := (tl x).1, items := [x] }]
    ⟨{ title := (tl x).2, label := (tl x).1, items := [x] }, by simp, rfl⟩
  simp only [groupItems, groupsGo, List.foldl_cons]
  simp [h', appendTo, addItem, e]

/-- an entry whose title is the empty string as *first* entry: `bytitle['']` does not exist yet -/
theorem groupItems_empty_title (x : α) (xs : List α) (h : (tl x).2 = []) :
    groupItems tl (x :: xs) = .error .keyError := by
  simp [groupItems, groupsGo, h, appendTo]

/-- what holds after every round: `done` = the entries processed so far -/
structure GInv (done : List α) (gs : List (Group α)) : Prop where
  nodup : (gs.map (·.title)).Nodup
  items : ∀ g ∈ gs, g.items = done.filter (fun x => (tl x).2 = g.title) ∧ g.items ≠ []
  covered : ∀ x ∈ done, ∃ g ∈ gs, g.title = (tl x).2
  heads : (gs.filterMap (·.items.head?)).Sublist done
  perm : (gs.flatMap (·.items)).Perm done

theorem addItem_inv (done : List α) (gs : List (Group α)) (x : α) (h : GInv tl done gs) :
    GInv tl (done ++ [x]) (addItem tl gs x) := by
  unfold addItem
  cases hap : appendTo (tl x).2 x gs with
  | none =>
    have hno := (appendTo_none_iff (tl x).2 x gs).mp hap
    have hfil : done.filter (fun y => (tl y).2 = (tl x).2) = [] := by
      rw [List.filter_eq_nil_iff]
      intro y hy
      obtain ⟨g, hg, e⟩ := h.covered y hy
      simp only [decide_eq_true_eq]
      intro e2; exact hno g hg (e.trans e2)
    constructor
    · simp only [List.map_append, List.map_cons, List.map_nil]
      rw [List.nodup_append]
      refine ⟨h.nodup, by simp, ?_⟩
      intro a ha b hb
      simp only [List.mem_singleton] at hb
      obtain ⟨g, hg, e⟩ := List.mem_map.mp ha
      subst hb; rw [← e]; exact hno g hg
    · intro g hg
      rcases List.mem_append.mp hg with hg | hg
      · have := h.items g hg
        have hne : ¬ (tl x).2 = g.title := fun e => hno g hg e.symm
        refine ⟨?_, this.2⟩
        rw [List.filter_append, ← this.1]
        simp [hne]
      · simp only [List.mem_singleton] at hg
        subst hg
        simp [List.filter_append, hfil]
    · intro y hy
      rcases List.mem_append.mp hy with hy | hy
      · obtain ⟨g, hg, e⟩ := h.covered y hy
        exact ⟨g, List.mem_append_left _ hg, e⟩
      · simp only [List.mem_singleton] at hy
        subst hy
        exact ⟨_, List.mem_append_right _ (List.mem_singleton.mpr rfl), rfl⟩
    · simp only [List.filterMap_append, List.filterMap_cons, List.head?_cons, List.filterMap_nil]
      exact List.Sublist.append h.heads (List.Sublist.refl _)
    · simp only [List.flatMap_append, List.flatMap_cons, List.flatMap_nil, List.append_nil]
      exact List.Perm.append h.perm (List.Perm.refl _)
  | some gs' =>
    obtain ⟨pre, g, post, e1, e2, e3, e4⟩ := appendTo_decomp _ _ _ _ hap
    subst e4
    have hnd := h.nodup
    rw [e1] at hnd
    simp only [List.map_append, List.map_cons] at hnd
    have hpost : ∀ h0 ∈ post, h0.title ≠ (tl x).2 := by
      intro h0 hh e
      have := (List.nodup_append.mp hnd).2.1
      have := (List.nodup_cons.mp this).1
      apply this
      rw [e2, ← e]
      exact List.mem_map.mpr ⟨h0, hh, rfl⟩
    have hg := h.items g (by rw [e1]; simp)
    constructor
    · simpa [e1] using h.nodup
    · intro h0 hh
      rcases List.mem_append.mp hh with hh | hh
      · have := h.items h0 (by rw [e1]; simp [hh])
        have hne : ¬ (tl x).2 = h0.title := fun e => e3 h0 hh e.symm
        refine ⟨?_, this.2⟩
        rw [List.filter_append, ← this.1]; simp [hne]
      · rcases List.mem_cons.mp hh with e | hh
        · subst e
          refine ⟨?_, by simp⟩
          simp only [List.filter_append]
          rw [← hg.1]; simp [e2]
        · have := h.items h0 (by rw [e1]; simp [hh])
          have hne : ¬ (tl x).2 = h0.title := fun e => hpost h0 hh e.symm
          refine ⟨?_, this.2⟩
          rw [List.filter_append, ← this.1]; simp [hne]
    · intro y hy
      rcases List.mem_append.mp hy with hy | hy
      · obtain ⟨g0, hg0, e⟩ := h.covered y hy
        rw [e1] at hg0
        rcases List.mem_append.mp hg0 with hm | hm
        · exact ⟨g0, by simp [hm], e⟩
        · rcases List.mem_cons.mp hm with e0 | hm
          · subst e0; exact ⟨{ g0 with items := g0.items ++ [x] }, by simp, e⟩
          · exact ⟨g0, by simp [hm], e⟩
      · simp only [List.mem_singleton] at hy
        subst hy
        exact ⟨{ g with items := g.items ++ [y] }, by simp, e2⟩
    · have hh : ({ g with items := g.items ++ [x] } : Group α).items.head? = g.items.head? := by
        cases hgi : g.items with
        | nil => exact absurd hgi hg.2
        | cons a r => simp
      have := h.heads
      rw [e1] at this
      simp only [List.filterMap_append, List.filterMap_cons] at this ⊢
      rw [hh]
      exact this.trans (List.sublist_append_left _ _)
    · have := h.perm
      rw [e1] at this
      simp only [List.flatMap_append, List.flatMap_cons] at this ⊢
      have e : pre.flatMap (·.items) ++ (g.items ++ [x] ++ post.flatMap (·.items)) =
          pre.flatMap (·.items) ++ (g.items ++ ([x] ++ post.flatMap (·.items))) := by simp
      rw [e]
      refine List.Perm.trans ?_ (List.Perm.append this (List.Perm.refl [x]))
      rw [List.append_assoc (pre.flatMap _), List.append_assoc g.items]
      refine List.Perm.append_left _ (List.Perm.append_left _ ?_)
      exact List.perm_append_comm

theorem foldl_addItem_inv : ∀ (xs done : List α) (gs : List (Group α)), GInv tl done gs →
    GInv tl (done ++ xs) (xs.foldl (addItem tl) gs) := by
  intro xs; induction xs with
  | nil => intro done gs h; simpa using h
  | cons x xs ih =>
    intro done gs h
    have := ih (done ++ [x]) _ (addItem_inv tl done gs x h)
    simpa using this

theorem GInv_nil : GInv tl ([] : List α) [] :=
  ⟨by simp, by simp, by simp, by simp, by simp⟩
end
end PlasVerif.Proofs.Index
