import PlasVerif.Spec.Index
set_option linter.unusedVariables false
/-! Helper lemmas for C18, part 3: `splitColumns` and `groups`. -/
namespace PlasVerif.Proofs.Index
open PlasVerif.Model.Index

section
variable {α : Type}

theorem splitGo_flatten (ct cols : Nat) : ∀ (es : List (Nat × α)) (cur : Nat) (done : List (List α)) (last : List α),
    (splitGo ct cols es cur done last).flatten = done.flatten ++ last ++ es.map (·.2) := by
  intro es; induction es with
  | nil => intro cur done last; simp [splitGo]
  | cons e es ih =>
    intro cur done last
    obtain ⟨num, item⟩ := e
    simp only [splitGo]
    split
    · rw [ih]; simp
    · split
      · rw [ih]; simp
      · split
        · rw [ih]; simp
        · rw [ih]; simp

theorem splitGo_length (ct cols : Nat) : ∀ (es : List (Nat × α)) (cur : Nat) (done : List (List α)) (last : List α),
    done.length + 1 ≤ cols → (splitGo ct cols es cur done last).length ≤ cols := by
  intro es; induction es with
  | nil => intro cur done last h; simpa [splitGo] using h
  | cons e es ih =>
    intro cur done last h
    obtain ⟨num, item⟩ := e
    simp only [splitGo]
    split
    · exact ih _ _ _ h
    · rename_i hlt
      have hlt : done.length + 1 < cols := by omega
      split
      · apply ih; simp; omega
      · split
        · apply ih; simp; omega
        · exact ih _ _ _ h

theorem filter_nonempty_flatten (L : List (List α)) : (L.filter (fun x => !x.isEmpty)).flatten = L.flatten := by
  induction L with
  | nil => rfl
  | cons x L ih =>
    cases x with
    | nil => simpa [List.filter_cons] using ih
    | cons a x => simp [ih]

theorem reverse_map_reverse_flatten (L : List (List α)) : (L.reverse.map List.reverse).flatten = L.flatten.reverse := by
  rw [List.reverse_flatten, List.map_reverse]

theorem splitColumns_flatten (w : α → Nat) (items : List α) (cols : Nat) :
    (splitColumns w items cols).flatten = items := by
  simp only [splitColumns, List.flatten_append, filter_nonempty_flatten, reverse_map_reverse_flatten, splitGo_flatten]
  simp [List.map_reverse, Function.comp_def]

theorem splitColumns_length (w : α → Nat) (items : List α) (cols : Nat) (h : 1 ≤ cols) :
    (splitColumns w items cols).length = cols := by
  simp only [splitColumns, List.length_append, List.length_replicate]
  have h1 := splitGo_length (α := α) ((items.map w).sum / cols) cols ((items.map fun i => (w i, i)).reverse) 0 [] [] (by simpa using h)
  have h2 := List.length_filter_le (fun x : List α => !x.isEmpty)
    ((splitGo ((items.map w).sum / cols) cols ((items.map fun i => (w i, i)).reverse) 0 [] []).reverse.map List.reverse)
  simp only [List.length_map, List.length_reverse] at h2
  omega

/-- the non-empty columns come first, the padding last -/
theorem splitColumns_shape (w : α → Nat) (items : List α) (cols : Nat) :
    ∃ full pad, splitColumns w items cols = full ++ List.replicate pad [] ∧ ∀ c ∈ full, c ≠ [] := by
  refine ⟨_, _, rfl, ?_⟩
  intro c hc
  have := (List.mem_filter.mp hc).2
  intro e; subst e; simp at this
end

/-! ### groups -/
section
variable {α : Type} (tl : α → Str × Str)

/-- forward description of the batching loop once a first group exists: `g` is the open (last) group -/
def extend (g : Group α) : List α → List (Group α)
  | [] => [g]
  | x :: xs =>
    if g.title ≠ (tl x).2 then g :: extend { title := (tl x).2, label := (tl x).1, items := [x] } xs
    else extend { g with items := g.items ++ [x] } xs

theorem appendLast_some (x : α) : ∀ (gs : List (Group α)) (g : Group α),
    appendLast x (gs ++ [g]) = some (gs ++ [{ g with items := g.items ++ [x] }]) := by
  intro gs; induction gs with
  | nil => intro g; simp [appendLast]
  | cons a gs ih =>
    intro g
    cases hgs : gs ++ [g] with
    | nil => simp at hgs
    | cons b r =>
      have := ih g
      rw [hgs] at this
      simp only [List.cons_append, hgs, appendLast, this, Option.map_some]

theorem groupsGo_extend : ∀ (xs : List α) (init : List (Group α)) (g : Group α),
    groupsGo tl xs g.title (init ++ [g]) = .ok (init ++ extend tl g xs) := by
  intro xs; induction xs with
  | nil => intro init g; simp [groupsGo, extend]
  | cons x xs ih =>
    intro init g
    simp only [groupsGo, extend]
    by_cases h : g.title = (tl x).2
    · have hne : ¬ (g.title ≠ (tl x).2) := by simp [h]
      rw [if_neg hne, if_neg hne, appendLast_some, ← h]
      exact ih init { g with items := g.items ++ [x] }
    · simp only [ne_eq, h, not_false_eq_true, if_true]
      have e : init ++ [g] ++ [{ title := (tl x).2, label := (tl x).1, items := ([] : List α) }]
          = (init ++ [g]) ++ [{ title := (tl x).2, label := (tl x).1, items := [] }] := rfl
      rw [appendLast_some]
      have := ih (init ++ [g]) { title := (tl x).2, label := (tl x).1, items := [] ++ [x] }
      simpa using this

theorem groupItems_cons (x : α) (xs : List α) (h : (tl x).2 ≠ []) :
    groupItems tl (x :: xs) = .ok (extend tl { title := (tl x).2, label := (tl x).1, items := [x] } xs) := by
  simp only [groupItems, groupsGo]
  have h' : ([] : Str) ≠ (tl x).2 := fun e => h e.symm
  simp only [ne_eq, h', not_false_eq_true, if_true, List.nil_append, appendLast]
  have := groupsGo_extend tl xs [] { title := (tl x).2, label := (tl x).1, items := [] ++ [x] }
  simpa using this

/-- an item whose title is the empty string as first item: `batches[-1]` on the empty list -/
theorem groupItems_empty_title (x : α) (xs : List α) (h : (tl x).2 = []) :
    groupItems tl (x :: xs) = .error .indexError := by
  simp [groupItems, groupsGo, h, appendLast]

theorem extend_flat : ∀ (xs : List α) (g : Group α),
    (extend tl g xs).flatMap (·.items) = g.items ++ xs := by
  intro xs; induction xs with
  | nil => intro g; simp [extend]
  | cons x xs ih =>
    intro g; simp only [extend]; split
    · simp [ih]
    · simp [ih]

theorem extend_titled : ∀ (xs : List α) (g : Group α),
    (g.items ≠ [] ∧ ∀ x ∈ g.items, (tl x).2 = g.title) →
    ∀ h ∈ extend tl g xs, h.items ≠ [] ∧ ∀ x ∈ h.items, (tl x).2 = h.title := by
  intro xs; induction xs with
  | nil => intro g hg h hh; simp [extend] at hh; subst hh; exact hg
  | cons x xs ih =>
    intro g hg h hh
    simp only [extend] at hh
    split at hh
    · rcases List.mem_cons.mp hh with e | hh
      · subst e; exact hg
      · exact ih _ (by simp) h hh
    · rename_i ht
      have ht : g.title = (tl x).2 := by simpa using ht
      refine ih _ ?_ h hh
      refine ⟨by simp, ?_⟩
      intro y hy
      rcases List.mem_append.mp hy with hy | hy
      · exact hg.2 y hy
      · simp at hy; subst hy; exact ht.symm

/-- adjacent groups carry different titles -/
def AdjNe : List (Group α) → Prop
  | a :: b :: r => a.title ≠ b.title ∧ AdjNe (b :: r)
  | _ => True

theorem extend_head : ∀ (xs : List α) (g : Group α), ∃ h r, extend tl g xs = h :: r ∧ h.title = g.title := by
  intro xs; induction xs with
  | nil => intro g; exact ⟨g, [], by simp [extend], rfl⟩
  | cons x xs ih =>
    intro g; simp only [extend]; split
    · exact ⟨g, _, rfl, rfl⟩
    · obtain ⟨h, r, e, t⟩ := ih { g with items := g.items ++ [x] }
      exact ⟨h, r, e, t⟩

theorem extend_adj : ∀ (xs : List α) (g : Group α), AdjNe (extend tl g xs) := by
  intro xs; induction xs with
  | nil => intro g; simp [extend, AdjNe]
  | cons x xs ih =>
    intro g; simp only [extend]; split
    · rename_i hne
      obtain ⟨h, r, e, t⟩ := extend_head tl xs { title := (tl x).2, label := (tl x).1, items := [x] }
      have := ih { title := (tl x).2, label := (tl x).1, items := [x] }
      rw [e] at this ⊢
      exact ⟨by rw [t]; exact hne, this⟩
    · exact ih _
end
end PlasVerif.Proofs.Index
