import PlasVerif.Spec.DocTree
/-!
Helper lemmas for C07 (`Properties/C07.lean`): how `leaves` (depth-first reading, arguments
first) behaves under the tree operations of the model, and the fuel induction over
`digest` / `loop`.
-/
namespace PlasVerif.Proofs.Digest
open PlasVerif.Model.Digest PlasVerif.Spec.DocTree PlasVerif.Generated.Digest
open List (Sublist)

theorem leavesL_append (a b : List Tree) : leavesL (a ++ b) = leavesL a ++ leavesL b := by
  induction a with
  | nil => simp [leavesL]
  | cons x xs ih => simp [leavesL, ih, List.append_assoc]

@[simp] theorem leaves_setParent (r : Ref) (t : Tree) : leaves (t.setParent r) = leaves t := by
  cases t; simp [Tree.setParent, leaves]

@[simp] theorem it_setParent (r : Ref) (t : Tree) : (t.setParent r).it = t.it := by
  cases t; rfl

@[simp] theorem kids_setParent (r : Ref) (t : Tree) : (t.setParent r).kids = t.kids := by
  cases t; rfl

theorem leaves_eq (t : Tree) : leaves t = own t.it ++ leavesL t.kids := by
  cases t; simp [leaves, Tree.it, Tree.kids]

theorem leaves_append (t x : Tree) : leaves (t.append x) = leaves t ++ leaves x := by
  cases t with
  | node it p kids => simp [Tree.append, leaves, Tree.it, Tree.kids, Tree.parent, leavesL_append, leavesL]

@[simp] theorem it_append (t x : Tree) : (t.append x).it = t.it := by
  cases t; rfl

/-- the words of the pending text nodes -/
def srcs (txt : List Tree) : List Nat := txt.flatMap (·.it.src)

theorem srcs_append (a b : List Tree) : srcs (a ++ b) = srcs a ++ srcs b := by simp [srcs]

theorem leavesL_flushText (cs : Bool) (o : Ref) (txt : List Tree) : leavesL (flushText cs o txt) = srcs txt := by
  unfold flushText
  by_cases h : txt.isEmpty
  · have : txt = [] := by simpa using h
    simp [this, leavesL, srcs]
  · simp [h, leavesL, leaves, own, textItem, srcs]

theorem src_sub_leaves (k : Tree) (h : k.it.elem = false) : (k.it.src).Sublist (leaves k) := by
  rw [leaves_eq]; simp [own, h]

/-! ### normalize never duplicates or reorders (text nodes lose their — non-existent — children) -/
mutual
theorem norm_sub (cs : Bool) : ∀ t : Tree, (leaves (norm cs t)).Sublist (leaves t)
  | .node it p kids => by
    simp only [norm, leaves]
    have := normKids_sub (cs && !it.nosub) it.ref kids []
    simpa [srcs] using this.append_left (own it)
theorem normKids_sub (cs : Bool) (o : Ref) : ∀ (ks txt : List Tree),
    (leavesL (normKids cs o ks txt)).Sublist (srcs txt ++ leavesL ks)
  | [], txt => by simp [normKids, leavesL_flushText, leavesL]
  | k :: ks, txt => by
    unfold normKids
    by_cases h : k.it.elem
    · simp only [h, if_true]
      rw [leavesL_append, leavesL_flushText]
      simp only [leavesL, leaves_setParent]
      have h1 := norm_sub cs k
      have h2 := normKids_sub cs o ks []
      simp only [srcs, List.flatMap_nil, List.nil_append] at h2
      exact (h1.append h2).append_left _
    · have h' : k.it.elem = false := by simpa using h
      simp only [h', Bool.false_eq_true, if_false]
      have h2 := normKids_sub cs o ks (txt ++ [k])
      rw [srcs_append] at h2
      simp only [leavesL]
      have h3 : (srcs [k]).Sublist (leaves k) := by simpa [srcs] using src_sub_leaves k h'
      have : (srcs txt ++ srcs [k] ++ leavesL ks).Sublist (srcs txt ++ (leaves k ++ leavesL ks)) := by
        rw [List.append_assoc]
        exact (h3.append (List.Sublist.refl _)).append_left _
      exact h2.trans this
end

theorem norm_it (cs : Bool) (t : Tree) : (norm cs t).it = t.it := by
  cases t; simp [norm, Tree.it]

/-! ### paragraphs -/
theorem leaves_mkPar (proto : Item) (o p : Ref) (k : Nat) (b : Bool) (kids : List Tree) :
    leaves (mkPar proto o p k b kids) = leavesL kids := by
  simp [mkPar, leaves, own]

theorem parLoop_leaves (proto : Item) (o : Ref) : ∀ (kids done : List Tree) (cur : Tree),
    leavesL (parLoop proto o done cur kids).1 ++ leavesL (parLoop proto o done cur kids).2
      = leavesL done ++ leaves cur ++ leavesL kids
  | [], done, cur => by simp [parLoop, leavesL_append, leavesL]
  | x :: r, done, cur => by
    unfold parLoop
    split
    · rw [parLoop_leaves proto o r]; simp [leavesL_append, leavesL, List.append_assoc]
    · split
      · simp [leavesL_append, leavesL, List.append_assoc]
      · split
        · rw [parLoop_leaves proto o r]
          simp [leavesL_append, leavesL, leaves_mkPar, List.append_assoc]
        · rw [parLoop_leaves proto o r]; simp [leaves_append, leavesL, List.append_assoc]

theorem leavesL_map_sub (f : Tree → Tree) (hf : ∀ t, (leaves (f t)).Sublist (leaves t)) :
    ∀ ts : List Tree, (leavesL (ts.map f)).Sublist (leavesL ts)
  | [] => by simp [leavesL]
  | t :: ts => by simpa [leavesL] using (hf t).append (leavesL_map_sub f hf ts)

theorem leavesL_filter_sub (q : Tree → Bool) : ∀ ts : List Tree, (leavesL (ts.filter q)).Sublist (leavesL ts)
  | [] => by simp [leavesL]
  | t :: ts => by
    by_cases h : q t
    · simpa [List.filter, h, leavesL] using (leavesL_filter_sub q ts).append_left (leaves t)
    · have := leavesL_filter_sub q ts
      simp only [List.filter, h, leavesL]
      exact this.trans (List.sublist_append_right _ _)

theorem paragraphs_sub (force : Bool) (t : Tree) : (leaves (paragraphs force t)).Sublist (leaves t) := by
  cases t with
  | node it p kids =>
    simp only [paragraphs]
    split
    · exact norm_sub true _
    · simp only [leaves]
      refine List.Sublist.append_left ?_ _
      refine (leavesL_filter_sub _ _).trans ?_
      rw [leavesL_append]
      have key : ∀ proto : Item,
          (leavesL ((parLoop proto it.ref [] (mkPar proto it.ref it.ref 0 false []) kids).1.map fun n =>
              ((if n.it.level == parLevel then norm true n else n).setParent it.ref)) ++
            leavesL (parLoop proto it.ref [] (mkPar proto it.ref it.ref 0 false []) kids).2).Sublist (leavesL kids) := by
        intro proto
        have hl := parLoop_leaves proto it.ref kids [] (mkPar proto it.ref it.ref 0 false [])
        simp only [leavesL, leaves_mkPar, List.nil_append] at hl
        rw [← hl]
        refine List.Sublist.append ?_ (List.Sublist.refl _)
        apply leavesL_map_sub
        intro n
        rw [leaves_setParent]
        split
        · exact norm_sub true n
        · exact List.Sublist.refl _
      exact key _

theorem paragraphs_it (force : Bool) (t : Tree) : (paragraphs force t).it = t.it := by
  cases t with
  | node it p kids =>
    simp only [paragraphs]
    split
    · simp [norm, Tree.it]
    · simp [Tree.it]

/-! ### the blanks dropped at the head of a list / after an item -/
theorem skipList_sub : ∀ s : List Tree, (leavesL (skipList s)).Sublist (leavesL s)
  | [] => by simp [skipList, leavesL]
  | x :: r => by
    unfold skipList
    split
    · simpa [leavesL] using (skipList_sub r).trans (List.sublist_append_right _ _)
    · split
      · simpa [leavesL] using (skipList_sub r).trans (List.sublist_append_right _ _)
      · exact List.Sublist.refl _

theorem skipWs_sub : ∀ s : List Tree, (leavesL (skipWs s)).Sublist (leavesL s)
  | [] => by simp [skipWs, leavesL]
  | x :: r => by
    unfold skipWs
    split
    · simpa [leavesL] using (skipWs_sub r).trans (List.sublist_append_right _ _)
    · exact List.Sublist.refl _

/-! ### fuel induction -/
/-- reading of a node under construction followed by the unread stream -/
def rd (t : Tree) (s : List Tree) : List Nat := leaves t ++ leavesL s

def DigestSub (f : Nat) : Prop :=
  ∀ t s t' s', digest f t s = some (t', s') → (rd t' s').Sublist (rd t s)
def LoopSub (f : Nat) : Prop :=
  ∀ k t dp s t' dp' s', loop f k t dp s = some (t', dp', s') → (rd t' s').Sublist (rd t s)

theorem rd_post {g : Tree → Tree} (hg : ∀ t, (leaves (g t)).Sublist (leaves t)) {t t' : Tree} {s s' s0 : List Tree}
    (h : (rd t' s').Sublist (rd t s0)) (hs : (leavesL s0).Sublist (leavesL s)) :
    (rd (g t') s').Sublist (rd t s) := by
  unfold rd at *
  exact ((hg t').append (List.Sublist.refl _)).trans (h.trans ((List.Sublist.refl _).append hs))

theorem ite_sub (b : Bool) (g : Tree → Tree) (hg : ∀ t, (leaves (g t)).Sublist (leaves t)) :
    ∀ t, (leaves (if b then g t else t)).Sublist (leaves t) := by
  intro t; cases b
  · exact List.Sublist.refl _
  · simpa using hg t

theorem digest_step (f : Nat) (hl : LoopSub f) : DigestSub (f + 1) := by
  intro t s t' s' h
  unfold digest at h
  split at h
  · cases h; exact List.Sublist.refl _
  · split at h
    · cases h; exact List.Sublist.refl _
    · split at h
      · cases h
      · rename_i t1 dp s1 heq
        cases h
        exact rd_post (ite_sub dp _ (paragraphs_sub true)) (hl _ _ _ _ _ _ _ heq) (List.Sublist.refl _)
  · split at h
    · cases h; exact List.Sublist.refl _
    · split at h
      · cases h
      · rename_i t1 dp s1 heq
        cases h
        exact rd_post (ite_sub dp _ (paragraphs_sub true)) (hl _ _ _ _ _ _ _ heq) (skipList_sub s)
  · split at h
    · cases h
    · rename_i t1 dp s1 heq
      cases h
      exact rd_post (paragraphs_sub true) (hl _ _ _ _ _ _ _ heq) (List.Sublist.refl _)
  · split at h
    · cases h
    · rename_i t1 dp s1 heq
      cases h
      exact rd_post (paragraphs_sub false) (hl _ _ _ _ _ _ _ heq) (List.Sublist.refl _)
  · split at h
    · cases h
    · rename_i t1 dp s1 heq
      cases h
      exact rd_post (ite_sub t.it.forcePars _ (paragraphs_sub true)) (hl _ _ _ _ _ _ _ heq) (skipWs_sub s)

theorem rd_cons (t x : Tree) (r : List Tree) : rd (t.append x) r = rd t (x :: r) := by
  simp [rd, leaves_append, leavesL, List.append_assoc]

/-- digesting the pulled item (or not, for text) never duplicates or reorders -/
theorem digestIf_sub (f : Nat) (hd : DigestSub f) (x : Tree) (ref : Ref) (r : List Tree) (x' : Tree) (r' : List Tree)
    (h : (if x.it.elem then digest f (x.setParent ref) r else some (x, r)) = some (x', r')) :
    (leaves x' ++ leavesL r').Sublist (leaves x ++ leavesL r) := by
  by_cases he : x.it.elem
  · simp only [he, if_true] at h
    have := hd _ _ _ _ h
    simpa [rd] using this
  · simp only [he] at h
    cases h
    exact List.Sublist.refl _

theorem loop_step (f : Nat) (hd : DigestSub f) (hl : LoopSub f) : LoopSub (f + 1) := by
  intro k t dp s t' dp' s' h
  cases s with
  | nil => unfold loop at h; cases h; exact List.Sublist.refl _
  | cons x r =>
    unfold loop at h
    split at h
    · cases h; exact List.Sublist.refl _
    · cases h
      simp only [rd, leavesL]
      exact (List.Sublist.refl _).append (List.sublist_append_right _ _)
    · have := hl _ _ _ _ _ _ _ h
      rwa [rd_cons] at this
    · split at h
      · cases h
      · rename_i x' r' heq
        have hx := digestIf_sub f hd x t.it.ref r x' r' heq
        split at h
        · cases h
          simp only [rd, leavesL]
          exact (List.Sublist.refl _).append hx
        · have := hl _ _ _ _ _ _ _ h
          rw [rd_cons] at this
          refine this.trans ?_
          simp only [rd, leavesL]
          exact (List.Sublist.refl _).append hx

theorem digest_loop_sub : ∀ f, DigestSub f ∧ LoopSub f
  | 0 => ⟨fun _ _ _ _ h => by simp [digest] at h, fun _ _ _ _ _ _ _ h => by simp [loop] at h⟩
  | f + 1 =>
    have ih := digest_loop_sub f
    ⟨digest_step f ih.2, loop_step f ih.1 ih.2⟩

theorem top_sub : ∀ (f : Nat) (acc s out : List Tree), top f acc s = some out →
    (leavesL out).Sublist (leavesL acc ++ leavesL s)
  | 0, _, _, _, h => by simp [top] at h
  | f + 1, acc, [], out, h => by
    simp only [top] at h; cases h; simp [leavesL]
  | f + 1, acc, x :: r, out, h => by
    unfold top at h
    split at h
    · cases h
    · rename_i x' r' heq
      have hx := digestIf_sub f (digest_loop_sub f).1 x .out r x' r' heq
      have := top_sub f _ _ _ h
      refine this.trans ?_
      simp only [leavesL_append, leavesL, leaves_setParent, List.append_nil, List.append_assoc]
      exact (List.Sublist.refl _).append hx

/-! ### item identity is preserved -/
theorem loop_it : ∀ (f : Nat) k t dp s t' dp' s', loop f k t dp s = some (t', dp', s') → t'.it = t.it
  | 0, _, _, _, _, _, _, _, h => by simp [loop] at h
  | f + 1, k, t, dp, [], t', dp', s', h => by unfold loop at h; cases h; rfl
  | f + 1, k, t, dp, x :: r, t', dp', s', h => by
    unfold loop at h
    split at h
    · cases h; rfl
    · cases h; rfl
    · have := loop_it f _ _ _ _ _ _ _ h; simpa using this
    · split at h
      · cases h
      · split at h
        · cases h; rfl
        · have := loop_it f _ _ _ _ _ _ _ h; simpa using this

end PlasVerif.Proofs.Digest
