import PlasVerif.Proofs.IndexOrder
set_option linter.unusedVariables false
/-! Helper lemmas for C18, part 2: the stable insertion sort. -/
namespace PlasVerif.Proofs.Index
open PlasVerif.Model.Index

theorem StrictTotal.not_lt_trans {α} {lt : α → α → Bool} (h : StrictTotal lt) (a b c : α) :
    lt b a = false → lt c b = false → lt c a = false := by
  intro h1 h2
  by_cases hab : a = b
  · subst hab; exact h2
  by_cases hbc : b = c
  · subst hbc; exact h1
  have h3 : lt a b = true := by rcases h.tri a b hab with h | h <;> simp_all
  have h4 : lt b c = true := by rcases h.tri b c hbc with h | h <;> simp_all
  exact h.asymm _ _ (h.trans _ _ _ h3 h4)

section
variable {α κ : Type} {lt : α → α → Bool} {klt : κ → κ → Bool} {key : α → κ}

theorem insertSorted_perm (x : α) (l : List α) : (insertSorted lt x l).Perm (x :: l) := by
  induction l with
  | nil => simp [insertSorted]
  | cons y ys ih =>
    simp only [insertSorted]
    split
    · exact (List.Perm.cons y ih).trans (List.Perm.swap x y ys)
    · exact List.Perm.refl _

theorem isort_perm (l : List α) : (isort lt l).Perm l := by
  induction l with
  | nil => simp [isort]
  | cons x xs ih => exact (insertSorted_perm x _).trans (List.Perm.cons x ih)

/-- no element is smaller than an earlier one -/
def Sorted (lt : α → α → Bool) (l : List α) : Prop := l.Pairwise (fun a b => lt b a = false)

theorem insertSorted_sorted (h : StrictTotal klt) (hk : ∀ a b, lt a b = klt (key a) (key b))
    (x : α) (l : List α) : Sorted lt l → Sorted lt (insertSorted lt x l) := by
  induction l with
  | nil => intro _; simp [insertSorted, Sorted]
  | cons y ys ih =>
    intro hs
    have hs' := List.pairwise_cons.mp hs
    simp only [insertSorted]
    split
    next hyx =>
      apply List.pairwise_cons.mpr
      refine ⟨?_, ih hs'.2⟩
      intro b hb
      rcases List.mem_cons.mp ((insertSorted_perm (lt := lt) x ys).mem_iff.mp hb) with e | hb
      · subst e; rw [hk] at hyx ⊢; exact h.asymm _ _ hyx
      · exact hs'.1 b hb
    next hyx =>
      have hyx : lt y x = false := by simpa using hyx
      apply List.pairwise_cons.mpr
      refine ⟨?_, hs⟩
      intro b hb
      rcases List.mem_cons.mp hb with e | hb
      · subst e; exact hyx
      · have := hs'.1 b hb
        rw [hk] at this hyx ⊢
        exact h.not_lt_trans _ _ _ hyx this

theorem isort_sorted (h : StrictTotal klt) (hk : ∀ a b, lt a b = klt (key a) (key b)) (l : List α) :
    Sorted lt (isort lt l) := by
  induction l with
  | nil => simp [isort, Sorted]
  | cons x xs ih => exact insertSorted_sorted h hk x _ ih

theorem insertSorted_filter [DecidableEq κ] (h : StrictTotal klt) (hk : ∀ a b, lt a b = klt (key a) (key b))
    (k : κ) (x : α) (l : List α) :
    (insertSorted lt x l).filter (fun e => key e = k) = (x :: l).filter (fun e => key e = k) := by
  induction l with
  | nil => simp [insertSorted]
  | cons y ys ih =>
    simp only [insertSorted]
    split
    next hyx =>
      have hne : key y ≠ key x := by
        intro e; rw [hk, e, h.irrefl] at hyx; simp at hyx
      rw [List.filter_cons, ih]
      by_cases hx : key x = k <;> by_cases hy : key y = k <;> simp_all [List.filter_cons]
    next => rfl

/-- stability: the elements with any given key keep their input order -/
theorem isort_filter [DecidableEq κ] (h : StrictTotal klt) (hk : ∀ a b, lt a b = klt (key a) (key b))
    (k : κ) (l : List α) :
    (isort lt l).filter (fun e => key e = k) = l.filter (fun e => key e = k) := by
  induction l with
  | nil => simp [isort]
  | cons x xs ih =>
    simp only [isort]
    rw [insertSorted_filter h hk, List.filter_cons, List.filter_cons, ih]
end

end PlasVerif.Proofs.Index
