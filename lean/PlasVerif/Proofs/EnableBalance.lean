import PlasVerif.Model.EnableBalance
/-!
# Soundness of the enable/disable balance checker

`exec_mem_outs` : under `wf p`, every execution `Exec p n o m` (any branch choices, any number of loop iterations,
exceptions escaping anywhere) has `(o, m - n) ∈ outs p`. Proof: induction on the derivation of `Exec`.
`balanced_sound` : hence `balanced p` forces `m = n` on every execution that returns or falls off the end.
-/
namespace PlasVerif.Proofs.EnableBalance
open PlasVerif.Model.EnableBalance

theorem mem_ins {x y : Out} {l : List Out} : x ∈ ins y l ↔ x = y ∨ x ∈ l := by
  unfold ins
  split
  · constructor
    · intro h; exact Or.inr h
    · rintro (h | h)
      · subst h; assumption
      · exact h
  · simp

theorem mem_dedup {x : Out} {l : List Out} : x ∈ dedup l ↔ x ∈ l := by
  induction l with
  | nil => simp [dedup]
  | cons y ys ih =>
    have : dedup (y :: ys) = ins y (dedup ys) := rfl
    rw [this, mem_ins, ih]; simp

theorem mem_shift {o : Outcome} {d e : Int} {l : List Out} (h : (o, e) ∈ l) : (o, d + e) ∈ shift d l := by
  unfold shift
  exact List.mem_map.mpr ⟨(o, e), h, rfl⟩

theorem mem_after_stop {o : Outcome} {d : Int} {A B : List Out} (h : (o, d) ∈ A) (ho : o ≠ .normal) :
    (o, d) ∈ after A B := by
  unfold after
  refine List.mem_flatMap.mpr ⟨(o, d), h, ?_⟩
  simp [ho]

theorem mem_after_normal {o : Outcome} {d e : Int} {A B : List Out}
    (h : (Outcome.normal, d) ∈ A) (h' : (o, e) ∈ B) : (o, d + e) ∈ after A B := by
  unfold after
  refine List.mem_flatMap.mpr ⟨(.normal, d), h, ?_⟩
  simpa using mem_shift h'

theorem mem_catching_keep {o : Outcome} {d : Int} {A H : List Out} (h : (o, d) ∈ A) : (o, d) ∈ catching A H := by
  unfold catching
  refine List.mem_flatMap.mpr ⟨(o, d), h, ?_⟩
  by_cases ho : o = .raised <;> simp [ho]

theorem mem_catching_caught {o : Outcome} {d e : Int} {A H : List Out}
    (h : (Outcome.raised, d) ∈ A) (h' : (o, e) ∈ H) : (o, d + e) ∈ catching A H := by
  unfold catching
  refine List.mem_flatMap.mpr ⟨(.raised, d), h, ?_⟩
  simp only [if_true]
  exact List.mem_cons_of_mem _ (mem_shift h')

theorem mem_finallyOuts {o o' : Outcome} {d e : Int} {A F : List Out} (h : (o, d) ∈ A) (h' : (o', e) ∈ F) :
    ((if o' = .normal then o else o'), d + e) ∈ finallyOuts A F := by
  unfold finallyOuts
  exact List.mem_flatMap.mpr ⟨(o, d), h, List.mem_map.mpr ⟨(o', e), h', rfl⟩⟩

theorem mem_loopOuts_else {x : Out} {B E : List Out} (h : x ∈ E) : x ∈ loopOuts B E := by
  unfold loopOuts; exact List.mem_append_left _ h

theorem mem_loopOuts_break {d : Int} {B E : List Out} (h : (Outcome.broke, d) ∈ B) :
    (Outcome.normal, d) ∈ loopOuts B E := by
  unfold loopOuts
  refine List.mem_append_right _ (List.mem_flatMap.mpr ⟨(.broke, d), h, ?_⟩)
  simp

theorem mem_loopOuts_exit {o : Outcome} {d : Int} {B E : List Out} (h : (o, d) ∈ B)
    (ho : o = .returned ∨ o = .raised) : (o, d) ∈ loopOuts B E := by
  unfold loopOuts
  refine List.mem_append_right _ (List.mem_flatMap.mpr ⟨(o, d), h, ?_⟩)
  rcases ho with ho | ho <;> subst ho <;> simp

/-- every program can be left by an exception with net 0 (matches `Exec.abort`) -/
theorem raised_zero_mem_outs (p : Prog) : (Outcome.raised, (0 : Int)) ∈ outs p := by
  cases p <;> simp [outs, mem_dedup]

theorem neutralIter_spec {l : List Out} (h : neutralIter l = true) {o : Outcome} {d : Int} (hm : (o, d) ∈ l)
    (ho : o = .normal ∨ o = .continued) : d = 0 := by
  unfold neutralIter at h
  have := List.all_eq_true.mp h (o, d) hm
  rcases ho with ho | ho <;> subst ho <;> simpa using this

theorem exitsNeutral_spec {l : List Out} (h : exitsNeutral l = true) {o : Outcome} {d : Int} (hm : (o, d) ∈ l)
    (ho : o = .returned ∨ o = .normal) : d = 0 := by
  unfold exitsNeutral at h
  have := List.all_eq_true.mp h (o, d) hm
  rcases ho with ho | ho <;> subst ho <;> simpa using this

/-- Key lemma: the abstract interpreter covers every execution, whatever the number of loop iterations. -/
theorem exec_mem_outs {p : Prog} {n m : Int} {o : Outcome} (h : Exec p n o m) :
    wf p = true → (o, m - n) ∈ outs p := by
  induction h with
  | abort p n => intro _; simpa using raised_zero_mem_outs p
  | skip n => intro _; simp [outs]
  | enable n => intro _; simp [outs]; omega
  | disable n => intro _; simp [outs]; omega
  | ret n => intro _; simp [outs]
  | raise n => intro _; simp [outs]
  | brk n => intro _; simp [outs]
  | cont n => intro _; simp [outs]
  | @seqNormal a b n m k o _ _ iha ihb =>
    intro hw
    simp only [wf, Bool.and_eq_true] at hw
    have e : k - n = (m - n) + (k - m) := by omega
    simp only [outs, mem_dedup]
    rw [e]
    exact List.mem_cons_of_mem _ (mem_after_normal (iha hw.1) (ihb hw.2))
  | @seqStop a b n m o _ ho iha =>
    intro hw
    simp only [wf, Bool.and_eq_true] at hw
    simp only [outs, mem_dedup]
    exact List.mem_cons_of_mem _ (mem_after_stop (iha hw.1) ho)
  | @choiceL a b n m o _ iha =>
    intro hw
    simp only [wf, Bool.and_eq_true] at hw
    simp only [outs, mem_dedup]
    exact List.mem_cons_of_mem _ (List.mem_append_left _ (iha hw.1))
  | @choiceR a b n m o _ ihb =>
    intro hw
    simp only [wf, Bool.and_eq_true] at hw
    simp only [outs, mem_dedup]
    exact List.mem_cons_of_mem _ (List.mem_append_right _ (ihb hw.2))
  | @loopDone b e n m o _ ihe =>
    intro hw
    simp only [wf, Bool.and_eq_true] at hw
    simp only [outs, mem_dedup]
    exact List.mem_cons_of_mem _ (mem_loopOuts_else (ihe hw.1.2))
  | @loopIter b e n m k o o' _ ho _ ihb ihl =>
    intro hw
    have hw' := hw
    simp only [wf, Bool.and_eq_true] at hw'
    have hz : m - n = 0 := neutralIter_spec hw'.2 (ihb hw'.1.1) ho
    have e : k - n = k - m := by omega
    rw [e]
    exact ihl hw
  | @loopBreak b e n m _ ihb =>
    intro hw
    simp only [wf, Bool.and_eq_true] at hw
    simp only [outs, mem_dedup]
    exact List.mem_cons_of_mem _ (mem_loopOuts_break (ihb hw.1.1))
  | @loopExit b e n m o _ ho ihb =>
    intro hw
    simp only [wf, Bool.and_eq_true] at hw
    simp only [outs, mem_dedup]
    exact List.mem_cons_of_mem _ (mem_loopOuts_exit (ihb hw.1.1) ho)
  | @tryOk b h n m o _ _ ihb =>
    intro hw
    simp only [wf, Bool.and_eq_true] at hw
    simp only [outs, mem_dedup]
    exact List.mem_cons_of_mem _ (mem_catching_keep (ihb hw.1))
  | @tryCaught b h n m k o _ _ ihb ihh =>
    intro hw
    simp only [wf, Bool.and_eq_true] at hw
    have e : k - n = (m - n) + (k - m) := by omega
    simp only [outs, mem_dedup]
    rw [e]
    exact List.mem_cons_of_mem _ (mem_catching_caught (ihb hw.1) (ihh hw.2))
  | @tryEscape b h n m _ ihb =>
    intro hw
    simp only [wf, Bool.and_eq_true] at hw
    simp only [outs, mem_dedup]
    exact List.mem_cons_of_mem _ (mem_catching_keep (ihb hw.1))
  | @finNormal b f n m k o _ _ ihb ihf =>
    intro hw
    simp only [wf, Bool.and_eq_true] at hw
    have e : k - n = (m - n) + (k - m) := by omega
    simp only [outs, mem_dedup]
    rw [e]
    exact List.mem_cons_of_mem _ (by simpa using mem_finallyOuts (ihb hw.1) (ihf hw.2))
  | @finOverride b f n m k o o' _ _ ho ihb ihf =>
    intro hw
    simp only [wf, Bool.and_eq_true] at hw
    have e : k - n = (m - n) + (k - m) := by omega
    simp only [outs, mem_dedup]
    rw [e]
    exact List.mem_cons_of_mem _ (by simpa [ho] using mem_finallyOuts (ihb hw.1) (ihf hw.2))

/-- **Soundness of `balanced`.** If the checker accepts the skeleton `p`, then on *every* execution of `p` that ends
in a `return` or by falling off the end of the function - whatever branches are taken, however many times each loop
iterates, wherever an exception is caught - the nesting counter is back at its initial value.
(Executions that leave by `raise` / an escaping exception are exempt from the clause.) -/
theorem balanced_sound {p : Prog} (hb : balanced p = true) :
    ∀ n m : Int, Exec p n .returned m ∨ Exec p n .normal m → m = n := by
  intro n m h
  unfold balanced at hb
  simp only [Bool.and_eq_true] at hb
  rcases h with h | h
  · have := exitsNeutral_spec hb.2 (exec_mem_outs h hb.1) (Or.inl rfl); omega
  · have := exitsNeutral_spec hb.2 (exec_mem_outs h hb.1) (Or.inr rfl); omega

/-! ### the checker is not vacuous: it rejects real imbalances and the semantics reaches them -/

/-- the shape of defect D5 (`disable; loop; return` without `enable`) is rejected -/
example : balanced (.seq .disable (.seq (.loop (.choice .brk .skip) .skip) .ret)) = false := by decide
/-- ... and indeed has a returning execution with net -1, after two loop iterations and a `break` -/
example : Exec (.seq .disable (.seq (.loop (.choice .brk .skip) .skip) .ret)) 0 .returned (-1) :=
  .seqNormal (.disable 0) (.seqNormal
    (.loopIter (.choiceR (.skip _)) (Or.inl rfl) (.loopIter (.choiceR (.skip _)) (Or.inl rfl)
      (.loopBreak (.choiceL (.brk _))))) (.ret _))
/-- a balanced function with an early return inside a loop is accepted -/
example : balanced (.seq .disable (.seq (.loop (.seq (.choice (.seq .enable .ret) .skip) .brk) .skip)
    (.seq .enable .ret))) = true := by decide
/-- repairing it with `try/finally` is accepted -/
example : balanced (.seq .disable (.tryFinally (.seq (.loop (.choice .brk .skip) .skip) .ret) .enable)) = true := by
  decide
/-- a loop whose iteration is not neutral is rejected -/
example : balanced (.seq (.loop .disable .skip) .ret) = false := by decide

end PlasVerif.Proofs.EnableBalance
