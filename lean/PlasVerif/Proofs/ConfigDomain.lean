import PlasVerif.Proofs.Config
/-! Inside the domain of the spec, argparse (as modelled) accepts the command line. -/
namespace PlasVerif.Proofs.ConfigDomain
open PlasVerif.Model.Config PlasVerif.Spec.Config PlasVerif.Proofs.Config

theorem owns_eq (o : Opt) (f : Str) : owns o f = (flagsOf o).contains f := by
  unfold owns flagsOf
  cases o.ty with
  | atom t => cases t <;> simp
  | list => rfl
  | dict t l => rfl

theorem conv_isSome (t : ATy) (s : Str) :
    (match atomFromString false t s with | .ok _ => true | .error _ => false) = (specAtom t s).isSome := by
  rw [← atom_conv]
  cases atomFromString false t s <;> rfl

theorem occOk_eq (T : Table) (a : Occ) :
    (match T.find? (owns · a.flag) with | some o => occOk o a | none => false) = occWf T a := by
  unfold occWf
  have : (fun o : Opt => owns o a.flag) = fun o => (flagsOf o).contains a.flag := funext fun o => owns_eq o a.flag
  rw [this]
  cases T.find? (fun o => (flagsOf o).contains a.flag) with
  | none => rfl
  | some o =>
    simp only [occOk]
    cases hty : o.ty with
    | atom t =>
      cases t with
      | bool => rfl
      | str =>
        simp only []
        match a.args with
        | [s] => simp only []; rw [← atom_conv]; cases atomFromString false .str s <;> rfl
        | [] => rfl
        | _ :: _ :: _ => rfl
      | int =>
        simp only []
        match a.args with
        | [s] => simp only []; rw [← atom_conv]; cases atomFromString false .int s <;> rfl
        | [] => rfl
        | _ :: _ :: _ => rfl
      | flt =>
        simp only []
        match a.args with
        | [s] => simp only []; rw [← atom_conv]; cases atomFromString false .flt s <;> rfl
        | [] => rfl
        | _ :: _ :: _ => rfl
    | list => rfl
    | dict t l => cases l <;> rfl

theorem parseArgs_ok (T : Table) : ∀ (argv : List Occ), argv.all (occWf T) = true → parseArgs T argv = .ok () := by
  intro argv
  induction argv with
  | nil => intro _; rfl
  | cons a r ih =>
    intro h
    simp only [List.all_cons, Bool.and_eq_true] at h
    have ha := h.1
    rw [← occOk_eq] at ha
    simp only [parseArgs, List.foldlM_cons, bind, Except.bind]
    cases hf : T.find? (owns · a.flag) with
    | none => simp [hf] at ha
    | some o =>
      simp only [hf] at ha
      simp only [ha, if_true, pure, Except.pure]
      exact ih h.2

end PlasVerif.Proofs.ConfigDomain
