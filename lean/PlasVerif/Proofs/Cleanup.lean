import PlasVerif.Proofs.Escape
import PlasVerif.Spec.HtmlTags
/-! Helper lemmas for C12: the clean-up scanners act on whole tags and on white space between tags only. -/
namespace PlasVerif.Proofs.Cleanup
open PlasVerif.Generated.Escape PlasVerif.Model.Escape PlasVerif.Spec.HtmlTags

abbrev ns := nsTextAux isSpace
abbrev wt := wellTaggedAux

theorem Fills.refl : ∀ a, Fills a a
  | [] => .nil
  | c :: a => .keep c (Fills.refl a)

/-! ### skipping tags and white space -/

theorem ns_tag (a r : List Nat) (h : 62 ∉ a) : ns true (a ++ 62 :: r) = ns false r := by
  induction a with
  | nil => simp [ns, nsTextAux]
  | cons c cs ih =>
    have hc : c ≠ 62 := by intro e; subst e; simp at h
    have := ih (by intro e; exact h (by simp [e]))
    simp [ns, nsTextAux, hc] at this ⊢
    exact this

theorem ns_open (a r : List Nat) (h : 62 ∉ a) : ns false (60 :: (a ++ 62 :: r)) = ns false r := by
  have := ns_tag a r h
  simp [ns, nsTextAux] at this ⊢
  exact this

theorem wt_tag (a r : List Nat) (h62 : 62 ∉ a) (h60 : 60 ∉ a) : wt true (a ++ 62 :: r) = wt false r := by
  induction a with
  | nil => simp [wt, wellTaggedAux]
  | cons c cs ih =>
    have hc : c ≠ 62 := by intro e; subst e; simp at h62
    have hc' : c ≠ 60 := by intro e; subst e; simp at h60
    have := ih (by intro e; exact h62 (by simp [e])) (by intro e; exact h60 (by simp [e]))
    simp [wt, wellTaggedAux, hc, hc'] at this ⊢
    exact this

theorem wt_open (a r : List Nat) (h62 : 62 ∉ a) (h60 : 60 ∉ a) : wt false (60 :: (a ++ 62 :: r)) = wt false r := by
  have := wt_tag a r h62 h60
  simp [wt, wellTaggedAux] at this ⊢
  exact this

theorem wt_tag_inv (a r : List Nat) (h62 : 62 ∉ a) (h : wt true (a ++ 62 :: r) = true) :
    60 ∉ a ∧ wt false r = true := by
  induction a with
  | nil => simpa [wt, wellTaggedAux] using h
  | cons c cs ih =>
    have hc : c ≠ 62 := by intro e; subst e; simp at h62
    simp only [wt, List.cons_append, wellTaggedAux, hc, if_false] at h
    split at h
    · cases h
    · rename_i hc'
      have := ih (by intro e; exact h62 (by simp [e])) h
      exact ⟨by simp [hc', this.1]; exact fun e => hc' e.symm, this.2⟩

theorem isSpace_ne (c : Nat) (h : isSpace c = true) : c ≠ 60 ∧ c ≠ 62 := by
  constructor <;> (intro e; subst e; revert h; decide)

theorem ns_blank (ws r : List Nat) (h : ∀ c ∈ ws, isSpace c = true) : ns false (ws ++ r) = ns false r := by
  induction ws with
  | nil => rfl
  | cons c cs ih =>
    have hc := h c (by simp)
    have := ih (fun x hx => h x (by simp [hx]))
    simp [ns, nsTextAux, hc, (isSpace_ne c hc).1] at this ⊢
    exact this

theorem wt_blank (ws r : List Nat) (h : ∀ c ∈ ws, isSpace c = true) : wt false (ws ++ r) = wt false r := by
  induction ws with
  | nil => rfl
  | cons c cs ih =>
    have hc := h c (by simp)
    have := ih (fun x hx => h x (by simp [hx]))
    simp [wt, wellTaggedAux, (isSpace_ne c hc).1] at this ⊢
    exact this

/-! ### what the helper scanners return -/

theorem dropSpaces_spec (s : List Nat) : ∃ ws, s = ws ++ dropSpaces s ∧ ∀ c ∈ ws, isSpace c = true := by
  induction s with
  | nil => exact ⟨[], rfl, by simp⟩
  | cons c cs ih =>
    simp only [dropSpaces]
    split
    · rename_i hc
      obtain ⟨ws, h1, h2⟩ := ih
      refine ⟨c :: ws, by simp [← h1], ?_⟩
      intro x hx
      simp at hx
      rcases hx with rfl | hx
      · exact hc
      · exact h2 x hx
    · exact ⟨[], rfl, by simp⟩

theorem spanSpaces_spec (s : List Nat) :
    s = (spanSpaces s).1 ++ (spanSpaces s).2 ∧ ∀ c ∈ (spanSpaces s).1, isSpace c = true := by
  induction s with
  | nil => simp [spanSpaces]
  | cons c cs ih =>
    simp only [spanSpaces]
    split
    · rename_i hc
      refine ⟨by simp [← ih.1], ?_⟩
      intro x hx
      simp at hx
      rcases hx with rfl | hx
      · exact hc
      · exact ih.2 x hx
    · simp

theorem spanNotGt_spec (s : List Nat) :
    s = (spanNotGt s).1 ++ (spanNotGt s).2 ∧ 62 ∉ (spanNotGt s).1 ∧
    (∀ g r, (spanNotGt s).2 = g :: r → g = 62) := by
  induction s with
  | nil => simp [spanNotGt]
  | cons c cs ih =>
    simp only [spanNotGt]
    split
    · rename_i hc; subst hc; simp
    · rename_i hc
      refine ⟨by simp [← ih.1], ?_, ih.2.2⟩
      simp
      exact ⟨fun e => hc e.symm, ih.2.1⟩

theorem lookup_mem : ∀ (l : List (Nat × List Nat)) (p : Nat) (v : List Nat), l.lookup p = some v → (p, v) ∈ l
  | [], _, _, h => by simp [List.lookup] at h
  | (k, b) :: es, p, v, h => by
    simp only [List.lookup] at h
    split at h
    · rename_i hk
      cases h
      have : p = k := by simpa using hk
      subst this; simp
    · have := lookup_mem es p v h
      simp [this]

theorem ciClasses_safe : ∀ e ∈ ciClasses, 60 ∉ e.2 ∧ 62 ∉ e.2 := by decide

/-- a character matched by a pattern character other than `<` and `>` is itself neither -/
theorem ciMatch_safe (p c : Nat) (hp60 : p ≠ 60) (hp62 : p ≠ 62) (h : ciMatch p c = true) : c ≠ 60 ∧ c ≠ 62 := by
  unfold ciMatch at h
  split at h
  · rename_i cls hl
    have hm := ciClasses_safe _ (lookup_mem _ _ _ hl)
    have hc : c ∈ cls := by simpa using h
    constructor
    · intro e; subst e; exact hm.1 hc
    · intro e; subst e; exact hm.2 hc
  · have : p = c := by simpa using h
    subst this; exact ⟨hp60, hp62⟩

theorem ciMatch_exact (p c : Nat) (hl : ciClasses.lookup p = none) (h : ciMatch p c = true) : c = p := by
  unfold ciMatch at h
  rw [hl] at h
  have : p = c := by simpa using h
  exact this.symm

/-- pattern `p` matches text `m` character by character (case-insensitively) -/
inductive CiAll : List Nat → List Nat → Prop
  | nil : CiAll [] []
  | cons {a b : Nat} {p m : List Nat} : ciMatch a b = true → CiAll p m → CiAll (a :: p) (b :: m)

theorem ciPrefix?_spec : ∀ (p s m r : List Nat), ciPrefix? p s = some (m, r) → s = m ++ r ∧ CiAll p m
  | [], s, m, r, h => by
    simp [ciPrefix?] at h
    obtain ⟨rfl, rfl⟩ := h
    exact ⟨rfl, .nil⟩
  | _ :: _, [], m, r, h => by simp [ciPrefix?] at h
  | p :: ps, c :: cs, m, r, h => by
    simp only [ciPrefix?] at h
    split at h
    · rename_i hc
      split at h
      · rename_i m' r' h'
        cases h
        have := ciPrefix?_spec ps cs m' _ h'
        exact ⟨by simp [this.1], .cons hc this.2⟩
      · cases h
    · cases h

/-- characters matched by a pattern free of `<` `>` are free of them -/
theorem ciAll_safe (p m : List Nat) (hp : ∀ x ∈ p, x ≠ 60 ∧ x ≠ 62) (h : CiAll p m) : 60 ∉ m ∧ 62 ∉ m := by
  induction h with
  | nil => simp
  | @cons a b p' m' hab _ ih =>
    have ha := hp a (by simp)
    have hb := ciMatch_safe a b ha.1 ha.2 hab
    have := ih (fun x hx => hp x (by simp [hx]))
    simp
    exact ⟨⟨fun e => hb.1 e.symm, this.1⟩, ⟨fun e => hb.2 e.symm, this.2⟩⟩


/-! ### the generic scanner argument -/

/-- a matcher that only ever consumes whole tags (and white space between them), starting at a `<` -/
structure TagLocal (R : List Nat → List Nat → Prop) (m : List Nat → Option (List Nat × List Nat)) : Prop where
  head : ∀ c cs r, m (c :: cs) = some r → c = 60
  ok : ∀ s rep rest, m s = some (rep, rest) → wt false s = true →
    wt false rest = true ∧ (∀ Y, wt false Y = true → wt false (rep ++ Y) = true) ∧
    (∀ Y, R (ns false rest) (ns false Y) → R (ns false s) (ns false (rep ++ Y)))

theorem subWith_tagLocal (R : List Nat → List Nat → Prop) (m : List Nat → Option (List Nat × List Nat))
    (hR : ∀ a, R a a) (hK : ∀ c a b, R a b → R (c :: a) (c :: b)) (hm : TagLocal R m) :
    ∀ (fuel : Nat) (st : Bool) (s : List Nat), wt st s = true →
      R (ns st s) (ns st (subWith m fuel s)) ∧ wt st (subWith m fuel s) = true := by
  intro fuel
  induction fuel with
  | zero => intro st s h; simp only [subWith]; exact ⟨hR _, h⟩
  | succ f ih =>
    intro st s h
    cases s with
    | nil => simp only [subWith]; exact ⟨hR _, h⟩
    | cons c cs =>
      cases st with
      | true =>
        have hc60 : c ≠ 60 := by
          intro e; subst e
          simp [wt, wellTaggedAux] at h
        have hnone : m (c :: cs) = none := by
          cases hmm : m (c :: cs) with
          | none => rfl
          | some r => exact absurd (hm.head c cs r hmm) hc60
        simp only [subWith, hnone]
        by_cases hc : c = 62
        · subst hc
          have h' : wt false cs = true := by simpa [wt, wellTaggedAux] using h
          have := ih false cs h'
          simpa [ns, nsTextAux, wt, wellTaggedAux] using this
        · have h' : wt true cs = true := by simpa [wt, wellTaggedAux, hc, hc60] using h
          have := ih true cs h'
          simpa [ns, nsTextAux, wt, wellTaggedAux, hc, hc60] using this
      | false =>
        cases hmm : m (c :: cs) with
        | some p =>
          obtain ⟨rep, rest⟩ := p
          obtain ⟨w1, w2, w3⟩ := hm.ok _ _ _ hmm h
          have := ih false rest w1
          simp only [subWith, hmm]
          exact ⟨w3 _ this.1, w2 _ this.2⟩
        | none =>
          simp only [subWith, hmm]
          by_cases hc : c = 60
          · subst hc
            have h' : wt true cs = true := by simpa [wt, wellTaggedAux] using h
            have := ih true cs h'
            simpa [ns, nsTextAux, wt, wellTaggedAux] using this
          · have h' : wt false cs = true := by simpa [wt, wellTaggedAux, hc] using h
            have := ih false cs h'
            by_cases hs : isSpace c = true
            · simpa [ns, nsTextAux, wt, wellTaggedAux, hc, hs] using this
            · refine ⟨?_, by simpa [wt, wellTaggedAux, hc] using this.2⟩
              have e1 : ns false (c :: cs) = c :: ns false cs := by simp [ns, nsTextAux, hc, hs]
              have e2 : ns false (c :: subWith m f cs) = c :: ns false (subWith m f cs) := by
                simp [ns, nsTextAux, hc, hs]
              rw [e1, e2]
              exact hK c _ _ this.1


/-! ### the three matchers -/

theorem ciAll_append : ∀ (p q m : List Nat), CiAll (p ++ q) m → ∃ m1 m2, m = m1 ++ m2 ∧ CiAll p m1 ∧ CiAll q m2
  | [], q, m, h => ⟨[], m, rfl, .nil, h⟩
  | a :: p, q, m, h => by
    cases h with
    | cons hab h' =>
      obtain ⟨m1, m2, e, h1, h2⟩ := ciAll_append p q _ h'
      exact ⟨_ :: m1, m2, by simp [e], .cons hab h1, h2⟩

theorem lookup_lt : ciClasses.lookup 60 = none := by decide
theorem lookup_gt : ciClasses.lookup 62 = none := by decide

/-- text matched by `<` p `>` (p free of `<` `>`) is `<` a `>` with a free of them -/
theorem ciAll_tag (p m : List Nat) (hp : ∀ x ∈ p, x ≠ 60 ∧ x ≠ 62) (h : CiAll (60 :: (p ++ [62])) m) :
    ∃ a, m = 60 :: (a ++ [62]) ∧ 60 ∉ a ∧ 62 ∉ a := by
  cases h with
  | cons h60 h' =>
    obtain ⟨a, m2, e, h1, h2⟩ := ciAll_append p [62] _ h'
    cases h2 with
    | cons h62 h3 =>
      cases h3
      have e60 := ciMatch_exact 60 _ lookup_lt h60
      have e62 := ciMatch_exact 62 _ lookup_gt h62
      subst e60 e62
      exact ⟨a, by simp [e], ciAll_safe p a hp h1⟩

theorem para_local : TagLocal Eq matchEmptyPara where
  head := PlasVerif.Proofs.Escape.matchEmptyPara_lt
  ok := by
    intro s rep rest hm hw
    unfold matchEmptyPara at hm
    split at hm
    · cases hm
    · rename_i m1 r h1
      split at hm
      · cases hm
      · rename_i m2 r' h2
        cases hm
        obtain ⟨e1, c1⟩ := ciPrefix?_spec _ _ _ _ h1
        obtain ⟨e2, c2⟩ := ciPrefix?_spec _ _ _ _ h2
        obtain ⟨ws, e3, hws⟩ := dropSpaces_spec r
        obtain ⟨a, ea, ha60, ha62⟩ := ciAll_tag [112] m1 (by decide) c1
        obtain ⟨b, eb, hb60, hb62⟩ := ciAll_tag [47, 112] m2 (by decide) c2
        have e4 : r = ws ++ (m2 ++ rest) := by rw [← e2]; exact e3
        have es : s = 60 :: (a ++ 62 :: (ws ++ 60 :: (b ++ 62 :: rest))) := by
          rw [e1, ea, e4, eb]; simp
        have n1 : ns false s = ns false rest := by
          rw [es, ns_open _ _ ha62, ns_blank _ _ hws, ns_open _ _ hb62]
        have w1 : wt false s = wt false rest := by
          rw [es, wt_open _ _ ha62 ha60, wt_blank _ _ hws, wt_open _ _ hb62 hb60]
        refine ⟨by rw [← w1]; exact hw, fun Y hY => by simpa using hY, fun Y hY => ?_⟩
        rw [n1]; simpa using hY


theorem cell_local : TagLocal Fills matchEmptyCell where
  head := PlasVerif.Proofs.Escape.matchEmptyCell_lt
  ok := by
    intro s rep rest hm hw
    unfold matchEmptyCell at hm
    split at hm
    · cases hm
    · rename_i m1 r h1
      split at hm
      · cases hm
      · rename_i x r1
        split at hm
        · cases hm
        · rename_i hx
          split at hm
          · cases hm
          · rename_i y r1'
            split at hm
            · cases hm
            · split at hm
              rename_i attrs r2 hsp
              split at hm
              · cases hm
              · rename_i g r3
                split at hm
                rename_i ws r4 hss
                split at hm
                · cases hm
                · rename_i m2 r5 h2
                  split at hm
                  · rename_i z r6
                    split at hm
                    · rename_i hcond
                      cases hm
                      obtain ⟨e1, c1⟩ := ciPrefix?_spec _ _ _ _ h1
                      obtain ⟨e2, c2⟩ := ciPrefix?_spec _ _ _ _ h2
                      have sp := spanNotGt_spec (y :: r1')
                      rw [hsp] at sp
                      obtain ⟨e3, hattrs, hg⟩ := sp
                      have hg' : g = 62 := hg g r3 rfl
                      subst hg'
                      have ss := spanSpaces_spec r3
                      rw [hss] at ss
                      obtain ⟨e4, hws⟩ := ss
                      simp only at e3 e4 hattrs hws
                      -- the opening `<t`
                      cases c1 with
                      | cons h60 c1a =>
                        cases c1a with
                        | cons h116 c1b =>
                          cases c1b
                          rename_i c60 t
                          have e60 := ciMatch_exact 60 _ lookup_lt h60
                          subst e60
                          have ht := ciMatch_safe 116 t (by decide) (by decide) h116
                          have hxs : x ≠ 60 ∧ x ≠ 62 := by
                            have : ciMatch 100 x = true ∨ ciMatch 104 x = true := by
                              cases h100 : ciMatch 100 x
                              · right; simpa [h100] using hx
                              · left; rfl
                            rcases this with h | h
                            · exact ciMatch_safe 100 x (by decide) (by decide) h
                            · exact ciMatch_safe 104 x (by decide) (by decide) h
                          -- the closing `</t`
                          cases c2 with
                          | cons k60 c2a =>
                            cases c2a with
                            | cons k47 c2b =>
                              cases c2b with
                              | cons k116 c2c =>
                                cases c2c
                                rename_i d60 d47 t2
                                have f60 := ciMatch_exact 60 _ lookup_lt k60
                                subst f60
                                have h47 := ciMatch_safe 47 d47 (by decide) (by decide) k47
                                have ht2 := ciMatch_safe 116 t2 (by decide) (by decide) k116
                                have hz : z ≠ 60 ∧ z ≠ 62 := by
                                  have : (ciMatch 100 x = true ∧ ciMatch 100 z = true) ∨
                                      (ciMatch 104 x = true ∧ ciMatch 104 z = true) ∨ x = z := by
                                    simpa [or_assoc] using hcond
                                  rcases this with h | h | h
                                  · exact ciMatch_safe 100 z (by decide) (by decide) h.2
                                  · exact ciMatch_safe 104 z (by decide) (by decide) h.2
                                  · subst h; exact hxs
                                have hA62 : 62 ∉ t :: x :: attrs := by
                                  simp; exact ⟨fun e => ht.2 e.symm, fun e => hxs.2 e.symm, hattrs⟩
                                have hB62 : 62 ∉ [d47, t2, z] := by
                                  simp; exact ⟨fun e => h47.2 e.symm, fun e => ht2.2 e.symm, fun e => hz.2 e.symm⟩
                                have hB60 : 60 ∉ [d47, t2, z] := by
                                  simp; exact ⟨fun e => h47.1 e.symm, fun e => ht2.1 e.symm, fun e => hz.1 e.symm⟩
                                have es : s = 60 :: ((t :: x :: attrs) ++ 62 :: (ws ++ 60 :: ([d47, t2, z] ++ 62 :: rest))) := by
                                  rw [e1, e3, e4, e2]; simp
                                have hw' := hw
                                rw [es] at hw'
                                have hw2 : wt true ((t :: x :: attrs) ++ 62 :: (ws ++ 60 :: ([d47, t2, z] ++ 62 :: rest))) = true := by
                                  simpa [wt, wellTaggedAux] using hw'
                                obtain ⟨hA60, hw3⟩ := wt_tag_inv _ _ hA62 hw2
                                rw [wt_blank _ _ hws, wt_open _ _ hB62 hB60] at hw3
                                have n1 : ns false s = ns false rest := by
                                  rw [es, ns_open _ _ hA62, ns_blank _ _ hws, ns_open _ _ hB62]
                                have er : ∀ Y, [60, t] ++ [x] ++ attrs ++ [62] ++ [38, 110, 98, 115, 112, 59] ++ [60, d47, t2] ++ [z, 62] ++ Y
                                    = 60 :: ((t :: x :: attrs) ++ 62 :: (38 :: 110 :: 98 :: 115 :: 112 :: 59 :: 60 :: ([d47, t2, z] ++ 62 :: Y))) := by
                                  intro Y; simp
                                refine ⟨hw3, fun Y hY => ?_, fun Y hY => ?_⟩
                                · rw [er, wt_open _ _ hA62 hA60]
                                  have := wt_open [d47, t2, z] Y hB62 hB60
                                  simpa [wt, wellTaggedAux] using this.trans hY
                                · rw [er, ns_open _ _ hA62, n1]
                                  have h38 : isSpace 38 = false := by decide
                                  have h110 : isSpace 110 = false := by decide
                                  have h98 : isSpace 98 = false := by decide
                                  have h115 : isSpace 115 = false := by decide
                                  have h112 : isSpace 112 = false := by decide
                                  have h59 : isSpace 59 = false := by decide
                                  have e5 : ns false (38 :: 110 :: 98 :: 115 :: 112 :: 59 :: 60 :: ([d47, t2, z] ++ 62 :: Y))
                                      = 38 :: 110 :: 98 :: 115 :: 112 :: 59 :: ns false Y := by
                                    have := ns_open [d47, t2, z] Y hB62
                                    simp [ns, nsTextAux, h38, h110, h98, h115, h112, h59] at this ⊢
                                    exact this
                                  rw [e5]
                                  exact .fill hY
                    · cases hm
                  · cases hm


theorem dropSpaces_subset (l : List Nat) : ∀ c ∈ dropSpaces l, c ∈ l := by
  intro c hc
  obtain ⟨ws, e, _⟩ := dropSpaces_spec l
  rw [e]; simp [hc]

theorem dropTrailingSpaces_subset (l : List Nat) : ∀ c ∈ dropTrailingSpaces l, c ∈ l := by
  intro c hc
  simp only [dropTrailingSpaces, List.mem_reverse] at hc
  simpa using dropSpaces_subset _ c hc

theorem stripSlashTail_subset (b : List Nat) : ∀ c ∈ stripSlashTail b, c ∈ b := by
  intro c hc
  unfold stripSlashTail at hc
  simp only at hc
  split at hc
  · rename_i r hr
    have h1 := dropTrailingSpaces_subset _ c hc
    have h2 : c ∈ (dropTrailingSpaces b).reverse := by rw [hr]; simp at h1; simp [h1]
    exact dropTrailingSpaces_subset _ c (by simpa using h2)
  · exact dropTrailingSpaces_subset _ c hc

theorem voidNames_safe : ∀ n ∈ voidNames, ∀ x ∈ n, x ≠ 60 ∧ x ≠ 62 := by decide

theorem matchName_spec : ∀ (names : List (List Nat)) (r m r1 : List Nat),
    (∀ n ∈ names, ∀ x ∈ n, x ≠ 60 ∧ x ≠ 62) → matchName names r = some (m, r1) →
    r = m ++ r1 ∧ 60 ∉ m ∧ 62 ∉ m
  | [], r, m, r1, _, h => by simp [matchName] at h
  | n :: more, r, m, r1, hs, h => by
    have ih := matchName_spec more r m r1 (fun k hk => hs k (by simp [hk]))
    unfold matchName at h
    split at h
    · rename_i m' r' hp
      obtain ⟨e, c⟩ := ciPrefix?_spec _ _ _ _ hp
      have safe := ciAll_safe n m' (hs n (by simp)) c
      split at h
      · cases h; exact ⟨e, safe⟩
      · split at h
        · exact ih h
        · cases h; exact ⟨e, safe⟩
    · exact ih h

theorem void_local : TagLocal Eq matchVoidTag where
  head := PlasVerif.Proofs.Escape.matchVoidTag_lt
  ok := by
    intro s rep rest hm hw
    unfold matchVoidTag at hm
    split at hm
    · rename_i r
      split at hm
      · cases hm
      · rename_i m r1 hn
        split at hm
        rename_i body r2 hsp
        split at hm
        · cases hm
        · rename_i g r3
          cases hm
          obtain ⟨e1, hm60, hm62⟩ := matchName_spec _ _ _ _ voidNames_safe hn
          have sp := spanNotGt_spec r1
          rw [hsp] at sp
          obtain ⟨e3, hbody, hg⟩ := sp
          have hg' : g = 62 := hg g rest rfl
          subst hg'
          simp only at e3 hbody
          have hA62 : 62 ∉ m ++ body := by simp [hm62, hbody]
          have es : 60 :: r = 60 :: ((m ++ body) ++ 62 :: rest) := by rw [e1, e3]; simp
          have hw' := hw
          rw [es] at hw'
          have hw2 : wt true ((m ++ body) ++ 62 :: rest) = true := by simpa [wt, wellTaggedAux] using hw'
          obtain ⟨hA60, hw3⟩ := wt_tag_inv _ _ hA62 hw2
          have hb60 : 60 ∉ body := by intro h; exact hA60 (by simp [h])
          have hS62 : 62 ∉ m ++ stripSlashTail body ++ [32, 47] := by
            simp only [List.mem_append, not_or]
            exact ⟨⟨hm62, fun h => hbody (stripSlashTail_subset _ _ h)⟩, by simp⟩
          have hS60 : 60 ∉ m ++ stripSlashTail body ++ [32, 47] := by
            simp only [List.mem_append, not_or]
            exact ⟨⟨hm60, fun h => hb60 (stripSlashTail_subset _ _ h)⟩, by simp⟩
          have er : ∀ Y, 60 :: m ++ stripSlashTail body ++ [32, 47, 62] ++ Y
              = 60 :: ((m ++ stripSlashTail body ++ [32, 47]) ++ 62 :: Y) := by intro Y; simp
          have n1 : ns false (60 :: r) = ns false rest := by rw [es, ns_open _ _ hA62]
          refine ⟨hw3, fun Y hY => ?_, fun Y hY => ?_⟩
          · rw [er, wt_open _ _ hS62 hS60]; exact hY
          · rw [er, ns_open _ _ hS62, n1]; exact hY
    · cases hm

end PlasVerif.Proofs.Cleanup
