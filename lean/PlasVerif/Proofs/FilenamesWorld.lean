import PlasVerif.Proofs.Filenames
/-!
C15: several `Filenames` objects in one process.  Every object answers from its own state: in any
interleaving of constructions, bindings and calls, the results of object `j` are those of object `j`
run alone on its own bindings and calls.
-/
namespace PlasVerif.Model.Filenames
/-- the steps of a schedule that concern object `j`: `some b` = bind, `none` = call -/
def proj (j : Nat) : List WOp → List (Option Env)
  | [] => []
  | .new _ :: r => proj j r
  | .bind i b :: r => if i = j then some b :: proj j r else proj j r
  | .call i :: r => if i = j then none :: proj j r else proj j r

/-- the results reported for object `j` -/
def resultsOf (j : Nat) : List (Nat × Result) → List Result
  | [] => []
  | (i, r) :: rs => if i = j then r :: resultsOf j rs else resultsOf j rs
end PlasVerif.Model.Filenames

namespace PlasVerif.Proofs.Filenames
open PlasVerif.Model.Filenames PlasVerif.Generated.Filenames

theorem getElem?_modifyAt {α : Type} (f : α → α) (w : List α) (i j : Nat) :
    (modifyAt f i w)[j]? = if i = j then w[j]?.map f else w[j]? := by
  induction w generalizing i j with
  | nil => cases i <;> simp [modifyAt]
  | cons x xs ih =>
    cases i with
    | zero =>
      cases j with
      | zero => simp [modifyAt]
      | succ j => simp [modifyAt]
    | succ i =>
      cases j with
      | zero => simp [modifyAt]
      | succ j => simp [modifyAt, ih]

theorem getElem?_append_some {α : Type} (w v : List α) (j : Nat) (g : α) (h : w[j]? = some g) :
    (w ++ v)[j]? = some g := by
  induction w generalizing j with
  | nil => simp at h
  | cons x xs ih =>
    cases j with
    | zero => simpa using h
    | succ j => simpa using ih j (by simpa using h)

/-- objects do not interfere -/
theorem world_independent (j : Nat) (ops : List WOp) : ∀ (w : List Gen) (g : Gen), w[j]? = some g →
    resultsOf j (runW w ops) = runG g (proj j ops) := by
  induction ops with
  | nil => intro w g _; simp [runW, proj, runG, resultsOf]
  | cons op ops ih =>
    intro w g hg
    cases op with
    | new g' =>
      simp only [runW, stepW, proj]
      exact ih _ g (getElem?_append_some w [g'] j g hg)
    | bind i b =>
      simp only [runW, stepW, proj]
      by_cases hij : i = j
      · subst hij
        simp only [if_true, runG]
        exact ih _ (g.bind b) (by rw [getElem?_modifyAt]; simp [hg])
      · simp only [hij, if_false]
        exact ih _ g (by rw [getElem?_modifyAt]; simp [hij, hg])
    | call i =>
      simp only [runW, stepW, proj]
      by_cases hij : i = j
      · subst hij
        simp only [hg, if_true, runG, resultsOf]
        congr 1
        exact ih _ g.call.1 (by rw [getElem?_modifyAt]; simp [hg])
      · simp only [hij, if_false]
        cases hw : w[i]? with
        | none => simp only; exact ih _ g hg
        | some g' =>
          simp only [resultsOf, hij, if_false]
          exact ih _ g (by rw [getElem?_modifyAt]; simp [hij, hg])

/-- binding and then calling is one request with these bindings -/
theorem bind_call_request (cfg : Config) (st : State) (b : Env) :
    request cfg { st with vars := envUpdate st.vars b } [] = request cfg st b := by
  unfold request wildcardPhase
  simp only [envUpdate, List.foldl_nil]


/-- one object alone, driven "bind the request's variables, call": the request histories of the other theorems -/
theorem runG_requests (bs : List Env) : ∀ (g : Gen),
    runG g (bs.flatMap (fun b => [some b, none])) = results g.cfg g.st bs := by
  induction bs with
  | nil => intro g; simp [runG, results, run]
  | cons b bs ih =>
    intro g
    have h := bind_call_request g.cfg g.st b
    simp only [List.flatMap_cons, List.cons_append, List.nil_append, runG, results_cons]
    simp only [Gen.call, Gen.bind, h]
    congr 1
    exact ih _

end PlasVerif.Proofs.Filenames
