import PlasVerif.Model.Holders
/-! Frame lemmas for the holder model: a write outside what `B` reaches changes nothing `B` can reach. -/
namespace PlasVerif.Proofs.Holders
open PlasVerif.Model.Holders

theorem reach_write_of_reach {h : Heap} {R : List Nat} {c : Nat} {new : List Nat} (hc : ¬ Reach h R c) {o : Nat}
    (ho : Reach h R o) : Reach (write h c new) R o := by
  induction ho with
  | root hr => exact .root hr
  | step ha hb ih =>
    rename_i a b
    refine .step ih ?_
    have : a ≠ c := fun e => hc (e ▸ ha)
    simpa [write, this] using hb

theorem reach_of_reach_write {h : Heap} {R : List Nat} {c : Nat} {new : List Nat} (hc : ¬ Reach h R c) {o : Nat}
    (ho : Reach (write h c new) R o) : Reach h R o := by
  induction ho with
  | root hr => exact .root hr
  | step ha hb ih =>
    rename_i a b
    have : a ≠ c := fun e => hc (e ▸ ih)
    refine .step ih ?_
    simpa [write, this] using hb

/-- one write at an object `B` cannot reach: `B` reaches the same objects and each of them holds the same references -/
theorem write_frame {h : Heap} {R : List Nat} {c : Nat} {new : List Nat} (hc : ¬ Reach h R c) :
    (∀ o, Reach (write h c new) R o ↔ Reach h R o) ∧ (∀ o, Reach h R o → write h c new o = h o) := by
  refine ⟨fun o => ⟨reach_of_reach_write hc, reach_write_of_reach hc⟩, fun o ho => ?_⟩
  have : o ≠ c := fun e => hc (e ▸ ho)
  simp [write, this]

/-- disjointness of the two documents' holders is preserved by a write of document `A` -/
theorem disjoint_write {h : Heap} {RA RB : List Nat} {c : Nat} {new : List Nat}
    (hd : ∀ o, Reach h RA o → ¬ Reach h RB o) (hc : Reach h RA c) (hn : ∀ x ∈ new, Storable h RA RB x) :
    ∀ o, Reach (write h c new) RA o → ¬ Reach (write h c new) RB o := by
  have hcB : ¬ Reach h RB c := hd c hc
  -- every object `A` reaches after the write was reachable by `A` before, or is a fresh object
  have key : ∀ o, Reach (write h c new) RA o → Storable h RA RB o := by
    intro o ho
    induction ho with
    | root hr => exact .inl (.root hr)
    | step ha hb ih =>
      rename_i a b
      by_cases e : a = c
      · subst e
        exact hn b (by simpa [write] using hb)
      · have hb' : b ∈ h a := by simpa [write, e] using hb
        rcases ih with ih | ih
        · exact .inl (.step ih hb')
        · rw [ih.1] at hb'; simp at hb'
  intro o hoA hoB
  have hoB' : Reach h RB o := reach_of_reach_write hcB hoB
  rcases key o hoA with k | k
  · exact hd o k hoB'
  · exact k.2 hoB'

/-- **Documents whose holders share no mutable object cannot influence each other**: whatever sequence of
    mutations document `A` performs on what it can reach, document `B` reaches exactly the same objects afterwards
    and each of them holds exactly the same references; and the two stay disjoint. -/
theorem steps_frame {RA RB : List Nat} {h h' : Heap} (hs : Steps RA RB h h')
    (hd : ∀ o, Reach h RA o → ¬ Reach h RB o) :
    (∀ o, Reach h' RB o ↔ Reach h RB o) ∧ (∀ o, Reach h RB o → h' o = h o) ∧
    (∀ o, Reach h' RA o → ¬ Reach h' RB o) := by
  induction hs with
  | done h => exact ⟨fun _ => Iff.rfl, fun _ _ => rfl, hd⟩
  | write c new hc hn _ ih =>
    have hcB := hd c hc
    obtain ⟨f1, f2⟩ := write_frame (new := new) hcB
    obtain ⟨i1, i2, i3⟩ := ih (disjoint_write hd hc hn)
    exact ⟨fun o => (i1 o).trans (f1 o), fun o ho => (i2 o ((f1 o).mpr ho)).trans (f2 o ho), i3⟩

/-- **What is not written is not changed**: after any sequence of mutations that avoid the objects reachable from `R`
    (for `R` = the classes and module globals: a document that writes only into its own objects), exactly the same
    objects are reachable from `R` and each holds exactly the same references. -/
theorem avoid_frame {R : List Nat} {h h' : Heap} (hs : WritesAvoid R h h') :
    (∀ o, Reach h' R o ↔ Reach h R o) ∧ (∀ o, Reach h R o → h' o = h o) := by
  induction hs with
  | done h => exact ⟨fun _ => Iff.rfl, fun _ _ => rfl⟩
  | write c new hc _ ih =>
    obtain ⟨f1, f2⟩ := write_frame (new := new) hc
    obtain ⟨i1, i2⟩ := ih
    exact ⟨fun o => (i1 o).trans (f1 o), fun o ho => (i2 o ((f1 o).mpr ho)).trans (f2 o ho)⟩

end PlasVerif.Proofs.Holders
