import PlasVerif.Spec.Config
/-! The word-level reading of the command line (`splitArgv`, the model of `parser.parse_args` in `client.main`) recovers
exactly the pieces the user wrote, in order. -/
namespace PlasVerif.Proofs.ConfigMain
open PlasVerif.Model.Config PlasVerif.Spec.Config

theorem takeWhile_plain_args : ∀ (args rw : List Str), args.all (fun w => !optLike w) = true →
    (args ++ rw).takeWhile (fun w => !optLike w) = args ++ rw.takeWhile (fun w => !optLike w) ∧
    (args ++ rw).dropWhile (fun w => !optLike w) = rw.dropWhile (fun w => !optLike w) := by
  intro args
  induction args with
  | nil => intro rw _; exact ⟨rfl, rfl⟩
  | cons a r ih =>
    intro rw h
    simp only [List.all_cons, Bool.and_eq_true] at h
    obtain ⟨h1, h2⟩ := ih rw h.2
    simp [List.takeWhile_cons, List.dropWhile_cons, h.1, h1, h2]

/-- the words of the rest begin with an option string (or there are none) -/
theorem rest_starts (T : Table) : ∀ (rest : List Piece), piecesOk T rest = true → startsOpt rest = true →
    (renderPieces rest).takeWhile (fun w => !optLike w) = [] ∧
    (renderPieces rest).dropWhile (fun w => !optLike w) = renderPieces rest := by
  intro rest hok hs
  cases rest with
  | nil => exact ⟨rfl, rfl⟩
  | cons p r =>
    cases p with
    | pos w => simp [startsOpt] at hs
    | cfg l n =>
      have : optLike (if l then sConfig else sDashC) = true := by cases l <;> decide
      simp [renderPieces, Piece.words, List.takeWhile_cons, List.dropWhile_cons, this]
    | occ a =>
      simp only [piecesOk, pieceOk, Bool.and_eq_true] at hok
      have := hok.1.1.1.1
      simp [renderPieces, Piece.words, List.takeWhile_cons, List.dropWhile_cons, this]

theorem takeArgs_ok (T : Table) (n : NArgs) (args : List Str) (rest : List Piece)
    (hargs : args.all (fun w => !optLike w) = true) (hrest : piecesOk T rest = true)
    (harity : match n with
      | .zero => args.isEmpty = true
      | .one => (args.length == 1) = true
      | .two => (args.length == 2) = true
      | .star => startsOpt rest = true
      | .plus => (!args.isEmpty && startsOpt rest) = true) :
    takeArgs n (args ++ renderPieces rest) = .ok (args, renderPieces rest) := by
  obtain ⟨h1, h2⟩ := takeWhile_plain_args args (renderPieces rest) hargs
  have hsplit := List.takeWhile_append_dropWhile (p := fun w => !optLike w) (l := renderPieces rest)
  unfold takeArgs
  cases n with
  | zero =>
    simp only [List.isEmpty_iff] at harity
    subst harity; rfl
  | one =>
    match args, harity with
    | [a], _ =>
      simp only [List.cons_append, List.nil_append] at h1 h2 ⊢
      simp only [h1, h2, pure, Except.pure]
      rw [hsplit]
  | two =>
    match args, harity with
    | [a, b], _ =>
      simp only [List.cons_append, List.nil_append] at h1 h2 ⊢
      simp only [h1, h2, pure, Except.pure]
      rw [hsplit]
  | star =>
    obtain ⟨r1, r2⟩ := rest_starts T rest hrest harity
    simp only [h1, h2, r1, r2, List.append_nil, pure, Except.pure]
  | plus =>
    simp only [Bool.and_eq_true, Bool.not_eq_true', List.isEmpty_eq_false_iff] at harity
    obtain ⟨r1, r2⟩ := rest_starts T rest hrest harity.2
    have hne : args.isEmpty = false := by simp [harity.1]
    simp only [h1, h2, r1, r2, List.append_nil, hne, Bool.false_eq_true, if_false, pure, Except.pure]

/-- **`parse_args` recovers the pieces**, whatever their arrangement -/
theorem splitArgv_pieces (T : Table) : ∀ (ps : List Piece) (f : Nat) (p : Parsed),
    (renderPieces ps).length < f → piecesOk T ps = true →
    splitArgv T f (renderPieces ps) p =
      .ok { configs := p.configs.reverse ++ cfgNames ps, positionals := p.positionals.reverse ++ posWords ps,
            occs := p.occs.reverse ++ occsOfPieces ps } := by
  intro ps
  induction ps with
  | nil =>
    intro f p hf _
    cases f with
    | zero => simp at hf
    | succ f => simp [renderPieces, splitArgv, cfgNames, posWords, occsOfPieces, pure, Except.pure]
  | cons pc r ih =>
    intro f p hf hok
    simp only [piecesOk, Bool.and_eq_true] at hok
    cases f with
    | zero => simp at hf
    | succ f =>
      have hlen : renderPieces (pc :: r) = pc.words ++ renderPieces r := by simp [renderPieces]
      rw [hlen] at hf ⊢
      cases pc with
      | pos w =>
        have hw : optLike w = false := by simpa [pieceOk] using hok.1
        simp only [Piece.words, List.cons_append, List.nil_append, splitArgv, hw, Bool.false_eq_true, if_false]
        rw [ih f _ (by simp [Piece.words] at hf; omega) hok.2]
        simp [posWords, cfgNames, occsOfPieces]
      | cfg l n =>
        have hn : (!optLike n) = true := by simpa [pieceOk] using hok.1
        have hopt : optLike (if l then sConfig else sDashC) = true := by cases l <;> decide
        have hc : ((if l then sConfig else sDashC) = sDashC ∨ (if l then sConfig else sDashC) = sConfig) := by
          cases l <;> simp
        have hta := takeArgs_ok T .one [n] r (by simp [hn]) hok.2 (by rfl)
        simp only [Piece.words, List.cons_append, List.nil_append, splitArgv, hopt, if_true, hc]
        simp only [List.cons_append, List.nil_append] at hta
        simp only [hta, bind, Except.bind]
        rw [ih f _ (by simp [Piece.words] at hf; omega) hok.2]
        simp [posWords, cfgNames, occsOfPieces]
      | occ a =>
        simp only [pieceOk, Bool.and_eq_true, Bool.not_eq_true', Bool.or_eq_false_iff, decide_eq_false_iff_not] at hok
        obtain ⟨⟨⟨⟨hopt, hnc⟩, hargs⟩, hown⟩, hrest⟩ := hok
        cases hfind : T.find? (owns · a.flag) with
        | none => simp [hfind] at hown
        | some o =>
          simp only [hfind] at hown
          have hta := takeArgs_ok T (nargsOf o) a.args r hargs hrest (by
            cases hn : nargsOf o <;> simp only [hn] at hown ⊢ <;> exact hown)
          have hnc' : ¬(a.flag = sDashC ∨ a.flag = sConfig) := by
            intro h; rcases h with h | h
            · exact hnc.1 h
            · exact hnc.2 h
          simp only [Piece.words, List.cons_append, splitArgv, hopt, if_true, hnc', if_false, hfind, hta, bind, Except.bind]
          rw [ih f _ (by simp [Piece.words] at hf; omega) hrest]
          simp [posWords, cfgNames, occsOfPieces]

end PlasVerif.Proofs.ConfigMain
