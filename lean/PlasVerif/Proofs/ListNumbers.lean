import PlasVerif.Spec.ListNumbers
/-! Helper lemmas for C10 (list numbering): the invocation sequence of a forest of nested lists
    gives every item its number, and restores depth and counters. -/
namespace PlasVerif.Proofs.ListNumbers
open PlasVerif.Model.ListNumbering PlasVerif.Spec.ListNumbers

/-- between lists at nesting level `d`: depth `d`, counters from `d` on are 0, those below are `base` -/
structure At (d : Nat) (base : Nat → Nat) (s : St) : Prop where
  depth : s.depth = d
  zero : ∀ i, d ≤ i → s.c i = 0
  below : ∀ i, i < d → s.c i = base i

/-- inside a list at level `d` (1-based) whose counter shows `v` -/
structure Inside (d v : Nat) (base : Nat → Nat) (s : St) : Prop where
  depth : s.depth = d
  cur : s.c (d - 1) = v
  zero : ∀ i, d ≤ i → s.c i = 0
  below : ∀ i, i < d - 1 → s.c i = base i

/-- every list counter is reset (if at all) by an earlier one: checked on the regenerated table -/
def downward (tbl : List (Option Nat)) : Bool :=
  (List.range tbl.length).all fun i => match tbl[i]? with
    | some (some p) => decide (p < i)
    | _ => true

def Downward (tbl : List (Option Nat)) : Prop := downward tbl = true

theorem downward_spec (tbl : List (Option Nat)) (h : Downward tbl) (i p : Nat) (hp : tbl[i]? = some (some p)) : p < i := by
  have hi : i < tbl.length := by
    rcases Nat.lt_or_ge i tbl.length with hlt | hge
    · exact hlt
    · have : tbl[i]? = none := List.getElem?_eq_none hge
      rw [this] at hp; cases hp
  have := (List.all_eq_true.mp h) i (List.mem_range.mpr hi)
  rw [hp] at this
  simpa using this

theorem reaches_lt (tbl : List (Option Nat)) (hd : Downward tbl) : ∀ f k i, reaches tbl f k i = true → k < i := by
  intro f
  induction f with
  | zero => intro k i h; simp [reaches] at h
  | succ f ih =>
    intro k i h
    rw [reaches] at h
    cases hq : tbl[i]? with
    | none => rw [hq] at h; simp at h
    | some o =>
      cases o with
      | none => rw [hq] at h; simp at h
      | some p =>
        rw [hq] at h
        have hp := downward_spec tbl hd i p hq
        simp only [Bool.or_eq_true, beq_iff_eq] at h
        rcases h with rfl | h
        · exact hp
        · exact Nat.lt_trans (ih k p h) hp

theorem pyIndex_nat (k : Nat) (h : k < 4) : pyIndex (k : Int) = some k := by
  unfold pyIndex
  have h1 : (0 : Int) ≤ (k : Int) ∧ (k : Int) < 4 := ⟨by omega, by omega⟩
  simp [h1]

/-- what a run does after a prefix: observations of the prefix, then the rest from `s1` -/
def Then (pre : List Ev) (s : St) (obs : List ItemObs) (s1 : St) : Prop :=
  ∀ es', run (pre ++ es') s = (obs ++ (run es' s1).1, (run es' s1).2)

theorem then_nil (s : St) : Then [] s [] s := by intro es'; simp

theorem then_append {p1 p2 : List Ev} {s s1 s2 : St} {o1 o2 : List ItemObs}
    (h1 : Then p1 s o1 s1) (h2 : Then p2 s1 o2 s2) : Then (p1 ++ p2) s (o1 ++ o2) s2 := by
  intro es'
  rw [List.append_assoc, h1, h2]
  simp

theorem then_begin (s : St) : Then [.begin_] s [] (listInvoke true s) := by intro es'; simp [run]
theorem then_end (s : St) : Then [.end_] s [] (listInvoke false s) := by intro es'; simp [run]
theorem then_item (t : Bool) (s : St) : Then [.item t] s [(itemInvoke t s).1] (itemInvoke t s).2 := by
  intro es'; simp [run]

theorem begin_inside (d : Nat) (base : Nat → Nat) (s : St) (h : At d base s) :
    Inside (d + 1) 0 base (listInvoke true s) := by
  have hd : s.depth + 1 = ((d + 1 : Nat) : Int) := by rw [h.depth]; omega
  refine ⟨by simp [listInvoke, hd], ?_, ?_, ?_⟩
  · simp only [listInvoke, if_true, hd, resetLoop]
    have : ¬ (((d + 1 : Nat) : Int) < -4) := by omega
    have h0 : ¬ (((d + 1 : Nat) : Int) < 0) := by omega
    simp only [this, h0, if_false, zeroFrom, Int.toNat_natCast]
    simp [h.zero d (Nat.le_refl _)]
  · intro i hi
    simp only [listInvoke, if_true, hd, resetLoop]
    have : ¬ (((d + 1 : Nat) : Int) < -4) := by omega
    have h0 : ¬ (((d + 1 : Nat) : Int) < 0) := by omega
    simp only [this, h0, if_false, zeroFrom, Int.toNat_natCast, hi, if_true]
  · intro i hi
    simp only [listInvoke, if_true, hd, resetLoop]
    have : ¬ (((d + 1 : Nat) : Int) < -4) := by omega
    have h0 : ¬ (((d + 1 : Nat) : Int) < 0) := by omega
    simp only [this, h0, if_false, zeroFrom, Int.toNat_natCast]
    have : ¬ (d + 1 ≤ i) := by omega
    simp only [this, if_false]
    exact h.below i (by omega)

theorem end_at (d v : Nat) (base : Nat → Nat) (s : St) (h : Inside (d + 1) v base s) :
    At d base (listInvoke false s) := by
  have hd : s.depth - 1 = ((d : Nat) : Int) := by rw [h.depth]; omega
  have h4 : ¬ (((d : Nat) : Int) < -4) := by omega
  have h0 : ¬ (((d : Nat) : Int) < 0) := by omega
  refine ⟨by simp [listInvoke, hd], ?_, ?_⟩
  · intro i hi
    simp [listInvoke, hd, resetLoop, h4, h0, zeroFrom, hi]
  · intro i hi
    have : ¬ (d ≤ i) := by omega
    simp only [listInvoke, hd, resetLoop, h4, h0, zeroFrom, Int.toNat_natCast, this, if_false, Bool.false_eq_true]
    exact h.below i (by simpa using hi)

theorem item_inside (hdown : Downward PlasVerif.Generated.ListCounters.resetBy)
    (d v : Nat) (base : Nat → Nat) (s : St) (t : Bool) (hd1 : 1 ≤ d) (hd4 : d ≤ 4)
    (h : Inside d v base s) :
    (itemInvoke t s).1 = ⟨if t then 4 else d - 1, v + 1⟩ ∧
    Inside d (if t then v else v + 1) base (itemInvoke t s).2 := by
  have hi : pyIndex (s.depth - 1) = some (d - 1) := by
    have : s.depth - 1 = ((d - 1 : Nat) : Int) := by rw [h.depth]; omega
    rw [this]; exact pyIndex_nat (d - 1) (by omega)
  cases t with
  | true => simp [itemInvoke, hi, h.cur]; exact ⟨h.depth, h.cur, h.zero, h.below⟩
  | false =>
    simp only [itemInvoke, hi, h.cur, Bool.false_eq_true, if_false]
    refine ⟨trivial, ⟨h.depth, by simp [step, h.cur], ?_, ?_⟩⟩
    · intro i hi'
      have h1 : ¬ (i = d - 1) := by omega
      simp only [step, h1, if_false]
      split
      · rfl
      · exact h.zero i hi'
    · intro i hi'
      have h1 : ¬ (i = d - 1) := by omega
      have h2 : resetsTo (d - 1) i = false := by
        cases hr : resetsTo (d - 1) i with
        | false => rfl
        | true => have := reaches_lt _ hdown _ _ _ hr; omega
      simp only [step, h1, h2, if_false, Bool.false_eq_true]
      exact h.below i hi'

/-- an `Inside` state is an `At` state of the same level, the running counter being part of the base -/
theorem inside_at (d v : Nat) (base : Nat → Nat) (s : St) (hd1 : 1 ≤ d) (h : Inside d v base s) :
    At d (fun i => if i = d - 1 then v else base i) s := by
  refine ⟨h.depth, h.zero, ?_⟩
  intro i hi
  by_cases he : i = d - 1
  · simp [he, h.cur]
  · simp only [he, if_false]; exact h.below i (by omega)

theorem at_inside (d v : Nat) (base : Nat → Nat) (s : St) (hd1 : 1 ≤ d)
    (h : At d (fun i => if i = d - 1 then v else base i) s) : Inside d v base s := by
  refine ⟨h.depth, ?_, h.zero, ?_⟩
  · have := h.below (d - 1) (by omega); simpa using this
  · intro i hi
    have := h.below i (by omega)
    have he : ¬ (i = d - 1) := by omega
    simpa [he] using this

mutual
theorem items_run (hdown : Downward PlasVerif.Generated.ListCounters.resetBy) : ∀ (items : LItems) (d v : Nat) (base : Nat → Nat) (s : St), 1 ≤ d → d ≤ 4 → items.fits d = true →
    Inside d v base s → ∃ s1, Inside d (v + items.counted) base s1 ∧ Then items.events s (items.expect d v) s1
  | .nil, d, v, base, s, _, _, _, h => ⟨s, by simpa [LItems.counted] using h, by simpa [LItems.events, LItems.expect] using then_nil s⟩
  | .cons t subs rest, d, v, base, s, hd1, hd4, hf, h => by
    have hf' : subs.fits d = true ∧ rest.fits d = true := by simpa [LItems.fits] using hf
    obtain ⟨ho, hs⟩ := item_inside hdown d v base s t hd1 hd4 h
    -- nested lists run at level d with the running counter in the base
    obtain ⟨s1, hs1, hrun1⟩ := lists_run hdown subs d _ _ hd4 hf'.1 (inside_at d _ base _ hd1 hs)
    have hs1' := at_inside d _ base s1 hd1 hs1
    obtain ⟨s2, hs2, hrun2⟩ := items_run hdown rest d _ base s1 hd1 hd4 hf'.2 hs1'
    refine ⟨s2, ?_, ?_⟩
    · cases t <;> simp [LItems.counted] at hs2 ⊢
      · have : v + (1 + rest.counted) = v + 1 + rest.counted := by omega
        rw [this]; exact hs2
      · exact hs2
    · have h1 := then_item t s
      rw [ho] at h1
      have := then_append h1 (then_append hrun1 hrun2)
      simpa [LItems.events, LItems.expect] using this
theorem lists_run (hdown : Downward PlasVerif.Generated.ListCounters.resetBy) : ∀ (lists : LLists) (d : Nat) (base : Nat → Nat) (s : St), d ≤ 4 → lists.fits d = true →
    At d base s → ∃ s1, At d base s1 ∧ Then lists.events s (lists.expect d) s1
  | .nil, d, base, s, _, _, h => ⟨s, h, by simpa [LLists.events, LLists.expect] using then_nil s⟩
  | .cons l rest, d, base, s, hd4, hf, h => by
    have hf' : (d + 1 ≤ 4 ∧ l.fits (d + 1) = true) ∧ rest.fits d = true := by simpa [LLists.fits] using hf
    have hb := begin_inside d base s h
    obtain ⟨s1, hs1, hrun1⟩ := items_run hdown l (d + 1) 0 base _ (by omega) hf'.1.1 hf'.1.2 hb
    have he := end_at d _ base s1 hs1
    obtain ⟨s2, hs2, hrun2⟩ := lists_run hdown rest d base _ hd4 hf'.2 he
    refine ⟨s2, hs2, ?_⟩
    have := then_append (then_begin s) (then_append hrun1 (then_append (then_end s1) hrun2))
    simpa [LLists.events, LLists.expect] using this
end

theorem fresh_at : At 0 (fun _ => 0) fresh := ⟨rfl, fun _ _ => rfl, fun _ h => by omega⟩

end PlasVerif.Proofs.ListNumbers
