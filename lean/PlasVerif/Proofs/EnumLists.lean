import PlasVerif.Proofs.Counters
/-! Helper lemmas for C08: list counters (`enumi … enumiv`), the invariant of `List.invoke`, and what the items print. -/
set_option linter.unusedSimpArgs false
set_option linter.unusedVariables false
namespace PlasVerif.Proofs.EnumLists
open PlasVerif.Model.Counters PlasVerif.Model.Numbering PlasVerif.Spec.NumberingRules PlasVerif.Proofs.Counters

attribute [local instance] Classical.propDecidable

/-! ## more store lemmas -/

theorem val_append_single (s : Store) (c : Ctr) (x : Name) :
    val (s ++ [c]) x = match val s x with | some v => some v | none => if c.name = x then some c.value else none := by
  induction s with
  | nil => simp [val_cons, val_nil]
  | cons d s ih =>
    simp only [List.cons_append, val_cons]
    by_cases h : d.name = x <;> simp [h, ih]

theorem val_ensure (s : Store) (n x : Name) :
    val (ensure s n) x = match val s x with | some v => some v | none => if x = n then some 0 else none := by
  unfold ensure
  by_cases h : (val s n).isSome
  · simp only [h, if_true]
    cases hx : val s x with
    | some v => rfl
    | none =>
      by_cases hxn : x = n
      · subst hxn; simp [hx] at h
      · simp [hxn]
  · simp only [h, Bool.false_eq_true, if_false]
    rw [val_append_single]
    cases hx : val s x with
    | some v => simp
    | none =>
      by_cases hxn : x = n
      · simp [hxn]
      · have : ¬ n = x := fun h => hxn h.symm
        simp [hxn, this]

theorem val_ensure_of_ne (s : Store) (n x : Name) (h : x ≠ n) : val (ensure s n) x = val s x := by
  rw [val_ensure]; cases val s x <;> simp [h]

theorem val_ensure_self (s : Store) (n : Name) : val (ensure s n) n = some (valD s n) := by
  rw [val_ensure]; unfold valD; cases val s n <;> simp

theorem valD_ensure_self (s : Store) (n : Name) : valD (ensure s n) n = valD s n := by
  unfold valD; rw [val_ensure_self]; rfl

theorem skel_ensure (s : Store) (n : Name) :
    skel (ensure s n) = if (val s n).isSome then skel s else skel s ++ [(n, none)] := by
  unfold ensure
  by_cases h : (val s n).isSome <;> simp [h, skel]

theorem val_setc (s : Store) (n : Name) (v : Int) (x : Name) :
    val (setc s n v) x = if x = n then some v else val s x := by
  unfold setc
  rw [val_setVal]
  by_cases h : x = n
  · subst h; simp [val_ensure_self]
  · simp [h, val_ensure_of_ne]

theorem skel_setc (s : Store) (n : Name) (v : Int) : skel (setc s n v) = skel (ensure s n) := by
  unfold setc; rw [skel_setVal]

theorem val_addc (s : Store) (n : Name) (d : Int) (x : Name) :
    val (addc s n d) x = if x = n then some (valD s n + d) else val s x := by
  unfold addc
  simp only [val_setVal]
  by_cases h : x = n
  · subst h; simp [val_ensure_self, valD_ensure_self]
  · simp [h, val_ensure_of_ne]

theorem skel_addc (s : Store) (n : Name) (d : Int) : skel (addc s n d) = skel (ensure s n) := by
  unfold addc; simp only [skel_setVal]

/-- the complete effect of `counters[c].stepcounter()` whenever it returns -/
theorem stepc_vals (s s' : Store) (c : Name) (h : stepc s c = .ok s') :
    skel s' = skel (ensure s c) ∧
    ∀ x, val s' x = if Within (skel (ensure s c)) x c then (val (ensure s c) x).map (fun _ => 0)
                    else if x = c then some (valD s c + 1) else val (ensure s c) x := by
  simp only [stepc] at h
  have key := resetFrom_exact _ _ _ _ h
  rw [skel_setVal] at key
  refine ⟨key.1, fun x => ?_⟩
  rw [key.2 x, val_setVal]
  by_cases hw : Within (skel (ensure s c)) x c
  · by_cases hx : x = c
    · subst hx; simp [hw, Option.map_map, Function.comp_def]
    · simp [hw, hx]
  · by_cases hx : x = c
    · subst hx; simp [hw, val_ensure_self, valD_ensure_self]
    · simp [hw, hx]


/-! ## the reset chain `enumi ⊃ enumii ⊃ enumiii ⊃ enumiv` -/

structure ChainFacts (F : Forest) : Prop where
  up : ∀ x c, Within F x c → x ∈ enumNames → c ∈ enumNames ∧ eidx c < eidx x

theorem chainFacts (F : Forest) (h : enumChainB F = true) : ChainFacts F := by
  simp only [enumChainB, List.all_eq_true] at h
  refine ⟨?_⟩
  intro x c hw
  induction hw with
  | @direct x c hm _ =>
    intro hx
    have := h (x, some c) hm
    simp only [Bool.or_eq_true, Bool.not_eq_true', Bool.and_eq_true, decide_eq_true_eq] at this
    rcases this with h1 | h1
    · rw [List.contains_iff_mem.mpr hx] at h1; cases h1
    · exact ⟨List.contains_iff_mem.mp h1.1, h1.2⟩
  | @trans x y c _ _ ih1 ih2 =>
    intro hx
    have a := ih1 hx
    have b := ih2 a.1
    exact ⟨b.1, by omega⟩

theorem ChainFacts.not_within_of_not_enum {F : Forest} (cf : ChainFacts F) {x c : String}
    (hx : x ∈ enumNames) (hc : c ∉ enumNames) : ¬ Within F x c :=
  fun hw => hc (cf.up x c hw hx).1

theorem ChainFacts.not_within_of_le {F : Forest} (cf : ChainFacts F) {x c : String}
    (hx : x ∈ enumNames) (hle : eidx x ≤ eidx c) : ¬ Within F x c :=
  fun hw => by have := (cf.up x c hw hx).2; omega

/-- appending a declaration for a counter that is not a list counter keeps the table well-formed -/
theorem enumChainB_append (F : Forest) (n : String) (w : Option String) (hn : n ∉ enumNames)
    (h : enumChainB F = true) : enumChainB (F ++ [(n, w)]) = true := by
  simp only [enumChainB, List.all_eq_true] at h ⊢
  intro e he
  rcases List.mem_append.mp he with he | he
  · exact h e he
  · simp only [List.mem_singleton] at he
    subst he
    simp [hn]

theorem enumChainB_ensure (s : Store) (n : Name) (hn : n ∉ enumNames)
    (h : enumChainB (skel s) = true) : enumChainB (skel (ensure s n)) = true := by
  rw [skel_ensure]
  by_cases hs : (val s n).isSome
  · simpa [hs] using h
  · simp only [hs, Bool.false_eq_true, if_false]
    exact enumChainB_append _ _ _ hn h


@[simp] theorem eidx_i : eidx "enumi" = 0 := by decide
@[simp] theorem eidx_ii : eidx "enumii" = 1 := by decide
@[simp] theorem eidx_iii : eidx "enumiii" = 2 := by decide
@[simp] theorem eidx_iv : eidx "enumiv" = 3 := by decide

theorem mem_enumNames (x : String) :
    x ∈ enumNames ↔ x = "enumi" ∨ x = "enumii" ∨ x = "enumiii" ∨ x = "enumiv" := by
  simp [enumNames]

theorem ensure_of_some (s : Store) (n : Name) (v : Int) (h : val s n = some v) : ensure s n = s := by
  simp [ensure, h]

theorem eidx_inj {x c : String} (hx : x ∈ enumNames) (hc : c ∈ enumNames) (h : eidx x = eidx c) : x = c := by
  rw [mem_enumNames] at hx hc
  rcases hx with rfl | rfl | rfl | rfl <;> rcases hc with rfl | rfl | rfl | rfl <;> first | rfl | (simp at h)

/-- stepping a list counter: the counter itself is one more, the list counters of the outer levels stay -/
theorem step_enum_le (s s' : Store) (c x : Name) (v : Int) (cf : ChainFacts (skel s))
    (hc : c ∈ enumNames) (hcv : val s c = some v) (hx : x ∈ enumNames) (hle : eidx x ≤ eidx c)
    (hs : stepc s c = .ok s') :
    val s' x = if x = c then some (v + 1) else val s x := by
  have he := ensure_of_some s c v hcv
  have key := (stepc_vals s s' c hs).2 x
  rw [he] at key
  rw [key]
  have : ¬ Within (skel s) x c := cf.not_within_of_le hx hle
  simp [this, valD, hcv]

/-- … and a deeper list counter that is 0 stays 0 (reset or not) -/
theorem step_enum_gt (s s' : Store) (c x : Name) (v : Int) (hcv : val s c = some v)
    (hne : x ≠ c) (hx0 : val s x = some 0) (hs : stepc s c = .ok s') : val s' x = some 0 := by
  have he := ensure_of_some s c v hcv
  have key := (stepc_vals s s' c hs).2 x
  rw [he] at key
  rw [key]
  by_cases hw : Within (skel s) x c <;> simp [hw, hne, hx0]

theorem step_enum_skel (s s' : Store) (c : Name) (v : Int) (hcv : val s c = some v) (hs : stepc s c = .ok s') :
    skel s' = skel s := by
  have := (stepc_vals s s' c hs).1
  rwa [ensure_of_some s c v hcv] at this

/-- an operation on a counter that is not a list counter leaves the list counters and their table alone -/
theorem step_other (s s' : Store) (c : Name) (hch : enumChainB (skel s) = true) (hc : c ∉ enumNames)
    (hs : stepc s c = .ok s') :
    (∀ x ∈ enumNames, val s' x = val s x) ∧ enumChainB (skel s') = true := by
  have hch' := enumChainB_ensure s c hc hch
  have key := stepc_vals s s' c hs
  refine ⟨fun x hx => ?_, by rw [key.1]; exact hch'⟩
  have hne : x ≠ c := fun h => hc (h ▸ hx)
  have hnw : ¬ Within (skel (ensure s c)) x c := (chainFacts _ hch').not_within_of_not_enum hx hc
  rw [key.2 x]
  simp [hnw, hne, val_ensure_of_ne]

theorem setc_other (s : Store) (c : Name) (v : Int) (hch : enumChainB (skel s) = true) (hc : c ∉ enumNames) :
    (∀ x ∈ enumNames, val (setc s c v) x = val s x) ∧ enumChainB (skel (setc s c v)) = true := by
  refine ⟨fun x hx => ?_, by rw [skel_setc]; exact enumChainB_ensure s c hc hch⟩
  have hne : x ≠ c := fun h => hc (h ▸ hx)
  rw [val_setc]; simp [hne]

theorem addc_other (s : Store) (c : Name) (d : Int) (hch : enumChainB (skel s) = true) (hc : c ∉ enumNames) :
    (∀ x ∈ enumNames, val (addc s c d) x = val s x) ∧ enumChainB (skel (addc s c d)) = true := by
  refine ⟨fun x hx => ?_, by rw [skel_addc]; exact enumChainB_ensure s c hc hch⟩
  have hne : x ≠ c := fun h => hc (h ▸ hx)
  rw [val_addc]; simp [hne]

theorem newc_other (s : Store) (n : Name) (w : Option Name) (hch : enumChainB (skel s) = true) (hn : n ∉ enumNames)
    (hnew : val s n = none) :
    (∀ x ∈ enumNames, val (newc s n w 0) x = val s x) ∧ enumChainB (skel (newc s n w 0)) = true := by
  have e : newc s n w 0 = s ++ [{ name := n, resetby := w, value := 0 }] := by simp [newc, hnew]
  rw [e]
  refine ⟨fun x hx => ?_, ?_⟩
  · have hne : ¬ n = x := fun h => hn (h ▸ hx)
    rw [val_append_single]
    cases val s x <;> simp [hne]
  · have : skel (s ++ [{ name := n, resetby := w, value := 0 }]) = skel s ++ [(n, w)] := by simp [skel]
    rw [this]; exact enumChainB_append _ _ _ hn hch

/-! ## the four list counters against a stack of open lists -/

def EnumVals (s : Store) (stk : List Nat) : Prop :=
  enumNames.map (val s) = (levels stk).map (fun (n : Nat) => some (n : Int))

theorem levels_0 : levels [] = [0, 0, 0, 0] := rfl
theorem levels_1 (a : Nat) : levels [a] = [a, 0, 0, 0] := rfl
theorem levels_2 (a b : Nat) : levels [b, a] = [a, b, 0, 0] := rfl
theorem levels_3 (a b c : Nat) : levels [c, b, a] = [a, b, c, 0] := rfl
theorem levels_4 (a b c d : Nat) : levels [d, c, b, a] = [a, b, c, d] := rfl

theorem enumVals_congr (s s' : Store) (stk : List Nat) (h : ∀ x ∈ enumNames, val s' x = val s x)
    (hv : EnumVals s stk) : EnumVals s' stk := by
  unfold EnumVals at hv ⊢
  rw [← hv]
  exact List.map_congr_left h

/-- an unlabelled item of the innermost open list -/
theorem item_store (s s' : Store) (k : Nat) (r : List Nat) (hlen : r.length < 4)
    (hch : enumChainB (skel s) = true) (hv : EnumVals s (k :: r))
    (hs : stepc s (listCounters.getD r.length "enumi") = .ok s') :
    EnumVals s' ((k + 1) :: r) ∧ enumChainB (skel s') = true := by
  rcases r with _ | ⟨a, _ | ⟨b, _ | ⟨c, _ | ⟨d, r⟩⟩⟩⟩
  · simp only [List.length_cons, List.length_nil] at hs
    have cf := chainFacts _ hch
    simp only [EnumVals, levels_1, enumNames, List.map_cons, List.map_nil, List.cons.injEq, and_true, Int.natCast_zero] at hv ⊢
    obtain ⟨h1, h2, h3, h4⟩ := hv
    have hc : listCounters.getD 0 "enumi" = "enumi" := by decide
    rw [hc] at hs
    have e1 := step_enum_le s s' "enumi" "enumi" _ cf (by decide) h1 (by decide) (by simp) hs
    have e2 := step_enum_gt s s' "enumi" "enumii" _ h1 (by decide) h2 hs
    have e3 := step_enum_gt s s' "enumi" "enumiii" _ h1 (by decide) h3 hs
    have e4 := step_enum_gt s s' "enumi" "enumiv" _ h1 (by decide) h4 hs
    simp [h1, h2, h3, h4] at e1 e2 e3 e4
    refine ⟨⟨e1, e2, e3, by simpa using e4⟩, by rw [step_enum_skel s s' "enumi" _ h1 hs]; exact hch⟩
  · simp only [List.length_cons, List.length_nil] at hs
    have cf := chainFacts _ hch
    simp only [EnumVals, levels_2, enumNames, List.map_cons, List.map_nil, List.cons.injEq, and_true, Int.natCast_zero] at hv ⊢
    obtain ⟨h1, h2, h3, h4⟩ := hv
    have hc : listCounters.getD 1 "enumi" = "enumii" := by decide
    rw [hc] at hs
    have e1 := step_enum_le s s' "enumii" "enumi" _ cf (by decide) h2 (by decide) (by simp) hs
    have e2 := step_enum_le s s' "enumii" "enumii" _ cf (by decide) h2 (by decide) (by simp) hs
    have e3 := step_enum_gt s s' "enumii" "enumiii" _ h2 (by decide) h3 hs
    have e4 := step_enum_gt s s' "enumii" "enumiv" _ h2 (by decide) h4 hs
    simp [h1, h2, h3, h4] at e1 e2 e3 e4
    refine ⟨⟨e1, e2, e3, by simpa using e4⟩, by rw [step_enum_skel s s' "enumii" _ h2 hs]; exact hch⟩
  · simp only [List.length_cons, List.length_nil] at hs
    have cf := chainFacts _ hch
    simp only [EnumVals, levels_3, enumNames, List.map_cons, List.map_nil, List.cons.injEq, and_true, Int.natCast_zero] at hv ⊢
    obtain ⟨h1, h2, h3, h4⟩ := hv
    have hc : listCounters.getD 2 "enumi" = "enumiii" := by decide
    rw [hc] at hs
    have e1 := step_enum_le s s' "enumiii" "enumi" _ cf (by decide) h3 (by decide) (by simp) hs
    have e2 := step_enum_le s s' "enumiii" "enumii" _ cf (by decide) h3 (by decide) (by simp) hs
    have e3 := step_enum_le s s' "enumiii" "enumiii" _ cf (by decide) h3 (by decide) (by simp) hs
    have e4 := step_enum_gt s s' "enumiii" "enumiv" _ h3 (by decide) h4 hs
    simp [h1, h2, h3, h4] at e1 e2 e3 e4
    refine ⟨⟨e1, e2, e3, by simpa using e4⟩, by rw [step_enum_skel s s' "enumiii" _ h3 hs]; exact hch⟩
  · simp only [List.length_cons, List.length_nil] at hs
    have cf := chainFacts _ hch
    simp only [EnumVals, levels_4, enumNames, List.map_cons, List.map_nil, List.cons.injEq, and_true, Int.natCast_zero] at hv ⊢
    obtain ⟨h1, h2, h3, h4⟩ := hv
    have hc : listCounters.getD 3 "enumi" = "enumiv" := by decide
    rw [hc] at hs
    have e1 := step_enum_le s s' "enumiv" "enumi" _ cf (by decide) h4 (by decide) (by simp) hs
    have e2 := step_enum_le s s' "enumiv" "enumii" _ cf (by decide) h4 (by decide) (by simp) hs
    have e3 := step_enum_le s s' "enumiv" "enumiii" _ cf (by decide) h4 (by decide) (by simp) hs
    have e4 := step_enum_le s s' "enumiv" "enumiv" _ cf (by decide) h4 (by decide) (by simp) hs
    simp [h1, h2, h3, h4] at e1 e2 e3 e4
    refine ⟨⟨e1, e2, e3, by simpa using e4⟩, by rw [step_enum_skel s s' "enumiv" _ h4 hs]; exact hch⟩
  · simp at hlen; omega

/-! ## `List.invoke`: the reset loop -/

def zeroAll (ns : List Name) (s : Store) : Store := ns.foldl (fun s n => setc s n 0) s

theorem val_zeroAll (ns : List Name) : ∀ (s : Store) (x : Name),
    val (zeroAll ns s) x = if x ∈ ns then some 0 else val s x := by
  induction ns with
  | nil => intro s x; simp [zeroAll]
  | cons n ns ih =>
    intro s x
    have : zeroAll (n :: ns) s = zeroAll ns (setc s n 0) := rfl
    rw [this, ih, val_setc]
    by_cases h1 : x ∈ ns <;> by_cases h2 : x = n <;> simp [h1, h2]

theorem skel_zeroAll (ns : List Name) : ∀ (s : Store), (∀ n ∈ ns, (val s n).isSome = true) →
    skel (zeroAll ns s) = skel s := by
  induction ns with
  | nil => intro s _; rfl
  | cons n ns ih =>
    intro s h
    have e : zeroAll (n :: ns) s = zeroAll ns (setc s n 0) := rfl
    have hn := h n List.mem_cons_self
    rw [e, ih]
    · rw [skel_setc, skel_ensure]; simp [hn]
    · intro m hm
      rw [val_setc]
      by_cases hmn : m = n
      · simp [hmn]
      · simpa [hmn] using h m (List.mem_cons_of_mem _ hm)

theorem listReset_0 (s : Store) : listReset 0 4 s = zeroAll (enumNames.drop 0) s := rfl
theorem listReset_1 (s : Store) : listReset 1 3 s = zeroAll (enumNames.drop 1) s := rfl
theorem listReset_2 (s : Store) : listReset 2 2 s = zeroAll (enumNames.drop 2) s := rfl
theorem listReset_3 (s : Store) : listReset 3 1 s = zeroAll (enumNames.drop 3) s := rfl
theorem listReset_4 (s : Store) : listReset 4 0 s = zeroAll (enumNames.drop 4) s := rfl

/-- the reset loop of `List.invoke` for a new depth `d ≤ 4`: the list counters at index ≥ d are set to 0 -/
theorem listReset_eq (d : Nat) (hd : d ≤ 4) (s : Store) :
    listReset (d : Int) ((listCounters.length : Int) - (d : Int)).toNat s = zeroAll (enumNames.drop d) s := by
  have : d = 0 ∨ d = 1 ∨ d = 2 ∨ d = 3 ∨ d = 4 := by omega
  rcases this with rfl | rfl | rfl | rfl | rfl
  · exact listReset_0 s
  · exact listReset_1 s
  · exact listReset_2 s
  · exact listReset_3 s
  · exact listReset_4 s

theorem enumVals_isSome (s : Store) (stk : List Nat) (hv : EnumVals s stk) (hlen : stk.length ≤ 4) :
    ∀ n ∈ enumNames, (val s n).isSome = true := by
  intro n hn
  unfold EnumVals at hv
  have h1 : val s n ∈ enumNames.map (val s) := List.mem_map_of_mem hn
  rw [hv] at h1
  simp only [List.mem_map] at h1
  obtain ⟨m, _, hm⟩ := h1
  rw [← hm]; rfl

theorem zeroAll_chain (s : Store) (stk : List Nat) (d : Nat) (hv : EnumVals s stk) (hlen : stk.length ≤ 4)
    (hch : enumChainB (skel s) = true) : enumChainB (skel (zeroAll (enumNames.drop d) s)) = true := by
  rw [skel_zeroAll]; exact hch
  intro n hn
  exact enumVals_isSome s stk hv hlen n (List.mem_of_mem_drop hn)

/-- `\begin{list}`: the deeper counters are reset; the new list's own counter is 0 by the invariant -/
theorem begin_store (s : Store) (stk : List Nat) (hlen : stk.length < 4) (hv : EnumVals s stk) :
    EnumVals (zeroAll (enumNames.drop (stk.length + 1)) s) (0 :: stk) := by
  rcases stk with _ | ⟨a, _ | ⟨b, _ | ⟨c, _ | ⟨d, r⟩⟩⟩⟩
  · simp only [EnumVals, levels_0, levels_1, enumNames, List.map_cons, List.map_nil, List.cons.injEq, and_true] at hv ⊢
    simp [val_zeroAll, hv]
  · simp only [EnumVals, levels_1, levels_2, enumNames, List.map_cons, List.map_nil, List.cons.injEq, and_true] at hv ⊢
    simp [val_zeroAll, hv]
  · simp only [EnumVals, levels_2, levels_3, enumNames, List.map_cons, List.map_nil, List.cons.injEq, and_true] at hv ⊢
    simp [val_zeroAll, hv]
  · simp only [EnumVals, levels_3, levels_4, enumNames, List.map_cons, List.map_nil, List.cons.injEq, and_true] at hv ⊢
    simp [val_zeroAll, hv]
  · simp at hlen; omega

/-- `\end{list}`: the counters from the closed list's own index on are reset -/
theorem end_store (s : Store) (k : Nat) (r : List Nat) (hlen : r.length < 4) (hv : EnumVals s (k :: r)) :
    EnumVals (zeroAll (enumNames.drop r.length) s) r := by
  rcases r with _ | ⟨a, _ | ⟨b, _ | ⟨c, _ | ⟨d, r⟩⟩⟩⟩
  · simp only [EnumVals, levels_0, levels_1, enumNames, List.map_cons, List.map_nil, List.cons.injEq, and_true] at hv ⊢
    simp [val_zeroAll, hv]
  · simp only [EnumVals, levels_1, levels_2, enumNames, List.map_cons, List.map_nil, List.cons.injEq, and_true] at hv ⊢
    simp [val_zeroAll, hv]
  · simp only [EnumVals, levels_2, levels_3, enumNames, List.map_cons, List.map_nil, List.cons.injEq, and_true] at hv ⊢
    simp [val_zeroAll, hv]
  · simp only [EnumVals, levels_3, levels_4, enumNames, List.map_cons, List.map_nil, List.cons.injEq, and_true] at hv ⊢
    simp [val_zeroAll, hv]
  · simp at hlen; omega

/-! ## `\the…` of the list counters -/

theorem the_ne (n e : String) (hn : n ∉ enumNames) (he : e ∈ enumNames) : ("the" ++ e == "the" ++ n) = false := by
  simp only [beq_eq_false_iff_ne, ne_eq, String.append_right_inj]
  intro h; exact hn (h ▸ he)

theorem enumThesB_cons (thes : TheEnv) (n : String) (d : TheDef) (hn : n ∉ enumNames)
    (h : enumThesB thes = true) : enumThesB (("the" ++ n, d) :: thes) = true := by
  simp only [enumThesB, List.all_eq_true] at h ⊢
  intro e he
  rw [List.lookup_cons, the_ne n e hn he]
  exact h e he

theorem enumThes_lookup (thes : TheEnv) (h : enumThesB thes = true) (e : String) (he : e ∈ enumNames) :
    thes.lookup ("the" ++ e) = some { pieces := [.ref e none], trimLeft := false } := by
  simp only [enumThesB, List.all_eq_true] at h
  simpa using h e he

/-- `\theenum…` prints the value in arabic -/
theorem the_enum_eval (thes : TheEnv) (s : Store) (e : String) (he : e ∈ enumNames) (h : enumThesB thes = true) :
    evalThe (theFuel thes) thes s ("the" ++ e) = .ok (toString (valD s e)) := by
  have hl := enumThes_lookup thes h e he
  have hsw : isMacroRef ("the" ++ e) e = false := by
    unfold isMacroRef
    rw [mem_enumNames] at he
    rcases he with rfl | rfl | rfl | rfl <;> decide +kernel
  simp only [theFuel, evalThe, evalPiece, hl, List.mapM_cons, List.mapM_nil, hsw, Bool.false_eq_true, if_false,
    Option.getD_none, represent, bind, Except.bind, pure, Except.pure, String.join, List.foldl_cons, List.foldl_nil]
  simp

/-! ## the machine: frames -/

theorem capture_frame (st st' : St) (tag : String) (c : Name) (level : Int)
    (h : capture st tag c level = .ok st') :
    st'.store = st.store ∧ st'.thes = st.thes ∧ st'.depth = st.depth ∧ st'.envs = st.envs := by
  simp only [capture] at h
  split at h
  · split at h
    · simp only [Except.ok.injEq] at h; subst h; exact ⟨rfl, rfl, rfl, rfl⟩
    · cases h
  · simp only [Except.ok.injEq] at h; subst h; exact ⟨rfl, rfl, rfl, rfl⟩

/-- what `numbered` does to everything but the outputs -/
theorem numbered_frame (st st' : St) (tag : String) (c : Name) (starred : Bool) (level : Int)
    (h : numbered st tag c starred level = .ok st') :
    st'.thes = st.thes ∧ st'.depth = st.depth ∧ st'.envs = st.envs ∧
    ((starred = true ∨ c = "") → st'.store = st.store) ∧
    ((starred = false ∧ c ≠ "") → stepc st.store c = .ok st'.store) := by
  cases starred with
  | true =>
    simp only [numbered, if_true, stepOwn, beq_self_eq_true] at h
    obtain ⟨a, b, c', d⟩ := capture_frame _ _ _ _ _ h
    exact ⟨b, c', d, fun _ => a, fun h => by simp at h⟩
  | false =>
    by_cases hc : c = ""
    · subst hc
      simp only [numbered, Bool.false_eq_true, if_false, stepOwn, beq_self_eq_true, if_true] at h
      obtain ⟨a, b, c', d⟩ := capture_frame _ _ _ _ _ h
      exact ⟨b, c', d, fun _ => a, fun h => by simp at h⟩
    · have hcb : (c == "") = false := by simpa using hc
      simp only [numbered, Bool.false_eq_true, if_false, stepOwn, hcb] at h
      cases hs : stepc st.store c with
      | error e => rw [hs] at h; cases h
      | ok s =>
        rw [hs] at h
        obtain ⟨a, b, c', d⟩ := capture_frame _ _ _ _ _ h
        exact ⟨b, c', d, fun h => by rcases h with h | h <;> simp_all, fun _ => by rw [a]⟩

theorem listInv_of_frame (st st' : St) (stk : List Nat) (hinv : ListInv st stk)
    (hd : st'.depth = st.depth) (ht : st'.thes = st.thes) (he : st'.envs = st.envs)
    (hf : ∀ x ∈ enumNames, val st'.store x = val st.store x)
    (hc : enumChainB (skel st'.store) = true) : ListInv st' stk := by
  obtain ⟨h1, h2, h3, _, h5, h6⟩ := hinv
  exact ⟨by rw [hd, h1], h2, enumVals_congr _ _ _ hf h3, hc, by rw [ht]; exact h5, by rw [he]; exact h6⟩

theorem not_mem_of_contains {c : String} (h : (!(enumNames.contains c)) = true) : c ∉ enumNames := by
  simpa [List.contains_iff_mem] using h

/-- a numbered object of a counter that is not a list counter keeps the list invariant -/
theorem numbered_other (st st' : St) (stk : List Nat) (tag : String) (c : Name) (starred : Bool) (level : Int)
    (hinv : ListInv st stk) (hsafe : starred = true ∨ c ∉ enumNames)
    (h : numbered st tag c starred level = .ok st') : ListInv st' stk := by
  obtain ⟨ht, hd, he, hsame, hstep⟩ := numbered_frame _ _ _ _ _ _ h
  by_cases hs : starred = true ∨ c = ""
  · have := hsame hs
    exact listInv_of_frame st st' stk hinv hd ht he (fun x _ => by rw [this]) (by rw [this]; exact hinv.2.2.2.1)
  · have hs' : starred = false ∧ c ≠ "" := by
      cases starred <;> simp_all
    have hc : c ∉ enumNames := by
      rcases hsafe with h | h
      · simp [hs'.1] at h
      · exact h
    have := step_other _ _ c hinv.2.2.2.1 hc (hstep hs')
    exact listInv_of_frame st st' stk hinv hd ht he this.1 this.2

/-! ## the machine: one step keeps the list invariant -/

theorem pyIndex_cur (n : Nat) (hn : n < 4) :
    (pyIndex listCounters (((n + 1 : Nat) : Int) - 1)).getD "enumi" = listCounters.getD n "enumi" := by
  have : n = 0 ∨ n = 1 ∨ n = 2 ∨ n = 3 := by omega
  rcases this with rfl | rfl | rfl | rfl <;> rfl

theorem enumVals_top (s : Store) (k : Nat) (r : List Nat) (hlen : r.length < 4) (hv : EnumVals s (k :: r)) :
    val s (listCounters.getD r.length "enumi") = some (k : Int) ∧ listCounters.getD r.length "enumi" ∈ enumNames := by
  rcases r with _ | ⟨a, _ | ⟨b, _ | ⟨c, _ | ⟨d, r⟩⟩⟩⟩
  · simp only [EnumVals, levels_1, enumNames, List.map_cons, List.map_nil, List.cons.injEq, and_true] at hv
    exact ⟨hv.1, by simp [listCounters, enumNames]⟩
  · simp only [EnumVals, levels_2, enumNames, List.map_cons, List.map_nil, List.cons.injEq, and_true] at hv
    exact ⟨hv.2.1, by simp [listCounters, enumNames]⟩
  · simp only [EnumVals, levels_3, enumNames, List.map_cons, List.map_nil, List.cons.injEq, and_true] at hv
    exact ⟨hv.2.2.1, by simp [listCounters, enumNames]⟩
  · simp only [EnumVals, levels_4, enumNames, List.map_cons, List.map_nil, List.cons.injEq, and_true] at hv
    exact ⟨hv.2.2.2, by simp [listCounters, enumNames]⟩
  · simp at hlen; omega

theorem lookup_mem {α β} [BEq α] [LawfulBEq α] (l : List (α × β)) (a : α) (b : β) (h : l.lookup a = some b) :
    (a, b) ∈ l := by
  induction l with
  | nil => simp at h
  | cons p l ih =>
    obtain ⟨a', b'⟩ := p
    rw [List.lookup_cons] at h
    by_cases hab : (a == a') = true
    · simp only [hab, Option.some.injEq] at h
      have : a = a' := by simpa using hab
      subst this; subst h; exact List.mem_cons_self
    · simp only [hab] at h
      exact List.mem_cons_of_mem _ (ih h)

theorem envs_not_enum (st : St) (stk : List Nat) (hinv : ListInv st stk) (env c : Name)
    (h : st.envs.lookup env = some c) : c ∉ enumNames := by
  have := hinv.2.2.2.2.2
  simp only [List.all_eq_true] at this
  exact not_mem_of_contains (this (env, c) (lookup_mem _ _ _ h))

theorem envs_cons (envs : List (Name × Name)) (e c : Name) (hc : c ∉ enumNames)
    (h : envs.all (fun e => !(enumNames.contains e.2)) = true) :
    ((e, c) :: envs).all (fun e => !(enumNames.contains e.2)) = true := by
  simp only [List.all_cons, Bool.and_eq_true]
  exact ⟨by simpa [List.contains_iff_mem] using hc, h⟩

theorem enum_isSome (st : St) (stk : List Nat) (hinv : ListInv st stk) (n : Name) (hn : n ∈ enumNames) :
    (val st.store n).isSome = true :=
  enumVals_isSome st.store stk hinv.2.2.1 hinv.2.1 n hn

theorem not_enum_of_new (st : St) (stk : List Nat) (hinv : ListInv st stk) (n : Name)
    (h : ¬ (val st.store n).isSome = true) : n ∉ enumNames :=
  fun hn => h (enum_isSome st stk hinv n hn)

/-- reading a counter (which creates it when missing) leaves the list counters and their table alone -/
theorem ensure_other (s : Store) (c : Name) (hch : enumChainB (skel s) = true)
    (hex : ∀ n ∈ enumNames, (val s n).isSome = true) :
    (∀ x ∈ enumNames, val (ensure s c) x = val s x) ∧ enumChainB (skel (ensure s c)) = true := by
  by_cases hc : c ∈ enumNames
  · have : ensure s c = s := by
      have := hex c hc
      simp [ensure, this]
    rw [this]; exact ⟨fun _ _ => rfl, hch⟩
  · refine ⟨fun x hx => ?_, enumChainB_ensure s c hc hch⟩
    exact val_ensure_of_ne s c x (fun h => hc (h ▸ hx))

theorem listInv_step (st st' : St) (stk stk' : List Nat) (e : Ev) (hinv : ListInv st stk)
    (hsafe : listSafe e = true) (hstk : stackStep stk e = some stk') (h : step st e = .ok st') :
    ListInv st' stk' := by
  have hch := hinv.2.2.2.1
  cases e with
  | construct tag c starred level =>
    simp only [stackStep, Option.some.injEq] at hstk; subst hstk
    simp only [listSafe, Bool.or_eq_true] at hsafe
    exact numbered_other st st' stk tag c starred level hinv (hsafe.imp id not_mem_of_contains) h
  | thm env =>
    simp only [stackStep, Option.some.injEq] at hstk; subst hstk
    simp only [step] at h
    cases hl : st.envs.lookup env with
    | none => rw [hl] at h; simp only [Except.ok.injEq] at h; subst h; exact hinv
    | some c =>
      rw [hl] at h
      exact numbered_other st st' stk _ c false _ hinv (Or.inr (envs_not_enum st stk hinv env c hl)) h
  | setc n v =>
    simp only [stackStep, Option.some.injEq] at hstk; subst hstk
    simp only [step, Except.ok.injEq] at h; subst h
    have := setc_other st.store n v hch (not_mem_of_contains hsafe)
    exact listInv_of_frame st _ stk hinv rfl rfl rfl this.1 this.2
  | addc n v =>
    simp only [stackStep, Option.some.injEq] at hstk; subst hstk
    simp only [step, Except.ok.injEq] at h; subst h
    have := addc_other st.store n v hch (not_mem_of_contains hsafe)
    exact listInv_of_frame st _ stk hinv rfl rfl rfl this.1 this.2
  | stepc n =>
    simp only [stackStep, Option.some.injEq] at hstk; subst hstk
    simp only [step] at h
    cases hs : stepc st.store n with
    | error e => rw [hs] at h; cases h
    | ok s =>
      rw [hs] at h
      simp only [Except.map, Except.ok.injEq] at h; subst h
      have := step_other st.store s n hch (not_mem_of_contains hsafe) hs
      exact listInv_of_frame st _ stk hinv rfl rfl rfl this.1 this.2
  | newcounter n within =>
    simp only [stackStep, Option.some.injEq] at hstk; subst hstk
    simp only [step] at h
    by_cases hex : (val st.store n).isSome = true
    · simp only [hex, if_true, Except.ok.injEq] at h; subst h; exact hinv
    · simp only [hex, Bool.false_eq_true, if_false, Except.ok.injEq] at h; subst h
      have hn := not_enum_of_new st stk hinv n hex
      have hnone : val st.store n = none := by
        cases hv : val st.store n with
        | none => rfl
        | some v => simp [hv] at hex
      have := newc_other st.store n within hch hn hnone
      obtain ⟨h1, h2, h3, _, h5, h6⟩ := hinv
      exact ⟨h1, h2, enumVals_congr _ _ _ this.1 h3, this.2, enumThesB_cons _ _ _ hn h5, h6⟩
  | newtheorem name shared within starred =>
    simp only [stackStep, Option.some.injEq] at hstk; subst hstk
    simp only [listSafe, Bool.and_eq_true] at hsafe
    have hname := not_mem_of_contains hsafe.1
    have hshared := not_mem_of_contains hsafe.2
    obtain ⟨h1, h2, h3, h4, h5, h6⟩ := hinv
    simp only [step] at h
    split at h
    · split at h
      · simp only [Except.ok.injEq] at h; subst h
        exact ⟨h1, h2, h3, h4, h5, envs_cons _ _ _ hname h6⟩
      · rename_i hex
        simp only [Except.ok.injEq] at h; subst h
        have hnone : val st.store name = none := by
          cases hv : val st.store name with
          | none => rfl
          | some v => simp [hv] at hex
        have := newc_other st.store name
          (match within with | some w => if w != "" then some w else none | none => none) h4 hname hnone
        exact ⟨h1, h2, enumVals_congr _ _ _ this.1 h3, this.2, enumThesB_cons _ _ _ hname h5,
          envs_cons _ _ _ hname h6⟩
    · simp only [Except.ok.injEq] at h; subst h
      refine ⟨h1, h2, h3, h4, h5, envs_cons _ _ _ ?_ h6⟩
      cases starred
      · simpa using hshared
      · simp [enumNames]
  | beginList =>
    simp only [stackStep] at hstk
    split at hstk
    · rename_i hlt
      simp only [Option.some.injEq] at hstk; subst hstk
      simp only [step, Except.ok.injEq] at h; subst h
      obtain ⟨h1, h2, h3, h4, h5, h6⟩ := hinv
      have hd : st.depth + 1 = ((stk.length + 1 : Nat) : Int) := by rw [h1]; simp
      refine ⟨by simp [listInvoke, h1], by simp; omega, ?_, ?_, h5, h6⟩
      · show EnumVals (listReset (st.depth + 1) _ st.store) (0 :: stk)
        rw [hd, listReset_eq _ (by omega)]
        exact begin_store st.store stk hlt h3
      · show enumChainB (skel (listReset (st.depth + 1) _ st.store)) = true
        rw [hd, listReset_eq _ (by omega)]
        exact zeroAll_chain st.store stk _ h3 h2 h4
    · cases hstk
  | endList =>
    cases stk with
    | nil => simp [stackStep] at hstk
    | cons k r =>
      simp only [stackStep, Option.some.injEq] at hstk; subst hstk
      simp only [step, Except.ok.injEq] at h; subst h
      obtain ⟨h1, h2, h3, h4, h5, h6⟩ := hinv
      simp only [List.length_cons] at h1 h2
      have hd : st.depth - 1 = ((r.length : Nat) : Int) := by rw [h1]; simp
      refine ⟨by simp [listInvoke, h1], by omega, ?_, ?_, h5, h6⟩
      · show EnumVals (listReset (st.depth - 1) _ st.store) r
        rw [hd, listReset_eq _ (by omega)]
        exact end_store st.store k r (by omega) h3
      · show enumChainB (skel (listReset (st.depth - 1) _ st.store)) = true
        rw [hd, listReset_eq _ (by omega)]
        exact zeroAll_chain st.store (k :: r) _ h3 (by simp; omega) h4
  | item tag hasTerm =>
    cases stk with
    | nil => simp [stackStep] at hstk
    | cons k r =>
      simp only [stackStep, Option.some.injEq] at hstk; subst hstk
      cases hasTerm with
      | true =>
        simp only [Bool.true_eq_false, if_false, if_true]
        exact numbered_other st st' (k :: r) tag _ true _ hinv (Or.inl rfl) h
      | false =>
        simp only [Bool.false_eq_true, if_false]
        obtain ⟨h1, h2, h3, h4, h5, h6⟩ := hinv
        simp only [List.length_cons] at h1 h2
        have hlen : r.length < 4 := by omega
        have hcur : (pyIndex listCounters (st.depth - 1)).getD "enumi" = listCounters.getD r.length "enumi" := by
          rw [h1]; exact pyIndex_cur r.length hlen
        have hnum : numbered st tag (listCounters.getD r.length "enumi") false commandLevel = .ok st' := by
          rw [← hcur]; exact h
        obtain ⟨ht, hd, he, _, hstep⟩ := numbered_frame _ _ _ _ _ _ hnum
        have htop := enumVals_top st.store k r hlen h3
        have hne : listCounters.getD r.length "enumi" ≠ "" := by
          intro hc; have := htop.2; rw [hc] at this; revert this; decide
        have := item_store st.store st'.store k r hlen h4 h3 (hstep ⟨rfl, hne⟩)
        exact ⟨by rw [hd, h1]; simp, by simp; omega, this.1, this.2, by rw [ht]; exact h5, by rw [he]; exact h6⟩
  | eqnBegin =>
    simp only [stackStep, Option.some.injEq] at hstk; subst hstk
    exact numbered_other st st' stk _ "equation" false _ hinv (Or.inr (by decide)) h
  | eqRow =>
    simp only [stackStep, Option.some.injEq] at hstk; subst hstk
    exact numbered_other st st' stk _ "equation" false _ hinv (Or.inr (by decide)) h
  | nonumber =>
    simp only [stackStep, Option.some.injEq] at hstk; subst hstk
    simp only [step, Except.ok.injEq] at h; subst h
    have := addc_other st.store "equation" (-1) hch (by decide)
    exact listInv_of_frame st _ stk hinv rfl rfl rfl this.1 this.2
  | appendix c =>
    simp only [stackStep, Option.some.injEq] at hstk; subst hstk
    simp only [step, Except.ok.injEq] at h; subst h
    have hc := not_mem_of_contains hsafe
    have := setc_other st.store c 0 hch hc
    obtain ⟨h1, h2, h3, _, h5, h6⟩ := hinv
    exact ⟨h1, h2, enumVals_congr _ _ _ this.1 h3, this.2, enumThesB_cons _ _ _ hc h5, h6⟩
  | «show» fmt c =>
    simp only [stackStep, Option.some.injEq] at hstk; subst hstk
    simp only [step, showRep] at h
    cases hr : represent (valD st.store c) fmt with
    | error e => rw [hr] at h; cases h
    | ok r =>
      rw [hr] at h
      simp only [Except.ok.injEq] at h; subst h
      have := ensure_other st.store c hch (fun n hn => enum_isSome st stk hinv n hn)
      exact listInv_of_frame st _ stk hinv rfl rfl rfl this.1 this.2
  | showThe c =>
    simp only [stackStep, Option.some.injEq] at hstk; subst hstk
    simp only [step] at h
    cases hr : evalThe (theFuel st.thes) st.thes st.store ("the" ++ c) with
    | error e => rw [hr] at h; cases h
    | ok r =>
      rw [hr] at h
      simp only [Except.ok.injEq] at h; subst h
      exact listInv_of_frame st _ stk hinv rfl rfl rfl (fun _ _ => rfl) hch
  | renewThe c body =>
    simp only [stackStep, Option.some.injEq] at hstk; subst hstk
    simp only [step, Except.ok.injEq] at h; subst h
    have hc := not_mem_of_contains hsafe
    obtain ⟨h1, h2, h3, h4, h5, h6⟩ := hinv
    exact ⟨h1, h2, h3, h4, enumThesB_cons _ _ _ hc h5, h6⟩
  | setcv n m =>
    simp only [stackStep, Option.some.injEq] at hstk; subst hstk
    simp only [step, Except.ok.injEq] at h; subst h
    have e1 := ensure_other st.store m hch (fun n hn => enum_isSome st stk hinv n hn)
    have e2 := setc_other (ensure st.store m) n (valD st.store m) e1.2 (not_mem_of_contains hsafe)
    exact listInv_of_frame st _ stk hinv rfl rfl rfl (fun x hx => by rw [e2.1 x hx, e1.1 x hx]) e2.2
  | addcv n m =>
    simp only [stackStep, Option.some.injEq] at hstk; subst hstk
    simp only [step, Except.ok.injEq] at h; subst h
    have e1 := ensure_other st.store m hch (fun n hn => enum_isSome st stk hinv n hn)
    have e2 := addc_other (ensure st.store m) n (valD st.store m) e1.2 (not_mem_of_contains hsafe)
    exact listInv_of_frame st _ stk hinv rfl rfl rfl (fun x hx => by rw [e2.1 x hx, e1.1 x hx]) e2.2
  | initc n v =>
    simp only [stackStep, Option.some.injEq] at hstk; subst hstk
    simp only [step, Except.ok.injEq] at h; subst h
    have := setc_other st.store n (v - 1) hch (not_mem_of_contains hsafe)
    exact listInv_of_frame st _ stk hinv rfl rfl rfl this.1 this.2

/-! ## what an item prints -/

theorem toString_natCast_succ (k : Nat) : toString ((k : Int) + 1) = toString (k + 1) := by
  have : (k : Int) + 1 = ((k + 1 : Nat) : Int) := by simp
  rw [this]; rfl

theorem item_prints (st st' : St) (k : Nat) (r : List Nat) (tag : String) (hinv : ListInv st (k :: r))
    (h : step st (.item tag false) = .ok st') :
    st'.outs = ⟨tag, some (toString (k + 1))⟩ :: st.outs := by
  obtain ⟨h1, h2, h3, h4, h5, _⟩ := hinv
  simp only [List.length_cons] at h1 h2
  have hlen : r.length < 4 := by omega
  have hcur : (pyIndex listCounters (st.depth - 1)).getD "enumi" = listCounters.getD r.length "enumi" := by
    rw [h1]; exact pyIndex_cur r.length hlen
  obtain ⟨hv, hmem⟩ := enumVals_top st.store k r hlen h3
  generalize listCounters.getD r.length "enumi" = c at hcur hv hmem
  have hne : c ≠ "" := by intro hc; rw [hc] at hmem; revert hmem; decide
  have hnum : step st (.construct tag c false commandLevel) = .ok st' := by
    show numbered st tag c false commandLevel = .ok st'
    rw [← hcur]; exact h
  obtain ⟨s, hs, hcap⟩ := construct_ok st st' tag c commandLevel hne hnum
  have hval : valD s c = (k : Int) + 1 := by
    have := step_enum_le st.store s c c k (chainFacts _ h4) hmem hv hmem (Nat.le_refl _) hs
    simp at this
    simp [valD, this]
  have hcn : (c != "") = true := by simpa using hne
  have hlv : decide (commandLevel > endSectionsLevel) = true := by decide
  simp only [capture, hcn, hlv, Bool.or_true, Bool.and_self, if_true,
    the_enum_eval st.thes s c hmem h5, hval, toString_natCast_succ, Except.ok.injEq] at hcap
  rw [← hcap]

/-- on an acyclic store an unlabelled item always goes through (no exception) -/
theorem item_returns (st : St) (k : Nat) (r : List Nat) (tag : String) (hinv : ListInv st (k :: r))
    (h : Name → Nat) (hr : Ranked (skel st.store) h) (hb : ∀ x, h x ≤ st.store.length) :
    ∃ st', step st (.item tag false) = .ok st' := by
  obtain ⟨h1, h2, h3, _, h5, _⟩ := hinv
  simp only [List.length_cons] at h1 h2
  have hlen : r.length < 4 := by omega
  have hcur : (pyIndex listCounters (st.depth - 1)).getD "enumi" = listCounters.getD r.length "enumi" := by
    rw [h1]; exact pyIndex_cur r.length hlen
  obtain ⟨hv, hmem⟩ := enumVals_top st.store k r hlen h3
  generalize listCounters.getD r.length "enumi" = c at hcur hv hmem
  have hne : c ≠ "" := by intro hc; rw [hc] at hmem; revert hmem; decide
  have hcb : (c == "") = false := by simpa using hne
  have hcn : (c != "") = true := by simpa using hne
  have hlv : decide (commandLevel > endSectionsLevel) = true := by decide
  have he := ensure_of_some st.store c k hv
  obtain ⟨s', hs'⟩ : ∃ s', stepc st.store c = .ok s' := by
    simp only [stepc, he]
    exact resetFrom_ok (skel st.store) h hr _ _ _ (skel_setVal _ _ _) (by have := hb c; simp [fuelOf]; omega)
  refine ⟨{ st with store := s', outs := ⟨tag, some (toString (valD s' c))⟩ :: st.outs }, ?_⟩
  show numbered st tag ((pyIndex listCounters (st.depth - 1)).getD "enumi") false commandLevel = _
  rw [hcur]
  simp only [numbered, Bool.false_eq_true, if_false, stepOwn, hcb, hs', capture, hcn, hlv, Bool.or_true,
    Bool.and_self, if_true, the_enum_eval st.thes s' c hmem h5]

/-! ## histories -/

theorem listInv_run : ∀ (evs : List Ev) (st st' : St) (stk stk' : List Nat), ListInv st stk →
    (∀ e ∈ evs, listSafe e = true) → stackAfter stk evs = some stk' → run st evs = .ok st' → ListInv st' stk' := by
  intro evs
  induction evs with
  | nil =>
    intro st st' stk stk' hinv _ hstk h
    simp only [stackAfter, Option.some.injEq] at hstk
    simp only [run, Except.ok.injEq] at h
    subst hstk; subst h; exact hinv
  | cons e es ih =>
    intro st st' stk stk' hinv hsafe hstk h
    simp only [stackAfter] at hstk
    simp only [run] at h
    cases hs : stackStep stk e with
    | none => rw [hs] at hstk; cases hstk
    | some stk1 =>
      rw [hs] at hstk
      cases h1 : step st e with
      | error err => rw [h1] at h; cases h
      | ok st1 =>
        rw [h1] at h
        exact ih st1 st' stk1 stk' (listInv_step st st1 stk stk1 e hinv (hsafe e List.mem_cons_self) hs h1)
          (fun e' he' => hsafe e' (List.mem_cons_of_mem _ he')) hstk h

theorem listInvoke_outs (st : St) (d : Int) : (listInvoke st d).outs = st.outs := rfl

/-- a history made of list events only prints exactly the item trace -/
theorem itemTrace_run : ∀ (evs : List Ev) (st st' : St) (stk : List Nat) (outs : List Out), ListInv st stk →
    itemTrace stk evs = some outs → run st evs = .ok st' → st'.outs = outs.reverse ++ st.outs := by
  intro evs
  induction evs with
  | nil =>
    intro st st' stk outs _ ht h
    simp only [itemTrace, Option.some.injEq] at ht
    simp only [run, Except.ok.injEq] at h
    subst ht; subst h; rfl
  | cons e es ih =>
    intro st st' stk outs hinv ht h
    simp only [run] at h
    cases h1 : step st e with
    | error err => rw [h1] at h; cases h
    | ok st1 =>
      rw [h1] at h
      cases e with
      | beginList =>
        simp only [itemTrace] at ht
        split at ht
        · rename_i hlt
          have hinv1 := listInv_step st st1 stk (0 :: stk) .beginList hinv rfl (by simp [stackStep, hlt]) h1
          have := ih st1 st' (0 :: stk) outs hinv1 ht h
          simp only [step, Except.ok.injEq] at h1
          rw [this, ← h1, listInvoke_outs]
        · cases ht
      | endList =>
        cases stk with
        | nil => simp [itemTrace] at ht
        | cons k r =>
          simp only [itemTrace] at ht
          have hinv1 := listInv_step st st1 (k :: r) r .endList hinv rfl (by simp [stackStep]) h1
          have := ih st1 st' r outs hinv1 ht h
          simp only [step, Except.ok.injEq] at h1
          rw [this, ← h1, listInvoke_outs]
      | item tag hasTerm =>
        cases stk with
        | nil => cases hasTerm <;> simp [itemTrace] at ht
        | cons k r =>
          cases hasTerm with
          | false =>
            simp only [itemTrace, Option.map_eq_some_iff] at ht
            obtain ⟨outs1, ht1, rfl⟩ := ht
            have hinv1 := listInv_step st st1 (k :: r) ((k + 1) :: r) (.item tag false) hinv rfl
              (by simp [stackStep]) h1
            have := ih st1 st' ((k + 1) :: r) outs1 hinv1 ht1 h
            rw [this, item_prints st st1 k r tag hinv h1]
            simp
          | true =>
            simp only [itemTrace, Option.map_eq_some_iff] at ht
            obtain ⟨outs1, ht1, rfl⟩ := ht
            have hinv1 := listInv_step st st1 (k :: r) (k :: r) (.item tag true) hinv rfl
              (by simp [stackStep]) h1
            have := ih st1 st' (k :: r) outs1 hinv1 ht1 h
            have ho : st1.outs = ⟨tag, none⟩ :: st.outs := by
              simp [step, numbered, stepOwn, capture] at h1
              rw [← h1]
            rw [this, ho]
            simp
      | construct _ _ _ _ => cases stk <;> simp [itemTrace] at ht
      | thm _ => cases stk <;> simp [itemTrace] at ht
      | setc _ _ => cases stk <;> simp [itemTrace] at ht
      | addc _ _ => cases stk <;> simp [itemTrace] at ht
      | stepc _ => cases stk <;> simp [itemTrace] at ht
      | newcounter _ _ => cases stk <;> simp [itemTrace] at ht
      | newtheorem _ _ _ _ => cases stk <;> simp [itemTrace] at ht
      | eqnBegin => cases stk <;> simp [itemTrace] at ht
      | eqRow => cases stk <;> simp [itemTrace] at ht
      | nonumber => cases stk <;> simp [itemTrace] at ht
      | appendix _ => cases stk <;> simp [itemTrace] at ht
      | «show» _ _ => cases stk <;> simp [itemTrace] at ht
      | showThe _ => cases stk <;> simp [itemTrace] at ht
      | renewThe _ _ => cases stk <;> simp [itemTrace] at ht
      | setcv _ _ => cases stk <;> simp [itemTrace] at ht
      | addcv _ _ => cases stk <;> simp [itemTrace] at ht
      | initc _ _ => cases stk <;> simp [itemTrace] at ht

end PlasVerif.Proofs.EnumLists
